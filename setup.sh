#!/bin/bash
# Build the whole Coq development once (offline) and warm the numba cache.
set -e
cd "$(dirname "$0")"
mkdir -p build evidence
python3 tools/translate/gen.py --repo "${VERIF_REPO:-/repo}"
python3 - <<'PY'
import sys
sys.path.insert(0, "tools/lib")
import vlib
vlib.coq_makefile()
PY
# -k: one broken file must not prevent the others from being built; each check re-makes what it needs and reports its own failures
(cd coq && timeout 3000 make -k -j"$(nproc)" --no-print-directory >/dev/null 2>build_setup.log) || echo "coq build had failures (see coq/build_setup.log); checks will report them"
echo '{"seed":0,"n":4}' | PYTHONPATH="${VERIF_REPO:-/repo}" NUMBA_CACHE_DIR=$PWD/build/numba /venv/bin/python tools/impl/c02.py >/dev/null 2>&1 || true
echo setup ok
