#!/bin/bash
# Build the whole Coq development once (offline) and warm the numba cache.
set -e
cd "$(dirname "$0")"
mkdir -p build evidence
python3 tools/translate/gen.py --repo "${VERIF_REPO:-/repo}"
python3 - <<'PY'
import sys
sys.path.insert(0, "tools/lib")
import vlib
vlib.coq_makefile()
PY
(cd coq && timeout 3000 make -j"$(nproc)" --no-print-directory >/dev/null) || { echo "coq build failed"; exit 1; }
echo '{"seed":0,"n":4}' | PYTHONPATH="${VERIF_REPO:-/repo}" NUMBA_CACHE_DIR=$PWD/build/numba /venv/bin/python tools/impl/c02.py >/dev/null 2>&1 || true
echo setup ok
