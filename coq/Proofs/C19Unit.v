(* C19 -- every grid point is a unit quaternion / unit vector, for every step
   count (hence every resolution).  The SO(3) statements are about the GENERATED
   kernels (eu2qu_single; cu2ro_single, ro2ax_single, ax2qu_single) composed as
   the sampling code composes them. *)
From Coq Require Import Reals ZArith List Bool Lia Lra Nsatz.
From Verif Require Import Scalar RInst QuatKernels Conversions Quat QuatAlg ConvEuler C19Model.
From Verif.Gen Require Import C20Stereo.
Import ListNotations.
Local Open Scope R_scope.

Notation RQ := (quatT (T:=R)).
Notation RV := (vecT (T:=R)).

Definition n2 (v : RV) : R := let '(x, y, z) := v in x * x + y * y + z * z.

(* ------------------------------------------------------------- linspace *)
Lemma removelast_map_seq {A} (f : nat -> A) m :
  removelast (map f (seq 0 (S m))) = map f (seq 0 m).
Proof.
  rewrite seq_S, map_app. cbn [map plus]. apply removelast_last.
Qed.

Lemma ofN_R n : ofN ROps n = INR n.
Proof. unfold ofN. rsimpl. symmetry. apply INR_IZR_INZ. Qed.

Lemma linspace_closed_bounds a b n x : a <= b ->
  In x (linspace ROps a b n true) -> a <= x <= b.
Proof.
  intros Hab. unfold linspace. rewrite ofN_R. cbn [andb].
  destruct (1 <? n)%nat eqn:E.
  - apply Nat.ltb_lt in E. destruct n as [|m]; [lia|].
    rewrite removelast_map_seq. intros H. apply in_app_or in H. destruct H as [H|[<-|[]]]; [|lra].
    apply in_map_iff in H. destruct H as [i [<- Hi]]. apply in_seq in Hi. rsimpl. rewrite ofN_R.
    replace (S m - 1)%nat with m by lia.
    replace (m =? 0)%nat with false by (symmetry; apply Nat.eqb_neq; lia).
    assert (Hm : 0 < INR m) by (apply lt_0_INR; lia).
    assert (H0 : 0 <= INR i) by apply pos_INR.
    assert (H1 : INR i < INR m) by (apply lt_INR; lia).
    assert (Hq : 0 <= INR i / INR m <= 1).
    { split; [apply Rmult_le_pos; [lra|left; apply Rinv_0_lt_compat; lra]|].
      apply Rmult_le_reg_r with (INR m); [lra|]. unfold Rdiv. rewrite Rmult_assoc, Rinv_l by lra. lra. }
    replace (INR i * ((b - a) / INR m) + a) with (a + (INR i / INR m) * (b - a)) by (field; lra).
    nra.
  - apply Nat.ltb_ge in E. intros H. apply in_map_iff in H. destruct H as [i [<- Hi]].
    apply in_seq in Hi. assert (i = 0)%nat by lia. subst i. rsimpl. rewrite ofN_R. simpl INR.
    destruct (n - 1 =? 0)%nat; lra.
Qed.

(* ------------------------------------------------- Haar-Euler grid: unit *)
Lemma haar_euler_unit n q : In q (haar_euler_grid ROps n) ->
  qnorm2 ROps q = 1 /\ 0 <= (let '(a, _, _, _) := q in a).
Proof.
  unfold haar_euler_grid. intros H. apply in_map_iff in H. destruct H as [e [<- _]].
  split; [apply eu2qu_unit | apply eu2qu_scalar_nonneg].
Qed.

(* --------------------------------------- three-uniform-samples grid: unit *)
Lemma three_uniform_point_unit u1 u2 u3 : 0 <= u1 <= 1 ->
  qnorm2 ROps (three_uniform_point ROps u1 u2 u3) = 1.
Proof.
  intros [H0 H1]. unfold three_uniform_point, qnorm2, twopi, c1, c2. rsimpl.
  pose proof (pyth (2 * PI * u2)) as P2. pose proof (pyth (2 * PI * u3)) as P3.
  assert (Ha : sqrt (1 - u1) * sqrt (1 - u1) = 1 - u1) by (apply sqrt_sqrt; lra).
  assert (Hb : sqrt u1 * sqrt u1 = u1) by (apply sqrt_sqrt; lra).
  generalize dependent (sqrt (1 - u1)). generalize dependent (sqrt u1).
  generalize dependent (sin (2 * PI * u2)). generalize dependent (cos (2 * PI * u2)).
  generalize dependent (sin (2 * PI * u3)). generalize dependent (cos (2 * PI * u3)).
  intros. nsatz.
Qed.

Lemma three_uniform_mesh_unit u_1 u_2 u_3 q :
  (forall u, In u u_1 -> 0 <= u <= 1) ->
  In q (three_uniform_mesh ROps u_1 u_2 u_3) -> qnorm2 ROps q = 1.
Proof.
  intros Hu H. unfold three_uniform_mesh in H.
  apply in_flat_map in H. destruct H as [u2 [_ H]].
  apply in_flat_map in H. destruct H as [u1 [H1 H]].
  apply in_map_iff in H. destruct H as [u3 [<- _]].
  apply three_uniform_point_unit. auto.
Qed.

Lemma three_uniform_unit n q : In q (three_uniform_grid ROps n) -> qnorm2 ROps q = 1.
Proof.
  apply three_uniform_mesh_unit. intros u Hu.
  apply (linspace_closed_bounds 0 1 n u); [lra|]. exact Hu.
Qed.

Lemma u_1_max_range w : 0 <= u_1_max ROps w <= 1.
Proof.
  unfold u_1_max, e_1_min, c1. rsimpl.
  match goal with |- context [cos ?t] => pose proof (COS_bound t) as [A B]; generalize dependent (cos t) end.
  intros e A B. split; nra.
Qed.

Lemma three_uniform_local_unit n num1 num2 w q :
  In q (three_uniform_local_grid ROps n num1 num2 w) -> qnorm2 ROps q = 1.
Proof.
  apply three_uniform_mesh_unit. intros u Hu. pose proof (u_1_max_range w) as [A B].
  apply (linspace_closed_bounds 0 (u_1_max ROps w) num1 u) in Hu; [|exact A]. lra.
Qed.

(* ---------------------------------------------- cubochoric grid: unit *)
Lemma ax2qu_unit x y z w : x * x + y * y + z * z = 1 ->
  qnorm2 ROps (ax2qu_single ROps x y z w) = 1.
Proof.
  intros Hn. unfold qnorm2, ax2qu_single. cbv zeta. rsimpl.
  match goal with |- context [if ?b then _ else _] => destruct b end.
  - ring.
  - pose proof (pyth (w * (1 / 2))) as P.
    set (c := cos (w * (1 / 2))) in *. set (s := sin (w * (1 / 2))) in *.
    replace (c * c + x * s * (x * s) + y * s * (y * s) + z * s * (z * s)) with 1 by nsatz.
    rewrite sqrt_1. transitivity (c * c + (x * x + y * y + z * z) * (s * s)); [field | rewrite Hn; lra].
Qed.

Definition axis_unit (a : RQ) : Prop := let '(x, y, z, _) := a in x * x + y * y + z * z = 1.

Lemma normalise_unit x y z : x * x + y * y + z * z <> 0 ->
  let s := sqrt (x * x + y * y + z * z) in x / s * (x / s) + y / s * (y / s) + z / s * (z / s) = 1.
Proof.
  intros Hn s. assert (Hp : 0 < x * x + y * y + z * z) by nra.
  assert (Hs : s * s = x * x + y * y + z * z) by (apply sqrt_sqrt; lra).
  assert (Hs0 : 0 < s) by (apply sqrt_lt_R0; exact Hp).
  transitivity ((x * x + y * y + z * z) / (s * s)); [field; lra | rewrite Hs; field; lra].
Qed.

Lemma ho2ax_axis_unit h0 h1 h2 : axis_unit (ho2ax_single ROps h0 h1 h2).
Proof.
  unfold ho2ax_single. cbv zeta.
  destruct (o_ltb ROps (o_ofQ ROps (-1) 100000000) _ && _) eqn:E1.
  - unfold axis_unit. rsimpl. ring.
  - assert (Hm : h0 * h0 + h1 * h1 + h2 * h2 <> 0).
    { intros Hz. apply andb_false_iff in E1. rsimpl. rewrite Hz in E1.
      destruct E1 as [E|E]; apply Rltb_false in E; lra. }
    match goal with |- context [if ?b then _ else _] => destruct b end;
      unfold axis_unit; rsimpl; apply (normalise_unit h0 h1 h2 Hm).
Qed.

Lemma ax2ro_axis_unit a : axis_unit a ->
  axis_unit (let '(x, y, z, w) := a in ax2ro_single ROps x y z w).
Proof.
  destruct a as [[[x y] z] w]. intros H. unfold ax2ro_single.
  repeat match goal with |- context [if ?b then _ else _] => destruct b end;
    unfold axis_unit in *; rsimpl; try exact H; ring.
Qed.

Lemma ro2ax_axis_unit r : axis_unit r ->
  axis_unit (let '(x, y, z, w) := r in ro2ax_single ROps x y z w).
Proof.
  destruct r as [[[x y] z] w]. intros H. unfold ro2ax_single. cbv zeta.
  repeat match goal with |- context [if ?b then _ else _] => destruct b end;
    unfold axis_unit in *; rsimpl; try exact H; try ring.
  apply normalise_unit. rewrite H. lra.
Qed.

Lemma cu2ro_axis_unit x y z : axis_unit (cu2ro_single ROps x y z).
Proof.
  unfold cu2ro_single.
  match goal with |- context [if ?b then _ else _] => destruct b end.
  - unfold axis_unit. rsimpl. ring.
  - unfold ho2ro_single.
    set (ho := cu2ho_single ROps x y z).
    pose proof (ho2ax_axis_unit (fst (fst ho)) (snd (fst ho)) (snd ho)) as H.
    set (ax := ho2ax_single ROps (fst (fst ho)) (snd (fst ho)) (snd ho)) in *.
    apply ax2ro_axis_unit in H. destruct ax as [[[a b] c] d]. cbn [fst snd] in *.
    destruct (ax2ro_single ROps a b c d) as [[[r0 r1] r2] r3]. cbn [fst snd]. exact H.
Qed.

Lemma cubo_point_unit x y z : qnorm2 ROps (cubo_point ROps x y z) = 1.
Proof.
  unfold cubo_point. pose proof (cu2ro_axis_unit x y z) as H.
  destruct (cu2ro_single ROps x y z) as [[[r0 r1] r2] r3].
  apply (ro2ax_axis_unit (r0, r1, r2, r3)) in H.
  destruct (ro2ax_single ROps r0 r1 r2 r3) as [[[a0 a1] a2] a3].
  apply ax2qu_unit. exact H.
Qed.

Lemma cubochoric_unit N q : In q (cubochoric_grid ROps N) -> qnorm2 ROps q = 1.
Proof.
  unfold cubochoric_grid, cubochoric_loop. intros H.
  apply in_flat_map in H. destruct H as [i [_ H]].
  apply in_flat_map in H. destruct H as [j [_ H]].
  apply in_flat_map in H. destruct H as [k [_ H]].
  unfold cubo_cell in H.
  match type of H with context [if ?b then _ else _] => destruct b end; [destruct H|].
  destruct H as [<-|[]]. apply cubo_point_unit.
Qed.

Lemma so3_grid_unit method n q : In q (so3_grid ROps method n) -> qnorm2 ROps q = 1.
Proof.
  unfold so3_grid. destruct (method =? 1)%Z; [apply haar_euler_unit|].
  destruct (method =? 2)%Z; [apply three_uniform_unit | apply cubochoric_unit].
Qed.

(* the loop never discards a point of the index range -N < i <= N, and this does
   not hinge on the exact value of the step: it is enough that the outermost
   coordinate N * step stays within the guard's tolerance, |N * step| <= L + 1e-8
   (the guard compares with  semi_edge_length + 1e-8 ; in floating point
   N * (L / N) can exceed L by an ulp, e.g. N = 65).  For the exact step L / N the
   grid has (2N)^3 points *)
Lemma zrange_length lo hi : length (zrange lo hi) = Z.to_nat (hi - lo).
Proof. unfold zrange. rewrite map_length, seq_length. reflexivity. Qed.

Lemma zrange_in lo hi i : In i (zrange lo hi) -> (lo <= i < hi)%Z.
Proof.
  unfold zrange. intros H. apply in_map_iff in H. destruct H as [k [<- Hk]]. apply in_seq in Hk. lia.
Qed.

Lemma semi_edge_pos : 0 < semi_edge_length ROps.
Proof.
  unfold semi_edge_length. rsimpl. unfold Rrpow.
  destruct (Req_EM_T PI 0) as [E|E]; [pose proof PI_RGT_0; lra|].
  apply Rmult_lt_0_compat; [lra|]. unfold Rpower. apply exp_pos.
Qed.

Definition guard_tol : R := 1 / 100000000.

Lemma coord_in_cube N step i : (0 < N)%Z -> (- N < i <= N)%Z ->
  IZR N * Rabs step <= semi_edge_length ROps + guard_tol ->
  Rabs (IZR i * step) <= semi_edge_length ROps + guard_tol.
Proof.
  intros HN Hi Hs. rewrite Rabs_mult.
  assert (Hq : Rabs (IZR i) <= IZR N).
  { apply Rabs_le. split; [rewrite <- opp_IZR|]; apply IZR_le; lia. }
  pose proof (Rabs_pos step). pose proof (Rabs_pos (IZR i)). nra.
Qed.

Lemma omax_le a b L : a <= L -> b <= L -> o_max ROps a b <= L.
Proof. intros. unfold o_max. rsimpl. destruct (Rltb a b); lra. Qed.

Lemma cubo_cell_kept N step i j k : (0 < N)%Z ->
  IZR N * Rabs step <= semi_edge_length ROps + guard_tol ->
  (- N < i <= N)%Z -> (- N < j <= N)%Z -> (- N < k <= N)%Z ->
  length (cubo_cell ROps step i j k) = 1%nat.
Proof.
  intros HN Hs Hi Hj Hk. unfold cubo_cell, max_abs3.
  pose proof (coord_in_cube N step i HN Hi Hs) as H1. pose proof (coord_in_cube N step j HN Hj Hs) as H2.
  pose proof (coord_in_cube N step k HN Hk Hs) as H3.
  pose proof (omax_le _ _ _ (omax_le _ _ _ H1 H2) H3) as H.
  change (o_mul ROps) with Rmult. change (o_ofZ ROps) with IZR. change (o_abs ROps) with Rabs.
  destruct (o_ltb ROps _ _) eqn:E; [|reflexivity].
  apply Rltb_true in E. unfold guard_tol in H. revert E. rsimpl. intros E. lra.
Qed.

Lemma flat_map_const_length {A B} (f : A -> list B) (l : list A) m :
  (forall a, In a l -> length (f a) = m) -> length (flat_map f l) = (length l * m)%nat.
Proof.
  induction l as [|a l IH]; intros H; [reflexivity|].
  cbn [flat_map length]. rewrite app_length.
  rewrite (H a) by (left; reflexivity). rewrite IH by (intros b Hb; apply H; right; exact Hb). lia.
Qed.

Lemma cubochoric_loop_size N step : (0 < N)%Z ->
  IZR N * Rabs step <= semi_edge_length ROps + guard_tol ->
  length (cubochoric_loop ROps step N) = (Z.to_nat (2 * N) * Z.to_nat (2 * N) * Z.to_nat (2 * N))%nat.
Proof.
  intros HN Hs. unfold cubochoric_loop.
  assert (HL : length (zrange (- N + 1) (N + 1)) = Z.to_nat (2 * N)) by (rewrite zrange_length; f_equal; lia).
  rewrite (flat_map_const_length _ _ (Z.to_nat (2 * N) * Z.to_nat (2 * N))).
  - rewrite HL. lia.
  - intros i Hi. apply zrange_in in Hi.
    rewrite (flat_map_const_length _ _ (Z.to_nat (2 * N))); [rewrite HL; lia|].
    intros j Hj. apply zrange_in in Hj.
    rewrite (flat_map_const_length _ _ 1%nat); [rewrite HL; lia|].
    intros k Hk. apply zrange_in in Hk. apply (cubo_cell_kept N); (assumption || lia).
Qed.

Lemma cubochoric_size N : (0 < N)%Z ->
  length (cubochoric_grid ROps N) = (Z.to_nat (2 * N) * Z.to_nat (2 * N) * Z.to_nat (2 * N))%nat.
Proof.
  intros HN. unfold cubochoric_grid. apply cubochoric_loop_size; [exact HN|].
  pose proof semi_edge_pos as HL. assert (HNr : 0 < IZR N) by (apply IZR_lt; exact HN).
  change (o_div ROps) with Rdiv. change (o_ofZ ROps) with IZR. unfold guard_tol.
  rewrite Rabs_right by (apply Rle_ge; apply Rmult_le_pos; [lra | left; apply Rinv_0_lt_compat; lra]).
  replace (IZR N * (semi_edge_length ROps / IZR N)) with (semi_edge_length ROps) by (field; lra). lra.
Qed.

(* ------------------------------------------------------------- S2 meshes *)
Lemma vunit19_unit v : n2 v <> 0 -> n2 (vunit19 ROps v) = 1.
Proof.
  destruct v as [[x y] z]. unfold n2, vunit19, vnorm19, c0. rsimpl. intros Hn.
  assert (Hp : 0 < x * x + y * y + z * z) by nra.
  destruct (Reqb (sqrt (x * x + y * y + z * z)) 0) eqn:E.
  - apply Reqb_true in E. apply sqrt_eq_0 in E; lra.
  - apply (normalise_unit x y z Hn).
Qed.

Lemma vunit19_of_unit v : n2 v = 1 -> vunit19 ROps v = v.
Proof.
  destruct v as [[x y] z]. unfold n2, vunit19, vnorm19, c0. rsimpl. intros Hn.
  rewrite Hn, sqrt_1. destruct (Reqb 1 0) eqn:E; [apply Reqb_true in E; lra|].
  tuple_eq; field.
Qed.

Lemma vunit19_unit_or_zero v : n2 (vunit19 ROps v) = 1 \/ vunit19 ROps v = (0, 0, 0).
Proof.
  destruct (Req_dec (n2 v) 0) as [E|E]; [right|left; apply vunit19_unit; exact E].
  destruct v as [[x y] z]. unfold n2 in E. unfold vunit19, vnorm19, c0. rsimpl.
  rewrite E, sqrt_0. destruct (Reqb 0 0) eqn:E0; [reflexivity|apply Reqb_false in E0; lra].
Qed.

Lemma from_polar1_unit ap : n2 (from_polar1 ROps ap) = 1.
Proof.
  destruct ap as [a p]. unfold from_polar1, from_polar, n2, c1. cbv zeta. cbn [fst snd]. rsimpl.
  pose proof (pyth a). pose proof (pyth p). nsatz.
Qed.

(* uv and equal-area meshes: every returned vector is exactly the polar-coordinate
   vector of its (azimuth, polar) pair, and it is a unit vector -- for all lists of
   angles, i.e. all resolutions *)
Lemma polar_vectors_unit azimuth polar v : In v (polar_vectors ROps azimuth polar) ->
  n2 v = 1 /\ exists a p, In a azimuth /\ In p polar /\ v = from_polar1 ROps (a, p).
Proof.
  unfold polar_vectors, polar_mesh. intros H. apply in_map_iff in H. destruct H as [[a p] [<- H]].
  apply filter_In in H. destruct H as [H _]. apply in_flat_map in H. destruct H as [p' [Hp H]].
  apply in_map_iff in H. destruct H as [a' [E Ha]]. inversion E; subst a' p'.
  rewrite vunit19_of_unit by apply from_polar1_unit. split; [apply from_polar1_unit|].
  exists a, p. auto.
Qed.

Lemma uv_mesh_unit na np v : In v (uv_mesh ROps na np) -> n2 v = 1.
Proof. intros H. apply (polar_vectors_unit _ _ v H). Qed.

Lemma equal_area_mesh_unit na np v : In v (equal_area_mesh ROps na np) -> n2 v = 1.
Proof. intros H. apply (polar_vectors_unit _ _ v H). Qed.

(* cube meshes: every raw point has a coordinate +-1, so none is the zero vector
   and every returned vector is a unit vector -- for every edge grid *)
Lemma cube_points_nonzero g p : In p (cube_points ROps g) -> 1 <= n2 p.
Proof.
  unfold cube_points, c1. rsimpl. intros H.
  repeat (apply in_app_or in H; destruct H as [H|H]);
    try (apply in_map_iff in H; destruct H as [[x y] [<- _]]; unfold n2; cbn [fst snd]; nra).
  destruct H as [<-|[<-|[]]]; unfold n2; lra.
Qed.

Lemma cube_mesh_unit grid_type n v : In v (cube_mesh ROps grid_type n) -> n2 v = 1.
Proof.
  unfold cube_mesh. intros H. apply in_map_iff in H. destruct H as [p [<- Hp]].
  apply vunit19_unit. apply cube_points_nonzero in Hp. lra.
Qed.

(* hexagonal / icosahedral meshes: normalisation returns a unit vector for every
   non-zero raw point (that no raw point is the zero vector is not proved) *)
Lemma normalised_mesh_unit (raw : list RV) v : In v (map (vunit19 ROps) raw) ->
  n2 v = 1 \/ v = (0, 0, 0).
Proof. intros H. apply in_map_iff in H. destruct H as [p [<- _]]. apply vunit19_unit_or_zero. Qed.
