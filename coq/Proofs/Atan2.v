(* Specification of Ratan2 (numpy.arctan2 on reals) and periodicity of the
   python-style mod, over R. *)
From Coq Require Import Reals ZArith Lra Lia.
From Verif Require Import Scalar RInst.
Local Open Scope R_scope.

Lemma sqrt_1_t2_pos t : 0 < sqrt (1 + t²).
Proof. apply sqrt_lt_R0. unfold Rsqr. nra. Qed.

(* for x > 0:  sqrt (1 + (y/x)^2) = sqrt (x^2+y^2) / x *)
Lemma sqrt_ratio x y : 0 < x -> sqrt (1 + (y / x)²) = sqrt (x * x + y * y) / x.
Proof.
  intros Hx. 
  replace (1 + (y / x)²) with ((x * x + y * y) / (x * x)) by (unfold Rsqr; field; lra).
  rewrite sqrt_div_alt by nra. rewrite sqrt_square by lra. reflexivity.
Qed.

Lemma sqrt_ratio_neg x y : x < 0 -> sqrt (1 + (y / x)²) = sqrt (x * x + y * y) / (- x).
Proof.
  intros Hx.
  replace (y / x) with ((- y) / (- x)) by (field; lra).
  rewrite sqrt_ratio by lra. f_equal. f_equal. ring.
Qed.

Theorem atan2_spec y x :
  x * x + y * y <> 0 ->
  cos (Ratan2 y x) = x / sqrt (x * x + y * y) /\
  sin (Ratan2 y x) = y / sqrt (x * x + y * y).
Proof.
  intros Hne.
  assert (Hr : 0 < sqrt (x * x + y * y)) by (apply sqrt_lt_R0; nra).
  unfold Ratan2.
  destruct (Rlt_dec 0 x) as [Hx|Hx].
  - rewrite cos_atan, sin_atan, sqrt_ratio by assumption. split; field; lra.
  - destruct (Rlt_dec x 0) as [Hx'|Hx'].
    + destruct (Rle_dec 0 y).
      * rewrite cos_plus, sin_plus, cos_PI, sin_PI, cos_atan, sin_atan, sqrt_ratio_neg by assumption.
        split; field; lra.
      * unfold Rminus. rewrite cos_plus, sin_plus, cos_neg, sin_neg, cos_PI, sin_PI,
          cos_atan, sin_atan, sqrt_ratio_neg by assumption.
        split; field; lra.
    + assert (x = 0) by lra. subst x.
      replace (0 * 0 + y * y) with (y * y) in * by ring.
      destruct (Rlt_dec 0 y).
      * rewrite cos_PI2, sin_PI2, sqrt_square by lra. split; field; lra.
      * destruct (Rlt_dec y 0).
        -- rewrite cos_neg, sin_neg, cos_PI2, sin_PI2.
           replace (y * y) with ((- y) * (- y)) by ring. rewrite sqrt_square by lra.
           split; field; lra.
        -- exfalso. apply Hne. assert (y = 0) by lra. subst. ring.
Qed.

(* on the unit circle *)
Corollary atan2_unit y x : x * x + y * y = 1 -> cos (Ratan2 y x) = x /\ sin (Ratan2 y x) = y.
Proof.
  intros H. destruct (atan2_spec y x) as [Hc Hs]; [lra|].
  rewrite H, sqrt_1 in *. split; [rewrite Hc|rewrite Hs]; field.
Qed.

Lemma atan2_range y x : - PI <= Ratan2 y x <= PI.
Proof.
  unfold Ratan2. pose proof (atan_bound (y / x)) as Hb. pose proof PI_RGT_0 as Hpi.
  destruct (Rlt_dec 0 x); [lra|].
  destruct (Rlt_dec x 0) as [Hx|].
  - destruct (Rle_dec 0 y) as [Hy|Hy].
    + assert (y / x <= 0) by (unfold Rdiv; assert (/ x < 0) by (apply Rinv_lt_0_compat; lra); nra).
      assert (atan (y / x) <= 0).
      { destruct (Req_dec (y / x) 0) as [->|]; [rewrite atan_0; lra|].
        left. rewrite <- atan_0. apply atan_increasing. lra. }
      lra.
    + assert (0 < y / x) by (unfold Rdiv; assert (/ x < 0) by (apply Rinv_lt_0_compat; lra); nra).
      assert (0 < atan (y / x)) by (rewrite <- atan_0; apply atan_increasing; lra).
      lra.
  - destruct (Rlt_dec 0 y); [lra|]. destruct (Rlt_dec y 0); lra.
Qed.

(* periodicity over Z *)
Lemma cos_sin_period_Z x (k : Z) :
  cos (x - 2 * PI * IZR k) = cos x /\ sin (x - 2 * PI * IZR k) = sin x.
Proof.
  destruct k as [|p|p].
  - replace (x - 2 * PI * 0) with x by ring. auto.
  - rewrite <- (cos_period (x - 2 * PI * IZR (Z.pos p)) (Pos.to_nat p)).
    rewrite <- (sin_period (x - 2 * PI * IZR (Z.pos p)) (Pos.to_nat p)).
    rewrite INR_IZR_INZ, positive_nat_Z.
    replace (x - 2 * PI * IZR (Z.pos p) + 2 * IZR (Z.pos p) * PI) with x by ring. auto.
  - rewrite <- (cos_period x (Pos.to_nat p)), <- (sin_period x (Pos.to_nat p)).
    rewrite INR_IZR_INZ, positive_nat_Z.
    change (Z.neg p) with (- Z.pos p)%Z. rewrite opp_IZR.
    replace (x - 2 * PI * - IZR (Z.pos p)) with (x + 2 * IZR (Z.pos p) * PI) by ring. auto.
Qed.

Lemma cos_fmod x : cos (Rfmod x (PI * 2)) = cos x.
Proof. unfold Rfmod. replace (PI * 2) with (2 * PI) by ring. apply cos_sin_period_Z. Qed.
Lemma sin_fmod x : sin (Rfmod x (PI * 2)) = sin x.
Proof. unfold Rfmod. replace (PI * 2) with (2 * PI) by ring. apply cos_sin_period_Z. Qed.

(* python mod result lies in [0, b) for b > 0 *)
Lemma fmod_range x b : 0 < b -> 0 <= Rfmod x b < b.
Proof.
  intros Hb. unfold Rfmod.
  pose proof (base_Int_part (x / b)) as [H1 H2].
  assert (Hx : x = b * (x / b)) by (field; lra).
  split.
  - assert (b * IZR (Int_part (x / b)) <= b * (x / b)) by (apply Rmult_le_compat_l; lra). lra.
  - assert (b * (x / b) - b * IZR (Int_part (x / b)) < b * 1).
    { rewrite <- Rmult_minus_distr_l. apply Rmult_lt_compat_l; lra. }
    lra.
Qed.
