(* C12 -- lemmas about the crystal-map phase bookkeeping model (Model/C12Map.v). *)
From Coq Require Import ZArith List Bool String Lia Permutation.
From Verif Require Import C12Phases C12Map C12PhasesP.
Import ListNotations.
Open Scope Z_scope.

(* --------------------------------------------------------------- uniq *)
Lemma set_insert_In x l y : In y (set_insert x l) <-> y = x \/ In y l.
Proof.
  induction l as [|z r IH]; simpl; [intuition|].
  destruct (x <? z) eqn:E1; simpl; [intuition|].
  destruct (x =? z) eqn:E2; simpl.
  - apply Z.eqb_eq in E2. subst. intuition.
  - rewrite IH. intuition.
Qed.

Lemma set_insert_sorted x l : sortedZ l -> sortedZ (set_insert x l).
Proof.
  induction l as [|z r IH]; simpl; intros H; [split; [constructor|auto]|].
  destruct H as [H1 H2].
  destruct (x <? z) eqn:E1.
  - apply Z.ltb_lt in E1. simpl. repeat split; auto. constructor; auto.
    eapply Forall_impl; [|exact H1]. simpl; intros; lia.
  - apply Z.ltb_ge in E1. destruct (x =? z) eqn:E2; simpl; auto.
    apply Z.eqb_neq in E2. split; auto.
    apply Forall_forall. intros y Hy. apply set_insert_In in Hy.
    rewrite Forall_forall in H1. destruct Hy; [subst; lia|auto].
Qed.

Lemma uniq_In l x : In x (uniq l) <-> In x l.
Proof.
  induction l as [|y r IH]; simpl; [tauto|]. rewrite set_insert_In, IH. intuition.
Qed.

Lemma uniq_sorted l : sortedZ (uniq l).
Proof. induction l as [|y r IH]; simpl; auto. apply set_insert_sorted; auto. Qed.

Lemma uniq_nil l : uniq l = [] -> l = [].
Proof.
  destruct l as [|x r]; auto. intros H.
  assert (In x (uniq (x :: r))) by (apply uniq_In; left; auto). rewrite H in H0. inversion H0.
Qed.

(* ------------------------------------------------- masks and assignment *)
Lemma select_by_fill {A} (v : view) (c : A) : forall old,
  List.length v = List.length old ->
  select_by v (fill v c old) = repeat c (count v) /\
  select_by (map negb v) (fill v c old) = select_by (map negb v) old.
Proof.
  unfold count. induction v as [|b v IH]; intros [|x old] H; simpl in *; try discriminate; auto.
  destruct (IH old ltac:(lia)) as [H1 H2].
  destruct b; simpl; split; auto; f_equal; auto.
Qed.

Lemma select_by_scatter {A} (v : view) : forall (vals old : list A),
  List.length v = List.length old -> List.length vals = count v ->
  select_by v (scatter v vals old) = vals /\
  select_by (map negb v) (scatter v vals old) = select_by (map negb v) old.
Proof.
  unfold count. induction v as [|b v IH]; intros vals [|x old] H Hc; simpl in *; try discriminate.
  - destruct vals; [auto|discriminate].
  - destruct b; simpl in *.
    + destruct vals as [|y vals]; [discriminate|]. simpl in *.
      destruct (IH vals old ltac:(lia) ltac:(lia)) as [H1 H2]. split; [f_equal|]; auto.
    + destruct (IH vals old ltac:(lia) ltac:(lia)) as [H1 H2]. split; [|f_equal]; auto.
Qed.

Lemma fill_length {A} (v : view) (c : A) : forall old, List.length (fill v c old) = List.length old.
Proof. induction v as [|b v IH]; intros [|x old]; simpl; auto. Qed.

Lemma scatter_length {A} (v : view) : forall (vals old : list A),
  List.length (scatter v vals old) = List.length old.
Proof.
  induction v as [|b v IH]; intros vals [|x old]; simpl; auto.
  destruct b; [destruct vals|]; simpl; auto.
Qed.

Lemma fill_In {A} (v : view) (c : A) : forall old x, In x (fill v c old) -> x = c \/ In x old.
Proof.
  induction v as [|b v IH]; intros [|y old] x; simpl; auto.
  intros [H|H]; [destruct b; auto|]. destruct (IH _ _ H); auto.
Qed.

Lemma scatter_In {A} (v : view) : forall (vals old : list A) x,
  In x (scatter v vals old) -> In x vals \/ In x old.
Proof.
  induction v as [|b v IH]; intros vals [|y old] x; simpl; auto.
  destruct b.
  - destruct vals as [|z vals]; simpl.
    + intros [H|H]; auto. destruct (IH _ _ _ H); auto.
    + intros [H|H]; auto. destruct (IH _ _ _ H); auto.
  - simpl. intros [H|H]; auto. destruct (IH _ _ _ H); auto.
Qed.

Lemma select_by_In {A} (v : view) : forall (l : list A) x, In x (select_by v l) -> In x l.
Proof.
  induction v as [|b v IH]; intros [|y l] x; simpl; try tauto.
  destruct b; simpl; intros H; [destruct H; auto|]; right; apply IH; auto.
Qed.

(* ------------------------------------------- construction: reconciliation *)
Lemma sortedZ_combine_id (u : list Z) (vs : list phase) :
  sortedZ u -> dict_of_pairs (combine u vs) = combine u vs.
Proof. intros H. apply dict_of_pairs_id, combine_fst_NoDup, sortedZ_NoDup, H. Qed.

Lemma combine_ids (u : list Z) (vs : list phase) :
  List.length u = List.length vs -> ids (combine u vs) = u.
Proof.
  revert vs. induction u as [|x u IH]; intros [|y vs] H; simpl in *; try discriminate; auto.
  f_equal. apply IH. lia.
Qed.

Lemma combine_ids_snd (pl : plist) : combine (ids pl) (map snd pl) = pl.
Proof. induction pl as [|[k p] r IH]; simpl; auto. f_equal; auto. Qed.

Lemma filter_filter {A} (f g : A -> bool) (l : list A) :
  filter f (filter g l) = filter (fun x => f x && g x) l.
Proof.
  induction l as [|x l IH]; simpl; auto.
  destruct (g x) eqn:G, (f x) eqn:F; simpl; rewrite ?F, ?IH; auto.
Qed.

(* the deletion loop removes exactly the first nd listed ids that are absent from the data *)
Definition absent (u : list Z) (l : list Z) : list Z := filter (fun i => negb (memZ i u)) l.

Lemma del_loop_spec l : forall u nd pl,
  0 < nd -> NoDup (ids pl) ->
  del_loop l u nd pl =
  filter (fun kv => negb (memZ (fst kv) (firstn (Z.to_nat nd) (absent u l)))) pl.
Proof.
  induction l as [|i r IH]; intros u nd pl Hnd Hn; simpl.
  - rewrite firstn_nil. symmetry. apply filter_all_id. auto.
  - unfold absent. simpl. destruct (memZ i u) eqn:E; simpl.
    + replace (nd =? 0) with false by (symmetry; apply Z.eqb_neq; lia).
      apply IH; auto.
    + replace (Z.to_nat nd) with (S (Z.to_nat (nd - 1))) by lia. simpl.
      destruct (nd - 1 =? 0) eqn:E0.
      * apply Z.eqb_eq in E0. rewrite E0. simpl. rewrite dict_remove_filter by auto.
        apply filter_ext. intros [k p]. simpl. rewrite Z.eqb_sym. destruct (i =? k); auto.
      * apply Z.eqb_neq in E0. rewrite IH; [|lia|].
        -- rewrite dict_remove_filter by auto. rewrite filter_filter.
           apply filter_ext. intros [k p]. simpl.
           destruct (k =? i); simpl; [rewrite andb_false_r|rewrite andb_true_r]; auto.
        -- rewrite dict_remove_filter by auto. apply filter_NoDup_ids; auto.
Qed.

Lemma filter_split_length {A} (f : A -> bool) (l : list A) :
  (List.length (filter f l) + List.length (filter (fun x => negb (f x)) l) = List.length l)%nat.
Proof. induction l as [|x l IH]; simpl; auto. destruct (f x); simpl; lia. Qed.

Lemma filter_rev' {A} (f : A -> bool) (l : list A) : filter f (rev l) = rev (filter f l).
Proof.
  induction l as [|x l IH]; simpl; auto. rewrite filter_app, IH. simpl.
  destruct (f x); simpl; auto. rewrite app_nil_r. auto.
Qed.

Lemma absent_In u l x : In x (absent u l) <-> In x l /\ ~ In x u.
Proof.
  unfold absent. rewrite filter_In. rewrite negb_true_iff, memZ_false. tauto.
Qed.

(* a duplicate-free list exceeds another one at most by its members absent from it *)
Lemma absent_count (l u : list Z) : NoDup l ->
  (List.length l <= List.length u + List.length (absent u l))%nat.
Proof.
  intros Hn. unfold absent.
  pose proof (filter_split_length (fun i => memZ i u) l) as E.
  assert ((List.length (filter (fun i => memZ i u) l) <= List.length u)%nat).
  { apply NoDup_incl_length; [apply NoDup_filter; auto|].
    intros x Hx. apply filter_In in Hx. apply memZ_In. tauto. }
  lia.
Qed.

Lemma ids_filter_In f (pl : plist) x :
  In x (ids (filter (fun kv => f (fst kv)) pl)) <-> In x (ids pl) /\ f x = true.
Proof.
  unfold ids. rewrite !in_map_iff. split.
  - intros [kv [E H]]. apply filter_In in H. subst. split; [exists kv|]; tauto.
  - intros [[kv [E H]] F]. subst. exists kv. split; auto. apply filter_In. auto.
Qed.

(* removing a duplicate-free set D of listed ids shortens the list by |D| *)
Lemma filter_out_length (pl : plist) (D : list Z) :
  NoDup (ids pl) -> NoDup D -> incl D (ids pl) ->
  (List.length (filter (fun kv => negb (memZ (fst kv) D)) pl) + List.length D = List.length pl)%nat.
Proof.
  intros Hn Hd Hi.
  pose proof (filter_split_length (fun kv => memZ (fst kv) D) pl) as E.
  assert (P : Permutation (ids (filter (fun kv => memZ (fst kv) D) pl)) D).
  { apply NoDup_Permutation; auto.
    - apply (filter_NoDup_ids (fun kv => memZ (fst kv) D)); auto.
    - intros x. rewrite (ids_filter_In (fun i => memZ i D)). rewrite memZ_In. split; [tauto|].
      intros H. split; auto. }
  apply Permutation_length in P. unfold ids in P. rewrite map_length in P. lia.
Qed.

Definition drop_set (pl : plist) (u : list Z) : list Z :=
  firstn (List.length pl - List.length u) (absent u (rev (ids pl))).

Definition lookup_or_default (pl : plist) (i : Z) : phase :=
  match dict_get i pl with Some p => p | None => default_phase end.

(* the three cases of the reconciliation, as closed forms *)
Lemma reconcile_equal pl u : sortedZ u -> List.length pl = List.length u ->
  reconcile pl u = combine u (map snd pl).
Proof.
  intros Hu E. unfold reconcile. rewrite E, Z.sub_diag. simpl. apply sortedZ_combine_id; auto.
Qed.

Lemma reconcile_fewer pl u : sortedZ u -> (List.length pl < List.length u)%nat ->
  reconcile pl u = map (fun i => (i, lookup_or_default pl i)) u.
Proof.
  intros Hu E. unfold reconcile.
  replace (0 <? Z.of_nat (List.length pl) - Z.of_nat (List.length u)) with false
    by (symmetry; apply Z.ltb_ge; lia).
  replace (Z.of_nat (List.length pl) - Z.of_nat (List.length u) <? 0) with true
    by (symmetry; apply Z.ltb_lt; lia).
  set (m := map (fun i => (i, lookup_or_default pl i)) u).
  assert (Hm : ids m = u) by (unfold m, ids; rewrite map_map; simpl; apply map_id).
  assert (Hs : sortedk m) by (apply sortedk_ids; rewrite Hm; auto).
  assert (Hd : dict_of_pairs m = m).
  { apply dict_of_pairs_id. change (NoDup (ids m)). rewrite Hm. apply sortedZ_NoDup; auto. }
  unfold pl_of_dict.
  change (map (fun i : Z => (i, match dict_get i pl with Some p => p | None => default_phase end)) u) with m.
  rewrite Hd, sort_by_id_id by auto.
  rewrite <- Hm at 1. rewrite combine_ids_snd. exact Hd.
Qed.

Lemma firstn_In_own {A} n : forall (l : list A) x, In x (firstn n l) -> In x l.
Proof.
  induction n as [|n IH]; intros [|y l] x; simpl; try tauto.
  intros [H|H]; auto.
Qed.

Lemma reconcile_more pl u : sortedk pl -> sortedZ u -> (List.length u < List.length pl)%nat ->
  reconcile pl u =
  combine u (map snd (filter (fun kv => negb (memZ (fst kv) (drop_set pl u))) pl)).
Proof.
  intros Hs Hu E. unfold reconcile.
  replace (0 <? Z.of_nat (List.length pl) - Z.of_nat (List.length u)) with true
    by (symmetry; apply Z.ltb_lt; lia).
  rewrite del_loop_spec by (try lia; apply sortedk_NoDup; auto).
  rewrite sortedZ_combine_id by auto. unfold drop_set.
  replace (Z.to_nat (Z.of_nat (List.length pl) - Z.of_nat (List.length u)))
    with (List.length pl - List.length u)%nat by lia. auto.
Qed.

Lemma drop_set_props pl u : sortedk pl -> (List.length u < List.length pl)%nat ->
  NoDup (drop_set pl u) /\ incl (drop_set pl u) (ids pl) /\
  (forall x, In x (drop_set pl u) -> ~ In x u) /\
  List.length (drop_set pl u) = (List.length pl - List.length u)%nat.
Proof.
  intros Hs E. unfold drop_set.
  assert (Hn : NoDup (ids pl)) by (apply sortedk_NoDup; auto).
  assert (Hna : NoDup (absent u (rev (ids pl)))).
  { unfold absent. apply NoDup_filter, NoDup_rev; auto. }
  repeat split.
  - clear -Hna. revert Hna. generalize (absent u (rev (ids pl))) as l.
    generalize (List.length pl - List.length u)%nat as n.
    induction n as [|n IH]; intros [|x l] H; simpl; try constructor.
    + inversion H; subst. intros Hin. apply H2. eapply firstn_In_own; eauto.
    + inversion H; subst. auto.
  - intros x Hx. apply firstn_In_own in Hx. apply absent_In in Hx. apply in_rev. tauto.
  - intros x Hx. apply firstn_In_own in Hx. apply absent_In in Hx. tauto.
  - apply firstn_length_le.
    pose proof (absent_count (ids pl) u Hn) as C.
    unfold absent in *. rewrite filter_rev', rev_length. unfold ids in C. rewrite map_length in C.
    unfold ids. lia.
Qed.

(* after reconciliation the phase list has exactly the (indexed) ids of the data *)
Lemma reconcile_ids pl u : sortedk pl -> sortedZ u -> ids (reconcile pl u) = u.
Proof.
  intros Hs Hu.
  destruct (Nat.lt_trichotomy (List.length pl) (List.length u)) as [H|[H|H]].
  - rewrite reconcile_fewer by auto. unfold ids. rewrite map_map. simpl. apply map_id.
  - rewrite reconcile_equal by auto. apply combine_ids. rewrite map_length. auto.
  - rewrite reconcile_more by auto. apply combine_ids. rewrite map_length.
    destruct (drop_set_props pl u Hs H) as [H1 [H2 [_ H4]]].
    pose proof (filter_out_length pl (drop_set pl u) (sortedk_NoDup _ Hs) H1 H2). lia.
Qed.

(* every phase after reconciliation is one of the caller's or the default phase *)
Lemma reconcile_values pl u i p : sortedk pl -> sortedZ u ->
  In (i, p) (reconcile pl u) -> In p (map snd pl) \/ p = default_phase.
Proof.
  intros Hs Hu.
  destruct (Nat.lt_trichotomy (List.length pl) (List.length u)) as [H|[H|H]].
  - rewrite reconcile_fewer by auto. intros Hin. apply in_map_iff in Hin.
    destruct Hin as [j [E Hj]]. inversion E; subst. unfold lookup_or_default.
    destruct (dict_get i pl) eqn:G; auto. left. apply dict_get_In in G.
    apply (in_map snd) in G. auto.
  - rewrite reconcile_equal by auto. intros Hin. apply in_combine_r in Hin. auto.
  - rewrite reconcile_more by auto. intros Hin. apply in_combine_r in Hin. left.
    apply in_map_iff in Hin. destruct Hin as [kv [E Hk]]. apply filter_In in Hk.
    subst. apply in_map. tauto.
Qed.

Lemma pl_default_eq u : sortedZ u -> pl_default u = map (fun i => (i, default_phase)) u.
Proof.
  intros Hu. unfold pl_default.
  set (m := map (fun i => (i, default_phase)) u).
  assert (Hm : ids m = u) by (unfold m, ids; rewrite map_map; simpl; apply map_id).
  rewrite dict_of_pairs_id by (change (NoDup (ids m)); rewrite Hm; apply sortedZ_NoDup; auto).
  apply sort_by_id_id, sortedk_ids. rewrite Hm. auto.
Qed.

(* PhaseList(ids=u) as built by the constructor's field path *)
Lemma flat_nth_nil {A} i : @flat_nth A [] i = None.
Proof. unfold flat_nth. destruct i; reflexivity. Qed.

Lemma fields_loop_ids_only u : forall rest done d, u = done ++ rest ->
  fields_loop [] [] u (List.length done) (List.length rest) 0 d
  = Ok (fold_left (fun d kv => dict_set (fst kv) (snd kv) d) (map (fun i => (i, default_phase)) rest) d).
Proof.
  induction rest as [|x rest IH]; intros done d E; simpl; auto.
  rewrite !flat_nth_nil.
  assert (N : nth_error u (List.length done) = Some x).
  { rewrite E, nth_error_app2, Nat.sub_diag by lia. reflexivity. }
  rewrite N.
  replace (S (List.length done)) with (List.length (done ++ [x])) by (rewrite app_length; simpl; lia).
  apply IH. rewrite <- app_assoc. auto.
Qed.

Lemma pl_default_fields u : pl_of_fields [] [] (Some u) = Ok (pl_default u).
Proof.
  unfold pl_of_fields, pl_default.
  pose proof (fields_loop_ids_only u u [] [] eq_refl) as G. simpl in *. rewrite G. auto.
Qed.

Lemma sortedZ_tail_gt x r y : sortedZ (x :: r) -> In y r -> x < y.
Proof. simpl. intros [H _] Hy. rewrite Forall_forall in H. auto. Qed.

(* ids after construction = exactly the ids present in the data *)
Lemma init_phases_ids pid pl p :
  (forall pl0, pl = Some pl0 -> sortedk pl0) ->
  init_phases pid pl = Ok p -> ids p = uniq pid /\ sortedk p.
Proof.
  intros Hpl. unfold init_phases.
  pose proof (uniq_sorted pid) as Hu.
  destruct (uniq pid) as [|u0 ur] eqn:E; [discriminate|].
  intros H. inversion H; subst; clear H.
  set (u := if u0 =? -1 then ur else u0 :: ur).
  assert (Hsu : sortedZ u) by (unfold u; destruct (u0 =? -1); [apply Hu|auto]).
  set (q := match pl with None => pl_default u | Some pl0 => reconcile pl0 u end).
  assert (Hq : ids q = u).
  { unfold q. destruct pl as [pl0|].
    - apply reconcile_ids; auto.
    - rewrite pl_default_eq by auto. unfold ids. rewrite map_map. simpl. apply map_id. }
  assert (Hsq : sortedk q) by (apply sortedk_ids; rewrite Hq; auto).
  unfold u in *. destruct (u0 =? -1) eqn:E0.
  - apply Z.eqb_eq in E0. subst u0.
    rewrite add_not_indexed_new; auto.
    + simpl. rewrite Hq. split; auto. split; auto.
      destruct Hu as [Hu _]. rewrite <- Hq in Hu. unfold ids in Hu. rewrite Forall_map in Hu. auto.
    + rewrite Hq. destruct Hu as [Hu _]. auto.
  - auto.
Qed.

(* ====================================================== the invariant *)
(* phase list: ids strictly increasing; not_indexed <-> id -1; ids >= -1 *)
Definition PInv (pl : plist) : Prop :=
  sortedk pl /\
  (forall i p, In (i, p) pl -> (pname p = ni_name <-> i = -1)) /\
  (forall i, In i (ids pl) -> -1 <= i).

(* store: additionally every phase id of the data (ALL points, hence of every
   selection) has an entry in the phase list *)
Definition Inv (st : store) : Prop :=
  PInv (s_phases st) /\ (forall x, In x (s_pid st) -> In x (ids (s_phases st))).

Lemma names_In s pl : In s (names pl) <-> exists i p, In (i, p) pl /\ pname p = s.
Proof.
  unfold names. rewrite in_map_iff. split.
  - intros [[i p] [E H]]. eauto.
  - intros [i [p [H E]]]. exists (i, p). auto.
Qed.

Lemma In_ids i p (pl : plist) : In (i, p) pl -> In i (ids pl).
Proof. intros H. apply (in_map fst) in H. auto. Qed.

Lemma add_not_indexed_PInv pl : PInv pl -> PInv (add_not_indexed pl).
Proof.
  intros [Hs [Hn Hl]]. split; [|split].
  - apply add_not_indexed_sorted; auto.
  - intros i p Hin. apply add_not_indexed_In in Hin. destruct Hin as [E|E].
    + inversion E; subst. split; auto.
    + apply (Hn _ _ E).
  - intros i Hi. apply add_not_indexed_ids in Hi. destruct Hi; [lia|auto].
Qed.

Lemma maybe_add_ni_PInv z pl : PInv pl -> PInv (maybe_add_ni z pl).
Proof.
  intros H. unfold maybe_add_ni. destruct ((z =? -1) && negb (memS ni_name (names pl))); auto.
  apply add_not_indexed_PInv; auto.
Qed.

Lemma maybe_add_ni_ids z pl x : In x (ids pl) -> In x (ids (maybe_add_ni z pl)).
Proof.
  intros H. unfold maybe_add_ni. destruct ((z =? -1) && negb (memS ni_name (names pl))); auto.
  apply add_not_indexed_ids; auto.
Qed.

Lemma maybe_add_ni_has z pl : PInv pl -> z = -1 \/ In z (ids pl) -> In z (ids (maybe_add_ni z pl)).
Proof.
  intros [Hs [Hn Hl]] [E|E]; [|apply maybe_add_ni_ids; auto].
  subst z. unfold maybe_add_ni. simpl.
  destruct (memS ni_name (names pl)) eqn:M; simpl.
  - apply memS_In, names_In in M. destruct M as [i [p [H1 H2]]].
    apply (Hn _ _ H1) in H2. subst. eapply In_ids; eauto.
  - apply add_not_indexed_ids; auto.
Qed.

Lemma add_one_PInv pl p : PInv pl -> pname p <> ni_name -> PInv (pl ++ [(new_id pl, p)]).
Proof.
  intros [Hs [Hn Hl]] Hp.
  assert (Hlow : -1 < new_id pl).
  { apply new_id_lower; [|lia]. apply Forall_forall. auto. }
  split; [|split].
  - apply sortedk_snoc; auto. apply new_id_gt.
  - intros i q Hin. apply in_app_or in Hin. destruct Hin as [E|[E|[]]]; [apply (Hn _ _ E)|].
    inversion E; subst. split; [tauto|lia].
  - intros i Hi. rewrite ids_app in Hi. apply in_app_or in Hi. destruct Hi as [Hi|[Hi|[]]]; auto.
    simpl in Hi. lia.
Qed.

Lemma add_PInv ps : forall pl, PInv pl -> (forall p, In p ps -> pname p <> ni_name) ->
  PInv (fst (add pl ps)) /\ incl (ids pl) (ids (fst (add pl ps))).
Proof.
  induction ps as [|p r IH]; simpl; intros pl H Hp; [split; [auto|apply incl_refl]|].
  destruct (memS (pname p) (names pl)); simpl; [split; [auto|apply incl_refl]|].
  rewrite add_one_eq. destruct (IH (pl ++ [(new_id pl, p)])) as [H1 H2]; auto.
  - apply add_one_PInv; auto.
  - split; auto. intros x Hx. apply H2. rewrite ids_app. apply in_or_app; auto.
Qed.

Lemma dict_remove_PInv i pl : PInv pl -> PInv (dict_remove i pl) /\
  (forall x, In x (ids (dict_remove i pl)) <-> In x (ids pl) /\ x <> i).
Proof.
  intros [Hs [Hn Hl]]. assert (Hnd := sortedk_NoDup _ Hs).
  assert (Hids : forall x, In x (ids (dict_remove i pl)) <-> In x (ids pl) /\ x <> i).
  { intros x. rewrite dict_remove_filter by auto.
    rewrite (ids_filter_In (fun k => negb (k =? i))). rewrite negb_true_iff, Z.eqb_neq. tauto. }
  split; auto. split; [|split].
  - apply dict_remove_sorted; auto.
  - intros j p H. rewrite dict_remove_filter in H by auto. apply filter_In in H. apply (Hn _ _ (proj1 H)).
  - intros x Hx. apply Hids in Hx. apply Hl; tauto.
Qed.

(* side conditions of the property on each operation *)
Definition op_ok (s : mstate) (o : op) : Prop :=
  let st := m_store s in
  match o with
  | OSetPid _ (PScalar z) => z = -1 \/ In z (ids (s_phases st))
  | OSetPid _ (PArr [z]) => z = -1 \/ In z (ids (s_phases st))
  | OSetPid _ (PArr zs) => forall z, In z zs -> In z (ids (s_phases st))
  | OPhAdd ps => forall p, In p ps -> pname p <> ni_name
  | OPhDel (DelInt i) => ~ In i (s_pid st)
  | OPhDel (DelStr n) => forall i, first_id_with_name n (s_phases st) = Some i -> ~ In i (s_pid st)
  | _ => True
  end.

Lemma set_pid_scalar_Inv st v z : Inv st -> z = -1 \/ In z (ids (s_phases st)) ->
  Inv (mkStore (fill v z (s_pid st)) (maybe_add_ni z (s_phases st)) (s_props st)).
Proof.
  intros [HP He] Hz. split; simpl.
  - apply maybe_add_ni_PInv; auto.
  - intros x Hx. apply fill_In in Hx. destruct Hx as [Hx|Hx].
    + subst. apply maybe_add_ni_has; auto.
    + apply maybe_add_ni_ids; auto.
Qed.

Lemma set_pid_Inv st v val : Inv st ->
  match val with
  | PScalar z => z = -1 \/ In z (ids (s_phases st))
  | PArr [z] => z = -1 \/ In z (ids (s_phases st))
  | PArr zs => forall z, In z zs -> In z (ids (s_phases st))
  end -> Inv (fst (set_pid st v val)).
Proof.
  intros HI Hv. destruct val as [z|zs].
  - simpl. apply set_pid_scalar_Inv; auto.
  - destruct zs as [|z [|z' r]].
    + simpl. destruct (Nat.eqb (count v) 0); auto.
    + simpl. apply set_pid_scalar_Inv; auto.
    + unfold set_pid. destruct (Nat.eqb (List.length (z :: z' :: r)) (count v)); simpl; auto.
      destruct HI as [HP He]. split; simpl; auto.
      intros x Hx. apply scatter_In in Hx. destruct Hx; auto.
Qed.

Lemma set_prop_same st v k val :
  s_pid (fst (set_prop st v k val)) = s_pid st /\ s_phases (fst (set_prop st v k val)) = s_phases st.
Proof.
  unfold set_prop. destruct val as [d z|d zs]; simpl; auto.
  destruct zs as [|z [|z' r]]; auto.
  - destruct (Nat.eqb (List.length (@nil Z)) (count v)); simpl; auto.
  - destruct (Nat.eqb (List.length (z :: z' :: r)) (count v)); simpl; auto.
Qed.

Lemma step_Inv s o : Inv (m_store s) -> op_ok s o -> Inv (m_store (fst (step s o))).
Proof.
  intros HI Hok. destruct o as [i sl|i val|i k val|ps|k| |]; simpl in *.
  - destruct (nth_error (m_views s) i); auto. destruct (select _ _ _); auto.
  - destruct (nth_error (m_views s) i) as [v|]; auto.
    pose proof (set_pid_Inv (m_store s) v val HI) as G.
    destruct (set_pid (m_store s) v val) as [st' e]. simpl in *. apply G.
    destruct val as [z|[|z [|z' r]]]; auto.
  - destruct (nth_error (m_views s) i) as [v|]; auto.
    pose proof (set_prop_same (m_store s) v k val) as [G1 G2].
    destruct (set_prop (m_store s) v k val) as [st' e]. simpl in *.
    destruct HI as [HP He]. split; [rewrite G2|rewrite G1, G2]; auto.
  - destruct HI as [HP He]. destruct (add_PInv ps _ HP Hok) as [H1 H2].
    destruct (add (s_phases (m_store s)) ps) as [pl e]. simpl in *. split; simpl; auto.
  - destruct HI as [HP He].
    destruct k as [j|n|]; simpl in *.
    + destruct (memZ j (ids (s_phases (m_store s)))); simpl; [|split; auto].
      destruct (dict_remove_PInv j _ HP) as [H1 H2]. split; simpl; auto.
      intros x Hx. apply H2. split; auto. intros E; subst. auto.
    + destruct (first_id_with_name n (s_phases (m_store s))) as [j|] eqn:F; simpl; [|split; auto].
      destruct (dict_remove_PInv j _ HP) as [H1 H2]. split; simpl; auto.
      intros x Hx. apply H2. split; auto. intros E; subst. apply (Hok j); auto.
    + split; auto.
  - destruct HI as [HP He]. split; simpl; [apply add_not_indexed_PInv; auto|].
    intros x Hx. apply add_not_indexed_ids; auto.
  - destruct HI as [HP He]. split; simpl; rewrite sort_by_id_id by apply HP; auto.
Qed.

(* all histories whose operations satisfy the side conditions *)
Fixpoint run_ok (ops : list op) (s : mstate) : Prop :=
  match ops with
  | [] => True
  | o :: r => op_ok s o /\ run_ok r (fst (step s o))
  end.

Theorem run_Inv ops : forall s, Inv (m_store s) -> run_ok ops s -> Inv (m_store (run ops s)).
Proof.
  unfold run. induction ops as [|o r IH]; simpl; intros s H Hok; auto.
  destruct Hok as [H1 H2]. apply IH; auto. apply step_Inv; auto.
Qed.
