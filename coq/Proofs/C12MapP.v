(* C12 -- lemmas about the crystal-map phase bookkeeping model (Model/C12Map.v). *)
From Coq Require Import ZArith List Bool String Lia Permutation.
From Verif Require Import C12Phases C12Map C12PhasesP.
Import ListNotations.
Open Scope Z_scope.

(* --------------------------------------------------------------- uniq *)
Lemma set_insert_In x l y : In y (set_insert x l) <-> y = x \/ In y l.
Proof.
  induction l as [|z r IH]; simpl; [intuition|].
  destruct (x <? z) eqn:E1; simpl; [intuition|].
  destruct (x =? z) eqn:E2; simpl.
  - apply Z.eqb_eq in E2. subst. intuition.
  - rewrite IH. intuition.
Qed.

Lemma set_insert_sorted x l : sortedZ l -> sortedZ (set_insert x l).
Proof.
  induction l as [|z r IH]; simpl; intros H; [split; [constructor|auto]|].
  destruct H as [H1 H2].
  destruct (x <? z) eqn:E1.
  - apply Z.ltb_lt in E1. simpl. repeat split; auto. constructor; auto.
    eapply Forall_impl; [|exact H1]. simpl; intros; lia.
  - apply Z.ltb_ge in E1. destruct (x =? z) eqn:E2; simpl; auto.
    apply Z.eqb_neq in E2. split; auto.
    apply Forall_forall. intros y Hy. apply set_insert_In in Hy.
    rewrite Forall_forall in H1. destruct Hy; [subst; lia|auto].
Qed.

Lemma uniq_In l x : In x (uniq l) <-> In x l.
Proof.
  induction l as [|y r IH]; simpl; [tauto|]. rewrite set_insert_In, IH. intuition.
Qed.

Lemma uniq_sorted l : sortedZ (uniq l).
Proof. induction l as [|y r IH]; simpl; auto. apply set_insert_sorted; auto. Qed.

Lemma uniq_nil l : uniq l = [] -> l = [].
Proof.
  destruct l as [|x r]; auto. intros H.
  assert (In x (uniq (x :: r))) by (apply uniq_In; left; auto). rewrite H in H0. inversion H0.
Qed.

(* ------------------------------------------------- masks and assignment *)
Lemma select_by_fill {A} (v : view) (c : A) : forall old,
  List.length v = List.length old ->
  select_by v (fill v c old) = repeat c (count v) /\
  select_by (map negb v) (fill v c old) = select_by (map negb v) old.
Proof.
  unfold count. induction v as [|b v IH]; intros [|x old] H; simpl in *; try discriminate; auto.
  destruct (IH old ltac:(lia)) as [H1 H2].
  destruct b; simpl; split; auto; f_equal; auto.
Qed.

Lemma select_by_scatter {A} (v : view) : forall (vals old : list A),
  List.length v = List.length old -> List.length vals = count v ->
  select_by v (scatter v vals old) = vals /\
  select_by (map negb v) (scatter v vals old) = select_by (map negb v) old.
Proof.
  unfold count. induction v as [|b v IH]; intros vals [|x old] H Hc; simpl in *; try discriminate.
  - destruct vals; [auto|discriminate].
  - destruct b; simpl in *.
    + destruct vals as [|y vals]; [discriminate|]. simpl in *.
      destruct (IH vals old ltac:(lia) ltac:(lia)) as [H1 H2]. split; [f_equal|]; auto.
    + destruct (IH vals old ltac:(lia) ltac:(lia)) as [H1 H2]. split; [|f_equal]; auto.
Qed.

Lemma fill_length {A} (v : view) (c : A) : forall old, List.length (fill v c old) = List.length old.
Proof. induction v as [|b v IH]; intros [|x old]; simpl; auto. Qed.

Lemma scatter_length {A} (v : view) : forall (vals old : list A),
  List.length (scatter v vals old) = List.length old.
Proof.
  induction v as [|b v IH]; intros vals [|x old]; simpl; auto.
  destruct b; [destruct vals|]; simpl; auto.
Qed.

Lemma fill_In {A} (v : view) (c : A) : forall old x, In x (fill v c old) -> x = c \/ In x old.
Proof.
  induction v as [|b v IH]; intros [|y old] x; simpl; auto.
  intros [H|H]; [destruct b; auto|]. destruct (IH _ _ H); auto.
Qed.

Lemma scatter_In {A} (v : view) : forall (vals old : list A) x,
  In x (scatter v vals old) -> In x vals \/ In x old.
Proof.
  induction v as [|b v IH]; intros vals [|y old] x; simpl; auto.
  destruct b.
  - destruct vals as [|z vals]; simpl.
    + intros [H|H]; auto. destruct (IH _ _ _ H); auto.
    + intros [H|H]; auto. destruct (IH _ _ _ H); auto.
  - simpl. intros [H|H]; auto. destruct (IH _ _ _ H); auto.
Qed.

Lemma select_by_In {A} (v : view) : forall (l : list A) x, In x (select_by v l) -> In x l.
Proof.
  induction v as [|b v IH]; intros [|y l] x; simpl; try tauto.
  destruct b; simpl; intros H; [destruct H; auto|]; right; apply IH; auto.
Qed.

(* ------------------------------------------- construction: reconciliation *)
Lemma sortedZ_combine_id (u : list Z) (vs : list phase) :
  sortedZ u -> dict_of_pairs (combine u vs) = combine u vs.
Proof. intros H. apply dict_of_pairs_id, combine_fst_NoDup, sortedZ_NoDup, H. Qed.

Lemma combine_ids (u : list Z) (vs : list phase) :
  List.length u = List.length vs -> ids (combine u vs) = u.
Proof.
  revert vs. induction u as [|x u IH]; intros [|y vs] H; simpl in *; try discriminate; auto.
  f_equal. apply IH. lia.
Qed.

Lemma combine_ids_snd (pl : plist) : combine (ids pl) (map snd pl) = pl.
Proof. induction pl as [|[k p] r IH]; simpl; auto. f_equal; auto. Qed.

Lemma filter_filter {A} (f g : A -> bool) (l : list A) :
  filter f (filter g l) = filter (fun x => f x && g x) l.
Proof.
  induction l as [|x l IH]; simpl; auto.
  destruct (g x) eqn:G, (f x) eqn:F; simpl; rewrite ?F, ?IH; auto.
Qed.

(* the deletion loop removes exactly the first nd listed ids that are absent from the data *)
Definition absent (u : list Z) (l : list Z) : list Z := filter (fun i => negb (memZ i u)) l.

Lemma del_loop_spec l : forall u nd pl,
  0 < nd -> NoDup (ids pl) ->
  del_loop l u nd pl =
  filter (fun kv => negb (memZ (fst kv) (firstn (Z.to_nat nd) (absent u l)))) pl.
Proof.
  induction l as [|i r IH]; intros u nd pl Hnd Hn; simpl.
  - rewrite firstn_nil. symmetry. apply filter_all_id. auto.
  - unfold absent. simpl. destruct (memZ i u) eqn:E; simpl.
    + replace (nd =? 0) with false by (symmetry; apply Z.eqb_neq; lia).
      apply IH; auto.
    + replace (Z.to_nat nd) with (S (Z.to_nat (nd - 1))) by lia. simpl.
      destruct (nd - 1 =? 0) eqn:E0.
      * apply Z.eqb_eq in E0. rewrite E0. simpl. rewrite dict_remove_filter by auto.
        apply filter_ext. intros [k p]. simpl. rewrite Z.eqb_sym. destruct (i =? k); auto.
      * apply Z.eqb_neq in E0. rewrite IH; [|lia|].
        -- rewrite dict_remove_filter by auto. rewrite filter_filter.
           apply filter_ext. intros [k p]. simpl.
           destruct (k =? i); simpl; [rewrite andb_false_r|rewrite andb_true_r]; auto.
        -- rewrite dict_remove_filter by auto. apply filter_NoDup_ids; auto.
Qed.

Lemma filter_split_length {A} (f : A -> bool) (l : list A) :
  (List.length (filter f l) + List.length (filter (fun x => negb (f x)) l) = List.length l)%nat.
Proof. induction l as [|x l IH]; simpl; auto. destruct (f x); simpl; lia. Qed.

Lemma filter_rev' {A} (f : A -> bool) (l : list A) : filter f (rev l) = rev (filter f l).
Proof.
  induction l as [|x l IH]; simpl; auto. rewrite filter_app, IH. simpl.
  destruct (f x); simpl; auto. rewrite app_nil_r. auto.
Qed.

Lemma absent_In u l x : In x (absent u l) <-> In x l /\ ~ In x u.
Proof.
  unfold absent. rewrite filter_In. rewrite negb_true_iff, memZ_false. tauto.
Qed.

(* a duplicate-free list exceeds another one at most by its members absent from it *)
Lemma absent_count (l u : list Z) : NoDup l ->
  (List.length l <= List.length u + List.length (absent u l))%nat.
Proof.
  intros Hn. unfold absent.
  pose proof (filter_split_length (fun i => memZ i u) l) as E.
  assert ((List.length (filter (fun i => memZ i u) l) <= List.length u)%nat).
  { apply NoDup_incl_length; [apply NoDup_filter; auto|].
    intros x Hx. apply filter_In in Hx. apply memZ_In. tauto. }
  lia.
Qed.

Lemma ids_filter_In f (pl : plist) x :
  In x (ids (filter (fun kv => f (fst kv)) pl)) <-> In x (ids pl) /\ f x = true.
Proof.
  unfold ids. rewrite !in_map_iff. split.
  - intros [kv [E H]]. apply filter_In in H. subst. split; [exists kv|]; tauto.
  - intros [[kv [E H]] F]. subst. exists kv. split; auto. apply filter_In. auto.
Qed.

(* removing a duplicate-free set D of listed ids shortens the list by |D| *)
Lemma filter_out_length (pl : plist) (D : list Z) :
  NoDup (ids pl) -> NoDup D -> incl D (ids pl) ->
  (List.length (filter (fun kv => negb (memZ (fst kv) D)) pl) + List.length D = List.length pl)%nat.
Proof.
  intros Hn Hd Hi.
  pose proof (filter_split_length (fun kv => memZ (fst kv) D) pl) as E.
  assert (P : Permutation (ids (filter (fun kv => memZ (fst kv) D) pl)) D).
  { apply NoDup_Permutation; auto.
    - apply (filter_NoDup_ids (fun kv => memZ (fst kv) D)); auto.
    - intros x. rewrite (ids_filter_In (fun i => memZ i D)). rewrite memZ_In. split; [tauto|].
      intros H. split; auto. }
  apply Permutation_length in P. unfold ids in P. rewrite map_length in P. lia.
Qed.

Definition drop_set (pl : plist) (u : list Z) : list Z :=
  firstn (List.length pl - List.length u) (absent u (rev (ids pl))).

Definition lookup_or_default (pl : plist) (i : Z) : phase :=
  match dict_get i pl with Some p => p | None => default_phase end.

(* the three cases of the reconciliation, as closed forms *)
Lemma reconcile_equal pl u : sortedZ u -> List.length pl = List.length u ->
  reconcile pl u = combine u (map snd pl).
Proof.
  intros Hu E. unfold reconcile. rewrite E, Z.sub_diag. simpl. apply sortedZ_combine_id; auto.
Qed.

Lemma reconcile_fewer pl u : sortedZ u -> (List.length pl < List.length u)%nat ->
  reconcile pl u = map (fun i => (i, lookup_or_default pl i)) u.
Proof.
  intros Hu E. unfold reconcile.
  replace (0 <? Z.of_nat (List.length pl) - Z.of_nat (List.length u)) with false
    by (symmetry; apply Z.ltb_ge; lia).
  replace (Z.of_nat (List.length pl) - Z.of_nat (List.length u) <? 0) with true
    by (symmetry; apply Z.ltb_lt; lia).
  set (m := map (fun i => (i, lookup_or_default pl i)) u).
  assert (Hm : ids m = u) by (unfold m, ids; rewrite map_map; simpl; apply map_id).
  assert (Hs : sortedk m) by (apply sortedk_ids; rewrite Hm; auto).
  assert (Hd : dict_of_pairs m = m).
  { apply dict_of_pairs_id. change (NoDup (ids m)). rewrite Hm. apply sortedZ_NoDup; auto. }
  unfold pl_of_dict.
  change (map (fun i : Z => (i, match dict_get i pl with Some p => p | None => default_phase end)) u) with m.
  rewrite Hd, sort_by_id_id by auto.
  rewrite <- Hm at 1. rewrite combine_ids_snd. exact Hd.
Qed.

Lemma firstn_In_own {A} n : forall (l : list A) x, In x (firstn n l) -> In x l.
Proof.
  induction n as [|n IH]; intros [|y l] x; simpl; try tauto.
  intros [H|H]; auto.
Qed.

Lemma reconcile_more pl u : sortedk pl -> sortedZ u -> (List.length u < List.length pl)%nat ->
  reconcile pl u =
  combine u (map snd (filter (fun kv => negb (memZ (fst kv) (drop_set pl u))) pl)).
Proof.
  intros Hs Hu E. unfold reconcile.
  replace (0 <? Z.of_nat (List.length pl) - Z.of_nat (List.length u)) with true
    by (symmetry; apply Z.ltb_lt; lia).
  rewrite del_loop_spec by (try lia; apply sortedk_NoDup; auto).
  rewrite sortedZ_combine_id by auto. unfold drop_set.
  replace (Z.to_nat (Z.of_nat (List.length pl) - Z.of_nat (List.length u)))
    with (List.length pl - List.length u)%nat by lia. auto.
Qed.

Lemma drop_set_props pl u : sortedk pl -> (List.length u < List.length pl)%nat ->
  NoDup (drop_set pl u) /\ incl (drop_set pl u) (ids pl) /\
  (forall x, In x (drop_set pl u) -> ~ In x u) /\
  List.length (drop_set pl u) = (List.length pl - List.length u)%nat.
Proof.
  intros Hs E. unfold drop_set.
  assert (Hn : NoDup (ids pl)) by (apply sortedk_NoDup; auto).
  assert (Hna : NoDup (absent u (rev (ids pl)))).
  { unfold absent. apply NoDup_filter, NoDup_rev; auto. }
  repeat split.
  - clear -Hna. revert Hna. generalize (absent u (rev (ids pl))) as l.
    generalize (List.length pl - List.length u)%nat as n.
    induction n as [|n IH]; intros [|x l] H; simpl; try constructor.
    + inversion H; subst. intros Hin. apply H2. eapply firstn_In_own; eauto.
    + inversion H; subst. auto.
  - intros x Hx. apply firstn_In_own in Hx. apply absent_In in Hx. apply in_rev. tauto.
  - intros x Hx. apply firstn_In_own in Hx. apply absent_In in Hx. tauto.
  - apply firstn_length_le.
    pose proof (absent_count (ids pl) u Hn) as C.
    unfold absent in *. rewrite filter_rev', rev_length. unfold ids in C. rewrite map_length in C.
    unfold ids. lia.
Qed.

(* after reconciliation the phase list has exactly the (indexed) ids of the data *)
Lemma reconcile_ids pl u : sortedk pl -> sortedZ u -> ids (reconcile pl u) = u.
Proof.
  intros Hs Hu.
  destruct (Nat.lt_trichotomy (List.length pl) (List.length u)) as [H|[H|H]].
  - rewrite reconcile_fewer by auto. unfold ids. rewrite map_map. simpl. apply map_id.
  - rewrite reconcile_equal by auto. apply combine_ids. rewrite map_length. auto.
  - rewrite reconcile_more by auto. apply combine_ids. rewrite map_length.
    destruct (drop_set_props pl u Hs H) as [H1 [H2 [_ H4]]].
    pose proof (filter_out_length pl (drop_set pl u) (sortedk_NoDup _ Hs) H1 H2). lia.
Qed.

(* every phase after reconciliation is one of the caller's or the default phase *)
Lemma reconcile_values pl u i p : sortedk pl -> sortedZ u ->
  In (i, p) (reconcile pl u) -> In p (map snd pl) \/ p = default_phase.
Proof.
  intros Hs Hu.
  destruct (Nat.lt_trichotomy (List.length pl) (List.length u)) as [H|[H|H]].
  - rewrite reconcile_fewer by auto. intros Hin. apply in_map_iff in Hin.
    destruct Hin as [j [E Hj]]. inversion E; subst. unfold lookup_or_default.
    destruct (dict_get i pl) eqn:G; auto. left. apply dict_get_In in G.
    apply (in_map snd) in G. auto.
  - rewrite reconcile_equal by auto. intros Hin. apply in_combine_r in Hin. auto.
  - rewrite reconcile_more by auto. intros Hin. apply in_combine_r in Hin. left.
    apply in_map_iff in Hin. destruct Hin as [kv [E Hk]]. apply filter_In in Hk.
    subst. apply in_map. tauto.
Qed.

Lemma pl_default_eq u : sortedZ u -> pl_default u = map (fun i => (i, default_phase)) u.
Proof.
  intros Hu. unfold pl_default.
  set (m := map (fun i => (i, default_phase)) u).
  assert (Hm : ids m = u) by (unfold m, ids; rewrite map_map; simpl; apply map_id).
  rewrite dict_of_pairs_id by (change (NoDup (ids m)); rewrite Hm; apply sortedZ_NoDup; auto).
  apply sort_by_id_id, sortedk_ids. rewrite Hm. auto.
Qed.

(* PhaseList(ids=u) as built by the constructor's field path *)
Lemma flat_nth_nil {A} i : @flat_nth A [] i = None.
Proof. unfold flat_nth. destruct i; reflexivity. Qed.

Lemma fields_loop_ids_only u : forall rest done d, u = done ++ rest ->
  fields_loop [] [] u (List.length done) (List.length rest) 0 d
  = Ok (fold_left (fun d kv => dict_set (fst kv) (snd kv) d) (map (fun i => (i, default_phase)) rest) d).
Proof.
  induction rest as [|x rest IH]; intros done d E; simpl; auto.
  rewrite !flat_nth_nil.
  assert (N : nth_error u (List.length done) = Some x).
  { rewrite E, nth_error_app2, Nat.sub_diag by lia. reflexivity. }
  rewrite N.
  replace (S (List.length done)) with (List.length (done ++ [x])) by (rewrite app_length; simpl; lia).
  apply IH. rewrite <- app_assoc. auto.
Qed.

Lemma pl_default_fields u : pl_of_fields [] [] (Some u) = Ok (pl_default u).
Proof.
  unfold pl_of_fields, pl_default.
  pose proof (fields_loop_ids_only u u [] [] eq_refl) as G. simpl in *. rewrite G. auto.
Qed.

Lemma sortedZ_tail_gt x r y : sortedZ (x :: r) -> In y r -> x < y.
Proof. simpl. intros [H _] Hy. rewrite Forall_forall in H. auto. Qed.

(* the caller's not_indexed entry (id -1) is dropped before the reconciliation *)
Lemma strip_ni_filter pl : NoDup (ids pl) -> strip_ni pl = filter (fun kv => negb (fst kv =? -1)) pl.
Proof.
  intros Hn. unfold strip_ni. destruct (memZ (-1) (ids pl)) eqn:E.
  - apply dict_remove_filter; auto.
  - apply memZ_false in E. symmetry. apply filter_all_id. intros [i p] Hin. simpl.
    apply negb_true_iff, Z.eqb_neq. intros Hi. subst. apply E. apply (in_map fst) in Hin. auto.
Qed.

Lemma strip_ni_sorted pl : sortedk pl -> sortedk (strip_ni pl).
Proof. intros H. rewrite strip_ni_filter by (apply sortedk_NoDup; auto). apply sortedk_filter; auto. Qed.

Lemma strip_ni_In pl i p : sortedk pl -> (In (i, p) (strip_ni pl) <-> In (i, p) pl /\ i <> -1).
Proof.
  intros H. rewrite strip_ni_filter by (apply sortedk_NoDup; auto). rewrite filter_In. simpl.
  rewrite negb_true_iff, Z.eqb_neq. tauto.
Qed.

Lemma strip_ni_none pl : ~ In (-1) (ids pl) -> strip_ni pl = pl.
Proof. intros H. unfold strip_ni. apply memZ_false in H. rewrite H. auto. Qed.

(* ids after construction = exactly the ids present in the data *)
Lemma init_phases_ids pid pl p :
  (forall pl0, pl = Some pl0 -> sortedk pl0) ->
  init_phases pid pl = Ok p -> ids p = uniq pid /\ sortedk p.
Proof.
  intros Hpl. unfold init_phases.
  pose proof (uniq_sorted pid) as Hu.
  destruct (uniq pid) as [|u0 ur] eqn:E; [discriminate|].
  intros H. inversion H; subst; clear H.
  set (u := if u0 =? -1 then ur else u0 :: ur).
  assert (Hsu : sortedZ u) by (unfold u; destruct (u0 =? -1); [apply Hu|auto]).
  set (q := match pl with None => pl_default u | Some pl0 => reconcile (strip_ni pl0) u end).
  assert (Hq : ids q = u).
  { unfold q. destruct pl as [pl0|].
    - apply reconcile_ids; auto. apply strip_ni_sorted; auto.
    - rewrite pl_default_eq by auto. unfold ids. rewrite map_map. simpl. apply map_id. }
  assert (Hsq : sortedk q) by (apply sortedk_ids; rewrite Hq; auto).
  unfold u in *. destruct (u0 =? -1) eqn:E0.
  - apply Z.eqb_eq in E0. subst u0.
    rewrite add_not_indexed_new; auto.
    + simpl. rewrite Hq. split; auto. split; auto.
      destruct Hu as [Hu _]. rewrite <- Hq in Hu. unfold ids in Hu. rewrite Forall_map in Hu. auto.
    + rewrite Hq. destruct Hu as [Hu _]. auto.
  - auto.
Qed.

(* ====================================================== the invariant *)
(* phase list: ids strictly increasing; not_indexed <-> id -1; ids >= -1 *)
Definition PInv (pl : plist) : Prop :=
  sortedk pl /\
  (forall i p, In (i, p) pl -> (pname p = ni_name <-> i = -1)) /\
  (forall i, In i (ids pl) -> -1 <= i).

(* store: additionally every phase id of the data (ALL points, hence of every
   selection) has an entry in the phase list *)
Definition Inv (st : store) : Prop :=
  PInv (s_phases st) /\ (forall x, In x (s_pid st) -> In x (ids (s_phases st))).

Lemma names_In s pl : In s (names pl) <-> exists i p, In (i, p) pl /\ pname p = s.
Proof.
  unfold names. rewrite in_map_iff. split.
  - intros [[i p] [E H]]. eauto.
  - intros [i [p [H E]]]. exists (i, p). auto.
Qed.

Lemma In_ids i p (pl : plist) : In (i, p) pl -> In i (ids pl).
Proof. intros H. apply (in_map fst) in H. auto. Qed.

Lemma add_not_indexed_PInv pl : PInv pl -> PInv (add_not_indexed pl).
Proof.
  intros [Hs [Hn Hl]]. split; [|split].
  - apply add_not_indexed_sorted; auto.
  - intros i p Hin. apply add_not_indexed_In in Hin. destruct Hin as [E|E].
    + inversion E; subst. split; auto.
    + apply (Hn _ _ E).
  - intros i Hi. apply add_not_indexed_ids in Hi. destruct Hi; [lia|auto].
Qed.

Lemma maybe_add_ni_PInv zs pl : PInv pl -> PInv (maybe_add_ni zs pl).
Proof.
  intros H. unfold maybe_add_ni. destruct (has_m1 zs && negb (memS ni_name (names pl))); auto.
  apply add_not_indexed_PInv; auto.
Qed.

Lemma maybe_add_ni_ids zs pl x : In x (ids pl) -> In x (ids (maybe_add_ni zs pl)).
Proof.
  intros H. unfold maybe_add_ni. destruct (has_m1 zs && negb (memS ni_name (names pl))); auto.
  apply add_not_indexed_ids; auto.
Qed.

Lemma has_m1_In zs : has_m1 zs = true <-> In (-1) zs.
Proof.
  unfold has_m1. rewrite existsb_exists. split.
  - intros [z [H E]]. apply Z.eqb_eq in E. subst. auto.
  - intros H. exists (-1). auto.
Qed.

(* every assigned id that is -1 or listed is listed afterwards *)
Lemma maybe_add_ni_has zs z pl : PInv pl -> In z zs -> z = -1 \/ In z (ids pl) ->
  In z (ids (maybe_add_ni zs pl)).
Proof.
  intros [Hs [Hn Hl]] Hz [E|E]; [|apply maybe_add_ni_ids; auto].
  subst z. unfold maybe_add_ni. apply has_m1_In in Hz. rewrite Hz. simpl.
  destruct (memS ni_name (names pl)) eqn:M; simpl.
  - apply memS_In, names_In in M. destruct M as [i [p [H1 H2]]].
    apply (Hn _ _ H1) in H2. subst. eapply In_ids; eauto.
  - apply add_not_indexed_ids; auto.
Qed.

(* the phase list after an assignment: not_indexed is listed iff it was, or -1 was assigned *)
Lemma maybe_add_ni_spec zs pl : PInv pl ->
  maybe_add_ni zs pl = if has_m1 zs && negb (memZ (-1) (ids pl)) then add_not_indexed pl else pl.
Proof.
  intros [Hs [Hn Hl]]. unfold maybe_add_ni.
  replace (memS ni_name (names pl)) with (memZ (-1) (ids pl)); auto.
  destruct (memS ni_name (names pl)) eqn:M.
  - apply memS_In, names_In in M. destruct M as [i [p [H1 H2]]].
    apply (Hn _ _ H1) in H2. subst. apply memZ_In. eapply In_ids; eauto.
  - apply memZ_false. intros Hin. unfold ids in Hin. apply in_map_iff in Hin.
    destruct Hin as [[i p] [E Hin]]. simpl in E. subst i.
    assert (In ni_name (names pl)) by (apply names_In; exists (-1), p; split; auto; apply (Hn _ _ Hin); auto).
    apply memS_In in H. congruence.
Qed.

Lemma add_one_PInv pl p : PInv pl -> pname p <> ni_name -> PInv (pl ++ [(new_id pl, p)]).
Proof.
  intros [Hs [Hn Hl]] Hp.
  assert (Hlow : -1 < new_id pl).
  { apply new_id_lower; [|lia]. apply Forall_forall. auto. }
  split; [|split].
  - apply sortedk_snoc; auto. apply new_id_gt.
  - intros i q Hin. apply in_app_or in Hin. destruct Hin as [E|[E|[]]]; [apply (Hn _ _ E)|].
    inversion E; subst. split; [tauto|lia].
  - intros i Hi. rewrite ids_app in Hi. apply in_app_or in Hi. destruct Hi as [Hi|[Hi|[]]]; auto.
    simpl in Hi. lia.
Qed.

Lemma add_PInv ps : forall pl, PInv pl -> (forall p, In p ps -> pname p <> ni_name) ->
  PInv (fst (add pl ps)) /\ incl (ids pl) (ids (fst (add pl ps))).
Proof.
  induction ps as [|p r IH]; simpl; intros pl H Hp; [split; [auto|apply incl_refl]|].
  destruct (memS (pname p) (names pl)); simpl; [split; [auto|apply incl_refl]|].
  rewrite add_one_eq. destruct (IH (pl ++ [(new_id pl, p)])) as [H1 H2]; auto.
  - apply add_one_PInv; auto.
  - split; auto. intros x Hx. apply H2. rewrite ids_app. apply in_or_app; auto.
Qed.

Lemma dict_remove_PInv i pl : PInv pl -> PInv (dict_remove i pl) /\
  (forall x, In x (ids (dict_remove i pl)) <-> In x (ids pl) /\ x <> i).
Proof.
  intros [Hs [Hn Hl]]. assert (Hnd := sortedk_NoDup _ Hs).
  assert (Hids : forall x, In x (ids (dict_remove i pl)) <-> In x (ids pl) /\ x <> i).
  { intros x. rewrite dict_remove_filter by auto.
    rewrite (ids_filter_In (fun k => negb (k =? i))). rewrite negb_true_iff, Z.eqb_neq. tauto. }
  split; auto. split; [|split].
  - apply dict_remove_sorted; auto.
  - intros j p H. rewrite dict_remove_filter in H by auto. apply filter_In in H. apply (Hn _ _ (proj1 H)).
  - intros x Hx. apply Hids in Hx. apply Hl; tauto.
Qed.

(* side conditions of the property on each operation *)
Definition op_ok (s : mstate) (o : op) : Prop :=
  let st := m_store s in
  match o with
  | OSetPid _ (PScalar z) => z = -1 \/ In z (ids (s_phases st))
  | OSetPid _ (PArr zs) => forall z, In z zs -> z = -1 \/ In z (ids (s_phases st))
  | OPhAdd ps => forall p, In p ps -> pname p <> ni_name
  | OPhDel (DelInt i) => ~ In i (s_pid st)
  | OPhDel (DelStr n) => forall i, first_id_with_name n (s_phases st) = Some i -> ~ In i (s_pid st)
  | _ => True
  end.

Lemma set_pid_scalar_Inv st v z : Inv st -> z = -1 \/ In z (ids (s_phases st)) ->
  Inv (mkStore (fill v z (s_pid st)) (maybe_add_ni [z] (s_phases st)) (s_props st)).
Proof.
  intros [HP He] Hz. split; simpl.
  - apply maybe_add_ni_PInv; auto.
  - intros x Hx. apply fill_In in Hx. destruct Hx as [Hx|Hx].
    + subst. apply maybe_add_ni_has; simpl; auto.
    + apply maybe_add_ni_ids; auto.
Qed.

Lemma set_pid_scatter_Inv st v zs : Inv st -> (forall z, In z zs -> z = -1 \/ In z (ids (s_phases st))) ->
  Inv (mkStore (scatter v zs (s_pid st)) (maybe_add_ni zs (s_phases st)) (s_props st)).
Proof.
  intros [HP He] Hz. split; simpl.
  - apply maybe_add_ni_PInv; auto.
  - intros x Hx. apply scatter_In in Hx. destruct Hx as [Hx|Hx].
    + apply maybe_add_ni_has; auto.
    + apply maybe_add_ni_ids; auto.
Qed.

(* scalar and array assignment alike: every assigned id is -1 or listed *)
Lemma set_pid_Inv st v val : Inv st ->
  match val with
  | PScalar z => z = -1 \/ In z (ids (s_phases st))
  | PArr zs => forall z, In z zs -> z = -1 \/ In z (ids (s_phases st))
  end -> Inv (fst (set_pid st v val)).
Proof.
  intros HI Hv. destruct val as [z|zs].
  - simpl. apply set_pid_scalar_Inv; auto.
  - destruct zs as [|z [|z' r]].
    + unfold set_pid. destruct (Nat.eqb (List.length (@nil Z)) (count v)); simpl; auto.
      apply set_pid_scatter_Inv; auto.
    + simpl. apply set_pid_scalar_Inv; auto. apply Hv. simpl. auto.
    + unfold set_pid. destruct (Nat.eqb (List.length (z :: z' :: r)) (count v)); simpl; auto.
      apply set_pid_scatter_Inv; auto.
Qed.

Lemma set_prop_same st v k val :
  s_pid (fst (set_prop st v k val)) = s_pid st /\ s_phases (fst (set_prop st v k val)) = s_phases st.
Proof.
  unfold set_prop. destruct val as [d z|d zs]; simpl; auto.
  destruct zs as [|z [|z' r]]; auto.
  - destruct (Nat.eqb (List.length (@nil Z)) (count v)); simpl; auto.
  - destruct (Nat.eqb (List.length (z :: z' :: r)) (count v)); simpl; auto.
Qed.

Lemma step_Inv s o : Inv (m_store s) -> op_ok s o -> Inv (m_store (fst (step s o))).
Proof.
  intros HI Hok. destruct o as [i sl|i val|i k val|ps|k| |]; simpl in *.
  - destruct (nth_error (m_views s) i); auto. destruct (select _ _ _); auto.
  - destruct (nth_error (m_views s) i) as [v|]; auto.
    pose proof (set_pid_Inv (m_store s) v val HI) as G.
    destruct (set_pid (m_store s) v val) as [st' e]. simpl in *. apply G.
    destruct val as [z|zs]; auto.
  - destruct (nth_error (m_views s) i) as [v|]; auto.
    pose proof (set_prop_same (m_store s) v k val) as [G1 G2].
    destruct (set_prop (m_store s) v k val) as [st' e]. simpl in *.
    destruct HI as [HP He]. split; [rewrite G2|rewrite G1, G2]; auto.
  - destruct HI as [HP He]. destruct (add_PInv ps _ HP Hok) as [H1 H2].
    destruct (add (s_phases (m_store s)) ps) as [pl e]. simpl in *. split; simpl; auto.
  - destruct HI as [HP He].
    destruct k as [j|n|]; simpl in *.
    + destruct (memZ j (ids (s_phases (m_store s)))); simpl; [|split; auto].
      destruct (dict_remove_PInv j _ HP) as [H1 H2]. split; simpl; auto.
      intros x Hx. apply H2. split; auto. intros E; subst. auto.
    + destruct (first_id_with_name n (s_phases (m_store s))) as [j|] eqn:F; simpl; [|split; auto].
      destruct (dict_remove_PInv j _ HP) as [H1 H2]. split; simpl; auto.
      intros x Hx. apply H2. split; auto. intros E; subst. apply (Hok j); auto.
    + split; auto.
  - destruct HI as [HP He]. split; simpl; [apply add_not_indexed_PInv; auto|].
    intros x Hx. apply add_not_indexed_ids; auto.
  - destruct HI as [HP He]. split; simpl; rewrite sort_by_id_id by apply HP; auto.
Qed.

(* all histories whose operations satisfy the side conditions *)
Fixpoint run_ok (ops : list op) (s : mstate) : Prop :=
  match ops with
  | [] => True
  | o :: r => op_ok s o /\ run_ok r (fst (step s o))
  end.

Theorem run_Inv ops : forall s, Inv (m_store s) -> run_ok ops s -> Inv (m_store (run ops s)).
Proof.
  unfold run. induction ops as [|o r IH]; simpl; intros s H Hok; auto.
  destruct Hok as [H1 H2]. apply IH; auto. apply step_Inv; auto.
Qed.

(* ============================================== construction: invariant *)
Lemma init_phases_entries pid pl p :
  (forall pl0, pl = Some pl0 -> sortedk pl0) -> (forall x, In x pid -> -1 <= x) ->
  init_phases pid pl = Ok p ->
  forall i ph, In (i, ph) p ->
    (i = -1 /\ ph = ni_phase) \/
    (i <> -1 /\ (ph = default_phase \/ exists pl0, pl = Some pl0 /\ In ph (map snd (strip_ni pl0)))).
Proof.
  intros Hpl Hlow. unfold init_phases.
  pose proof (uniq_sorted pid) as Hu.
  destruct (uniq pid) as [|u0 ur] eqn:E; [discriminate|].
  intros H. inversion H; subst; clear H.
  assert (Hu0 : -1 <= u0) by (apply Hlow, uniq_In; rewrite E; left; auto).
  set (u := if u0 =? -1 then ur else u0 :: ur).
  assert (Hsu : sortedZ u) by (unfold u; destruct (u0 =? -1); [apply Hu|auto]).
  assert (Hgt : forall x, In x u -> -1 < x).
  { unfold u. destruct (u0 =? -1) eqn:E0; intros x Hx.
    - apply Z.eqb_eq in E0. subst. eapply sortedZ_tail_gt; eauto.
    - apply Z.eqb_neq in E0. destruct Hx as [Hx|Hx]; [subst; lia|].
      pose proof (sortedZ_tail_gt _ _ _ Hu Hx). lia. }
  set (q := match pl with None => pl_default u | Some pl0 => reconcile (strip_ni pl0) u end).
  assert (Hq : ids q = u).
  { unfold q. destruct pl as [pl0|].
    - apply reconcile_ids; auto. apply strip_ni_sorted; auto.
    - rewrite pl_default_eq by auto. unfold ids. rewrite map_map. simpl. apply map_id. }
  assert (Hsq : sortedk q) by (apply sortedk_ids; rewrite Hq; auto).
  assert (Hv : forall i ph, In (i, ph) q ->
          i <> -1 /\ (ph = default_phase \/ exists pl0, pl = Some pl0 /\ In ph (map snd (strip_ni pl0)))).
  { intros i ph Hin. split.
    - apply In_ids in Hin. rewrite Hq in Hin. specialize (Hgt _ Hin). lia.
    - unfold q in Hin. destruct pl as [pl0|].
      + destruct (reconcile_values (strip_ni pl0) u i ph (strip_ni_sorted _ (Hpl _ eq_refl)) Hsu Hin); eauto.
      + rewrite pl_default_eq in Hin by auto. apply in_map_iff in Hin.
        destruct Hin as [j [Ej _]]. inversion Ej; auto. }
  fold u. fold q. intros i ph Hin.
  destruct (u0 =? -1) eqn:E0; [|right; auto].
  rewrite add_not_indexed_new in Hin; auto.
  - destruct Hin as [Hin|Hin]; [inversion Hin; auto|right; auto].
  - rewrite Hq. apply Forall_forall. auto.
Qed.

(* the caller's list is well formed: sorted, and a phase named "not_indexed" (if any) has id -1 *)
Definition caller_ok (pl0 : plist) : Prop :=
  sortedk pl0 /\ (forall i p, In (i, p) pl0 -> pname p = ni_name -> i = -1).

(* After construction from ANY phase-id array (ids >= -1) and ANY well-formed phase
   list -- it may hold "not_indexed" at id -1, e.g. another map's .phases -- the
   invariant holds. *)
Theorem init_Inv pid pl props st :
  (forall pl0, pl = Some pl0 -> caller_ok pl0) ->
  (forall x, In x pid -> -1 <= x) ->
  init pid pl props = Ok st -> Inv st.
Proof.
  intros Hpl Hlow. unfold init. destruct (init_phases pid pl) as [p|] eqn:E; [|discriminate].
  intros H. inversion H; subst; clear H.
  assert (Hpl' : forall pl0, pl = Some pl0 -> sortedk pl0) by (intros; apply Hpl; auto).
  destruct (init_phases_ids pid pl p Hpl' E) as [Hids Hs].
  split; simpl; [split; [auto|split]|].
  - intros i ph Hin.
    destruct (init_phases_entries pid pl p Hpl' Hlow E i ph Hin) as [[E1 E2]|[E1 E2]].
    + subst. split; intros; reflexivity.
    + split; [|tauto]. intros Hn. exfalso. destruct E2 as [E2|[pl0 [E2 E3]]].
      * subst. cbv in Hn. discriminate.
      * apply in_map_iff in E3. destruct E3 as [[j q] [E3 E4]]. simpl in E3. subst q.
        destruct (Hpl _ E2) as [Hs0 Hni]. apply strip_ni_In in E4; auto.
        destruct E4 as [E4 E5]. apply E5. eapply Hni; eauto.
  - intros i Hi. rewrite Hids in Hi. apply (proj1 (uniq_In _ _)) in Hi. apply Hlow; auto.
  - intros x Hx. rewrite Hids. apply uniq_In; auto.
Qed.

(* id -1 is listed iff it occurs in the data, whatever the caller's list holds *)
Lemma init_ni_iff pid pl p :
  (forall pl0, pl = Some pl0 -> sortedk pl0) ->
  init_phases pid pl = Ok p -> (In (-1) (ids p) <-> In (-1) pid).
Proof.
  intros Hpl E. destruct (init_phases_ids pid pl p Hpl E) as [Hids _].
  rewrite Hids. apply uniq_In.
Qed.

(* ================================================== phases_in_data *)
Lemma filter_ids_sorted_eq (pl : plist) (u : list Z) :
  sortedk pl -> sortedZ u -> (forall x, In x u -> In x (ids pl)) ->
  ids (filter (fun kv => memZ (fst kv) u) pl) = u.
Proof.
  intros Hs Hu Hin. apply sortedZ_ext; auto.
  - apply sortedk_ids, sortedk_filter; auto.
  - intros x. rewrite (ids_filter_In (fun i => memZ i u)), memZ_In. split; [tauto|]. auto.
Qed.

Lemma filter_all_true {A} (f : A -> bool) l : (forall x, In x l -> f x = true) -> filter f l = l.
Proof. apply filter_all_id. Qed.

Definition present (st : store) (v : view) : list Z := uniq (view_pid st v).

(* several phases in the selection: exactly the listed entries of the ids present *)
Theorem phases_in_data_many st v : Inv st -> (2 <= List.length (present st v))%nat ->
  exists sel, phases_in_data st v = Ok sel /\ ids sel = present st v /\
              (forall x, In x sel -> In x (s_phases st)) /\ sortedk sel.
Proof.
  intros [[Hs [Hn Hl]] He] Hlen. unfold phases_in_data. fold (present st v).
  set (u := present st v) in *.
  assert (Hu : sortedZ u) by apply uniq_sorted.
  assert (Hin : forall x, In x u -> In x (ids (s_phases st))).
  { intros x Hx. apply (proj1 (uniq_In _ _)) in Hx. apply select_by_In in Hx. auto. }
  rewrite filter_all_true by (intros x Hx; apply memZ_In; auto).
  set (sel := filter (fun kv => memZ (fst kv) u) (s_phases st)).
  assert (Hids : ids sel = u) by (apply filter_ids_sorted_eq; auto).
  pose proof (by_ids_spec (s_phases st) u Hs Hin) as R. fold sel in R.
  assert (Hl2 : (2 <= List.length sel)%nat).
  { rewrite <- Hids in Hlen. unfold ids in Hlen. rewrite map_length in Hlen. auto. }
  assert (Hsub : forall x, In x sel -> In x (s_phases st)).
  { intros x Hx. apply filter_In in Hx. tauto. }
  assert (Hss : sortedk sel) by (apply sortedk_filter; auto).
  exists sel. clearbody sel.
  destruct sel as [|a [|b r]]; simpl in Hl2; try lia.
  simpl in R. cbn [index]. rewrite R. auto.
Qed.

Lemma filter_single (pl : plist) i p : sortedk pl -> dict_get i pl = Some p ->
  filter (fun kv => memZ (fst kv) [i]) pl = [(i, p)].
Proof.
  intros Hs Hg. apply sortedk_ext.
  - apply sortedk_filter; auto.
  - simpl. split; [constructor|auto].
  - intros [j q]. rewrite filter_In, memZ_In. simpl. split.
    + intros [H1 [H2|[]]]. subst j. left.
      apply In_dict_get in H1; [|apply sortedk_NoDup; auto]. congruence.
    + intros [H|[]]. inversion H; subst. split; [apply dict_get_In; auto|auto].
Qed.

(* one phase in the selection: that phase, under the id present in the data *)
Theorem phases_in_data_single st v i p : Inv st -> present st v = [i] ->
  dict_get i (s_phases st) = Some p ->
  phases_in_data st v = Ok [(i, p)].
Proof.
  intros [[Hs [Hn Hl]] He] Hp Hg. unfold phases_in_data. fold (present st v). rewrite Hp.
  assert (Hi : In i (ids (s_phases st))).
  { apply dict_get_In, In_ids in Hg. auto. }
  simpl filter. replace (memZ i (ids (s_phases st))) with true by (symmetry; apply memZ_In; auto).
  cbn [index].
  pose proof (by_ids_spec (s_phases st) [i] Hs) as R.
  rewrite (filter_single _ i p Hs Hg) in R. simpl in R. rewrite R; auto.
  intros k [Hk|[]]. subst; auto.
Qed.

(* whatever the selection (non-empty): exactly the ids present, each with its listed phase *)
Theorem phases_in_data_ids st v : Inv st -> present st v <> [] ->
  exists sel, phases_in_data st v = Ok sel /\ ids sel = present st v /\
              (forall x, In x sel -> In x (s_phases st)) /\ sortedk sel.
Proof.
  intros HI Hne. destruct (present st v) as [|i [|j r]] eqn:E; [congruence| |].
  - assert (Hi : In i (ids (s_phases st))).
    { destruct HI as [_ He]. apply He. apply (select_by_In v). apply uniq_In.
      change (In i (present st v)). rewrite E. left; auto. }
    destruct (dict_get_Some_ids _ _ Hi) as [p Hg].
    exists [(i, p)]. rewrite (phases_in_data_single st v i p HI E Hg).
    split; [auto|split; [auto|split]].
    + intros x [Hx|[]]. subst. apply dict_get_In; auto.
    + simpl. split; [constructor|auto].
  - rewrite <- E. apply phases_in_data_many; auto. rewrite E. simpl. lia.
Qed.

(* ====================================================== orientations *)
Lemma slice_all_single j p : -1 <= j -> by_slice [(j, p)] None None None = IOne p.
Proof.
  intros Hj.
  assert (Hs : sortedk [(j, p)]) by (simpl; split; [constructor|auto]).
  set (n := slice_len [(j, p)]).
  assert (Hn : n = j + 1 - slice_start [(j, p)] /\ 1 <= n).
  { unfold n, slice_len, slice_start. simpl. destruct (j =? -1) eqn:E; [apply Z.eqb_eq in E|apply Z.eqb_neq in E]; lia. }
  assert (Hp : slice_indices n None None None = Some (range_from (Z.to_nat n) 0 n 1)) by reflexivity.
  pose proof (by_slice_spec [(j, p)] None None None _ Hs ltac:(discriminate) Hp) as R.
  simpl filter in R.
  replace (memZ (j - slice_start [(j, p)]) (range_from (Z.to_nat n) 0 n 1)) with true in R; [exact R|].
  symmetry. apply memZ_In. apply range_from_In_step1; lia.
Qed.

Theorem orientations_single st v i p : Inv st -> present st v = [i] ->
  dict_get i (s_phases st) = Some p ->
  orientations st v = match ppg p with Some g => Ok g | None => Err TypeError end.
Proof.
  intros HI Hp Hg. pose proof (phases_in_data_single st v i p HI Hp Hg) as H2.
  unfold orientations. rewrite H2. simpl List.length. simpl Nat.eqb. cbn [index].
  rewrite slice_all_single; auto.
  destruct HI as [[_ [_ Hl]] _]. apply Hl. apply dict_get_In, In_ids in Hg. auto.
Qed.

Theorem orientations_many st v : Inv st -> (2 <= List.length (present st v))%nat ->
  orientations st v = Err ValueError.
Proof.
  intros HI Hl. destruct (phases_in_data_many st v HI Hl) as [sel [H1 [H2 _]]].
  unfold orientations. rewrite H1.
  assert (List.length sel = List.length (present st v)).
  { rewrite <- H2. unfold ids. rewrite map_length. auto. }
  destruct (Nat.eqb (List.length sel) 1) eqn:E; auto. apply Nat.eqb_eq in E. lia.
Qed.

(* ============================================================ frames *)
(* assignment of phase ids through a selection v: the selected points take the
   values, every other point of the underlying map keeps its id *)
Theorem set_pid_scalar_frame st v z : List.length v = List.length (s_pid st) ->
  let st' := fst (set_pid st v (PScalar z)) in
  select_by v (s_pid st') = repeat z (count v) /\
  select_by (map negb v) (s_pid st') = select_by (map negb v) (s_pid st) /\
  s_props st' = s_props st.
Proof. intros H. simpl. destruct (select_by_fill v z (s_pid st) H). auto. Qed.

(* array assignment of the right length: exactly the selected points take the values,
   nothing is raised, and not_indexed is added when -1 was assigned and it was missing *)
Theorem set_pid_array_frame st v zs : List.length v = List.length (s_pid st) ->
  List.length zs = count v ->
  let st' := fst (set_pid st v (PArr zs)) in
  select_by v (s_pid st') = zs /\
  select_by (map negb v) (s_pid st') = select_by (map negb v) (s_pid st) /\
  s_props st' = s_props st /\ s_phases st' = maybe_add_ni zs (s_phases st) /\
  snd (set_pid st v (PArr zs)) = None.
Proof.
  intros H Hc. destruct zs as [|z [|z' r]].
  - unfold set_pid. rewrite Hc, Nat.eqb_refl. simpl.
    destruct (select_by_scatter v [] (s_pid st) H Hc). auto.
  - simpl. destruct (select_by_fill v z (s_pid st) H) as [H1 H2]. rewrite H1, <- Hc. simpl. auto.
  - unfold set_pid. rewrite Hc, Nat.eqb_refl. simpl.
    destruct (select_by_scatter v (z :: z' :: r) (s_pid st) H Hc). auto.
Qed.

(* a wrong-length array (other than a length-1 array, which is broadcast) is rejected
   and nothing changes *)
Theorem set_pid_array_bad_length st v zs : List.length zs <> 1%nat ->
  List.length zs <> count v -> set_pid st v (PArr zs) = (st, Some ValueError).
Proof.
  intros Hl Hc. destruct zs as [|z [|z' r]]; simpl in Hl; try lia;
    unfold set_pid; apply Nat.eqb_neq in Hc; rewrite Hc; auto.
Qed.

Lemma prop_get_set_same k a d : prop_get k (prop_set k a d) = Some a.
Proof.
  induction d as [|[k' a'] r IH]; simpl.
  - rewrite String.eqb_refl. auto.
  - destruct (String.eqb k k') eqn:E; simpl; rewrite ?String.eqb_refl, ?E; auto.
Qed.

Lemma prop_get_set_other k k' a d : k <> k' -> prop_get k' (prop_set k a d) = prop_get k' d.
Proof.
  intros Hne. induction d as [|[k2 a2] r IH]; simpl.
  - replace (String.eqb k' k) with false; auto. symmetry. apply String.eqb_neq. auto.
  - destruct (String.eqb k k2) eqn:E; simpl.
    + apply String.eqb_eq in E. subst k2.
      replace (String.eqb k' k) with false; auto. symmetry. apply String.eqb_neq. auto.
    + destruct (String.eqb k' k2); auto.
Qed.

Lemma cast_same a : cast (pdt a) a = a.
Proof.
  destruct a as [d l]. unfold cast. simpl. f_equal.
  rewrite <- (map_id l) at 2. apply map_ext. intros x. destruct d; auto.
Qed.

Lemma select_by_map {A B} (f : A -> B) (v : view) : forall l, select_by v (map f l) = map f (select_by v l).
Proof.
  induction v as [|b v IH]; intros [|x l]; simpl; auto. destruct b; simpl; rewrite IH; auto.
Qed.

(* the NUMBER held by a stored value: floats are stored as quarters, ints as units *)
Definition quarters (d : dtype) (x : Z) : Z := match d with DInt => x * 4 | DFlt => x end.

(* a cast that keeps every number: anything but float -> int *)
Definition lossless (a b : dtype) : Prop := match a, b with DFlt, DInt => False | _, _ => True end.

Lemma cast1_quarters a b x : lossless a b -> quarters b (cast1 a b x) = quarters a x.
Proof. destruct a, b; simpl; intros H; auto; tauto. Qed.

Lemma cast1_same d x : cast1 d d x = x.
Proof. destruct d; auto. Qed.

Lemma promote_same d : promote d d = d.
Proof. destruct d; auto. Qed.

Lemma promote_lossless_l a d : lossless a (promote a d).
Proof. destruct a, d; simpl; auto. Qed.

Lemma promote_lossless_r a d : lossless d (promote a d).
Proof. destruct a, d; simpl; auto. Qed.

Lemma lossless_refl d : lossless d d.
Proof. destruct d; simpl; auto. Qed.

(* the dtype of the property after an assignment *)
Definition new_dtype (v : view) (old d : dtype) : dtype := if all_in v then d else promote old d.

Lemma promote_same_new v d : new_dtype v d d = d.
Proof. unfold new_dtype. rewrite promote_same. destruct (all_in v); auto. Qed.

Lemma new_dtype_value v old d : lossless d (new_dtype v old d).
Proof. unfold new_dtype. destruct (all_in v); [apply lossless_refl|apply promote_lossless_r]. Qed.

Lemma all_in_unselected {A} (v : view) : all_in v = true -> forall l : list A, select_by (map negb v) l = [].
Proof.
  unfold all_in. induction v as [|b v IH]; intros H [|x l]; simpl in *; auto.
  apply andb_true_iff in H. destruct H as [Hb H]. subst b. simpl. auto.
Qed.

Lemma new_dtype_old {A} v old d (l : list A) : select_by (map negb v) l <> [] -> lossless old (new_dtype v old d).
Proof.
  unfold new_dtype. destruct (all_in v) eqn:E.
  - rewrite all_in_unselected by auto. congruence.
  - intros _. apply promote_lossless_l.
Qed.

(* property assignment through a selection, ANY value dtype: exactly the selected points
   take the (converted) values; every other point keeps its value, converted to a dtype
   that holds it exactly; other keys, phase ids and phases are untouched *)
Theorem set_prop_scalar_frame st v k a d z :
  prop_get k (s_props st) = Some a -> List.length v = List.length (pvals a) ->
  let st' := fst (set_prop st v k (VScalar d z)) in
  exists a', prop_get k (s_props st') = Some a' /\ pdt a' = new_dtype v (pdt a) d /\
    select_by v (pvals a') = repeat (cast1 d (pdt a') z) (count v) /\
    select_by (map negb v) (pvals a') = map (cast1 (pdt a) (pdt a')) (select_by (map negb v) (pvals a)) /\
    lossless d (pdt a') /\
    (select_by (map negb v) (pvals a) <> [] -> lossless (pdt a) (pdt a')) /\
    s_pid st' = s_pid st /\ s_phases st' = s_phases st /\
    (forall k', k' <> k -> prop_get k' (s_props st') = prop_get k' (s_props st)).
Proof.
  intros Hg Hl. unfold set_prop. rewrite Hg. fold (new_dtype v (pdt a) d). simpl.
  set (dt := new_dtype v (pdt a) d).
  assert (Hl' : List.length v = List.length (map (cast1 (pdt a) dt) (pvals a))) by (rewrite map_length; auto).
  destruct (select_by_fill v (cast1 d dt z) _ Hl') as [H1 H2].
  eexists. split; [apply prop_get_set_same|]. simpl. repeat split; auto.
  - rewrite H2. apply select_by_map.
  - apply new_dtype_value.
  - apply new_dtype_old.
  - intros k' Hk. apply prop_get_set_other. auto.
Qed.

Theorem set_prop_array_frame st v k a d zs :
  prop_get k (s_props st) = Some a -> List.length v = List.length (pvals a) ->
  List.length zs = count v ->
  let st' := fst (set_prop st v k (VArr d zs)) in
  exists a', prop_get k (s_props st') = Some a' /\ pdt a' = new_dtype v (pdt a) d /\
    select_by v (pvals a') = map (cast1 d (pdt a')) zs /\
    select_by (map negb v) (pvals a') = map (cast1 (pdt a) (pdt a')) (select_by (map negb v) (pvals a)) /\
    lossless d (pdt a') /\
    (select_by (map negb v) (pvals a) <> [] -> lossless (pdt a) (pdt a')) /\
    s_pid st' = s_pid st /\ s_phases st' = s_phases st /\
    (forall k', k' <> k -> prop_get k' (s_props st') = prop_get k' (s_props st)).
Proof.
  intros Hg Hl Hc. unfold set_prop. rewrite Hg. fold (new_dtype v (pdt a) d).
  set (dt := new_dtype v (pdt a) d).
  assert (Hl' : List.length v = List.length (map (cast1 (pdt a) dt) (pvals a))) by (rewrite map_length; auto).
  destruct zs as [|z [|z' r]].
  - rewrite Hc, Nat.eqb_refl. simpl.
    destruct (select_by_scatter v (@nil Z) _ Hl' Hc) as [G1 G2].
    eexists. split; [apply prop_get_set_same|]. simpl. repeat split; auto.
    + rewrite G2. apply select_by_map.
    + apply new_dtype_value.
    + apply new_dtype_old.
    + intros k' Hk. apply prop_get_set_other. auto.
  - simpl. destruct (select_by_fill v (cast1 d dt z) _ Hl') as [H1 H2].
    eexists. split; [apply prop_get_set_same|]. simpl. repeat split; auto.
    + rewrite H1, <- Hc. reflexivity.
    + rewrite H2. apply select_by_map.
    + apply new_dtype_value.
    + apply new_dtype_old.
    + intros k' Hk. apply prop_get_set_other. auto.
  - rewrite Hc, Nat.eqb_refl.
    assert (Hc' : List.length (map (cast1 d dt) (z :: z' :: r)) = count v) by (rewrite map_length; auto).
    destruct (select_by_scatter v _ _ Hl' Hc') as [G1 G2].
    eexists. split; [apply prop_get_set_same|]. unfold cast; cbn [fst s_props s_pid s_phases pdt pvals]. repeat split; auto.
    + rewrite G2. apply select_by_map.
    + apply new_dtype_value.
    + apply new_dtype_old.
    + intros k' Hk. apply prop_get_set_other. auto.
Qed.

(* in NUMBERS: no point outside the selection changes its number, whatever the dtypes *)
Corollary set_prop_keeps_unselected_numbers st v k a val :
  prop_get k (s_props st) = Some a -> List.length v = List.length (pvals a) ->
  snd (set_prop st v k val) = None ->
  exists a', prop_get k (s_props (fst (set_prop st v k val))) = Some a' /\
    map (quarters (pdt a')) (select_by (map negb v) (pvals a'))
    = map (quarters (pdt a)) (select_by (map negb v) (pvals a)).
Proof.
  intros Hg Hl He.
  assert (K : forall a' : parr,
     select_by (map negb v) (pvals a') = map (cast1 (pdt a) (pdt a')) (select_by (map negb v) (pvals a)) ->
     (select_by (map negb v) (pvals a) <> [] -> lossless (pdt a) (pdt a')) ->
     map (quarters (pdt a')) (select_by (map negb v) (pvals a'))
     = map (quarters (pdt a)) (select_by (map negb v) (pvals a))).
  { intros a' E L. rewrite E, map_map. destruct (select_by (map negb v) (pvals a)) as [|x l] eqn:S; auto.
    apply map_ext. intros y. apply cast1_quarters. apply L. discriminate. }
  destruct val as [d z|d zs].
  - destruct (set_prop_scalar_frame st v k a d z Hg Hl) as [a' [H1 [_ [_ [H4 [_ [H6 _]]]]]]].
    exists a'. split; auto.
  - destruct (Nat.eq_dec (List.length zs) (count v)) as [Hc|Hc].
    + destruct (set_prop_array_frame st v k a d zs Hg Hl Hc) as [a' [H1 [_ [_ [H4 [_ [H6 _]]]]]]].
      exists a'. split; auto.
    + destruct zs as [|z [|z' r]].
      * exfalso. unfold set_prop in He. rewrite Hg in He. apply Nat.eqb_neq in Hc. rewrite Hc in He. discriminate.
      * destruct (set_prop_scalar_frame st v k a d z Hg Hl) as [a' [H1 [_ [_ [H4 [_ [H6 _]]]]]]].
        exists a'. split; auto.
      * exfalso. unfold set_prop in He. rewrite Hg in He. apply Nat.eqb_neq in Hc. rewrite Hc in He. discriminate.
Qed.

(* ======================================================== selections *)
Lemma map2_nth {A B C} (f : A -> B -> C) : forall a b k da db dc,
  (k < List.length a)%nat -> (k < List.length b)%nat ->
  nth k (map2 f a b) dc = f (nth k a da) (nth k b db).
Proof.
  induction a as [|x a IH]; intros [|y b] k da db dc Ha Hb; simpl in *; try lia.
  destruct k; auto. apply IH; lia.
Qed.

Lemma name_hits_spec pl k x : name_hits pl k x = true <->
  exists i p, In (i, p) pl /\
    ((k = pname p /\ x = i) \/ (k <> pname p /\ k = "indexed"%string /\ x <> -1)).
Proof.
  unfold name_hits. rewrite existsb_exists. split.
  - intros [[i p] [Hin H]]. simpl in H. exists i, p. split; auto.
    destruct (String.eqb k (pname p)) eqn:E.
    + apply String.eqb_eq in E. apply Z.eqb_eq in H. auto.
    + apply String.eqb_neq in E. apply andb_true_iff in H. destruct H as [H1 H2].
      apply String.eqb_eq in H1. apply negb_true_iff, Z.eqb_neq in H2. auto.
  - intros [i [p [Hin H]]]. exists (i, p). split; auto. simpl.
    destruct H as [[H1 H2]|[H1 [H2 H3]]].
    + subst. rewrite String.eqb_refl. apply Z.eqb_refl.
    + apply String.eqb_neq in H1. rewrite H1. subst k. simpl. apply negb_true_iff, Z.eqb_neq. auto.
Qed.

(* selection by phase names: a point is selected iff it was in the selection
   and one of the keys names its phase (or is "indexed" and the point is indexed) *)
Theorem select_names_spec st v ks v' k :
  select st v (SNames ks) = Ok v' -> (k < List.length v)%nat -> List.length v = List.length (s_pid st) ->
  nth k v' false = nth k v false && existsb (fun n => name_hits (s_phases st) n (nth k (s_pid st) 0)) ks.
Proof.
  intros H Hk Hl. simpl in H. inversion H; subst.
  rewrite (map2_nth _ v (s_pid st) k false 0 false) by lia. reflexivity.
Qed.

Lemma scatter_false_subset (v : view) : forall (m : list bool) k,
  nth k (scatter v m (map (fun _ => false) v)) false = true -> nth k v false = true.
Proof.
  induction v as [|b v IH]; intros m k; simpl; [destruct k; auto|].
  destruct b.
  - destruct m as [|y m]; destruct k; simpl; auto; apply IH.
  - destruct k; simpl; auto. apply IH.
Qed.

(* selections only ever shrink, and never touch the store *)
Theorem select_subset st v s v' k :
  select st v s = Ok v' -> nth k v' false = true -> nth k v false = true.
Proof.
  destruct s as [ks|m]; simpl.
  - intros H. inversion H; subst. clear H. revert k. generalize (s_pid st) as l.
    induction v as [|b v IH]; intros [|x l] k; simpl; try (destruct k; simpl; intros; discriminate).
    destruct k; simpl.
    + intros H. apply andb_true_iff in H. tauto.
    + apply IH.
  - destruct (Nat.eqb (List.length m) (count v)); [|discriminate].
    intros H. inversion H; subst. apply scatter_false_subset.
Qed.

Lemma select_by_mask_scatter (v : view) : forall (m : list bool),
  List.length m = count v -> select_by v (scatter v m (map (fun _ => false) v)) = m.
Proof.
  intros m H. apply (select_by_scatter v m (map (fun _ => false) v)); auto.
  rewrite map_length. auto.
Qed.

(* ================================ the linking rule, remaining closed forms *)
(* ids exactly those of the data: the list is kept as it is *)
Theorem reconcile_same_ids pl : sortedk pl -> reconcile pl (ids pl) = pl.
Proof.
  intros Hs. rewrite reconcile_equal.
  - apply combine_ids_snd.
  - apply sortedk_ids; auto.
  - unfold ids. rewrite map_length. auto.
Qed.

(* every id of the data is listed: the phases of the ids present keep their ids,
   all the others are dropped *)
Theorem reconcile_superset pl u : sortedk pl -> sortedZ u ->
  (forall x, In x u -> In x (ids pl)) ->
  reconcile pl u = filter (fun kv => memZ (fst kv) u) pl.
Proof.
  intros Hs Hu Hin.
  assert (Hn := sortedk_NoDup _ Hs). assert (Hnu := sortedZ_NoDup _ Hu).
  set (keep := filter (fun kv => memZ (fst kv) u) pl).
  assert (Hk : ids keep = u) by (apply filter_ids_sorted_eq; auto).
  assert (Hlen : (List.length u <= List.length pl)%nat).
  { rewrite <- (map_length fst pl). apply NoDup_incl_length; auto. }
  destruct (Nat.eq_dec (List.length pl) (List.length u)) as [E|E].
  - rewrite reconcile_equal by auto.
    assert (Hall : keep = pl).
    { apply filter_all_id. intros [i p] Hi. simpl. apply memZ_In.
      assert (I : incl (ids pl) u).
      { apply NoDup_length_incl; auto. unfold ids. rewrite map_length. lia. }
      apply I. eapply In_ids; eauto. }
    rewrite <- Hk at 1. rewrite Hall. apply combine_ids_snd.
  - rewrite reconcile_more by (auto; lia).
    destruct (drop_set_props pl u Hs ltac:(lia)) as [D1 [D2 [D3 D4]]].
    replace (filter (fun kv => negb (memZ (fst kv) (drop_set pl u))) pl) with keep.
    + rewrite <- Hk at 1. apply combine_ids_snd.
    + unfold keep. apply filter_ext_in. intros [i p] Hi. simpl.
      destruct (memZ i u) eqn:M.
      * apply memZ_In in M. symmetry. apply negb_true_iff, memZ_false. intros HD. apply (D3 _ HD M).
      * apply memZ_false in M. symmetry. apply negb_false_iff, memZ_In.
        (* the absent ids are exactly |pl| - |u| many, so all of them are dropped *)
        set (ab := absent u (ids pl)).
        assert (Hab : NoDup ab) by (apply NoDup_filter; auto).
        assert (Hlab : List.length ab = (List.length pl - List.length u)%nat).
        { pose proof (filter_split_length (fun i => memZ i u) (ids pl)) as S.
          assert (P : Permutation (filter (fun i => memZ i u) (ids pl)) u).
          { apply NoDup_Permutation; auto; [apply NoDup_filter; auto|].
            intros x. rewrite filter_In, memZ_In. split; [tauto|auto]. }
          apply Permutation_length in P. unfold ab, absent.
          unfold ids in S at 3. rewrite map_length in S. lia. }
        assert (I : incl ab (drop_set pl u)).
        { apply NoDup_length_incl; auto; [lia|].
          intros x Hx. apply absent_In. split; auto. }
        apply I. apply absent_In. split; auto. eapply In_ids; eauto.
Qed.
