(* row 30 of the exhaustive two-symmetry decision (one file per row so that make -j runs them in parallel) *)
From Coq Require Import List Bool.
From Verif Require Import Groups SymDotK.
Lemma two_sym_row_30 : two_sym_row 30 = true.
Proof. vm_compute. reflexivity. Qed.
