(* C16 -- Part 5: every operation returns a well-formed array: the number of
   rows equals the product of the returned shape (for all shapes, keys,
   reshape arguments incl. the unknown dimension, stacks). *)
From Coq Require Import ZArith List Bool Arith Lia.
From Verif Require Import NdIndex C16Model C16Index C16Proofs C16Layout.
Import ListNotations.

Lemma size_atleast1 s : size (atleast1 s) = size s.
Proof. destruct s; reflexivity. Qed.

Lemma size_squeeze s : size (squeeze_shape s) = size s.
Proof.
  induction s as [|n s IH]; simpl; [reflexivity|].
  destruct (Nat.eqb n 1) eqn:E; simpl.
  - apply Nat.eqb_eq in E. subst. lia.
  - rewrite IH. reflexivity.
Qed.

Lemma blocks_length bs ps : length (blocks bs ps) = length ps * bs.
Proof.
  unfold blocks. induction ps as [|p ps IH]; simpl; [reflexivity|].
  rewrite app_length, seq_length, IH. reflexivity.
Qed.

Lemma basic_sels_length s : forall items sels, basic_sels s items = Some sels -> length sels = length s.
Proof.
  induction s as [|n s IH]; intros items sels; destruct items as [|it r]; simpl.
  - intros E; inversion E; reflexivity.
  - discriminate.
  - destruct (basic_sels s []) as [t|] eqn:Et; [|discriminate]. intros E; inversion E; simpl.
    rewrite (IH _ _ Et). reflexivity.
  - destruct it as [z|a b c].
    + destruct (norm_index n z); [|discriminate].
      destruct (basic_sels s r) as [t|] eqn:Et; [|discriminate]. intros E; inversion E; simpl.
      rewrite (IH _ _ Et). reflexivity.
    + destruct (slice_indices n a b c); [|discriminate].
      destruct (basic_sels s r) as [t|] eqn:Et; [|discriminate]. intros E; inversion E; simpl.
      rewrite (IH _ _ Et). reflexivity.
Qed.

(* integer-indexed axes are dropped from the shape; they have one selected index *)
Lemma kept_shape_size s : forall items sels, basic_sels s items = Some sels ->
  size (kept_shape sels) = size (map (@length nat) (map fst sels)).
Proof.
  induction s as [|n s IH]; intros items sels; destruct items as [|it r]; simpl.
  - intros E; inversion E; reflexivity.
  - discriminate.
  - destruct (basic_sels s []) as [t|] eqn:Et; [|discriminate]. intros E; inversion E; subst.
    unfold kept_shape in *; simpl. rewrite (IH _ _ Et). reflexivity.
  - destruct it as [z|a b c].
    + destruct (norm_index n z); [|discriminate].
      destruct (basic_sels s r) as [t|] eqn:Et; [|discriminate]. intros E; inversion E; subst.
      unfold kept_shape in *; simpl. rewrite (IH _ _ Et). lia.
    + destruct (slice_indices n a b c); [|discriminate].
      destruct (basic_sels s r) as [t|] eqn:Et; [|discriminate]. intros E; inversion E; subst.
      unfold kept_shape in *; simpl. rewrite (IH _ _ Et). reflexivity.
Qed.

(* reshape: the resolved shape has the same number of elements *)
Lemma known_prod_nonneg dims : (0 <= known_prod dims)%Z.
Proof.
  induction dims as [|z r IH]; simpl; [lia|].
  destruct (Z.ltb z 0) eqn:E; [exact IH|]. apply Z.ltb_ge in E. lia.
Qed.

Lemma size_resolved (q : Z) dims : (0 <= q)%Z -> count_neg1 dims <= 1 ->
  size (map (fun z => if Z.ltb z 0 then Z.to_nat q else Z.to_nat z) dims)
  = (if Nat.eqb (count_neg1 dims) 0 then 1 else Z.to_nat q) * Z.to_nat (known_prod dims).
Proof.
  intros Hq. unfold count_neg1. induction dims as [|z r IH]; simpl; [reflexivity|].
  pose proof (known_prod_nonneg r) as Hp.
  destruct (Z.ltb z 0) eqn:E; simpl; intros Hc.
  - rewrite IH by lia.
    destruct (length (filter (fun z0 => Z.ltb z0 0) r)) eqn:El; [simpl; lia|lia].
  - apply Z.ltb_ge in E. rewrite IH by lia. rewrite Z2Nat.inj_mul by lia. lia.
Qed.

Lemma resolve_inner n dims s' :
  (let p := known_prod dims in
   match count_neg1 dims with
   | 0 => if Z.eqb p (Z.of_nat n) then Some (map Z.to_nat dims) else None
   | 1 => if Z.eqb p 0 then None
          else if Z.eqb (Z.of_nat n mod p) 0
               then Some (map (fun z => if Z.ltb z 0 then Z.to_nat (Z.of_nat n / p) else Z.to_nat z) dims)
               else None
   | _ => None
   end) = Some s' -> size s' = n.
Proof.
  cbv zeta. pose proof (known_prod_nonneg dims) as Hp.
  destruct (count_neg1 dims) as [|[|k]] eqn:Ec; [| |discriminate].
  - destruct (Z.eqb (known_prod dims) (Z.of_nat n)) eqn:E; [|discriminate].
    apply Z.eqb_eq in E. intros H; inversion H; subst s'; clear H.
    pose proof (size_resolved 0 dims ltac:(lia) ltac:(lia)) as Hs. rewrite Ec in Hs. simpl in Hs.
    assert (Hm : map Z.to_nat dims = map (fun z => if Z.ltb z 0 then 0 else Z.to_nat z) dims).
    { apply map_ext. intros z. destruct (Z.ltb z 0) eqn:Ez; [|reflexivity].
      apply Z.ltb_lt in Ez. destruct z; simpl; try lia; reflexivity. }
    rewrite Hm, Hs, E. lia.
  - destruct (Z.eqb (known_prod dims) 0) eqn:E0; [discriminate|]. apply Z.eqb_neq in E0.
    destruct (Z.eqb (Z.of_nat n mod known_prod dims) 0) eqn:Em; [|discriminate].
    apply Z.eqb_eq in Em. intros H; inversion H; subst s'; clear H.
    assert (Hq : (0 <= Z.of_nat n / known_prod dims)%Z) by (apply Z.div_pos; lia).
    rewrite (size_resolved _ dims Hq) by lia. rewrite Ec. simpl.
    rewrite <- Z2Nat.inj_mul by lia.
    pose proof (Z.div_mod (Z.of_nat n) (known_prod dims) E0) as Hd. rewrite Em in Hd.
    replace (Z.of_nat n / known_prod dims * known_prod dims)%Z with (Z.of_nat n) by lia.
    apply Nat2Z.id.
Qed.

Lemma resolve_shape_size n dims s' : resolve_shape n dims = Some s' -> size s' = n.
Proof.
  unfold resolve_shape. destruct dims as [|z0 r0]; [discriminate|]. apply resolve_inner.
Qed.

Lemma plan_len o s :
  match plan_of o s with
  | PErr => True
  | PKeep s' => size s' = size s
  | PGather s' ps => length ps = size s'
  end.
Proof.
  destruct o as [k|dims| |axes| |vs|e]; simpl; auto.
  - (* getitem *)
    destruct k as [items|m bits|ixs|kb ka]; simpl.
    + unfold plan_basic. destruct (basic_sels s items) as [sels|] eqn:E; [|exact I].
      rewrite size_atleast1, (kept_shape_size _ _ _ E).
      apply sel_positions_length. rewrite map_length. eapply basic_sels_length; exact E.
    + destruct (_ && _ && _)%bool; [|exact I]. rewrite blocks_length. simpl. reflexivity.
    + destruct s as [|n rest]; [exact I|]. destruct (norm_all n ixs); [|exact I].
      rewrite blocks_length. reflexivity.
    + destruct (expand_ellipsis s kb ka) as [items|]; [|exact I].
      unfold plan_basic. destruct (basic_sels s items) as [sels|] eqn:E; [|exact I].
      rewrite size_atleast1, (kept_shape_size _ _ _ E).
      apply sel_positions_length. rewrite map_length. eapply basic_sels_length; exact E.
  - (* reshape *)
    unfold plan_reshape. destruct (resolve_shape (size s) dims) as [s'|] eqn:E; [|exact I].
    eapply resolve_shape_size; exact E.
  - (* flatten *) rewrite idx_flatten_length. simpl. lia.
  - (* transpose *)
    unfold plan_transpose. destruct (Nat.eqb (length s) 1); [reflexivity|].
    destruct axes as [ax|].
    + destruct (perm_ok (length s) ax); [|exact I]. unfold idx_transpose. rewrite map_length, seq_length. reflexivity.
    + destruct (Nat.eqb (length s) 2); [|exact I]. unfold idx_transpose. rewrite map_length, seq_length. reflexivity.
  - (* squeeze *) rewrite size_atleast1. apply size_squeeze.
Qed.

Lemma stack_rows_length {E} (d : E) n (ls : list (list E)) : length (stack_rows d n ls) = n * length ls.
Proof.
  unfold stack_rows.
  change (flat_map (fun p => map (fun l => nth p l d) ls) (seq 0 n))
    with (outer (fun p l => nth p l d) (seq 0 n) ls).
  rewrite outer_length, seq_length. reflexivity.
Qed.

Lemma all_some_length {A B} (g : A -> option B) l fs : all_some (map g l) = Some fs -> length fs = length l.
Proof.
  revert fs; induction l as [|a l IH]; intros fs; simpl.
  - intros E; inversion E; reflexivity.
  - destruct (g a); [|discriminate]. destruct (all_some (map g l)) as [t|]; [|discriminate].
    intros E; inversion E; simpl. rewrite (IH t); reflexivity.
Qed.

Definition len_ok {E} (a : list nat * list E) : Prop := length (snd a) = size (fst a).

Theorem astep_len_ok {E} (act : eop -> option (E -> E)) (d : E) o a a' :
  len_ok a -> astep act d o a = Some a' -> len_ok a'.
Proof.
  destruct a as [s l]. unfold len_ok; simpl. intros Hl.
  destruct o as [k|dims| |axes| |vs|e]; cbn [astep];
    try (match goal with |- apply_plan d l (plan_of ?o s) = _ -> _ =>
           pose proof (plan_len o s) as Hp; destruct (plan_of o s) as [|s1|s1 ps]; simpl;
           [discriminate| |]; intros E0; inversion E0; subst; simpl;
           [congruence|rewrite gather_length; exact Hp] end).
  - destruct vs as [|e0 vs']; [discriminate|].
    destruct (all_some (map act (e0 :: vs'))) as [fs|] eqn:Ef; [|discriminate].
    intros E0; inversion E0; subst; simpl.
    rewrite stack_rows_length, map_length, size_app. simpl. lia.
  - destruct (act e) as [f|]; [|discriminate]. intros E0; inversion E0; subst; simpl.
    rewrite map_length. exact Hl.
Qed.

Theorem arun_len_ok {E} (act : eop -> option (E -> E)) (d : E) p : forall a a',
  len_ok a -> arun act d p a = Some a' -> len_ok a'.
Proof.
  induction p as [|o p IH]; intros a a' Hl; simpl.
  - intros E0; inversion E0; subst; exact Hl.
  - destruct (astep act d o a) as [a1|] eqn:E1; [|discriminate].
    apply IH. eapply astep_len_ok; eassumption.
Qed.

Theorem run_spec_len_ok {V} (vf : vfuns V) c p : forall x x',
  length (orows x) = size (oshape x) -> run (step_spec vf c) p x = Some x' ->
  length (orows x') = size (oshape x').
Proof.
  induction p as [|o p IH]; intros x x' Hl; simpl.
  - intros E0; inversion E0; subst; exact Hl.
  - destruct (step_spec vf c o x) as [x1|] eqn:E1; [|discriminate].
    apply IH. unfold step_spec in E1.
    destruct (astep (sact vf c) (drow vf) o (oshape x, orows x)) as [[s' l']|] eqn:Ea; [|discriminate].
    inversion E1; subst; simpl.
    exact (astep_len_ok (sact vf c) (drow vf) o (oshape x, orows x) (s', l') Hl Ea).
Qed.
