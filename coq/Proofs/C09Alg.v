(* C09 -- 4-index conversions, the diffpy lattice model, the nine space
   conversions of _transform_space, zone law, lengths, duality, cross
   products -- for EVERY lattice base accepted by diffpy. *)
From Coq Require Import Reals ZArith Lra Lia Nsatz Bool List Psatz.
From Verif Require Import Scalar RInst C09Lin C09Miller C09Model.
From Verif Require Import C09LinAlg.
Import ListNotations.
Local Open Scope R_scope.

(* ------------------------------------------------------------------ *)
(* 4-index <-> 3-index (generated kernels)                              *)

Lemma uvw_UVTW_uvw (x : V3) : t3 (UVTW2uvw ROps) (t4 (uvw2UVTW ROps) x) = x.
Proof. vdestruct; lunfold; tuple_eq; field. Qed.

Lemma UVTW_sum0 (x : V3) :
  let '(U, V, T, W) := t4 (uvw2UVTW ROps) x in U + V + T = 0.
Proof. vdestruct; lunfold; field. Qed.

Lemma UVTW_uvw_UVTW (q : V4) :
  (let '(U, V, T, W) := q in U + V + T = 0) -> t4 (uvw2UVTW ROps) (t3 (UVTW2uvw ROps) q) = q.
Proof. vdestruct; lunfold; intros H; tuple_eq; try field. replace r1 with (- r - r0) by lra. field. Qed.

Lemma uvw_UVTW_uvw_mtex (x : V3) : t3 (UVTW2uvw_mtex ROps) (t4 (uvw2UVTW_mtex ROps) x) = x.
Proof. vdestruct; lunfold; tuple_eq; field. Qed.

Lemma UVTW_sum0_mtex (x : V3) :
  let '(U, V, T, W) := t4 (uvw2UVTW_mtex ROps) x in U + V + T = 0.
Proof. vdestruct; lunfold; field. Qed.

Lemma UVTW_uvw_UVTW_mtex (q : V4) :
  (let '(U, V, T, W) := q in U + V + T = 0) ->
  t4 (uvw2UVTW_mtex ROps) (t3 (UVTW2uvw_mtex ROps) q) = q.
Proof. vdestruct; lunfold; intros H; tuple_eq; try field. replace r1 with (- r - r0) by lra. field. Qed.

(* the two conventions differ by the factor 3 *)
Lemma UVTW_mtex_scale (x : V3) :
  t4 (uvw2UVTW_mtex ROps) x
  = (let '(U, V, T, W) := t4 (uvw2UVTW ROps) x in (3 * U, 3 * V, 3 * T, 3 * W)).
Proof. vdestruct; lunfold; tuple_eq; field. Qed.

Lemma hkl_hkil_hkl (x : V3) : t3 (hkil2hkl ROps) (t4 (hkl2hkil ROps) x) = x.
Proof. vdestruct; lunfold; tuple_eq; ring. Qed.

Lemma hkil_sum0 (x : V3) :
  let '(h, k, i, l) := t4 (hkl2hkil ROps) x in h + k + i = 0.
Proof. vdestruct; lunfold; ring. Qed.

Lemma hkil_hkl_hkil (q : V4) :
  (let '(h, k, i, l) := q in h + k + i = 0) -> t4 (hkl2hkil ROps) (t3 (hkil2hkl ROps) q) = q.
Proof. vdestruct; lunfold; intros H; tuple_eq; lra. Qed.

(* the constructor's check accepts exactly |U+V+T| <= 1e-4 *)
Lemma check_UVTW_spec (q : V4) :
  b4 (check_UVTW ROps) q = true <-> (let '(U, V, T, W) := q in Rabs (U + V + T) <= 1 / 10000).
Proof. vdestruct; cbv [b4 check_UVTW]; rsimpl; apply Rleb_true. Qed.
Lemma check_hkil_spec (q : V4) :
  b4 (check_hkil ROps) q = true <-> (let '(h, k, i, l) := q in Rabs (h + k + i) <= 1 / 10000).
Proof. vdestruct; cbv [b4 check_hkil]; rsimpl; apply Rleb_true. Qed.

(* ------------------------------------------------------------------ *)
(* the lattice model equals the ideal lattice  (A, A^-1, A A^T, B^T B)   *)

Definition gram (A : M3) : M3 := mmul ROps A (mtr A).

Lemma sqrt_mul_self (x : R) : 0 < x -> sqrt x * sqrt x = x.
Proof. intros; apply sqrt_sqrt; lra. Qed.

Lemma metric_diag (p : R) : 0 < p -> o_mul ROps (o_sqrt ROps p) (o_sqrt ROps p) = p.
Proof. intros; rsimpl; apply sqrt_mul_self; auto. Qed.
Lemma metric_off (p q d : R) : 0 < p -> 0 < q ->
  o_mul ROps (o_mul ROps (o_sqrt ROps p) (o_sqrt ROps q))
        (o_div ROps d (o_mul ROps (o_sqrt ROps p) (o_sqrt ROps q))) = d.
Proof.
  intros Hp Hq; rsimpl. pose proof (sqrt_lt_R0 p Hp). pose proof (sqrt_lt_R0 q Hq). field; lra.
Qed.
Lemma metric_off' (p q d : R) : 0 < p -> 0 < q ->
  o_mul ROps (o_mul ROps (o_sqrt ROps q) (o_sqrt ROps p))
        (o_div ROps d (o_mul ROps (o_sqrt ROps p) (o_sqrt ROps q))) = d.
Proof.
  intros Hp Hq; rsimpl. pose proof (sqrt_lt_R0 p Hp). pose proof (sqrt_lt_R0 q Hq). field; lra.
Qed.

Lemma metrics_gram (A : M3) : mdet ROps A <> 0 -> metrics_of_base ROps A = gram A.
Proof.
  intros H.
  pose proof (row_pos A 0 H) as H0. pose proof (row_pos A 1 H) as H1. pose proof (row_pos A 2 H) as H2.
  destruct A as [[r0 r1] r2]. cbn [mrow] in H0, H1, H2.
  unfold metrics_of_base, gram.
  rewrite !metric_diag, !metric_off, !metric_off' by assumption.
  clear. vdestruct; lunfold; tuple_eq; ring.
Qed.

(* the cell parameters diffpy derives determine, and are determined by, the Gram matrix *)
Lemma cell_gram (A A' : M3) :
  mdet ROps A <> 0 -> mdet ROps A' <> 0 -> gram A = gram A' -> cell_of_base ROps A = cell_of_base ROps A'.
Proof.
  intros H H' E. destruct A as [[r0 r1] r2]; destruct A' as [[s0 s1] s2].
  unfold gram in E. unfold cell_of_base.
  assert (E00 : vdot ROps r0 r0 = vdot ROps s0 s0) by (vdestruct; lunfold; inversion E; lra).
  assert (E11 : vdot ROps r1 r1 = vdot ROps s1 s1) by (vdestruct; lunfold; inversion E; lra).
  assert (E22 : vdot ROps r2 r2 = vdot ROps s2 s2) by (vdestruct; lunfold; inversion E; lra).
  assert (E01 : vdot ROps r0 r1 = vdot ROps s0 s1) by (vdestruct; lunfold; inversion E; lra).
  assert (E02 : vdot ROps r0 r2 = vdot ROps s0 s2) by (vdestruct; lunfold; inversion E; lra).
  assert (E12 : vdot ROps r1 r2 = vdot ROps s1 s2) by (vdestruct; lunfold; inversion E; lra).
  rewrite E00, E11, E22, E01, E02, E12. reflexivity.
Qed.

Definition eps8R : R := 1 / 100000000.

Lemma base_ok_true (A : M3) : base_ok ROps A = true <-> eps8R <= mdet ROps A.
Proof.
  unfold base_ok, eps8, eps8R, zero; rsimpl. rewrite andb_true_iff, !negb_true_iff, !Rltb_false.
  split.
  - intros [H1 H2]. rewrite Rabs_right in H1; lra.
  - intros H. split; [rewrite Rabs_right; lra | lra].
Qed.

Lemma base_ok_false (A : M3) : base_ok ROps A = false <-> mdet ROps A < eps8R.
Proof.
  split; intros H.
  - destruct (Rle_lt_dec eps8R (mdet ROps A)) as [L|L]; auto.
    apply base_ok_true in L; congruence.
  - destruct (base_ok ROps A) eqn:E; auto. apply base_ok_true in E; lra.
Qed.

(* the lattice a Phase holds after setLatBase(A) *)
Definition Lat (A : M3) : lattice R :=
  mkLattice A (minv ROps A) (metrics_of_base ROps A) (lat_metrics ROps (mtr (minv ROps A))).

Lemma lattice_of_base_ok (A : M3) : eps8R <= mdet ROps A -> lattice_of_base ROps A = Ok (Lat A).
Proof. intros H; unfold lattice_of_base; apply base_ok_true in H; rewrite H; reflexivity. Qed.

Lemma lattice_of_base_inv (A : M3) (L : lattice R) :
  lattice_of_base ROps A = Ok L -> eps8R <= mdet ROps A /\ L = Lat A.
Proof.
  unfold lattice_of_base; destruct (base_ok ROps A) eqn:E; intros H; inversion H.
  apply base_ok_true in E; auto.
Qed.

Lemma lattice_of_base_err (A : M3) : mdet ROps A < eps8R -> lattice_of_base ROps A = Err LatticeError.
Proof. intros H; unfold lattice_of_base; apply base_ok_false in H; rewrite H; reflexivity. Qed.

(* diffpy's reciprocal().metrics = B^T B when det A <= 1e8, LatticeError above
   (a new Lattice(base=recbase.T) goes through the determinant guard).  _transform_space
   no longer reads it: reciprocal -> direct multiplies by recbase.T @ recbase = B^T B *)
Definition rgram (A : M3) : M3 := mmul ROps (mtr (minv ROps A)) (minv ROps A).

Lemma rec_metrics_ok (A : M3) :
  0 < mdet ROps A -> mdet ROps A <= 100000000 ->
  lat_metrics ROps (mtr (minv ROps A)) = Ok (rgram A).
Proof.
  intros Hp Hh. unfold lat_metrics.
  assert (Hd : mdet ROps (mtr (minv ROps A)) = / mdet ROps A) by (rewrite mdet_mtr, mdet_minv; lra).
  assert (Hok : base_ok ROps (mtr (minv ROps A)) = true).
  { apply base_ok_true. rewrite Hd. unfold eps8R.
    apply Rmult_le_reg_r with (mdet ROps A); auto. rewrite Rinv_l by lra. lra. }
  rewrite Hok, metrics_gram by (rewrite Hd; apply Rinv_neq_0_compat; lra).
  unfold gram, rgram. rewrite mtr_invol. reflexivity.
Qed.

Lemma rec_metrics_err (A : M3) :
  100000000 < mdet ROps A -> lat_metrics ROps (mtr (minv ROps A)) = Err LatticeError.
Proof.
  intros Hh. unfold lat_metrics.
  assert (Hd : mdet ROps (mtr (minv ROps A)) = / mdet ROps A) by (rewrite mdet_mtr, mdet_minv; lra).
  assert (Hok : base_ok ROps (mtr (minv ROps A)) = false).
  { apply base_ok_false. rewrite Hd. unfold eps8R.
    apply Rmult_lt_reg_r with (mdet ROps A); [lra|]. rewrite Rinv_l by lra. lra. }
  rewrite Hok. reflexivity.
Qed.

(* ------------------------------------------------------------------ *)
(* the nine conversions, as plain linear maps                           *)

(* the ideal map of each conversion: v |-> v * M(si, so) *)
Definition conv_mat (A : M3) (si so : space) : M3 :=
  match si, so with
  | Sd, Sd | Sr, Sr | Sc, Sc => mid ROps
  | Sd, Sc => A
  | Sc, Sd => minv ROps A
  | Sr, Sc => mtr (minv ROps A)
  | Sc, Sr => mtr A
  | Sd, Sr => gram A
  | Sr, Sd => rgram A
  end.

Lemma transform_space_spec (A : M3) (si so : space) (v : V3) :
  mdet ROps A <> 0 ->
  transform_space ROps (Lat A) si so v = Ok (vmat ROps v (conv_mat A si so)).
Proof.
  intros H.
  destruct si, so;
    cbn [transform_space transform_matrix rmap apply_matrix Lat l_metrics l_base l_recbase
         l_rec_metrics conv_mat];
    try rewrite vmat_mid; try reflexivity.
  rewrite metrics_gram by auto. reflexivity.
Qed.

Lemma ts_dc (A : M3) (v : V3) : transform_space ROps (Lat A) Sd Sc v = Ok (vmat ROps v A).
Proof. reflexivity. Qed.
Lemma ts_rc (A : M3) (v : V3) : transform_space ROps (Lat A) Sr Sc v = Ok (vmat ROps v (mtr (minv ROps A))).
Proof. reflexivity. Qed.
Lemma ts_cd (A : M3) (v : V3) : transform_space ROps (Lat A) Sc Sd v = Ok (vmat ROps v (minv ROps A)).
Proof. reflexivity. Qed.
Lemma ts_cr (A : M3) (v : V3) : transform_space ROps (Lat A) Sc Sr v = Ok (vmat ROps v (mtr A)).
Proof. reflexivity. Qed.
Lemma Ok_inj {X : Type} (a b : X) : Ok a = Ok b -> a = b.
Proof. intros H; inversion H; reflexivity. Qed.

(* reciprocal -> direct: recbase.T @ recbase, whatever the cell volume *)
Lemma ts_rd (A : M3) (v : V3) : transform_space ROps (Lat A) Sr Sd v = Ok (vmat ROps v (rgram A)).
Proof. reflexivity. Qed.

(* any conversion is multiplication by conv_mat *)
Lemma transform_space_ok (A : M3) (si so : space) (v w : V3) :
  0 < mdet ROps A -> transform_space ROps (Lat A) si so v = Ok w -> w = vmat ROps v (conv_mat A si so).
Proof.
  intros Hp H. rewrite transform_space_spec in H by lra. inversion H; reflexivity.
Qed.

(* the conversion matrices form a groupoid: M(s1,s2) M(s2,s3) = M(s1,s3) *)
Lemma conv_mat_compose (A : M3) (s1 s2 s3 : space) :
  mdet ROps A <> 0 -> mmul ROps (conv_mat A s1 s2) (conv_mat A s2 s3) = conv_mat A s1 s3.
Proof.
  intros H.
  assert (Hl := minv_l A H). assert (Hr := minv_r A H).
  assert (Hlt : mmul ROps (mtr A) (mtr (minv ROps A)) = mid ROps)
    by (rewrite <- mtr_mmul, Hl; reflexivity).
  assert (Hrt : mmul ROps (mtr (minv ROps A)) (mtr A) = mid ROps)
    by (rewrite <- mtr_mmul, Hr; reflexivity).
  assert (c1 : forall Z, mmul ROps (minv ROps A) (mmul ROps A Z) = Z)
    by (intros; rewrite <- mmul_assoc, Hl, mmul_mid_l; reflexivity).
  assert (c2 : forall Z, mmul ROps A (mmul ROps (minv ROps A) Z) = Z)
    by (intros; rewrite <- mmul_assoc, Hr, mmul_mid_l; reflexivity).
  assert (c3 : forall Z, mmul ROps (mtr A) (mmul ROps (mtr (minv ROps A)) Z) = Z)
    by (intros; rewrite <- mmul_assoc, Hlt, mmul_mid_l; reflexivity).
  assert (c4 : forall Z, mmul ROps (mtr (minv ROps A)) (mmul ROps (mtr A) Z) = Z)
    by (intros; rewrite <- mmul_assoc, Hrt, mmul_mid_l; reflexivity).
  destruct s1, s2, s3; cbn [conv_mat]; unfold gram, rgram;
    rewrite ?mmul_assoc;
    repeat (progress rewrite ?c1, ?c2, ?c3, ?c4, ?Hl, ?Hr, ?Hlt, ?Hrt, ?mmul_mid_l, ?mmul_mid_r);
    reflexivity.
Qed.

Theorem conversions_compose (A : M3) (L : lattice R) (s1 s2 s3 : space) (v v1 v2 v3 : V3) :
  lattice_of_base ROps A = Ok L ->
  transform_space ROps L s1 s2 v = Ok v1 -> transform_space ROps L s2 s3 v1 = Ok v2 ->
  transform_space ROps L s1 s3 v = Ok v3 -> v2 = v3.
Proof.
  intros HL H1 H2 H3. apply lattice_of_base_inv in HL. destruct HL as [Hd ->].
  assert (Hp : 0 < mdet ROps A) by (unfold eps8R in Hd; lra).
  apply transform_space_ok in H1, H2, H3; auto. subst.
  rewrite vmat_mmul, conv_mat_compose; auto; lra.
Qed.

Theorem conversions_roundtrip (A : M3) (L : lattice R) (s1 s2 : space) (v v1 v2 : V3) :
  lattice_of_base ROps A = Ok L ->
  transform_space ROps L s1 s2 v = Ok v1 -> transform_space ROps L s2 s1 v1 = Ok v2 -> v2 = v.
Proof.
  intros HL H1 H2.
  apply (conversions_compose A L s1 s2 s1 v v1 v2 v HL H1 H2).
  destruct s1; reflexivity.
Qed.

(* no conversion raises, on any lattice a Phase can hold *)
Theorem conversions_total (A : M3) (L : lattice R) (s1 s2 : space) (v : V3) :
  lattice_of_base ROps A = Ok L -> exists w, transform_space ROps L s1 s2 v = Ok w.
Proof.
  intros HL. apply lattice_of_base_inv in HL. destruct HL as [Hd ->].
  assert (Hp : 0 < mdet ROps A) by (unfold eps8R in Hd; lra).
  eexists; apply transform_space_spec; lra.
Qed.

(* a cell of volume 1e9 (the stratum of the repaired defect): diffpy's reciprocal() still
   raises there, the reciprocal -> direct conversion does not depend on it any more *)
Definition big_cell : M3 := ((1000, 0, 0), (0, 1000, 0), (0, 0, 1000)).

Lemma big_cell_det : mdet ROps big_cell = 1000000000.
Proof. unfold big_cell; lunfold; ring. Qed.

Theorem conversion_rd_large_cell :
  exists (A : M3) (L : lattice R),
    lattice_of_base ROps A = Ok L /\ 100000000 < mdet ROps A /\
    l_rec_metrics L = Err LatticeError /\
    forall v : V3, transform_space ROps L Sr Sd v = Ok (vmat ROps v (rgram A)).
Proof.
  exists big_cell, (Lat big_cell). split; [|split; [|split]].
  - apply lattice_of_base_ok. rewrite big_cell_det. unfold eps8R; lra.
  - rewrite big_cell_det; lra.
  - cbn [Lat l_rec_metrics]. apply rec_metrics_err. rewrite big_cell_det; lra.
  - intros v. apply ts_rd.
Qed.

(* ... and diffpy refuses small cells altogether *)
Definition small_cell : M3 := ((1 / 1000, 0, 0), (0, 1 / 1000, 0), (0, 0, 1 / 1000)).

Theorem small_cell_refuted :
  exists A : M3, 0 < mdet ROps A /\ lattice_of_base ROps A = Err LatticeError.
Proof.
  exists small_cell.
  assert (E : mdet ROps small_cell = 1 / 1000000000) by (unfold small_cell; lunfold; field).
  split; [rewrite E; lra | apply lattice_of_base_err; rewrite E; unfold eps8R; lra].
Qed.

(* ------------------------------------------------------------------ *)
(* duality, zone law, lengths                                           *)

(* base . recbase = I, both ways *)
Theorem base_recbase_dual (A : M3) (L : lattice R) :
  lattice_of_base ROps A = Ok L ->
  mmul ROps (l_base L) (l_recbase L) = mid ROps /\ mmul ROps (l_recbase L) (l_base L) = mid ROps.
Proof.
  intros HL. apply lattice_of_base_inv in HL. destruct HL as [Hd ->]. unfold eps8R in Hd.
  simpl. split; [apply minv_r | apply minv_l]; lra.
Qed.

(* metric tensors *)
Theorem metrics_are_gram (A : M3) (L : lattice R) :
  lattice_of_base ROps A = Ok L ->
  l_metrics L = gram A /\ (forall G, l_rec_metrics L = Ok G -> G = rgram A).
Proof.
  intros HL. apply lattice_of_base_inv in HL. destruct HL as [Hd ->]. unfold eps8R in Hd.
  simpl. split; [apply metrics_gram; lra|].
  intros G HG. destruct (Rle_lt_dec (mdet ROps A) 100000000).
  - rewrite rec_metrics_ok in HG by lra. inversion HG; reflexivity.
  - rewrite rec_metrics_err in HG by lra. discriminate.
Qed.

(* zone law: <uvw A, hkl B^T> = uh + vk + wl *)
Lemma zone_law_mat (A : M3) (uvw hkl : V3) :
  mdet ROps A <> 0 ->
  vdot ROps (vmat ROps uvw A) (vmat ROps hkl (mtr (minv ROps A))) = vdot ROps uvw hkl.
Proof.
  intros H. rewrite vdot_comm, vdot_vmat_adj, mtr_invol, vdot_comm. rewrite vmat_minv_r; auto.
Qed.

Theorem zone_law (A : M3) (L : lattice R) (uvw hkl x g : V3) :
  lattice_of_base ROps A = Ok L ->
  transform_space ROps L Sd Sc uvw = Ok x -> transform_space ROps L Sr Sc hkl = Ok g ->
  vdot ROps x g = vdot ROps uvw hkl.
Proof.
  intros HL H1 H2. apply lattice_of_base_inv in HL. destruct HL as [Hd ->]. unfold eps8R in Hd.
  rewrite ts_dc in H1. rewrite ts_rc in H2. apply Ok_inj in H1, H2. subst x g. apply zone_law_mat. lra.
Qed.

(* direct base vectors a_i and reciprocal base vectors a*_j are dual *)
Definition e_ (i : nat) : V3 :=
  match i with 0%nat => (1, 0, 0) | 1%nat => (0, 1, 0) | _ => (0, 0, 1) end.

Theorem dual_bases (A : M3) (L : lattice R) (i j : nat) (ai arj : V3) :
  lattice_of_base ROps A = Ok L ->
  transform_space ROps L Sd Sc (e_ i) = Ok ai -> transform_space ROps L Sr Sc (e_ j) = Ok arj ->
  vdot ROps ai arj = vdot ROps (e_ i) (e_ j).
Proof. intros; eapply zone_law; eauto. Qed.

Lemma e_dot (i j : nat) : (i < 3)%nat -> (j < 3)%nat ->
  vdot ROps (e_ i) (e_ j) = if Nat.eqb i j then 1 else 0.
Proof.
  intros Hi Hj.
  destruct i as [|[|[|i]]]; [| | |exfalso; lia];
    (destruct j as [|[|[|j]]]; [| | |exfalso; lia]); cbn [e_ Nat.eqb]; lunfold; ring.
Qed.

(* |hkl B^T|^2 = hkl G* hkl^T   and   |uvw A|^2 = uvw G uvw^T *)
Lemma rlength_mat (A : M3) (hkl : V3) :
  vnorm2 ROps (vmat ROps hkl (mtr (minv ROps A))) = vdot ROps (vmat ROps hkl (rgram A)) hkl.
Proof.
  unfold rgram, vnorm2. rewrite <- vmat_mmul.
  rewrite (vdot_vmat_adj (vmat ROps hkl (mtr (minv ROps A))) hkl (minv ROps A)). reflexivity.
Qed.

Lemma dlength_mat (A : M3) (uvw : V3) :
  vnorm2 ROps (vmat ROps uvw A) = vdot ROps (vmat ROps uvw (gram A)) uvw.
Proof.
  unfold gram, vnorm2. rewrite <- vmat_mmul.
  rewrite (vdot_vmat_adj (vmat ROps uvw A) uvw (mtr A)), mtr_invol. reflexivity.
Qed.

(* interplanar spacing.  The lattice plane (hkl) nearest the origin is
   { uvw A : uh + vk + wl = 1 }; with g = hkl B^T:
   every point of the plane is at distance >= 1/|g|, and the point g/|g|^2 is
   on the plane at distance exactly 1/|g|.  Hence d_hkl = 1/|g|. *)
Theorem dspacing_lower (A : M3) (uvw hkl : V3) :
  mdet ROps A <> 0 -> vdot ROps uvw hkl = 1 ->
  1 <= vnorm2 ROps (vmat ROps uvw A) * vnorm2 ROps (vmat ROps hkl (mtr (minv ROps A))).
Proof.
  intros H H1. pose proof (zone_law_mat A uvw hkl H) as Z. rewrite H1 in Z.
  pose proof (cauchy_schwarz (vmat ROps uvw A) (vmat ROps hkl (mtr (minv ROps A)))) as CS.
  rewrite Z in CS. unfold vnorm2. lra.
Qed.

Theorem dspacing_attained (A : M3) (hkl : V3) :
  mdet ROps A <> 0 -> hkl <> (0, 0, 0) ->
  let g := vmat ROps hkl (mtr (minv ROps A)) in
  let p := vscale ROps (/ vnorm2 ROps g) g in
  0 < vnorm2 ROps g /\
  vdot ROps (vmat ROps p (minv ROps A)) hkl = 1 /\       (* p is on the plane *)
  vnorm2 ROps p * vnorm2 ROps g = 1.                      (* |p| = 1/|g| *)
Proof.
  intros H Hn g p.
  assert (Hg : 0 < vnorm2 ROps g).
  { pose proof (vdot_self_nonneg g) as Hge. unfold vnorm2.
    destruct (Req_dec (vdot ROps g g) 0) as [E|E]; [|lra].
    exfalso; apply Hn. apply vdot_self_zero in E. unfold g in E.
    assert (E2 : vmat ROps (vmat ROps hkl (mtr (minv ROps A))) (mtr A) = vmat ROps (0, 0, 0) (mtr A))
      by (rewrite E; reflexivity).
    rewrite vmat_mmul, <- mtr_mmul, minv_r in E2 by auto.
    replace (mtr (mid ROps)) with (mid ROps) in E2 by (lunfold; reflexivity).
    rewrite vmat_mid in E2. rewrite E2. clear. vdestruct; lunfold; tuple_eq; ring. }
  split; [exact Hg|]. split.
  - unfold p. rewrite vmat_vscale, vdot_vscale_l.
    (* <g B, hkl> = <g, hkl B^T> = <g, g> *)
    rewrite vdot_vmat_adj. fold g. unfold vnorm2 in *. field. lra.
  - unfold p, vnorm2 in *. rewrite vdot_vscale_l, vdot_vscale_r. field. lra.
Qed.

(* ------------------------------------------------------------------ *)
(* cross products land in the dual space                                *)

(* direct x direct: the hkl indices of the product are det A * (uvw1 x uvw2) *)
Theorem cross_direct_dual (A : M3) (u1 u2 : V3) :
  mdet ROps A <> 0 ->
  vmat ROps (vcross ROps (vmat ROps u1 A) (vmat ROps u2 A)) (mtr A)
  = vscale ROps (mdet ROps A) (vcross ROps u1 u2).
Proof. intros _; apply vcross_vmat_poly. Qed.

(* reciprocal x reciprocal: the uvw indices of the product are (hkl1 x hkl2) / det A *)
Theorem cross_reciprocal_dual (A : M3) (h1 h2 : V3) :
  mdet ROps A <> 0 ->
  vmat ROps (vcross ROps (vmat ROps h1 (mtr (minv ROps A))) (vmat ROps h2 (mtr (minv ROps A))))
       (minv ROps A)
  = vscale ROps (/ mdet ROps A) (vcross ROps h1 h2).
Proof.
  intros H.
  pose proof (vcross_vmat_poly h1 h2 (mtr (minv ROps A))) as P.
  rewrite mtr_invol, mdet_mtr, mdet_minv in P by auto. exact P.
Qed.
