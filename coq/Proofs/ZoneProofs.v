(* C05: properties of the fundamental-zone reduction loop and of the
   large-cell region, over the reals. *)
From Coq Require Import Reals ZArith Lra List Bool.
From Verif Require Import Scalar RInst QuatKernels Conversions Quat QuatAlg SymDot SymDotR ZoneModel.
Import ListNotations.
Local Open Scope R_scope.

Notation Rq := (quat (T:=R)).

Lemma Rabs_le_inv a b : Rabs a <= b -> - b <= a <= b.
Proof.
  intros H. pose proof (Rle_abs a) as H1. pose proof (Rle_abs (- a)) as H2.
  rewrite Rabs_Ropp in H2. lra.
Qed.

(* ---- the loop --------------------------------------------------------- *)
(* the result is gl*M*gr for a pair of the iteration (or the initial value
   when there is no pair at all) *)
Lemma reduce_loop_in_orbit eps N pairs M cur :
  reduce_loop ROps eps N pairs M cur = cur /\ pairs = [] \/
  exists gl gr, In (gl, gr) pairs /\ reduce_loop ROps eps N pairs M cur = transform ROps gl gr M.
Proof.
  revert cur. induction pairs as [|[gl gr] rest IH]; intros cur; cbn [reduce_loop].
  - left; auto.
  - right. destruct (inside_region ROps eps N (transform ROps gl gr M)) eqn:E.
    + exists gl, gr. split; [left; reflexivity|reflexivity].
    + destruct (IH (transform ROps gl gr M)) as [[H ->]|[gl' [gr' [Hin H]]]].
      * exists gl, gr. split; [left; reflexivity|]. cbn [reduce_loop]. reflexivity.
      * exists gl', gr'. split; [right; exact Hin|exact H].
Qed.

(* if some equivalent in the iteration is inside, the result is inside *)
Lemma reduce_loop_inside eps N pairs M cur :
  (exists gl gr, In (gl, gr) pairs /\ inside_region ROps eps N (transform ROps gl gr M) = true) ->
  inside_region ROps eps N (reduce_loop ROps eps N pairs M cur) = true.
Proof.
  revert cur. induction pairs as [|[gl gr] rest IH]; intros cur [gl' [gr' [Hin Hi]]].
  - destruct Hin.
  - cbn [reduce_loop]. destruct (inside_region ROps eps N (transform ROps gl gr M)) eqn:E; [exact E|].
    apply IH. destruct Hin as [Heq|Hin].
    + inversion Heq; subst. rewrite Hi in E. discriminate.
    + exists gl', gr'. auto.
Qed.

(* idempotence: an element already inside is returned unchanged when the
   iteration starts with the pair (identity, identity) *)
Lemma reduce_loop_fixed eps N rest M cur :
  inside_region ROps eps N M = true ->
  reduce_loop ROps eps N ((qone ROps, qone ROps) :: rest) M cur = M.
Proof.
  intros H. cbn [reduce_loop]. unfold transform. rewrite qmul_one_l, qmul_one_r, H. reflexivity.
Qed.

(* ---- the region --------------------------------------------------------- *)
(* the two normals the code attaches to a distinguished point d = (cos w/2, n sin w/2),
   (cos w/4, n sin w/4) and (sin w/4, -n cos w/4), are positive multiples of 1 + d and 1 - d *)
Lemma normals_are_one_plus_minus_d (t x y z : R) :
  let d : Rq := (cos (2 * t), x * sin (2 * t), y * sin (2 * t), z * sin (2 * t)) in
  plane_plus ROps d = qscale ROps (2 * cos t) (cos t, x * sin t, y * sin t, z * sin t) /\
  plane_minus ROps d = qscale ROps (2 * sin t) (sin t, - x * cos t, - y * cos t, - z * cos t).
Proof.
  cbv zeta. unfold plane_plus, plane_minus, qadd, qone, qneg, qscale; rsimpl.
  rewrite cos_2a_cos, sin_2a.
  assert (Hs : 1 - (2 * cos t * cos t - 1) = 2 * sin t * sin t).
  { pose proof (sin2_cos2 t) as H. unfold Rsqr in H. lra. }
  split; repeat match goal with |- (_, _) = (_, _) => apply f_equal2 end; try ring.
  replace (1 + - (2 * cos t * cos t - 1)) with (1 - (2 * cos t * cos t - 1)) by ring. rewrite Hs. ring.
Qed.

(* both half-spaces of d  <=>  |<x, d>| <= Re x *)
Lemma plane_pair (x d : Rq) :
  (0 <= qdot ROps (plane_plus ROps d) x /\ 0 <= qdot ROps (plane_minus ROps d) x)
  <-> Rabs (qdot ROps d x) <= qre x.
Proof.
  destruct x as [[[x0 x1] x2] x3], d as [[[d0 d1] d2] d3].
  unfold plane_plus, plane_minus, qadd, qone, qneg, qdot, qre; rsimpl.
  split.
  - intros [H1 H2]. apply Rabs_le. lra.
  - intros H. apply Rabs_le_inv in H. lra.
Qed.

Lemma forallb_leb_R (f : Rq -> R) c N :
  forallb (fun n => o_leb ROps c (f n)) N = true <-> forall n, In n N -> c <= f n.
Proof.
  rewrite forallb_forall. split; intros H n Hn; specialize (H n Hn); rsimpl;
    [apply Rleb_true in H | apply Rleb_true]; assumption.
Qed.
Lemma forallb_leb_R' (f : Rq -> R) c N :
  forallb (fun n => o_leb ROps (f n) c) N = true <-> forall n, In n N -> f n <= c.
Proof.
  rewrite forallb_forall. split; intros H n Hn; specialize (H n Hn); rsimpl;
    [apply Rleb_true in H | apply Rleb_true]; assumption.
Qed.

(* exact inside test (eps = 0) of the large cell of D: x or -x satisfies
   |<x, d>| <= Re x for all d, i.e. |Re (x * ~d)| <= |Re x| *)
Theorem inside_large_cell_iff (D : list Rq) (x : Rq) :
  inside_region ROps 0 (large_cell ROps D) x = true <->
  (forall d, In d D -> Rabs (qdot ROps d x) <= qre x) \/
  (forall d, In d D -> Rabs (qdot ROps d x) <= - qre x).
Proof.
  unfold inside_region. rewrite orb_true_iff.
  replace (o_opp ROps 0) with 0 by (rsimpl; ring).
  rewrite forallb_leb_R, forallb_leb_R'.
  unfold large_cell. split.
  - intros [H|H]; [left|right]; intros d Hd.
    + apply plane_pair. split; apply H; apply in_flat_map; exists d; split; auto; simpl; auto.
    + assert (H1 : qdot ROps (plane_plus ROps d) x <= 0)
        by (apply H; apply in_flat_map; exists d; split; auto; simpl; auto).
      assert (H2 : qdot ROps (plane_minus ROps d) x <= 0)
        by (apply H; apply in_flat_map; exists d; split; auto; simpl; auto).
      destruct x as [[[x0 x1] x2] x3], d as [[[d0 d1] d2] d3].
      unfold plane_plus, plane_minus, qadd, qone, qneg, qdot, qre in *; rsimpl.
      apply Rabs_le. lra.
  - intros [H|H]; [left|right]; intros n Hn; apply in_flat_map in Hn;
      destruct Hn as [d [Hd Hn]]; specialize (H d Hd); simpl in Hn.
    + apply plane_pair in H. destruct Hn as [<-|[<-|[]]]; tauto.
    + apply Rabs_le_inv in H.
      destruct x as [[[x0 x1] x2] x3], d as [[[d0 d1] d2] d3].
      destruct Hn as [<-|[<-|[]]]; unfold plane_plus, plane_minus, qadd, qone, qneg, qdot, qre in *; rsimpl; lra.
Qed.

(* hence: inside the (unpruned) large cell <=> the rotation angle 2 acos |Re x|
   is the smallest among { x * ~d : d in D } *)
Corollary inside_large_cell_minimal (D : list Rq) (x : Rq) :
  inside_region ROps 0 (large_cell ROps D) x = true <->
  forall d, In d D -> Rabs (qre (qmul ROps x (qconj ROps d))) <= Rabs (qre x).
Proof.
  assert (E : forall d, qre (qmul ROps x (qconj ROps d)) = qdot ROps d x).
  { intros d. destruct x as [[[x0 x1] x2] x3], d as [[[d0 d1] d2] d3].
    unfold qre; qunfold. ring. }
  rewrite inside_large_cell_iff. split.
  - intros [H|H] d Hd; rewrite E; specialize (H d Hd).
    + eapply Rle_trans; [exact H|apply Rle_abs].
    + eapply Rle_trans; [exact H|]. rewrite <- Rabs_Ropp. apply Rle_abs.
  - intros H. destruct (Rle_dec 0 (qre x)) as [Hp|Hn].
    + left. intros d Hd. specialize (H d Hd). rewrite E in H. rewrite (Rabs_right (qre x)) in H by lra. exact H.
    + right. intros d Hd. specialize (H d Hd). rewrite E in H. rewrite (Rabs_left (qre x)) in H by lra. exact H.
Qed.
