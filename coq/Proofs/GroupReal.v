(* The exact K-level group facts are facts about REAL quaternions: transfer by
   the ring homomorphism K -> R (Base/KtoR.v). *)
From Coq Require Import Reals ZArith QArith List String Bool.
From Verif Require Import Scalar RInst KField KtoR Quat QuatAlg GroupK Groups GroupChecks GroupFacts
  SymDot SymDotR SymDotK.
Import ListNotations.

Lemma rtoR_mul x y : rtoR (kmul x y) = rmul ROps (rtoR x) (rtoR y).
Proof. unfold rtoR, kmul, rmul; cbn [fst snd]. rewrite qtoR_mul. reflexivity. Qed.

Lemma rtoR_inv x : rtoR (kinv x) = rinv ROps (rtoR x).
Proof. unfold rtoR, kinv, rinv; cbn [fst snd]. rewrite qtoR_conj. reflexivity. Qed.

Lemma qtoR_norm2 q : toR (qnorm2 KOps q) = qnorm2 ROps (qtoR q).
Proof.
  destruct q as [[[a b] c] d]. unfold qnorm2, qtoR. cbn [KOps ROps o_add o_mul].
  repeat (rewrite toR_add || rewrite toR_mul). reflexivity.
Qed.

Lemma toR_K1 : toR K1 = 1%R.
Proof. unfold K1. rewrite toR_ofZ. reflexivity. Qed.

(* every named point group, embedded in the real quaternions, is a group of
   UNIT quaternions up to the overall sign: closed under the (generated)
   Hamilton product and under inversion *)
Theorem named_groups_are_real_groups g : In g groups ->
  let G := map rtoR (g_elems g) in
  (forall x, In x G -> qnorm2 ROps (fst x) = 1%R) /\
  (forall x y, In x G -> In y G -> exists z, In z G /\ req (rmul ROps x y) z) /\
  (forall x, In x G -> exists z, In z G /\ req (rinv ROps x) z).
Proof.
  intros Hg G. pose proof (forallb_In _ _ all_groups_ok g Hg) as H.
  unfold group_ok in H. apply andb_prop in H. destruct H as [H _].
  unfold kis_group in H. repeat (apply andb_prop in H; destruct H as [H ?]).
  repeat split.
  - intros x Hx. apply in_map_iff in Hx. destruct Hx as [x0 [<- Hx0]].
    match goal with U : kunit _ = true |- _ => unfold kunit in U; rewrite forallb_forall in U; specialize (U x0 Hx0) end.
    unfold rtoR; cbn [fst]. rewrite <- qtoR_norm2.
    match goal with U : Keqb _ K1 = true |- _ => apply Keqb_sound in U; rewrite U end. apply toR_K1.
  - intros x y Hx Hy. apply in_map_iff in Hx, Hy. destruct Hx as [x0 [<- Hx0]], Hy as [y0 [<- Hy0]].
    match goal with C : kclosed _ = true |- _ => destruct (kclosed_spec _ C x0 y0 Hx0 Hy0) as [z0 [Hz0 He]] end.
    exists (rtoR z0). split; [apply in_map; exact Hz0|]. rewrite <- rtoR_mul. apply kr_eqb_sound. exact He.
  - intros x Hx. apply in_map_iff in Hx. destruct Hx as [x0 [<- Hx0]].
    match goal with C : kinv_closed _ = true |- _ => destruct (kinv_closed_spec _ C x0 Hx0) as [z0 [Hz0 He]] end.
    exists (rtoR z0). split; [apply in_map; exact Hz0|]. rewrite <- rtoR_inv. apply kr_eqb_sound. exact He.
Qed.
