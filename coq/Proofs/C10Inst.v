(* C10 -- the exact instance (integer vectors, 3x3 integer matrices): the
   hypotheses of the general theorems are satisfiable (non-vacuity), the former
   witnesses of the repaired defects as positive examples, and the witness of
   the clause the FAITHFUL model still violates. *)
From Coq Require Import ZArith List Bool Arith Lia.
From Verif Require Import NdIndex C17Unique C17UniqueSpec C10Model C10Orbit C10Sym.
Import ListNotations.

Lemma Zcmp_order : cmp_order Z.compare.
Proof.
  constructor.
  - apply Z.compare_refl.
  - intros x y. apply Z.compare_antisym.
  - intros x y z. rewrite !Z.compare_lt_iff. lia.
  - intros x y z H. apply Z.compare_eq in H. subst. auto.
Qed.

Lemma zcmp_order : cmp_order zcmp.
Proof. apply lexcmp_order, Zcmp_order. Qed.

Lemma zcmp_eq x y : zcmp x y = Eq <-> x = y.
Proof. apply (lexcmp_eq_iff Z.compare). intros a b. apply Z.compare_eq_iff. Qed.

Lemma zkey_eq x y : keq zcmp (zkey x) (zkey y) = true <-> x = y.
Proof.
  rewrite (keq_true zcmp), zcmp_eq. destruct x as [[a b] c], y as [[a' b'] c']. simpl.
  split; intros H; inversion H; subst; auto.
Qed.

Lemma zveqb_true x y : zveqb x y = true <-> x = y.
Proof. apply zkey_eq. Qed.

Lemma zmeqb_true x y : zmeqb x y = true <-> x = y.
Proof.
  unfold zmeqb. rewrite (keq_true zcmp), zcmp_eq.
  destruct x as [[[[a b] c] [[a1 b1] c1]] [[a2 b2] c2]], y as [[[[p q] r] [[p1 q1] r1]] [[p2 q2] r2]].
  simpl. split; intros H; inversion H; subst; auto.
Qed.

Lemma zis0_exact e : zis0 e = true -> zis0 e = true.
Proof. auto. Qed.

(* ------------------------------------------ reflection of the group laws *)
Fixpoint nodupb {A} (eqb : A -> A -> bool) (l : list A) : bool :=
  match l with
  | [] => true
  | x :: t => negb (existsb (eqb x) t) && nodupb eqb t
  end.

Lemma nodupb_sound {A} (eqb : A -> A -> bool) (H : forall x y, eqb x y = true <-> x = y) l :
  nodupb eqb l = true -> NoDup l.
Proof.
  induction l as [|x t IH]; simpl; intros E; [constructor|].
  apply andb_prop in E. destruct E as [E1 E2]. constructor; auto.
  intros Hin. apply negb_true_iff in E1.
  assert (X : existsb (eqb x) t = true) by (apply existsb_exists; exists x; split; auto; apply H; auto).
  congruence.
Qed.

Definition zmem (x : zm3) (G : list zm3) : bool := existsb (zmeqb x) G.
Lemma zmem_In x G : zmem x G = true -> In x G.
Proof.
  unfold zmem. rewrite existsb_exists. intros [y [Hy E]]. apply zmeqb_true in E. subst. auto.
Qed.

Definition zgroup_check (G : list zm3) : bool :=
  nodupb zmeqb G && zmem zmid G
  && forallb (fun g => forallb (fun h => zmem (zmmul g h) G) G) G
  && forallb (fun g => zmem (ztrans g) G) G
  && forallb (fun g => zmeqb (zmmul (ztrans g) g) zmid && zmeqb (zmmul g (ztrans g)) zmid) G.

Local Open Scope Z_scope.
Ltac pair_ring := repeat match goal with |- (_, _) = (_, _) => apply f_equal2 end; ring.
Lemma zmmul_assoc a b c : zmmul (zmmul a b) c = zmmul a (zmmul b c).
Proof.
  destruct a as [[[[a11 a12] a13] [[a21 a22] a23]] [[a31 a32] a33]].
  destruct b as [[[[b11 b12] b13] [[b21 b22] b23]] [[b31 b32] b33]].
  destruct c as [[[[c11 c12] c13] [[c21 c22] c23]] [[c31 c32] c33]].
  unfold zmmul, ztrans, zdot3. pair_ring.
Qed.
Lemma zmmul_id_l a : zmmul zmid a = a.
Proof.
  destruct a as [[[[a11 a12] a13] [[a21 a22] a23]] [[a31 a32] a33]].
  unfold zmmul, ztrans, zdot3, zmid. pair_ring.
Qed.
Lemma zact_id v : zact zmid v = v.
Proof. destruct v as [[x y] z]. unfold zact, zmid, zdot3. pair_ring. Qed.
Lemma zact_mul a b v : zact (zmmul a b) v = zact a (zact b v).
Proof.
  destruct a as [[[[a11 a12] a13] [[a21 a22] a23]] [[a31 a32] a33]].
  destruct b as [[[[b11 b12] b13] [[b21 b22] b23]] [[b31 b32] b33]].
  destruct v as [[x y] z].
  unfold zact, zmmul, ztrans, zdot3. pair_ring.
Qed.
Local Close Scope Z_scope.

(* a list of integer matrices passing the finite check is a group acting on Z^3 *)
Theorem zgroup_check_sound G : zgroup_check G = true -> group_action zmmul ztrans zmid zact G.
Proof.
  unfold zgroup_check. intros H.
  repeat (apply andb_prop in H; destruct H as [H ?]).
  rename H into Hnd, H3 into He, H2 into Hmul, H1 into Hinv, H0 into Hlaws.
  rewrite forallb_forall in Hmul, Hinv, Hlaws.
  constructor.
  - apply (nodupb_sound zmeqb zmeqb_true). auto.
  - apply zmem_In. auto.
  - intros g h Hg Hh. apply zmem_In. specialize (Hmul g Hg). rewrite forallb_forall in Hmul. auto.
  - intros g Hg. apply zmem_In. auto.
  - intros. apply zmmul_assoc.
  - intros. apply zmmul_id_l.
  - intros g Hg. specialize (Hlaws g Hg). apply andb_prop in Hlaws. apply zmeqb_true. tauto.
  - intros g Hg. specialize (Hlaws g Hg). apply andb_prop in Hlaws. apply zmeqb_true. tauto.
  - apply zact_id.
  - intros. apply zact_mul.
Qed.

Lemma z_m3m_group : group_action zmmul ztrans zmid zact z_m3m.
Proof. apply zgroup_check_sound. vm_compute. reflexivity. Qed.
Lemma z_4_group : group_action zmmul ztrans zmid zact z_4.
Proof. apply zgroup_check_sound. vm_compute. reflexivity. Qed.

(* a non-zero integer vector is exactly representable under an orthogonal group *)
Definition zexact_check (G : list zm3) (v : zv3) : bool := forallb (fun g => negb (zis0 (zact g v))) G.
Lemma zexact_on G v : zexact_check G v = true -> exact_on (fun x => x) zis0 zact G v.
Proof.
  unfold zexact_check. rewrite forallb_forall. intros H g Hg. split; auto.
  specialize (H g Hg). apply negb_true_iff in H. auto.
Qed.

(* ------------------------------------------------------------ non-vacuity *)
(* [1 1 0] in m-3m: 12 distinct images, stabiliser of order 4, 12 * 4 = 48 *)
Example mult_110_m3m :
  exact_on (fun x => x) zis0 zact z_m3m (1, 1, 0)%Z /\
  length (zblock z_m3m (1, 1, 0)%Z) = 12 /\ length (stab zveqb zact z_m3m (1, 1, 0)%Z) = 4 /\
  length z_m3m = 48.
Proof. split; [apply zexact_on; vm_compute; reflexivity|]. vm_compute. auto. Qed.

(* symmetrise(unique=True) of [100], [002], 0, [110] in the group 4 *)
Example sym_unique_4 :
  zsym_unique z_4 [(1, 0, 0); (0, 0, 2); (0, 0, 0); (1, 1, 0)]%Z
  = ([(1, 0, 0); (0, 1, 0); (-1, 0, 0); (0, -1, 0); (0, 0, 2); (1, 1, 0); (-1, 1, 0); (-1, -1, 0); (1, -1, 0)]%Z,
     [4; 1; 0; 4], [0; 0; 0; 0; 1; 3; 3; 3; 3]%Z).
Proof. vm_compute. reflexivity. Qed.

(* the former witnesses of the two repaired defects, now positive examples *)
(* multiplicity of a 2-d object is element-wise: m-3m, shape (2,3) *)
Definition w_shape : list nat := [2; 3].
Definition w_data : list zv3 := [(1, 0, 0); (1, 1, 0); (1, 1, 1); (1, 2, 3); (0, 0, 1); (1, 1, 2)]%Z.
Example multiplicity_nd_example :
  group_action zmmul ztrans zmid zact z_m3m /\ length w_data = size w_shape /\
  zmultiplicity z_m3m w_shape w_data = [6; 12; 8; 48; 6; 24] /\
  map (fun v => length (zblock z_m3m v)) w_data = [6; 12; 8; 48; 6; 24].
Proof. split; [apply z_m3m_group|]. vm_compute. auto. Qed.

(* angle_with(use_symmetry) with two other vectors is element-wise: the second
   entry is the angle between [110] and the nearest image of [111] (cos^2 =
   2^2 / (2 * 3)), not of [501]; entries are (u.w', w'.w') for the nearest image w' *)
Example angle_elementwise_example :
  zangle_with_sym z_m3m [(1, 0, 0); (1, 1, 0)]%Z [(5, 0, 1); (1, 1, 1)]%Z
  = Some ([2], [(5, 26); (2, 3)]%Z) /\
  is_min zang_leb (2, 3)%Z (map (fun g => zang (1, 1, 0)%Z (zact g (1, 1, 1)%Z)) z_m3m) /\
  ~ is_min zang_leb (6, 26)%Z (map (fun g => zang (1, 1, 0)%Z (zact g (1, 1, 1)%Z)) z_m3m).
Proof.
  split; [vm_compute; reflexivity|]. split.
  - split.
    + vm_compute. auto 60.
    + intros x Hx. vm_compute in Hx.
      repeat (destruct Hx as [<-|Hx]; [vm_compute; reflexivity|]). destruct Hx.
  - intros [Hin _]. vm_compute in Hin.
    repeat (destruct Hin as [Hin|Hin]; [discriminate|]). exact Hin.
Qed.

(* ------------------------------------------------------ refuted clauses *)
(* de-duplication by comparing ROUNDED values is not a tolerance relation:
   six evaluations of three images (the second evaluation of each within one
   unit of 1e-11 of the first) yield 4 "distinct" vectors -- 4 does not
   divide 6 *)
Lemma rounding_splits_cluster_refuted :
  exists col : list Z,
    length col = 6 /\
    (forall i, i < 3 -> (Z.abs (nth i col 0%Z - nth (i + 3) col 0%Z) <= 1)%Z) /\
    ~ Nat.divide (length (zuniq_rounded col)) 6.
Proof.
  exists [15; 1000; 2000; 14; 1000; 2000]%Z. split; [reflexivity|]. split.
  - intros i Hi. destruct i as [|[|[|i]]]; try lia; vm_compute; discriminate.
  - assert (L : length (zuniq_rounded [15; 1000; 2000; 14; 1000; 2000]%Z) = 4) by (vm_compute; reflexivity).
    rewrite L. intros [z Hz]. lia.
Qed.
