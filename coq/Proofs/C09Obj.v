(* C09 -- the Miller object: constructor, coordinate properties, setters,
   length, cross, dot -- on the lattice a Phase holds. *)
From Coq Require Import Reals ZArith Lra Lia Nsatz Bool List Psatz.
From Verif Require Import Scalar RInst C09Lin C09Miller C09Model.
From Verif Require Import C09LinAlg C09Alg.
Import ListNotations.
Local Open Scope R_scope.

(* the four conversions the object uses, on Lat A *)
Lemma get_uvw_Lat (A : M3) (x : V3) : get_uvw ROps (Lat A) x = Ok (vmat ROps x (minv ROps A)).
Proof. reflexivity. Qed.
Lemma get_hkl_Lat (A : M3) (x : V3) : get_hkl ROps (Lat A) x = Ok (vmat ROps x (mtr A)).
Proof. reflexivity. Qed.
Lemma set_uvw_Lat (A : M3) (c : V3) : set_uvw ROps (Lat A) c = Ok (vmat ROps c A).
Proof. reflexivity. Qed.
Lemma set_hkl_Lat (A : M3) (c : V3) : set_hkl ROps (Lat A) c = Ok (vmat ROps c (mtr (minv ROps A))).
Proof. reflexivity. Qed.

Lemma vmat_mtr_inv_r (A : M3) (v : V3) :
  mdet ROps A <> 0 -> vmat ROps (vmat ROps v (mtr (minv ROps A))) (mtr A) = v.
Proof. intros H. rewrite vmat_mmul, <- mtr_mmul, minv_r by auto.
  replace (mtr (mid ROps)) with (mid ROps) by (lunfold; reflexivity). apply vmat_mid. Qed.
Lemma vmat_mtr_inv_l (A : M3) (v : V3) :
  mdet ROps A <> 0 -> vmat ROps (vmat ROps v (mtr A)) (mtr (minv ROps A)) = v.
Proof. intros H. rewrite vmat_mmul, <- mtr_mmul, minv_l by auto.
  replace (mtr (mid ROps)) with (mid ROps) by (lunfold; reflexivity). apply vmat_mid. Qed.

(* well-formed coordinates for a format: 3 numbers, or 4 with U+V+T = 0 *)
Definition wf (f : fmt) (c : list R) : Prop :=
  match f, c with
  | (Fxyz | Fuvw | Fhkl), [_; _; _] => True
  | (FUVTW | Fhkil), [U; V; T; W] => U + V + T = 0
  | _, _ => False
  end.

Lemma check_pass (U V T W : R) : U + V + T = 0 ->
  b4 (check_UVTW ROps) (U, V, T, W) = true /\ b4 (check_hkil ROps) (U, V, T, W) = true.
Proof.
  intros H. split; [apply check_UVTW_spec | apply check_hkil_spec]; rewrite H, Rabs_R0; lra.
Qed.

(* constructor is total on well-formed input *)
Theorem make_total (A : M3) (f : fmt) (c : list R) :
  wf f c -> exists x, make ROps (Lat A) f c = Ok x.
Proof.
  intros W. destruct f; destruct c as [|c0 [|c1 [|c2 [|c3 [|c4 c]]]]]; simpl in W; try contradiction;
    try (eexists; reflexivity).
  - destruct (check_pass _ _ _ c3 W) as [H1 _]. unfold make, make_UVTW. rewrite H1. eexists; reflexivity.
  - destruct (check_pass _ _ _ c3 W) as [_ H2]. unfold make, make_hkil. rewrite H2. eexists; reflexivity.
Qed.

(* getters are total *)
Theorem coords_total (A : M3) (f : fmt) (x : V3) : exists c, coords ROps (Lat A) f x = Ok c.
Proof. destruct f; eexists; reflexivity. Qed.

(* Miller(<f>=c).<f> = c *)
Theorem coords_of_make (A : M3) (f : fmt) (c c' : list R) (x : V3) :
  mdet ROps A <> 0 -> wf f c ->
  make ROps (Lat A) f c = Ok x -> coords ROps (Lat A) f x = Ok c' -> c' = c.
Proof.
  intros H W Hm Hc.
  destruct f; destruct c as [|c0 [|c1 [|c2 [|c3 [|c4 c]]]]]; simpl in W; try contradiction.
  - (* xyz *) simpl in Hm. inversion Hm; subst. simpl in Hc. inversion Hc. reflexivity.
  - (* uvw *) unfold make in Hm. rewrite set_uvw_Lat in Hm. inversion Hm; subst x; clear Hm.
    unfold coords in Hc. rewrite get_uvw_Lat, vmat_minv_r in Hc by auto. inversion Hc. reflexivity.
  - (* UVTW *) destruct (check_pass _ _ _ c3 W) as [H1 _].
    unfold make, make_UVTW in Hm. rewrite H1 in Hm. unfold set_UVTW in Hm.
    rewrite set_uvw_Lat in Hm. inversion Hm; subst x; clear Hm.
    unfold coords, get_UVTW in Hc. rewrite get_uvw_Lat, vmat_minv_r in Hc by auto.
    cbn [rmap] in Hc.
    change (UVTW2uvw ROps c0 c1 c2 c3) with (t3 (UVTW2uvw ROps) (c0, c1, c2, c3)) in Hc.
    rewrite (UVTW_uvw_UVTW (c0, c1, c2, c3) W) in Hc. inversion Hc. reflexivity.
  - (* hkl *) unfold make in Hm. rewrite set_hkl_Lat in Hm. inversion Hm; subst x; clear Hm.
    unfold coords in Hc. rewrite get_hkl_Lat, vmat_mtr_inv_r in Hc by auto. inversion Hc. reflexivity.
  - (* hkil *) destruct (check_pass _ _ _ c3 W) as [_ H2].
    unfold make, make_hkil in Hm. rewrite H2 in Hm. unfold set_hkil in Hm.
    rewrite set_hkl_Lat in Hm. inversion Hm; subst x; clear Hm.
    unfold coords, get_hkil in Hc. rewrite get_hkl_Lat, vmat_mtr_inv_r in Hc by auto.
    cbn [rmap] in Hc.
    change (hkil2hkl ROps c0 c1 c2 c3) with (t3 (hkil2hkl ROps) (c0, c1, c2, c3)) in Hc.
    rewrite (hkil_hkl_hkil (c0, c1, c2, c3) W) in Hc. inversion Hc. reflexivity.
Qed.

(* coordinates read in ANY format are well-formed and rebuild the same vector *)
Theorem make_of_coords (A : M3) (f : fmt) (x : V3) (c : list R) :
  mdet ROps A <> 0 ->
  coords ROps (Lat A) f x = Ok c -> wf f c /\ make ROps (Lat A) f c = Ok x.
Proof.
  intros H Hc. destruct f.
  - destruct x as [[x0 x1] x2]. simpl in Hc. inversion Hc. split; [exact I | reflexivity].
  - unfold coords in Hc. rewrite get_uvw_Lat in Hc. cbn [rmap] in Hc. apply Ok_inj in Hc; subst c.
    destruct (vmat ROps x (minv ROps A)) as [[u v] w] eqn:E. cbn [l3]. split; [exact I|].
    unfold make. rewrite set_uvw_Lat, <- E, vmat_minv_l by auto. reflexivity.
  - unfold coords, get_UVTW in Hc. rewrite get_uvw_Lat in Hc. cbn [rmap] in Hc. apply Ok_inj in Hc; subst c.
    pose proof (UVTW_sum0 (vmat ROps x (minv ROps A))) as S.
    pose proof (uvw_UVTW_uvw (vmat ROps x (minv ROps A))) as RT.
    destruct (t4 (uvw2UVTW ROps) (vmat ROps x (minv ROps A))) as [[[U V] T] W] eqn:E.
    cbn [l4]. split; [exact S|].
    destruct (check_pass _ _ _ W S) as [H1 _].
    unfold make, make_UVTW. rewrite H1. unfold set_UVTW. rewrite RT, set_uvw_Lat, vmat_minv_l by auto.
    reflexivity.
  - unfold coords in Hc. rewrite get_hkl_Lat in Hc. cbn [rmap] in Hc. apply Ok_inj in Hc; subst c.
    destruct (vmat ROps x (mtr A)) as [[u v] w] eqn:E. cbn [l3]. split; [exact I|].
    unfold make. rewrite set_hkl_Lat, <- E, vmat_mtr_inv_l by auto. reflexivity.
  - unfold coords, get_hkil in Hc. rewrite get_hkl_Lat in Hc. cbn [rmap] in Hc. apply Ok_inj in Hc; subst c.
    pose proof (hkil_sum0 (vmat ROps x (mtr A))) as S.
    pose proof (hkl_hkil_hkl (vmat ROps x (mtr A))) as RT.
    destruct (t4 (hkl2hkil ROps) (vmat ROps x (mtr A))) as [[[U V] T] W] eqn:E.
    cbn [l4]. split; [exact S|].
    destruct (check_pass _ _ _ W S) as [_ H2].
    unfold make, make_hkil. rewrite H2. unfold set_hkil. rewrite RT, set_hkl_Lat, vmat_mtr_inv_l by auto.
    reflexivity.
Qed.

(* c1 --f1--> vector --f2--> c2 --f2--> vector --f1--> c1 : conversion into any
   other format and back changes nothing *)
Theorem roundtrip_any_pair (A : M3) (f1 f2 : fmt) (c1 c2 c1' : list R) (x x' : V3) :
  mdet ROps A <> 0 -> wf f1 c1 ->
  make ROps (Lat A) f1 c1 = Ok x -> coords ROps (Lat A) f2 x = Ok c2 ->
  make ROps (Lat A) f2 c2 = Ok x' -> coords ROps (Lat A) f1 x' = Ok c1' ->
  x' = x /\ c1' = c1.
Proof.
  intros H W M1 C2 M2 C1.
  destruct (make_of_coords A f2 x c2 H C2) as [_ M2'].
  rewrite M2' in M2. inversion M2; subst x'. split; [reflexivity|].
  eapply coords_of_make; eauto.
Qed.

(* ------------------------------------------------------------------ *)
(* length                                                               *)

Theorem length_reciprocal (A : M3) (f : fmt) (x : V3) (l : R) :
  mdet ROps A <> 0 -> f = Fhkl \/ f = Fhkil ->
  length_of ROps (Lat A) f x = Ok l ->
  l = vnorm ROps x /\
  l * l = vdot ROps (vmat ROps (vmat ROps x (mtr A)) (rgram A)) (vmat ROps x (mtr A)).
Proof.
  intros H Hf Hl.
  assert (E : l = vnorm ROps (vmat ROps (vmat ROps x (mtr A)) (mtr (minv ROps A)))).
  { destruct Hf; subst f; unfold length_of in Hl; rewrite get_hkl_Lat in Hl; cbn [rmap l_recbase Lat] in Hl;
      inversion Hl; reflexivity. }
  split.
  - rewrite E, vmat_mtr_inv_l by auto. reflexivity.
  - rewrite E, vnorm_sq. apply rlength_mat.
Qed.

Theorem length_direct (A : M3) (f : fmt) (x : V3) (l : R) :
  mdet ROps A <> 0 -> f = Fuvw \/ f = FUVTW ->
  length_of ROps (Lat A) f x = Ok l ->
  l = vnorm ROps x /\
  l * l = vdot ROps (vmat ROps (vmat ROps x (minv ROps A)) (gram A)) (vmat ROps x (minv ROps A)).
Proof.
  intros H Hf Hl.
  assert (E : l = vnorm ROps (vmat ROps (vmat ROps x (minv ROps A)) A)).
  { destruct Hf; subst f; unfold length_of in Hl; rewrite get_uvw_Lat in Hl; cbn [rmap l_base Lat] in Hl;
      inversion Hl; reflexivity. }
  split.
  - rewrite E, vmat_minv_l by auto. reflexivity.
  - rewrite E, vnorm_sq. apply dlength_mat.
Qed.

(* ------------------------------------------------------------------ *)
(* cross and dot                                                        *)

Definition is4 (f : fmt) : bool := match f with FUVTW | Fhkil => true | _ => false end.

(* Miller.cross never raises on compatible vectors, in any of the five formats: the
   result is x1 x x2, 3-index stays 3-index, 4-index stays 4-index; lattice formats go to
   the dual space (direct <-> reciprocal); the Cartesian format "xyz" stays "xyz" *)
Theorem cross_dual_format (f1 f2 : fmt) (x1 x2 : V3) :
  compatible f1 f2 = true ->
  exists f', cross ROps f1 x1 f2 x2 = Ok (f', vcross ROps x1 x2) /\
             (f1 <> Fxyz -> fmt_space f' <> fmt_space f1) /\ (f1 = Fxyz -> f' = Fxyz) /\
             is4 f' = is4 f1 /\
             vdot ROps (vcross ROps x1 x2) x1 = 0 /\ vdot ROps (vcross ROps x1 x2) x2 = 0.
Proof.
  intros Hc. unfold cross. rewrite Hc.
  destruct f1; eexists; (split; [reflexivity|]);
    (split; [intros Hx; try congruence; simpl; discriminate|]);
    (split; [intros Hx; try discriminate Hx; reflexivity|]); (split; [reflexivity|]);
    (split; [apply vcross_perp_l | apply vcross_perp_r]).
Qed.

Theorem cross_incompatible (f1 f2 : fmt) (x1 x2 : V3) :
  compatible f1 f2 = false -> cross ROps f1 x1 f2 x2 = Err ValueError.
Proof. intros H; unfold cross; rewrite H; reflexivity. Qed.

(* the indices of the product, read in the new (dual) format *)
Theorem cross_indices_direct (A : M3) (u1 u2 x1 x2 : V3) (f' : fmt) (z : V3) (c : list R) :
  mdet ROps A <> 0 ->
  make ROps (Lat A) Fuvw (l3 u1) = Ok x1 -> make ROps (Lat A) Fuvw (l3 u2) = Ok x2 ->
  cross ROps Fuvw x1 Fuvw x2 = Ok (f', z) -> coords ROps (Lat A) f' z = Ok c ->
  f' = Fhkl /\ c = l3 (vscale ROps (mdet ROps A) (vcross ROps u1 u2)).
Proof.
  intros H M1 M2 C Hc. destruct u1 as [[a b] d]; destruct u2 as [[a' b'] d'].
  cbn [l3 make] in M1, M2. rewrite set_uvw_Lat in M1, M2. apply Ok_inj in M1, M2. subst x1 x2.
  unfold cross in C. cbn [compatible fmt_space space_eqb cross_format rmap] in C.
  apply Ok_inj, pair_equal_spec in C. destruct C as [<- <-]. split; [reflexivity|].
  unfold coords in Hc. rewrite get_hkl_Lat in Hc. cbn [rmap] in Hc. apply Ok_inj in Hc. subst c.
  rewrite cross_direct_dual by auto. reflexivity.
Qed.

Theorem cross_indices_reciprocal (A : M3) (h1 h2 x1 x2 : V3) (f' : fmt) (z : V3) (c : list R) :
  mdet ROps A <> 0 ->
  make ROps (Lat A) Fhkl (l3 h1) = Ok x1 -> make ROps (Lat A) Fhkl (l3 h2) = Ok x2 ->
  cross ROps Fhkl x1 Fhkl x2 = Ok (f', z) -> coords ROps (Lat A) f' z = Ok c ->
  f' = Fuvw /\ c = l3 (vscale ROps (/ mdet ROps A) (vcross ROps h1 h2)).
Proof.
  intros H M1 M2 C Hc. destruct h1 as [[a b] d]; destruct h2 as [[a' b'] d'].
  cbn [l3 make] in M1, M2. rewrite set_hkl_Lat in M1, M2. apply Ok_inj in M1, M2. subst x1 x2.
  unfold cross in C. cbn [compatible fmt_space space_eqb cross_format rmap] in C.
  apply Ok_inj, pair_equal_spec in C. destruct C as [<- <-]. split; [reflexivity|].
  unfold coords in Hc. rewrite get_uvw_Lat in Hc. cbn [rmap] in Hc. apply Ok_inj in Hc. subst c.
  rewrite cross_reciprocal_dual by auto. reflexivity.
Qed.

(* the zone axis of two planes lies in both planes (zone law = 0) *)
Theorem zone_axis (A : M3) (h1 h2 : V3) :
  mdet ROps A <> 0 ->
  let z := vcross ROps (vmat ROps h1 (mtr (minv ROps A))) (vmat ROps h2 (mtr (minv ROps A))) in
  let uvw := vmat ROps z (minv ROps A) in
  vdot ROps uvw h1 = 0 /\ vdot ROps uvw h2 = 0.
Proof.
  intros H z uvw. unfold uvw.
  split.
  - rewrite <- (zone_law_mat A _ h1 H), vmat_minv_l by auto. apply vcross_perp_l.
  - rewrite <- (zone_law_mat A _ h2 H), vmat_minv_l by auto. apply vcross_perp_r.
Qed.

Theorem dot_spec (f1 f2 : fmt) (x1 x2 : V3) :
  dot ROps f1 x1 f2 x2 = if compatible f1 f2 then Ok (vdot ROps x1 x2) else Err ValueError.
Proof. reflexivity. Qed.

(* direct . reciprocal, on the stored Cartesian data: uh + vk + wl *)
Theorem dot_direct_reciprocal (A : M3) (uvw hkl x g : V3) :
  mdet ROps A <> 0 ->
  make ROps (Lat A) Fuvw (l3 uvw) = Ok x -> make ROps (Lat A) Fhkl (l3 hkl) = Ok g ->
  vdot ROps x g = vdot ROps uvw hkl.
Proof.
  intros H M1 M2. destruct uvw as [[a b] d]; destruct hkl as [[a' b'] d'].
  cbn [l3 make] in M1, M2. rewrite set_uvw_Lat in M1. rewrite set_hkl_Lat in M2.
  apply Ok_inj in M1, M2. subst x g. apply zone_law_mat; auto.
Qed.

(* ------------------------------------------------------------------ *)
(* arrays: element-wise, shape (= number of vectors) preserved          *)

Lemma traverse_spec {X Y : Type} (f : X -> res Y) (l : list X) (r : list Y) :
  traverse f l = Ok r -> length r = length l /\ forall i x, nth_error l i = Some x ->
                                              exists y, nth_error r i = Some y /\ f x = Ok y.
Proof.
  revert r. induction l as [|a l IH]; intros r H.
  - simpl in H. inversion H. split; [reflexivity|]. intros [|i] x Hx; discriminate.
  - simpl in H. destruct (f a) as [b|e] eqn:Fa; [|discriminate]. cbn [rbind] in H.
    destruct (traverse f l) as [r'|e] eqn:Tl; [|discriminate]. cbn [rmap] in H. inversion H; subst r.
    destruct (IH r' eq_refl) as [Hl Hn]. split; [simpl; congruence|].
    intros [|i] x Hx; simpl in *.
    + inversion Hx; subst. eauto.
    + apply Hn; auto.
Qed.

Theorem coords_arr_elementwise (A : M3) (f : fmt) (xs : list V3) (cs : list (list R)) :
  coords_arr ROps (Lat A) f xs = Ok cs ->
  length cs = length xs /\
  forall i x, nth_error xs i = Some x ->
              exists c, nth_error cs i = Some c /\ coords ROps (Lat A) f x = Ok c.
Proof. apply traverse_spec. Qed.

Theorem make_arr_elementwise (A : M3) (f : fmt) (cs : list (list R)) (xs : list V3) :
  make_arr ROps (Lat A) f cs = Ok xs ->
  length xs = length cs /\
  forall i c, nth_error cs i = Some c ->
              exists x, nth_error xs i = Some x /\ make ROps (Lat A) f c = Ok x.
Proof. apply traverse_spec. Qed.

(* _transform_space on an array: element-wise, same number of vectors *)
Theorem transform_arr_elementwise (L : lattice R) (si so : space) (vs ws : list V3) :
  transform_space_arr ROps L si so vs = Ok ws ->
  length ws = length vs /\
  forall i v, nth_error vs i = Some v ->
              exists w, nth_error ws i = Some w /\ transform_space ROps L si so v = Ok w.
Proof.
  unfold transform_space_arr, transform_space.
  destruct (transform_matrix ROps L si so) as [M|e]; cbn [rmap]; intros H; [|discriminate].
  apply Ok_inj in H. subst ws. split; [apply map_length|].
  intros i v Hv. eexists. split; [apply map_nth_error; exact Hv | reflexivity].
Qed.
