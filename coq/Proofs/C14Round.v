(* C14 -- read (write m kw) = expected m kw : assembly of the round-trip
   theorem from the lemmas on rows/columns (C14Lemmas), the grid (C14Grid)
   and the header (C14Header). *)
From Coq Require Import ZArith String Ascii List Bool Lia.
From Verif Require Import C14Ang C14Lemmas C14Grid C14Header.
Import ListNotations.
Open Scope Z_scope.

Lemma find_split : forall {A} (f : A -> bool) l1 x l2,
  (forall y, In y l1 -> f y = false) -> f x = true -> find f (l1 ++ x :: l2) = Some x.
Proof.
  intros A f l1 x l2 H1 Hx. rewrite find_app_none by exact H1. simpl. rewrite Hx. reflexivity.
Qed.

Lemma flat_map_length_const : forall {A B} (h : A -> list B) (l : list A) n,
  (forall a, In a l -> length (h a) = n) -> length (flat_map h l) = (length l * n)%nat.
Proof.
  intros A B h. induction l as [|a r IH]; intros n H; simpl; [reflexivity|].
  rewrite app_length. rewrite (H a) by (left; reflexivity). rewrite (IH n); [lia|].
  intros b Hb. apply H. right. exact Hb.
Qed.

Lemma nmax_zero : forall l d, (forall x, In x l -> x = O) -> d = O -> nmax_list d l = O.
Proof.
  induction l as [|x r IH]; intros d H Hd; simpl; [exact Hd|].
  rewrite (H x) by (left; reflexivity). simpl. apply IH; [|reflexivity].
  intros y Hy. apply H. right. exact Hy.
Qed.
Lemma nmin_zero : forall l d, (forall x, In x l -> x = O) -> d = O -> nmin_list d l = O.
Proof.
  induction l as [|x r IH]; intros d H Hd; simpl; [exact Hd|].
  rewrite (H x) by (left; reflexivity). reflexivity.
Qed.

Lemma combine_nth_seq : forall {A B} (a : list A) (b : list B) da db,
  length a = length b ->
  map (fun i => (nth i a da, nth i b db)) (seq 0 (length a)) = combine a b.
Proof.
  intros A B. induction a as [|x r IH]; intros b da db H; destruct b as [|y s]; simpl in *; try discriminate; [reflexivity|].
  f_equal. rewrite <- seq_shift. rewrite map_map. apply IH. lia.
Qed.

Lemma map_nth_seq : forall {A B} (F : A -> B) (l : list A) d,
  map F l = map (fun i => F (nth i l d)) (seq 0 (length l)).
Proof.
  intros A B F. induction l as [|x r IH]; intro d; simpl; [reflexivity|].
  f_equal. rewrite <- seq_shift. rewrite map_map. apply IH.
Qed.

Lemma nodup_app_intro : forall {A} (a b : list A), NoDup a -> NoDup b ->
  (forall x, In x a -> In x b -> False) -> NoDup (a ++ b).
Proof.
  intros A. induction a as [|x r IH]; intros b Ha Hb Hd; simpl; [exact Hb|].
  inversion Ha as [|? ? Hn Hr]. subst. constructor.
  - intro Hin. apply in_app_or in Hin. destruct Hin as [Hin | Hin]; [contradiction|].
    apply (Hd x); [left; reflexivity | exact Hin].
  - apply IH; [exact Hr | exact Hb |]. intros y Hy Hy2. apply (Hd y); [right; exact Hy | exact Hy2].
Qed.

Section Round.
Context {T Rot : Type}.
Variable t0 t1 : T.
Variable coord : T -> nat -> Z.
Variable rnd5 : T -> Z.
Variable q32 : Z -> Z.
Variable prt3 : T -> Z.
Variable prt6 : T -> Z.
Variable to_eu : Rot -> T * T * T.

Notation cmapT := (@cmap T Rot).
Notation Write := (write t0 t1 coord rnd5 q32 prt3 prt6 to_eu).

(* ---------------------------------------------------------------- total accessors *)
Definition ev (m : cmapT) (kw : kwargs) (p : nat) : Z * Z * Z :=
  match euler_value rnd5 to_eu m kw p with Some e => e | None => (0, 0, 0) end.
Definition cv (m : cmapT) (kw : kwargs) (s : colsrc) (p : nat) : Z :=
  match col_value rnd5 q32 m kw s p with Some v => v | None => 0 end.

Definition kps (g : @geom T) : list (nat * nat) := combine (seq 0 (length (g_pts g))) (g_pts g).

Definition xc (g : @geom T) (k : nat) : Z := coord (g_dx g) (Nat.modulo k (g_ncols g)).
Definition yc (g : @geom T) (k : nat) : Z := coord (g_dy g) (Nat.div k (g_ncols g)).

Definition srow (m : cmapT) (g : @geom T) (kw : kwargs) (k p : nat) : list cell :=
  let ex := map (fun s => cv m kw s p) (extra_sources m kw) in
  if indexed_at m p
  then [CF (fst (fst (ev m kw p))); CF (snd (fst (ev m kw p))); CF (snd (ev m kw p)); CF (xc g k); CF (yc g k);
        CF (cv m kw (fst (fst (fst (std_sources m kw)))) p); CF (cv m kw (snd (fst (fst (std_sources m kw)))) p);
        CI (new_pid m p);
        CF (cv m kw (snd (fst (std_sources m kw))) p); CF (cv m kw (snd (std_sources m kw)) p)] ++ map CF ex
  else [CF four_pi5; CF four_pi5; CF four_pi5; CF (xc g k); CF (yc g k); CF 0; CF ci_not_indexed5;
        CI (new_pid m p); CF 0; CF fit_not_indexed5] ++ map (fun _ => CF 0) ex.

Lemma row_of_srow : forall m g kw k p r,
  row_of coord rnd5 q32 to_eu m g kw k p = Some r -> r = srow m g kw k p.
Proof.
  intros m g kw k p r H. unfold row_of in H. unfold srow, ev, cv, xc, yc.
  destruct (std_sources m kw) as [[[s0 s1] s2] s3]. cbn [fst snd].
  destruct (euler_value rnd5 to_eu m kw p) as [[[a b] c]|]; simpl in H; [|discriminate].
  destruct (col_value rnd5 q32 m kw s0 p) as [v0|]; simpl in H; [|discriminate].
  destruct (col_value rnd5 q32 m kw s1 p) as [v1|]; simpl in H; [|discriminate].
  destruct (col_value rnd5 q32 m kw s2 p) as [v2|]; simpl in H; [|discriminate].
  destruct (col_value rnd5 q32 m kw s3 p) as [v3|]; simpl in H; [|discriminate].
  destruct (sequence (map (fun s => col_value rnd5 q32 m kw s p) (extra_sources m kw))) as [ex|] eqn:E;
    simpl in H; [|discriminate].
  apply (sequence_map_total _ 0) in E. subst ex.
  inversion H. reflexivity.
Qed.

Lemma srow_length : forall m g kw k p, length (srow m g kw k p) = (10 + length (k_extra kw))%nat.
Proof.
  intros. unfold srow. destruct (indexed_at m p); rewrite app_length; repeat rewrite map_length;
    unfold extra_sources; rewrite map_length; reflexivity.
Qed.

(* ---------------------------------------------------------------- inversion of write *)
Lemma write_inv : forall m kw f, Write m kw = Some f ->
  exists g hdr,
    geometry t1 m = Some g /\ header_of t0 prt3 prt6 m g kw = Some hdr
    /\ f = {| f_header := hdr; f_rows := map (fun kp => srow m g kw (fst kp) (snd kp)) (kps g) |}.
Proof.
  intros m kw f H. unfold write in H.
  destruct (geometry t1 m) as [g|] eqn:Eg; simpl in H; [|discriminate].
  destruct (header_of t0 prt3 prt6 m g kw) as [hdr|] eqn:Eh; simpl in H; [|discriminate].
  match type of H with context [sequence ?l] => destruct (sequence l) as [rows|] eqn:Er end; simpl in H; [|discriminate].
  exists g, hdr. repeat split; auto.
  inversion H. f_equal.
  apply sequence_map_inv in Er.
  assert (G : forall (l : list (nat * nat)) rows',
             map (fun kp => row_of coord rnd5 q32 to_eu m g kw (fst kp) (snd kp)) l = map Some rows' ->
             rows' = map (fun kp => srow m g kw (fst kp) (snd kp)) l).
  { induction l as [|kp l IH]; intros rows' E; destruct rows' as [|r rows']; simpl in E; try discriminate; [reflexivity|].
    inversion E. simpl. f_equal; [apply row_of_srow; assumption | apply IH; assumption]. }
  apply G. exact Er.
Qed.

(* ---------------------------------------------------------------- geometry *)
Lemma geometry_dims : forall (m : cmapT) g, geometry t1 m = Some g ->
  (0 < g_nrows g)%nat /\ (0 < g_ncols g)%nat /\ length (g_pts g) = (g_nrows g * g_ncols g)%nat.
Proof.
  intros m g H. unfold geometry in H.
  destruct (in_pts m) as [|p0 pts] eqn:Ep; [discriminate|].
  set (C := m_cols m) in *. set (R := m_rows m) in *.
  set (rs := map (fun p => Nat.div p C) (p0 :: pts)) in *.
  set (cs := map (fun p => Nat.modulo p C) (p0 :: pts)) in *.
  set (nr := (nmax_list 0 rs - nmin_list 0 rs + 1)%nat) in *.
  set (nc := (nmax_list 0 cs - nmin_list 0 cs + 1)%nat) in *.
  assert (Hbox : forall rmin cmin, length (flat_map (fun r => map (fun c => (r * C + c)%nat) (seq cmin nc)) (seq rmin nr)) = (nr * nc)%nat).
  { intros. rewrite (flat_map_length_const _ _ nc).
    - rewrite seq_length. reflexivity.
    - intros a _. rewrite map_length, seq_length. reflexivity. }
  destruct (Nat.ltb 1 R && Nat.ltb 1 C)%bool eqn:E2.
  - inversion H. simpl. repeat split; try (unfold nr, nc; lia). apply Hbox.
  - destruct (Nat.ltb 1 C) eqn:EC.
    + inversion H. simpl. repeat split; try (unfold nc; lia).
      rewrite Hbox.
      (* R <= 1: all rows are 0 *)
      assert (HR : nr = 1%nat).
      { unfold nr. rewrite andb_true_r in E2. apply Nat.ltb_ge in E2.
        assert (Hz : forall x, In x rs -> x = O).
        { intros x Hx. unfold rs in Hx. apply in_map_iff in Hx. destruct Hx as [p [<- Hp]].
          rewrite <- Ep in Hp. unfold in_pts in Hp. apply filter_In in Hp. destruct Hp as [Hp _].
          apply in_seq in Hp. fold R C in Hp. apply Nat.div_small. nia. }
        rewrite (nmax_zero rs 0 Hz eq_refl), (nmin_zero rs 0 Hz eq_refl). reflexivity. }
      rewrite HR. lia.
    + (* C <= 1: all columns are 0 *)
      assert (HC : nc = 1%nat).
      { unfold nc. apply Nat.ltb_ge in EC.
        assert (Hz : forall x, In x cs -> x = O).
        { intros x Hx. unfold cs in Hx. apply in_map_iff in Hx. destruct Hx as [p [<- Hp]].
          rewrite <- Ep in Hp. unfold in_pts in Hp. apply filter_In in Hp. destruct Hp as [Hp _].
          apply in_seq in Hp. fold R C in Hp.
          assert (C = 1%nat) by nia. rewrite H0. apply Nat.mod_1_r. }
        rewrite (nmax_zero cs 0 Hz eq_refl), (nmin_zero cs 0 Hz eq_refl). reflexivity. }
      destruct (Nat.ltb 1 R) eqn:ER.
      * (* single column *)
        inversion H. simpl. repeat split; try (unfold nr; lia).
        rewrite Hbox. rewrite HC. lia.
      * (* single point: R <= 1 as well *)
        assert (HR : nr = 1%nat).
        { unfold nr. apply Nat.ltb_ge in ER.
          assert (Hz : forall x, In x rs -> x = O).
          { intros x Hx. unfold rs in Hx. apply in_map_iff in Hx. destruct Hx as [p [<- Hp]].
            rewrite <- Ep in Hp. unfold in_pts in Hp. apply filter_In in Hp. destruct Hp as [Hp _].
            apply in_seq in Hp. fold R C in Hp. apply Nat.div_small. nia. }
          rewrite (nmax_zero rs 0 Hz eq_refl), (nmin_zero rs 0 Hz eq_refl). reflexivity. }
        inversion H. simpl. repeat split; try lia.
        rewrite Hbox. rewrite HR, HC. reflexivity.
Qed.

(* the writer has a geometry for every map with at least one point in data *)
Lemma geometry_defined : forall (m : cmapT), in_pts m <> [] -> exists g, geometry t1 m = Some g.
Proof.
  intros m H. unfold geometry. destruct (in_pts m) as [|p0 pts]; [congruence|].
  destruct (Nat.ltb 1 (m_rows m) && Nat.ltb 1 (m_cols m))%bool; [eexists; reflexivity|].
  destruct (Nat.ltb 1 (m_cols m)); [eexists; reflexivity|].
  destruct (Nat.ltb 1 (m_rows m)); eexists; reflexivity.
Qed.

(* ---------------------------------------------------------------- header *)
Definition normx (s : string) : string := sp2us (lstrip_sp s).

Definition pre6 : list hline :=
  [LOther "TEM_PIXperUM           1.000000"; LOther "x-star                 0.000000";
   LOther "y-star                 0.000000"; LOther "z-star                 0.000000";
   LOther "WorkingDistance        0.000000"; LOther ""].

Definition has_fp (l : hline) : bool := contains fp_orix (line_text l).

Lemma blocks_inv : forall (L : list (nat * (Z * @phase T))) blocks,
  sequence (map (fun ip => phase_block prt3 (fst ip) (snd (snd ip))) L) = Some blocks ->
  blocks = map (fun ip => block_of prt3 (fst ip) (snd (snd ip))) L
  /\ forall ip, In ip L -> pg_known (snd (snd ip)).
Proof.
  induction L as [|ip r IH]; intros blocks H; simpl in H.
  - inversion H. split; [reflexivity | intros ? []].
  - destruct (phase_block prt3 (fst ip) (snd (snd ip))) as [b|] eqn:E; simpl in H; [|discriminate].
    destruct (sequence (map (fun ip0 => phase_block prt3 (fst ip0) (snd (snd ip0))) r)) as [bs|] eqn:E2;
      simpl in H; [|discriminate].
    inversion H. destruct (IH bs eq_refl) as [-> Hk]. apply phase_block_inv in E. destruct E as [-> Hpk].
    split; [reflexivity|]. intros x [<- | Hx]; [exact Hpk | apply Hk; exact Hx].
Qed.

Lemma prefixed_no_fp :
  forall s, contains fp_orix s = false ->
    contains fp_orix ("MaterialName    " ++ s) = false
    /\ contains fp_orix ("Formula    " ++ s) = false
    /\ contains fp_orix ("Symmetry    " ++ s) = false.
Proof.
  intros s Hc. unfold fp_orix in *.
  repeat split; cbn; exact Hc.
Qed.

Lemma block_no_fp : forall i (ph : @phase T), contains fp_orix (shown_name i ph) = false -> pg_known ph ->
  forall l, In l (block_of prt3 i ph) -> has_fp l = false.
Proof.
  intros i ph Hn Hk l Hl. unfold block_of in Hl. unfold has_fp.
  destruct (prefixed_no_fp _ Hn) as [A [B _]].
  destruct (shown_pg_ok ph Hk) as [_ [_ Hs]].
  destruct (prefixed_no_fp _ (contains_fp_nospace _ Hs)) as [_ [_ C]].
  simpl in Hl. destruct Hl as [<-|[<-|[<-|[<-|[<-|[<-|[<-|[]]]]]]]]; try reflexivity; simpl line_text; assumption.
Qed.

Section WithMap.
Variable m : cmapT.
Variable g : @geom T.
Variable kw : kwargs.
Variable hdr : list hline.
Hypothesis Hhdr : header_of t0 prt3 prt6 m g kw = Some hdr.
Hypothesis Hnames : names_plain m.

Let L := rev (numbered m).

Lemma L_names : forall x, In x L -> shown_name (fst x) (snd (snd x)) = ph_name (snd (snd x))
  /\ name_ok (ph_name (snd (snd x))).
Proof.
  intros x Hx. unfold L in Hx. apply in_rev in Hx. unfold numbered in Hx.
  destruct x as [i kv]. apply in_combine_r in Hx. pose proof (Hnames kv Hx) as Hok.
  destruct Hok as [A B]. unfold shown_name. simpl. rewrite A. split; [reflexivity | split; assumption].
Qed.

Lemma header_shape : exists post1 post2,
  hdr = pre6 ++ concat (map (fun ip => block_of prt3 (fst ip) (snd (snd ip))) L)
        ++ post1 ++ LColumns (header_cols ++ k_extra kw) :: post2
  /\ (forall l, In l post1 -> has_fp l = false)
  /\ (forall a, fold_left raw_step (post1 ++ LColumns (header_cols ++ k_extra kw) :: post2) a = a)
  /\ (forall ip, In ip L -> pg_known (snd (snd ip))).
Proof.
  unfold header_of in Hhdr.
  match type of Hhdr with context [sequence ?l] => destruct (sequence l) as [blocks|] eqn:Eb end;
    simpl in Hhdr; [|discriminate].
  apply blocks_inv in Eb. destruct Eb as [-> Hk].
  inversion Hhdr as [Eh]. clear Hhdr.
  eexists [LOther "GRID: SqrGrid"; LGrid _ _ _ _; LOther ""; LOther "OPERATOR: orix"; LOther ""; LOther "SAMPLEID:";
           LOther ""; LOther "SCANID:"; LOther ""], [LOther ""].
  split; [reflexivity|]. split; [|split].
  - intros l Hl. simpl in Hl.
    destruct Hl as [<-|[<-|[<-|[<-|[<-|[<-|[<-|[<-|[<-|[]]]]]]]]]]; reflexivity.
  - intro a. reflexivity.
  - exact Hk.
Qed.

Lemma header_vendor :
  vendor_of hdr = VOrix /\ orix_column_names hdr = Some (orix_cols ++ map normx (k_extra kw)).
Proof.
  destruct header_shape as [post1 [post2 [E [Hp1 [_ Hk]]]]].
  assert (Hcol : has_fp (LColumns (header_cols ++ k_extra kw)) = true) by apply columns_line_has_fp.
  split.
  - unfold vendor_of. fold has_fp.
    assert (X : existsb has_fp hdr = true).
    { apply existsb_exists. exists (LColumns (header_cols ++ k_extra kw)). split; [|exact Hcol].
      rewrite E. apply in_or_app. right. apply in_or_app. right. apply in_or_app. right. left. reflexivity. }
    rewrite X. reflexivity.
  - unfold orix_column_names, footprint_line. fold has_fp.
    assert (F : find has_fp hdr = Some (LColumns (header_cols ++ k_extra kw))).
    { rewrite E. rewrite find_app_none.
      2:{ intros l Hl. unfold pre6 in Hl. simpl in Hl.
          destruct Hl as [<-|[<-|[<-|[<-|[<-|[<-|[]]]]]]]; reflexivity. }
      rewrite find_app_none.
      2:{ intros l Hl. apply in_concat in Hl. destruct Hl as [b [Hb Hl]].
          apply in_map_iff in Hb. destruct Hb as [ip [<- Hip]].
          destruct (L_names ip Hip) as [En [_ [_ Hns]]].
          apply (block_no_fp (fst ip) (snd (snd ip))); [rewrite En; exact Hns | apply Hk; exact Hip | exact Hl]. }
      apply find_split; assumption. }
    rewrite F. reflexivity.
Qed.

Lemma header_phases : phase_list_of (parse_raw hdr) = Some (renumbered prt3 m).
Proof.
  destruct header_shape as [post1 [post2 [E [_ [Hpost Hk]]]]].
  unfold parse_raw. rewrite E. rewrite fold_left_app. change (fold_left raw_step pre6 raw_empty) with raw_empty.
  rewrite fold_left_app. rewrite Hpost.
  rewrite (raw_blocks prt3).
  2:{ intros x Hx. destruct (L_names x Hx) as [En Hok]. unfold entry_ok. rewrite En. split; [|split].
      - destruct Hok as [_ [Hw _]]. exact Hw.
      - apply name_ok_words. exact Hok.
      - apply (shown_pg_ok (snd (snd x))). apply Hk. exact Hx. }
  rewrite (phase_list_of_maps prt3).
  2:{ intros x Hx. apply (shown_pg_ok (snd (snd x))). apply Hk. exact Hx. }
  unfold L. rewrite sins_rev; [reflexivity|].
  unfold numbered. apply incr_combine_seq.
Qed.

End WithMap.

(* ---------------------------------------------------------------- the writer is defined *)
(* After the repairs of get_map_data and of _get_nrows_ncols_step_sizes the
   writer refuses a map only for one of: no point in data, a point group that
   is not one of the named groups, or a value that cannot be taken at a point
   in data (missing property name, layer index on 1-D rotations or out of
   range: caller errors).  In particular no map is refused for its size or
   shape (maps of 1, 2, 3 points, 3 points in data, single column, single point). *)
Definition sources (m : cmapT) (kw : kwargs) : list colsrc :=
  [fst (fst (fst (std_sources m kw))); snd (fst (fst (std_sources m kw)));
   snd (fst (std_sources m kw)); snd (std_sources m kw)] ++ extra_sources m kw.

Definition point_ok (m : cmapT) (kw : kwargs) (p : nat) : Prop :=
  euler_value rnd5 to_eu m kw p <> None
  /\ forall s, In s (sources m kw) -> col_value rnd5 q32 m kw s p <> None.

Lemma sequence_map_defined : forall {A B} (f : A -> option B) l,
  (forall x, In x l -> f x <> None) -> exists l', sequence (map f l) = Some l'.
Proof.
  intros A B f. induction l as [|x r IH]; intro H; simpl.
  - eexists; reflexivity.
  - destruct (f x) as [b|] eqn:E; [|exfalso; apply (H x); [left; reflexivity | exact E]].
    destruct IH as [r' Hr]; [intros y Hy; apply H; right; exact Hy|].
    rewrite Hr. simpl. eexists; reflexivity.
Qed.

Lemma point_ok_outside : forall m kw p, nth p (m_in m) false = false -> point_ok m kw p.
Proof.
  intros m kw p H. split.
  - unfold euler_value. rewrite H. discriminate.
  - intros s _. unfold col_value. rewrite H. discriminate.
Qed.

Lemma row_of_defined : forall m g kw k p, point_ok m kw p ->
  exists r, row_of coord rnd5 q32 to_eu m g kw k p = Some r.
Proof.
  intros m g kw k p [He Hs]. unfold row_of. unfold sources in Hs.
  destruct (std_sources m kw) as [[[s0 s1] s2] s3]. cbn [fst snd] in Hs.
  destruct (euler_value rnd5 to_eu m kw p) as [[[a b] c]|]; [|congruence]. cbn [obind].
  destruct (col_value rnd5 q32 m kw s0 p) as [v0|] eqn:E0;
    [|exfalso; apply (Hs s0); [simpl; auto | exact E0]]. cbn [obind].
  destruct (col_value rnd5 q32 m kw s1 p) as [v1|] eqn:E1;
    [|exfalso; apply (Hs s1); [simpl; auto | exact E1]]. cbn [obind].
  destruct (col_value rnd5 q32 m kw s2 p) as [v2|] eqn:E2;
    [|exfalso; apply (Hs s2); [simpl; auto | exact E2]]. cbn [obind].
  destruct (col_value rnd5 q32 m kw s3 p) as [v3|] eqn:E3;
    [|exfalso; apply (Hs s3); [simpl; auto | exact E3]]. cbn [obind].
  destruct (sequence_map_defined (fun s => col_value rnd5 q32 m kw s p) (extra_sources m kw)) as [ex Hex].
  { intros s Hin. apply Hs. apply in_or_app. right. exact Hin. }
  rewrite Hex. cbn [obind]. eexists; reflexivity.
Qed.

Lemma phase_block_defined : forall i (ph : @phase T), pg_known ph ->
  phase_block prt3 i ph = Some (block_of prt3 i ph).
Proof.
  intros i ph H. unfold phase_block, block_of, shown_name, shown_pg, pg_known in *.
  destruct (ph_pg ph) as [gname|].
  - destruct H as [pr E]. rewrite E. reflexivity.
  - reflexivity.
Qed.

Theorem write_defined : forall m kw,
  in_pts m <> [] ->
  (forall kv, In kv (real_phases m) -> pg_known (snd kv)) ->
  (forall p, nth p (m_in m) false = true -> point_ok m kw p) ->
  exists f, Write m kw = Some f.
Proof.
  intros m kw Hin Hpg Hpt.
  destruct (geometry_defined m Hin) as [g Hg].
  unfold write. rewrite Hg. cbn [obind].
  assert (Hh : exists hdr, header_of t0 prt3 prt6 m g kw = Some hdr).
  { unfold header_of.
    rewrite (sequence_map_some (fun ip : nat * (Z * @phase T) => phase_block prt3 (fst ip) (snd (snd ip)))
                               (fun ip => block_of prt3 (fst ip) (snd (snd ip)))).
    - cbn [obind]. eexists; reflexivity.
    - intros ip Hip. apply phase_block_defined. apply Hpg.
      apply in_rev in Hip. destruct ip as [i kv]. apply in_combine_r in Hip. exact Hip. }
  destruct Hh as [hdr Hh]. rewrite Hh. cbn [obind].
  destruct (sequence_map_defined (fun kp : nat * nat => row_of coord rnd5 q32 to_eu m g kw (fst kp) (snd kp))
                                 (combine (seq 0 (length (g_pts g))) (g_pts g))) as [rows Hr].
  { intros kp _. destruct (row_of_defined m g kw (fst kp) (snd kp)) as [r Hrow]; [|rewrite Hrow; discriminate].
    destruct (nth (snd kp) (m_in m) false) eqn:E; [apply Hpt; exact E | apply point_ok_outside; exact E]. }
  rewrite Hr. cbn [obind]. eexists; reflexivity.
Qed.

(* ---------------------------------------------------------------- expected map *)
Definition live_col (m : cmapT) (kw : kwargs) (g : @geom T) (s : colsrc) (sent : Z) : list Z :=
  map (fun p => if indexed_at m p then cv m kw s p else sent) (g_pts g).

Definition expected (m : cmapT) (kw : kwargs) (g : @geom T) : rmap :=
  let pids := map (fun p => if indexed_at m p then new_pid m p else -1) (g_pts g) in
  {| r_shape := squeeze (g_nrows g) (g_ncols g);
     r_dx := if Nat.ltb 1 (g_ncols g) then coord (g_dx g) 1 else 0;
     r_dy := if Nat.ltb 1 (g_nrows g) then coord (g_dy g) 1 else 0;
     r_pid := pids;
     r_eul := map (fun p => if indexed_at m p then ev m kw p else (four_pi5, four_pi5, four_pi5)) (g_pts g);
     r_props := [("iq"%string, live_col m kw g (fst (fst (fst (std_sources m kw)))) 0);
                 ("ci"%string, live_col m kw g (snd (fst (fst (std_sources m kw)))) ci_not_indexed5);
                 ("detector_signal"%string, live_col m kw g (snd (fst (std_sources m kw))) 0);
                 ("fit"%string, live_col m kw g (snd (std_sources m kw)) fit_not_indexed5)]
                ++ combine (map normx (k_extra kw)) (map (fun s => live_col m kw g s 0) (extra_sources m kw));
     r_phases := reconcile pids (renumbered prt3 m);
     r_unit := "um" |}.

(* hypotheses of the clean round trip *)
Record clean (m : cmapT) (kw : kwargs) (g : @geom T) : Prop := {
  c_names : names_plain m;
  c_extra_nodup : NoDup (map normx (k_extra kw));
  c_extra_fresh : forall e, In e (map normx (k_extra kw)) -> ~ In e orix_cols;
  c_axis_x : (1 < g_ncols g)%nat -> axis_ok (coord (g_dx g)) (g_ncols g);
  c_axis_y : (1 < g_nrows g)%nat -> axis_ok (coord (g_dy g)) (g_nrows g);
  c_ci : forall p, In p (g_pts g) -> indexed_at m p = true ->
         cv m kw (snd (fst (fst (std_sources m kw)))) p <> ci_not_indexed5 }.

Lemma nth_srow_fixed : forall m g kw k p,
  let r := srow m g kw k p in
  nth_error r 0 = Some (CF (if indexed_at m p then fst (fst (ev m kw p)) else four_pi5))
  /\ nth_error r 1 = Some (CF (if indexed_at m p then snd (fst (ev m kw p)) else four_pi5))
  /\ nth_error r 2 = Some (CF (if indexed_at m p then snd (ev m kw p) else four_pi5))
  /\ nth_error r 3 = Some (CF (xc g k)) /\ nth_error r 4 = Some (CF (yc g k))
  /\ nth_error r 5 = Some (CF (if indexed_at m p then cv m kw (fst (fst (fst (std_sources m kw)))) p else 0))
  /\ nth_error r 6 = Some (CF (if indexed_at m p then cv m kw (snd (fst (fst (std_sources m kw)))) p else ci_not_indexed5))
  /\ nth_error r 7 = Some (CI (new_pid m p))
  /\ nth_error r 8 = Some (CF (if indexed_at m p then cv m kw (snd (fst (std_sources m kw))) p else 0))
  /\ nth_error r 9 = Some (CF (if indexed_at m p then cv m kw (snd (std_sources m kw)) p else fit_not_indexed5)).
Proof.
  intros m g kw k p. unfold srow. destruct (indexed_at m p); cbn; repeat split; reflexivity.
Qed.

Lemma nth_srow_extra : forall m g kw k p i s,
  nth_error (extra_sources m kw) i = Some s ->
  nth_error (srow m g kw k p) (10 + i) = Some (CF (if indexed_at m p then cv m kw s p else 0)).
Proof.
  intros m g kw k p i s H. unfold srow.
  destruct (indexed_at m p).
  - rewrite nth_error_app2 by (simpl; lia). simpl length.
    replace (10 + i - 10)%nat with i by lia.
    rewrite map_map. rewrite nth_error_map. rewrite H. reflexivity.
  - rewrite nth_error_app2 by (simpl; lia). simpl length.
    replace (10 + i - 10)%nat with i by lia.
    rewrite map_map. rewrite nth_error_map. rewrite H. reflexivity.
Qed.

Theorem roundtrip : forall m kw f g,
  Write m kw = Some f -> geometry t1 m = Some g -> clean m kw g ->
  read f = Some (expected m kw g).
Proof.
  intros m kw f g Hw Hg Hc.
  destruct (write_inv m kw f Hw) as [g' [hdr [Hg' [Hhdr Hf]]]].
  rewrite Hg in Hg'. inversion Hg'. subst g'. clear Hg'.
  destruct Hc as [Hnames Hnd Hfresh Hax Hay Hci].
  destruct (geometry_dims m g Hg) as [Hnr [Hnc Hlen]].
  pose proof (header_vendor m g kw hdr Hhdr Hnames) as [Hv Hcols].
  pose proof (header_phases m g kw hdr Hhdr Hnames) as Hph.
  subst f. unfold read. cbn [f_header f_rows].
  rewrite Hph. cbn [obind].
  rewrite map_length. unfold kps at 1. rewrite combine_length, seq_length, Nat.min_id.
  destruct (Nat.eqb (length (g_pts g)) 0) eqn:El; [apply Nat.eqb_eq in El; nia|].
  rewrite Hv, Hcols. cbn [obind].
  set (names := orix_cols ++ map normx (k_extra kw)).
  set (rows := map (fun kp => srow m g kw (fst kp) (snd kp)) (kps g)).
  set (exn := map normx (k_extra kw)) in *.
  (* every column *)
  assert (Hcol : forall j, (j < 10 + length (k_extra kw))%nat ->
            column rows j = Some (map (fun kp => nth j (srow m g kw (fst kp) (snd kp)) (CF 0)) (kps g))).
  { intros j Hj. unfold rows. apply column_of_rows. intros a _. apply nth_error_nth'. rewrite srow_length. exact Hj. }
  assert (Hall : sequence (map (fun j => column rows j) (seq 0 (length names)))
                 = Some (map (fun j => map (fun kp => nth j (srow m g kw (fst kp) (snd kp)) (CF 0)) (kps g)) (seq 0 (length names)))).
  { apply sequence_map_some. intros j Hj. apply in_seq in Hj. apply Hcol.
    unfold names in Hj. rewrite app_length in Hj. unfold exn in Hj. rewrite map_length in Hj. simpl in Hj. lia. }
  rewrite Hall. cbn [obind].
  (* the six core fields *)
  assert (Hcore : forall n j, nth_error orix_cols j = Some n -> field_col rows names n
            = Some (map (fun kp => nth j (srow m g kw (fst kp) (snd kp)) (CF 0)) (kps g))).
  { intros n j Hn. unfold field_col, names.
    rewrite last_index_app_notin.
    2:{ intro Hin. apply (Hfresh n Hin). eapply nth_error_In. exact Hn. }
    assert (Hnd10 : NoDup orix_cols).
    { unfold orix_cols. repeat constructor; simpl; intuition discriminate. }
    rewrite (last_index_nodup orix_cols n j 0 Hnd10 Hn). cbn [obind]. simpl plus.
    apply Hcol. assert (j < length orix_cols)%nat by (apply nth_error_Some; congruence). simpl in H. lia. }
  rewrite (Hcore "euler1"%string 0%nat eq_refl), (Hcore "euler2"%string 1%nat eq_refl),
          (Hcore "euler3"%string 2%nat eq_refl), (Hcore "x"%string 3%nat eq_refl),
          (Hcore "y"%string 4%nat eq_refl), (Hcore "phase_id"%string 7%nat eq_refl).
  cbn [obind].
  (* property names *)
  assert (Hpn : dedup (filter (fun n => negb (smem n core_fields)) names)
                = ["iq"; "ci"; "detector_signal"; "fit"]%string ++ exn).
  { unfold names. rewrite filter_app.
    change (filter (fun n => negb (smem n core_fields)) orix_cols) with ["iq"; "ci"; "detector_signal"; "fit"]%string.
    rewrite (filter_id _ exn).
    2:{ intros x Hx. apply negb_true_iff. apply notin_smem_false. intro Hin. apply (Hfresh x Hx).
        unfold core_fields in Hin. unfold orix_cols. simpl in *. intuition. }
    apply dedup_nodup.
    apply nodup_app_intro; [repeat constructor; simpl; intuition discriminate | exact Hnd |].
    intros x Hx Hx2. apply (Hfresh x Hx2). unfold orix_cols. simpl in *. intuition. }
  rewrite Hpn.
  (* extra columns *)
  assert (Hex : forall i n, nth_error exn i = Some n -> field_col rows names n
            = Some (map (fun kp => nth (10 + i) (srow m g kw (fst kp) (snd kp)) (CF 0)) (kps g))).
  { intros i n Hn. unfold field_col, names.
    rewrite (last_index_app_right orix_cols exn n i Hnd Hn). cbn [obind]. simpl length.
    apply Hcol. assert (i < length exn)%nat by (apply nth_error_Some; congruence).
    unfold exn in H. rewrite map_length in H. lia. }
  set (F := fun n : string => c <- field_col rows names n;; Some (n, map cell_fix c)).
  assert (Hseq_ex : sequence (map F exn)
            = Some (map (fun i => (nth i exn EmptyString,
                                   map (fun kp => cell_fix (nth (10 + i) (srow m g kw (fst kp) (snd kp)) (CF 0))) (kps g)))
                        (seq 0 (length exn)))).
  { rewrite (map_nth_seq F exn EmptyString). apply sequence_map_some.
    intros i Hi. apply in_seq in Hi. unfold F.
    rewrite (Hex i (nth i exn EmptyString)) by (apply nth_error_nth'; lia).
    cbn [obind]. rewrite map_map. reflexivity. }
  cbn [map app]. fold F.
  unfold F at 1 2 3 4.
  rewrite (Hcore "iq"%string 5%nat eq_refl), (Hcore "ci"%string 6%nat eq_refl),
          (Hcore "detector_signal"%string 8%nat eq_refl), (Hcore "fit"%string 9%nat eq_refl).
  cbn [obind sequence]. rewrite Hseq_ex. cbn [obind].
  cbn [assoc_s String.eqb Ascii.eqb Bool.eqb]. cbn [obind].
  (* now the record *)
  f_equal. unfold expected.
  assert (Hk : forall {B} (h : nat -> nat -> B), map (fun kp : nat * nat => h (fst kp) (snd kp)) (kps g)
               = map (fun kp : nat * nat => h (fst kp) (snd kp)) (kps g)) by reflexivity.
  (* per point facts *)
  assert (Hfix : forall k p, let r := srow m g kw k p in
     cell_fix (nth 0 r (CF 0)) = (if indexed_at m p then fst (fst (ev m kw p)) else four_pi5)
  /\ cell_fix (nth 1 r (CF 0)) = (if indexed_at m p then snd (fst (ev m kw p)) else four_pi5)
  /\ cell_fix (nth 2 r (CF 0)) = (if indexed_at m p then snd (ev m kw p) else four_pi5)
  /\ cell_fix (nth 3 r (CF 0)) = xc g k /\ cell_fix (nth 4 r (CF 0)) = yc g k
  /\ cell_fix (nth 5 r (CF 0)) = (if indexed_at m p then cv m kw (fst (fst (fst (std_sources m kw)))) p else 0)
  /\ cell_fix (nth 6 r (CF 0)) = (if indexed_at m p then cv m kw (snd (fst (fst (std_sources m kw)))) p else ci_not_indexed5)
  /\ cell_int (nth 7 r (CF 0)) = new_pid m p
  /\ cell_fix (nth 8 r (CF 0)) = (if indexed_at m p then cv m kw (snd (fst (std_sources m kw))) p else 0)
  /\ cell_fix (nth 9 r (CF 0)) = (if indexed_at m p then cv m kw (snd (std_sources m kw)) p else fit_not_indexed5)).
  { intros k p. unfold srow. destruct (indexed_at m p); cbn; repeat split; reflexivity. }
  (* coordinates *)
  assert (Hxs : map cell_fix (map (fun kp => nth 3 (srow m g kw (fst kp) (snd kp)) (CF 0)) (kps g))
                = map (fun k => coord (g_dx g) (Nat.modulo k (g_ncols g))) (seq 0 (g_nrows g * g_ncols g))).
  { rewrite map_map. rewrite <- Hlen.
    rewrite <- (combine_seq_map (fun k => coord (g_dx g) (Nat.modulo k (g_ncols g))) (g_pts g) 0).
    apply map_ext. intro kp. destruct (Hfix (fst kp) (snd kp)) as [_ [_ [_ [A _]]]]. exact A. }
  assert (Hys : map cell_fix (map (fun kp => nth 4 (srow m g kw (fst kp) (snd kp)) (CF 0)) (kps g))
                = map (fun k => coord (g_dy g) (Nat.div k (g_ncols g))) (seq 0 (g_nrows g * g_ncols g))).
  { rewrite map_map. rewrite <- Hlen.
    rewrite <- (combine_seq_map (fun k => coord (g_dy g) (Nat.div k (g_ncols g))) (g_pts g) 0).
    apply map_ext. intro kp. destruct (Hfix (fst kp) (snd kp)) as [_ [_ [_ [_ [A _]]]]]. exact A. }
  rewrite Hxs, Hys.
  destruct (grid_read_back (coord (g_dx g)) (coord (g_dy g)) (g_nrows g) (g_ncols g) Hnr Hnc Hax Hay)
    as [Hshape [Hdx Hdy]].
  cbv zeta in Hshape, Hdx, Hdy. rewrite Hshape, Hdx, Hdy.
  (* phase ids *)
  assert (Hpid : set_not_indexed
            (map cell_fix (map (fun kp => nth 6 (srow m g kw (fst kp) (snd kp)) (CF 0)) (kps g)))
            (map cell_int (map (fun kp => nth 7 (srow m g kw (fst kp) (snd kp)) (CF 0)) (kps g)))
          = map (fun p => if indexed_at m p then new_pid m p else -1) (g_pts g)).
  { rewrite !map_map. rewrite set_not_indexed_map.
    rewrite <- (combine_seq_map_snd (fun p => if indexed_at m p then new_pid m p else -1) (g_pts g) 0).
    apply map_ext_in. intros kp Hkp.
    destruct (Hfix (fst kp) (snd kp)) as [_ [_ [_ [_ [_ [_ [A [B _]]]]]]]]. rewrite A, B.
    assert (Hin : In (snd kp) (g_pts g)).
    { destruct kp as [k p]. unfold kps in Hkp. apply in_combine_r in Hkp. exact Hkp. }
    destruct (indexed_at m (snd kp)) eqn:Ei.
    - destruct (Z.eqb_spec (cv m kw (snd (fst (fst (std_sources m kw)))) (snd kp)) ci_not_indexed5) as [E|E];
        [exfalso; exact (Hci _ Hin Ei E) | reflexivity].
    - reflexivity. }
  rewrite Hpid.
  f_equal.
  - (* Euler angles *)
    repeat rewrite map_map. rewrite zip3_map.
    rewrite <- (combine_seq_map_snd (fun p => if indexed_at m p then ev m kw p else (four_pi5, four_pi5, four_pi5)) (g_pts g) 0).
    apply map_ext. intro kp. destruct (Hfix (fst kp) (snd kp)) as [A [B [C _]]]. rewrite A, B, C.
    destruct (indexed_at m (snd kp)); [destruct (ev m kw (snd kp)) as [[? ?] ?]|]; reflexivity.
  - (* properties *)
    unfold live_col.
    assert (Hp : forall j s sent,
       (forall k p, cell_fix (nth j (srow m g kw k p) (CF 0)) = (if indexed_at m p then cv m kw s p else sent)) ->
       map cell_fix (map (fun kp => nth j (srow m g kw (fst kp) (snd kp)) (CF 0)) (kps g))
       = map (fun p => if indexed_at m p then cv m kw s p else sent) (g_pts g)).
    { intros j s sent Hj. rewrite map_map.
      rewrite <- (combine_seq_map_snd (fun p => if indexed_at m p then cv m kw s p else sent) (g_pts g) 0).
      apply map_ext. intro kp. apply Hj. }
    rewrite (Hp 5%nat _ 0) by (intros k p; destruct (Hfix k p) as [_ [_ [_ [_ [_ [A _]]]]]]; exact A).
    rewrite (Hp 6%nat _ ci_not_indexed5) by (intros k p; destruct (Hfix k p) as [_ [_ [_ [_ [_ [_ [A _]]]]]]]; exact A).
    rewrite (Hp 8%nat _ 0) by (intros k p; destruct (Hfix k p) as [_ [_ [_ [_ [_ [_ [_ [_ [A _]]]]]]]]]; exact A).
    rewrite (Hp 9%nat _ fit_not_indexed5) by (intros k p; destruct (Hfix k p) as [_ [_ [_ [_ [_ [_ [_ [_ [_ A]]]]]]]]]; exact A).
    cbn [app]. do 4 f_equal.
    (* extras *)
    assert (Hlen2 : length exn = length (map (fun s => map (fun p => if indexed_at m p then cv m kw s p else 0) (g_pts g)) (extra_sources m kw))).
    { unfold exn, extra_sources. repeat rewrite map_length. reflexivity. }
    fold exn. rewrite <- (combine_nth_seq exn _ EmptyString [] Hlen2).
    apply map_ext_in. intros i Hi. apply in_seq in Hi. f_equal.
    assert (Hs : exists s, nth_error (extra_sources m kw) i = Some s).
    { destruct (nth_error (extra_sources m kw) i) eqn:E; [eauto|]. apply nth_error_None in E.
      rewrite Hlen2 in Hi. rewrite map_length in Hi. lia. }
    destruct Hs as [s Hs].
    rewrite (nth_indep _ [] (map (fun p => if indexed_at m p then cv m kw s p else 0) (g_pts g)))
      by (rewrite <- Hlen2; lia).
    rewrite (map_nth (fun s => map (fun p => if indexed_at m p then cv m kw s p else 0) (g_pts g)) (extra_sources m kw) s i).
    rewrite (nth_error_nth _ _ s Hs).
    rewrite <- (combine_seq_map_snd (fun p => if indexed_at m p then cv m kw s p else 0) (g_pts g) 0).
    apply map_ext. intro kp.
    pose proof (nth_srow_extra m g kw (fst kp) (snd kp) i s Hs) as Hn.
    rewrite (nth_error_nth _ _ (CF 0) Hn). reflexivity.
Qed.

End Round.
