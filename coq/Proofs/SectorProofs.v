(* C07: what the projection into the fundamental sector returns, for all
   directions (model Model/SectorModel.v over the reals, exact rounding). *)
From Coq Require Import Reals ZArith Lra List Bool.
From Verif Require Import Scalar RInst QuatKernels Conversions Quat QuatAlg SectorModel.
Import ListNotations.
Local Open Scope R_scope.

Notation Rv := (vec3 (T:=R)).
Notation Rrot := (rot (T:=R)).
Definition idR (x : R) : R := x.

(* (a) the result is s * v for an operation s built from the group's listed
   elements: v itself, ~s * v, ~s * (f * v), or f * v, with s in S (and f the
   flip element of the special cases) *)
Theorem project_is_group_image kind tol (S : list Rrot) N center v :
  let r := project ROps idR kind tol S N center v in
  r = v \/
  (exists s, (In s S \/ s = (qone ROps, false)) /\ r = ract ROps (rinv ROps s) v) \/
  (exists f, (In f S \/ f = (qone ROps, false)) /\ r = ract ROps f v) \/
  (exists s f, (In s S \/ s = (qone ROps, false)) /\ (In f S \/ f = (qone ROps, false)) /\
               r = ract ROps (rinv ROps s) (ract ROps f v)).
Proof.
  cbv zeta. unfold project. destruct center as [c|]; [|left; reflexivity].
  set (d := (qone ROps, false)).
  assert (Hnth : forall (l : list Rrot) k, In (nth k l d) l \/ nth k l d = d).
  { intros l k. destruct (nth_in_or_default k l d); auto. }
  assert (Hsub : forall x, In x (sub_of kind S) -> In x S).
  { intros x Hx. unfold sub_of in Hx.
    assert (Hfirst : forall k, In x (firstn k S) -> In x S).
    { intros k H. rewrite <- (firstn_skipn k S). apply in_or_app. left; exact H. }
    destruct kind as [|[|[|[|k]]]]; try exact Hx; try (eapply Hfirst; exact Hx).
    apply filter_In in Hx. exact (proj1 Hx). }
  assert (Hlast : In (last S d) S \/ last S d = d).
  { destruct S as [|a S']; [right; reflexivity|]. left.
    assert (Hne : a :: S' <> []) by discriminate.
    destruct (exists_last Hne) as [l' [x Hx]]. rewrite Hx. rewrite last_last. apply in_or_app. right. left. reflexivity. }
  assert (Hflip : forall f, flip_of kind S d = Some f -> In f S \/ f = d).
  { intros f Hf. unfold flip_of in Hf.
    destruct kind as [|[|[|[|k]]]]; try discriminate; inversion Hf; subst f; try exact Hlast; apply Hnth. }
  assert (Hs : forall w, In (nth (argmax ROps (map (fun s => idR (vdot ROps w (ract ROps s c))) (sub_of kind S))) (sub_of kind S) d) S \/
                         nth (argmax ROps (map (fun s => idR (vdot ROps w (ract ROps s c))) (sub_of kind S))) (sub_of kind S) d = d).
  { intros w. destruct (Hnth (sub_of kind S) (argmax ROps (map (fun s => idR (vdot ROps w (ract ROps s c))) (sub_of kind S)))) as [H|H].
    - left. apply Hsub. exact H.
    - right. exact H. }
  destruct (flip_of kind S d) as [f|] eqn:Ef.
  - specialize (Hflip f eq_refl).
    destruct (o_ltb ROps (vz v) (o_ofZ ROps 0)).
    + destruct (in_sector ROps tol N (vunit ROps (ract ROps f v))).
      * right; right; left. exists f. split; [exact Hflip|reflexivity].
      * right; right; right. eexists; exists f. split; [apply Hs|split; [exact Hflip|reflexivity]].
    + destruct (in_sector ROps tol N (vunit ROps v)); [left; reflexivity|].
      right; left. eexists. split; [apply Hs|reflexivity].
  - destruct (in_sector ROps tol N (vunit ROps v)); [left; reflexivity|].
    right; left. eexists. split; [apply Hs|reflexivity].
Qed.

(* (d) a vector whose DIRECTION is already inside the closed sector is returned unchanged
   (plain groups), hence projecting twice changes nothing whenever the first
   projection lands inside the sector *)
Theorem project_fixes_inside tol (S : list Rrot) N center v :
  in_sector ROps tol N (vunit ROps v) = true -> project ROps idR 0 tol S N center v = v.
Proof.
  intros H. unfold project. destruct center; [|reflexivity]. cbn [flip_of sub_of]. rewrite H. reflexivity.
Qed.

Corollary project_idempotent_if_lands_inside tol (S : list Rrot) N center v :
  in_sector ROps tol N (vunit ROps (project ROps idR 0 tol S N center v)) = true ->
  project ROps idR 0 tol S N center (project ROps idR 0 tol S N center v) = project ROps idR 0 tol S N center v.
Proof. apply project_fixes_inside. Qed.

(* the result has the length of the input: the projection is exact *)
Theorem project_keeps_length kind tol (S : list Rrot) N center v :
  (forall s, In s S -> qnorm2 ROps (fst s) = 1) ->
  let r := project ROps idR kind tol S N center v in vdot ROps r r = vdot ROps v v.
Proof.
  intros HS. cbv zeta.
  assert (Hone : qnorm2 ROps (fst (qone ROps, false)) = 1) by (cbn [fst]; unfold qnorm2, qone; rsimpl; ring).
  assert (Hu : forall s, (In s S \/ s = (qone ROps, false)) -> qnorm2 ROps (fst s) = 1).
  { intros s [H| ->]; [apply HS; exact H|exact Hone]. }
  assert (Hinv : forall s, qnorm2 ROps (fst s) = 1 -> qnorm2 ROps (fst (rinv ROps s)) = 1).
  { intros [q i] H. cbn [fst rinv] in *. rewrite qnorm2_conj. exact H. }
  destruct (project_is_group_image kind tol S N center v) as [->|[[s [Hs ->]]|[[f [Hf ->]]|[s [f [Hs [Hf ->]]]]]]].
  - reflexivity.
  - apply ract_dot. apply Hinv. apply Hu; exact Hs.
  - apply ract_dot. apply Hu; exact Hf.
  - rewrite ract_dot by (apply Hinv; apply Hu; exact Hs). apply ract_dot. apply Hu; exact Hf.
Qed.
