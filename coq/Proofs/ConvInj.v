(* A unit quaternion is determined up to sign by its ten quadratic monomials,
   hence by its orientation matrix (used by C01 and C17). *)
From Coq Require Import Reals ZArith Lra Nsatz Bool.
From Verif Require Import Scalar RInst QuatKernels Conversions Quat QuatAlg Atan2 ConvEuler ConvEulerInv.
Local Open Scope R_scope.

Lemma sq_eq_pm x y : x * x = y * y -> x = y \/ x = - y.
Proof.
  intros H. assert (E : (x - y) * (x + y) = 0) by (ring_simplify; lra).
  apply Rmult_integral in E. destruct E; [left|right]; lra.
Qed.

Lemma sq_zero x : x * x = 0 -> x = 0.
Proof. intros H. apply Rmult_integral in H. tauto. Qed.

Ltac from_pivot e :=
  repeat match goal with
         | H : e * ?x = e * ?y |- _ => apply Rmult_eq_reg_l in H; [|assumption]
         | H : ?x * e = ?y * e |- _ => apply Rmult_eq_reg_r in H; [|assumption]
         end.

Lemma quad_pm a b c d e f g h :
  a * a = e * e -> b * b = f * f -> c * c = g * g -> d * d = h * h ->
  a * b = e * f -> a * c = e * g -> a * d = e * h ->
  b * c = f * g -> b * d = f * h -> c * d = g * h ->
  (a, b, c, d) = (e, f, g, h) \/ (a, b, c, d) = (- e, - f, - g, - h).
Proof.
  intros Haa Hbb Hcc Hdd Hab Hac Had Hbc Hbd Hcd.
  destruct (Req_dec e 0) as [He|He].
  - subst e. assert (a = 0) by (apply sq_zero; lra). subst a.
    destruct (Req_dec f 0) as [Hf|Hf].
    + subst f. assert (b = 0) by (apply sq_zero; lra). subst b.
      destruct (Req_dec g 0) as [Hg|Hg].
      * subst g. assert (c = 0) by (apply sq_zero; lra). subst c.
        destruct (sq_eq_pm d h Hdd) as [->| ->]; [left|right]; repeat f_equal; lra.
      * destruct (sq_eq_pm c g Hcc) as [->| ->].
        -- left. assert (d = h) by (apply (Rmult_eq_reg_l g); lra). subst. reflexivity.
        -- right. assert (d = - h) by (apply (Rmult_eq_reg_l (- g)); lra). subst. repeat f_equal; lra.
    + destruct (sq_eq_pm b f Hbb) as [->| ->].
      * left. assert (c = g) by (apply (Rmult_eq_reg_l f); lra).
        assert (d = h) by (apply (Rmult_eq_reg_l f); lra). subst. reflexivity.
      * right. assert (c = - g) by (apply (Rmult_eq_reg_l (- f)); lra).
        assert (d = - h) by (apply (Rmult_eq_reg_l (- f)); lra). subst. repeat f_equal; lra.
  - destruct (sq_eq_pm a e Haa) as [->| ->].
    + left. assert (b = f) by (apply (Rmult_eq_reg_l e); lra).
      assert (c = g) by (apply (Rmult_eq_reg_l e); lra).
      assert (d = h) by (apply (Rmult_eq_reg_l e); lra). subst. reflexivity.
    + right. assert (b = - f) by (apply (Rmult_eq_reg_l (- e)); lra).
      assert (c = - g) by (apply (Rmult_eq_reg_l (- e)); lra).
      assert (d = - h) by (apply (Rmult_eq_reg_l (- e)); lra). subst. reflexivity.
Qed.

(* equal orientation matrices of unit quaternions => equal up to sign *)
Lemma qu2om_inj (p q : quat (T:=R)) :
  qnorm2 ROps p = 1 -> qnorm2 ROps q = 1 -> qu2om ROps p = qu2om ROps q ->
  p = q \/ p = qneg ROps q.
Proof.
  destruct p as [[[a b] c] d], q as [[[e f] g] h].
  unfold qnorm2, qu2om, qu2om_single, qneg; rsimpl. intros Hp Hq H.
  injection H; intros.
  apply quad_pm; nra.
Qed.

(* Euler round trip on the generic branch, both hemispheres *)
Theorem eu2qu_qu2eu_generic a b c d :
  a * a + b * b + c * c + d * d = 1 -> 1 / 1000000000 <= chi a b c d ->
  clear_angle (t0 a b c d) -> clear_angle (t1 a b c d) -> clear_angle (t2 a b c d) ->
  eu2qu ROps (qu2eu ROps (a, b, c, d)) = (a, b, c, d) \/
  eu2qu ROps (qu2eu ROps (a, b, c, d)) = qneg ROps (a, b, c, d).
Proof.
  intros Hu Hchi G0 G1 G2.
  apply qu2om_inj.
  - apply eu2qu_unit.
  - unfold qnorm2; rsimpl; exact Hu.
  - rewrite qu2om_eu2qu. apply qu2eu_generic_matrix; assumption.
Qed.
