(* exact check of the cover trees and Gordan certificates of the fundamental sectors in Gen/SectorCerts00.v
   (eight files so that make -j runs them in parallel) *)
From Coq Require Import List Bool.
From Verif Require Import CoverCheck SectorCerts00.
Lemma sector_certs_ok_00 : forallb sc_ok sector_certs_00 = true.
Proof. vm_compute. reflexivity. Qed.
