(* All uniqueness certificates check; consequences over the reals, for every ordered pair of proper point groups:
   the images of the open region under the pairs of operations other than the identity pair do not meet it; two
   members of one orbit strictly inside the region coincide; the representatives returned by the reduction for two
   members of one orbit agree up to the overall sign of the quaternion whenever both lie strictly inside. *)
From Coq Require Import Reals ZArith QArith List String Bool Lra.
From Verif Require Import Scalar RInst KField KtoR KSign Quat QuatAlg GroupK Groups SymDot SymDotR SymDotK
  ZoneModel ZoneProofs CertCheck CertSound CoverCheck CoverSound ExistCheck ExistSound ExistInst UniqCheck UniqSound
  RegionCertsAll RegionCertsAllOK RegionExistAllOK
  RegionCerts00 RegionUniq00 RegionUniqOK00 RegionCerts01 RegionUniq01 RegionUniqOK01 RegionCerts02 RegionUniq02 RegionUniqOK02 RegionCerts03 RegionUniq03 RegionUniqOK03 RegionCerts04 RegionUniq04 RegionUniqOK04 RegionCerts05 RegionUniq05 RegionUniqOK05 RegionCerts06 RegionUniq06 RegionUniqOK06 RegionCerts07 RegionUniq07 RegionUniqOK07 RegionCerts08 RegionUniq08 RegionUniqOK08 RegionCerts09 RegionUniq09 RegionUniqOK09 RegionCerts10 RegionUniq10 RegionUniqOK10 RegionCerts11 RegionUniq11 RegionUniqOK11 RegionCerts12 RegionUniq12 RegionUniqOK12 RegionCerts13 RegionUniq13 RegionUniqOK13 RegionCerts14 RegionUniq14 RegionUniqOK14.
Import ListNotations.
Local Open Scope R_scope.

Lemma every_region_has_uniq_cert : forall rc, In rc (List.concat all_region_certs) -> exists o, rc_uniq_ok rc o = true.
Proof.
  intros rc H. apply in_concat in H. destruct H as [L [HL Hrc]].
  unfold all_region_certs in HL. cbn [In] in HL.
  repeat (destruct HL as [<-|HL]); [..|destruct HL].
  - destruct (all2b_In _ _ _ region_uniq_ok_00 rc Hrc) as [o [_ Ho]]. exists o. exact Ho.
  - destruct (all2b_In _ _ _ region_uniq_ok_01 rc Hrc) as [o [_ Ho]]. exists o. exact Ho.
  - destruct (all2b_In _ _ _ region_uniq_ok_02 rc Hrc) as [o [_ Ho]]. exists o. exact Ho.
  - destruct (all2b_In _ _ _ region_uniq_ok_03 rc Hrc) as [o [_ Ho]]. exists o. exact Ho.
  - destruct (all2b_In _ _ _ region_uniq_ok_04 rc Hrc) as [o [_ Ho]]. exists o. exact Ho.
  - destruct (all2b_In _ _ _ region_uniq_ok_05 rc Hrc) as [o [_ Ho]]. exists o. exact Ho.
  - destruct (all2b_In _ _ _ region_uniq_ok_06 rc Hrc) as [o [_ Ho]]. exists o. exact Ho.
  - destruct (all2b_In _ _ _ region_uniq_ok_07 rc Hrc) as [o [_ Ho]]. exists o. exact Ho.
  - destruct (all2b_In _ _ _ region_uniq_ok_08 rc Hrc) as [o [_ Ho]]. exists o. exact Ho.
  - destruct (all2b_In _ _ _ region_uniq_ok_09 rc Hrc) as [o [_ Ho]]. exists o. exact Ho.
  - destruct (all2b_In _ _ _ region_uniq_ok_10 rc Hrc) as [o [_ Ho]]. exists o. exact Ho.
  - destruct (all2b_In _ _ _ region_uniq_ok_11 rc Hrc) as [o [_ Ho]]. exists o. exact Ho.
  - destruct (all2b_In _ _ _ region_uniq_ok_12 rc Hrc) as [o [_ Ho]]. exists o. exact Ho.
  - destruct (all2b_In _ _ _ region_uniq_ok_13 rc Hrc) as [o [_ Ho]]. exists o. exact Ho.
  - destruct (all2b_In _ _ _ region_uniq_ok_14 rc Hrc) as [o [_ Ho]]. exists o. exact Ho.
Qed.

Lemma all_pgroups_id_first : forallb pgroup_id_first proper_names = true.
Proof. vm_compute. reflexivity. Qed.

Lemma id_first_of name : name_listed name = true -> pgroup_id_first name = true.
Proof.
  unfold name_listed. intros H. apply existsb_exists in H. destruct H as [m [Hm He]].
  apply String.eqb_eq in He. subst m. pose proof all_pgroups_id_first as A. rewrite forallb_forall in A. apply A. exact Hm.
Qed.

Lemma rc_uniq_parts rc : In rc (List.concat all_region_certs) ->
  exists cs, uniq_ok (pquats (rc_l rc)) (pquats (rc_r rc)) (rc_N rc) cs = true /\
             pgroup_id_first (rc_l rc) = true /\ pgroup_id_first (rc_r rc) = true.
Proof.
  intros H. destruct (every_region_has_uniq_cert rc H) as [o Ho]. unfold rc_uniq_ok in Ho.
  destruct o as [cs|]; [|discriminate]. apply andb_prop in Ho. destruct Ho as [Ho Hr]. apply andb_prop in Ho. destruct Ho as [Ho Hl].
  exists cs. split; [exact Ho|split; apply id_first_of; assumption].
Qed.

(* 1. the open region and its images under the other pairs of operations are disjoint *)
Theorem region_interior_images_disjoint (rc : region_cert) : In rc (List.concat all_region_certs) ->
  forall x : quat (T:=R), strictly_inside (rc_N rc) x ->
  forall gl gr, In (gl, gr) (tl (list_prod (proper_quats (rc_l rc)) (proper_quats (rc_r rc)))) ->
    ~ strictly_inside (rc_N rc) (transform ROps (qtoR gl) (qtoR gr) x).
Proof.
  intros H x Hx gl gr Hin. destruct (rc_uniq_parts rc H) as [cs [Hu _]].
  rewrite <- !pquats_is_proper_quats in Hin.
  change (transform ROps (qtoR gl) (qtoR gr) x) with (Tmap gl gr x).
  exact (uniq_ok_sound _ _ _ _ Hu x Hx gl gr Hin).
Qed.

(* 2. two members of one orbit strictly inside the region coincide *)
Theorem region_strict_members_coincide (rc : region_cert) : In rc (List.concat all_region_certs) ->
  forall x : quat (T:=R), strictly_inside (rc_N rc) x ->
  forall gl gr, In gl (map qtoR (proper_quats (rc_l rc))) -> In gr (map qtoR (proper_quats (rc_r rc))) ->
    strictly_inside (rc_N rc) (transform ROps gl gr x) -> transform ROps gl gr x = x.
Proof.
  intros H x Hx gl gr Hgl Hgr HT. destruct (rc_uniq_parts rc H) as [cs [Hu [I1 I2]]].
  apply in_map_iff in Hgl, Hgr. destruct Hgl as [kl [<- Hkl]], Hgr as [kr [<- Hkr]].
  rewrite <- pquats_is_proper_quats in Hkl, Hkr.
  change (transform ROps (qtoR kl) (qtoR kr) x) with (Tmap kl kr x) in *.
  assert (Hid : match pquats (rc_l rc), pquats (rc_r rc) with
                | a0 :: _, b0 :: _ => kq_eqb a0 kq_one && kq_eqb b0 kq_one | _, _ => false end = true).
  { unfold pgroup_id_first in I1, I2.
    destruct (pquats (rc_l rc)) as [|a0 ?]; [discriminate|]. destruct (pquats (rc_r rc)) as [|b0 ?]; [discriminate|].
    rewrite I1, I2. reflexivity. }
  exact (strictly_inside_unique _ _ _ cs Hu Hid x Hx kl kr Hkl Hkr HT).
Qed.

(* closure extended to elements known up to sign *)
Lemma pm_mul_closed (A : list (quat (T:=R))) :
  (forall a a', In a A -> In a' A -> pm_in (qmul ROps a a') A) ->
  forall p q, pm_in p A -> pm_in q A -> pm_in (qmul ROps p q) A.
Proof.
  intros C p q [p1 [Hp1 Ep]] [q1 [Hq1 Eq]]. destruct (C p1 q1 Hp1 Hq1) as [c [Hc Ec]].
  exists c. split; [exact Hc|]. unfold pm_eq in *.
  destruct Ep as [->| ->], Eq as [->| ->], Ec as [Ec|Ec];
    rewrite ?qmul_neg_l, ?qmul_neg_r, Ec, ?qneg_invol; auto.
Qed.
Lemma pm_in_self (A : list (quat (T:=R))) a : In a A -> pm_in a A.
Proof. intros H. exists a. split; [exact H|left; reflexivity]. Qed.

(* 3. the representatives of two members of one orbit agree (up to the sign of the quaternion) when both are
   strictly inside the region *)
Theorem reduce_representative_unique (rc : region_cert) : In rc (List.concat all_region_certs) ->
  forall (M : quat (T:=R)) a b,
  let Gl := map qtoR (proper_quats (rc_l rc)) in
  let Gr := map qtoR (proper_quats (rc_r rc)) in
  let N := map qtoR (rc_N rc) in
  In a Gl -> In b Gr ->
  let r := reduce ROps 0 N Gl Gr M in
  let r' := reduce ROps 0 N Gl Gr (transform ROps a b M) in
  strictly_inside (rc_N rc) r -> strictly_inside (rc_N rc) r' -> r' = r \/ r' = qneg ROps r.
Proof.
  intros Hrc M a b Gl Gr N Ha Hb r r' Sr Sr'.
  destruct (rc_names_listed rc Hrc) as [Pl Pr].
  destruct (pgroup_ok_facts _ Pl) as [cA [uA nA]]. destruct (pgroup_ok_facts _ Pr) as [cB [uB nB]].
  pose proof (pgroup_ok_inv _ Pl) as iA. pose proof (pgroup_ok_inv _ Pr) as iB.
  rewrite pquats_is_proper_quats in *.
  destruct (reduce_result_inside_and_minimal rc Hrc M) as [_ [[a1 [b1 [Ha1 [Hb1 Er]]]] _]].
  destruct (reduce_result_inside_and_minimal rc Hrc (transform ROps a b M)) as [_ [[a2 [b2 [Ha2 [Hb2 Er']]]] _]].
  fold Gl Gr N in Ha1, Hb1, Er, Ha2, Hb2, Er'. fold r in Er. fold r' in Er'.
  assert (Ua1 : qnorm2 ROps a1 = 1) by (apply (qunit_sound _ uA); exact Ha1).
  assert (Ub1 : qnorm2 ROps b1 = 1) by (apply (qunit_sound _ uB); exact Hb1).
  (* r' = (a2 * a * ~a1) * r * (~b1 * b * b2) *)
  assert (E : r' = transform ROps (qmul ROps a2 (qmul ROps a (qconj ROps a1)))
                                  (qmul ROps (qmul ROps (qconj ROps b1) b) b2) r).
  { rewrite Er', Er. unfold transform. rewrite !qmul_assoc.
    rewrite <- (qmul_assoc b1 (qconj ROps b1)), (qmul_conj_unit b1 Ub1), qmul_one_l.
    rewrite <- (qmul_assoc (qconj ROps a1) a1), (qmul_conj_l a1), Ua1.
    replace (qscale ROps 1 (qone ROps)) with (qone ROps) by (unfold qscale, qone; rsimpl; tuple_eq; ring).
    rewrite qmul_one_l. reflexivity. }
  pose proof (qclosed_pm_sound _ cA) as CA. pose proof (qclosed_pm_sound _ cB) as CB.
  assert (PA : pm_in (qmul ROps a2 (qmul ROps a (qconj ROps a1))) Gl).
  { apply (pm_mul_closed _ CA); [apply pm_in_self; exact Ha2|].
    apply (pm_mul_closed _ CA); [apply pm_in_self; exact Ha|apply (qinv_closed_pm_sound _ iA); exact Ha1]. }
  assert (PB : pm_in (qmul ROps (qmul ROps (qconj ROps b1) b) b2) Gr).
  { apply (pm_mul_closed _ CB); [|apply pm_in_self; exact Hb2].
    apply (pm_mul_closed _ CB); [apply (qinv_closed_pm_sound _ iB); exact Hb1|apply pm_in_self; exact Hb]. }
  destruct PA as [a3 [Ha3 Ea3]]. destruct PB as [b3 [Hb3 Eb3]].
  assert (Epm : pm_eq r' (transform ROps a3 b3 r)).
  { rewrite E. unfold transform, pm_eq in *.
    destruct Ea3 as [->| ->], Eb3 as [->| ->];
      rewrite ?qmul_neg_l, ?qmul_neg_r, ?qmul_neg_l, ?qneg_invol; auto. }
  assert (S3 : strictly_inside (rc_N rc) (transform ROps a3 b3 r)).
  { destruct Epm as [E1|E1]; [rewrite <- E1; exact Sr'|].
    apply strictly_inside_neg. rewrite <- E1. exact Sr'. }
  pose proof (region_strict_members_coincide rc Hrc r Sr a3 b3 Ha3 Hb3 S3) as Efix.
  rewrite Efix in Epm. exact Epm.
Qed.
