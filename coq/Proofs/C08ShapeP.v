(* C08 -- array level: one colour per direction / orientation, the colour
   array has the input's shape plus a trailing axis of length 3 (C order). *)
From Coq Require Import ZArith List Bool Lia.
From Verif Require Import Scalar NdIndex C08Color Quat C08Model.
Import ListNotations.

Section Shape.
Context {T : Type}.
Notation V := (vec3 (T:=T)).

Definition comp (k : nat) (c : V) : T :=
  let '(r, g, b) := c in match k with 0%nat => r | 1%nat => g | _ => b end.

Lemma flat3_length (cs : list V) : length (flat3 cs) = 3 * length cs.
Proof. induction cs as [|[[r g] b] cs IH]; simpl; [reflexivity|]. rewrite IH. lia. Qed.

Lemma flat3_nth (d : T) : forall (cs : list V) i k, i < length cs -> k < 3 ->
  nth (i * 3 + k) (flat3 cs) d = comp k (nth i cs (d, d, d)).
Proof.
  induction cs as [|[[r g] b] cs IH]; intros i k Hi Hk; simpl in Hi; [lia|].
  destruct i as [|i].
  - simpl. destruct k as [|[|[|k]]]; try reflexivity. lia.
  - change (flat3 ((r, g, b) :: cs)) with (r :: g :: b :: flat3 cs).
    replace (S i * 3 + k) with (S (S (S (i * 3 + k)))) by lia.
    cbn [nth]. apply IH; lia.
Qed.

(* shape = input shape + (3,), element (idx, k) = channel k of the colour of element idx *)
Theorem color_array_layout (f : V -> V) (shape idx : list nat) (vs : list V) (k : nat) (d : T) :
  length vs = size shape -> valid shape idx -> k < 3 ->
  length (flat3 (map f vs)) = size (color_shape shape) /\
  nth (ravel (color_shape shape) (idx ++ [k])) (flat3 (map f vs)) d
  = comp k (f (nth (ravel shape idx) vs (d, d, d))).
Proof.
  intros Hl Hv Hk. unfold color_shape. split.
  - rewrite flat3_length, map_length, size_app, Hl. simpl. lia.
  - assert (Hvk : valid [3] [k]) by (constructor; [exact Hk | constructor]).
    rewrite (ravel_app shape [3] idx [k] Hv Hvk). simpl size. simpl ravel.
    replace (ravel shape idx * (3 * 1) + (k * 1 + 0)) with (ravel shape idx * 3 + k) by lia.
    pose proof (ravel_lt shape idx Hv) as Hlt.
    rewrite flat3_nth by (rewrite ?map_length; lia).
    assert (E : nth (ravel shape idx) (map f vs) (d, d, d) = f (nth (ravel shape idx) vs (d, d, d))).
    { rewrite (nth_indep (map f vs) (d, d, d) (f (d, d, d))) by (rewrite map_length; lia). apply map_nth. }
    rewrite E. replace (k * 1 + 0) with k by lia. reflexivity.
Qed.
End Shape.
