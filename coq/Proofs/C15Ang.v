(* C15 -- lemmas about the .ang reader model *)
From Coq Require Import ZArith List Bool String Ascii Lia.
From Verif Require Import Scalar C15Tables C15Common C15Ang.
Import ListNotations.
Local Open Scope string_scope.
Local Open Scope list_scope.

Section AngProofs.
Context {T : Type} (Op : Ops T).

(* ---------------------------------------------------------- list helpers *)
Lemma flat_map_nil {A B} (f : A -> list B) (l : list A) :
  (forall a, In a l -> f a = []) -> flat_map f l = [].
Proof.
  induction l as [|a l IH]; intros H; simpl; [reflexivity|].
  rewrite (H a (or_introl eq_refl)). simpl. apply IH. intros b Hb. apply H. right; exact Hb.
Qed.

Lemma flat_map_flat_map {A B C} (f : A -> list B) (g : B -> list C) (l : list A) :
  flat_map g (flat_map f l) = flat_map (fun a => flat_map g (f a)) l.
Proof. induction l; simpl; [reflexivity|]. rewrite flat_map_app, IHl. reflexivity. Qed.

Lemma flat_map_single {A B} (f : A -> B) (l : list A) : flat_map (fun a => [f a]) l = map f l.
Proof. induction l; simpl; congruence. Qed.

Lemma find_app_none {A} (p : A -> bool) (l1 l2 : list A) :
  find p l1 = None -> find p (l1 ++ l2) = find p l2.
Proof. induction l1; simpl; intros H; [reflexivity|]. destruct (p a); [discriminate|auto]. Qed.

Lemma zip3_map {A} (f g h : A -> T) (l : list A) :
  zip3 (map f l) (map g l) (map h l) = map (fun a => (f a, g a, h a)) l.
Proof. induction l; simpl; congruence. Qed.

Lemma combine_map {A B C} (f : A -> B) (g : A -> C) (l : list A) :
  combine (map f l) (map g l) = map (fun a => (f a, g a)) l.
Proof. induction l; simpl; congruence. Qed.

(* ------------------------------------------------ header -> phase fields *)
Definition info_like (l : angline (T:=T)) : Prop :=
  match l with ALInfo _ | ALCols _ => True | _ => False end.

Lemma info_contrib (l : angline (T:=T)) : info_like l ->
  line_ids l = [] /\ line_names l = [] /\ line_formulas l = [] /\ line_pgs l = [] /\ line_lats l = [].
Proof. destruct l; simpl; intros H; try contradiction; repeat split. Qed.

Definition opt_list {A} (o : option A) : list A := match o with Some a => [a] | None => [] end.

(* what one phase block contributes *)
Lemma phase_ids (p : aphase (T:=T)) : flat_map line_ids (render_phase p) = opt_list (ap_id p).
Proof.
  unfold render_phase. rewrite !flat_map_app. destruct (ap_id p); simpl;
  rewrite (flat_map_nil line_ids (map ALInfo (ap_info p))); try reflexivity;
  intros a Ha; apply in_map_iff in Ha; destruct Ha as [w [<- _]]; reflexivity.
Qed.

Lemma phase_names (p : aphase (T:=T)) : ap_name p <> [] ->
  flat_map line_names (render_phase p) = [join " " (ap_name p)].
Proof.
  intros Hn. unfold render_phase. rewrite !flat_map_app.
  rewrite (flat_map_nil line_names (map ALInfo (ap_info p))).
  2:{ intros a Ha; apply in_map_iff in Ha; destruct Ha as [w [<- _]]; reflexivity. }
  destruct (ap_id p); destruct (ap_name p) as [|w ws]; try congruence; simpl; reflexivity.
Qed.

Lemma phase_formulas (p : aphase (T:=T)) :
  flat_map line_formulas (render_phase p) = opt_list (ap_formula p).
Proof.
  unfold render_phase. rewrite !flat_map_app.
  rewrite (flat_map_nil line_formulas (map ALInfo (ap_info p))).
  2:{ intros a Ha; apply in_map_iff in Ha; destruct Ha as [w [<- _]]; reflexivity. }
  destruct (ap_id p); destruct (ap_formula p); simpl; reflexivity.
Qed.

Lemma phase_pgs (p : aphase (T:=T)) : flat_map line_pgs (render_phase p) = [ap_sym p].
Proof.
  unfold render_phase. rewrite !flat_map_app.
  rewrite (flat_map_nil line_pgs (map ALInfo (ap_info p))).
  2:{ intros a Ha; apply in_map_iff in Ha; destruct Ha as [w [<- _]]; reflexivity. }
  destruct (ap_id p); simpl; reflexivity.
Qed.

Lemma phase_lats (p : aphase (T:=T)) : flat_map line_lats (render_phase p) = [ap_lat p].
Proof.
  unfold render_phase. rewrite !flat_map_app.
  rewrite (flat_map_nil line_lats (map ALInfo (ap_info p))).
  2:{ intros a Ha; apply in_map_iff in Ha; destruct Ha as [w [<- _]]; reflexivity. }
  destruct (ap_id p); simpl; reflexivity.
Qed.

Lemma vendor_pre_info v : Forall info_like (vendor_pre (T:=T) v).
Proof. destruct v; simpl; repeat constructor. Qed.
Lemma vendor_post_info f : Forall info_like (vendor_post (T:=T) f).
Proof. unfold vendor_post; destruct (af_vendor f); simpl; repeat constructor. Qed.
Lemma map_info ws : Forall info_like (map (@ALInfo T) ws).
Proof. induction ws; simpl; constructor; simpl; auto. Qed.

Lemma info_nil {B} (g : angline (T:=T) -> list B) (l : list angline) :
  (forall a, info_like a -> g a = []) -> Forall info_like l -> flat_map g l = [].
Proof.
  intros Hg Hl. apply flat_map_nil. intros a Ha. apply Hg. rewrite Forall_forall in Hl. auto.
Qed.

(* a header field of the rendered file, key by key *)
Lemma hdr_field {B} (g : angline (T:=T) -> list B) (f : angfile (T:=T)) :
  (forall a, info_like a -> g a = []) ->
  flat_map g (render_hdr f) = flat_map (fun p => flat_map g (render_phase p)) (af_phases f).
Proof.
  intros Hg. unfold render_hdr. rewrite !flat_map_app.
  rewrite (info_nil g _ Hg (vendor_pre_info _)), (info_nil g _ Hg (map_info _)),
          (info_nil g _ Hg (map_info _)), (info_nil g _ Hg (vendor_post_info _)).
  simpl. rewrite app_nil_r. apply flat_map_flat_map.
Qed.

Definition wf_names (f : angfile (T:=T)) : Prop := Forall (fun p => ap_name p <> []) (af_phases f).

Lemma hdr_ids f : flat_map line_ids (render_hdr f) = flat_map (fun p => opt_list (ap_id p)) (af_phases f).
Proof.
  rewrite hdr_field by (intros a Ha; apply info_contrib in Ha; tauto).
  apply flat_map_ext. intros p. apply phase_ids.
Qed.
Lemma hdr_names f : wf_names f ->
  flat_map line_names (render_hdr f) = map (fun p => join " " (ap_name p)) (af_phases f).
Proof.
  intros Hw. rewrite hdr_field by (intros a Ha; apply info_contrib in Ha; tauto).
  rewrite <- flat_map_single. unfold wf_names in Hw. induction Hw; simpl; [reflexivity|].
  rewrite phase_names by assumption. simpl. congruence.
Qed.
Lemma hdr_formulas f :
  flat_map line_formulas (render_hdr f) = flat_map (fun p => opt_list (ap_formula p)) (af_phases f).
Proof.
  rewrite hdr_field by (intros a Ha; apply info_contrib in Ha; tauto).
  apply flat_map_ext. intros p. apply phase_formulas.
Qed.
Lemma hdr_pgs f : flat_map line_pgs (render_hdr f) = map ap_sym (af_phases f).
Proof.
  rewrite hdr_field by (intros a Ha; apply info_contrib in Ha; tauto).
  rewrite <- flat_map_single. apply flat_map_ext. intros p. apply phase_pgs.
Qed.
Lemma hdr_lats f : flat_map line_lats (render_hdr f) = map ap_lat (af_phases f).
Proof.
  rewrite hdr_field by (intros a Ha; apply info_contrib in Ha; tauto).
  rewrite <- flat_map_single. apply flat_map_ext. intros p. apply phase_lats.
Qed.

End AngProofs.
