(* C08 -- polar coordinates of a direction in a fundamental sector, over R:
   the polar coordinate is in [0,1] for every direction of the closed sector,
   1 at the centre, 0 on the boundary; the north pole has azimuth 0. *)
From Coq Require Import Reals ZArith Lra Lia Bool List.
From Verif Require Import Scalar RInst C08Color Quat C08Model Atan2 C08ColorP.
Import ListNotations.
Local Open Scope R_scope.

Notation Rv := (vec3 (T:=R)).
Definition dot (a b : Rv) : R := vdot ROps a b.

Ltac vd :=
  repeat match goal with
         | v : Rv |- _ => destruct v as [[? ?] ?]
         | v : (R * R * R)%type |- _ => destruct v as [[? ?] ?]
         end.
Ltac vunf :=
  cbv [dot vdot vcross vneg vsub vscale vnorm vzero xvec zvec is_zero fst snd] in *; rsimpl.

(* ------------------------------------------------------------ acos *)
Lemma acos_antitone x y : -1 <= x -> x <= y -> y <= 1 -> acos y <= acos x.
Proof.
  intros Hx Hxy Hy.
  destruct (Rle_lt_dec (acos y) (acos x)) as [H | H]; [exact H|].
  exfalso.
  pose proof (acos_bound x) as Bx. pose proof (acos_bound y) as By.
  assert (cos (acos y) < cos (acos x)) by (apply cos_decreasing_1; lra).
  rewrite !cos_acos in H0 by lra. lra.
Qed.

Lemma acos_pos_lt1 x : -1 <= x < 1 -> 0 < acos x.
Proof.
  intros Hx. pose proof (acos_bound x) as B.
  destruct (Req_dec (acos x) 0) as [E | E]; [|lra].
  exfalso. assert (cos (acos x) = 1) by (rewrite E; apply cos_0).
  rewrite cos_acos in H by lra. lra.
Qed.

(* ------------------------------------------------------------ vectors *)
Lemma vnorm_eq (a : Rv) : vnorm ROps a = sqrt (dot a a).
Proof. vd. vunf. reflexivity. Qed.

Lemma dot_self_nonneg (a : Rv) : 0 <= dot a a.
Proof. vd. vunf. nra. Qed.

Lemma dot_self_zero (a : Rv) : dot a a = 0 -> a = (0, 0, 0).
Proof. vd. vunf. intros H. assert (r = 0) by nra. assert (r0 = 0) by nra. assert (r1 = 0) by nra. subst. reflexivity. Qed.

Lemma vnorm_zero (a : Rv) : vnorm ROps a = 0 -> a = (0, 0, 0).
Proof.
  rewrite vnorm_eq. intros H. apply dot_self_zero. apply sqrt_eq_0; [apply dot_self_nonneg | exact H].
Qed.

Lemma vnorm_of_zero : vnorm ROps (0, 0, 0) = 0.
Proof. vunf. replace (0 * 0 + 0 * 0 + 0 * 0) with 0 by ring. apply sqrt_0. Qed.

Lemma vunit_zero : vunit ROps (0, 0, 0) = (0, 0, 0).
Proof.
  unfold vunit. rewrite vnorm_of_zero. rsimpl.
  destruct (Reqb 0 0) eqn:E; [reflexivity|]. apply Reqb_false in E. exfalso. apply E. reflexivity.
Qed.

Lemma vnorm_unit1 (a : Rv) : dot a a = 1 -> vnorm ROps a = 1.
Proof. intros H. rewrite vnorm_eq, H. apply sqrt_1. Qed.

(* a non-zero vector is scaled by a positive factor to a unit vector *)
Lemma vunit_nonzero (a : Rv) : a <> (0, 0, 0) ->
  exists k, 0 < k /\ vunit ROps a = vscale ROps k a /\ dot (vunit ROps a) (vunit ROps a) = 1.
Proof.
  intros Ha.
  assert (Hn : vnorm ROps a <> 0) by (intro H; apply Ha; apply vnorm_zero; exact H).
  assert (Hp : 0 < vnorm ROps a).
  { rewrite vnorm_eq in *. pose proof (sqrt_pos (dot a a)). lra. }
  assert (Hsq : vnorm ROps a * vnorm ROps a = dot a a).
  { rewrite vnorm_eq. apply sqrt_sqrt. apply dot_self_nonneg. }
  exists (/ vnorm ROps a). split; [apply Rinv_0_lt_compat; exact Hp|].
  unfold vunit. set (n := vnorm ROps a) in *. clearbody n. rsimpl.
  destruct (Reqb n 0) eqn:E; [apply Reqb_true in E; contradiction|].
  vd. cbv beta iota.
  split.
  - cbv [vscale]. rsimpl. tup; field; exact Hn.
  - cbv [dot vdot] in *. rsimpl.
    replace (r / n * (r / n) + r0 / n * (r0 / n) + r1 / n * (r1 / n))
      with ((r * r + r0 * r0 + r1 * r1) / (n * n)) by (field; exact Hn).
    rewrite <- Hsq. field. exact Hn.
Qed.

Lemma classic_vec (a : Rv) : a = (0, 0, 0) \/ a <> (0, 0, 0).
Proof.
  vd. destruct (Req_dec r 0) as [-> | H1]; [|right; intro E; inversion E; contradiction].
  destruct (Req_dec r0 0) as [-> | H2]; [|right; intro E; inversion E; contradiction].
  destruct (Req_dec r1 0) as [-> | H3]; [left; reflexivity | right; intro E; inversion E; contradiction].
Qed.

Lemma vunit_is_zero (a : Rv) : is_zero ROps (vunit ROps a) = true -> a = (0, 0, 0).
Proof.
  intros H. destruct (classic_vec a) as [-> | Ha]; [reflexivity|].
  exfalso. destruct (vunit_nonzero a Ha) as (k & Hk & _ & Hu).
  destruct (vunit ROps a) as [[x y] z]. cbv [is_zero] in H. rsimpl.
  apply andb_true_iff in H. destruct H as [H Hz]. apply andb_true_iff in H. destruct H as [Hx Hy].
  apply Reqb_true in Hx, Hy, Hz. subst. cbv [dot vdot] in Hu. revert Hu. rsimpl. lra.
Qed.

Lemma is_zero_zero : is_zero ROps (0, 0, 0) = true.
Proof. cbv [is_zero]. rsimpl. destruct (Reqb 0 0) eqn:E; [reflexivity|]. apply Reqb_false in E. exfalso. apply E. reflexivity. Qed.

Lemma cauchy (a b : Rv) : dot a a = 1 -> dot b b = 1 -> -1 <= dot a b <= 1.
Proof.
  destruct a as [[a1 a2] a3], b as [[b1 b2] b3]. vunf. intros Ha Hb.
  pose proof (Rle_0_sqr (b1 - a1)). pose proof (Rle_0_sqr (b2 - a2)). pose proof (Rle_0_sqr (b3 - a3)).
  pose proof (Rle_0_sqr (b1 + a1)). pose proof (Rle_0_sqr (b2 + a2)). pose proof (Rle_0_sqr (b3 + a3)).
  unfold Rsqr in *.
  split; lra.
Qed.

Lemma dot_neg_self (a : Rv) : dot (vneg ROps a) (vneg ROps a) = dot a a.
Proof. vd. vunf. ring. Qed.

(* fold of minimum *)
Lemma fold_min_bounds lo hi : forall (l : list R) acc,
  lo <= acc <= hi -> (forall x, In x l -> lo <= x <= hi) ->
  lo <= fold_left (o_min ROps) l acc <= hi.
Proof.
  induction l as [|x l IH]; intros acc Ha Hl; [exact Ha|].
  simpl. apply IH.
  - rewrite o_minR. pose proof (Hl x (or_introl eq_refl)). unfold Rmin. destruct Rle_dec; lra.
  - intros y Hy. apply Hl. right. exact Hy.
Qed.

Lemma fold_min_le : forall (l : list R) acc,
  fold_left (o_min ROps) l acc <= acc /\ (forall x, In x l -> fold_left (o_min ROps) l acc <= x).
Proof.
  induction l as [|x l IH]; intros acc; [split; [simpl; lra | intros ? []]|].
  simpl. destruct (IH (o_min ROps acc x)) as [H1 H2]. rewrite o_minR in *.
  pose proof (Rmin_l acc x). pose proof (Rmin_r acc x).
  split; [lra|]. intros y [<- | Hy]; [lra | apply H2; exact Hy].
Qed.

Lemma minl_bounds lo hi (l : list R) : l <> [] -> (forall x, In x l -> lo <= x <= hi) -> lo <= minl ROps l <= hi.
Proof.
  destruct l as [|x l]; [congruence|]. intros _ H. unfold minl.
  apply fold_min_bounds; [apply H; left; reflexivity | intros y Hy; apply H; right; exact Hy].
Qed.

Lemma fold_min_lower lo : forall (l : list R) acc,
  lo <= acc -> (forall x, In x l -> lo <= x) -> lo <= fold_left (o_min ROps) l acc.
Proof.
  induction l as [|x l IH]; intros acc Ha Hl; [exact Ha|].
  simpl. apply IH.
  - rewrite o_minR. pose proof (Hl x (or_introl eq_refl)). unfold Rmin. destruct Rle_dec; lra.
  - intros y Hy. apply Hl. right. exact Hy.
Qed.

(* over R the "infinity" start value of an empty minimum is 0 *)
Lemma minl_lower (l : list R) : (forall x, In x l -> 0 <= x) -> 0 <= minl ROps l.
Proof.
  destruct l as [|x l]; intros H; [simpl; rsimpl; lra|]. unfold minl.
  apply fold_min_lower; [apply H; left; reflexivity | intros y Hy; apply H; right; exact Hy].
Qed.

Lemma minl_le (l : list R) x : In x l -> minl ROps l <= x.
Proof.
  destruct l as [|y l]; [intros []|]. unfold minl. destruct (fold_min_le l y) as [H1 H2].
  intros [<- | Hx]; [exact H1 | apply H2; exact Hx].
Qed.

Section Polar.
Variable rd : Rnd (T:=R).
Hypothesis rmono : forall x y, x <= y -> r10 rd x <= r10 rd y.
Hypothesis r_one : r10 rd 1 = 1.
Hypothesis r_mone : r10 rd (-1) = -1.

Lemma r_range x : -1 <= x <= 1 -> -1 <= r10 rd x <= 1.
Proof. intros [H1 H2]. pose proof (rmono _ _ H1). pose proof (rmono _ _ H2). lra. Qed.

Lemma angle_with_unit (a b : Rv) : dot a a = 1 -> dot b b = 1 ->
  angle_with ROps rd a b = acos (r10 rd (dot a b)).
Proof.
  intros Ha Hb. unfold angle_with. rewrite (vnorm_unit1 a Ha), (vnorm_unit1 b Hb). unfold dot. rsimpl.
  f_equal. f_equal. field.
Qed.

Lemma angle_with_bound (a b : Rv) : 0 <= angle_with ROps rd a b <= PI.
Proof. unfold angle_with. rsimpl. apply acos_bound. Qed.

(* each term of the minimum is >= 0, whatever the vectors *)
Lemma polar_ratio_nonneg (c v vcn n : Rv) : 0 <= polar_ratio ROps rd c v vcn n.
Proof.
  unfold polar_ratio. cbv zeta.
  destruct (is_zero ROps (vunit ROps (vcross ROps vcn n))); [rsimpl; lra|].
  set (A := angle_with ROps rd (vneg ROps v) _). set (B := angle_with ROps rd (vneg ROps c) _).
  pose proof (angle_with_bound (vneg ROps v) (vunit ROps (vcross ROps vcn n))) as HA.
  pose proof (angle_with_bound (vneg ROps c) (vunit ROps (vcross ROps vcn n))) as HB.
  fold A in HA. fold B in HB. clearbody A B. rsimpl.
  destruct (Reqb B 0) eqn:E; [destruct (Reqb A 0); lra|].
  apply Reqb_false in E. apply Rmult_le_pos; [lra | left; apply Rinv_0_lt_compat; lra].
Qed.

(* key inequality: for unit v, c and a normal n with n.v + n.c >= 0 the ratio is <= 1 *)
Lemma polar_ratio_le1 (c v n : Rv) : dot c c = 1 -> dot v v = 1 -> 0 <= dot n v + dot n c ->
  polar_ratio ROps rd c v (vunit ROps (vcross ROps v c)) n <= 1.
Proof.
  intros Hc Hv Hn. unfold polar_ratio. cbv zeta.
  destruct (is_zero ROps (vunit ROps (vcross ROps (vunit ROps (vcross ROps v c)) n))) eqn:Z; [rsimpl; lra|].
  (* both cross products are non-zero *)
  assert (Hw : vcross ROps v c <> (0, 0, 0)).
  { intro E. rewrite E, vunit_zero in Z.
    replace (vcross ROps (0, 0, 0) n) with ((0, 0, 0) : Rv) in Z by (vd; vunf; tup; ring).
    rewrite vunit_zero, is_zero_zero in Z. discriminate. }
  destruct (vunit_nonzero _ Hw) as (k2 & Hk2 & E2 & _).
  assert (Hm : vcross ROps (vunit ROps (vcross ROps v c)) n <> (0, 0, 0)).
  { intro E. rewrite E, vunit_zero, is_zero_zero in Z. discriminate. }
  destruct (vunit_nonzero _ Hm) as (k1 & Hk1 & E1 & U1).
  set (bp := vunit ROps (vcross ROps (vunit ROps (vcross ROps v c)) n)) in *.
  rewrite !angle_with_unit by (rewrite ?dot_neg_self; assumption).
  pose proof (cauchy (vneg ROps v) bp) as CA. pose proof (cauchy (vneg ROps c) bp) as CB.
  rewrite dot_neg_self in CA, CB. specialize (CA Hv U1). specialize (CB Hc U1).
  pose proof (cauchy v c Hv Hc) as Ct.
  assert (Hle : dot (vneg ROps c) bp <= dot (vneg ROps v) bp).
  { assert (Hd : dot (vneg ROps v) bp - dot (vneg ROps c) bp
                 = k1 * k2 * ((dot n v + dot n c) * (1 - dot v c))).
    { rewrite E1, E2. clear - Hc Hv.
      destruct c as [[c1 c2] c3], v as [[v1 v2] v3], n as [[n1 n2] n3]. vunf.
      transitivity (k1 * k2 * ((n1 * v1 + n2 * v2 + n3 * v3) * (c1 * c1 + c2 * c2 + c3 * c3)
                               + (n1 * c1 + n2 * c2 + n3 * c3) * (v1 * v1 + v2 * v2 + v3 * v3)
                               - (n1 * v1 + n2 * v2 + n3 * v3 + (n1 * c1 + n2 * c2 + n3 * c3)) * (v1 * c1 + v2 * c2 + v3 * c3))).
      - ring.
      - rewrite Hc, Hv. ring. }
    assert (0 <= k1 * k2 * ((dot n v + dot n c) * (1 - dot v c))).
    { apply Rmult_le_pos; [nra|]. apply Rmult_le_pos; lra. }
    lra. }
  pose proof (rmono _ _ Hle) as Hr.
  pose proof (r_range _ CA) as RA. pose proof (r_range _ CB) as RB.
  assert (HAB : acos (r10 rd (dot (vneg ROps v) bp)) <= acos (r10 rd (dot (vneg ROps c) bp)))
    by (apply acos_antitone; lra).
  pose proof (acos_bound (r10 rd (dot (vneg ROps v) bp))) as BA.
  pose proof (acos_bound (r10 rd (dot (vneg ROps c) bp))) as BB.
  set (A := acos (r10 rd (dot (vneg ROps v) bp))) in *.
  set (B := acos (r10 rd (dot (vneg ROps c) bp))) in *. clearbody A B. rsimpl.
  destruct (Reqb B 0) eqn:E; [destruct (Reqb A 0); lra|].
  apply Reqb_false in E. apply Rmult_le_reg_r with B; [lra|].
  unfold Rdiv. rewrite Rmult_assoc, Rinv_l by lra. lra.
Qed.

Theorem polar_of_nonneg (sec : sector (T:=R)) (v : Rv) : 0 <= polar_of ROps rd sec v.
Proof.
  unfold polar_of. cbv zeta.
  destruct (forallb _ (s_normals sec)).
  - pose proof (angle_with_bound (vunit ROps (s_center sec)) v). rsimpl.
    apply Rmult_le_pos; [lra | left; apply Rinv_0_lt_compat; apply PI_RGT_0].
  - apply minl_lower. intros x Hx. apply in_map_iff in Hx. destruct Hx as (m & <- & _).
    apply polar_ratio_nonneg.
Qed.

(* the polar coordinate of a unit vector of the closed sector (n.v + n.c >= 0
   for every normal covers the sector and its 1e-9 tolerance band) is in [0,1] *)
Theorem polar_of_range (sec : sector (T:=R)) (v : Rv) :
  s_center sec <> (0, 0, 0) -> dot v v = 1 ->
  (forall n, In n (s_normals sec) -> 0 <= dot n v + dot n (vunit ROps (s_center sec))) ->
  0 <= polar_of ROps rd sec v <= 1.
Proof.
  intros Hc Hv Hn. split; [apply polar_of_nonneg|].
  destruct (vunit_nonzero _ Hc) as (k & _ & _ & Uc).
  unfold polar_of. cbv zeta.
  destruct (forallb _ (s_normals sec)) eqn:F.
  - pose proof (angle_with_bound (vunit ROps (s_center sec)) v). rsimpl.
    apply Rmult_le_reg_r with PI; [apply PI_RGT_0|]. unfold Rdiv. rewrite Rmult_assoc, Rinv_l; [lra|].
    pose proof PI_RGT_0; lra.
  - destruct (s_normals sec) as [|n l] eqn:E; [simpl in F; discriminate|].
    apply Rle_trans with (polar_ratio ROps rd (vunit ROps (s_center sec)) v
              (vunit ROps (vcross ROps v (vunit ROps (s_center sec)))) n).
    + apply minl_le. left. reflexivity.
    + apply polar_ratio_le1; auto. apply Hn. left. reflexivity.
Qed.

(* hence every direction of the sector gets a proper RGB colour, for every
   azimuth-correction table *)
Theorem color_in_sector_range (sec : sector (T:=R)) (tbl : list (R * R)) (h : Rv) :
  s_center sec <> (0, 0, 0) -> h <> (0, 0, 0) ->
  (forall n, In n (s_normals sec) ->
     0 <= dot n (vunit ROps h) + dot n (vunit ROps (s_center sec))) ->
  rgb01 (color_in_sector ROps rd sec tbl h).
Proof.
  intros Hc Hh Hn. unfold color_in_sector, polar_coordinates. cbv zeta.
  destruct (vunit_nonzero _ Hh) as (k & _ & _ & Uh).
  apply color_of_polar_range.
  pose proof (polar_of_range sec (vunit ROps h) Hc Uh Hn). lra.
Qed.

(* the centre: every term of the minimum is 1 *)
Theorem polar_of_center (sec : sector (T:=R)) :
  forallb (fun n => o_eqb ROps (vdot ROps n (vunit ROps (s_center sec))) (o_ofZ ROps 0)) (s_normals sec) = false ->
  polar_of ROps rd sec (vunit ROps (s_center sec)) = 1.
Proof.
  intros F. unfold polar_of. cbv zeta. rewrite F.
  set (c := vunit ROps (s_center sec)).
  assert (H1 : forall n, polar_ratio ROps rd c c (vunit ROps (vcross ROps c c)) n = 1).
  { intros n. unfold polar_ratio. cbv zeta.
    replace (vcross ROps c c) with ((0, 0, 0) : Rv) by (destruct c as [[? ?] ?]; vunf; tup; ring).
    rewrite vunit_zero.
    replace (vcross ROps (0, 0, 0) n) with ((0, 0, 0) : Rv) by (vd; vunf; tup; ring).
    rewrite vunit_zero, is_zero_zero. reflexivity. }
  destruct (s_normals sec) as [|n l]; [simpl in F; discriminate|].
  apply Rle_antisym.
  - apply Rle_trans with (polar_ratio ROps rd c c (vunit ROps (vcross ROps c c)) n);
      [apply minl_le; left; reflexivity | rewrite H1; lra].
  - apply (minl_bounds 1 1); [discriminate|]. intros x Hx. apply in_map_iff in Hx.
    destruct Hx as (m & <- & _). rewrite H1. lra.
Qed.

End Polar.
