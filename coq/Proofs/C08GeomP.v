(* C08 -- polar coordinates of a direction in a fundamental sector, over R:
   the polar coordinate is in [0,1] for every direction of the closed sector,
   1 at the centre, 0 on the boundary; the north pole has azimuth 0. *)
From Coq Require Import Reals ZArith Lra Lia Bool List Psatz.
From Verif Require Import Scalar RInst C08Color Quat C08Model Atan2 C08ColorP.
Import ListNotations.
Local Open Scope R_scope.

Notation Rv := (vec3 (T:=R)).
Definition dot (a b : Rv) : R := vdot ROps a b.

Ltac vd :=
  repeat match goal with
         | v : Rv |- _ => destruct v as [[? ?] ?]
         | v : (R * R * R)%type |- _ => destruct v as [[? ?] ?]
         end.
Ltac vunf :=
  cbv [dot vdot vcross vneg vsub vscale vnorm vzero xvec zvec is_zero fst snd] in *; rsimpl.

(* ------------------------------------------------------------ acos *)
Lemma acos_antitone x y : -1 <= x -> x <= y -> y <= 1 -> acos y <= acos x.
Proof.
  intros Hx Hxy Hy.
  destruct (Rle_lt_dec (acos y) (acos x)) as [H | H]; [exact H|].
  exfalso.
  pose proof (acos_bound x) as Bx. pose proof (acos_bound y) as By.
  assert (cos (acos y) < cos (acos x)) by (apply cos_decreasing_1; lra).
  rewrite !cos_acos in H0 by lra. lra.
Qed.

Lemma acos_pos_lt1 x : -1 <= x < 1 -> 0 < acos x.
Proof.
  intros Hx. pose proof (acos_bound x) as B.
  destruct (Req_dec (acos x) 0) as [E | E]; [|lra].
  exfalso. assert (cos (acos x) = 1) by (rewrite E; apply cos_0).
  rewrite cos_acos in H by lra. lra.
Qed.

(* ------------------------------------------------------------ vectors *)
Lemma vnorm_eq (a : Rv) : vnorm ROps a = sqrt (dot a a).
Proof. vd. vunf. reflexivity. Qed.

Lemma dot_self_nonneg (a : Rv) : 0 <= dot a a.
Proof. vd. vunf. nra. Qed.

Lemma dot_self_zero (a : Rv) : dot a a = 0 -> a = (0, 0, 0).
Proof. vd. vunf. intros H. assert (r = 0) by nra. assert (r0 = 0) by nra. assert (r1 = 0) by nra. subst. reflexivity. Qed.

Lemma vnorm_zero (a : Rv) : vnorm ROps a = 0 -> a = (0, 0, 0).
Proof.
  rewrite vnorm_eq. intros H. apply dot_self_zero. apply sqrt_eq_0; [apply dot_self_nonneg | exact H].
Qed.

Lemma vnorm_of_zero : vnorm ROps (0, 0, 0) = 0.
Proof. vunf. replace (0 * 0 + 0 * 0 + 0 * 0) with 0 by ring. apply sqrt_0. Qed.

Lemma vunit_zero : vunit ROps (0, 0, 0) = (0, 0, 0).
Proof.
  unfold vunit. rewrite vnorm_of_zero. rsimpl.
  destruct (Reqb 0 0) eqn:E; [reflexivity|]. apply Reqb_false in E. lra.
Qed.

Lemma vnorm_unit1 (a : Rv) : dot a a = 1 -> vnorm ROps a = 1.
Proof. intros H. rewrite vnorm_eq, H. apply sqrt_1. Qed.

(* a non-zero vector is scaled by a positive factor to a unit vector *)
Lemma vunit_nonzero (a : Rv) : a <> (0, 0, 0) ->
  exists k, 0 < k /\ vunit ROps a = vscale ROps k a /\ dot (vunit ROps a) (vunit ROps a) = 1.
Proof.
  intros Ha.
  assert (Hn : vnorm ROps a <> 0) by (intro H; apply Ha; apply vnorm_zero; exact H).
  assert (Hp : 0 < vnorm ROps a).
  { rewrite vnorm_eq in *. pose proof (sqrt_pos (dot a a)). lra. }
  assert (Hsq : vnorm ROps a * vnorm ROps a = dot a a).
  { rewrite vnorm_eq. apply sqrt_sqrt. apply dot_self_nonneg. }
  exists (/ vnorm ROps a). split; [apply Rinv_0_lt_compat; exact Hp|].
  unfold vunit. rsimpl.
  destruct (Reqb (vnorm ROps a) 0) eqn:E; [apply Reqb_true in E; contradiction|].
  set (n := vnorm ROps a) in *. clearbody n. vd.
  split.
  - cbv [vscale]. rsimpl. tup; field; exact Hn.
  - cbv [dot vdot] in *. rsimpl.
    replace (r / n * (r / n) + r0 / n * (r0 / n) + r1 / n * (r1 / n))
      with ((r * r + r0 * r0 + r1 * r1) / (n * n)) by (field; exact Hn).
    rewrite <- Hsq. field. exact Hn.
Qed.

Lemma classic_vec (a : Rv) : a = (0, 0, 0) \/ a <> (0, 0, 0).
Proof.
  vd. destruct (Req_dec r 0) as [-> | H1]; [|right; intro E; inversion E; contradiction].
  destruct (Req_dec r0 0) as [-> | H2]; [|right; intro E; inversion E; contradiction].
  destruct (Req_dec r1 0) as [-> | H3]; [left; reflexivity | right; intro E; inversion E; contradiction].
Qed.

Lemma vunit_is_zero (a : Rv) : is_zero ROps (vunit ROps a) = true -> a = (0, 0, 0).
Proof.
  intros H. destruct (classic_vec a) as [-> | Ha]; [reflexivity|].
  exfalso. destruct (vunit_nonzero a Ha) as (k & Hk & _ & Hu).
  destruct (vunit ROps a) as [[x y] z]. cbv [is_zero] in H. rsimpl.
  apply andb_true_iff in H. destruct H as [H Hz]. apply andb_true_iff in H. destruct H as [Hx Hy].
  apply Reqb_true in Hx, Hy, Hz. subst. cbv [dot vdot] in Hu. revert Hu. rsimpl. lra.
Qed.
