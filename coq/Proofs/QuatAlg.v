(* Algebra of the generated quaternion kernels over the reals (C02, C18). *)
From Coq Require Import Reals ZArith Lra Nsatz Bool.
From Verif Require Import Scalar RInst QuatKernels Conversions Quat.
Local Open Scope R_scope.

Notation Rq := (quat (T:=R)).
Notation Rv := (vec3 (T:=R)).

Ltac qdestruct :=
  repeat match goal with
         | q : (R * R * R * R)%type |- _ => destruct q as [[[? ?] ?] ?]
         | v : (R * R * R)%type |- _ => destruct v as [[? ?] ?]
         | q : quat |- _ => destruct q as [[[? ?] ?] ?]
         | v : vec3 |- _ => destruct v as [[? ?] ?]
         | r : rot |- _ => destruct r as [[[[? ?] ?] ?] ?]
         end.

Ltac qunfold :=
  cbv [qmul qconj qrot qneg qnorm2 qdot qone qscale vdot vneg vcross mvec mcol mmul mtrans
       mid mdet qu2om rmul rinv rneg ract fst snd
       qu_multiply_gufunc qu_conj_gufunc qu_rotate_vec_gufunc qu2om_single] in *;
  rsimpl.

Ltac tuple_eq := repeat match goal with |- (_, _) = (_, _) => apply f_equal2 end; try reflexivity.

Lemma qmul_assoc (p q r : Rq) : qmul ROps (qmul ROps p q) r = qmul ROps p (qmul ROps q r).
Proof. qdestruct; qunfold; tuple_eq; ring. Qed.

Lemma qnorm2_mul (p q : Rq) : qnorm2 ROps (qmul ROps p q) = qnorm2 ROps p * qnorm2 ROps q.
Proof. qdestruct; qunfold; ring. Qed.

Lemma qmul_unit (p q : Rq) :
  qnorm2 ROps p = 1 -> qnorm2 ROps q = 1 -> qnorm2 ROps (qmul ROps p q) = 1.
Proof. intros Hp Hq; rewrite qnorm2_mul, Hp, Hq; ring. Qed.

Lemma qnorm2_conj (q : Rq) : qnorm2 ROps (qconj ROps q) = qnorm2 ROps q.
Proof. qdestruct; qunfold; ring. Qed.

Lemma qmul_conj_r (q : Rq) : qmul ROps q (qconj ROps q) = qscale ROps (qnorm2 ROps q) (qone ROps).
Proof. qdestruct; qunfold; tuple_eq; ring. Qed.

Lemma qmul_conj_l (q : Rq) : qmul ROps (qconj ROps q) q = qscale ROps (qnorm2 ROps q) (qone ROps).
Proof. qdestruct; qunfold; tuple_eq; ring. Qed.

Lemma qmul_conj_unit (q : Rq) : qnorm2 ROps q = 1 -> qmul ROps q (qconj ROps q) = qone ROps.
Proof. intros H; rewrite qmul_conj_r, H; qunfold; tuple_eq; ring. Qed.

Lemma qconj_mul (p q : Rq) : qconj ROps (qmul ROps p q) = qmul ROps (qconj ROps q) (qconj ROps p).
Proof. qdestruct; qunfold; tuple_eq; ring. Qed.

Lemma qconj_invol (q : Rq) : qconj ROps (qconj ROps q) = q.
Proof. qdestruct; qunfold; tuple_eq; ring. Qed.

Lemma qmul_one_l (q : Rq) : qmul ROps (qone ROps) q = q.
Proof. qdestruct; qunfold; tuple_eq; ring. Qed.
Lemma qmul_one_r (q : Rq) : qmul ROps q (qone ROps) = q.
Proof. qdestruct; qunfold; tuple_eq; ring. Qed.

(* rotation of vectors *)
Lemma qrot_one (v : Rv) : qrot ROps (qone ROps) v = v.
Proof. qdestruct; qunfold; tuple_eq; ring. Qed.

Lemma qrot_neg (q : Rq) (v : Rv) : qrot ROps (qneg ROps q) v = qrot ROps q v.
Proof. qdestruct; qunfold; tuple_eq; ring. Qed.

Lemma qrot_mul (p q : Rq) (v : Rv) :
  qnorm2 ROps p = 1 -> qnorm2 ROps q = 1 ->
  qrot ROps (qmul ROps p q) v = qrot ROps p (qrot ROps q v).
Proof. qdestruct; qunfold; intros Hp Hq; tuple_eq; nsatz. Qed.

Lemma qrot_dot (q : Rq) (u v : Rv) :
  qnorm2 ROps q = 1 -> vdot ROps (qrot ROps q u) (qrot ROps q v) = vdot ROps u v.
Proof. qdestruct; qunfold; intros Hq; nsatz. Qed.

Lemma qrot_conj_cancel (q : Rq) (v : Rv) :
  qnorm2 ROps q = 1 -> qrot ROps (qconj ROps q) (qrot ROps q v) = v.
Proof. qdestruct; qunfold; intros Hq; tuple_eq; nsatz. Qed.

Lemma qrot_vneg (q : Rq) (v : Rv) : qrot ROps q (vneg ROps v) = vneg ROps (qrot ROps q v).
Proof. qdestruct; qunfold; tuple_eq; ring. Qed.

Lemma qrot_cross (q : Rq) (u v : Rv) :
  qnorm2 ROps q = 1 ->
  vcross ROps (qrot ROps q u) (qrot ROps q v) = qrot ROps q (vcross ROps u v).
Proof. qdestruct; qunfold; intros Hq; tuple_eq; nsatz. Qed.

(* orientation matrices *)
Lemma qu2om_action (q : Rq) (v : Rv) :
  qnorm2 ROps q = 1 -> mvec ROps (qu2om ROps q) v = qrot ROps q v.
Proof. qdestruct; qunfold; intros Hq; tuple_eq; nsatz. Qed.

Lemma qu2om_mul (p q : Rq) :
  qu2om ROps (qmul ROps p q) = mmul ROps (qu2om ROps p) (qu2om ROps q).
Proof. qdestruct; qunfold; tuple_eq; ring. Qed.

Lemma qu2om_orthogonal (q : Rq) :
  qnorm2 ROps q = 1 -> mmul ROps (qu2om ROps q) (mtrans (qu2om ROps q)) = mid ROps.
Proof. qdestruct; qunfold; intros Hq; tuple_eq; nsatz. Qed.

Lemma qu2om_det (q : Rq) : qnorm2 ROps q = 1 -> mdet ROps (qu2om ROps q) = 1.
Proof. qdestruct; qunfold; intros Hq; nsatz. Qed.

Lemma qu2om_neg (q : Rq) : qu2om ROps (qneg ROps q) = qu2om ROps q.
Proof. qdestruct; qunfold; tuple_eq; ring. Qed.

(* improper rotations: proper part followed by inversion, parity algebra *)
Notation Rr := (rot (T:=R)).
Lemma ract_mul (r s : Rr) (v : Rv) :
  qnorm2 ROps (fst r) = 1 -> qnorm2 ROps (fst s) = 1 ->
  ract ROps (rmul ROps r s) v = ract ROps r (ract ROps s v).
Proof.
  destruct r as [p i], s as [q j]; cbn [fst snd]; intros Hp Hq.
  unfold ract, rmul; cbn [fst snd]. rewrite (qrot_mul p q v Hp Hq).
  destruct i, j; cbn [xorb]; rewrite ?qrot_vneg; try reflexivity.
  destruct (qrot ROps p (qrot ROps q v)) as [[x y] z]; cbv [vneg]; rsimpl; tuple_eq; ring.
Qed.

Lemma ract_inv (r : Rr) (v : Rv) :
  qnorm2 ROps (fst r) = 1 -> ract ROps (rinv ROps r) (ract ROps r v) = v.
Proof.
  destruct r as [p i]; cbn [fst snd]; intros Hp. unfold ract, rinv; cbn [fst snd].
  destruct i; rewrite ?qrot_vneg, qrot_conj_cancel by assumption; try reflexivity.
  destruct v as [[x y] z]; cbv [vneg]; rsimpl; tuple_eq; ring.
Qed.

Lemma rmul_parity (r s : Rr) : snd (rmul ROps r s) = xorb (snd r) (snd s).
Proof. reflexivity. Qed.
Lemma rinv_parity (r : Rr) : snd (rinv ROps r) = snd r.
Proof. reflexivity. Qed.
Lemma rneg_parity (r : Rr) : snd (rneg r) = negb (snd r).
Proof. reflexivity. Qed.
Lemma ract_neg (r : Rr) (v : Rv) : ract ROps (rneg r) v = vneg ROps (ract ROps r v).
Proof.
  destruct r as [p i]; unfold ract, rneg; cbn [fst snd]. destruct i; cbn [negb]; try reflexivity.
  destruct (qrot ROps p v) as [[x y] z]; cbv [vneg]; rsimpl; tuple_eq; ring.
Qed.
Lemma ract_dot (r : Rr) (u v : Rv) :
  qnorm2 ROps (fst r) = 1 -> vdot ROps (ract ROps r u) (ract ROps r v) = vdot ROps u v.
Proof.
  destruct r as [p i]; cbn [fst snd]; intros Hp. unfold ract; cbn [fst snd].
  destruct i; [|apply qrot_dot; assumption].
  rewrite <- (qrot_dot p u v Hp).
  destruct (qrot ROps p u) as [[a b] c], (qrot ROps p v) as [[x y] z]; cbv [vneg vdot]; rsimpl; ring.
Qed.
