(* C14 -- the header written from the phase list is read back as the same
   phases (renumbered 1..n in list order, names, proper point groups through
   the alias table, '%.3f' lattice constants), and the vendor detection finds
   the orix footprint and the extra column names. *)
From Coq Require Import ZArith String Ascii List Bool Lia.
From Verif Require Import C14Ang C14Lemmas.
Import ListNotations.
Open Scope Z_scope.

(* ---------------------------------------------------------------- words *)
Fixpoint nospace (s : string) : bool :=
  match s with EmptyString => true | String c r => negb (is_ws c) && nospace r end.

Lemma string_app_assoc : forall a b c : string, ((a ++ b) ++ c = a ++ (b ++ c))%string.
Proof. induction a; intros; simpl; [reflexivity | rewrite IHa; reflexivity]. Qed.
Lemma string_app_nil_r : forall a : string, (a ++ "" = a)%string.
Proof. induction a; simpl; [reflexivity | rewrite IHa; reflexivity]. Qed.
Lemma sempty_app_false : forall a c b, sempty (a ++ String c b) = false.
Proof. destruct a; reflexivity. Qed.

Lemma words_go_nospace : forall s acc, nospace s = true -> sempty (acc ++ s) = false ->
  words_go acc s = [(acc ++ s)%string].
Proof.
  induction s as [|c r IH]; intros acc Hn He; simpl in *.
  - rewrite string_app_nil_r in *. rewrite He. reflexivity.
  - apply andb_prop in Hn. destruct Hn as [Hc Hr]. apply negb_true_iff in Hc. rewrite Hc.
    rewrite IH; [| exact Hr |].
    + rewrite string_app_assoc. reflexivity.
    + rewrite string_app_assoc. simpl. apply sempty_app_false.
Qed.

(* a non-empty name without blanks is one word *)
Lemma words_nospace : forall s, nospace s = true -> sempty s = false -> words s = [s].
Proof. intros s Hn He. unfold words. rewrite words_go_nospace; simpl; auto. Qed.

(* a name that survives the header: not empty, equal to its words joined by
   single blanks (no leading / trailing / repeated blanks, no tabs) and not
   containing the footprint of the column-names line.  Names may contain
   blanks. *)
Definition name_ok (s : string) : Prop :=
  sempty s = false /\ unwords (words s) = s /\ contains fp_orix s = false.

Lemma name_ok_words : forall s, name_ok s -> words s <> [].
Proof.
  intros s [He [Hw _]] E. rewrite E in Hw. simpl in Hw. subst s. discriminate.
Qed.

(* ---------------------------------------------------------------- footprint *)
Lemma is_prefix_fp_nospace : forall s, nospace s = true -> is_prefix fp_orix s = false.
Proof.
  intros s H. unfold fp_orix.
  destruct s as [|c0 s]; [reflexivity|]. simpl in H. apply andb_prop in H. destruct H as [_ H].
  destruct s as [|c1 s]; [simpl; repeat rewrite ?andb_false_r; reflexivity|]. simpl in H. apply andb_prop in H. destruct H as [_ H].
  destruct s as [|c2 s]; [simpl; repeat rewrite ?andb_false_r; reflexivity|]. simpl in H. apply andb_prop in H. destruct H as [_ H].
  destruct s as [|c3 s]; [simpl; repeat rewrite ?andb_false_r; reflexivity|]. simpl in H. apply andb_prop in H. destruct H as [_ H].
  destruct s as [|c4 s]; [simpl; repeat rewrite ?andb_false_r; reflexivity|]. simpl in H. apply andb_prop in H. destruct H as [_ H].
  destruct s as [|c5 s]; [simpl; repeat rewrite ?andb_false_r; reflexivity|]. simpl in H. apply andb_prop in H. destruct H as [_ H].
  destruct s as [|c6 s]; [simpl; repeat rewrite ?andb_false_r; reflexivity|]. simpl in H. apply andb_prop in H. destruct H as [Hc H].
  apply negb_true_iff in Hc. unfold is_ws in Hc. apply orb_false_iff in Hc. destruct Hc as [Hc _].
  rewrite Ascii.eqb_sym in Hc. cbn [is_prefix]. rewrite Hc.
  repeat rewrite ?andb_false_r, ?andb_false_l. reflexivity.
Qed.

Lemma contains_fp_nospace : forall s, nospace s = true -> contains fp_orix s = false.
Proof.
  induction s as [|c r IH]; intro H.
  - reflexivity.
  - cbn [contains]. rewrite is_prefix_fp_nospace by exact H. simpl in H. apply andb_prop in H.
    destruct H as [_ H]. rewrite IH by exact H. reflexivity.
Qed.

Lemma is_prefix_app : forall p s t, is_prefix p s = true -> is_prefix p (s ++ t) = true.
Proof.
  induction p as [|a p IH]; intros s t H; [reflexivity|].
  destruct s as [|b s]; simpl in *; [discriminate|].
  apply andb_prop in H. destruct H as [H1 H2]. rewrite H1. simpl. apply IH. exact H2.
Qed.

Lemma is_prefix_join : forall p l s, is_prefix p s = true ->
  is_prefix p (fold_left (fun a b => a ++ ", " ++ b)%string l s) = true.
Proof.
  intros p. induction l as [|x r IH]; intros s H; simpl; [exact H|].
  apply IH. apply is_prefix_app. exact H.
Qed.

Lemma columns_line_has_fp : forall ex, contains fp_orix (line_text (LColumns (header_cols ++ ex))) = true.
Proof.
  intro ex.
  set (s0 := "phi1, Phi, phi2, x, y, image_quality, confidence_index, phase_id, detector_signal, pattern_fit"%string).
  assert (E : line_text (LColumns (header_cols ++ ex))
              = ("Column names: " ++ fold_left (fun a b => a ++ ", " ++ b)%string ex s0)%string) by reflexivity.
  rewrite E.
  assert (H : is_prefix "phi1, Phi, phi2" (fold_left (fun a b => a ++ ", " ++ b)%string ex s0) = true).
  { apply is_prefix_join. reflexivity. }
  destruct (fold_left (fun a b => a ++ ", " ++ b)%string ex s0) as [|c r] eqn:E2; [discriminate|].
  unfold fp_orix.
  change ("Column names: phi1, Phi, phi2"%string) with ("Column names: " ++ "phi1, Phi, phi2")%string.
  cbn [contains]. apply orb_true_iff. left.
  cbn [append is_prefix]. repeat rewrite Ascii.eqb_refl. simpl andb. exact H.
Qed.

(* plain identifiers (the guard of the theorem before the reader's "Formula"
   line was repaired) are such names *)
Lemma nospace_name_ok : forall s, nospace s = true -> sempty s = false -> name_ok s.
Proof.
  intros s Hn He. split; [exact He|]. split.
  - rewrite (words_nospace s Hn He). reflexivity.
  - apply contains_fp_nospace. exact Hn.
Qed.

(* ---------------------------------------------------------------- raw_step on the lines of a block *)
Lemma raw_step_material : forall a s, words s <> [] ->
  raw_step a (LMaterial s) =
  {| rw_ids := rw_ids a; rw_names := rw_names a ++ [unwords (words s)]; rw_formulas := rw_formulas a;
     rw_pgs := rw_pgs a; rw_lats := rw_lats a |}.
Proof. intros a s H. unfold raw_step. destruct (words s); [congruence | reflexivity]. Qed.

Lemma raw_step_formula : forall a s, words s <> [] ->
  raw_step a (LFormula s) =
  {| rw_ids := rw_ids a; rw_names := rw_names a; rw_formulas := rw_formulas a ++ [unwords (words s)];
     rw_pgs := rw_pgs a; rw_lats := rw_lats a |}.
Proof. intros a s H. unfold raw_step. destruct (words s); [congruence | reflexivity]. Qed.

Lemma raw_step_symmetry : forall a s, words s = [s] ->
  raw_step a (LSymmetry s) =
  {| rw_ids := rw_ids a; rw_names := rw_names a; rw_formulas := rw_formulas a;
     rw_pgs := rw_pgs a ++ [s]; rw_lats := rw_lats a |}.
Proof. intros a s H. unfold raw_step. rewrite H. reflexivity. Qed.

(* ---------------------------------------------------------------- find / fold *)
Lemma find_app_none : forall {A} (f : A -> bool) l1 l2, (forall x, In x l1 -> f x = false) ->
  find f (l1 ++ l2) = find f l2.
Proof.
  intros A f. induction l1 as [|a r IH]; intros l2 H; simpl; [reflexivity|].
  rewrite (H a) by (left; reflexivity). apply IH. intros x Hx. apply H. right. exact Hx.
Qed.

Lemma existsb_app_true_r : forall {A} (f : A -> bool) l1 l2, existsb f l2 = true -> existsb f (l1 ++ l2) = true.
Proof. intros. rewrite existsb_app. rewrite H. apply orb_true_r. Qed.

Section Header.
Context {T Rot : Type}.
Variable t0 : T.
Variable prt3 : T -> Z.
Variable prt6 : T -> Z.

Notation cmapT := (@cmap T Rot).

(* the names the writer puts into the file *)
Definition shown_name (i : nat) (ph : @phase T) : string :=
  if sempty (ph_name ph) then ("phase" ++ nat_str (S i))%string else ph_name ph.
Definition shown_pg (ph : @phase T) : string :=
  match ph_pg ph with
  | None => "1"%string
  | Some g => match proper_of g with Some pr => alias_of pr | None => EmptyString end
  end.
(* the proper point group the reader must end up with *)
Definition proper_pg (ph : @phase T) : string :=
  match ph_pg ph with
  | None => "1"%string
  | Some g => match proper_of g with Some pr => pr | None => EmptyString end
  end.
Definition pg_known (ph : @phase T) : Prop :=
  match ph_pg ph with None => True | Some g => exists pr, proper_of g = Some pr end.

Definition block_of (i : nat) (ph : @phase T) : list hline :=
  [LPhase (Z.of_nat (S i)); LMaterial (shown_name i ph); LFormula (shown_name i ph); LOther "Info";
   LSymmetry (shown_pg ph); LLattice (map prt3 (ph_lat ph)); LOther "NumberFamilies    0"].

Lemma phase_block_inv : forall i ph b, phase_block prt3 i ph = Some b -> b = block_of i ph /\ pg_known ph.
Proof.
  intros i ph b H. unfold phase_block in H. unfold block_of, shown_name, shown_pg, pg_known.
  destruct (ph_pg ph) as [g|]; simpl in H.
  - destruct (proper_of g) as [pr|] eqn:E; simpl in H; [|discriminate].
    inversion H. split; [reflexivity | eauto].
  - inversion H. split; [reflexivity | exact I].
Qed.

Lemma shown_pg_ok : forall ph, pg_known ph ->
  resolve_pg (shown_pg ph) = Some (proper_pg ph) /\ words (shown_pg ph) = [shown_pg ph]
  /\ nospace (shown_pg ph) = true.
Proof.
  intros ph H. unfold shown_pg, proper_pg, pg_known in *. destruct (ph_pg ph) as [g|].
  - destruct H as [pr E]. rewrite E. destruct (alias_roundtrip g pr E) as [A B]. repeat split; auto.
    (* nospace: finite check over the table *)
    apply assoc_s_in in E.
    assert (F : forallb (fun gp => nospace (alias_of (snd gp))) pg_table = true) by (vm_compute; reflexivity).
    rewrite forallb_forall in F. apply (F _ E).
  - destruct alias_one as [A B]. repeat split; auto.
Qed.

(* the map's real phases, numbered as the writer numbers them *)
Definition numbered (m : cmapT) : list (nat * (Z * @phase T)) :=
  combine (seq 0 (length (real_phases m))) (real_phases m).

(* hypothesis on phase names: non-empty, words separated by single blanks *)
Definition names_plain (m : cmapT) : Prop :=
  forall kv, In kv (real_phases m) -> name_ok (ph_name (snd kv)).

Definition conv (x : nat * (Z * @phase T)) : Z * rphase :=
  (Z.of_nat (S (fst x)),
   {| rp_name := shown_name (fst x) (snd (snd x)); rp_pg := Some (proper_pg (snd (snd x)));
      rp_lat := map prt3 (ph_lat (snd (snd x))) |}).

(* the phase list in the file, as the reader must see it *)
Definition renumbered (m : cmapT) : list (Z * rphase) := map conv (numbered m).

(* ---- raw parse of a list of blocks *)
Definition raw_add (a : raw_phases) (x : nat * (Z * @phase T)) : raw_phases :=
  {| rw_ids := rw_ids a ++ [Z.of_nat (S (fst x))];
     rw_names := rw_names a ++ [shown_name (fst x) (snd (snd x))];
     rw_formulas := rw_formulas a ++ [shown_name (fst x) (snd (snd x))];
     rw_pgs := rw_pgs a ++ [shown_pg (snd (snd x))];
     rw_lats := rw_lats a ++ [map prt3 (ph_lat (snd (snd x)))] |}.

Definition entry_ok (x : nat * (Z * @phase T)) : Prop :=
  unwords (words (shown_name (fst x) (snd (snd x)))) = shown_name (fst x) (snd (snd x))
  /\ words (shown_name (fst x) (snd (snd x))) <> []
  /\ words (shown_pg (snd (snd x))) = [shown_pg (snd (snd x))].

Lemma raw_block : forall a x, entry_ok x ->
  fold_left raw_step (block_of (fst x) (snd (snd x))) a = raw_add a x.
Proof.
  intros a x [Hn [Hne Hp]]. unfold block_of. cbn [fold_left].
  rewrite (raw_step_material _ _ Hne), (raw_step_formula _ _ Hne), (raw_step_symmetry _ _ Hp).
  rewrite Hn. destruct a. unfold raw_add. reflexivity.
Qed.

Lemma raw_blocks : forall L a, (forall x, In x L -> entry_ok x) ->
  fold_left raw_step (concat (map (fun x => block_of (fst x) (snd (snd x))) L)) a = fold_left raw_add L a.
Proof.
  induction L as [|x r IH]; intros a H; [reflexivity|].
  cbn [map concat fold_left]. rewrite fold_left_app. rewrite raw_block by (apply H; left; reflexivity).
  apply IH. intros y Hy. apply H. right. exact Hy.
Qed.

Lemma raw_add_all : forall L a,
  fold_left raw_add L a =
  {| rw_ids := rw_ids a ++ map (fun x => Z.of_nat (S (fst x))) L;
     rw_names := rw_names a ++ map (fun x => shown_name (fst x) (snd (snd x))) L;
     rw_formulas := rw_formulas a ++ map (fun x => shown_name (fst x) (snd (snd x))) L;
     rw_pgs := rw_pgs a ++ map (fun x => shown_pg (snd (snd x))) L;
     rw_lats := rw_lats a ++ map (fun x => map prt3 (ph_lat (snd (snd x)))) L |}.
Proof.
  induction L as [|x r IH]; intro a; simpl.
  - destruct a. simpl. repeat rewrite app_nil_r. reflexivity.
  - rewrite IH. unfold raw_add. simpl. repeat rewrite <- app_assoc. reflexivity.
Qed.

(* ---- PhaseList construction *)
Lemma seq_nth_map : forall {A B} (G : option A -> B) (l : list A),
  map (fun i => G (nth_error l i)) (seq 0 (length l)) = map (fun x => G (Some x)) l.
Proof.
  intros A B G l. revert G. induction l as [|a r IH]; intro G; simpl; [reflexivity|].
  f_equal. rewrite <- seq_shift. rewrite map_map. apply (IH (fun o => G o)).
Qed.

Lemma nth_default_seq : forall (l : list Z) (d : nat -> Z),
  map (fun i => match nth_error l i with Some z => z | None => d i end) (seq 0 (length l)) = l.
Proof.
  induction l as [|a r IH]; intro d; simpl; [reflexivity|].
  f_equal. rewrite <- seq_shift. rewrite map_map. apply (IH (fun i => d (S i))).
Qed.

Lemma nth_error_map' : forall {A B} (f : A -> B) l i, nth_error (map f l) i = option_map f (nth_error l i).
Proof. intros. apply nth_error_map. Qed.

Definition key (x : nat * (Z * @phase T)) : Z := Z.of_nat (S (fst x)).

Fixpoint incr (L : list (nat * (Z * @phase T))) : Prop :=
  match L with
  | a :: ((b :: _) as r) => key a < key b /\ incr r
  | _ => True
  end.

Lemma incr_combine_seq : forall (pl : list (Z * @phase T)) s, incr (combine (seq s (length pl)) pl).
Proof.
  induction pl as [|p r IH]; intro s; simpl; [exact I|].
  destruct r as [|q r']; simpl; [exact I|].
  split; [unfold key; simpl; lia|]. apply (IH (S s)).
Qed.

Lemma sins_front : forall (L : list (nat * (Z * @phase T))) a, incr (a :: L) ->
  sins (fst (conv a)) (snd (conv a)) (map conv L) = conv a :: map conv L.
Proof.
  intros L a H. destruct L as [|b r].
  - cbn [map sins]. rewrite <- surjective_pairing. reflexivity.
  - cbn [map]. destruct H as [Hlt _]. unfold key in Hlt.
    remember (conv a) as ca eqn:Ea. destruct ca as [ka va].
    assert (Hka : ka = Z.of_nat (S (fst a))) by (unfold conv in Ea; inversion Ea; reflexivity).
    remember (conv b) as cb eqn:Eb. destruct cb as [kb vb].
    assert (Hkb : kb = Z.of_nat (S (fst b))) by (unfold conv in Eb; inversion Eb; reflexivity).
    cbn [sins fst snd]. destruct (ka <? kb) eqn:E; [reflexivity | apply Z.ltb_ge in E; lia].
Qed.

Lemma sins_rev : forall L, incr L ->
  fold_left (fun d kv => sins (fst kv) (snd kv) d) (map conv (rev L)) [] = map conv L.
Proof.
  induction L as [|a r IH]; intro H; simpl; [reflexivity|].
  rewrite map_app, fold_left_app. simpl.
  rewrite IH.
  - apply sins_front. exact H.
  - destruct r; simpl in *; [exact I | destruct H; assumption].
Qed.

Lemma max_self : forall n : nat, Nat.max (Nat.max n n) (Nat.max n (Nat.min n n)) = n.
Proof. intro n. lia. Qed.

(* the phase list parsed from a raw record whose five lists are maps over L *)
Lemma phase_list_of_maps : forall (L : list (nat * (Z * @phase T))),
  (forall x, In x L -> resolve_pg (shown_pg (snd (snd x))) = Some (proper_pg (snd (snd x)))) ->
  phase_list_of (fold_left raw_add L raw_empty) =
  Some (fold_left (fun d kv => sins (fst kv) (snd kv) d) (map conv L) []).
Proof.
  intros L Hpg. rewrite raw_add_all. unfold raw_empty. cbn [rw_ids rw_names rw_formulas rw_pgs rw_lats app].
  set (ids := map (fun x : nat * (Z * @phase T) => Z.of_nat (S (fst x))) L).
  set (names := map (fun x : nat * (Z * @phase T) => shown_name (fst x) (snd (snd x))) L).
  set (pgs := map (fun x : nat * (Z * @phase T) => shown_pg (snd (snd x))) L).
  set (lats := map (fun x : nat * (Z * @phase T) => map prt3 (ph_lat (snd (snd x)))) L).
  unfold phase_list_of.
  assert (Hfn : final_names {| rw_ids := ids; rw_names := names; rw_formulas := names; rw_pgs := pgs; rw_lats := lats |} = names).
  { unfold final_names. simpl. destruct (_ && _)%bool; reflexivity. }
  assert (Hfi : final_ids {| rw_ids := ids; rw_names := names; rw_formulas := names; rw_pgs := pgs; rw_lats := lats |} = ids).
  { unfold final_ids. simpl. unfold ids, names. destruct L as [|x r]; [reflexivity|].
    simpl map. cbv iota. cbn [length]. repeat rewrite map_length. rewrite Nat.ltb_irrefl. reflexivity. }
  rewrite Hfn, Hfi. simpl rw_pgs. simpl rw_lats.
  assert (Hlen : Nat.max (Nat.max (length names) (length pgs)) (Nat.max (length ids) (Nat.min (length names) (length lats))) = length L).
  { unfold names, pgs, ids, lats. repeat rewrite map_length. apply max_self. }
  rewrite Hlen.
  assert (Hphs : sequence (map (build_phase names pgs lats) (seq 0 (length L))) = Some (map (fun x => snd (conv x)) L)).
  { assert (E : map (build_phase names pgs lats) (seq 0 (length L))
               = map (fun x => Some (snd (conv x))) L).
    { unfold build_phase, names, pgs, lats.
      rewrite <- (seq_nth_map (fun o => match o with Some x => Some (snd (conv x)) | None => None end) L).
      apply map_ext_in. intros i Hi. apply in_seq in Hi.
      repeat rewrite nth_error_map'.
      destruct (nth_error L i) as [x|] eqn:Ex.
      - simpl. rewrite (Hpg x) by (eapply nth_error_In; exact Ex). simpl. reflexivity.
      - apply nth_error_None in Ex. lia. }
    rewrite E. apply (sequence_map_some (fun x => Some (snd (conv x))) (fun x => snd (conv x))).
    intros; reflexivity. }
  rewrite Hphs. simpl obind.
  assert (Hidl : map (fun i => match nth_error ids i with
                               | Some z => z
                               | None => zmax_list 0 ids + 1 + Z.of_nat (i - length ids)
                               end) (seq 0 (length L)) = ids).
  { replace (length L) with (length ids) by (unfold ids; apply map_length).
    apply (nth_default_seq ids (fun i => zmax_list 0 ids + 1 + Z.of_nat (i - length ids))). }
  (* the None branch above mentions i; redo with an explicit function *)
  f_equal. f_equal.
  transitivity (combine ids (map (fun x => snd (conv x)) L)).
  - f_equal. exact Hidl.
  - unfold ids. clear. induction L as [|x r IH]; [reflexivity|]. cbn [map combine]. rewrite IH. reflexivity.
Qed.

End Header.
