(* Soundness over the reals of the cover-tree / Gordan certificates of
   Model/CoverCheck.v: a checked tree shows that EVERY real vector has an image
   under some listed operation inside the closed cone; a checked Gordan
   certificate shows that the open cone and its image do not meet. *)
From Coq Require Import Reals ZArith QArith List String Bool Lra.
From Verif Require Import Scalar RInst KField KtoR KSign QuatKernels Quat QuatAlg GroupK Groups SymDot SymDotR SymDotK
  CoverCheck.
Import ListNotations.
Local Open Scope R_scope.

Notation Rv := (vec3 (T:=R)).
Notation Rrot := (rot (T:=R)).

Definition vtoR (v : kvec) : Rv := let '(a, b, c) := v in (toR a, toR b, toR c).

Lemma toR_two : toR (KofZ 2) = 2. Proof. rewrite toR_ofZ. reflexivity. Qed.

Lemma vtoR_qrot q v : vtoR (qrot KOps q v) = qrot ROps (qtoR q) (vtoR v).
Proof.
  destruct q as [[[a b] c] d], v as [[x y] z].
  unfold qrot, qu_rotate_vec_gufunc, qtoR, vtoR. cbn [KOps ROps o_add o_sub o_mul o_ofZ].
  repeat (rewrite toR_add || rewrite toR_sub || rewrite toR_mul || rewrite toR_ofZ). reflexivity.
Qed.
Lemma vtoR_vneg v : vtoR (vneg KOps v) = vneg ROps (vtoR v).
Proof. destruct v as [[x y] z]. unfold vneg, vtoR. cbn [KOps ROps o_opp]. rewrite !toR_opp. reflexivity. Qed.
Lemma vtoR_ract r v : vtoR (ract KOps r v) = ract ROps (rtoR r) (vtoR v).
Proof.
  destruct r as [q i]. unfold ract, rtoR; cbn [fst snd]. destruct i; rewrite ?vtoR_vneg, vtoR_qrot; reflexivity.
Qed.
Lemma rtoR_rinv r : rtoR (rinv KOps r) = rinv ROps (rtoR r).
Proof. destruct r as [q i]. unfold rinv, rtoR; cbn [fst snd]. rewrite qtoR_conj. reflexivity. Qed.

Lemma vdot_toR u v : toR (vdot KOps u v) = vdot ROps (vtoR u) (vtoR v).
Proof.
  destruct u as [[a b] c], v as [[x y] z]. unfold vdot, vtoR. cbn [KOps ROps o_add o_mul].
  rewrite !toR_add, !toR_mul. reflexivity.
Qed.

Lemma vdot_add_l u v (x : Rv) : vdot ROps (vtoR (kv_add u v)) x = vdot ROps (vtoR u) x + vdot ROps (vtoR v) x.
Proof.
  destruct u as [[a b] c], v as [[e f] g], x as [[x y] z]. unfold kv_add, vtoR, vdot. rewrite !toR_add. rsimpl. ring.
Qed.
Lemma vdot_scale_l l u (x : Rv) : vdot ROps (vtoR (kv_scale l u)) x = toR l * vdot ROps (vtoR u) x.
Proof.
  destruct u as [[a b] c], x as [[x y] z]. unfold kv_scale, vtoR, vdot. rewrite !toR_mul. rsimpl. ring.
Qed.
Lemma vdot_zero_l (x : Rv) : vdot ROps (vtoR kv_zero) x = 0.
Proof. destruct x as [[x y] z]. unfold kv_zero, vtoR, vdot. rewrite toR_K0. rsimpl. ring. Qed.
Lemma vdot_vneg_l (u x : Rv) : vdot ROps (vneg ROps u) x = - vdot ROps u x.
Proof. destruct u as [[a b] c], x as [[x y] z]. unfold vneg, vdot. rsimpl. ring. Qed.

Lemma kv_eqb_sound u v : kv_eqb u v = true -> vtoR u = vtoR v.
Proof.
  destruct u as [[a b] c], v as [[x y] z]. unfold kv_eqb, vtoR. intros H.
  apply andb_prop in H; destruct H as [H H3]. apply andb_prop in H; destruct H as [H1 H2].
  apply Keqb_sound in H1, H2, H3. rewrite H1, H2, H3. reflexivity.
Qed.

(* the rotation matrix of the conjugate is the transpose: (r^-1 * n) . x = n . (r * x), for every quaternion *)
Lemma ract_inv_dot (r : Rrot) (n x : Rv) :
  vdot ROps (ract ROps (rinv ROps r) n) x = vdot ROps n (ract ROps r x).
Proof.
  destruct r as [[[[a b] c] d] i], n as [[n1 n2] n3], x as [[x1 x2] x3].
  unfold ract, rinv; cbn [fst snd]. destruct i; qunfold; ring.
Qed.

(* a non-negative combination is non-negative on the cell *)
Lemma vcomb_nonneg (C : list kvec) (c : list (nat * K)) (x : Rv) :
  coeffs_ok C c = true ->
  (forall n, In n C -> 0 <= vdot ROps (vtoR n) x) ->
  0 <= vdot ROps (vtoR (vcomb C c)) x.
Proof.
  unfold coeffs_ok. intros Hc Hx. induction c as [|[j l] c IH]; cbn [vcomb].
  - rewrite vdot_zero_l. lra.
  - cbn [forallb] in Hc. apply andb_prop in Hc. destruct Hc as [Hjl Hc]. cbn [fst snd] in Hjl.
    apply andb_prop in Hjl. destruct Hjl as [Hl Hj]. apply Knonneg_sound in Hl. apply Nat.ltb_lt in Hj.
    rewrite vdot_add_l, vdot_scale_l.
    assert (Hn : 0 <= vdot ROps (vtoR (nth j C kv_zero)) x) by (apply Hx; apply nth_In; exact Hj).
    specialize (IH Hc). nra.
Qed.

Lemma vcert_ok_sound C t c (x : Rv) : vcert_ok C t c = true ->
  (forall n, In n C -> 0 <= vdot ROps (vtoR n) x) -> 0 <= vdot ROps (vtoR t) x.
Proof.
  unfold vcert_ok. intros H Hx. apply andb_prop in H. destruct H as [Hc He].
  apply kv_eqb_sound in He. rewrite <- He. apply vcomb_nonneg; assumption.
Qed.

Lemma all2b_In {A B} (f : A -> B -> bool) l1 l2 : all2b f l1 l2 = true ->
  forall a, In a l1 -> exists b, In b l2 /\ f a b = true.
Proof.
  revert l2. induction l1 as [|a1 l1 IH]; intros [|b l2] H a Ha; cbn [all2b] in H; try discriminate; [destruct Ha|].
  apply andb_prop in H. destruct H as [H1 H2]. destruct Ha as [<-|Ha].
  - exists b. split; [left; reflexivity|exact H1].
  - destruct (IH l2 H2 a Ha) as [b' [Hb Hf]]. exists b'. split; [right; exact Hb|exact Hf].
Qed.

Definition in_cone (N : list kvec) (x : Rv) : Prop := forall n, In n N -> 0 <= vdot ROps (vtoR n) x.
Definition in_open_cone (N : list kvec) (x : Rv) : Prop := forall n, In n N -> 0 < vdot ROps (vtoR n) x.

(* MAIN 1: a checked tree covers its cell *)
Theorem tree_ok_sound (G : list krot) (N : list kvec) (t : ctree) : forall C,
  tree_ok G N C t = true ->
  forall x : Rv, in_cone C x -> exists r, In r G /\ in_cone N (ract ROps (rtoR r) x).
Proof.
  induction t as [g certs|h t1 IH1 t2 IH2]; intros C H x Hx; cbn [tree_ok] in H.
  - destruct (nth_error G g) as [r|] eqn:Er; [|discriminate].
    exists r. split; [eapply nth_error_In; exact Er|].
    intros n Hn. destruct (all2b_In _ _ _ H n Hn) as [c [_ Hc]].
    pose proof (vcert_ok_sound _ _ _ x Hc Hx) as H0.
    rewrite vtoR_ract, rtoR_rinv, ract_inv_dot in H0. exact H0.
  - apply andb_prop in H. destruct H as [H1 H2].
    destruct (Rle_dec 0 (vdot ROps (vtoR h) x)) as [Hp|Hn].
    + apply (IH1 _ H1 x). intros n [<-|Hn]; [exact Hp|apply Hx; exact Hn].
    + apply (IH2 _ H2 x). intros n [<-|Hn']; [|apply Hx; exact Hn'].
      rewrite vtoR_vneg, vdot_vneg_l. lra.
Qed.

Corollary tree_covers_everything (G : list krot) (N : list kvec) (t : ctree) :
  tree_ok G N [] t = true -> forall x : Rv, exists r, In r G /\ in_cone N (ract ROps (rtoR r) x).
Proof. intros H x. apply (tree_ok_sound G N t [] H x). intros n []. Qed.

(* a combination with a positive coefficient is positive on the open cone *)
Lemma Kpos_sound (x : K) : Kpos x = true -> 0 < toR x.
Proof. unfold Kpos. pose proof (Ksign_sound x) as H. destruct (Ksign x) as [[| |]|]; intros E; try discriminate; exact H. Qed.
Lemma Kneg_sound (x : K) : Kneg x = true -> toR x < 0.
Proof. unfold Kneg. pose proof (Ksign_sound x) as H. destruct (Ksign x) as [[| |]|]; intros E; try discriminate; exact H. Qed.

Lemma vcomb_pos (V : list kvec) (c : list (nat * K)) (x : Rv) :
  coeffs_ok V c = true -> existsb (fun jl => Kpos (snd jl)) c = true ->
  (forall n, In n V -> 0 < vdot ROps (vtoR n) x) ->
  0 < vdot ROps (vtoR (vcomb V c)) x.
Proof.
  unfold coeffs_ok. intros Hc He Hx.
  assert (Hx' : forall n, In n V -> 0 <= vdot ROps (vtoR n) x) by (intros n Hn; left; apply Hx; exact Hn).
  induction c as [|[j l] c IH]; cbn [vcomb]; [discriminate|].
  cbn [forallb] in Hc. apply andb_prop in Hc. destruct Hc as [Hjl Hc]. cbn [fst snd] in Hjl.
  apply andb_prop in Hjl. destruct Hjl as [Hl Hj]. apply Nat.ltb_lt in Hj.
  rewrite vdot_add_l, vdot_scale_l.
  assert (Hn : 0 < vdot ROps (vtoR (nth j V kv_zero)) x) by (apply Hx; apply nth_In; exact Hj).
  pose proof (vcomb_nonneg V c x Hc Hx') as Hrest.
  cbn [existsb snd] in He. apply orb_prop in He. destruct He as [Hp|He].
  - apply Kpos_sound in Hp. nra.
  - apply Knonneg_sound in Hl. specialize (IH Hc He). nra.
Qed.

(* MAIN 2: the open cone and its image under r^-1 are disjoint *)
Theorem gordan_ok_sound (N : list kvec) (r : krot) (c : list (nat * K)) : gordan_ok N r c = true ->
  forall x : Rv, in_open_cone N x -> in_open_cone N (ract ROps (rtoR r) x) -> False.
Proof.
  unfold gordan_ok. intros H x H1 H2.
  apply andb_prop in H. destruct H as [H He]. apply andb_prop in H. destruct H as [Hc Hz].
  set (V := (N ++ map (ract KOps (rinv KOps r)) N)%list) in *.
  assert (HV : forall n, In n V -> 0 < vdot ROps (vtoR n) x).
  { intros n Hn. unfold V in Hn. apply in_app_or in Hn. destruct Hn as [Hn|Hn]; [apply H1; exact Hn|].
    apply in_map_iff in Hn. destruct Hn as [m [<- Hm]].
    rewrite vtoR_ract, rtoR_rinv, ract_inv_dot. apply H2. exact Hm. }
  pose proof (vcomb_pos V c x Hc He HV) as Hpos.
  apply kv_eqb_sound in Hz. rewrite Hz, vdot_zero_l in Hpos. lra.
Qed.
