(* C19 -- step counts (exact rationals): the number of steps chosen for a
   resolution makes the step no larger than the resolution, and the parity
   options are honoured.  For every positive rational resolution. *)
From Coq Require Import ZArith QArith Qround Qabs Lia Lqa Bool.
From Verif Require Import C19Model.
Local Open Scope Q_scope.

Lemma ceil_covers (a res : Q) : 0 < res -> a <= inject_Z (Qceiling (a / res)) * res.
Proof.
  intros Hr. pose proof (Qle_ceiling (a / res)) as H.
  apply (Qmult_le_compat_r _ _ res) in H; [|apply Qlt_le_weak; exact Hr].
  assert (E : a / res * res == a) by (field; intros E; rewrite E in Hr; inversion Hr).
  rewrite E in H. exact H.
Qed.

Lemma inject_Z_le_mult (n m : Z) (res : Q) : 0 < res -> (n <= m)%Z -> inject_Z n * res <= inject_Z m * res.
Proof.
  intros Hr H. apply Qmult_le_compat_r; [|apply Qlt_le_weak; exact Hr].
  rewrite <- Zle_Qle. exact H.
Qed.

(* 360 / num_steps <= resolution *)
Lemma num_steps_covers res even odd : 0 < res ->
  360 <= inject_Z (resolution_to_num_steps res even odd) * res.
Proof.
  intros Hr. unfold resolution_to_num_steps.
  pose proof (ceil_covers 360 res Hr) as H.
  destruct (_ || _); [|exact H].
  eapply Qle_trans; [exact H|]. apply inject_Z_le_mult; [exact Hr|lia].
Qed.

Lemma num_steps_even res : Z.even (resolution_to_num_steps res true false) = true.
Proof.
  unfold resolution_to_num_steps. cbn [andb orb].
  set (n := Qceiling (360 / res)). rewrite Zmod_even.
  destruct (Z.even n) eqn:En; cbn.
  - exact En.
  - rewrite Z.even_add, En. reflexivity.
Qed.

Lemma num_steps_odd res : Z.odd (resolution_to_num_steps res false true) = true.
Proof.
  unfold resolution_to_num_steps. cbn [andb orb].
  set (n := Qceiling (360 / res)). rewrite Zmod_even. rewrite <- !Z.negb_even.
  destruct (Z.even n) eqn:En; cbn.
  - rewrite Z.even_add, En. reflexivity.
  - rewrite En. reflexivity.
Qed.

(* uv mesh: azimuth step 360 / steps_azimuth and polar step 180 / (steps_polar - 1)
   are both at most the resolution *)
Lemma uv_steps_cover res : 0 < res ->
  360 <= inject_Z (fst (uv_steps res)) * res /\ 180 <= inject_Z (snd (uv_steps res) - 1) * res.
Proof.
  intros Hr. unfold uv_steps. cbn [fst snd]. split; [apply ceil_covers; exact Hr|].
  replace (Qceiling (180 / res) + 1 - 1)%Z with (Qceiling (180 / res)) by lia.
  apply ceil_covers; exact Hr.
Qed.

(* equal-area mesh: 4 * ceil(90/res) azimuth steps (step <= resolution), 2 * ceil(90/res) + 1 rows *)
Lemma equal_area_steps_cover res : 0 < res ->
  360 <= inject_Z (fst (equal_area_steps res)) * res /\
  (snd (equal_area_steps res) = fst (equal_area_steps res) / 2 + 1)%Z.
Proof.
  intros Hr. unfold equal_area_steps. cbn [fst snd]. split.
  - pose proof (ceil_covers 90 res Hr) as H. rewrite inject_Z_mult.
    setoid_replace 360 with (inject_Z 4 * 90) by reflexivity.
    rewrite <- Qmult_assoc. apply Qmult_le_l; [reflexivity|exact H].
  - replace (4 * Qceiling (90 / res))%Z with (2 * Qceiling (90 / res) * 2)%Z by lia.
    rewrite Z.div_mul by lia. reflexivity.
Qed.

(* the cubochoric step count is the nearest integer to 131.97049 / (res - 0.03732) *)
Lemma round_half_even_close q : Qabs (inject_Z (round_half_even q) - q) <= 1 # 2.
Proof.
  unfold round_half_even. pose proof (Qfloor_le q) as Hl. pose proof (Qlt_floor q) as Hu.
  set (f := Qfloor q) in *.
  assert (Hu' : q < inject_Z f + 1).
  { eapply Qlt_le_trans; [exact Hu|]. rewrite inject_Z_plus. apply Qle_refl. }
  apply Qabs_Qle_condition.
  destruct (Qcompare (q - inject_Z f) (1 # 2)) eqn:E.
  - apply Qeq_alt in E. destruct (Z.even f); [|rewrite inject_Z_plus; change (inject_Z 1) with 1]; split; lra.
  - apply Qlt_alt in E. split; lra.
  - apply Qgt_alt in E. rewrite inject_Z_plus. change (inject_Z 1) with 1. split; lra.
Qed.
