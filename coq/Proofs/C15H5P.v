(* C15 -- h5ebsd readers: Bruker re-ordering, EMsoft top-match lookup *)
From Coq Require Import ZArith List Bool String Ascii Lia.
From Verif Require Import Scalar C15Tables C15Common C15H5.
Import ListNotations.
Local Open Scope string_scope.
Local Open Scope list_scope.

Section H5Proofs.
Context {T : Type} (Op : Ops T).

(* for EVERY dataset record: the map's y, x and phase-id arrays are the Y SAMPLE,
   X SAMPLE (minus their minimum) and Phase datasets (0 -> -1) put into map
   order by ONE AND THE SAME permutation `bruker_order t` (x is then reversed) *)
Theorem bruker_same_order (t : btok (T:=T)) (m : xmap (T:=T)) :
  parse_bruker Op t = Ok m ->
  exists props, bruker_props bruker_properties (bt_data t) = Ok props /\
    xm_y m = reorder (o_ofZ Op 0) (bruker_order t)
               (sub_min Op (match aget "YSAMPLE" props with Some v => v | None => [] end)) /\
    xm_x m = rev (reorder (o_ofZ Op 0) (bruker_order t)
               (sub_min Op (match aget "XSAMPLE" props with Some v => v | None => [] end))) /\
    xm_pid m = reorder 0%Z (bruker_order t) (map (fun p => if (p =? 0)%Z then (-1)%Z else p) (bt_phase t)).
Proof.
  unfold parse_bruker. intros H.
  destruct (bruker_shape_rc t) as [[rect shape] rc].
  destruct (negb (rect && (bt_grid t =? "isometric"))); [discriminate|].
  destruct (bruker_props bruker_properties (bt_data t)) as [props|] eqn:Ep; [|discriminate].
  exists props. split; [reflexivity|]. unfold bind in H at 1.
  destruct (mapM _ (bt_phases t)) as [pl0|]; [|discriminate]. unfold bind in H.
  injection H as <-. repeat split; reflexivity.
Qed.

(* without index datasets nothing is re-ordered *)
Lemma bruker_order_noroi (t : btok (T:=T)) : bt_iy t = None -> bruker_order t = None.
Proof. intros H. unfold bruker_order, bruker_shape_rc. rewrite H. reflexivity. Qed.

Definition zz : T := o_ofZ Op 0.
Definition lat0 : list T := [o_ofZ Op 4; o_ofZ Op 4; o_ofZ Op 4; o_ofZ Op 90; o_ofZ Op 90; o_ofZ Op 90].
Definition vals0 : list T := repeat zz 11.
(* two rows, one column, the record of row 1 stored first *)
Definition bruker_wit (dy y0 : T) : bfile (T:=T) :=
  mkBF 2 1 (o_ofZ Op 1) dy zz y0 true 0%Z 0%Z [1%nat; 0%nat]
       [(1%Z, mkBP "a" 225%Z lat0); (2%Z, mkBP "b" 229%Z lat0)]
       [mkBPt 1%Z (zz, zz, zz) vals0; mkBPt 2%Z (o_ofZ Op 90, zz, zz) vals0].

(* phase ids AND y come back in grid order: grid point 0 (row 0) carries the y of row 0 *)
Theorem bruker_rows_witness (dy y0 : T) :
  exists m, parse_bruker Op (render_bruker Op (bruker_wit dy y0)) = Ok m /\
    xm_pid m = [1%Z; 2%Z] /\
    xm_y m = rev (sub_min Op [o_add Op y0 (o_mul Op (o_ofZ Op 1) dy); o_add Op y0 (o_mul Op (o_ofZ Op 0) dy)]).
Proof. eexists. split; [|split]; vm_compute; reflexivity. Qed.

(* file order = grid order: everything is where it belongs *)
Theorem bruker_in_order_witness (dy y0 : T) :
  exists m, parse_bruker Op (render_bruker Op
       (mkBF 2 1 (o_ofZ Op 1) dy zz y0 true 0%Z 0%Z [0%nat; 1%nat] (bf_phases (bruker_wit dy y0))
             (bf_pts (bruker_wit dy y0)))) = Ok m /\
    xm_pid m = [1%Z; 2%Z] /\
    xm_y m = sub_min Op [o_add Op y0 (o_mul Op (o_ofZ Op 0) dy); o_add Op y0 (o_mul Op (o_ofZ Op 1) dy)] /\
    map (fun kp => (fst kp, ph_sg (snd kp), ph_pg (snd kp))) (xm_phases m) =
      [(1%Z, Some 225%Z, Some "m-3m"); (2%Z, Some 229%Z, Some "m-3m")].
Proof. eexists. split; [|split; [|split]]; vm_compute; reflexivity. Qed.

(* argsort of a permutation, on an instance: re-ordering by (IY, IX) restores the grid order *)
Lemma argsort_example : argsort [3; 0; 2; 1]%Z = [1; 3; 2; 0]%nat.
Proof. vm_compute. reflexivity. Qed.

(* EMsoft: index k (1-based) of TopMatchIndices selects row k-1 of the first FZcnt rows of the
   dictionary, converted from degrees; index 0 wraps to the LAST row (python negative index) *)
Lemma emsoft_lookup (dict : list (T * T * T)) (k : Z) :
  (1 <= k <= Z.of_nat (List.length dict))%Z ->
  py_index (map (eu_deg2rad Op) dict) (k - 1) = option_map (eu_deg2rad Op) (nth_error dict (Z.to_nat (k - 1))).
Proof.
  intros H. unfold py_index. rewrite map_length.
  destruct (Z.leb_spec 0 (k - 1)); [|lia]. destruct (Z.ltb_spec (k - 1) (Z.of_nat (List.length dict))); [|lia].
  simpl. apply nth_error_map.
Qed.

End H5Proofs.
