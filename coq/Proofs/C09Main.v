(* C09 -- final forms of the property clauses, stated on the lattice object a
   Phase holds ([lattice_of_base A = Ok L], i.e. after diffpy's setLatBase). *)
From Coq Require Import Reals ZArith Lra Lia Nsatz Bool List Psatz.
From Verif Require Import Scalar RInst C09Lin C09Miller C09Model.
From Verif Require Import C09LinAlg C09Alg C09Align C09Obj.
Import ListNotations.
Local Open Scope R_scope.

Ltac use_lattice HL :=
  match type of HL with
  | lattice_of_base ROps ?A = Ok _ =>
      apply lattice_of_base_inv in HL;
      let Hd := fresh "Hd" in
      destruct HL as [Hd ->];
      assert (mdet ROps A <> 0) by (unfold eps8R in Hd; lra)
  end.

(* ---------------- 4-index ---------------- *)

Lemma m_uvw_UVTW (x : V3) :
  t3 (UVTW2uvw ROps) (t4 (uvw2UVTW ROps) x) = x /\
  (let '(U, V, T, W) := t4 (uvw2UVTW ROps) x in U + V + T = 0).
Proof. split; [apply uvw_UVTW_uvw | apply UVTW_sum0]. Qed.

Lemma m_hkl_hkil (x : V3) :
  t3 (hkil2hkl ROps) (t4 (hkl2hkil ROps) x) = x /\
  (let '(h, k, i, l) := t4 (hkl2hkil ROps) x in h + k + i = 0).
Proof. split; [apply hkl_hkil_hkl | apply hkil_sum0]. Qed.

Lemma m_mtex (x : V3) (q : V4) :
  t3 (UVTW2uvw_mtex ROps) (t4 (uvw2UVTW_mtex ROps) x) = x /\
  (let '(U, V, T, W) := t4 (uvw2UVTW_mtex ROps) x in U + V + T = 0) /\
  ((let '(U, V, T, W) := q in U + V + T = 0) ->
   t4 (uvw2UVTW_mtex ROps) (t3 (UVTW2uvw_mtex ROps) q) = q) /\
  t4 (uvw2UVTW_mtex ROps) x
  = (let '(U, V, T, W) := t4 (uvw2UVTW ROps) x in (3 * U, 3 * V, 3 * T, 3 * W)).
Proof.
  split; [apply uvw_UVTW_uvw_mtex|]. split; [apply UVTW_sum0_mtex|].
  split; [apply UVTW_uvw_UVTW_mtex | apply UVTW_mtex_scale].
Qed.

Lemma m_checks (q : V4) :
  (b4 (check_UVTW ROps) q = true <-> (let '(U, V, T, W) := q in Rabs (U + V + T) <= 1 / 10000)) /\
  (b4 (check_hkil ROps) q = true <-> (let '(h, k, i, l) := q in Rabs (h + k + i) <= 1 / 10000)).
Proof. split; [apply check_UVTW_spec | apply check_hkil_spec]. Qed.

(* ---------------- lattice ---------------- *)

Lemma m_lattice_accepted (A : M3) :
  1 / 100000000 <= mdet ROps A -> exists L, lattice_of_base ROps A = Ok L.
Proof. intros H; eexists; apply lattice_of_base_ok; exact H. Qed.

(* ---------------- conversions are exact linear maps ---------------- *)

Lemma vmat_linear (s : R) (x y : V3) (M : M3) :
  vmat ROps (vadd ROps (vscale ROps s x) y) M = vadd ROps (vscale ROps s (vmat ROps x M)) (vmat ROps y M).
Proof. vdestruct; lunfold; tuple_eq; ring. Qed.

Lemma m_conversions_linear (A : M3) (L : lattice R) (si so : space) (v w : V3) :
  lattice_of_base ROps A = Ok L -> transform_space ROps L si so v = Ok w ->
  w = vmat ROps v (conv_mat A si so).
Proof.
  intros HL H. use_lattice HL. eapply transform_space_ok; eauto. unfold eps8R in *; lra.
Qed.

(* ---------------- lengths, d-spacing ---------------- *)

(* |g|^2 = hkl G* hkl^T, where hkl G* is what the reciprocal -> direct conversion returns
   (G* = recbase.T @ recbase, never raises); diffpy's own reciprocal().metrics, when it can
   be built, is the same matrix *)
Lemma m_reciprocal_length (A : M3) (L : lattice R) (hkl g : V3) :
  lattice_of_base ROps A = Ok L -> transform_space ROps L Sr Sc hkl = Ok g ->
  (exists u, transform_space ROps L Sr Sd hkl = Ok u /\ vnorm2 ROps g = vdot ROps u hkl) /\
  (forall Gs, l_rec_metrics L = Ok Gs -> vnorm2 ROps g = vdot ROps (vmat ROps hkl Gs) hkl).
Proof.
  intros HL Hg. pose proof HL as HL'. apply metrics_are_gram in HL'. destruct HL' as [_ HG'].
  use_lattice HL. rewrite ts_rc in Hg. apply Ok_inj in Hg. subst g. split.
  - exists (vmat ROps hkl (rgram A)). split; [apply ts_rd | apply rlength_mat].
  - intros Gs HG. rewrite (HG' Gs HG). apply rlength_mat.
Qed.

Lemma m_direct_length (A : M3) (L : lattice R) (uvw x : V3) :
  lattice_of_base ROps A = Ok L -> transform_space ROps L Sd Sc uvw = Ok x ->
  vnorm2 ROps x = vdot ROps (vmat ROps uvw (l_metrics L)) uvw.
Proof.
  intros HL Hx. pose proof HL as HL'. apply metrics_are_gram in HL'. destruct HL' as [HG _].
  rewrite HG. use_lattice HL. rewrite ts_dc in Hx. apply Ok_inj in Hx. subst x. apply dlength_mat.
Qed.

(* d_hkl = 1/|g|: every point of the first lattice plane (hkl) is at least
   1/|g| from the origin, and one of its points is exactly that far *)
Lemma m_dspacing (A : M3) (L : lattice R) (hkl g : V3) :
  lattice_of_base ROps A = Ok L -> transform_space ROps L Sr Sc hkl = Ok g -> hkl <> (0, 0, 0) ->
  0 < vnorm2 ROps g /\
  (forall uvw x, vdot ROps uvw hkl = 1 -> transform_space ROps L Sd Sc uvw = Ok x ->
                 1 <= vnorm2 ROps x * vnorm2 ROps g) /\
  (exists uvw x, vdot ROps uvw hkl = 1 /\ transform_space ROps L Sd Sc uvw = Ok x /\
                 vnorm2 ROps x * vnorm2 ROps g = 1).
Proof.
  intros HL Hg Hn. use_lattice HL. rewrite ts_rc in Hg. apply Ok_inj in Hg. subst g.
  destruct (dspacing_attained A hkl H Hn) as [Hp [Hon Hd1]]. cbv zeta in *.
  split; [exact Hp|]. split.
  - intros uvw x Hz Hx. rewrite ts_dc in Hx. apply Ok_inj in Hx. subst x. apply dspacing_lower; auto.
  - set (g := vmat ROps hkl (mtr (minv ROps A))) in *.
    set (p := vscale ROps (/ vnorm2 ROps g) g) in *.
    exists (vmat ROps p (minv ROps A)), p. split; [exact Hon|]. split; [|exact Hd1].
    rewrite ts_dc, vmat_minv_l by auto. reflexivity.
Qed.

(* ---------------- alignment ---------------- *)

Lemma m_align_cell (A N : M3) :
  mdet ROps A <> 0 -> align ROps A = Ok N ->
  gram N = gram A /\ cell_of_base ROps N = cell_of_base ROps A.
Proof.
  intros H HN. pose proof (align_gram A N H HN) as G. split; [exact G|].
  apply cell_gram; auto. rewrite (align_det A N H HN). exact H.
Qed.

Lemma m_align_axes (A N : M3) (L : lattice R) :
  0 < mdet ROps A -> align ROps A = Ok N -> lattice_of_base ROps N = Ok L ->
  (* a along e1 *)
  (exists p, transform_space ROps L Sd Sc (1, 0, 0) = Ok (p, 0, 0) /\ 0 < p) /\
  (* c* along e3 *)
  (exists z, transform_space ROps L Sr Sc (0, 0, 1) = Ok (0, 0, z) /\ 0 < z) /\
  (* right-handed, same volume *)
  mdet ROps (l_base L) = mdet ROps A.
Proof.
  intros Hp HN HL. assert (Hn : mdet ROps A <> 0) by lra.
  apply lattice_of_base_inv in HL. destruct HL as [_ ->]. rewrite ts_dc, ts_rc. cbn [Lat l_base].
  destruct (align_a_along_e1 A N Hn HN) as [Ea Pa].
  destruct (align_cstar_along_e3 A N Hp HN) as (z & Ez & Pz).
  split; [|split].
  - eexists; split; [rewrite Ea; reflexivity | exact Pa].
  - exists z; split; [rewrite Ez; reflexivity | exact Pz].
  - apply align_det; auto.
Qed.

Lemma m_set_structure_lefthanded (A : M3) (fracs : list V3) :
  mdet ROps A < 0 -> set_structure ROps A fracs = Err LatticeError.
Proof. intros H; apply set_structure_small_cell; unfold eps8R; lra. Qed.

(* ---------------- Miller object on a Phase lattice ---------------- *)

Lemma m_object_roundtrip (A : M3) (L : lattice R) (f1 f2 : fmt) (c1 c2 c1' : list R) (x x' : V3) :
  lattice_of_base ROps A = Ok L -> wf f1 c1 ->
  make ROps L f1 c1 = Ok x -> coords ROps L f2 x = Ok c2 ->
  make ROps L f2 c2 = Ok x' -> coords ROps L f1 x' = Ok c1' ->
  x' = x /\ c1' = c1.
Proof. intros HL. use_lattice HL. apply roundtrip_any_pair; auto. Qed.

Lemma m_object_total (A : M3) (L : lattice R) (f1 f2 : fmt) (c1 : list R) :
  lattice_of_base ROps A = Ok L -> wf f1 c1 ->
  exists x c2, make ROps L f1 c1 = Ok x /\ coords ROps L f2 x = Ok c2 /\ wf f2 c2 /\
               make ROps L f2 c2 = Ok x.
Proof.
  intros HL W. use_lattice HL.
  destruct (make_total A f1 c1 W) as [x Hx]. destruct (coords_total A f2 x) as [c2 Hc].
  destruct (make_of_coords A f2 x c2 H Hc) as [W2 M2]. eauto 10.
Qed.

Lemma m_object_length (A : M3) (L : lattice R) (f : fmt) (x : V3) (l : R) :
  lattice_of_base ROps A = Ok L -> length_of ROps L f x = Ok l -> l = vnorm ROps x.
Proof.
  intros HL Hl. use_lattice HL. destruct f.
  - simpl in Hl. apply Ok_inj in Hl. auto.
  - eapply length_direct; eauto.
  - eapply length_direct; eauto.
  - eapply length_reciprocal; eauto.
  - eapply length_reciprocal; eauto.
Qed.

Lemma m_object_dot (A : M3) (L : lattice R) (uvw hkl x g : V3) :
  lattice_of_base ROps A = Ok L ->
  make ROps L Fuvw (l3 uvw) = Ok x -> make ROps L Fhkl (l3 hkl) = Ok g ->
  vdot ROps x g = vdot ROps uvw hkl.
Proof. intros HL. use_lattice HL. apply dot_direct_reciprocal; auto. Qed.

Lemma m_cross_indices (A : M3) (L : lattice R) (i1 i2 x1 x2 : V3) (f f' : fmt) (z : V3) (c : list R) :
  lattice_of_base ROps A = Ok L -> f = Fuvw \/ f = Fhkl ->
  make ROps L f (l3 i1) = Ok x1 -> make ROps L f (l3 i2) = Ok x2 ->
  cross ROps f x1 f x2 = Ok (f', z) -> coords ROps L f' z = Ok c ->
  (f = Fuvw -> f' = Fhkl /\ c = l3 (vscale ROps (mdet ROps A) (vcross ROps i1 i2))) /\
  (f = Fhkl -> f' = Fuvw /\ c = l3 (vscale ROps (/ mdet ROps A) (vcross ROps i1 i2))).
Proof.
  intros HL Hf M1 M2 C Hc. use_lattice HL. destruct Hf; subst f; split; intros E; try discriminate.
  - eapply cross_indices_direct; eauto.
  - eapply cross_indices_reciprocal; eauto.
Qed.

Lemma m_cross_perp (u v : V3) :
  vdot ROps (vcross ROps u v) u = 0 /\ vdot ROps (vcross ROps u v) v = 0.
Proof. split; [apply vcross_perp_l | apply vcross_perp_r]. Qed.

Lemma m_align_lefthanded (A N : M3) (fracs : list V3) :
  mdet ROps A < 0 -> align ROps A = Ok N ->
  (exists z : R, vmat ROps (0, 0, 1) (mtr (minv ROps N)) = (0, 0, z) /\ z < 0) /\
  set_structure ROps A fracs = Err LatticeError.
Proof.
  intros H HN; split; [exact (align_cstar_lefthanded A N H HN) | exact (m_set_structure_lefthanded A fracs H)].
Qed.

(* ---------------- non-vacuity witnesses ---------------- *)

Definition tricl : M3 := ((3, 0, 0), (-1, 4, 0), (1, 1, 5)).
Definition rotz90 : M3 := ((0, 1, 0), (-1, 0, 0), (0, 0, 1)).

Lemma tricl_ok : lattice_of_base ROps tricl = Ok (Lat tricl) /\ mdet ROps tricl = 60.
Proof.
  assert (E : mdet ROps tricl = 60) by (unfold tricl; lunfold; ring).
  split; [apply lattice_of_base_ok; rewrite E; unfold eps8R; lra | exact E].
Qed.

Lemma rotz90_rotation : rotation rotz90.
Proof. unfold rotation, rotz90; split; lunfold; [tuple_eq|]; ring. Qed.
