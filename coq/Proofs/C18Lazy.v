(* C18 -- the lazy wrappers of Model/C18Model.v against their eager modes, for
   every chunk size k >= 1, every pair of shapes and all operands. *)
From Coq Require Import Reals ZArith Lra Bool List Arith Lia.
From Verif Require Import Scalar RInst NdIndex QuatKernels Conversions Quat QuatAlg RotArr
  C18Dask C18Nd C18Model C18NdP C18Alg.
Import ListNotations.
Local Open Scope R_scope.

Notation Rr := (rot (T:=R)).

(* ---------------------------------------------------------------- helpers on outer *)
Lemma outer_ext_in {A B C} (f g : A -> B -> C) xs ys :
  (forall a b, In a xs -> In b ys -> f a b = g a b) -> outer f xs ys = outer g xs ys.
Proof.
  intros H. unfold outer. rewrite !flat_map_concat_map. f_equal.
  apply map_ext_in. intros a Ha. apply map_ext_in. intros b Hb. apply H; assumption.
Qed.

Lemma outer_ext {A B C} (f g : A -> B -> C) xs ys :
  (forall a b, f a b = g a b) -> outer f xs ys = outer g xs ys.
Proof. intros H. apply outer_ext_in. intros; apply H. Qed.

Lemma outer_map_l {A A' B C} (f : A' -> B -> C) (h : A -> A') xs ys :
  outer f (map h xs) ys = outer (fun a b => f (h a) b) xs ys.
Proof. unfold outer. induction xs as [|x xs IH]; simpl; [reflexivity|]. rewrite IH. reflexivity. Qed.

Lemma outer_map_r {A B B' C} (f : A -> B' -> C) (h : B -> B') xs ys :
  outer f xs (map h ys) = outer (fun a b => f a (h b)) xs ys.
Proof.
  unfold outer. induction xs as [|x xs IH]; simpl; [reflexivity|]. rewrite IH, map_map. reflexivity.
Qed.

Lemma map_outer {A B C D} (g : C -> D) (f : A -> B -> C) xs ys :
  map g (outer f xs ys) = outer (fun a b => g (f a b)) xs ys.
Proof.
  unfold outer. induction xs as [|x xs IH]; simpl; [reflexivity|]. rewrite map_app, map_map, IH. reflexivity.
Qed.

Lemma combine_app {A B} (l1 l2 : list A) (m1 m2 : list B) :
  length l1 = length m1 -> combine (l1 ++ l2) (m1 ++ m2) = combine l1 m1 ++ combine l2 m2.
Proof.
  revert m1; induction l1 as [|x l1 IH]; intros [|y m1] H; simpl in *; try discriminate; [reflexivity|].
  f_equal. apply IH. lia.
Qed.

Lemma combine_map2 {A B C} (f : A -> B) (g : A -> C) (l : list A) :
  combine (map f l) (map g l) = map (fun a => (f a, g a)) l.
Proof. induction l as [|x l IH]; simpl; [reflexivity|]. rewrite IH. reflexivity. Qed.

Lemma combine_outer {A B C D} (f : A -> B -> C) (g : A -> B -> D) xs ys :
  combine (outer f xs ys) (outer g xs ys) = outer (fun a b => (f a b, g a b)) xs ys.
Proof.
  unfold outer. induction xs as [|x xs IH]; simpl; [reflexivity|].
  rewrite combine_app by (rewrite !map_length; reflexivity). rewrite IH, combine_map2. reflexivity.
Qed.

Lemma zip_with_app' {A B C} (f : A -> B -> C) (l1 l2 : list A) (m1 m2 : list B) :
  length l1 = length m1 -> zip_with f (l1 ++ l2) (m1 ++ m2) = zip_with f l1 m1 ++ zip_with f l2 m2.
Proof. apply zip_with_app. Qed.

Lemma zip_with_map2 {A B C D} (h : B -> C -> D) (f : A -> B) (g : A -> C) (l : list A) :
  zip_with h (map f l) (map g l) = map (fun a => h (f a) (g a)) l.
Proof. induction l as [|x l IH]; simpl; [reflexivity|]. rewrite IH. reflexivity. Qed.

Lemma zip_with_outer {A B C D E} (h : C -> D -> E) (f : A -> B -> C) (g : A -> B -> D) xs ys :
  zip_with h (outer f xs ys) (outer g xs ys) = outer (fun a b => h (f a b) (g a b)) xs ys.
Proof.
  unfold outer. induction xs as [|x xs IH]; simpl; [reflexivity|].
  rewrite zip_with_app by (rewrite !map_length; reflexivity). rewrite IH, zip_with_map2. reflexivity.
Qed.

Definition all_unit (A : list Rr) : Prop := Forall (fun r => qnorm2 ROps (fst r) = 1) A.
Definition all_unitq (A : list Rq) : Prop := Forall (fun q => qnorm2 ROps q = 1) A.
Definition all_proper (A : list Rr) : Prop := Forall (fun r => snd r = false) A.

(* ---------------------------------------------------------------- Quaternion.outer *)
Theorem qq_outer_lazy_eq k sA sB (A B : list Rq) :
  (0 < k)%nat -> length A = size sA -> length B = size sB ->
  qq_outer_lazy ROps k sA sB A B = qq_outer_eager ROps A B.
Proof.
  intros Hk HA HB. unfold qq_outer_lazy, qq_outer_eager.
  rewrite blocked_outer_eq by assumption. apply outer_ext. apply dq_mul_eq.
Qed.

(* Quaternion.outer(Vector3d): every NON-ZERO quaternion (bare Quaternions need
   not be unit); the lazy path normalises first, as both eager backends do *)
Theorem qv_outer_lazy_eq k sA sV (A : list Rq) (V : list Rv) :
  (0 < k)%nat -> length A = size sA -> length V = size sV -> Forall (fun q => q <> zq ROps) A ->
  qv_outer_lazy ROps k sA sV A V = qv_outer_eager ROps A V.
Proof.
  intros Hk HA HV HN. unfold qv_outer_lazy, qv_outer_eager.
  rewrite blocked_outer_eq by (try rewrite map_length; assumption).
  rewrite outer_map_l. apply outer_ext_in. intros q v Hq _.
  rewrite Forall_forall in HN. apply dq_rot_qunit, HN, Hq.
Qed.

Theorem qv_outer_lazy_layout k sA sV (A : list Rq) (V : list Rv) i j d dv :
  (0 < k)%nat -> length A = size sA -> length V = size sV -> Forall (fun q => q <> zq ROps) A ->
  valid sA i -> valid sV j ->
  aget dv (sA ++ sV) (qv_outer_lazy ROps k sA sV A V) (i ++ j)
  = qv_mul_builtin ROps (aget d sA A i) (aget dv sV V j)
  /\ length (qv_outer_lazy ROps k sA sV A V) = size (sA ++ sV).
Proof.
  intros. rewrite qv_outer_lazy_eq by assumption. unfold qv_outer_eager, aget.
  apply outer_shaped; assumption.
Qed.

(* ---------------------------------------------------------------- Rotation.outer *)
Theorem rot_outer_lazy_eq k sA sB (A B : list Rr) :
  (0 < k)%nat -> length A = size sA -> length B = size sB ->
  rot_outer_lazy ROps k sA sB A B = rot_outer_eager ROps A B.
Proof.
  intros Hk HA HB. unfold rot_outer_lazy, rot_outer_eager, router.
  rewrite blocked_outer_eq by (try rewrite map_length; assumption).
  rewrite !outer_map_l, !outer_map_r, combine_outer. apply outer_ext. intros a b.
  unfold rmul. rewrite dq_mul_eq. reflexivity.
Qed.

Theorem rot_vouter_lazy_eq k sA sV (A : list Rr) (V : list Rv) :
  (0 < k)%nat -> length A = size sA -> length V = size sV -> all_unit A ->
  rot_vouter_lazy ROps k sA sV A V = rot_vouter_eager ROps A V.
Proof.
  intros Hk HA HV HU. unfold rot_vouter_lazy, rot_vouter_eager, vouter.
  rewrite blocked_outer_eq by (try rewrite map_length; assumption).
  rewrite outer_map_l, zip_with_outer. apply outer_ext_in. intros a v Ha _.
  unfold all_unit in HU. rewrite Forall_forall in HU.
  unfold flip_if, ract. rewrite dq_rot_unit by (apply HU; exact Ha). reflexivity.
Qed.

(* layout of the lazy results: indexed self.shape ++ other.shape, element
   (i ++ j) is the product of self[i] and other[j] *)
Theorem rot_outer_lazy_layout k sA sB (A B : list Rr) i j d :
  (0 < k)%nat -> length A = size sA -> length B = size sB -> valid sA i -> valid sB j ->
  aget d (sA ++ sB) (rot_outer_lazy ROps k sA sB A B) (i ++ j)
  = rmul ROps (aget d sA A i) (aget d sB B j)
  /\ length (rot_outer_lazy ROps k sA sB A B) = size (sA ++ sB).
Proof.
  intros. rewrite rot_outer_lazy_eq by assumption. unfold rot_outer_eager, router, aget.
  apply outer_shaped; assumption.
Qed.

Theorem rot_vouter_lazy_layout k sA sV (A : list Rr) (V : list Rv) i j d dv :
  (0 < k)%nat -> length A = size sA -> length V = size sV -> all_unit A -> valid sA i -> valid sV j ->
  aget dv (sA ++ sV) (rot_vouter_lazy ROps k sA sV A V) (i ++ j)
  = ract ROps (aget d sA A i) (aget dv sV V j)
  /\ length (rot_vouter_lazy ROps k sA sV A V) = size (sA ++ sV).
Proof.
  intros. rewrite rot_vouter_lazy_eq by assumption. unfold rot_vouter_eager, vouter, aget.
  apply outer_shaped; assumption.
Qed.

(* ---------------------------------------------------------------- Vector3d.dot_outer *)
Theorem vec_dot_outer_lazy_eq k sU sV (U V : list Rv) :
  (0 < k)%nat -> length U = size sU -> length V = size sV ->
  vec_dot_outer_lazy ROps k sU sV U V = vec_dot_outer_eager ROps U V.
Proof.
  intros Hk HU HV. unfold vec_dot_outer_lazy, vec_dot_outer_eager.
  rewrite blocked_outer_eq by assumption. apply outer_ext. apply dv_dot_eq.
Qed.

(* ---------------------------------------------------------------- Orientation *)
Lemma eager_order_swap ns no : eager_order ns no = swap_order ns no.
Proof. reflexivity. Qed.

(* what the lazy path computes, for all shapes: indexed self.shape ++ other.shape,
   the flag of the pair selects the symmetry elements *)
Theorem ori_lazy_char k ss so (X Y S : list Rr) i j :
  (0 < k)%nat -> length X = size ss -> length Y = size so -> valid ss i -> valid so j ->
  let r := ori_dot_outer_lazy ROps k ss so X Y S in
  fst r = ss ++ so /\ length (snd r) = size (ss ++ so) /\
  aget 0 (ss ++ so) (snd r) (i ++ j)
  = sym_dot_lazy ROps S (rmul ROps (aget (zq ROps, false) so Y j)
                                   (rinv ROps (aget (zq ROps, false) ss X i))).
Proof.
  intros Hk HX HY Hi Hj. unfold ori_dot_outer_lazy. cbv zeta. cbn [fst snd].
  rewrite eager_order_swap, tr_shape_swap.
  split; [reflexivity|]. split; [unfold transpose_nd; rewrite tab_length, tr_shape_swap; reflexivity|].
  change (o_ofZ ROps 0) with 0. rewrite transpose_swap by assumption.
  destruct (blocked_outer_layout
              (fun y x => sym_dot_lazy ROps S (dq_mul ROps (fst y) (qconj ROps (fst x)), xorb (snd y) (snd x)))
              (zr ROps) (zr ROps) 0 k so ss Y X j i)
    as [E _]; [assumption..|].
  cbv beta in E. rewrite dq_mul_eq in E. exact E.
Qed.

(* the eager path, all shapes: same layout, flags used *)
Theorem ori_eager_char ss so (X Y S : list Rr) i j :
  length X = size ss -> length Y = size so -> valid ss i -> valid so j ->
  let r := ori_dot_outer_eager ROps ss so X Y S in
  fst r = ss ++ so /\ length (snd r) = size (ss ++ so) /\
  aget 0 (ss ++ so) (snd r) (i ++ j)
  = sym_dot_eager ROps S (rmul ROps (aget (zq ROps, false) so Y j)
                                    (rinv ROps (aget (zq ROps, false) ss X i))).
Proof.
  intros HX HY Hi Hj. unfold ori_dot_outer_eager. cbv zeta. cbn [fst snd].
  rewrite eager_order_swap. split; [apply tr_shape_swap|].
  split; [unfold transpose_nd; rewrite tab_length, tr_shape_swap; reflexivity|].
  change (o_ofZ ROps 0) with 0. rewrite transpose_swap by assumption.
  rewrite map_outer.
  rewrite (outer_get (fun a b => sym_dot_eager ROps S (rmul ROps a b)) (zq ROps, false)
             (rinv ROps (zq ROps, false)) 0 so ss Y (map (rinv ROps) X) j i);
    try rewrite map_length; try assumption.
  rewrite aget_map. reflexivity.
Qed.

Lemma aget_Forall {A} (P : A -> Prop) d s xs idx :
  Forall P xs -> length xs = size s -> valid s idx -> P (aget d s xs idx).
Proof.
  intros HF HL Hv. unfold aget. rewrite Forall_forall in HF. apply HF. apply nth_In.
  rewrite HL. apply ravel_lt; assumption.
Qed.

(* layout of angle_with_outer: both modes return self.shape ++ other.shape, for
   every pair of shapes (any numbers of axes) *)
Theorem awo_layout k ss so (X Y S : list Rr) :
  fst (awo_lazy ROps k ss so X Y S) = ss ++ so /\ fst (awo_eager ROps ss so X Y S) = ss ++ so /\
  length (snd (awo_lazy ROps k ss so X Y S)) = size (ss ++ so) /\
  length (snd (awo_eager ROps ss so X Y S)) = size (ss ++ so).
Proof.
  unfold awo_lazy, awo_lazy_with, awo_eager, awo_eager_with, ori_dot_outer_lazy, ori_dot_outer_eager.
  cbv zeta. cbn [fst snd]. rewrite eager_order_swap, tr_shape_swap, !map_length.
  unfold transpose_nd. rewrite !tab_length, tr_shape_swap. repeat split; reflexivity.
Qed.

(* angle_with_outer(lazy=True, chunk_size=k) = angle_with_outer(lazy=False), shape
   and values, for every chunk size, every pair of shapes, ALL improper flags on
   self, other and the symmetry elements (unit quaternions, which orientations
   and symmetry elements hold) *)
Theorem awo_lazy_eq_eager k ss so (X Y S : list Rr) :
  (0 < k)%nat -> length X = size ss -> length Y = size so ->
  all_unit X -> all_unit Y -> all_unit S ->
  awo_lazy ROps k ss so X Y S = awo_eager ROps ss so X Y S.
Proof.
  intros Hk HX HY UX UY US.
  destruct (awo_layout k ss so X Y S) as [F1 [F2 [L1 L2]]].
  apply injective_projections; [rewrite F1, F2; reflexivity|].
  apply (shaped_ext (ss ++ so) _ _ (ang ROps 0)); [exact L1|exact L2|].
  intros idx Hv. destruct (valid_app_inv ss so idx Hv) as [Hi [Hj E]]. rewrite E.
  set (i := firstn (length ss) idx) in *. set (j := skipn (length ss) idx) in *. clearbody i j.
  unfold awo_lazy, awo_lazy_with, awo_eager, awo_eager_with. cbn [snd]. rewrite !aget_map. f_equal.
  destruct (ori_lazy_char k ss so X Y S i j Hk HX HY Hi Hj) as [_ [_ E1]].
  destruct (ori_eager_char ss so X Y S i j HX HY Hi Hj) as [_ [_ E2]].
  change (o_ofZ ROps 0) with 0 in *. rewrite E1, E2. clear E1 E2.
  pose proof (aget_Forall _ (zq ROps, false) so Y j UY HY Hj) as Uy.
  pose proof (aget_Forall _ (zq ROps, false) ss X i UX HX Hi) as Ux.
  destruct (aget (zq ROps, false) so Y j) as [y fy].
  destruct (aget (zq ROps, false) ss X i) as [x fx]. cbn [fst snd] in *.
  symmetry. apply sym_dot_eq.
  - unfold rmul, rinv. cbn [fst snd]. apply qmul_unit; [exact Uy|]. rewrite qnorm2_conj. exact Ux.
  - exact US.
Qed.

(* Orientation.get_distance_matrix = angle_with_outer(self, self) *)
Corollary odm_lazy_eq_eager k s (X S : list Rr) :
  (0 < k)%nat -> length X = size s -> all_unit X -> all_unit S ->
  awo_lazy ROps k s s X X S = awo_eager ROps s s X X S.
Proof. intros. apply awo_lazy_eq_eager; assumption. Qed.

(* the flags are used by both modes: identity symmetry, one-element self, one-element
   IMPROPER other -- angle pi in both modes (it was 0 in the lazy mode before the repair) *)
Theorem awo_improper_pair_pi :
  ang ROps (sym_dot_eager ROps [((1, 0, 0, 0), false)] ((1, 0, 0, 0), true)) = PI /\
  ang ROps (sym_dot_lazy ROps [((1, 0, 0, 0), false)] ((1, 0, 0, 0), true)) = PI /\
  ang ROps (sym_dot_lazy ROps [((1, 0, 0, 0), false)] ((1, 0, 0, 0), false)) = 0.
Proof.
  destruct sym_dot_improper_pair as [E1 [E2 E3]].
  rewrite E1, E2, E3. repeat split; try apply ang_0. apply ang_1.
Qed.

(* ---------------------------------------------------------------- Misorientation.get_distance_matrix *)
Lemma mis_dm_with_ext (h : R -> R) red red' M2 s (S : list Rr) :
  (forall l, red l = red' l) -> mis_dm_with ROps h red M2 s S = mis_dm_with ROps h red' M2 s S.
Proof.
  intros H. unfold mis_dm_with. apply tab_ext. intros idx _. f_equal.
  rewrite H. f_equal. apply map_ext. intros a. apply H.
Qed.

Theorem mis_dm_lazy_eq_spec (h : R -> R) k s (X S : list Rr) :
  (0 < k)%nat -> length X = size s ->
  mis_dm_lazy_with ROps h k s X S = mis_dm_spec_with ROps h s X S.
Proof.
  intros Hk HX. unfold mis_dm_lazy_with, mis_dm_spec_with. f_equal.
  rewrite blocked_outer_eq; try assumption.
  - rewrite (outer_ext (dq_mul ROps) (qmul ROps)) by apply dq_mul_eq.
    apply mis_dm_with_ext. intros l. apply chunked_lmax_eq. exact Hk.
  - unfold mis_M1. rewrite !outer_length, !map_length.
    change (size (length S :: s ++ [length S])) with (length S * size (s ++ [length S]))%nat.
    rewrite size_app. change (size [length S]) with (length S * 1)%nat. rewrite <- HX. rewrite Nat.mul_1_r, Nat.mul_assoc. reflexivity.
  - rewrite map_length. exact HX.
Qed.

Corollary mis_dm_chunk_independent k k' s (X S : list Rr) :
  (0 < k)%nat -> (0 < k')%nat -> length X = size s ->
  mis_dm_lazy ROps k s X S = mis_dm_lazy ROps k' s X S.
Proof. intros. unfold mis_dm_lazy. rewrite !mis_dm_lazy_eq_spec by assumption. reflexivity. Qed.

(* ---------------------------------------------------------------- chunk independence, all wrappers at once *)
Theorem lazy_chunk_independent k k' sA sB (A B : list Rr) (V : list Rv) (QA QB : list Rq) (U : list Rv) :
  (0 < k)%nat -> (0 < k')%nat ->
  length A = size sA -> length B = size sB -> length V = size sB ->
  length QA = size sA -> length QB = size sB -> length U = size sA ->
  rot_outer_lazy ROps k sA sB A B = rot_outer_lazy ROps k' sA sB A B /\
  rot_vouter_lazy ROps k sA sB A V = rot_vouter_lazy ROps k' sA sB A V /\
  qq_outer_lazy ROps k sA sB QA QB = qq_outer_lazy ROps k' sA sB QA QB /\
  qv_outer_lazy ROps k sA sB QA V = qv_outer_lazy ROps k' sA sB QA V /\
  vec_dot_outer_lazy ROps k sA sB U V = vec_dot_outer_lazy ROps k' sA sB U V /\
  (forall S, ori_dot_outer_lazy ROps k sA sB A B S = ori_dot_outer_lazy ROps k' sA sB A B S) /\
  (forall S, awo_lazy ROps k sA sB A B S = awo_lazy ROps k' sA sB A B S).
Proof.
  intros Hk Hk' HA HB HV HQA HQB HU.
  unfold rot_outer_lazy, rot_vouter_lazy, qq_outer_lazy, qv_outer_lazy, vec_dot_outer_lazy,
    awo_lazy, awo_lazy_with, ori_dot_outer_lazy. cbv zeta.
  repeat split; intros;
    rewrite !blocked_outer_eq by (repeat rewrite map_length; assumption);
    reflexivity.
Qed.
