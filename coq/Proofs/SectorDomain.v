(* The fundamental sectors the code builds ARE fundamental domains -- for every named point group and
   every Laue group produced by Symmetry.laue, except the listed defective ones, for which an exact
   direction without any equivalent in the closed sector is exhibited.  All sector normals and group
   operations are regenerated from /repo on every run (Gen/SectorCerts*.v, Gen/Groups.v). *)
From Coq Require Import Reals ZArith QArith List String Bool Lra.
From Verif Require Import Scalar RInst KField KtoR KSign QuatKernels Quat QuatAlg GroupK Groups SymDot SymDotR SymDotK
  SectorModel CoverCheck CoverSound SectorCertsAll
  SectorCerts00 SectorCertsOK00 SectorCerts01 SectorCertsOK01 SectorCerts02 SectorCertsOK02 SectorCerts03 SectorCertsOK03
  SectorCerts04 SectorCertsOK04 SectorCerts05 SectorCertsOK05 SectorCerts06 SectorCertsOK06 SectorCerts07 SectorCertsOK07.
Import ListNotations.
Local Open Scope R_scope.
Open Scope string_scope.

Lemma all_sector_certs_ok : Forall (fun L => forallb sc_ok L = true) all_sector_certs.
Proof.
  unfold all_sector_certs. repeat (apply Forall_cons; [shelve|]). apply Forall_nil.
  Unshelve.
  - exact sector_certs_ok_00.
  - exact sector_certs_ok_01.
  - exact sector_certs_ok_02.
  - exact sector_certs_ok_03.
  - exact sector_certs_ok_04.
  - exact sector_certs_ok_05.
  - exact sector_certs_ok_06.
  - exact sector_certs_ok_07.
Qed.

Lemma sc_ok_of sc : In sc (List.concat all_sector_certs) -> sc_ok sc = true.
Proof.
  intros H. apply in_concat in H. destruct H as [L [HL Hsc]].
  pose proof all_sector_certs_ok as A. rewrite Forall_forall in A. specialize (A L HL).
  rewrite forallb_forall in A. apply A. exact Hsc.
Qed.

Definition sc_ops (sc : sector_cert) : list krot := subject_ops (sc_name sc) (sc_laue sc).

(* 1. no gaps: every real direction has an equivalent in the closed sector *)
Theorem sector_covers sc : In sc (List.concat all_sector_certs) ->
  forall x : Rv, exists r, In r (sc_ops sc) /\ in_cone (sc_N sc) (ract ROps (rtoR r) x).
Proof.
  intros H x. apply sc_ok_of in H. unfold sc_ok in H.
  apply andb_prop in H. destruct H as [H _]. apply andb_prop in H. destruct H as [_ Ht].
  exact (tree_covers_everything _ _ _ Ht x).
Qed.

Lemma all2b_nth {A B} (f : A -> B -> bool) l1 l2 : all2b f l1 l2 = true ->
  forall a, In a l1 -> exists b, f a b = true.
Proof. intros H a Ha. destruct (all2b_In f l1 l2 H a Ha) as [b [_ Hb]]. exists b. exact Hb. Qed.

(* 2. no overlaps: a direction strictly inside the sector is moved out of the open sector by every
   operation other than the first (the identity) *)
Theorem sector_no_overlap sc : In sc (List.concat all_sector_certs) ->
  forall x : Rv, in_open_cone (sc_N sc) x ->
  forall r, In r (tl (sc_ops sc)) -> ~ in_open_cone (sc_N sc) (ract ROps (rtoR r) x).
Proof.
  intros H x Hx r Hr Hrx. apply sc_ok_of in H. unfold sc_ok in H.
  apply andb_prop in H. destruct H as [_ Hg].
  destruct (all2b_nth _ _ _ Hg r Hr) as [c Hc].
  exact (gordan_ok_sound _ _ _ Hc x Hx Hrx).
Qed.

Lemma sector_identity_first sc : In sc (List.concat all_sector_certs) ->
  exists r rest, sc_ops sc = r :: rest /\ rtoR r = (qone ROps, false).
Proof.
  intros H. apply sc_ok_of in H. unfold sc_ok in H.
  apply andb_prop in H. destruct H as [H _]. apply andb_prop in H. destruct H as [H _].
  apply andb_prop in H. destruct H as [H _]. unfold sc_ops. unfold identity_first in H.
  destruct (subject_ops (sc_name sc) (sc_laue sc)) as [|[q i] rest]; [discriminate|].
  exists (q, i), rest. split; [reflexivity|]. cbn [fst snd] in H. apply andb_prop in H. destruct H as [Hq Hi].
  apply kq_eqb_sound in Hq. unfold rtoR; cbn [fst snd]. rewrite Hq. destruct i; [discriminate|].
  unfold qone, qtoR. cbn [KOps o_ofZ]. rewrite !toR_ofZ. reflexivity.
Qed.

(* the closed-cone test implies the code's tolerance test for every positive tolerance *)
Lemma in_cone_in_sector (N : list kvec) (x : Rv) (tol : R) : 0 < tol -> in_cone N x ->
  in_sector ROps tol (map vtoR N) x = true.
Proof.
  intros Ht H. unfold in_sector. apply forallb_forall. intros n Hn. apply in_map_iff in Hn.
  destruct Hn as [m [<- Hm]]. specialize (H m Hm). rsimpl. apply Rltb_true. lra.
Qed.

(* ---- which subjects are certified, which are defective ---------------------------------- *)
Lemma sector_subjects_all_decided : subjects_covered (List.concat all_sector_certs) sector_defects = true.
Proof. vm_compute. reflexivity. Qed.

Lemma sector_cert_count : List.length (List.concat all_sector_certs) = 70%nat.
Proof. vm_compute. reflexivity. Qed.

Lemma sector_group_count : List.length groups = 38%nat.
Proof. vm_compute. reflexivity. Qed.

Definition known_defective_sectors : list (string * bool) :=
  [("211", true); ("m11", false); ("m11", true); ("1m1", false); ("312", true); ("-6m2", false)].

Lemma sector_defects_are_the_known_ones :
  map (fun sd => (sd_name sd, sd_laue sd)) sector_defects = known_defective_sectors.
Proof. vm_compute. reflexivity. Qed.

Lemma sector_defects_ok : forallb sd_ok sector_defects = true.
Proof. vm_compute. reflexivity. Qed.

(* a gap witness over the reals: NO operation of the group maps the direction into the closed sector *)
Theorem sector_gap_sound sd : sd_ok sd = true -> sd_op sd = 0%nat ->
  forall r, In r (subject_ops (sd_name sd) (sd_laue sd)) ->
    ~ in_cone (sd_N sd) (ract ROps (rtoR r) (vtoR (kv_ofQ (sd_dir sd)))).
Proof.
  unfold sd_ok. intros H E r Hr Hin. rewrite E in H. apply andb_prop in H. destruct H as [_ H].
  rewrite forallb_forall in H. specialize (H r Hr). apply existsb_exists in H. destruct H as [n [Hn Hneg]].
  apply Kneg_sound in Hneg. rewrite vdot_toR, vtoR_ract in Hneg. specialize (Hin n Hn). lra.
Qed.

Theorem sector_defects_are_gaps : forall sd, In sd sector_defects ->
  sd_op sd = 0%nat /\
  forall r, In r (subject_ops (sd_name sd) (sd_laue sd)) ->
    ~ in_cone (sd_N sd) (ract ROps (rtoR r) (vtoR (kv_ofQ (sd_dir sd)))).
Proof.
  intros sd Hsd.
  assert (Hop : sd_op sd = 0%nat).
  { assert (A : forallb (fun sd => Nat.eqb (sd_op sd) 0) sector_defects = true) by (vm_compute; reflexivity).
    rewrite forallb_forall in A. apply Nat.eqb_eq. apply A. exact Hsd. }
  split; [exact Hop|]. apply sector_gap_sound; [|exact Hop].
  pose proof sector_defects_ok as A. rewrite forallb_forall in A. apply A. exact Hsd.
Qed.
