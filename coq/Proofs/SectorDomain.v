(* The fundamental sectors the code builds ARE fundamental domains -- for every named point group and
   every Laue group produced by Symmetry.laue, except the listed defective ones, for which an exact
   direction without any equivalent in the closed sector is exhibited.  All sector normals and group
   operations are regenerated from /repo on every run (Gen/SectorCerts*.v, Gen/Groups.v). *)
From Coq Require Import Reals ZArith QArith List String Bool Lra.
From Verif Require Import Scalar RInst KField KtoR KSign QuatKernels Quat QuatAlg GroupK Groups SymDot SymDotR SymDotK
  SectorModel CoverCheck CoverSound ExistSound SectorCertsAll
  SectorCerts00 SectorCertsOK00 SectorCerts01 SectorCertsOK01 SectorCerts02 SectorCertsOK02 SectorCerts03 SectorCertsOK03
  SectorCerts04 SectorCertsOK04 SectorCerts05 SectorCertsOK05 SectorCerts06 SectorCertsOK06 SectorCerts07 SectorCertsOK07.
Import ListNotations.
Local Open Scope R_scope.
Open Scope string_scope.

Lemma all_sector_certs_ok : Forall (fun L => forallb sc_ok L = true) all_sector_certs.
Proof.
  unfold all_sector_certs. repeat (apply Forall_cons; [shelve|]). apply Forall_nil.
  Unshelve.
  - exact sector_certs_ok_00.
  - exact sector_certs_ok_01.
  - exact sector_certs_ok_02.
  - exact sector_certs_ok_03.
  - exact sector_certs_ok_04.
  - exact sector_certs_ok_05.
  - exact sector_certs_ok_06.
  - exact sector_certs_ok_07.
Qed.

Lemma sc_ok_of sc : In sc (List.concat all_sector_certs) -> sc_ok sc = true.
Proof.
  intros H. apply in_concat in H. destruct H as [L [HL Hsc]].
  pose proof all_sector_certs_ok as A. rewrite Forall_forall in A. specialize (A L HL).
  rewrite forallb_forall in A. apply A. exact Hsc.
Qed.

Definition sc_ops (sc : sector_cert) : list krot := subject_ops (sc_name sc) (sc_laue sc).

(* 1. no gaps: every real direction has an equivalent in the closed sector *)
Theorem sector_covers sc : In sc (List.concat all_sector_certs) ->
  forall x : Rv, exists r, In r (sc_ops sc) /\ in_cone (sc_N sc) (ract ROps (rtoR r) x).
Proof.
  intros H x. apply sc_ok_of in H. unfold sc_ok in H.
  apply andb_prop in H. destruct H as [H _]. apply andb_prop in H. destruct H as [_ Ht].
  exact (tree_covers_everything _ _ _ Ht x).
Qed.

Lemma all2b_nth {A B} (f : A -> B -> bool) l1 l2 : all2b f l1 l2 = true ->
  forall a, In a l1 -> exists b, f a b = true.
Proof. intros H a Ha. destruct (all2b_In f l1 l2 H a Ha) as [b [_ Hb]]. exists b. exact Hb. Qed.

(* 2. no overlaps: a direction strictly inside the sector is moved out of the open sector by every
   operation other than the first (the identity) *)
Theorem sector_no_overlap sc : In sc (List.concat all_sector_certs) ->
  forall x : Rv, in_open_cone (sc_N sc) x ->
  forall r, In r (tl (sc_ops sc)) -> ~ in_open_cone (sc_N sc) (ract ROps (rtoR r) x).
Proof.
  intros H x Hx r Hr Hrx. apply sc_ok_of in H. unfold sc_ok in H.
  apply andb_prop in H. destruct H as [_ Hg].
  destruct (all2b_nth _ _ _ Hg r Hr) as [c Hc].
  exact (gordan_ok_sound _ _ _ Hc x Hx Hrx).
Qed.

Lemma sector_identity_first sc : In sc (List.concat all_sector_certs) ->
  exists r rest, sc_ops sc = r :: rest /\ rtoR r = (qone ROps, false).
Proof.
  intros H. apply sc_ok_of in H. unfold sc_ok in H.
  apply andb_prop in H. destruct H as [H _]. apply andb_prop in H. destruct H as [H _].
  apply andb_prop in H. destruct H as [H _]. apply andb_prop in H. destruct H as [H _].
  apply andb_prop in H. destruct H as [H _]. unfold sc_ops. unfold identity_first in H.
  destruct (subject_ops (sc_name sc) (sc_laue sc)) as [|[q i] rest]; [discriminate|].
  exists (q, i), rest. split; [reflexivity|]. cbn [fst snd] in H. apply andb_prop in H. destruct H as [Hq Hi].
  apply kq_eqb_sound in Hq. unfold rtoR; cbn [fst snd]. rewrite Hq. destruct i; [discriminate|].
  unfold qone, qtoR. cbn [KOps o_ofZ]. rewrite !toR_ofZ. reflexivity.
Qed.

(* 3. exactly one: if two operations both map a direction strictly inside the sector, they are the same operation
   (same improper flag, quaternions equal up to the overall sign) *)
Lemma sc_group_facts sc : In sc (List.concat all_sector_certs) ->
  kunit (sc_ops sc) = true /\ kclosed (sc_ops sc) = true /\ kinv_closed (sc_ops sc) = true.
Proof.
  intros H. apply sc_ok_of in H. unfold sc_ok in H. fold (sc_ops sc) in H.
  apply andb_prop in H. destruct H as [H _]. apply andb_prop in H. destruct H as [H _].
  apply andb_prop in H. destruct H as [H Hi]. apply andb_prop in H. destruct H as [H Hc].
  apply andb_prop in H. destruct H as [_ Hu]. auto.
Qed.

Lemma kunit_sound G r : kunit G = true -> In r G -> qnorm2 ROps (fst (rtoR r)) = 1.
Proof.
  unfold kunit. intros H Hr. rewrite forallb_forall in H. specialize (H r Hr). apply Keqb_sound in H.
  destruct r as [[[[a b] c] d] i]. unfold rtoR, qtoR, qnorm2 in *; cbn [fst snd] in *.
  cbn [KOps o_add o_mul] in H. rewrite !toR_add, !toR_mul, toR_K1 in H. rsimpl. exact H.
Qed.

Lemma rtoR_kmul r s : rtoR (kmul r s) = rmul ROps (rtoR r) (rtoR s).
Proof. destruct r as [p i], s as [q j]. unfold kmul, rmul, rtoR; cbn [fst snd]. rewrite qtoR_mul. reflexivity. Qed.
Lemma rtoR_kinv r : rtoR (kinv r) = rinv ROps (rtoR r).
Proof. destruct r as [p i]. unfold kinv, rinv, rtoR; cbn [fst snd]. rewrite qtoR_conj. reflexivity. Qed.

Lemma ract_req (u v : rot (T:=R)) (x : Rv) : req u v -> ract ROps u x = ract ROps v x.
Proof.
  destruct u as [p i], v as [q j]. unfold req, ract; cbn [fst snd]. intros [-> [->| ->]]; rewrite ?qrot_neg; reflexivity.
Qed.

Lemma unit_quot (qs qr : quat (T:=R)) : qnorm2 ROps qr = 1 ->
  qmul ROps qs (qconj ROps qr) = qone ROps \/ qmul ROps qs (qconj ROps qr) = qneg ROps (qone ROps) ->
  qs = qr \/ qs = qneg ROps qr.
Proof.
  intros U H.
  assert (E : qs = qmul ROps (qmul ROps qs (qconj ROps qr)) qr).
  { rewrite qmul_assoc, qmul_conj_l, U.
    replace (qscale ROps 1 (qone ROps)) with (qone ROps) by (unfold qscale, qone; rsimpl; tuple_eq; ring).
    rewrite qmul_one_r. reflexivity. }
  destruct H as [H|H]; rewrite H in E; [left|right]; rewrite E.
  - apply qmul_one_l.
  - rewrite qmul_neg_l, qmul_one_l. reflexivity.
Qed.

Theorem sector_unique_operation sc : In sc (List.concat all_sector_certs) ->
  forall (x : Rv) r s, In r (sc_ops sc) -> In s (sc_ops sc) ->
  in_open_cone (sc_N sc) (ract ROps (rtoR r) x) -> in_open_cone (sc_N sc) (ract ROps (rtoR s) x) ->
  req (rtoR s) (rtoR r).
Proof.
  intros Hsc x r s Hr Hs Or Os.
  destruct (sc_group_facts sc Hsc) as [Hu [Hc Hi]].
  pose proof (kunit_sound _ r Hu Hr) as Ur. pose proof (kunit_sound _ s Hu Hs) as Us.
  (* t ~ s * r^-1 is a listed operation *)
  unfold kinv_closed in Hi. rewrite forallb_forall in Hi. specialize (Hi r Hr).
  unfold kmem in Hi. apply existsb_exists in Hi. destruct Hi as [ri [Hri Eri]].
  unfold kclosed in Hc. rewrite forallb_forall in Hc. specialize (Hc s Hs). rewrite forallb_forall in Hc. specialize (Hc ri Hri).
  unfold kmem in Hc. apply existsb_exists in Hc. destruct Hc as [t [Ht Et]].
  apply kr_eqb_sound in Eri, Et. rewrite rtoR_kinv in Eri. rewrite rtoR_kmul in Et.
  pose proof (kunit_sound _ ri Hu Hri) as Uri.
  (* its action on y = r x is s x *)
  set (y := ract ROps (rtoR r) x) in *.
  assert (Ey : ract ROps (rtoR t) y = ract ROps (rtoR s) x).
  { rewrite <- (ract_req _ _ y Et). rewrite ract_mul by assumption.
    rewrite <- (ract_req _ _ y Eri). unfold y. rewrite ract_inv by assumption. reflexivity. }
  (* t is the first operation (the identity), otherwise the sectors overlap *)
  destruct (sector_identity_first sc Hsc) as [e [rest [Eops Ee]]].
  rewrite Eops in Ht. destruct Ht as [<-|Htl].
  - (* s * ri = +-1 as rotations, hence s = +- r *)
    rewrite Ee in Et. destruct Et as [Fl Q]. destruct Eri as [Fl' Q'].
    destruct (rtoR s) as [qs fs], (rtoR r) as [qr fr], (rtoR ri) as [qi fi]. cbn [fst snd rmul rinv] in *.
    split.
    + destruct fs, fi, fr; cbn in *; congruence.
    + apply (unit_quot qs qr Ur).
      destruct Q' as [E|E].
      * rewrite E. exact Q.
      * assert (E2 : qi = qneg ROps (qconj ROps qr)) by (rewrite E, qneg_invol; reflexivity).
        rewrite E2, qmul_neg_r in Q. destruct Q as [Q|Q]; [right|left].
        { rewrite <- Q, qneg_invol. reflexivity. }
        { rewrite <- (qneg_invol (qmul ROps qs (qconj ROps qr))), Q, qneg_invol. reflexivity. }
  - exfalso. apply (sector_no_overlap sc Hsc y Or t); [rewrite Eops; exact Htl|]. rewrite Ey. exact Os.
Qed.

(* 4. equivalent directions have ONE representative strictly inside the sector: if r maps x and s maps the
   equivalent g * x strictly inside, the two images are the same direction -- whatever rule picks r and s *)
Theorem sector_representative_unique sc : In sc (List.concat all_sector_certs) ->
  forall (x : Rv) g r s, In g (sc_ops sc) -> In r (sc_ops sc) -> In s (sc_ops sc) ->
  in_open_cone (sc_N sc) (ract ROps (rtoR r) x) ->
  in_open_cone (sc_N sc) (ract ROps (rtoR s) (ract ROps (rtoR g) x)) ->
  ract ROps (rtoR s) (ract ROps (rtoR g) x) = ract ROps (rtoR r) x.
Proof.
  intros Hsc x g r s Hg Hr Hs Or Os.
  destruct (sc_group_facts sc Hsc) as [Hu [Hc _]].
  pose proof (kunit_sound _ g Hu Hg) as Ug. pose proof (kunit_sound _ s Hu Hs) as Us.
  unfold kclosed in Hc. rewrite forallb_forall in Hc. specialize (Hc s Hs). rewrite forallb_forall in Hc. specialize (Hc g Hg).
  unfold kmem in Hc. apply existsb_exists in Hc. destruct Hc as [t [Ht Et]].
  apply kr_eqb_sound in Et. rewrite rtoR_kmul in Et.
  assert (E : ract ROps (rtoR t) x = ract ROps (rtoR s) (ract ROps (rtoR g) x)).
  { rewrite <- (ract_req _ _ x Et). apply ract_mul; assumption. }
  rewrite <- E in Os |- *.
  apply ract_req. exact (sector_unique_operation sc Hsc x r t Hr Ht Or Os).
Qed.

(* the closed-cone test implies the code's tolerance test for every positive tolerance *)
Lemma in_cone_in_sector (N : list kvec) (x : Rv) (tol : R) : 0 < tol -> in_cone N x ->
  in_sector ROps tol (map vtoR N) x = true.
Proof.
  intros Ht H. unfold in_sector. apply forallb_forall. intros n Hn. apply in_map_iff in Hn.
  destruct Hn as [m [<- Hm]]. specialize (H m Hm). rsimpl. apply Rltb_true. lra.
Qed.

(* ---- which subjects are certified, which are defective ---------------------------------- *)
Lemma sector_subjects_all_decided : subjects_covered (List.concat all_sector_certs) sector_defects = true.
Proof. vm_compute. reflexivity. Qed.

Lemma sector_cert_count : List.length (List.concat all_sector_certs) = 70%nat.
Proof. vm_compute. reflexivity. Qed.

Lemma sector_group_count : List.length groups = 38%nat.
Proof. vm_compute. reflexivity. Qed.

Definition known_defective_sectors : list (string * bool) :=
  [("211", true); ("m11", false); ("m11", true); ("1m1", false); ("312", true); ("-6m2", false)].

Lemma sector_defects_are_the_known_ones :
  map (fun sd => (sd_name sd, sd_laue sd)) sector_defects = known_defective_sectors.
Proof. vm_compute. reflexivity. Qed.

Lemma sector_defects_ok : forallb sd_ok sector_defects = true.
Proof. vm_compute. reflexivity. Qed.

(* a gap witness over the reals: NO operation of the group maps the direction into the closed sector *)
Theorem sector_gap_sound sd : sd_ok sd = true -> sd_op sd = 0%nat ->
  forall r, In r (subject_ops (sd_name sd) (sd_laue sd)) ->
    ~ in_cone (sd_N sd) (ract ROps (rtoR r) (vtoR (kv_ofQ (sd_dir sd)))).
Proof.
  unfold sd_ok. intros H E r Hr Hin. rewrite E in H. apply andb_prop in H. destruct H as [_ H].
  rewrite forallb_forall in H. specialize (H r Hr). apply existsb_exists in H. destruct H as [n [Hn Hneg]].
  apply Kneg_sound in Hneg. rewrite vdot_toR, vtoR_ract in Hneg. specialize (Hin n Hn). lra.
Qed.

Theorem sector_defects_are_gaps : forall sd, In sd sector_defects ->
  sd_op sd = 0%nat /\
  forall r, In r (subject_ops (sd_name sd) (sd_laue sd)) ->
    ~ in_cone (sd_N sd) (ract ROps (rtoR r) (vtoR (kv_ofQ (sd_dir sd)))).
Proof.
  intros sd Hsd.
  assert (Hop : sd_op sd = 0%nat).
  { assert (A : forallb (fun sd => Nat.eqb (sd_op sd) 0) sector_defects = true) by (vm_compute; reflexivity).
    rewrite forallb_forall in A. apply Nat.eqb_eq. apply A. exact Hsd. }
  split; [exact Hop|]. apply sector_gap_sound; [|exact Hop].
  pose proof sector_defects_ok as A. rewrite forallb_forall in A. apply A. exact Hsd.
Qed.
