(* C11 -- selection proofs: data slices are the bounding box, exact
   characterisation of the slice path (intersection with the map being
   indexed), mask and phase paths, simulation of the reference by the model,
   induction over selection histories. *)
From Coq Require Import String Ascii ZArith QArith Qround List Bool Lia Arith.
From Verif Require Import NdIndex C11CMap C11Nd.
Import ListNotations.
Close Scope Q_scope.
Open Scope nat_scope.

(* --------------------------------------------------- well-formed grids *)
Definition axis_ok (s : list nat) (d : nat) (a : list Q * Q) : Prop :=
  length (fst a) = size s /\
  (forall p, p < size s ->
     rhe ((nth p (fst a) 0%Q - qminl (fst a)) / snd a)%Q = Z.of_nat (ix s d p) /\
     rhe ((nth p (fst a) 0%Q - qminl (fst a)) / snd a + 1)%Q = (Z.of_nat (ix s d p) + 1)%Z) /\
  (forall p q, p < size s -> q < size s -> ix s d p <= ix s d q ->
     (nth p (fst a) 0%Q <= nth q (fst a) 0%Q)%Q).

Definition phases_ok (phases : list (Z * string)) : Prop :=
  phases <> [] /\ forall ph, In ph phases -> is_indexed_kw (snd ph) = false.

Definition guard (g : grid) (ids : list nat) (k : key) : Prop :=
  match k with
  | KSel _ => True
  | KPhase _ => phases_ok (g_phases g)
  | KMask _ => True
  end.

Fixpoint hist_guard (g : grid) (ids : list nat) (ops : list key) : Prop :=
  match ops with
  | [] => True
  | k :: rest => guard g ids k /\
                 forall ids', ref_getitem g ids k = Ok ids' -> hist_guard g ids' rest
  end.

Lemma memb_In i I : memb i I = true <-> In i I.
Proof.
  unfold memb. rewrite existsb_exists. split.
  - intros [x [Hx E]]. apply Nat.eqb_eq in E. subst; assumption.
  - intros H. exists i. split; [assumption | apply Nat.eqb_refl].
Qed.

Lemma phases_okb_ok ph : phases_okb ph = true -> phases_ok ph.
Proof.
  unfold phases_okb, phases_ok. rewrite andb_true_iff, negb_true_iff, Nat.eqb_neq, forallb_forall.
  intros [H1 H2]. split.
  - intros E; subst; simpl in H1; lia.
  - intros p Hp. specialize (H2 p Hp). rewrite negb_true_iff in H2. assumption.
Qed.

Lemma guardb_guard g ids k : guardb g ids k = true -> guard g ids k.
Proof.
  destruct k; simpl; intros H; [exact I | exact I | apply phases_okb_ok; assumption].
Qed.

Lemma hist_guardb_guard g ids ops : hist_guardb g ids ops = true -> hist_guard g ids ops.
Proof.
  revert ids; induction ops as [|k rest IH]; intros ids H; simpl in *; [exact I|].
  apply andb_true_iff in H as [H1 H2]. split; [apply guardb_guard; assumption|].
  intros ids' E. rewrite E in H2. apply IH; assumption.
Qed.

Section Sel.
Context {V R : Type}.
Notation cmap := (cmap V R).

Definition grid_ok (m : cmap) : Prop :=
  length (axes m) = length (oshape m) /\
  forall d a, nth_error (axes m) d = Some a -> axis_ok (oshape m) d a.

Definition wf (m : cmap) : Prop :=
  length (ind m) = size (oshape m) /\ length (pid m) = size (oshape m) /\ grid_ok m.

(* all arrays but the mask are the same objects *)
Definition same_arrays (m m' : cmap) : Prop := m' = set_ind m (ind m').

Lemma axis_okb_ok s d a : axis_okb s d a = true -> axis_ok s d a.
Proof.
  unfold axis_okb, axis_ok. rewrite andb_true_iff, Nat.eqb_eq, forallb_forall.
  intros [Hl H]. split; [assumption|]. split.
  - intros p Hp. specialize (H p ltac:(apply in_seq; lia)).
    rewrite !andb_true_iff, !Z.eqb_eq in H. tauto.
  - intros p q Hp Hq Hle. specialize (H p ltac:(apply in_seq; lia)).
    rewrite !andb_true_iff, forallb_forall in H. destruct H as [_ H].
    specialize (H q ltac:(apply in_seq; lia)).
    apply Nat.leb_le in Hle. rewrite Hle in H. simpl in H. apply Qle_bool_iff; assumption.
Qed.

Lemma grid_okb_ok (m : cmap) : grid_okb m = true -> grid_ok m.
Proof.
  unfold grid_okb, grid_ok. rewrite andb_true_iff, Nat.eqb_eq, forallb_forall.
  intros [Hl H]. split; [assumption|]. intros d a Hd.
  assert (d < length (oshape m)).
  { rewrite <- Hl. apply nth_error_Some. congruence. }
  specialize (H d ltac:(apply in_seq; lia)). rewrite Hd in H. apply axis_okb_ok; assumption.
Qed.

Lemma wfb_wf (m : cmap) : wfb m = true -> wf m.
Proof.
  unfold wfb, wf. rewrite !andb_true_iff, !Nat.eqb_eq. intros [[H1 H2] H3].
  split; [assumption|]. split; [assumption|]. apply grid_okb_ok; assumption.
Qed.

Lemma wf_set_ind m i : wf m -> length i = length (ind m) -> wf (set_ind m i).
Proof.
  intros (H1 & H2 & H3) Hl. unfold wf. simpl.
  split; [congruence|]. split; [assumption|]. exact H3.
Qed.

(* ------------------------------------------------------- bounding box *)
Lemma map_seq_nth {A} (f : nat -> A) n d dflt : d < n -> nth d (map f (seq 0 n)) dflt = f d.
Proof.
  intros H. rewrite (nth_indep _ dflt (f 0)) by (rewrite map_length, seq_length; assumption).
  rewrite map_nth, seq_nth by assumption. reflexivity.
Qed.

Lemma bbox_length s ids : length (bbox s ids) = length s.
Proof. unfold bbox. rewrite map_length, seq_length. reflexivity. Qed.

Lemma bbox_nth s ids d : d < length s ->
  nth d (bbox s ids) (0, 0) = (nminl (map (ix s d) ids), S (nmaxl (map (ix s d) ids))).
Proof. intros H. unfold bbox. rewrite map_seq_nth by assumption. reflexivity. Qed.

Lemma unravel_nth s p d : nth d (unravel s p) 0 = ix s d p.
Proof. reflexivity. Qed.

Lemma in_win_spec s p bb :
  length bb = length s ->
  (in_win (unravel s p) bb = true <->
   forall d, d < length s -> fst (nth d bb (0, 0)) <= ix s d p < snd (nth d bb (0, 0))).
Proof.
  intros Hl. unfold in_win. rewrite (forallb2_nth _ _ _ 0 (0, 0)), unravel_length.
  split.
  - intros [_ H] d Hd. specialize (H d Hd). rewrite unravel_nth in H.
    apply andb_true_iff in H as [Ha Hb]. apply Nat.leb_le in Ha. apply Nat.ltb_lt in Hb. lia.
  - intros H. split; [congruence|]. intros d Hd. specialize (H d Hd). rewrite unravel_nth.
    apply andb_true_iff. split; [apply Nat.leb_le | apply Nat.ltb_lt]; lia.
Qed.

Lemma ids_in_bbox s ids p : In p ids -> in_win (unravel s p) (bbox s ids) = true.
Proof.
  intros Hin. apply in_win_spec; [apply bbox_length|].
  intros d Hd. rewrite bbox_nth by assumption. simpl.
  assert (Hi : In (ix s d p) (map (ix s d) ids)) by (apply in_map; assumption).
  pose proof (nminl_le _ _ Hi). pose proof (nmaxl_ge _ _ Hi). lia.
Qed.

Lemma bbox_bounds s ids d :
  ids <> [] -> (forall p, In p ids -> p < size s) -> d < length s ->
  let w := nth d (bbox s ids) (0, 0) in fst w < snd w /\ snd w <= nth d s 0.
Proof.
  intros Hne Hlt Hd. rewrite bbox_nth by assumption. simpl.
  assert (Hm : map (ix s d) ids <> []) by (destruct ids; [congruence | discriminate]).
  pose proof (nmaxl_In _ Hm) as Hmax. pose proof (nminl_In _ Hm) as Hmin.
  pose proof (nminl_le _ _ Hmax). split; [lia|].
  apply in_map_iff in Hmax as [p [E Hp]]. rewrite <- E.
  apply ix_lt; [apply Hlt; assumption | assumption].
Qed.

(* ------------------------------------------ data slices = bounding box *)
Definition zbox (bb : list (nat * nat)) : list (Z * Z) :=
  map (fun w => (Z.of_nat (fst w), Z.of_nat (snd w))) bb.

Lemma slice1_bbox (m : cmap) d a :
  wf m -> acc_id m <> [] -> nth_error (axes m) d = Some a ->
  slice1 (ind m) true a =
  Ok (Z.of_nat (nminl (map (ix (oshape m) d) (acc_id m))),
      Z.of_nat (S (nmaxl (map (ix (oshape m) d) (acc_id m))))).
Proof.
  intros (Hi & _ & Hl & Hax) Hne Hd.
  destruct (Hax d a Hd) as (Hlen & Hrhe & Hmono).
  set (s := oshape m) in *. set (ids := acc_id m) in *.
  unfold slice1. destruct a as [c st]. simpl in *.
  assert (Hcs : mask_filter (ind m) c = map (fun i => nth i c 0%Q) ids).
  { apply mask_filter_ids. congruence. }
  assert (Hcne : mask_filter (ind m) c <> []).
  { apply mask_filter_nonempty; [congruence | exact Hne]. }
  assert (Hidlt : forall p, In p ids -> p < size s).
  { intros p Hp. apply ids_of_lt in Hp. congruence. }
  assert (Hm : map (ix s d) ids <> []) by (destruct ids; [congruence | discriminate]).
  assert (Hmatch : forall (cs : list Q) (X : Z * Z), cs <> [] ->
             match cs with [] => Err ValueError | _ :: _ => Ok X end = Ok X)
    by (intros [|? ?] X Hx; [congruence | reflexivity]).
  rewrite Hmatch by assumption. rewrite Hcs. f_equal. f_equal.
  - (* minimum *)
    pose proof (nminl_In _ Hm) as Hmin. apply in_map_iff in Hmin as [p2 [E2 Hp2]].
    assert (Hne' : map (fun i => nth i c 0%Q) ids <> []) by (rewrite <- Hcs; assumption).
    pose proof (qminl_In _ Hne') as Hq. apply in_map_iff in Hq as [p1 [E1 Hp1]].
    assert (Hle1 : (qminl (map (fun i => nth i c 0%Q) ids) <= nth p2 c 0%Q)%Q).
    { apply qminl_le. apply in_map_iff. exists p2. split; [reflexivity | assumption]. }
    assert (Hle2 : (nth p2 c 0%Q <= nth p1 c 0%Q)%Q).
    { apply Hmono; [apply Hidlt; assumption | apply Hidlt; assumption|].
      rewrite E2. apply nminl_le. apply in_map; assumption. }
    rewrite E1 in Hle2.
    assert (Heq : (qminl (map (fun i => nth i c 0%Q) ids) == nth p2 c 0%Q)%Q)
      by (apply Qle_antisym; assumption).
    rewrite (rhe_comp _ ((nth p2 c 0%Q - qminl c) / st)%Q) by (rewrite Heq; reflexivity).
    destruct (Hrhe p2 (Hidlt p2 Hp2)) as [H1 _]. rewrite H1, E2. reflexivity.
  - (* maximum *)
    pose proof (nmaxl_In _ Hm) as Hmax. apply in_map_iff in Hmax as [p2 [E2 Hp2]].
    assert (Hne' : map (fun i => nth i c 0%Q) ids <> []) by (rewrite <- Hcs; assumption).
    pose proof (qmaxl_In _ Hne') as Hq. apply in_map_iff in Hq as [p1 [E1 Hp1]].
    assert (Hle1 : (nth p2 c 0%Q <= qmaxl (map (fun i => nth i c 0%Q) ids))%Q).
    { apply qmaxl_ge. apply in_map_iff. exists p2. split; [reflexivity | assumption]. }
    assert (Hle2 : (nth p1 c 0%Q <= nth p2 c 0%Q)%Q).
    { apply Hmono; [apply Hidlt; assumption | apply Hidlt; assumption|].
      rewrite E2. apply nmaxl_ge. apply in_map; assumption. }
    rewrite E1 in Hle2.
    assert (Heq : (qmaxl (map (fun i => nth i c 0%Q) ids) == nth p2 c 0%Q)%Q)
      by (apply Qle_antisym; assumption).
    rewrite (rhe_comp _ ((nth p2 c 0%Q - qminl c) / st + 1)%Q) by (rewrite Heq; reflexivity).
    destruct (Hrhe p2 (Hidlt p2 Hp2)) as [_ H1]. rewrite H1, E2. lia.
Qed.

Theorem data_slices_bbox (m : cmap) :
  wf m -> acc_id m <> [] ->
  data_slices true m = Ok (zbox (bbox (oshape m) (acc_id m))).
Proof.
  intros Hwf Hne. unfold data_slices.
  destruct Hwf as (Hi & Hp & Hl & Hax).
  assert (Hwf : wf m) by (split; [assumption|]; split; [assumption|]; split; assumption).
  rewrite (mapM_nth _ (fun d => (Z.of_nat (nminl (map (ix (oshape m) d) (acc_id m))),
                                 Z.of_nat (S (nmaxl (map (ix (oshape m) d) (acc_id m))))))
                    (axes m) ([], 0%Q)).
  - rewrite Hl. unfold zbox, bbox. rewrite map_map. reflexivity.
  - intros d Hd. apply slice1_bbox; try assumption. apply nth_error_nth'; assumption.
Qed.

Lemma shape_of_zbox bb :
  (forall w, In w bb -> fst w <= snd w) -> shape_of_slices (zbox bb) = wshape_of bb.
Proof.
  intros H. unfold shape_of_slices, zbox, wshape_of. rewrite map_map.
  apply map_ext_in. intros w Hw. simpl. specialize (H w Hw). lia.
Qed.

Lemma bbox_le s ids w : In w (bbox s ids) -> fst w <= snd w.
Proof.
  unfold bbox. rewrite in_map_iff. intros [d [E _]]. subst w. simpl.
  destruct (map (ix s d) ids) as [|a t] eqn:El; [simpl; lia|].
  assert (Hne : a :: t <> []) by discriminate.
  pose proof (nmaxl_In _ Hne) as H. pose proof (nminl_le _ _ H). lia.
Qed.

(* shape = bounding box of the selected points *)
Theorem acc_shape_bbox (m : cmap) :
  wf m -> acc_id m <> [] -> acc_shape m = Ok (wshape_of (bbox (oshape m) (acc_id m))).
Proof.
  intros Hwf Hne. unfold acc_shape. rewrite data_slices_bbox by assumption. simpl.
  rewrite shape_of_zbox; [reflexivity | apply bbox_le].
Qed.

(* ------------------------------------------------ window assignment *)
Lemma win_bounds_id n lo hi :
  lo <= hi -> hi <= n -> win_bounds n (Z.of_nat lo, Z.of_nat hi) = (lo, hi).
Proof.
  intros H1 H2. unfold win_bounds, norm_bound. simpl.
  destruct (Z.of_nat lo <? 0)%Z eqn:E1; [apply Z.ltb_lt in E1; lia|].
  destruct (Z.of_nat hi <? 0)%Z eqn:E2; [apply Z.ltb_lt in E2; lia|].
  rewrite E1, E2.
  destruct (Z.of_nat n <=? Z.of_nat lo)%Z eqn:E3; destruct (Z.of_nat n <=? Z.of_nat hi)%Z eqn:E4;
    try apply Z.leb_le in E3; try apply Z.leb_le in E4;
    try apply Z.leb_gt in E3; try apply Z.leb_gt in E4;
    rewrite ?Nat2Z.id; f_equal; lia.
Qed.

Lemma window_is_bbox s ids :
  ids <> [] -> (forall p, In p ids -> p < size s) ->
  zip_with win_bounds s (zbox (bbox s ids)) = bbox s ids.
Proof.
  intros Hne Hlt.
  apply (nth_ext _ _ (0, 0) (0, 0)).
  - rewrite zip_with_length. unfold zbox. rewrite map_length, bbox_length. lia.
  - intros d Hd. rewrite zip_with_length in Hd. unfold zbox in Hd. rewrite map_length, bbox_length in Hd.
    assert (Hd' : d < length s) by lia.
    rewrite (zip_with_nth _ _ _ _ 0 (0%Z, 0%Z)) by (unfold zbox; rewrite ?map_length, ?bbox_length; lia).
    unfold zbox. set (f := fun w : nat * nat => (Z.of_nat (fst w), Z.of_nat (snd w))).
    rewrite (nth_indep (map f (bbox s ids)) (0%Z, 0%Z) (f (0, 0)))
      by (rewrite map_length, bbox_length; lia).
    rewrite map_nth. unfold f.
    pose proof (bbox_bounds s ids d Hne Hlt Hd') as [Hb1 Hb2].
    destruct (nth d (bbox s ids) (0, 0)) as [lo hi]. simpl in *.
    apply win_bounds_id; lia.
Qed.

Lemma bcast_self ws : forallb2 (fun w v => (w =? v) || (v =? 1)) ws ws = true.
Proof. induction ws as [|a t IH]; simpl; [reflexivity|]. rewrite Nat.eqb_refl, IH. reflexivity. Qed.

Lemma rel_idx_bcast idx W :
  in_win idx W = true ->
  zip_with (fun r v => if v =? 1 then 0 else r) (rel_idx idx W) (wshape_of W) = rel_idx idx W.
Proof.
  unfold in_win, rel_idx, wshape_of.
  revert W; induction idx as [|i idx IH]; intros [|w W] H; cbn [forallb2 zip_with map] in *;
    try reflexivity; try discriminate.
  apply andb_true_iff in H as [H1 H2]. apply andb_true_iff in H1 as [Ha Hb].
  apply Nat.leb_le in Ha. apply Nat.ltb_lt in Hb.
  rewrite IH by assumption. f_equal.
  destruct (snd w - fst w =? 1) eqn:E; [apply Nat.eqb_eq in E; lia | reflexivity].
Qed.

Theorem window_assign_bbox s old ids (S : list nat -> bool) :
  length old = size s -> ids <> [] -> (forall p, In p ids -> p < size s) ->
  window_assign s old (zbox (bbox s ids)) (wshape_of (bbox s ids)) S =
  Ok (map (fun p => if in_win (unravel s p) (bbox s ids)
                    then nth p old false && S (rel_idx (unravel s p) (bbox s ids))
                    else nth p old false)
          (seq 0 (size s))).
Proof.
  intros Hl Hne Hlt. unfold window_assign.
  rewrite Hl, Nat.eqb_refl. simpl.
  unfold zbox at 1. rewrite map_length, bbox_length, Nat.eqb_refl. simpl.
  rewrite window_is_bbox by assumption. rewrite bcast_self. simpl. f_equal.
  apply map_ext. intros p.
  destruct (in_win (unravel s p) (bbox s ids)) eqn:E; [|reflexivity].
  rewrite rel_idx_bcast by assumption. reflexivity.
Qed.

Lemma filter_filter {A} (f g : A -> bool) l :
  filter f (filter g l) = filter (fun x => g x && f x) l.
Proof.
  induction l as [|a l IH]; simpl; [reflexivity|].
  destruct (g a); simpl; [destruct (f a)|]; rewrite IH; reflexivity.
Qed.

(* ------------------------------------------------------- slice path *)
Lemma acc_id_filter (m : cmap) :
  wf m -> acc_id m = filter (fun p => nth p (ind m) false) (seq 0 (size (oshape m))).
Proof. intros (Hi & _). unfold acc_id. rewrite ids_of_filter, Hi. reflexivity. Qed.

(* EXACT characterisation of what the slice path selects, for ANY selection
   (rectangular or not): the points OF THE MAP BEING INDEXED whose bounding-box
   relative index is hit by the key -- the intersection of the key with the
   old mask. *)
Theorem getitem_sel_exact (m : cmap) ks Is :
  wf m -> acc_id m <> [] -> ks <> [] ->
  let bb := bbox (oshape m) (acc_id m) in
  length (wshape_of bb) <? length ks = false ->
  mapM2 key_idx (ks ++ repeat kfull (length (wshape_of bb) - length ks)) (wshape_of bb) = Ok Is ->
  exists m', getitem m (KSel ks) = Ok m' /\ same_arrays m m' /\
    length (ind m') = length (ind m) /\
    acc_id m' = filter (fun p => forallb2 memb (rel_idx (unravel (oshape m) p) bb) Is) (acc_id m).
Proof.
  intros Hwf Hne Hks bb Hlen HIs.
  pose proof Hwf as (Hi & Hp & Hg).
  assert (Hlt : forall p, In p (acc_id m) -> p < size (oshape m)).
  { intros p Hp'. apply ids_of_lt in Hp'. congruence. }
  simpl. unfold getitem_sel. destruct ks as [|k0 ks']; [congruence|].
  rewrite acc_shape_bbox by assumption. cbn [bind]. fold bb.
  rewrite Hlen, HIs. cbn [bind].
  rewrite data_slices_bbox by assumption. cbn [bind]. fold bb.
  unfold bb. rewrite window_assign_bbox by assumption. cbn [bind]. fold bb.
  eexists. split; [reflexivity|]. split; [reflexivity|]. simpl.
  split; [rewrite map_length, seq_length; congruence|].
  unfold acc_id at 1. simpl. rewrite ids_of_map_seq.
  rewrite (acc_id_filter m Hwf). rewrite filter_filter.
  apply filter_ext_in. intros p Hp'. apply in_seq in Hp'.
  destruct (in_win (unravel (oshape m) p) bb) eqn:E; [reflexivity|].
  destruct (nth p (ind m) false) eqn:En; [|reflexivity].
  assert (Hin : In p (acc_id m)) by (apply ids_of_In; split; [lia | assumption]).
  apply (ids_in_bbox (oshape m)) in Hin. fold bb in Hin. congruence.
Qed.

(* the slice path follows the reference in EVERY state of a well-formed map *)
Theorem sim_sel (m : cmap) ks ids' :
  wf m ->
  ref_getitem (static m) (acc_id m) (KSel ks) = Ok ids' ->
  exists m', getitem m (KSel ks) = Ok m' /\ same_arrays m m' /\
             length (ind m') = length (ind m) /\ acc_id m' = ids'.
Proof.
  intros Hwf Href. simpl in Href.
  destruct ks as [|k0 ks']; [discriminate|].
  destruct (acc_id m) as [|i0 ids0] eqn:Eids; [discriminate|].
  rewrite <- Eids in *.
  assert (Hne : acc_id m <> []) by (rewrite Eids; discriminate).
  set (bb := bbox (oshape m) (acc_id m)) in *.
  destruct (length (wshape_of bb) <? length (k0 :: ks')) eqn:Elen; [discriminate|].
  apply bind_ok in Href as (Is & HIs & Href). inversion Href; subst ids'; clear Href.
  destruct (getitem_sel_exact m (k0 :: ks') Is Hwf Hne ltac:(discriminate) Elen HIs)
    as (m' & Hg & Hsame & Hl & Hid).
  exists m'. repeat split; assumption.
Qed.

(* -------------------------------------------------------- mask path *)
Theorem sim_mask (m : cmap) b ids' :
  ref_getitem (static m) (acc_id m) (KMask b) = Ok ids' ->
  exists m', getitem m (KMask b) = Ok m' /\ same_arrays m m' /\
             length (ind m') = length (ind m) /\ acc_id m' = ids'.
Proof.
  simpl. unfold getitem_mask, count, acc_id.
  destruct (length b =? length (ids_of (ind m))) eqn:E; [|discriminate].
  intros H; inversion H; subst; clear H.
  eexists. split; [reflexivity|]. split; [reflexivity|]. simpl.
  split; [apply scatter_length | apply ids_of_scatter].
Qed.

(* ------------------------------------------------------- phase path *)
Definition inner_pred (k : string) (phases : list (Z * string)) (p : Z) : bool :=
  existsb (fun ph => if String.eqb k (snd ph) then Z.eqb p (fst ph)
                     else if is_indexed_kw k then negb (Z.eqb p (-1)) else false) phases.

Lemma zip_or_false (msk : list bool) (pids : list Z) :
  length msk = length pids -> zip_with (fun b _ => b || false) msk pids = msk.
Proof.
  revert pids; induction msk as [|b t IH]; intros [|p ps] H; simpl in *; try reflexivity; try lia.
  rewrite orb_false_r, IH by lia. reflexivity.
Qed.

Lemma zip_or_or (f g : Z -> bool) (msk : list bool) (pids : list Z) :
  zip_with (fun b p => b || g p) (zip_with (fun b p => b || f p) msk pids) pids
  = zip_with (fun b p => b || (f p || g p)) msk pids.
Proof.
  revert pids; induction msk as [|b t IH]; intros [|p ps]; simpl; try reflexivity.
  rewrite IH, orb_assoc. reflexivity.
Qed.

Lemma zip_with_ext {A B C} (f g : A -> B -> C) l1 l2 :
  (forall a b, f a b = g a b) -> zip_with f l1 l2 = zip_with g l1 l2.
Proof.
  intros H; revert l2; induction l1 as [|a t IH]; intros [|b l2]; simpl; try reflexivity.
  rewrite H, IH. reflexivity.
Qed.

Lemma zip_with_len_eq {A B C} (f : A -> B -> C) l1 l2 :
  length l1 = length l2 -> length (zip_with f l1 l2) = length l2.
Proof. intros H. rewrite zip_with_length. lia. Qed.

Lemma inner_fold k phases msk pids :
  length msk = length pids ->
  fold_left (fun msk ph =>
      if String.eqb k (snd ph) then zip_with (fun b p => b || Z.eqb p (fst ph)) msk pids
      else if is_indexed_kw k then zip_with (fun b p => b || negb (Z.eqb p (-1))) msk pids
      else msk) phases msk
  = zip_with (fun b p => b || inner_pred k phases p) msk pids.
Proof.
  revert msk; induction phases as [|ph phases IH]; intros msk Hl; simpl.
  - unfold inner_pred; simpl. symmetry. apply zip_or_false; assumption.
  - destruct (String.eqb k (snd ph)) eqn:E1.
    + rewrite IH by (rewrite zip_with_len_eq by assumption; reflexivity).
      rewrite zip_or_or. apply zip_with_ext. intros b p. unfold inner_pred. cbn [existsb]. rewrite ?E1. reflexivity.
    + destruct (is_indexed_kw k) eqn:E2.
      * rewrite IH by (rewrite zip_with_len_eq by assumption; reflexivity).
        rewrite zip_or_or. apply zip_with_ext. intros b p. unfold inner_pred. cbn [existsb]. rewrite ?E1, ?E2. reflexivity.
      * rewrite IH by assumption. apply zip_with_ext. intros b p. unfold inner_pred. cbn [existsb].
        rewrite ?E1, ?E2. reflexivity.
Qed.

Definition model_keep (phases : list (Z * string)) (keys : list string) (p : Z) : bool :=
  existsb (fun k => inner_pred k phases p) keys.

Lemma outer_fold phases keys msk pids :
  length msk = length pids ->
  fold_left (fun msk k =>
    fold_left (fun msk ph =>
      if String.eqb k (snd ph) then zip_with (fun b p => b || Z.eqb p (fst ph)) msk pids
      else if is_indexed_kw k then zip_with (fun b p => b || negb (Z.eqb p (-1))) msk pids
      else msk) phases msk) keys msk
  = zip_with (fun b p => b || model_keep phases keys p) msk pids.
Proof.
  revert msk; induction keys as [|k keys IH]; intros msk Hl; simpl.
  - unfold model_keep; simpl. symmetry. apply zip_or_false; assumption.
  - rewrite inner_fold by assumption.
    rewrite IH by (rewrite zip_with_len_eq by assumption; reflexivity).
    rewrite zip_or_or. apply zip_with_ext. intros b p. reflexivity.
Qed.

Lemma zip_false_map (f : Z -> bool) pids :
  zip_with (fun b p => b || f p) (repeat false (length pids)) pids = map f pids.
Proof. induction pids as [|p ps IH]; simpl; [reflexivity|]. rewrite IH. reflexivity. Qed.

(* the nested loop computes, point-wise, "some key matches" *)
Theorem phase_mask_pointwise phases keys pids :
  phase_mask phases keys pids = map (model_keep phases keys) pids.
Proof.
  unfold phase_mask. rewrite outer_fold by apply repeat_length. apply zip_false_map.
Qed.

Lemma existsb_ext_in {A} (f g : A -> bool) l :
  (forall x, In x l -> f x = g x) -> existsb f l = existsb g l.
Proof.
  induction l as [|a t IH]; intros H; simpl; [reflexivity|].
  rewrite (H a) by (left; reflexivity). rewrite IH; [reflexivity|].
  intros x Hx. apply H. right; assumption.
Qed.

Lemma existsb_const {A} (l : list A) (c : bool) : l <> [] -> existsb (fun _ => c) l = c.
Proof.
  destruct l as [|a t]; [congruence|]. intros _. simpl.
  destruct c; [reflexivity|]. simpl. induction t; simpl; auto.
Qed.

Lemma existsb_false {A} (l : list A) : existsb (fun _ => false) l = false.
Proof. induction l; simpl; auto. Qed.

(* under the guard the loop's predicate is the reference predicate *)
Lemma model_keep_ref phases keys p :
  phases_ok phases -> model_keep phases keys p = ref_phase_keep phases keys p.
Proof.
  intros [Hne Hno]. unfold model_keep, ref_phase_keep.
  apply existsb_ext_in. intros k _. unfold inner_pred.
  destruct (is_indexed_kw k) eqn:Ek.
  - (* k is the keyword: no phase has that name *)
    assert (Hk : forall ph, In ph phases -> String.eqb k (snd ph) = false).
    { intros ph Hph. destruct (String.eqb k (snd ph)) eqn:E; [|reflexivity].
      apply String.eqb_eq in E. rewrite E in Ek. rewrite (Hno ph Hph) in Ek. discriminate. }
    rewrite (existsb_ext_in _ (fun _ => negb (p =? -1)%Z) phases)
      by (intros ph Hph; rewrite (Hk ph Hph); reflexivity).
    rewrite (existsb_ext_in (fun ph => (fst ph =? p)%Z && String.eqb k (snd ph)) (fun _ => false) phases)
      by (intros ph Hph; rewrite (Hk ph Hph); apply andb_false_r).
    rewrite existsb_const by assumption. rewrite existsb_false. reflexivity.
  - rewrite andb_false_l, orb_false_r.
    apply existsb_ext_in. intros ph _. rewrite Z.eqb_sym.
    destruct (String.eqb k (snd ph)); [rewrite andb_true_r | rewrite andb_false_r]; reflexivity.
Qed.

Theorem sim_phase (m : cmap) names ids' :
  wf m -> phases_ok (phases m) ->
  ref_getitem (static m) (acc_id m) (KPhase names) = Ok ids' ->
  exists m', getitem m (KPhase names) = Ok m' /\ same_arrays m m' /\
             length (ind m') = length (ind m) /\ acc_id m' = ids'.
Proof.
  intros (Hi & Hp & _) Hok. simpl. unfold getitem_phase.
  destruct names as [|n0 names']; [discriminate|].
  intros H; inversion H; subst; clear H.
  eexists. split; [reflexivity|]. split; [reflexivity|]. simpl.
  split; [apply scatter_length|].
  unfold acc_id at 1. simpl. rewrite ids_of_scatter, phase_mask_pointwise.
  rewrite (mask_filter_ids (ind m) (pid m) 0%Z) by congruence.
  rewrite map_map. fold (acc_id m).
  rewrite mask_filter_map_self. apply filter_ext. intros p.
  apply model_keep_ref; assumption.
Qed.

(* ------------------------------------------------- one step, histories *)
Theorem sim_step (m : cmap) k ids' :
  wf m -> guard (static m) (acc_id m) k ->
  ref_getitem (static m) (acc_id m) k = Ok ids' ->
  exists m', getitem m k = Ok m' /\ same_arrays m m' /\ wf m' /\ acc_id m' = ids'.
Proof.
  intros Hwf Hg Href.
  assert (H : exists m', getitem m k = Ok m' /\ same_arrays m m' /\
                         length (ind m') = length (ind m) /\ acc_id m' = ids').
  { destruct k; simpl in Hg.
    - apply sim_sel; assumption.
    - apply sim_mask; assumption.
    - apply sim_phase; assumption. }
  destruct H as (m' & H1 & H2 & H3 & H4). exists m'.
  split; [assumption|]. split; [assumption|]. split; [|assumption].
  rewrite H2. apply wf_set_ind; [assumption | congruence].
Qed.

Lemma static_same m m' : same_arrays m m' -> static m' = static m.
Proof. intros H. rewrite H. reflexivity. Qed.

Lemma same_arrays_trans m1 m2 m3 : same_arrays m1 m2 -> same_arrays m2 m3 -> same_arrays m1 m3.
Proof. unfold same_arrays. intros H1 H2. rewrite H2 at 1. rewrite H1. reflexivity. Qed.

Lemma same_arrays_refl m : same_arrays m m.
Proof. unfold same_arrays. destruct m; reflexivity. Qed.

(* MAIN: for every history, the model follows the reference selection *)
Theorem sim_history (ops : list key) : forall (m : cmap) ids',
  wf m -> hist_guard (static m) (acc_id m) ops ->
  ref_run (static m) (acc_id m) ops = Ok ids' ->
  exists m', run m ops = Ok m' /\ same_arrays m m' /\ wf m' /\ acc_id m' = ids'.
Proof.
  induction ops as [|k rest IH]; intros m ids' Hwf Hg Href; simpl in *.
  - inversion Href; subst. exists m.
    split; [reflexivity|]. split; [apply same_arrays_refl|]. split; [assumption | reflexivity].
  - destruct Hg as [Hg Hrest].
    apply bind_ok in Href as (ids1 & H1 & H2).
    destruct (sim_step m k ids1 Hwf Hg H1) as (m1 & Hget & Hsame & Hwf1 & Hid1).
    rewrite Hget. simpl.
    specialize (Hrest ids1 H1).
    rewrite <- (static_same _ _ Hsame), <- Hid1 in Hrest, H2.
    destruct (IH m1 ids' Hwf1 Hrest H2) as (m' & Hr & Hs & Hw & Hi).
    exists m'. split; [assumption|]. split; [eapply same_arrays_trans; eassumption|].
    split; assumption.
Qed.

End Sel.

(* ---------------------------------------- pure facts about the reference *)
Lemma mask_filter_incl {A} (b : list bool) (l : list A) : incl (mask_filter b l) l.
Proof.
  revert l; induction b as [|x b IH]; intros [|a l]; simpl; try (intros y []).
  destruct x; intros y Hy; [destruct Hy as [E|Hy]; [left; assumption | right; apply IH; assumption]
                            | right; apply IH; assumption].
Qed.

(* a selection never contains a point absent from the map being indexed *)
Theorem ref_getitem_incl g ids k ids' : ref_getitem g ids k = Ok ids' -> incl ids' ids.
Proof.
  destruct k as [ks|b|names]; unfold ref_getitem.
  - destruct ks as [|k0 ks']; [discriminate|]. destruct ids as [|i0 ids0] eqn:E; [discriminate|].
    rewrite <- E. clear E.
    destruct (_ <? _); [discriminate|]. intros H. apply bind_ok in H as (Is & _ & H).
    injection H as H. rewrite <- H. apply incl_filter.
  - destruct (_ =? _); [|discriminate]. intros H; injection H as H. rewrite <- H. apply mask_filter_incl.
  - destruct names; [discriminate|]. intros H; injection H as H. rewrite <- H. apply incl_filter.
Qed.

Theorem ref_run_incl g ops : forall ids ids', ref_run g ids ops = Ok ids' -> incl ids' ids.
Proof.
  induction ops as [|k rest IH]; intros ids ids' H; simpl in H.
  - inversion H; subst. apply incl_refl.
  - apply bind_ok in H as (ids1 & H1 & H2).
    eapply incl_tran; [eapply IH; eassumption | eapply ref_getitem_incl; eassumption].
Qed.

(* ------------------------------ the MODEL never adds a point (no guard) *)
Lemma window_assign_sub s old ds vs (S : list nat -> bool) i' :
  window_assign s old ds vs S = Ok i' ->
  length i' = length old /\ forall p, nth p i' false = true -> nth p old false = true.
Proof.
  unfold window_assign.
  destruct (negb (length old =? size s)); [discriminate|].
  destruct (negb (length ds =? length s)); [discriminate|].
  destruct (negb (forallb2 _ _ _)); [discriminate|].
  intros H; injection H as H; subst i'.
  split; [rewrite map_length, seq_length; reflexivity|].
  intros p Hp. destruct (Nat.lt_ge_cases p (length old)) as [Hlt|Hge].
  - rewrite (map_seq_nth _ _ _ false Hlt) in Hp.
    destruct (in_win _ _); [apply andb_true_iff in Hp; tauto | assumption].
  - rewrite nth_overflow in Hp by (rewrite map_length, seq_length; lia). discriminate.
Qed.

(* whatever the map (well-formed grid or not) and whatever the key, a
   successful selection only contains points of the map being indexed *)
Theorem getitem_incl {V R} (m m' : cmap V R) k :
  getitem m k = Ok m' -> incl (acc_id m') (acc_id m).
Proof.
  destruct k as [ks|b|names]; simpl.
  - unfold getitem_sel. destruct ks; [discriminate|].
    intros H. apply bind_ok in H as (shp & _ & H).
    destruct (_ <? _); [discriminate|].
    apply bind_ok in H as (Is & _ & H). apply bind_ok in H as (ds & _ & H).
    apply bind_ok in H as (i' & Hw & H). injection H as H. subst m'.
    apply window_assign_sub in Hw as [Hl Hsub].
    unfold acc_id. simpl. intros p Hp. apply ids_of_In in Hp as [Hp1 Hp2].
    apply ids_of_In. split; [lia | apply Hsub; assumption].
  - unfold getitem_mask. destruct (_ =? _).
    + intros H; injection H as H; subst m'. unfold acc_id; simpl.
      rewrite ids_of_scatter. apply mask_filter_incl.
    + destruct (_ =? _); [|discriminate]. intros H; injection H as H; subst m'.
      unfold acc_id; simpl. rewrite ids_of_scatter. apply mask_filter_incl.
  - unfold getitem_phase. destruct names; [discriminate|].
    intros H; injection H as H; subst m'. unfold acc_id; simpl.
    rewrite ids_of_scatter. apply mask_filter_incl.
Qed.

Theorem run_incl {V R} ops : forall (m m' : cmap V R),
  run m ops = Ok m' -> incl (acc_id m') (acc_id m).
Proof.
  induction ops as [|k rest IH]; intros m m' H; simpl in H.
  - injection H as H; subst. apply incl_refl.
  - apply bind_ok in H as (m1 & H1 & H2).
    eapply incl_tran; [eapply IH; eassumption | eapply getitem_incl; eassumption].
Qed.
