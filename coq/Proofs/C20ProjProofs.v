(* C20 -- proofs about the stereographic projection kernels GENERATED from
   orix/projections/stereographic.py (vector2xy_k, xy2vector) and the
   spherical-coordinate formulas GENERATED from orix/vector/vector3d.py
   (from_polar, to_polar, v_azimuth, v_polar, v_radial), on the reals. *)
From Coq Require Import Reals Lra Lia List Bool Psatz.
From Verif Require Import Scalar RInst.
From Verif.Gen Require Import C20Stereo.
From Verif.Model Require Import C20Proj.
From Verif.Proofs Require Import C20Atan2.
Import ListNotations.
Local Open Scope R_scope.

Definition is_pole (p : R) : Prop := p = 1 \/ p = -1.
Definition unit3 (v : vec3 (T:=R)) : Prop := let '(x, y, z) := v in x * x + y * y + z * z = 1.
(* the tolerance of SphericalRegion.__ge__ *)
Definition eps9 : R := 1 / 1000000000.

Lemma eps9_pos : 0 < eps9 < 1.
Proof. unfold eps9. lra. Qed.

(* ------------------------------------------------------------ the kernel *)
Lemma k_value x y z p : z <> p ->
  vector2xy_k ROps x y z p = (- p * x / (z - p), - p * y / (z - p)).
Proof.
  intros H. unfold vector2xy_k. rsimpl. unfold Reqb.
  destruct (Req_EM_T (z - p) 0) as [E | E]; [lra |]. reflexivity.
Qed.

(* division guarded at the projection point: (X, Y) = (0, 0) there *)
Lemma k_at_pole x y p : vector2xy_k ROps x y p p = (0, 0).
Proof.
  unfold vector2xy_k. rsimpl. unfold Reqb.
  destruct (Req_EM_T (p - p) 0) as [E | E]; [reflexivity | lra].
Qed.

Lemma k_radius x y z p : is_pole p -> unit3 (x, y, z) -> z <> p ->
  let '(X, Y) := vector2xy_k ROps x y z p in
  X * X + Y * Y = (1 + p * z) / (1 - p * z).
Proof.
  intros Hp Hu Hz. rewrite k_value by exact Hz. simpl in Hu.
  assert (Hxy : x * x + y * y = (1 - z) * (1 + z)) by lra.
  destruct Hp; subst p.
  - replace (-(1) * x / (z - 1) * (-(1) * x / (z - 1)) + -(1) * y / (z - 1) * (-(1) * y / (z - 1)))
      with ((x * x + y * y) / ((z - 1) * (z - 1))) by (field; lra).
    rewrite Hxy. field. lra.
  - replace (- -1 * x / (z - -1) * (- -1 * x / (z - -1)) + - -1 * y / (z - -1) * (- -1 * y / (z - -1)))
      with ((x * x + y * y) / ((z + 1) * (z + 1))) by (field; lra).
    rewrite Hxy. field. lra.
Qed.

Lemma ratio_mono t e : t <= e -> e < 1 -> (1 + t) / (1 - t) <= (1 + e) / (1 - e).
Proof.
  intros H1 H2.
  apply Rmult_le_reg_r with ((1 - t) * (1 - e)). nra.
  replace ((1 + t) / (1 - t) * ((1 - t) * (1 - e))) with ((1 + t) * (1 - e)) by (field; lra).
  replace ((1 + e) / (1 - e) * ((1 - t) * (1 - e))) with ((1 + e) * (1 - t)) by (field; lra).
  nra.
Qed.

(* unit vector on the far side of the projection point (or within t of the
   equator on the near side): the image is in the disk of squared radius (1+t)/(1-t) *)
Lemma k_disk x y z p t : is_pole p -> unit3 (x, y, z) -> p * z <= t -> t < 1 ->
  let '(X, Y) := vector2xy_k ROps x y z p in
  X * X + Y * Y <= (1 + t) / (1 - t).
Proof.
  intros Hp Hu Ht Ht1.
  assert (Hz : z <> p).
  { intro E. subst z. destruct Hp; subst p; lra. }
  pose proof (k_radius x y z p Hp Hu Hz) as H.
  destruct (vector2xy_k ROps x y z p) as [X Y]. rewrite H.
  apply ratio_mono; assumption.
Qed.

Lemma k_disk_closed x y z p : is_pole p -> unit3 (x, y, z) -> p * z <= 0 ->
  let '(X, Y) := vector2xy_k ROps x y z p in X * X + Y * Y <= 1.
Proof.
  intros Hp Hu Hz. pose proof (k_disk x y z p 0 Hp Hu Hz) as H.
  destruct (vector2xy_k ROps x y z p) as [X Y].
  replace 1 with ((1 + 0) / (1 - 0)) by field. apply H. lra.
Qed.

(* inverse projection recovers every unit vector except the projection point *)
Lemma inverse_of_forward x y z p : is_pole p -> unit3 (x, y, z) -> z <> p ->
  xy2vec ROps p (vector2xy_k ROps x y z p) = (x, y, z).
Proof.
  intros Hp Hu Hz. rewrite k_value by exact Hz. simpl in Hu.
  unfold xy2vec, xy2vector. simpl fst. simpl snd. rsimpl. cbv zeta.
  destruct Hp; subst p.
  - assert (Hd : 1 + - (1) * x / (z - 1) * (- (1) * x / (z - 1)) + - (1) * y / (z - 1) * (- (1) * y / (z - 1))
                 = 2 / (1 - z)).
    { replace (1 + - (1) * x / (z - 1) * (- (1) * x / (z - 1)) + - (1) * y / (z - 1) * (- (1) * y / (z - 1)))
        with (((z - 1) * (z - 1) + (x * x + y * y)) / ((z - 1) * (z - 1))) by (field; lra).
      replace (x * x + y * y) with (1 - z * z) by lra. field. lra. }
    assert (Hn : 1 - - (1) * x / (z - 1) * (- (1) * x / (z - 1)) - - (1) * y / (z - 1) * (- (1) * y / (z - 1))
                 = - 2 * z / (1 - z)).
    { replace (1 - - (1) * x / (z - 1) * (- (1) * x / (z - 1)) - - (1) * y / (z - 1) * (- (1) * y / (z - 1)))
        with (((z - 1) * (z - 1) - (x * x + y * y)) / ((z - 1) * (z - 1))) by (field; lra).
      replace (x * x + y * y) with (1 - z * z) by lra. field. lra. }
    rewrite Hd, Hn. f_equal; [f_equal |]; field; lra.
  - assert (Hd : 1 + - -1 * x / (z - -1) * (- -1 * x / (z - -1)) + - -1 * y / (z - -1) * (- -1 * y / (z - -1))
                 = 2 / (1 + z)).
    { replace (1 + - -1 * x / (z - -1) * (- -1 * x / (z - -1)) + - -1 * y / (z - -1) * (- -1 * y / (z - -1)))
        with (((z + 1) * (z + 1) + (x * x + y * y)) / ((z + 1) * (z + 1))) by (field; lra).
      replace (x * x + y * y) with (1 - z * z) by lra. field. lra. }
    assert (Hn : 1 - - -1 * x / (z - -1) * (- -1 * x / (z - -1)) - - -1 * y / (z - -1) * (- -1 * y / (z - -1))
                 = 2 * z / (1 + z)).
    { replace (1 - - -1 * x / (z - -1) * (- -1 * x / (z - -1)) - - -1 * y / (z - -1) * (- -1 * y / (z - -1)))
        with (((z + 1) * (z + 1) - (x * x + y * y)) / ((z + 1) * (z + 1))) by (field; lra).
      replace (x * x + y * y) with (1 - z * z) by lra. field. lra. }
    rewrite Hd, Hn. f_equal; [f_equal |]; field; lra.
Qed.

(* every point (X, Y) of the plane is the image of exactly the unit vector
   xy2vector X Y; it lies on the far hemisphere iff (X, Y) is in the closed disk *)
Lemma forward_of_inverse X Y p : is_pole p ->
  let v := xy2vec ROps p (X, Y) in
  unit3 v /\ snd v <> p /\
  (let '(x, y, z) := v in vector2xy_k ROps x y z p) = (X, Y) /\
  (p * snd v <= 0 <-> X * X + Y * Y <= 1).
Proof.
  intros Hp. unfold xy2vec, xy2vector. simpl fst. simpl snd. rsimpl. cbv zeta.
  set (d := 1 + X * X + Y * Y).
  assert (Hd : 0 < d) by (unfold d; nra).
  assert (Hz : - p * (1 - X * X - Y * Y) / d - p = - 2 * p / d).
  { unfold d. field. fold d. lra. }
  assert (Hne : - p * (1 - X * X - Y * Y) / d <> p).
  { intro E. rewrite E in Hz. assert (Hi : 0 < / d) by (apply Rinv_0_lt_compat; exact Hd).
    unfold Rdiv in Hz. destruct Hp; subst p; nra. }
  unfold unit3. cbv beta iota. repeat split.
  - unfold d. destruct Hp; subst p; field; fold d; lra.
  - exact Hne.
  - rewrite k_value by exact Hne. rewrite Hz.
    f_equal; field; destruct Hp; subst p; lra.
  - intros H.
    assert (Hs : p * (- p * (1 - X * X - Y * Y) / d) = - (1 - X * X - Y * Y) / d)
      by (destruct Hp; subst p; field; lra).
    rewrite Hs in H.
    assert (Hq : - (1 - X * X - Y * Y) / d * d = - (1 - X * X - Y * Y)) by (field; lra).
    assert (- (1 - X * X - Y * Y) / d * d <= 0) by nra. lra.
  - intros H.
    assert (Hs : p * (- p * (1 - X * X - Y * Y) / d) = - (1 - X * X - Y * Y) / d)
      by (destruct Hp; subst p; field; lra).
    rewrite Hs. unfold Rdiv.
    assert (Hi : 0 < / d) by (apply Rinv_0_lt_compat; exact Hd). nra.
Qed.

(* ---------------------------------------------------------- normalisation *)
Definition nrm (v : vec3 (T:=R)) : R := vnorm ROps v.

Lemma nrm_sq x y z : nrm (x, y, z) * nrm (x, y, z) = x * x + y * y + z * z.
Proof. unfold nrm, vnorm. rsimpl. apply sqrt_sqrt. nra. Qed.

Lemma nrm_nonneg v : 0 <= nrm v.
Proof. destruct v as [[x y] z]. unfold nrm, vnorm. rsimpl. apply sqrt_pos. Qed.

Lemma nrm_zero x y z : nrm (x, y, z) = 0 -> x = 0 /\ y = 0 /\ z = 0.
Proof. intros H. pose proof (nrm_sq x y z) as E. rewrite H in E. repeat split; nra. Qed.

Lemma vunit_nonzero x y z : nrm (x, y, z) <> 0 ->
  vunit ROps (x, y, z) = (x / nrm (x, y, z), y / nrm (x, y, z), z / nrm (x, y, z)).
Proof.
  intros H. unfold vunit. fold (nrm (x, y, z)). rsimpl. unfold Reqb.
  destruct (Req_EM_T (nrm (x, y, z)) 0); [contradiction | reflexivity].
Qed.

Lemma vunit_zero : vunit ROps (0, 0, 0) = (0, 0, 0).
Proof.
  assert (H : nrm (0, 0, 0) = 0).
  { unfold nrm, vnorm. rsimpl. replace (0 * 0 + 0 * 0 + 0 * 0) with 0 by ring. apply sqrt_0. }
  unfold vunit. fold (nrm (0, 0, 0)). rewrite H. rsimpl. unfold Reqb.
  destruct (Req_EM_T 0 0); [reflexivity | contradiction].
Qed.

Lemma vunit_unit v : nrm v <> 0 -> unit3 (vunit ROps v).
Proof.
  destruct v as [[x y] z]. intros H. rewrite vunit_nonzero by exact H.
  pose proof (nrm_sq x y z) as E. set (n := nrm (x, y, z)) in *. unfold unit3.
  replace (x / n * (x / n) + y / n * (y / n) + z / n * (z / n))
    with ((x * x + y * y + z * z) / (n * n)) by (field; exact H).
  rewrite <- E. field. exact H.
Qed.

(* a unit vector is left alone *)
Lemma vunit_of_unit v : unit3 v -> vunit ROps v = v.
Proof.
  destruct v as [[x y] z]. intros H. simpl in H.
  assert (Hn : nrm (x, y, z) = 1).
  { unfold nrm, vnorm. rsimpl. replace (x * x + y * y + z * z) with 1 by lra. apply sqrt_1. }
  rewrite vunit_nonzero by lra. rewrite Hn. f_equal; [f_equal |]; field.
Qed.

(* non-unit vectors: positive scaling does not change the unit vector *)
Lemma vunit_scale k x y z : 0 < k -> nrm (x, y, z) <> 0 ->
  vunit ROps (k * x, k * y, k * z) = vunit ROps (x, y, z).
Proof.
  intros Hk Hn.
  assert (Hs : nrm (k * x, k * y, k * z) = k * nrm (x, y, z)).
  { unfold nrm, vnorm. rsimpl.
    replace (k * x * (k * x) + k * y * (k * y) + k * z * (k * z))
      with (k² * (x * x + y * y + z * z)) by (unfold Rsqr; ring).
    rewrite sqrt_mult_alt by apply Rle_0_sqr. rewrite sqrt_Rsqr by lra. reflexivity. }
  rewrite (vunit_nonzero (k * x)) by (rewrite Hs; nra).
  rewrite vunit_nonzero by exact Hn. rewrite Hs.
  f_equal; [f_equal |]; field; split; lra.
Qed.

(* ------------------------------------------------- hemisphere selection *)
Definition sel (p : R) (v : vec3 (T:=R)) : bool := region_ge ROps (hemi_normal ROps p) v.
(* the selection made by vector2xy / vector2xy_split: the test on the UNIT vector *)
Definition selu (p : R) (v : vec3 (T:=R)) : bool := sel p (vunit ROps v).

Lemma sel_true p x y z : sel p (x, y, z) = true <-> - eps9 < - p * z.
Proof.
  unfold sel, region_ge, hemi_normal, region_ge_k, eps9. rsimpl.
  rewrite Rltb_true. split; intros; lra.
Qed.

Lemma sel_false p x y z : sel p (x, y, z) = false <-> - p * z <= - eps9.
Proof.
  unfold sel, region_ge, hemi_normal, region_ge_k, eps9. rsimpl.
  rewrite Rltb_false. split; intros; lra.
Qed.

Lemma vunit_idem v : vunit ROps (vunit ROps v) = vunit ROps v.
Proof.
  destruct v as [[x y] z]. destruct (Req_dec (nrm (x, y, z)) 0) as [E | E].
  - apply nrm_zero in E. destruct E as [-> [-> ->]]. rewrite vunit_zero. apply vunit_zero.
  - apply vunit_of_unit. apply vunit_unit. exact E.
Qed.

(* _vector2xy normalises once more: no effect on a unit (or zero) vector *)
Lemma project1_vunit p v : project1 ROps p (vunit ROps v) = project1 ROps p v.
Proof. unfold project1. rewrite vunit_idem. reflexivity. Qed.

Lemma project1_zero p : is_pole p -> project1 ROps p (0, 0, 0) = (0, 0).
Proof.
  intros Hp. unfold project1. rewrite vunit_zero.
  rewrite k_value by (destruct Hp; subst p; lra).
  f_equal; field; destruct Hp; subst p; lra.
Qed.

Lemma nrm_pos v : nrm v <> 0 -> 0 < nrm v.
Proof. intros H. pose proof (nrm_nonneg v). lra. Qed.

(* on a non-zero vector the test is  -pole * z > -1e-9 * |v| *)
Lemma selu_true p x y z : nrm (x, y, z) <> 0 ->
  (selu p (x, y, z) = true <-> - eps9 * nrm (x, y, z) < - p * z).
Proof.
  intros Hn. unfold selu. rewrite vunit_nonzero by exact Hn. rewrite sel_true.
  pose proof (nrm_pos _ Hn) as Hp. set (n := nrm (x, y, z)) in *.
  assert (Hi : 0 < / n) by (apply Rinv_0_lt_compat; exact Hp).
  set (w := z / n). assert (Hz : z = w * n) by (unfold w; field; lra).
  rewrite Hz. split; intros H; nra.
Qed.

Lemma selu_false p x y z : nrm (x, y, z) <> 0 ->
  (selu p (x, y, z) = false <-> - p * z <= - eps9 * nrm (x, y, z)).
Proof.
  intros Hn. pose proof (selu_true p x y z Hn) as H.
  destruct (selu p (x, y, z)); split; intros H1; try discriminate; try reflexivity.
  - assert (- eps9 * nrm (x, y, z) < - p * z) by (apply H; reflexivity). lra.
  - destruct (Rlt_dec (- eps9 * nrm (x, y, z)) (- p * z)) as [L | L]; [| lra].
    apply H in L. discriminate.
Qed.

Lemma selu_zero p : selu p (0, 0, 0) = true.
Proof. unfold selu. rewrite vunit_zero. apply sel_true. pose proof eps9_pos. lra. Qed.

(* the selection does not depend on the length of the vector *)
Lemma selu_scale p k x y z : 0 < k -> nrm (x, y, z) <> 0 ->
  selu p (k * x, k * y, k * z) = selu p (x, y, z).
Proof. intros Hk Hn. unfold selu. rewrite vunit_scale by assumption. reflexivity. Qed.

(* only vectors within 1e-9 (relative to their length) of the equator are
   selected for both hemispheres *)
Lemma selu_both x y z : nrm (x, y, z) <> 0 ->
  selu (-1) (x, y, z) = true -> selu 1 (x, y, z) = true -> Rabs z < eps9 * nrm (x, y, z).
Proof.
  intros Hn H1 H2. apply selu_true in H1; [| exact Hn]. apply selu_true in H2; [| exact Hn].
  apply Rabs_def1; lra.
Qed.

Lemma in_vector2xy p vs P :
  In P (vector2xy ROps p vs) <-> exists v, In v vs /\ selu p v = true /\ P = project1 ROps p v.
Proof.
  unfold vector2xy. rewrite in_map_iff. split.
  - intros [u [E H]]. apply filter_In in H. destruct H as [H1 H2]. apply in_map_iff in H1.
    destruct H1 as [v [Ev Hv]]. exists v. subst u. rewrite project1_vunit in E.
    unfold selu, sel. auto.
  - intros [v [H1 [H2 E]]]. exists (vunit ROps v). split; [rewrite project1_vunit; auto |].
    apply filter_In. split; [apply in_map; exact H1 | exact H2].
Qed.

(* the forward projection of a whole array: every returned point comes from a
   selected vector; whatever the length of that vector the point lies in the disk
   of squared radius (1 + eps)/(1 - eps), and in the closed unit disk when the
   vector is on the closed far hemisphere *)
Lemma project1_disk p v : is_pole p -> selu p v = true ->
  let '(X, Y) := project1 ROps p v in
  X * X + Y * Y <= (1 + eps9) / (1 - eps9).
Proof.
  destruct v as [[x y] z]. intros Hp Hs.
  pose proof eps9_pos as He.
  destruct (Req_dec (nrm (x, y, z)) 0) as [E | Hn0].
  - apply nrm_zero in E. destruct E as [-> [-> ->]]. rewrite project1_zero by exact Hp.
    assert (Hi : 0 < / (1 - eps9)) by (apply Rinv_0_lt_compat; lra). unfold Rdiv. nra.
  - unfold selu in Hs. unfold project1. pose proof (vunit_unit (x, y, z) Hn0) as Hu.
    rewrite vunit_nonzero in * by exact Hn0.
    set (n := nrm (x, y, z)) in *.
    apply sel_true in Hs.
    assert (Ht : p * (z / n) <= eps9) by lra.
    exact (k_disk (x / n) (y / n) (z / n) p eps9 Hp Hu Ht (proj2 He)).
Qed.

Lemma project1_disk_closed p v : is_pole p -> p * snd v <= 0 ->
  let '(X, Y) := project1 ROps p v in X * X + Y * Y <= 1.
Proof.
  destruct v as [[x y] z]. simpl snd. intros Hp Hz.
  destruct (Req_dec (nrm (x, y, z)) 0) as [E | Hn].
  - apply nrm_zero in E. destruct E as [-> [-> ->]]. rewrite project1_zero by exact Hp. lra.
  - unfold project1. pose proof (vunit_unit (x, y, z) Hn) as Hu.
    rewrite vunit_nonzero in * by exact Hn.
    set (n := nrm (x, y, z)) in *.
    assert (Hn' : 0 < n) by (apply nrm_pos; exact Hn).
    assert (Hi : 0 < / n) by (apply Rinv_0_lt_compat; lra).
    apply k_disk_closed; auto. unfold Rdiv. nra.
Qed.

(* round trip through the plane for EVERY selected non-zero vector, whatever its
   length: the inverse projection returns the unit vector *)
Lemma project1_roundtrip p v : is_pole p -> selu p v = true -> nrm v <> 0 ->
  xy2vec ROps p (project1 ROps p v) = vunit ROps v.
Proof.
  destruct v as [[x y] z]. intros Hp Hs Hn. pose proof eps9_pos as He.
  unfold selu in Hs. unfold project1. pose proof (vunit_unit (x, y, z) Hn) as Hu.
  rewrite vunit_nonzero in * by exact Hn.
  set (n := nrm (x, y, z)) in *.
  apply inverse_of_forward; auto.
  apply sel_true in Hs.
  intro E. rewrite E in Hs. destruct Hp; subst p; lra.
Qed.

(* the former witness of the un-normalised test: (3e-10, 0, -4e-10) has unit
   vector (0.6, 0, -0.8); it is not returned for the upper hemisphere any more, and
   the lower-hemisphere projection puts it at (1/3, 0) *)
Lemma short_vector_selection :
  let v : vec3 (T:=R) := (3 / 10000000000, 0, - 4 / 10000000000) in
  selu (-1) v = false /\ selu 1 v = true /\ project1 ROps 1 v = (1 / 3, 0).
Proof.
  cbv zeta.
  assert (Hn : nrm (3 / 10000000000, 0, - 4 / 10000000000) = 5 / 10000000000).
  { unfold nrm, vnorm. rsimpl.
    replace (3 / 10000000000 * (3 / 10000000000) + 0 * 0 + - 4 / 10000000000 * (- 4 / 10000000000))
      with ((5 / 10000000000)²) by (unfold Rsqr; field).
    apply sqrt_Rsqr. lra. }
  split; [| split].
  - apply selu_false; rewrite Hn; unfold eps9; lra.
  - apply selu_true; rewrite Hn; unfold eps9; lra.
  - unfold project1. rewrite vunit_nonzero by (rewrite Hn; lra). rewrite Hn.
    rewrite k_value by lra. f_equal; field.
Qed.

(* --------------------------------------------------------------- split *)
Lemma split_upper vs P :
  In P (fst (vector2xy_split ROps vs)) <->
  exists v, In v vs /\ - eps9 < snd (vunit ROps v) /\ P = project1 ROps (-1) v.
Proof.
  unfold vector2xy_split. cbn [fst]. change (o_ofZ ROps (-1)) with (-1). rewrite in_vector2xy.
  split; intros [v [H1 [H2 H3]]]; exists v; unfold selu in *;
    destruct (vunit ROps v) as [[a b] c]; simpl snd in *.
  - apply sel_true in H2. repeat split; auto. lra.
  - repeat split; auto. apply sel_true. lra.
Qed.

Lemma split_lower vs P :
  In P (snd (vector2xy_split ROps vs)) <->
  exists v, In v vs /\ snd (vunit ROps v) < eps9 /\ P = project1 ROps 1 v.
Proof.
  unfold vector2xy_split. cbn [snd]. change (o_ofZ ROps 1) with 1. rewrite in_vector2xy.
  split; intros [v [H1 [H2 H3]]]; exists v; unfold selu in *;
    destruct (vunit ROps v) as [[a b] c]; simpl snd in *.
  - apply sel_true in H2. repeat split; auto. lra.
  - repeat split; auto. apply sel_true. lra.
Qed.

Lemma sel_cover u : sel (-1) u = true \/ sel 1 u = true.
Proof.
  destruct u as [[x y] z]. pose proof eps9_pos.
  destruct (Rle_dec 0 z); [left | right]; apply sel_true; lra.
Qed.

(* every vector is assigned to a hemisphere; z >= 0 goes to the upper set,
   z <= 0 to the lower one, equatorial vectors (z = 0) to both; a vector with
   z >= eps |v| is only in the upper selection and one with z <= -eps |v| only in
   the lower one, whatever its length *)
Lemma split_cover v :
  (0 <= snd v -> selu (-1) v = true) /\ (snd v <= 0 -> selu 1 v = true) /\
  (selu (-1) v = true \/ selu 1 v = true) /\
  (nrm v <> 0 -> eps9 * nrm v <= snd v -> selu 1 v = false) /\
  (nrm v <> 0 -> snd v <= - eps9 * nrm v -> selu (-1) v = false).
Proof.
  destruct v as [[x y] z]. simpl snd. pose proof eps9_pos as He.
  destruct (Req_dec (nrm (x, y, z)) 0) as [E | Hn].
  - apply nrm_zero in E. destruct E as [-> [-> ->]].
    assert (N0 : nrm (0, 0, 0) = 0).
    { unfold nrm, vnorm. rsimpl. replace (0 * 0 + 0 * 0 + 0 * 0) with 0 by ring. apply sqrt_0. }
    repeat split; intros; try apply selu_zero; try (left; apply selu_zero); contradiction.
  - pose proof (nrm_pos _ Hn) as Hp.
    repeat split; intros.
    + apply selu_true; [exact Hn | nra].
    + apply selu_true; [exact Hn | nra].
    + unfold selu. apply sel_cover.
    + apply selu_false; [exact Hn | lra].
    + apply selu_false; [exact Hn | lra].
Qed.

Lemma filter_cover_length {A} (f g : A -> bool) (l : list A) :
  (forall a, f a = true \/ g a = true) ->
  (length l <= length (filter f l) + length (filter g l))%nat.
Proof.
  intros H. induction l as [| a l IH]; simpl; [lia |].
  destruct (H a) as [E | E]; rewrite E; destruct (f a); destruct (g a); simpl; lia.
Qed.

Lemma split_lengths vs :
  (length vs <= length (fst (vector2xy_split ROps vs)) + length (snd (vector2xy_split ROps vs)))%nat.
Proof.
  unfold vector2xy_split, vector2xy. simpl fst. simpl snd. rewrite !map_length.
  rewrite <- (map_length (vunit ROps) vs) at 1.
  apply filter_cover_length. intros u. apply sel_cover.
Qed.

(* ------------------------------------------------- spherical coordinates *)
Definition tol8 : R := 1 / 100000000.
(* Vector3d.azimuth rounds COPIES of x and y: a component with |c| <= 1e-8 * |v|
   (np.isclose(c, 0, atol=1e-8 * radial)) counts as zero in arctan2; the vector
   itself is not modified, polar and radial are computed from the data as given *)
Definition snapr (n t : R) : R := if Rleb (Rabs t) (tol8 * n) then 0 else t.
Definition nosnapr (n t : R) : Prop := t = 0 \/ tol8 * n < Rabs t.
(* the band of a unit vector *)
Definition nosnap (t : R) : Prop := t = 0 \/ tol8 < Rabs t.

Lemma nosnapr_unit t : nosnapr 1 t <-> nosnap t.
Proof. unfold nosnapr, nosnap. rewrite Rmult_1_r. reflexivity. Qed.

(* the band is relative to the length: it does not depend on the scale *)
Lemma nosnapr_scale r c : 0 < r -> (nosnapr r (r * c) <-> nosnap c).
Proof.
  intros Hr. unfold nosnapr, nosnap. rewrite Rabs_mult, (Rabs_right r) by lra.
  unfold tol8. split; intros [H | H].
  - left. nra.
  - right. nra.
  - left. subst c. ring.
  - right. nra.
Qed.

Lemma snapr_id n t : nosnapr n t -> snapr n t = t.
Proof.
  unfold snapr, nosnapr. intros [H | H].
  - subst t. destruct (Rleb (Rabs 0) (tol8 * n)); reflexivity.
  - destruct (Rleb (Rabs t) (tol8 * n)) eqn:E; [| reflexivity].
    apply Rleb_true in E. lra.
Qed.

Lemma snapr_cases n t : snapr n t = t \/ (snapr n t = 0 /\ Rabs t <= tol8 * n).
Proof.
  unfold snapr. destruct (Rleb (Rabs t) (tol8 * n)) eqn:E; [right | left; reflexivity].
  apply Rleb_true in E. auto.
Qed.

Definition wrap2pi (a : R) : R := a + (if Rltb a 0 then 2 else 0) * PI.

Lemma wrap2pi_cs a : cos (wrap2pi a) = cos a /\ sin (wrap2pi a) = sin a.
Proof.
  unfold wrap2pi. destruct (Rltb a 0).
  - replace (a + 2 * PI) with (a + 2 * 1 * PI) by ring.
    rewrite <- (cos_period a 1), <- (sin_period a 1). simpl INR.
    split; f_equal; ring.
  - replace (a + 0 * PI) with a by ring. auto.
Qed.

Lemma wrap2pi_range a : - PI < a <= PI -> 0 <= wrap2pi a < 2 * PI.
Proof.
  intros H. pose proof PI_RGT_0. unfold wrap2pi.
  destruct (Rltb a 0) eqn:E.
  - apply Rltb_true in E. lra.
  - apply Rltb_false in E. lra.
Qed.

Lemma azimuth_unfold x y z :
  v_azimuth ROps x y z =
  wrap2pi (Ratan2 (snapr (nrm (x, y, z)) y) (snapr (nrm (x, y, z)) x)).
Proof. reflexivity. Qed.

(* reading the azimuth leaves the vector alone: polar and radial of to_polar are
   those of the vector as given *)
Lemma to_polar_unfold x y z :
  to_polar ROps false x y z = (v_azimuth ROps x y z, v_polar ROps x y z, v_radial ROps x y z).
Proof. reflexivity. Qed.

(* the azimuth is always in [0, 2 PI) *)
Lemma azimuth_range x y z : 0 <= v_azimuth ROps x y z < 2 * PI.
Proof. rewrite azimuth_unfold. apply wrap2pi_range. apply atan2_range. Qed.

Lemma polar_unfold x y z : v_polar ROps x y z = acos (z / nrm (x, y, z)).
Proof. reflexivity. Qed.

Lemma radial_unfold x y z : v_radial ROps x y z = nrm (x, y, z).
Proof. reflexivity. Qed.

(* the polar angle is always in [0, PI] *)
Lemma polar_range x y z : 0 <= v_polar ROps x y z <= PI.
Proof. rewrite polar_unfold. apply acos_bound. Qed.

Lemma z_over_r x y z : 0 < nrm (x, y, z) -> -1 <= z / nrm (x, y, z) <= 1.
Proof.
  intros Hn. pose proof (nrm_sq x y z) as E. set (r := nrm (x, y, z)) in *.
  assert (Hz : z * z <= r * r) by nra.
  assert (- r <= z <= r) by (split; nra).
  assert (Hi : 0 < / r) by (apply Rinv_0_lt_compat; lra).
  split.
  - apply Rmult_le_reg_r with r; [lra |]. unfold Rdiv. rewrite Rmult_assoc, Rinv_l by lra. lra.
  - apply Rmult_le_reg_r with r; [lra |]. unfold Rdiv. rewrite Rmult_assoc, Rinv_l by lra. lra.
Qed.

Lemma sin_polar x y z : 0 < nrm (x, y, z) ->
  sin (acos (z / nrm (x, y, z))) = rho x y / nrm (x, y, z).
Proof.
  intros Hn. rewrite sin_acos by (apply z_over_r; exact Hn).
  pose proof (nrm_sq x y z) as E. pose proof (rho_sq x y) as Er.
  set (r := nrm (x, y, z)) in *.
  apply sqrt_lem_1.
  - unfold Rsqr. pose proof (z_over_r x y z Hn) as Hb. fold r in Hb. nra.
  - apply Rmult_le_pos; [apply sqrt_pos | left; apply Rinv_0_lt_compat; lra].
  - unfold Rsqr.
    replace (rho x y / r * (rho x y / r)) with ((rho x y * rho x y) / (r * r)) by (field; lra).
    rewrite Er. replace (x * x + y * y) with (r * r - z * z) by lra. field. lra.
Qed.

(* ---- Cartesian -> spherical -> Cartesian *)
Lemma rho_0_l y : rho 0 y = Rabs y.
Proof. unfold rho. replace (0 * 0 + y * y) with (y²) by (unfold Rsqr; ring). apply sqrt_Rsqr_abs. Qed.

Lemma rho_0_r x : rho x 0 = Rabs x.
Proof. unfold rho. replace (x * x + 0 * 0) with (x²) by (unfold Rsqr; ring). apply sqrt_Rsqr_abs. Qed.

Lemma rho_nonneg x y : 0 <= rho x y.
Proof. unfold rho. apply sqrt_pos. Qed.

Lemma atan2_0_0 : Ratan2 0 0 = 0.
Proof. unfold Ratan2. destruct (Rlt_dec 0 0); [lra |]. reflexivity. Qed.

Lemma rho_ge_l x y : Rabs x <= rho x y.
Proof.
  pose proof (rho_sq x y) as E. pose proof (rho_nonneg x y) as H. pose proof (Rabs_pos x) as Ha.
  assert (Hx : Rabs x * Rabs x = x * x) by (unfold Rabs; destruct (Rcase_abs x); ring).
  destruct (Rle_dec (Rabs x) (rho x y)) as [L | L]; [exact L |]. nra.
Qed.

Lemma rho_ge_r x y : Rabs y <= rho x y.
Proof.
  pose proof (rho_sq x y) as E. pose proof (rho_nonneg x y) as H. pose proof (Rabs_pos y) as Ha.
  assert (Hy : Rabs y * Rabs y = y * y) by (unfold Rabs; destruct (Rcase_abs y); ring).
  destruct (Rle_dec (Rabs y) (rho x y)) as [L | L]; [exact L |]. nra.
Qed.

Lemma rho_le_sum x y : rho x y <= Rabs x + Rabs y.
Proof.
  pose proof (rho_sq x y) as E. pose proof (rho_nonneg x y) as H.
  pose proof (Rabs_pos x) as Hax. pose proof (Rabs_pos y) as Hay.
  assert (Hx : Rabs x * Rabs x = x * x) by (unfold Rabs; destruct (Rcase_abs x); ring).
  assert (Hy : Rabs y * Rabs y = y * y) by (unfold Rabs; destruct (Rcase_abs y); ring).
  destruct (Rle_dec (rho x y) (Rabs x + Rabs y)) as [L | L]; [exact L |]. nra.
Qed.

(* rho (cos, sin) of the angle of (x, y) is (x, y) itself *)
Lemma rho_cos_sin x y :
  rho x y * cos (Ratan2 y x) = x /\ rho x y * sin (Ratan2 y x) = y.
Proof.
  destruct (Req_dec x 0) as [Ex | Ex]; destruct (Req_dec y 0) as [Ey | Ey].
  - subst x y. rewrite rho_0_l, Rabs_R0. split; ring.
  - destruct (atan2_cos_sin x y (or_intror Ey)) as [H1 H2]. rewrite H1, H2.
    pose proof (rho_pos x y (or_intror Ey)). split; field; lra.
  - destruct (atan2_cos_sin x y (or_introl Ex)) as [H1 H2]. rewrite H1, H2.
    pose proof (rho_pos x y (or_introl Ex)). split; field; lra.
  - destruct (atan2_cos_sin x y (or_introl Ex)) as [H1 H2]. rewrite H1, H2.
    pose proof (rho_pos x y (or_introl Ex)). split; field; lra.
Qed.

(* from_polar of an azimuth wrap2pi(atan2 sy sx) and the polar angle and radius of (x, y, z) *)
Lemma from_polar_core x y z sx sy : 0 < nrm (x, y, z) ->
  polar2vec_r ROps false (wrap2pi (Ratan2 sy sx), acos (z / nrm (x, y, z)), nrm (x, y, z)) =
  (rho x y * cos (Ratan2 sy sx), rho x y * sin (Ratan2 sy sx), z).
Proof.
  intros Hn. unfold polar2vec_r, from_polar. rsimpl. cbv zeta.
  destruct (wrap2pi_cs (Ratan2 sy sx)) as [Hc Hs]. rewrite Hc, Hs.
  rewrite sin_polar by exact Hn.
  rewrite cos_acos by (apply z_over_r; exact Hn).
  f_equal; [f_equal |]; field; lra.
Qed.

Lemma cart_sph_cart_formula x y z : 0 < nrm (x, y, z) ->
  polar2vec_r ROps false (vec2polar ROps false (x, y, z)) =
  (rho x y * cos (Ratan2 (snapr (nrm (x, y, z)) y) (snapr (nrm (x, y, z)) x)),
   rho x y * sin (Ratan2 (snapr (nrm (x, y, z)) y) (snapr (nrm (x, y, z)) x)), z).
Proof.
  intros Hn. unfold vec2polar. rewrite to_polar_unfold, azimuth_unfold, polar_unfold, radial_unfold.
  apply from_polar_core. exact Hn.
Qed.

(* EXACT round trip, radians: all non-zero vectors of any length whose x and y
   components are zero or larger than 1e-8 |v| *)
Lemma cart_sph_cart_rad x y z : 0 < nrm (x, y, z) ->
  nosnapr (nrm (x, y, z)) x -> nosnapr (nrm (x, y, z)) y ->
  polar2vec_r ROps false (vec2polar ROps false (x, y, z)) = (x, y, z).
Proof.
  intros Hn Hx Hy. rewrite cart_sph_cart_formula by exact Hn.
  rewrite (snapr_id _ x Hx), (snapr_id _ y Hy).
  destruct (rho_cos_sin x y) as [H1 H2]. rewrite H1, H2. reflexivity.
Qed.

(* x rounded to 0, y kept and non-zero *)
Lemma snapped_x x y : y <> 0 ->
  rho x y * cos (Ratan2 y 0) = 0 /\ Rabs (rho x y * sin (Ratan2 y 0) - y) <= Rabs x.
Proof.
  intros Hy. destruct (atan2_cos_sin 0 y (or_intror Hy)) as [H1 H2].
  rewrite rho_0_l in H1, H2. rewrite H1, H2.
  pose proof (rho_ge_r x y) as Hge. pose proof (rho_le_sum x y) as Hle.
  split; [unfold Rdiv; ring |].
  destruct (Rlt_dec 0 y) as [P | P].
  - rewrite (Rabs_right y) in * by lra.
    replace (rho x y * (y / y) - y) with (rho x y - y) by (field; lra).
    rewrite Rabs_right by lra. lra.
  - assert (N : y < 0) by lra. rewrite (Rabs_left y) in * by lra.
    replace (rho x y * (y / - y) - y) with (- (rho x y - - y)) by (field; lra).
    rewrite Rabs_Ropp, Rabs_right by lra. lra.
Qed.

(* y rounded to 0, x kept and non-zero *)
Lemma snapped_y x y : x <> 0 ->
  Rabs (rho x y * cos (Ratan2 0 x) - x) <= Rabs y /\ rho x y * sin (Ratan2 0 x) = 0.
Proof.
  intros Hx. destruct (atan2_cos_sin x 0 (or_introl Hx)) as [H1 H2].
  rewrite rho_0_r in H1, H2. rewrite H1, H2.
  pose proof (rho_ge_l x y) as Hge. pose proof (rho_le_sum x y) as Hle.
  split; [| unfold Rdiv; ring].
  destruct (Rlt_dec 0 x) as [P | P].
  - rewrite (Rabs_right x) in * by lra.
    replace (rho x y * (x / x) - x) with (rho x y - x) by (field; lra).
    rewrite Rabs_right by lra. lra.
  - assert (N : x < 0) by lra. rewrite (Rabs_left x) in * by lra.
    replace (rho x y * (x / - x) - x) with (- (rho x y - - x)) by (field; lra).
    rewrite Rabs_Ropp, Rabs_right by lra. lra.
Qed.

(* round trip of EVERY non-zero vector, whatever its length: z and the length of
   the (x, y) part come back exactly; x and y come back up to the rounding of the
   azimuth, which is at most 3e-8 |v| (and nothing outside the band, see above) *)
Lemma cart_sph_cart_close x y z : 0 < nrm (x, y, z) ->
  let '(x', y', z') := polar2vec_r ROps false (vec2polar ROps false (x, y, z)) in
  z' = z /\ x' * x' + y' * y' = x * x + y * y /\
  Rabs (x' - x) <= 3 * tol8 * nrm (x, y, z) /\ Rabs (y' - y) <= 3 * tol8 * nrm (x, y, z).
Proof.
  intros Hn. rewrite cart_sph_cart_formula by exact Hn.
  set (n := nrm (x, y, z)) in *.
  assert (He : 0 < tol8 * n) by (unfold tol8; nra).
  set (e := tol8 * n) in *.
  split; [reflexivity | split].
  { set (a := Ratan2 (snapr n y) (snapr n x)).
    pose proof (sin2_cos2 a) as E. unfold Rsqr in E. pose proof (rho_sq x y) as Er.
    replace (rho x y * cos a * (rho x y * cos a) + rho x y * sin a * (rho x y * sin a))
      with (rho x y * rho x y * (sin a * sin a + cos a * cos a)) by ring.
    rewrite E, Er. ring. }
  replace (3 * tol8 * n) with (3 * e) by (unfold e; ring).
  pose proof (Rabs_pos x) as Hax. pose proof (Rabs_pos y) as Hay.
  destruct (snapr_cases n x) as [Sx | [Sx Bx]]; destruct (snapr_cases n y) as [Sy | [Sy By]];
    rewrite Sx, Sy; fold e in Bx || idtac; fold e in By || idtac.
  - destruct (rho_cos_sin x y) as [H1 H2]. rewrite H1, H2.
    replace (x - x) with 0 by ring. replace (y - y) with 0 by ring. rewrite Rabs_R0. lra.
  - destruct (Req_dec x 0) as [Ex | Ex].
    + subst x. rewrite atan2_0_0, cos_0, sin_0, rho_0_l.
      replace (Rabs y * 1 - 0) with (Rabs y) by ring. replace (Rabs y * 0 - y) with (- y) by ring.
      rewrite Rabs_Ropp, Rabs_Rabsolu. lra.
    + destruct (snapped_y x y Ex) as [H1 H2]. rewrite H2.
      replace (0 - y) with (- y) by ring. rewrite Rabs_Ropp. lra.
  - destruct (Req_dec y 0) as [Ey | Ey].
    + subst y. rewrite atan2_0_0, cos_0, sin_0, rho_0_r.
      replace (Rabs x * 0 - 0) with 0 by ring. rewrite Rabs_R0.
      replace (Rabs x * 1 - x) with (Rabs x - x) by ring.
      assert (Rabs (Rabs x - x) <= 2 * Rabs x).
      { unfold Rabs at 2 3. destruct (Rcase_abs x).
        - replace (- x - x) with (- (2 * x)) by ring. rewrite Rabs_Ropp, Rabs_left by lra. lra.
        - replace (x - x) with 0 by ring. rewrite Rabs_R0. lra. }
      lra.
    + destruct (snapped_x x y Ey) as [H1 H2]. rewrite H1.
      replace (0 - x) with (- x) by ring. rewrite Rabs_Ropp. lra.
  - rewrite atan2_0_0, cos_0, sin_0.
    pose proof (rho_le_sum x y) as Hle. pose proof (rho_nonneg x y) as H0.
    replace (rho x y * 0 - y) with (- y) by ring. rewrite Rabs_Ropp.
    split; [| lra].
    replace (rho x y * 1 - x) with (rho x y + - x) by ring.
    pose proof (Rabs_triang (rho x y) (- x)) as T. rewrite Rabs_Ropp, (Rabs_right (rho x y)) in T by lra.
    lra.
Qed.

(* degrees flag = scaling by 180/PI on output and PI/180 on input *)
Lemma to_polar_deg v :
  vec2polar ROps true v =
  (let '(a, t, r) := vec2polar ROps false v in (a * (180 / PI), t * (180 / PI), r)).
Proof. destruct v as [[x y] z]. reflexivity. Qed.

Lemma from_polar_deg a t r :
  polar2vec_r ROps true (a, t, r) = polar2vec_r ROps false (a * (PI / 180), t * (PI / 180), r).
Proof. reflexivity. Qed.

Lemma deg_rad_cancel a : a * (180 / PI) * (PI / 180) = a.
Proof. field. apply PI_neq0. Qed.

(* the round trip in degrees is the round trip in radians *)
Lemma cart_sph_cart_deg_rad v :
  polar2vec_r ROps true (vec2polar ROps true v) = polar2vec_r ROps false (vec2polar ROps false v).
Proof.
  rewrite to_polar_deg. destruct (vec2polar ROps false v) as [[a t] r].
  rewrite from_polar_deg, !deg_rad_cancel. reflexivity.
Qed.

Lemma cart_sph_cart_deg x y z : 0 < nrm (x, y, z) ->
  nosnapr (nrm (x, y, z)) x -> nosnapr (nrm (x, y, z)) y ->
  polar2vec_r ROps true (vec2polar ROps true (x, y, z)) = (x, y, z).
Proof. intros Hn Hx Hy. rewrite cart_sph_cart_deg_rad. apply cart_sph_cart_rad; assumption. Qed.

Lemma cart_sph_cart_exact deg x y z : 0 < nrm (x, y, z) ->
  nosnapr (nrm (x, y, z)) x -> nosnapr (nrm (x, y, z)) y ->
  polar2vec_r ROps deg (vec2polar ROps deg (x, y, z)) = (x, y, z).
Proof. destruct deg; [exact (cart_sph_cart_deg x y z) | exact (cart_sph_cart_rad x y z)]. Qed.

Lemma cart_sph_cart_all deg x y z : 0 < nrm (x, y, z) ->
  let '(x', y', z') := polar2vec_r ROps deg (vec2polar ROps deg (x, y, z)) in
  z' = z /\ x' * x' + y' * y' = x * x + y * y /\
  Rabs (x' - x) <= 3 * tol8 * nrm (x, y, z) /\ Rabs (y' - y) <= 3 * tol8 * nrm (x, y, z).
Proof.
  intros Hn. destruct deg; [rewrite cart_sph_cart_deg_rad |]; apply cart_sph_cart_close; exact Hn.
Qed.

(* the former witnesses of the absolute 1e-8 band: (1e-9, 1e-9, 0) used to come
   out of to_polar with radius 0; now every vector keeps its radius, and a vector
   shorter than 1e-8 with components of the size of its length round-trips exactly *)
Lemma radius_kept deg x y z : snd (vec2polar ROps deg (x, y, z)) = nrm (x, y, z).
Proof. destruct deg; reflexivity. Qed.

Lemma short_vector_roundtrip :
  let v : vec3 (T:=R) := (1 / 1000000000, 1 / 1000000000, 0) in
  0 < nrm v /\ polar2vec_r ROps false (vec2polar ROps false v) = v.
Proof.
  cbv zeta.
  assert (Hn : 0 < nrm (1 / 1000000000, 1 / 1000000000, 0)).
  { pose proof (nrm_sq (1 / 1000000000) (1 / 1000000000) 0) as E.
    pose proof (nrm_nonneg (1 / 1000000000, 1 / 1000000000, 0)) as H.
    destruct H as [H | H]; [exact H |]. rewrite <- H in E. lra. }
  assert (Hb : nosnapr (nrm (1 / 1000000000, 1 / 1000000000, 0)) (1 / 1000000000)).
  { right. rewrite Rabs_right by lra.
    pose proof (nrm_sq (1 / 1000000000) (1 / 1000000000) 0) as E.
    set (n := nrm (1 / 1000000000, 1 / 1000000000, 0)) in *. unfold tol8.
    assert (n < 2 / 1000000000) by nra. lra. }
  split; [exact Hn |]. apply cart_sph_cart_rad; assumption.
Qed.

(* spherical -> Cartesian -> spherical, radians: r > 0 (ANY radius), polar strictly
   between the poles, azimuth in [0, 2 PI); the direction cosines x/r and y/r are
   outside the rounding band *)
Lemma sph_cart_sph_rad a t r : 0 < r -> 0 < t < PI -> 0 <= a < 2 * PI ->
  nosnap (cos a * sin t) -> nosnap (sin a * sin t) ->
  vec2polar ROps false (polar2vec_r ROps false (a, t, r)) = (a, t, r).
Proof.
  intros Hr Ht Ha Hx Hy. pose proof PI_RGT_0 as Hpi.
  apply (nosnapr_scale r) in Hx; [| exact Hr]. apply (nosnapr_scale r) in Hy; [| exact Hr].
  unfold polar2vec_r, from_polar, vec2polar. rsimpl. cbv zeta. rewrite to_polar_unfold.
  rewrite azimuth_unfold, polar_unfold, radial_unfold.
  assert (Hst : 0 < sin t) by (apply sin_gt_0; lra).
  assert (Hn : nrm (r * (cos a * sin t), r * (sin a * sin t), r * cos t) = r).
  { unfold nrm, vnorm. rsimpl.
    replace (r * (cos a * sin t) * (r * (cos a * sin t)) + r * (sin a * sin t) * (r * (sin a * sin t))
             + r * cos t * (r * cos t))
      with (r² * ((sin t)² * ((sin a)² + (cos a)²) + (cos t)²)) by (unfold Rsqr; ring).
    rewrite sin2_cos2, Rmult_1_r, sin2_cos2, Rmult_1_r. apply sqrt_Rsqr. lra. }
  rewrite Hn.
  rewrite !(snapr_id _ _ Hx), !(snapr_id _ _ Hy).
  replace (r * cos t / r) with (cos t) by (field; lra).
  rewrite acos_cos by lra.
  f_equal. f_equal. unfold wrap2pi.
  set (k := r * sin t). assert (Hk : 0 < k) by (unfold k; nra).
  replace (r * (sin a * sin t)) with (k * sin a) by (unfold k; ring).
  replace (r * (cos a * sin t)) with (k * cos a) by (unfold k; ring).
  destruct (Rle_dec a PI) as [Hle | Hgt].
  - rewrite atan2_of_polar by (try exact Hk; lra).
    assert (E : Rltb a 0 = false) by (apply Rltb_false; lra). rewrite E. ring.
  - replace (sin a) with (sin (a - 2 * PI)).
    2:{ replace a with ((a - 2 * PI) + 2 * 1 * PI) at 2 by ring.
        rewrite <- (sin_period (a - 2 * PI) 1). simpl INR. f_equal; ring. }
    replace (cos a) with (cos (a - 2 * PI)).
    2:{ replace a with ((a - 2 * PI) + 2 * 1 * PI) at 2 by ring.
        rewrite <- (cos_period (a - 2 * PI) 1). simpl INR. f_equal; ring. }
    rewrite atan2_of_polar by (try exact Hk; lra).
    assert (E : Rltb (a - 2 * PI) 0 = true) by (apply Rltb_true; lra). rewrite E. ring.
Qed.

Lemma sph_cart_sph_deg a t r : 0 < r -> 0 < t < 180 -> 0 <= a < 360 ->
  nosnap (cos (a * (PI / 180)) * sin (t * (PI / 180))) ->
  nosnap (sin (a * (PI / 180)) * sin (t * (PI / 180))) ->
  vec2polar ROps true (polar2vec_r ROps true (a, t, r)) = (a, t, r).
Proof.
  intros Hr Ht Ha Hx Hy. pose proof PI_RGT_0 as Hpi.
  rewrite from_polar_deg, to_polar_deg.
  assert (Hi : 0 < PI / 180) by (unfold Rdiv; lra).
  rewrite sph_cart_sph_rad; auto.
  - replace (a * (PI / 180) * (180 / PI)) with a by (field; apply PI_neq0).
    replace (t * (PI / 180) * (180 / PI)) with t by (field; apply PI_neq0). reflexivity.
  - split; [nra |]. replace PI with (180 * (PI / 180)) at 2 by field. nra.
  - split; [nra |]. replace (2 * PI) with (360 * (PI / 180)) by field. nra.
Qed.

(* at the poles the azimuth is lost (returned as 0) but polar and radius are kept *)
Lemma sph_cart_sph_pole a r : 0 < r ->
  vec2polar ROps false (polar2vec_r ROps false (a, 0, r)) = (0, 0, r).
Proof.
  intros Hr.
  unfold polar2vec_r, from_polar, vec2polar. rsimpl. cbv zeta. rewrite to_polar_unfold.
  rewrite azimuth_unfold, polar_unfold, radial_unfold.
  rewrite sin_0, cos_0, !Rmult_0_r, Rmult_1_r.
  assert (Hs : forall n, snapr n 0 = 0) by (intros n; apply snapr_id; left; reflexivity). rewrite !Hs.
  assert (Hn : nrm (0, 0, r) = r).
  { unfold nrm, vnorm. rsimpl. replace (0 * 0 + 0 * 0 + r * r) with (r²) by (unfold Rsqr; ring).
    apply sqrt_Rsqr. lra. }
  rewrite Hn. replace (r / r) with 1 by (field; lra). rewrite acos_1.
  rewrite atan2_0_0. unfold wrap2pi.
  assert (Hb : Rltb 0 0 = false) by (apply Rltb_false; lra). rewrite Hb.
  f_equal. f_equal. ring.
Qed.

(* ------------------------------------------------------ array-level glue *)
Lemma forward_disk p vs X Y : is_pole p -> In (X, Y) (vector2xy ROps p vs) ->
  exists v, In v vs /\ selu p v = true /\ (X, Y) = project1 ROps p v /\
    X * X + Y * Y <= (1 + eps9) / (1 - eps9) /\
    (p * snd v <= 0 -> X * X + Y * Y <= 1).
Proof.
  intros Hp H. apply in_vector2xy in H. destruct H as [v [H1 [H2 H3]]].
  exists v. repeat split; auto.
  - pose proof (project1_disk p v Hp H2) as D. rewrite <- H3 in D. exact D.
  - intros Hz. pose proof (project1_disk_closed p v Hp Hz) as D. rewrite <- H3 in D. exact D.
Qed.

(* every selected non-zero vector, whatever its length, is recovered (as a unit
   vector) from its image *)
Lemma forward_roundtrip p vs P : is_pole p -> In P (vector2xy ROps p vs) ->
  exists v, In v vs /\ selu p v = true /\ P = project1 ROps p v /\
    (nrm v <> 0 -> xy2vec ROps p P = vunit ROps v).
Proof.
  intros Hp H. apply in_vector2xy in H. destruct H as [v [H1 [H2 H3]]].
  exists v. repeat split; auto. intros Hn. subst P. apply project1_roundtrip; assumption.
Qed.

(* which vectors are returned: the test is on the direction only *)
Lemma selection_spec p k x y z : is_pole p -> 0 < k -> nrm (x, y, z) <> 0 ->
  selu p (k * x, k * y, k * z) = selu p (x, y, z) /\
  (selu p (x, y, z) = true <-> - eps9 * nrm (x, y, z) < - p * z) /\
  (selu (-1) (x, y, z) = true -> selu 1 (x, y, z) = true -> Rabs z < eps9 * nrm (x, y, z)).
Proof.
  intros Hp Hk Hn. split; [apply selu_scale; assumption | split].
  - apply selu_true. exact Hn.
  - apply selu_both. exact Hn.
Qed.

(* acos u <= PI/2 iff u >= 0 : the polar angle is on the upper hemisphere grid
   [0, PI/2] exactly for z >= 0, and on the lower one [PI/2, PI] exactly for z <= 0 *)
Lemma acos_le_PI2 u : -1 <= u <= 1 -> (acos u <= PI / 2 <-> 0 <= u).
Proof.
  intros Hu. pose proof (acos_bound u) as Hb. pose proof PI_RGT_0 as Hpi.
  pose proof (cos_acos u Hu) as Hc. split; intros H.
  - destruct (Rle_dec 0 u) as [H0 | H0]; [exact H0 |].
    assert (Hlt : cos (acos u) < cos (PI / 2)) by (rewrite Hc, cos_PI2; lra).
    apply cos_decreasing_0 in Hlt; lra.
  - destruct (Rle_dec (acos u) (PI / 2)) as [H0 | H0]; [exact H0 |].
    assert (Hlt : cos (acos u) < cos (PI / 2)) by (apply cos_decreasing_1; lra).
    rewrite Hc, cos_PI2 in Hlt. lra.
Qed.

Lemma acos_ge_PI2 u : -1 <= u <= 1 -> (PI / 2 <= acos u <-> u <= 0).
Proof.
  intros Hu. pose proof (acos_bound u) as Hb. pose proof PI_RGT_0 as Hpi.
  pose proof (cos_acos u Hu) as Hc. split; intros H.
  - destruct (Rle_dec u 0) as [H0 | H0]; [exact H0 |].
    assert (Hlt : cos (PI / 2) < cos (acos u)) by (rewrite Hc, cos_PI2; lra).
    apply cos_decreasing_0 in Hlt; lra.
  - destruct (Rle_dec (PI / 2) (acos u)) as [H0 | H0]; [exact H0 |].
    assert (Hlt : cos (PI / 2) < cos (acos u)) by (apply cos_decreasing_1; lra).
    rewrite Hc, cos_PI2 in Hlt. lra.
Qed.

Lemma polar_upper x y z : 0 < nrm (x, y, z) ->
  (0 <= v_polar ROps x y z <= PI / 2 <-> 0 <= z).
Proof.
  intros Hn. rewrite polar_unfold. pose proof (z_over_r x y z Hn) as Hb.
  pose proof (acos_bound (z / nrm (x, y, z))) as Ha.
  assert (Hi : 0 < / nrm (x, y, z)) by (apply Rinv_0_lt_compat; exact Hn).
  split.
  - intros [_ H]. apply acos_le_PI2 in H; [| exact Hb].
    unfold Rdiv in H. nra.
  - intros H. split; [lra |]. apply acos_le_PI2; [exact Hb |]. unfold Rdiv. nra.
Qed.

Lemma polar_lower x y z : 0 < nrm (x, y, z) ->
  (PI / 2 <= v_polar ROps x y z <= PI <-> z <= 0).
Proof.
  intros Hn. rewrite polar_unfold. pose proof (z_over_r x y z Hn) as Hb.
  pose proof (acos_bound (z / nrm (x, y, z))) as Ha.
  assert (Hi : 0 < / nrm (x, y, z)) by (apply Rinv_0_lt_compat; exact Hn).
  split.
  - intros [H _]. apply acos_ge_PI2 in H; [| exact Hb].
    unfold Rdiv in H. nra.
  - intros H. split; [| lra]. apply acos_ge_PI2; [exact Hb |]. unfold Rdiv. nra.
Qed.
