(* C08 -- concrete instances: the faithful model violates invariance for the
   Laue group that Symmetry.laue builds for point group 211 (elements in the
   x-axis setting, sector chosen by the NAME "2/m" = z-axis setting); and a
   non-trivial instance of the hypotheses of the invariance theorem. *)
From Coq Require Import Reals ZArith Lra Lia Bool List.
From Verif Require Import Scalar RInst QuatKernels Conversions C08Color Quat QuatAlg C08Model C08ColorP C08GeomP C08ProjP.
Import ListNotations.
Local Open Scope R_scope.

Notation Rr := (rot (T:=R)).
Definition rd_exact : Rnd (T:=R) := mkRnd (fun x => x) (fun x => x) (fun _ => 0%nat).

(* Symmetry.laue of C2x (211): e, 2-fold about x, inversion, mirror normal to x *)
Definition laue_211 : list Rr :=
  [((1, 0, 0, 0), false); ((0, 1, 0, 0), false); ((1, 0, 0, 0), true); ((0, 1, 0, 0), true)].
(* fundamental sector selected by the name "2/m": normals z and y, centre (0, 1/2, 1/2) *)
Definition sector_2m : sector (T:=R) :=
  mkSector [(0, 0, 1); (0, 1, 0)] (0, 1 / 2, 1 / 2) [(-1, 0, 0); (1, 0, 0)].

Definition v_wit : Rv := (3 / 10, 1 / 2, 4 / 5).
Definition s_wit : Rr := ((0, 1, 0, 0), true).

Lemma s_wit_action : ract ROps s_wit v_wit = (- (3 / 10), 1 / 2, 4 / 5).
Proof.
  cbv [ract s_wit v_wit fst snd qrot vneg qu_rotate_vec_gufunc]. rsimpl. tup; field.
Qed.

Lemma in_sector_2m (x y z : R) : 0 <= y -> 0 <= z -> in_sector ROps sector_2m (x, y, z) = true.
Proof.
  intros Hy Hz. cbv [in_sector sector_2m s_normals forallb vdot]. rsimpl.
  destruct (Rltb (- (1 / 1000000000)) (0 * x + 0 * y + 1 * z)) eqn:A; [|apply Rltb_false in A; lra].
  destruct (Rltb (- (1 / 1000000000)) (0 * x + 1 * y + 0 * z)) eqn:B; [|apply Rltb_false in B; lra].
  reflexivity.
Qed.

(* the mirror image of a direction of the sector is again in the sector: both
   are kept, they are different, so are their positions in the colour key *)
Theorem invariance_211_refuted : forall rd : Rnd (T:=R),
  exists s v, In s laue_211 /\ unitr s /\
    project ROps rd false laue_211 sector_2m (ract ROps s v)
    <> project ROps rd false laue_211 sector_2m v.
Proof.
  intros rd. exists s_wit, v_wit. split; [right; right; right; left; reflexivity|].
  split; [cbv [unitr s_wit fst qnorm2]; rsimpl; ring|].
  rewrite s_wit_action. unfold project. cbn [s_normals sector_2m].
  unfold v_wit. rewrite !in_sector_2m by lra.
  intro E. inversion E. lra.
Qed.

(* ---------------------------------------------------------------- *)
(* a non-trivial instance of the invariance theorem: Laue group -1 *)
Definition laue_m1 : list Rr := [((1, 0, 0, 0), false); ((1, 0, 0, 0), true)].
Definition sector_m1 : sector (T:=R) := mkSector [(0, 0, 1)] (0, 0, 1) [].

Lemma ract_e (w : Rv) : ract ROps ((1, 0, 0, 0), false) w = w.
Proof. destruct w as [[x y] z]. cbv [ract fst snd qrot qu_rotate_vec_gufunc]. rsimpl. tup; ring. Qed.
Lemma ract_i (w : Rv) : ract ROps ((1, 0, 0, 0), true) w = vneg ROps w.
Proof. destruct w as [[x y] z]. cbv [ract fst snd qrot vneg qu_rotate_vec_gufunc]. rsimpl. tup; ring. Qed.
Lemma vneg_invol (w : Rv) : vneg ROps (vneg ROps w) = w.
Proof. destruct w as [[x y] z]. cbv [vneg]. rsimpl. tup; ring. Qed.

Lemma rinv_scalar b : rinv ROps (((1, 0, 0, 0) : quat (T:=R)), b) = ((1, 0, 0, 0), b).
Proof. cbv [rinv fst snd qconj qu_conj_gufunc]. f_equal. rsimpl. tup; ring. Qed.

Example invariance_nonvacuous :
  let s : Rr := ((1, 0, 0, 0), true) in
  let v : Rv := (1 / 5, 2 / 5, 4 / 5) in
  (forall g, In g laue_m1 -> unitr g) /\ laue_m1 <> [] /\ unitr s /\
  closed_under laue_m1 s /\ unique_best rd_exact laue_m1 sector_m1 v /\
  ract ROps s v <> v.
Proof.
  cbv zeta.
  assert (U : forall g, In g laue_m1 -> unitr g).
  { intros g [<- | [<- | []]]; cbv [unitr fst qnorm2]; rsimpl; ring. }
  split; [exact U|]. split; [discriminate|]. split; [apply U; right; left; reflexivity|].
  split; [|split].
  - split; intros j Hj; simpl in Hj.
    + destruct j as [|[|j]]; [exists 1%nat | exists 0%nat | lia]; (split; [simpl; lia|]); intros w;
        cbn [nth laue_m1]; rewrite rinv_scalar, ?ract_e, ?ract_i, ?vneg_invol; reflexivity.
    + destruct j as [|[|j]]; [exists 1%nat | exists 0%nat | lia]; (split; [simpl; lia|]); intros w;
        cbn [nth laue_m1]; rewrite ?ract_e, ?ract_i, ?vneg_invol; reflexivity.
  - (* closeness = [4/5; -4/5]: the maximum is attained once *)
    assert (B : best rd_exact laue_m1 sector_m1 (1 / 5, 2 / 5, 4 / 5) = 0%nat).
    { unfold best, closeness, laue_m1. cbn [map s_center sector_m1 r12 rd_exact].
      rewrite ract_e, ract_i. cbv [argmax argmax_from vneg vdot]. rsimpl.
      destruct (Rltb _ _) eqn:L; [apply Rltb_true in L; lra | reflexivity]. }
    unfold unique_best. rewrite B. intros j Hj. simpl in Hj.
    destruct j as [|[|j]]; [intros _ w; reflexivity | | lia].
    cbn [nth laue_m1 s_center sector_m1 r12 rd_exact]. rewrite ract_e, ract_i. cbv [vneg vdot]. rsimpl. lra.
  - rewrite ract_i. cbv [vneg]. rsimpl. intro E. inversion E. lra.
Qed.

Example range_nonvacuous : in01 (1 / 3) /\ in01 (3 / 4) /\ rgb01 (hsv_to_rgb ROps (1 / 3) (3 / 4) 1).
Proof.
  assert (A : in01 (1 / 3)) by (unfold in01; lra).
  assert (B : in01 (3 / 4)) by (unfold in01; lra).
  assert (C : in01 1) by (unfold in01; lra).
  exact (conj A (conj B (hsv_to_rgb_range _ _ _ A B C))).
Qed.
