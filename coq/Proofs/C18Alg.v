(* C18 -- element-level algebra over the reals: the lazy (dask einsum) formulas
   regenerated from Quaternion._outer_dask against the eager kernels
   regenerated from qu_multiply_gufunc / qu_rotate_vec_gufunc, the two
   backends of Quaternion * Vector3d, and the symmetry-reduced dot product
   with and without improper flags. *)
From Coq Require Import Reals ZArith Lra Nsatz Bool List Psatz.
From Verif Require Import Scalar RInst QuatKernels Conversions Quat QuatAlg RotArr C18Dask C18Nd C18Model.
Import ListNotations.
Local Open Scope R_scope.

Ltac dunfold :=
  cbv [dq_mul dq_rot dv_dot outer_dask_qq outer_dask_qv dot_outer_dask_vv qv_mul_npq qv_mul_builtin
       qunit qinv qnorm vq qvec vscale flip_if
       qmul qconj qrot qneg qnorm2 qdot qone qscale vdot vneg fst snd
       qu_multiply_gufunc qu_conj_gufunc qu_rotate_vec_gufunc] in *;
  rsimpl.

(* ---- quaternion x quaternion: the dask formula IS the Hamilton product ---- *)
Lemma dq_mul_eq (p q : Rq) : dq_mul ROps p q = qmul ROps p q.
Proof. qdestruct; dunfold; tuple_eq; ring. Qed.

(* ---- quaternion x vector --------------------------------------------------- *)
(* the dask formula is q v q* (conjugate, NOT inverse), for every quaternion *)
Lemma dq_rot_sandwich (q : Rq) (v : Rv) :
  dq_rot ROps q v = qvec (qmul ROps (qmul ROps q (vq ROps v)) (qconj ROps q)).
Proof. qdestruct; dunfold; tuple_eq; ring. Qed.

(* ... hence equals the eager kernel exactly on unit quaternions *)
Lemma dq_rot_unit (q : Rq) (v : Rv) : qnorm2 ROps q = 1 -> dq_rot ROps q v = qrot ROps q v.
Proof. qdestruct; dunfold; intros Hq; tuple_eq; nsatz. Qed.

Lemma qnorm2_pos (q : Rq) : q <> zq ROps -> 0 < qnorm2 ROps q.
Proof.
  qdestruct; cbv [zq]; dunfold. intros H.
  destruct (Req_dec r 0) as [-> |]; [|nra]. destruct (Req_dec r0 0) as [-> |]; [|nra].
  destruct (Req_dec r1 0) as [-> |]; [|nra]. destruct (Req_dec r2 0) as [-> |]; [|nra].
  exfalso; apply H; reflexivity.
Qed.

Lemma qnorm2_nonneg (q : Rq) : 0 <= qnorm2 ROps q.
Proof. qdestruct; dunfold; nra. Qed.

(* in general it is the eager result scaled by |q|^2 *)
Lemma dq_rot_scaled (q : Rq) (v : Rv) :
  q <> zq ROps -> dq_rot ROps q v = vscale ROps (qnorm2 ROps q) (qv_mul_builtin ROps q v).
Proof.
  intros H. pose proof (qnorm2_pos q H) as Hn.
  assert (Hs : sqrt (qnorm2 ROps q) * sqrt (qnorm2 ROps q) = qnorm2 ROps q) by (apply sqrt_sqrt; lra).
  assert (Hs0 : sqrt (qnorm2 ROps q) <> 0) by (intros E; rewrite E in Hs; lra).
  revert Hs Hs0 Hn. qdestruct. dunfold.
  generalize (sqrt (r * r + r0 * r0 + r1 * r1 + r2 * r2)). intros s Hs Hs0 Hn.
  tuple_eq; (field_simplify_eq; [|assumption]); replace (s ^ 2) with (s * s) by ring; rewrite Hs; ring.
Qed.

(* the two backends of Quaternion * Vector3d agree on every non-zero quaternion
   (numpy-quaternion's * taken to be the Hamilton product, ~ to be conj/|q|^2) *)
Lemma qv_backends_agree (q : Rq) (v : Rv) :
  q <> zq ROps -> qv_mul_npq ROps q v = qv_mul_builtin ROps q v.
Proof.
  intros H. pose proof (qnorm2_pos q H) as Hn.
  assert (Hs : sqrt (qnorm2 ROps q) * sqrt (qnorm2 ROps q) = qnorm2 ROps q) by (apply sqrt_sqrt; lra).
  assert (Hs0 : sqrt (qnorm2 ROps q) <> 0) by (intros E; rewrite E in Hs; lra).
  revert Hs Hs0 Hn. qdestruct. dunfold.
  generalize (sqrt (r * r + r0 * r0 + r1 * r1 + r2 * r2)). intros s Hs Hs0 Hn.
  assert (Hn0 : r * r + r0 * r0 + r1 * r1 + r2 * r2 <> 0) by lra.
  tuple_eq; (field_simplify_eq; [|repeat split; assumption]); replace (s ^ 2) with (s * s) by ring; rewrite Hs; ring.
Qed.

Lemma qunit_of_unit (q : Rq) : qnorm2 ROps q = 1 -> qunit ROps q = q.
Proof.
  intros H. unfold qunit, qnorm. rewrite H. cbv [ROps o_sqrt o_div]. rewrite sqrt_1.
  qdestruct. tuple_eq; field.
Qed.

Lemma qv_builtin_unit (q : Rq) (v : Rv) : qnorm2 ROps q = 1 -> qv_mul_builtin ROps q v = qrot ROps q v.
Proof. intros H. unfold qv_mul_builtin. rewrite qunit_of_unit by exact H. reflexivity. Qed.

Lemma qunit_unit (q : Rq) : q <> zq ROps -> qnorm2 ROps (qunit ROps q) = 1.
Proof.
  intros H. pose proof (qnorm2_pos q H) as Hn.
  assert (Hs : sqrt (qnorm2 ROps q) * sqrt (qnorm2 ROps q) = qnorm2 ROps q) by (apply sqrt_sqrt; lra).
  assert (Hs0 : sqrt (qnorm2 ROps q) <> 0) by (intros E; rewrite E in Hs; lra).
  revert Hs Hs0 Hn. qdestruct. dunfold.
  generalize (sqrt (r * r + r0 * r0 + r1 * r1 + r2 * r2)). intros s Hs Hs0 Hn.
  (field_simplify_eq; [|assumption]); replace (s ^ 2) with (s * s) by ring; rewrite Hs; ring.
Qed.

(* the dask formula on the NORMALISED quaternion (what Quaternion.outer(lazy=True)
   evaluates) is the eager result, for every non-zero quaternion *)
Lemma dq_rot_qunit (q : Rq) (v : Rv) :
  q <> zq ROps -> dq_rot ROps (qunit ROps q) v = qv_mul_builtin ROps q v.
Proof. intros H. unfold qv_mul_builtin. apply dq_rot_unit, qunit_unit, H. Qed.

(* the bare formula = eager exactly when |q| = 1 or the vector is zero *)
Lemma dq_rot_eq_iff (q : Rq) (v : Rv) :
  q <> zq ROps ->
  (dq_rot ROps q v = qv_mul_builtin ROps q v <-> qnorm2 ROps q = 1 \/ v = zv ROps).
Proof.
  intros H. split.
  - intros E. rewrite dq_rot_scaled in E by exact H.
    destruct (Req_dec (qnorm2 ROps q) 1) as [|Hn1]; [left; assumption|right].
    pose proof (qrot_dot (qunit ROps q) v v (qunit_unit q H)) as Hd.
    fold (qv_mul_builtin ROps q v) in Hd.
    destruct (qv_mul_builtin ROps q v) as [[x y] z]. destruct v as [[v0 v1] v2].
    revert E Hd Hn1. generalize (qnorm2 ROps q). intros n E Hd Hn1.
    cbv [vscale vdot zv] in *; rsimpl. injection E as E1 E2 E3.
    assert (x = 0) by nra. assert (y = 0) by nra. assert (z = 0) by nra. subst.
    assert (v0 = 0) by nra. assert (v1 = 0) by nra. assert (v2 = 0) by nra. subst. reflexivity.
  - intros [Hn | ->].
    + rewrite dq_rot_unit, qv_builtin_unit by exact Hn. reflexivity.
    + unfold qv_mul_builtin. destruct (qunit ROps q) as [[[a b] c] d]. destruct q as [[[a' b'] c'] d'].
      cbv [zv]; dunfold; tuple_eq; ring.
Qed.

(* a concrete non-unit quaternion on which the bare dask formula and the eager
   result differ (why Quaternion.outer hands self.unit to _outer_dask):
   q = 2 (norm 2, the identity rotation), v = x:  formula (4,0,0), eager (1,0,0) *)
Lemma dq_rot_nonunit_differs :
  dq_rot ROps (2, 0, 0, 0) (1, 0, 0) <> qv_mul_builtin ROps (2, 0, 0, 0) (1, 0, 0).
Proof.
  intros E. apply dq_rot_eq_iff in E.
  - destruct E as [E | E]; [dunfold; lra | cbv [zv] in E; rsimpl; injection E; intros; lra].
  - cbv [zq]; rsimpl. intros E'. injection E'; intros; lra.
Qed.

(* ---- dot products ---------------------------------------------------------- *)
Lemma dv_dot_eq (u v : Rv) : dv_dot ROps u v = vdot ROps u v.
Proof. qdestruct; reflexivity. Qed.

(* Cauchy-Schwarz on unit quaternions: the clip at 1 of the eager path is idle *)
Lemma qdot_unit_le1 (p q : Rq) :
  qnorm2 ROps p = 1 -> qnorm2 ROps q = 1 -> Rabs (qdot ROps p q) <= 1.
Proof.
  destruct p as [[[a b] c] d], q as [[[e f] g] h]; dunfold; intros Hp Hq.
  set (t := a * e + b * f + c * g + d * h).
  assert (Hl : t * t <= 1).
  { assert (E : (a * a + b * b + c * c + d * d) * (e * e + f * f + g * g + h * h) - t * t
                = (a * f - b * e) ^ 2 + (a * g - c * e) ^ 2 + (a * h - d * e) ^ 2
                  + (b * g - c * f) ^ 2 + (b * h - d * f) ^ 2 + (c * h - d * g) ^ 2)
      by (unfold t; ring).
    rewrite Hp, Hq in E.
    pose proof (pow2_ge_0 (a * f - b * e)). pose proof (pow2_ge_0 (a * g - c * e)).
    pose proof (pow2_ge_0 (a * h - d * e)). pose proof (pow2_ge_0 (b * g - c * f)).
    pose proof (pow2_ge_0 (b * h - d * f)). pose proof (pow2_ge_0 (c * h - d * g)). lra. }
  clearbody t. pose proof (pow2_ge_0 (t + 1)). pose proof (pow2_ge_0 (t - 1)).
  unfold Rabs. destruct (Rcase_abs t); nra.
Qed.

Lemma o_max_Rmax x y : o_max ROps x y = Rmax x y.
Proof.
  cbv [o_max ROps o_ltb Rltb]. unfold Rmax.
  destruct (Rlt_dec x y), (Rle_dec x y); try reflexivity; lra.
Qed.

Lemma o_min_Rmin x y : o_min ROps x y = Rmin x y.
Proof.
  cbv [o_min ROps o_ltb Rltb]. unfold Rmin.
  destruct (Rlt_dec y x), (Rle_dec x y); try reflexivity; lra.
Qed.

Lemma lmax0_cons x l : lmax0 ROps (x :: l) = Rmax x (lmax0 ROps l).
Proof. unfold lmax0. simpl. apply o_max_Rmax. Qed.

Lemma lmax0_nonneg l : 0 <= lmax0 ROps l.
Proof.
  induction l as [|x l IH]; [unfold lmax0; simpl; rsimpl; lra|].
  rewrite lmax0_cons. eapply Rle_trans; [exact IH|apply Rmax_r].
Qed.

Lemma lmax0_app l1 l2 : lmax0 ROps (l1 ++ l2) = Rmax (lmax0 ROps l1) (lmax0 ROps l2).
Proof.
  induction l1 as [|x l1 IH]; cbn [app].
  - change (lmax0 ROps []) with 0. rewrite Rmax_right by apply lmax0_nonneg. reflexivity.
  - rewrite !lmax0_cons, IH. apply Rmax_assoc.
Qed.

(* a max-reduction over a chunked axis (max of the per-chunk maxima) is the max *)
Lemma lmax0_concat ls : lmax0 ROps (map (lmax0 ROps) ls) = lmax0 ROps (concat ls).
Proof.
  induction ls as [|l ls IH]; cbn [map concat]; [reflexivity|].
  rewrite lmax0_cons, lmax0_app, IH. reflexivity.
Qed.

Lemma chunked_lmax_eq k l : (0 < k)%nat -> chunked_lmax ROps k l = lmax0 ROps l.
Proof. intros Hk. unfold chunked_lmax. rewrite lmax0_concat, NdIndex.concat_chunks by exact Hk. reflexivity. Qed.

(* eager and lazy terms agree on unit quaternions, whatever the flags: both are 0
   when exactly one of (pair, symmetry element) is improper, otherwise the clip
   at 1 of the eager path is idle *)
Lemma sym_term_eq (m s : rot (T:=R)) :
  qnorm2 ROps (fst m) = 1 -> qnorm2 ROps (fst s) = 1 ->
  sym_term_eager ROps m s = sym_term_lazy ROps m s.
Proof.
  intros Hm Hs. unfold sym_term_eager, sym_term_lazy.
  destruct (snd m), (snd s); cbn [xorb Bool.eqb]; try reflexivity;
    rewrite o_min_Rmin; change (o_abs ROps) with Rabs; change (o_ofZ ROps 1) with 1;
    apply Rmin_right; apply qdot_unit_le1; assumption.
Qed.

(* hence the two symmetry-reduced dot products agree for EVERY pair (proper or
   improper) and every list of unit symmetry elements (proper or improper) *)
Lemma sym_dot_eq (S : list (rot (T:=R))) (m : rot (T:=R)) :
  qnorm2 ROps (fst m) = 1 -> Forall (fun s => qnorm2 ROps (fst s) = 1) S ->
  sym_dot_eager ROps S m = sym_dot_lazy ROps S m.
Proof.
  intros Hm HS. unfold sym_dot_eager, sym_dot_lazy.
  induction HS as [|s S Hs _ IH]; [reflexivity|].
  cbn [map]. rewrite !lmax0_cons, IH. f_equal. apply sym_term_eq; assumption.
Qed.

(* the flags do matter (non-vacuity of the above): identity symmetry, a pair with
   exactly one improper member -- both modes give dot product 0, i.e. angle pi,
   where a proper pair gives 1, i.e. angle 0 *)
Lemma sym_dot_improper_pair :
  sym_dot_eager ROps [((1, 0, 0, 0), false)] ((1, 0, 0, 0), true) = 0 /\
  sym_dot_lazy ROps [((1, 0, 0, 0), false)] ((1, 0, 0, 0), true) = 0 /\
  sym_dot_lazy ROps [((1, 0, 0, 0), false)] ((1, 0, 0, 0), false) = 1.
Proof.
  unfold sym_dot_eager, sym_dot_lazy, sym_term_eager, sym_term_lazy. cbn [map fst snd xorb Bool.eqb].
  rewrite !lmax0_cons. change (lmax0 ROps []) with 0. dunfold. repeat split.
  - apply Rmax_left; lra.
  - apply Rmax_left; lra.
  - replace (1 * 1 + 0 * 0 + 0 * 0 + 0 * 0) with 1 by ring. rewrite Rabs_R1. apply Rmax_left; lra.
Qed.

(* the corresponding angles: pi and 0 *)
Lemma ang_0 : ang ROps 0 = PI.
Proof.
  unfold ang. rsimpl. unfold Rltb. destruct (Rlt_dec 1 (2 * (0 * 0) - 1)); [lra|].
  replace (2 * (0 * 0) - 1) with (Ropp 1) by ring. rewrite acos_opp, acos_1. ring.
Qed.
Lemma ang_1 : ang ROps 1 = 0.
Proof.
  unfold ang. rsimpl. unfold Rltb. destruct (Rlt_dec 1 (2 * (1 * 1) - 1)); [lra|].
  replace (2 * (1 * 1) - 1) with 1 by ring. apply acos_1.
Qed.
