(* C13 -- the composition: load (save m) for every well-formed record-level map. *)
From Coq Require Import ZArith List Bool String Ascii Lia Permutation Sorted.
From Verif Require Import Scalar Quat C13Store C13Map C13StoreP C13MapP.
Import ListNotations.
Local Open Scope Z_scope.

Lemma all_some_perm {A B} (F : A -> option B) l l' :
  Permutation l l' -> forall r, all_some (map F l) = Some r ->
  exists r', all_some (map F l') = Some r' /\ Permutation r r'.
Proof.
  induction 1 as [|a l l' Hp IH|a b l|l l' l'' H1 IH1 H2 IH2]; intros r; simpl.
  - intros Hr. exists r. split; [exact Hr|reflexivity].
  - destruct (F a) as [x|]; [|intros Hr; discriminate Hr]. destruct (all_some (map F l)) as [r0|] eqn:E; [|intros Hr; discriminate Hr].
    intros Hr. inversion Hr; subst. destruct (IH r0 eq_refl) as [r' [E' P]]. rewrite E'. exists (x :: r'). split; auto.
  - destruct (F b) as [y|]; [|intros Hr; discriminate Hr].
    destruct (F a) as [x|]; [|intros Hr; discriminate Hr].
    destruct (all_some (map F l)) as [r0|]; [|intros Hr; discriminate Hr]. intros Hr. inversion Hr; subst.
    exists (x :: y :: r0). split; [reflexivity|apply perm_swap].
  - intros Hr. destruct (IH1 r Hr) as [r1 [E1 P1]]. destruct (IH2 r1 E1) as [r2 [E2 P2]].
    exists r2. split; [exact E2|]. etransitivity; eassumption.
Qed.

Lemma nodup_app {A} (l l' : list A) :
  NoDup l -> NoDup l' -> (forall x, In x l -> In x l' -> False) -> NoDup (l ++ l').
Proof.
  induction 1 as [|a l Ha Hl IH]; intros H' Hd; simpl; [exact H'|].
  constructor.
  - rewrite in_app_iff. intros [H|H]; [contradiction|]. apply (Hd a); [now left|exact H].
  - apply IH; [exact H'|]. intros x Hx. apply Hd. now right.
Qed.

Lemma lookup_map {V W} (f : V -> W) k (l : dict V) :
  lookup k (map (fun kv => (fst kv, f (snd kv))) l) = option_map f (lookup k l).
Proof.
  induction l as [|[k' v] l IH]; simpl; [reflexivity|]. destruct (String.eqb k k'); [reflexivity|exact IH].
Qed.

Section Main.
Context {T : Type} (O : Ops T).
Variable ccanon : pystr -> pystr.
Variable restruct : structure (T:=T) -> structure (T:=T).
Variable fresh : list pystr -> nat -> phase (T:=T).

Notation wf_phase := (wf_phase ccanon restruct).
Notation ni_phase := (ni_phase O ccanon restruct).

Definition is_reserved (k : string) : bool := existsb (String.eqb k) reserved.

(* the hypotheses the proof forces -- each one is replayed on the implementation
   (design.d/C13.md) *)
Record wf (m : cmap (T:=T)) : Prop := {
  wf_n : (hd 0%nat (m_rsh m) <> 1)%nat;                       (* not exactly one point *)
  wf_mask : count_true (m_ind m) <> 0%nat;                    (* at least one point is in the data *)
  wf_xy : ~ (m_x m = None /\ m_y m = None);                   (* invariant of the constructor *)
  wf_x : forall a, m_x m = Some a -> (alen a <> 1)%nat;
  wf_y : forall a, m_y m = Some a -> (alen a <> 1)%nat;
  wf_pnd : NoDup (map fst (m_props m));                       (* a dict *)
  wf_pres : forall k, In k (map fst (m_props m)) -> is_reserved k = false;
  wf_plen : Forall (fun ka => (alen (snd ka) <> 1)%nat) (m_props m);
  wf_unit : forall u, m_unit m = Some u -> ustr u;            (* None is allowed *)
  wf_ids : map fst (m_phases m) = np_unique (m_pid m);        (* listed phases = phases in use *)
  wf_phne : m_phases m <> [];
  wf_ni : forall p, In (-1, p) (m_phases m) -> p = ni_phase;  (* the not-indexed phase is the default one *)
  wf_ph : Forall wf_phase (map snd (m_phases m)) }.

(* the map the reader rebuilds: everything as in m, rotations re-created from
   the stored Euler angles and improper flags, properties in name order *)
Definition reloaded (m : cmap (T:=T)) (props' : list (string * arr T)) : cmap (T:=T) :=
  mkMap (m_rsh m) (map (reload_rot O) (m_rots m)) (m_pid m) (m_x m) (m_y m)
        (m_ind m) props' (m_unit m) (m_phases m).

Lemma zip3_maps {A} (f1 f2 f3 : A -> T) l :
  zip3 (map f1 l) (map f2 l) (map f3 l) = map (fun e => (f1 e, f2 e, f3 e)) l.
Proof. induction l as [|a l IH]; simpl; [reflexivity|]. now rewrite IH. Qed.

Lemma shape_eqb'_refl s : shape_eqb' s s = true.
Proof. induction s as [|a s IH]; simpl; [reflexivity|]. now rewrite Nat.eqb_refl. Qed.

Lemma combine_maps {A B C} (f : A -> B) (g : A -> C) l :
  combine (map f l) (map g l) = map (fun x => (f x, g x)) l.
Proof. induction l as [|a l IH]; simpl; [reflexivity|]. now rewrite IH. Qed.

Lemma step_of_nn c : not_PN (step_of O c) = true.
Proof.
  unfold step_of. destruct c as [a|]; [|reflexivity].
  repeat match goal with |- context [match ?x with _ => _ end] => destruct x end; reflexivity.
Qed.

Theorem load_save (ver : pystr) (m : cmap (T:=T)) :
  wf m ->
  exists f props', save O ver m = Some f /\
    load O ccanon restruct fresh f = Some (reloaded m props') /\ Permutation props' (m_props m).
Proof.
  intros [Hn Hmask Hxy Hx Hy Hpnd Hpres Hplen Hunit Hids Hphne Hni Hph].
  unfold save, crystalmap2dict.
  destruct (count_true (m_ind m) =? 0)%nat eqn:Ec; [apply Nat.eqb_eq in Ec; contradiction|].
  set (base := [("y"%string, match m_y m with Some a => PA a | None => PI "int" 0 end);
                ("x"%string, match m_x m with Some a => PA a | None => PI "int" 0 end);
                ("phi1"%string, PA (mkArr f64 (m_rsh m) (DF (map (fun e => fst (fst e)) (map (to_euler O) (m_rots m))))));
                ("Phi"%string, PA (mkArr f64 (m_rsh m) (DF (map (fun e => snd (fst e)) (map (to_euler O) (m_rots m))))));
                ("phi2"%string, PA (mkArr f64 (m_rsh m) (DF (map (fun e => snd e) (map (to_euler O) (m_rots m))))));
                ("improper"%string, PA (mkArr b8 (m_rsh m) (DB (map snd (m_rots m)))));
                ("phase_id"%string, PA (mkArr i64 [hd 0%nat (m_rsh m)] (DI (m_pid m))));
                ("id"%string, PA (mkArr i64 [hd 0%nat (m_rsh m)] (DI (zrange (hd 0%nat (m_rsh m))))));
                ("is_in_data"%string, PA (mkArr b8 [hd 0%nat (m_rsh m)] (DB (m_ind m))))]).
  set (props := map (fun ka : string * arr T => (fst ka, PA (snd ka))) (m_props m)).
  assert (Hfresh : forall k, In k (map fst props) -> ~ In k (map fst base)).
  { intros k Hin. unfold props in Hin. rewrite map_map in Hin. cbn [fst] in Hin. specialize (Hpres k Hin).
    intros Hb. unfold is_reserved in Hpres.
    assert (existsb (String.eqb k) reserved = true); [|congruence].
    apply existsb_exists. exists k. split; [|apply String.eqb_refl].
    cbn in Hb. cbn. tauto. }
  assert (Hpk : map fst props = map fst (m_props m)) by (unfold props; rewrite map_map; reflexivity).
  rewrite dict_update_fresh; [|rewrite Hpk; exact Hpnd|exact Hfresh].
  set (hdr := [("grid_type"%string, PS (s2p "square"));
               ("ny"%string, PI "int" (match m_y m with Some a => asize a | None => 1 end));
               ("nx"%string, PI "int" (match m_x m with Some a => asize a | None => 1 end));
               ("y_step"%string, step_of O (m_y m)); ("x_step"%string, step_of O (m_x m));
               ("rotations_per_point"%string, PI "int" (Z.of_nat (per_point m)));
               ("scan_unit"%string, match m_unit m with Some u => PS u | None => PN end);
               ("phases"%string, phaselist2dict (m_phases m))]).
  match goal with |- exists f p, Some ?F = Some f /\ _ => exists F end.
  (* the file is read back as the expected reading of the python dict *)
  assert (Hnn_props : forallb (fun kv : string * pv T => not_PN (snd kv)) props = true).
  { unfold props. clear. induction (m_props m) as [|a l IH]; [reflexivity|]. simpl. exact IH. }
  assert (Hnn_base : forallb (fun kv : string * pv T => not_PN (snd kv)) base = true).
  { unfold base. cbn [forallb snd]. destruct (m_y m), (m_x m); reflexivity. }
  unfold load. rewrite store_roundtrip.
  rewrite rd_PD. rewrite lookup_rd by (apply nodupb_sound; reflexivity).
  cbn [lookup String.eqb Ascii.eqb Bool.eqb].
  (* dict2crystalmap *)
  unfold dict2crystalmap_dt, getD. rewrite rd_PD. rewrite !lookup_rd by (apply nodupb_sound; reflexivity).
  cbn [lookup String.eqb Ascii.eqb Bool.eqb].
  rewrite (rd_PD hdr), (rd_PD (base ++ props)).
  rewrite (rd_items_nn (base ++ props)) by (rewrite forallb_app, Hnn_base, Hnn_props; reflexivity).
  set (R := fun kv : string * pv T => (fst kv, rd (snd kv))).
  assert (Hnd_data : NoDup (map fst (map R (base ++ props)))).
  { assert (HR : forall l, map fst (map R l) = map fst l) by (intros l; unfold R; rewrite map_map; reflexivity).
    rewrite HR, map_app, Hpk. apply nodup_app; auto.
    - apply nodupb_sound. reflexivity.
    - intros k Hb Hp. rewrite <- Hpk in Hp. exact (Hfresh k Hp Hb). }
  assert (Hlk : forall k v, lookup k base = Some v ->
                 lookup k (sortk (map R (base ++ props))) = Some (rd v)).
  { intros k v Hv. rewrite lookup_sortk by exact Hnd_data. unfold R. rewrite lookup_map.
    rewrite (lookup_app_l _ _ _ _ Hv). reflexivity. }
  (* more than one point: "id" is read as an array, so no point axis has to be restored (repair 4fb3c89) *)
  assert (Hrs : forall dts, restore_point_axis dts (sortk (map R (base ++ props))) = sortk (map R (base ++ props))).
  { intros dts. unfold restore_point_axis. rewrite (Hlk "id"%string _ eq_refl). cbn [rd]. rewrite unwrap_id by exact Hn. reflexivity. }
  cbn [option_map]. rewrite Hrs.
  unfold getA. rewrite (Hlk "phi1"%string _ eq_refl), (Hlk "Phi"%string _ eq_refl), (Hlk "phi2"%string _ eq_refl).
  cbn [rd]. rewrite !unwrap_id by exact Hn. cbn [a_d a_sh].
  rewrite shape_eqb'_refl. cbn [andb negb].
  unfold get_improper. rewrite (Hlk "improper"%string _ eq_refl).
  cbn [rd]. rewrite !unwrap_id by exact Hn. cbn [a_d a_sh]. rewrite shape_eqb'_refl.
  (* header *)
  assert (Hgu : get_unit (sortk (rd_items hdr)) = Some (m_unit m)).
  { unfold get_unit. rewrite lookup_rd by (apply nodupb_sound; reflexivity).
    unfold hdr. cbn [lookup String.eqb Ascii.eqb Bool.eqb].
    destruct (m_unit m) as [u|] eqn:Hu; [|reflexivity].
    cbn [rd]. now rewrite (str_roundtrip _ (Hunit u eq_refl)). }
  rewrite Hgu.
  rewrite lookup_rd by (apply nodupb_sound; reflexivity).
  unfold hdr. cbn [lookup String.eqb Ascii.eqb Bool.eqb].
  pose proof (phl_rt ccanon restruct (m_phases m)) as Hpl.
  rewrite Hids in Hpl. specialize (Hpl (np_unique_sorted _) Hph).
  assert (Ephl : exists l, phaselist2dict (m_phases m) = PD l) by (eexists; reflexivity).
  destruct Ephl as [pl0 Ephl]. rewrite Ephl. cbv iota. rewrite <- Ephl. clear pl0 Ephl.
  destruct (rd (phaselist2dict (m_phases m))) as [pd| | | | |]; try discriminate. rewrite Hpl.
  rewrite (Hlk "phase_id"%string _ eq_refl), (Hlk "is_in_data"%string _ eq_refl).
  cbn [rd]. rewrite !unwrap_id by exact Hn. cbn [a_d].
  (* properties: what is left after popping the reserved keys *)
  assert (Hprops : all_some (map (fun kv : string * rv T => match snd kv with RA a => Some (fst kv, a) | _ => None end)
                                 (remove_keys reserved (map R (base ++ props)))) = Some (m_props m)).
  { rewrite map_app. unfold remove_keys. rewrite filter_app.
    replace (filter _ (map R base)) with (@nil (string * rv T)) by reflexivity. cbn [List.app].
    unfold props. rewrite map_map. clear - Hpres Hplen.
    induction (m_props m) as [|[k a] l IH]; [reflexivity|]. cbn [map fst snd filter R].
    assert (Hk : existsb (String.eqb k) reserved = false) by (apply Hpres; now left).
    unfold R at 1. cbn [fst snd]. rewrite Hk. cbn [negb map fst snd rd].
    inversion Hplen; subst. rewrite unwrap_id by assumption. cbn [all_some].
    rewrite IH; [reflexivity| |assumption]. intros k' Hin. apply Hpres. now right. }
  destruct (all_some_perm _ _ _ (remove_keys_perm reserved _ _ (Permutation_sym (sortk_perm (map R (base ++ props))))) _ Hprops)
    as [props' [Hp' Pp']].
  rewrite Hp'. exists props'. split; [reflexivity|]. split; [|apply Permutation_sym; exact Pp'].
  (* coordinates *)
  assert (Hcx : match lookup "x"%string (sortk (map R (base ++ props))) with Some (RA a) => Some a | _ => None end = m_x m).
  { rewrite (Hlk "x"%string _ eq_refl). destruct (m_x m) as [a|] eqn:E; [|reflexivity].
    cbn [rd]. now rewrite (unwrap_id _ (Hx a eq_refl)). }
  assert (Hcy : match lookup "y"%string (sortk (map R (base ++ props))) with Some (RA a) => Some a | _ => None end = m_y m).
  { rewrite (Hlk "y"%string _ eq_refl). destruct (m_y m) as [a|] eqn:E; [|reflexivity].
    cbn [rd]. now rewrite (unwrap_id _ (Hy a eq_refl)). }
  rewrite Hcx, Hcy.
  rewrite zip3_maps, !map_map, combine_maps.
  rewrite (mk_cmap_fix O ccanon restruct fresh) by assumption.
  unfold reloaded.
  match goal with |- Some (mkMap _ ?a _ _ _ _ _ _ _) = Some (mkMap _ ?b _ _ _ _ _ _ _) =>
    replace a with b; [reflexivity|] end.
  apply map_ext. intros r. unfold reload_rot. destruct (to_euler O r) as [[e0 e1] e2]. reflexivity.
Qed.


(* well-formedness does not look at the rotations and is invariant under
   re-ordering the properties: the reloaded map is well-formed again *)
Lemma wf_reloaded m props' : wf m -> Permutation props' (m_props m) -> wf (reloaded m props').
Proof.
  intros [Hn Hmask Hxy Hx Hy Hpnd Hpres Hplen Hu Hids Hphne Hni Hph] P.
  constructor; cbn [reloaded m_rsh m_ind m_x m_y m_props m_unit m_pid m_phases]; auto.
  - eapply Permutation_NoDup; [apply Permutation_sym, Permutation_map, P|exact Hpnd].
  - intros k Hin. apply Hpres. eapply Permutation_in; [apply Permutation_map, P|exact Hin].
  - rewrite Forall_forall in *. intros ka Hin. apply Hplen. eapply Permutation_in; [exact P|exact Hin].
Qed.

(* second cycle: saving and loading the loaded map succeeds again and returns
   the same shape, mask, coordinates, phase ids, properties, unit and phases *)
Theorem second_cycle (ver : pystr) (m : cmap (T:=T)) :
  wf m ->
  exists f1 p1 f2 p2,
    save O ver m = Some f1 /\ load O ccanon restruct fresh f1 = Some (reloaded m p1) /\
    save O ver (reloaded m p1) = Some f2 /\
    load O ccanon restruct fresh f2 = Some (reloaded (reloaded m p1) p2) /\
    Permutation p1 (m_props m) /\ Permutation p2 (m_props m).
Proof.
  intros H. destruct (load_save ver m H) as (f1 & p1 & S1 & L1 & P1).
  destruct (load_save ver _ (wf_reloaded m p1 H P1)) as (f2 & p2 & S2 & L2 & P2).
  exists f1, p1, f2, p2. repeat split; auto. cbn [reloaded m_props] in P2. etransitivity; eassumption.
Qed.

End Main.
