(* C01: axis-angle kernels qu2ax_single / ax2qu_single (generated) over R. *)
From Coq Require Import Reals ZArith Lra Nsatz Bool.
From Verif Require Import Scalar RInst QuatKernels Conversions Quat QuatAlg.
Local Open Scope R_scope.

Lemma unit_bounds a b c d : a * a + b * b + c * c + d * d = 1 -> -1 <= a <= 1.
Proof. intros H; split; nra. Qed.

Lemma half_angle x : 2 * x * (1 / 2) = x.
Proof. field. Qed.

(* positive hemisphere, generic branch: exact round trip qu -> ax -> qu *)
Lemma ax2qu_qu2ax_pos a b c d :
  a * a + b * b + c * c + d * d = 1 ->
  1 / 1000000000 <= a -> 1 / 100000000 <= 2 * acos a ->
  ax2qu ROps (qu2ax ROps (a, b, c, d)) = (a, b, c, d).
Proof.
  intros Hu Ha Hw. pose proof (unit_bounds a b c d Hu) as Hb.
  unfold ax2qu, qu2ax, qu2ax_single, ax2qu_single. cbv zeta. rsimpl.
  destruct (Rltb (2 * acos a) (1 / 1000000000)) eqn:E1; [apply Rltb_true in E1; lra|].
  destruct (Rltb (Rabs a) (1 / 1000000000)) eqn:E2;
    [apply Rltb_true in E2; rewrite Rabs_right in E2 by lra; lra|].
  destruct (Rleb a 0) eqn:E3; [apply Rleb_true in E3; lra|].
  assert (E4 : Rltb (-1 / 100000000) (2 * acos a) && Rltb (2 * acos a) (1 / 100000000) = false).
  { apply andb_false_iff; right. apply Rltb_false. lra. }
  rewrite E4. rewrite !half_angle.
  rewrite cos_acos, sin_acos by assumption.
  assert (Hs : b * b + c * c + d * d = 1 - a²) by (unfold Rsqr; lra).
  rewrite Hs.
  assert (Hne : a <> 1).
  { intros ->. rewrite acos_1 in Hw. lra. }
  assert (Hpos : 0 < 1 - a²) by (unfold Rsqr; nra).
  set (s := sqrt (1 - a²)).
  assert (Hs0 : 0 < s) by (apply sqrt_lt_R0; assumption).
  assert (Hss : s * s = 1 - a²) by (apply sqrt_sqrt; lra).
  replace (a * a + b / s * s * (b / s * s) + c / s * s * (c / s * s) + d / s * s * (d / s * s))
    with 1.
  2:{ field_simplify; [|lra]. unfold Rsqr in *. lra. }
  rewrite sqrt_1. tuple_eq; field; lra.
Qed.

(* the returned rotation angle is 2 acos a; it lies in [0, pi] for a >= 0 ... *)
Lemma qu2ax_angle_range_pos a :
  0 <= a <= 1 -> 0 <= 2 * acos a <= PI.
Proof.
  intros [H0 H1]. pose proof (acos_bound a) as [Hl Hu]. split; [lra|].
  destruct (Req_dec a 0) as [->|Hn]; [rewrite acos_0; lra|].
  destruct (Rle_dec (acos a) (PI / 2)) as [|Hgt]; [lra|exfalso].
  assert (Hc : cos (acos a) = a) by (apply cos_acos; lra).
  assert (cos (acos a) < 0) by (apply cos_lt_0; lra).
  lra.
Qed.

(* ... and EXCEEDS pi for a negative scalar part: the kernel does not
   canonicalise the sign.  Witness q = (-1, 0, 0, 0)-like inputs are degenerate,
   so we exhibit the angle for any -1 <= a < 0. *)
Lemma qu2ax_angle_neg a : -1 <= a < 0 -> PI < 2 * acos a.
Proof.
  intros [H0 H1].
  replace a with (- (- a)) by ring. rewrite acos_opp.
  pose proof (qu2ax_angle_range_pos (- a)) as H. 
  assert (Hlt : acos (- a) < PI / 2).
  { destruct (Rlt_dec (acos (- a)) (PI / 2)) as [|Hge]; [assumption|exfalso].
    pose proof (acos_bound (- a)) as [Hl Hu].
    assert (Hc : cos (acos (- a)) = - a) by (apply cos_acos; lra).
    destruct (Req_dec (acos (- a)) (PI / 2)) as [He|Hne].
    - rewrite He, cos_PI2 in Hc. lra.
    - assert (cos (acos (- a)) < 0) by (apply cos_lt_0; lra). lra. }
  lra.
Qed.

(* negative hemisphere, generic branch: the kernel pair returns the INVERSE
   rotation (conjugate), not +-q *)
Lemma ax2qu_qu2ax_neg a b c d :
  a * a + b * b + c * c + d * d = 1 ->
  a <= - (1 / 1000000000) -> -1 < a ->
  ax2qu ROps (qu2ax ROps (a, b, c, d)) = qconj ROps (a, b, c, d).
Proof.
  intros Hu Ha Hm. pose proof (unit_bounds a b c d Hu) as Hb.
  assert (Hw : PI < 2 * acos a) by (apply qu2ax_angle_neg; lra).
  pose proof PI_RGT_0 as Hpi. pose proof PI2_3_2 as Hpi2.
  unfold ax2qu, qu2ax, qu2ax_single, ax2qu_single, qconj, qu_conj_gufunc. cbv zeta. rsimpl.
  destruct (Rltb (2 * acos a) (1 / 1000000000)) eqn:E1; [apply Rltb_true in E1; lra|].
  destruct (Rltb (Rabs a) (1 / 1000000000)) eqn:E2;
    [apply Rltb_true in E2; rewrite Rabs_left in E2 by lra; lra|].
  destruct (Rleb a 0) eqn:E3; [|apply Rleb_false in E3; lra].
  assert (E4 : Rltb (-1 / 100000000) (2 * acos a) && Rltb (2 * acos a) (1 / 100000000) = false).
  { apply andb_false_iff; right. apply Rltb_false. lra. }
  rewrite E4. rewrite !half_angle.
  rewrite cos_acos, sin_acos by assumption.
  assert (Hs : b * b + c * c + d * d = 1 - a²) by (unfold Rsqr; lra).
  rewrite Hs.
  assert (Hpos : 0 < 1 - a²) by (unfold Rsqr; nra).
  set (s := sqrt (1 - a²)).
  assert (Hs0 : 0 < s) by (apply sqrt_lt_R0; assumption).
  assert (Hss : s * s = 1 - a²) by (apply sqrt_sqrt; lra).
  assert (Hq : forall x, x / - s * s = - x) by (intros; field; lra).
  rewrite !Hq.
  replace (a * a + - b * - b + - c * - c + - d * - d) with (a * a + b * b + c * c + d * d) by ring.
  rewrite Hu, sqrt_1. tuple_eq; field.
Qed.

(* hence the round-trip clause is REFUTED on the negative hemisphere *)
Lemma ax_roundtrip_neg_refuted :
  exists q : quat (T:=R), qnorm2 ROps q = 1 /\
    ax2qu ROps (qu2ax ROps q) <> q /\ ax2qu ROps (qu2ax ROps q) <> qneg ROps q.
Proof.
  exists (-3/5, 4/5, 0, 0).
  rewrite ax2qu_qu2ax_neg by lra.
  unfold qnorm2, qconj, qu_conj_gufunc, qneg; rsimpl. repeat split.
  - field.
  - intros H; injection H; intros; lra.
  - intros H; injection H; intros; lra.
Qed.

(* PUBLIC to_axes_angles (after the repair): the sign of the unit quaternion is
   chosen first (Quat.qpos), so the round trip holds on BOTH hemispheres and
   the angle is always in [0, pi] *)
Lemma ax_roundtrip_public a b c d :
  a * a + b * b + c * c + d * d = 1 ->
  1 / 1000000000 <= Rabs a -> 1 / 100000000 <= 2 * acos (Rabs a) ->
  ax2qu ROps (qu2ax ROps (qpos ROps (a, b, c, d))) = (a, b, c, d) \/
  ax2qu ROps (qu2ax ROps (qpos ROps (a, b, c, d))) = qneg ROps (a, b, c, d).
Proof.
  intros Hu Ha Hw. unfold qpos. rsimpl.
  destruct (Rltb a 0) eqn:E.
  - apply Rltb_true in E. right. rewrite Rabs_left in Ha, Hw by assumption.
    unfold qneg; rsimpl. apply ax2qu_qu2ax_pos; try assumption. nra.
  - apply Rltb_false in E. left. rewrite Rabs_right in Ha, Hw by lra.
    apply ax2qu_qu2ax_pos; assumption.
Qed.

Lemma ax_angle_range_public a b c d :
  a * a + b * b + c * c + d * d = 1 ->
  let '(a', _, _, _) := qpos ROps (a, b, c, d) in 0 <= 2 * acos a' <= PI.
Proof.
  intros Hu. pose proof (unit_bounds a b c d Hu) as Hb. unfold qpos. rsimpl.
  destruct (Rltb a 0) eqn:E.
  - apply Rltb_true in E. unfold qneg; rsimpl. apply qu2ax_angle_range_pos. lra.
  - apply Rltb_false in E. apply qu2ax_angle_range_pos. lra.
Qed.
