(* C17 -- list-level theory of the unique() models (Model/C17Unique.v).
   Everything here is for ALL input lists and for EVERY comparison function
   that is a total (pre)order [cmp_order]; no numerics. *)
From Coq Require Import List Bool Arith Lia Sorted Permutation.
From Verif Require Import C17Unique.
Import ListNotations.

(* ------------------------------------------------------------- list helpers *)
Section FindIndex.
Context {A : Type}.
Implicit Types (p : A -> bool) (l : list A).

Lemma find_index_le p l : find_index p l <= length l.
Proof. induction l as [|x t IH]; simpl; [lia|]. destruct (p x); lia. Qed.

Lemma find_index_lt p l : (exists x, In x l /\ p x = true) -> find_index p l < length l.
Proof.
  induction l as [|x t IH]; simpl; intros [y [Hin Hp]]; [contradiction|].
  destruct (p x) eqn:E; [lia|]. destruct Hin as [->|Hin]; [congruence|].
  apply Nat.succ_lt_mono in IH; [lia|]. exists y; auto.
Qed.

Lemma find_index_nth p l d : find_index p l < length l -> p (nth (find_index p l) l d) = true.
Proof.
  induction l as [|x t IH]; simpl; [lia|]. destruct (p x) eqn:E; auto.
  intros H. apply IH. lia.
Qed.

Lemma find_index_before p l d j : j < find_index p l -> p (nth j l d) = false.
Proof.
  revert j; induction l as [|x t IH]; simpl; intros j H; [lia|].
  destruct (p x) eqn:E; [lia|]. destruct j; auto. apply IH; lia.
Qed.

Lemma find_index_min p l d j : j < length l -> p (nth j l d) = true -> find_index p l <= j.
Proof.
  intros Hj Hp. destruct (le_lt_dec (find_index p l) j) as [H|H]; [exact H|].
  rewrite (find_index_before p l d j H) in Hp. discriminate.
Qed.

Lemma find_index_ext p q l : (forall x, In x l -> p x = q x) -> find_index p l = find_index q l.
Proof.
  induction l as [|x t IH]; simpl; intros H; auto.
  rewrite (H x (or_introl eq_refl)). destruct (q x); [reflexivity|]. f_equal. apply IH. intros; apply H; right; assumption.
Qed.

Lemma find_index_is p l d j :
  j < length l -> p (nth j l d) = true -> (forall i, i < j -> p (nth i l d) = false) ->
  find_index p l = j.
Proof.
  intros Hj Hp Hb. pose proof (find_index_min p l d j Hj Hp) as Hle.
  destruct (Nat.eq_dec (find_index p l) j) as [|Hne]; auto.
  assert (Hlt : find_index p l < j) by lia.
  assert (Hl : find_index p l < length l) by lia.
  pose proof (find_index_nth p l d Hl) as Ht.
  rewrite (Hb _ Hlt) in Ht. discriminate.
Qed.
End FindIndex.

Lemma nth_map_lt {A B} (f : A -> B) l k d d' : k < length l -> nth k (map f l) d' = f (nth k l d).
Proof. intros H. rewrite (nth_indep _ d' (f d)); [apply map_nth | rewrite map_length; auto]. Qed.

Lemma filter_map_swap {A B} (f : A -> B) (p : B -> bool) l :
  filter p (map f l) = map f (filter (fun x => p (f x)) l).
Proof. induction l as [|x t IH]; simpl; auto. destruct (p (f x)); simpl; rewrite IH; auto. Qed.

Lemma filter_filter {A} (p q : A -> bool) l :
  filter p (filter q l) = filter (fun x => q x && p x) l.
Proof. induction l as [|x t IH]; simpl; auto. destruct (q x); simpl; [destruct (p x)|]; rewrite IH; auto. Qed.

Lemma ss_nth {A} (R : A -> A -> Prop) l d :
  StronglySorted R l -> forall i j, i < j -> j < length l -> R (nth i l d) (nth j l d).
Proof.
  induction 1 as [|x t Hs IH Hf]; simpl; intros i j Hij Hj; [lia|].
  destruct j; [lia|]. destruct i.
  - rewrite Forall_forall in Hf. apply Hf. apply nth_In. lia.
  - apply IH; lia.
Qed.

Lemma ss_filter {A} (R : A -> A -> Prop) p l : StronglySorted R l -> StronglySorted R (filter p l).
Proof.
  induction 1 as [|x t Hs IH Hf]; simpl; [constructor|].
  destruct (p x); auto. constructor; auto.
  rewrite Forall_forall in *. intros y Hy. apply filter_In in Hy. apply Hf, Hy.
Qed.

Lemma ss_seq s n : StronglySorted lt (seq s n).
Proof.
  revert s; induction n; intros s; simpl; constructor; auto.
  rewrite Forall_forall. intros y Hy. apply in_seq in Hy. lia.
Qed.

Lemma ss_lt_ext l1 : forall l2,
  StronglySorted lt l1 -> StronglySorted lt l2 -> (forall x, In x l1 <-> In x l2) -> l1 = l2.
Proof.
  induction l1 as [|a t1 IH]; intros l2 H1 H2 Hm.
  - destruct l2 as [|b t2]; auto. exfalso. apply (proj2 (Hm b)). left; auto.
  - destruct l2 as [|b t2]. { exfalso. apply (proj1 (Hm a)). left; auto. }
    inversion H1 as [|? ? Hs1 Hf1]; inversion H2 as [|? ? Hs2 Hf2]; subst.
    rewrite Forall_forall in Hf1, Hf2.
    assert (a = b).
    { destruct (proj1 (Hm a) (or_introl eq_refl)) as [|Ha]; auto.
      destruct (proj2 (Hm b) (or_introl eq_refl)) as [|Hb]; auto.
      apply Hf2 in Ha. apply Hf1 in Hb. lia. }
    subst b. f_equal. apply IH; auto.
    intros x; split; intros Hx.
    + destruct (proj1 (Hm x) (or_intror Hx)) as [->|]; auto. apply Hf1 in Hx. lia.
    + destruct (proj2 (Hm x) (or_intror Hx)) as [->|]; auto. apply Hf2 in Hx. lia.
Qed.

(* ---------------------------------------------------------- insertion sort *)
Section ISort.
Context {A : Type} (leb : A -> A -> bool).

Lemma isort_ins_perm x l : Permutation (isort_ins leb x l) (x :: l).
Proof.
  induction l as [|y t IH]; simpl; auto. destruct (leb x y); auto.
  rewrite IH. apply perm_swap.
Qed.

Lemma isort_perm l : Permutation (isort leb l) l.
Proof. induction l as [|x t IH]; simpl; auto. rewrite isort_ins_perm. auto. Qed.

Lemma isort_length l : length (isort leb l) = length l.
Proof. apply Permutation_length, isort_perm. Qed.
End ISort.

Lemma isort_ins_sorted x l : StronglySorted le l -> StronglySorted le (isort_ins Nat.leb x l).
Proof.
  induction 1 as [|y t Hs IH Hf]; simpl; [repeat constructor|].
  destruct (Nat.leb x y) eqn:E.
  - apply Nat.leb_le in E. constructor; [constructor; auto|].
    constructor; auto. rewrite Forall_forall in *. intros z Hz. apply Hf in Hz. lia.
  - apply Nat.leb_gt in E. constructor; auto.
    rewrite Forall_forall in *. intros z Hz.
    apply (Permutation_in _ (isort_ins_perm Nat.leb x t)) in Hz. destruct Hz as [<-|Hz]; [lia|auto].
Qed.

Lemma sort_nat_sorted l : StronglySorted le (sort_nat l).
Proof. induction l; simpl; [constructor|]. apply isort_ins_sorted. auto. Qed.

Lemma sort_nat_perm l : Permutation (sort_nat l) l.
Proof. apply isort_perm. Qed.

Lemma ss_le_nodup_lt l : StronglySorted le l -> NoDup l -> StronglySorted lt l.
Proof.
  induction 1 as [|x t Hs IH Hf]; intros Hn; [constructor|].
  inversion Hn; subst. constructor; auto.
  rewrite Forall_forall in *. intros y Hy. specialize (Hf y Hy).
  assert (x <> y) by (intros ->; auto). lia.
Qed.

(* a list that is already sorted is left alone *)
Lemma sort_nat_id l : StronglySorted le l -> sort_nat l = l.
Proof.
  induction 1 as [|x t Hs IH Hf]; [reflexivity|].
  unfold sort_nat, isort in *. simpl. rewrite IH. destruct t as [|y t']; simpl; auto.
  rewrite Forall_forall in Hf. specialize (Hf y (or_introl eq_refl)).
  apply Nat.leb_le in Hf. rewrite Hf. auto.
Qed.

(* argsort *)
Lemma isort_ins_map_fst (x : nat * nat) l :
  map fst (isort_ins (fun a b => Nat.leb (fst a) (fst b)) x l) = isort_ins Nat.leb (fst x) (map fst l).
Proof. induction l as [|y t IH]; simpl; auto. destruct (Nat.leb (fst x) (fst y)); simpl; auto. f_equal; auto. Qed.

Lemma isort_map_fst (l : list (nat * nat)) :
  map fst (isort (fun a b => Nat.leb (fst a) (fst b)) l) = sort_nat (map fst l).
Proof. induction l as [|x t IH]; simpl; auto. rewrite isort_ins_map_fst. f_equal. auto. Qed.

Lemma map_fst_combine {A B} (l : list A) : forall l' : list B,
  length l = length l' -> map fst (combine l l') = l.
Proof. induction l; destruct l'; simpl; intros; try discriminate; auto. f_equal; auto. Qed.
Lemma map_snd_combine {A B} (l : list A) : forall l' : list B,
  length l = length l' -> map snd (combine l l') = l'.
Proof. induction l; destruct l'; simpl; intros; try discriminate; auto. f_equal; auto. Qed.

Lemma in_combine_seq (l : list nat) v p :
  In (v, p) (combine l (seq 0 (length l))) -> p < length l /\ nth p l 0 = v.
Proof.
  intros H. apply (In_nth _ _ (0, 0)) in H. destruct H as [i [Hi Hn]].
  rewrite combine_length, seq_length, Nat.min_id in Hi.
  rewrite combine_nth in Hn by (rewrite seq_length; auto).
  rewrite seq_nth in Hn by auto. simpl in Hn. inversion Hn; subst. auto.
Qed.

Lemma argsort_perm l : Permutation (argsort_nat l) (seq 0 (length l)).
Proof.
  unfold argsort_nat.
  rewrite <- (map_snd_combine l (seq 0 (length l))) at 2 by (rewrite seq_length; auto).
  apply Permutation_map, isort_perm.
Qed.

Lemma argsort_length l : length (argsort_nat l) = length l.
Proof. rewrite (Permutation_length (argsort_perm l)). apply seq_length. Qed.

Lemma argsort_take l : map (fun p => nth p l 0) (argsort_nat l) = sort_nat l.
Proof.
  unfold argsort_nat.
  set (P := isort _ _).
  rewrite map_map. transitivity (map fst P).
  - apply map_ext_in. intros [v p] Hin. simpl.
    apply (Permutation_in _ (isort_perm _ _)) in Hin. apply in_combine_seq in Hin. tauto.
  - unfold P. rewrite isort_map_fst, map_fst_combine; auto. rewrite seq_length; auto.
Qed.

(* the positions kept by a filter select exactly the filtered list *)
Lemma filter_positions {A} (p : A -> bool) (l : list A) d :
  map (fun i => nth i l d) (filter (fun i => p (nth i l d)) (seq 0 (length l))) = filter p l.
Proof.
  induction l as [|x t IH]; [reflexivity|].
  simpl length. change (seq 0 (S (length t))) with (0 :: seq 1 (length t)).
  rewrite <- seq_shift. simpl filter. rewrite filter_map_swap.
  destruct (p x); simpl map; rewrite map_map; simpl; rewrite IH; reflexivity.
Qed.

(* sorting commutes with a map that is strictly monotone on the list *)
Lemma isort_ins_map_mono (f : nat -> nat) x l :
  (forall a b, In a (x :: l) -> In b (x :: l) -> Nat.leb (f a) (f b) = Nat.leb a b) ->
  isort_ins Nat.leb (f x) (map f l) = map f (isort_ins Nat.leb x l).
Proof.
  induction l as [|y t IH]; intros H; simpl; [reflexivity|].
  rewrite (H x y) by (simpl; auto). destruct (Nat.leb x y); simpl; [reflexivity|].
  f_equal. apply IH. intros a b Ha Hb. apply H; simpl in *; tauto.
Qed.

Lemma sort_nat_map_mono (f : nat -> nat) l :
  (forall a b, In a l -> In b l -> Nat.leb (f a) (f b) = Nat.leb a b) ->
  sort_nat (map f l) = map f (sort_nat l).
Proof.
  induction l as [|x t IH]; intros H; [reflexivity|].
  unfold sort_nat, isort in *. simpl. rewrite IH by (intros; apply H; simpl; auto).
  apply isort_ins_map_mono. intros a b Ha Hb. apply H.
  - destruct Ha as [<-|Ha]; [left; auto|right]. apply (Permutation_in _ (isort_perm Nat.leb t)). exact Ha.
  - destruct Hb as [<-|Hb]; [left; auto|right]. apply (Permutation_in _ (isort_perm Nat.leb t)). exact Hb.
Qed.

(* a permutation of 0..n-1, sorted, is 0..n-1 *)
Lemma sort_nat_perm_seq l n : Permutation l (seq 0 n) -> sort_nat l = seq 0 n.
Proof.
  intros P. apply ss_lt_ext.
  - apply ss_le_nodup_lt; [apply sort_nat_sorted|].
    apply (Permutation_NoDup (Permutation_sym (Permutation_trans (sort_nat_perm l) P))). apply seq_NoDup.
  - apply ss_seq.
  - intros x. split; intros Hx.
    + apply (Permutation_in _ P). apply (Permutation_in _ (sort_nat_perm l)). exact Hx.
    + apply (Permutation_in _ (Permutation_sym (sort_nat_perm l))).
      apply (Permutation_in _ (Permutation_sym P)). exact Hx.
Qed.

(* np.argsort(np.argsort(l)) is the rank: position of l[u] in np.sort(l) *)
Lemma argsort_argsort_rank l u :
  u < length l ->
  nth u (argsort_nat (argsort_nat l)) 0 < length l /\ nth (nth u (argsort_nat (argsort_nat l)) 0) (sort_nat l) 0 = nth u l 0.
Proof.
  intros Hu. set (a := argsort_nat l). set (r := argsort_nat a).
  assert (La : length a = length l) by apply argsort_length.
  assert (Lr : length r = length l) by (unfold r; rewrite argsort_length; auto).
  assert (Hm : nth u r 0 < length l).
  { assert (Hin : In (nth u r 0) r) by (apply nth_In; lia).
    apply (Permutation_in _ (argsort_perm a)) in Hin. apply in_seq in Hin. lia. }
  split; auto.
  assert (Har : nth (nth u r 0) a 0 = u).
  { pose proof (argsort_take a) as T. fold r in T.
    rewrite (sort_nat_perm_seq a (length l)) in T by apply argsort_perm.
    rewrite <- La in T.
    apply (f_equal (fun x => nth u x 0)) in T.
    rewrite (nth_map_lt (fun p => nth p a 0) r u 0 0) in T by lia.
    rewrite seq_nth in T by lia. exact T. }
  pose proof (argsort_take l) as T. fold a in T. rewrite <- T.
  rewrite (nth_map_lt (fun p => nth p l 0) a (nth u r 0) 0 0) by lia.
  rewrite Har. reflexivity.
Qed.

(* ------------------------------------------------------- comparison axioms *)
Record cmp_order {K} (cmp : K -> K -> comparison) : Prop := {
  co_refl : forall x, cmp x x = Eq;
  co_sym : forall x y, cmp y x = CompOpp (cmp x y);
  co_trans : forall x y z, cmp x y = Lt -> cmp y z = Lt -> cmp x z = Lt;
  co_eq : forall x y z, cmp x y = Eq -> cmp x z = cmp y z
}.

Section NpUniqueSpec.
Context {K : Type} (cmp : K -> K -> comparison) (CO : cmp_order cmp).
Notation keq := (keq cmp).
Definition slt (a b : K) : Prop := cmp a b = Lt.

Lemma keq_refl x : keq x x = true.
Proof. unfold C17Unique.keq. rewrite (co_refl _ CO). auto. Qed.
Lemma keq_true x y : keq x y = true <-> cmp x y = Eq.
Proof. unfold C17Unique.keq. destruct (cmp x y); split; congruence. Qed.
Lemma keq_sym x y : keq x y = keq y x.
Proof. unfold C17Unique.keq. rewrite (co_sym _ CO x y). destruct (cmp x y); auto. Qed.
Lemma keq_l x y z : keq x y = true -> keq x z = keq y z.
Proof. rewrite keq_true. intros H. unfold C17Unique.keq. rewrite (co_eq _ CO _ _ z H). auto. Qed.
Lemma keq_r x y z : keq x y = true -> keq z x = keq z y.
Proof. intros H. rewrite (keq_sym z x), (keq_sym z y). apply keq_l; auto. Qed.
Lemma keq_trans x y z : keq x y = true -> keq y z = true -> keq x z = true.
Proof. intros H1 H2. rewrite (keq_l _ _ _ H1). auto. Qed.
Lemma slt_not_keq x y : slt x y -> keq x y = false.
Proof. unfold slt, C17Unique.keq. intros ->. auto. Qed.

Lemma uins_in k l x : In x (uins cmp k l) -> x = k \/ In x l.
Proof.
  induction l as [|h t IH]; simpl; [intuition|].
  destruct (cmp k h); simpl; intuition.
Qed.
Lemma uins_old k l x : In x l -> In x (uins cmp k l).
Proof.
  induction l as [|h t IH]; simpl; [intuition|].
  destruct (cmp k h); simpl; intuition.
Qed.
Lemma uins_has k l : exists u, In u (uins cmp k l) /\ keq u k = true.
Proof.
  induction l as [|h t IH]; simpl.
  - exists k; split; auto. apply keq_refl.
  - destruct (cmp k h) eqn:E.
    + exists h; split; simpl; auto. rewrite keq_sym. apply keq_true; auto.
    + exists k; split; simpl; auto. apply keq_refl.
    + destruct IH as [u [Hi Hu]]. exists u; split; simpl; auto.
Qed.

Lemma uins_sorted k l : StronglySorted slt l -> StronglySorted slt (uins cmp k l).
Proof.
  induction 1 as [|h t Hs IH Hf]; simpl; [repeat constructor|].
  destruct (cmp k h) eqn:E.
  - constructor; auto.
  - constructor; [constructor; auto|]. constructor; auto.
    rewrite Forall_forall in *. intros z Hz. apply (co_trans _ CO k h z); auto. apply Hf; auto.
  - constructor; auto. rewrite Forall_forall in *. intros z Hz.
    apply uins_in in Hz. destruct Hz as [->|Hz]; auto.
    unfold slt. rewrite (co_sym _ CO k h), E. auto.
Qed.

Lemma usort_sorted rows : StronglySorted slt (usort cmp rows).
Proof. induction rows; simpl; [constructor|]. apply uins_sorted; auto. Qed.

Lemma usort_sound rows u : In u (usort cmp rows) -> In u rows.
Proof.
  induction rows as [|k t IH]; simpl; auto. intros H. apply uins_in in H. intuition.
Qed.

Lemma usort_complete rows r : In r rows -> exists u, In u (usort cmp rows) /\ keq u r = true.
Proof.
  induction rows as [|k t IH]; simpl; [contradiction|]. intros [->|H].
  - apply uins_has.
  - destruct (IH H) as [u [Hi Hu]]. exists u; split; auto. apply uins_old; auto.
Qed.

(* positions in a strictly sorted list are determined by the key *)
Lemma sorted_pos_unique us d a b x :
  StronglySorted slt us -> a < length us -> b < length us ->
  keq (nth a us d) x = true -> keq (nth b us d) x = true -> a = b.
Proof.
  intros Hs Ha Hb Ea Eb.
  assert (E : keq (nth a us d) (nth b us d) = true).
  { apply keq_trans with x; auto. rewrite keq_sym; auto. }
  destruct (Nat.lt_trichotomy a b) as [H|[H|H]]; auto.
  - pose proof (ss_nth _ us d Hs a b H Hb) as L. apply slt_not_keq in L. congruence.
  - pose proof (ss_nth _ us d Hs b a H Ha) as L. apply slt_not_keq in L.
    rewrite keq_sym in L. congruence.
Qed.

(* ---- specification of the np.unique model ---- *)
Section Spec.
Variable rows : list K.
Variable d : K.
Let us := usort cmp rows.
Let idx := snd (fst (np_unique cmp rows)).
Let inv := snd (np_unique cmp rows).

Lemma npu_us : fst (fst (np_unique cmp rows)) = us. Proof. reflexivity. Qed.

Lemma npu_len_idx : length idx = length us.
Proof. unfold idx, np_unique; simpl. apply map_length. Qed.
Lemma npu_len_inv : length inv = length rows.
Proof. unfold inv, np_unique; simpl. apply map_length. Qed.

Lemma npu_idx_nth k : k < length us ->
  nth k idx 0 = find_index (fun r => keq r (nth k us d)) rows.
Proof. intros H. unfold idx, np_unique; simpl. fold us. apply (nth_map_lt (fun u => find_index (fun r => keq r u) rows) us k d 0 H). Qed.

Lemma npu_inv_nth j : j < length rows ->
  nth j inv 0 = find_index (fun u => keq u (nth j rows d)) us.
Proof. intros H. unfold inv, np_unique; simpl. apply (nth_map_lt (fun r => find_index (fun u => keq u r) (usort cmp rows)) rows j d 0 H). Qed.

(* first occurrence *)
Lemma npu_idx_spec k : k < length us ->
  nth k idx 0 < length rows
  /\ keq (nth (nth k idx 0) rows d) (nth k us d) = true
  /\ forall j, j < nth k idx 0 -> keq (nth j rows d) (nth k us d) = false.
Proof.
  intros Hk. rewrite (npu_idx_nth k Hk).
  assert (Hlt : find_index (fun r => keq r (nth k us d)) rows < length rows).
  { apply find_index_lt. exists (nth k us d). split; [|apply keq_refl].
    apply usort_sound. apply nth_In; auto. }
  split; auto. split.
  - apply (find_index_nth (fun r => keq r (nth k us d)) rows d Hlt).
  - intros j Hj. apply (find_index_before (fun r => keq r (nth k us d)) rows d j Hj).
Qed.

(* inverse *)
Lemma npu_inv_spec j : j < length rows ->
  nth j inv 0 < length us /\ keq (nth (nth j inv 0) us d) (nth j rows d) = true.
Proof.
  intros Hj. rewrite (npu_inv_nth j Hj).
  assert (Hlt : find_index (fun u => keq u (nth j rows d)) us < length us).
  { apply find_index_lt. apply usort_complete. apply nth_In; auto. }
  split; auto. apply (find_index_nth (fun u => keq u (nth j rows d)) us d Hlt).
Qed.

Lemma npu_inv_idx k : k < length us -> nth (nth k idx 0) inv 0 = k.
Proof.
  intros Hk. destruct (npu_idx_spec k Hk) as [H1 [H2 _]].
  destruct (npu_inv_spec _ H1) as [H3 H4].
  apply (sorted_pos_unique us d _ _ (nth (nth k idx 0) rows d)); auto.
  - apply usort_sorted.
  - rewrite keq_sym; auto.
Qed.

(* idx[inv[j]] is the first position carrying the key of row j *)
Lemma npu_idx_inv j : j < length rows ->
  nth (nth j inv 0) idx 0 = find_index (fun r => keq r (nth j rows d)) rows.
Proof.
  intros Hj. destruct (npu_inv_spec j Hj) as [H1 H2].
  rewrite (npu_idx_nth _ H1). apply find_index_ext. intros x _. apply keq_r; auto.
Qed.

Lemma npu_idx_nodup : NoDup idx.
Proof.
  apply (NoDup_nth idx 0). intros a b Ha Hb E. rewrite npu_len_idx in Ha, Hb.
  rewrite <- (npu_inv_idx a Ha), <- (npu_inv_idx b Hb), E. auto.
Qed.

Lemma first_pos_is_first j : j < length rows ->
  is_first cmp rows d (find_index (fun r => keq r (nth j rows d)) rows) = true.
Proof.
  intros Hj. unfold is_first. apply Nat.eqb_eq.
  set (f := find_index (fun r => keq r (nth j rows d)) rows).
  assert (Hf : f < length rows).
  { apply find_index_lt. exists (nth j rows d). split; [apply nth_In; auto | apply keq_refl]. }
  pose proof (find_index_nth (fun r => keq r (nth j rows d)) rows d Hf) as E. fold f in E.
  apply find_index_ext. intros x _. apply keq_r; auto.
Qed.

Lemma npu_idx_mem j : In j idx <-> (j < length rows /\ is_first cmp rows d j = true).
Proof.
  split.
  - intros H. apply (In_nth _ _ 0) in H. destruct H as [k [Hk E]]. rewrite npu_len_idx in Hk.
    destruct (npu_idx_spec k Hk) as [H1 [H2 H3]]. rewrite E in *. split; auto.
    unfold is_first. apply Nat.eqb_eq.
    transitivity (find_index (fun r => keq r (nth k us d)) rows).
    + apply find_index_ext. intros x _. apply keq_r; auto.
    + rewrite <- (npu_idx_nth k Hk). exact E.
  - intros [Hj Hf]. unfold is_first in Hf. apply Nat.eqb_eq in Hf.
    rewrite <- Hf, <- (npu_idx_inv j Hj). apply nth_In. rewrite npu_len_idx.
    apply (npu_inv_spec j Hj).
Qed.

(* np.sort(idx) = the increasing list of first-occurrence positions *)
Lemma npu_sort_idx : sort_nat idx = firsts cmp rows d.
Proof.
  apply ss_lt_ext.
  - apply ss_le_nodup_lt; [apply sort_nat_sorted|].
    apply (Permutation_NoDup (Permutation_sym (sort_nat_perm idx))). apply npu_idx_nodup.
  - unfold firsts. apply ss_filter, ss_seq.
  - intros x. unfold firsts. rewrite filter_In, in_seq. split.
    + intros H. apply (Permutation_in _ (sort_nat_perm idx)) in H. apply npu_idx_mem in H.
      split; [lia|tauto].
    + intros [H1 H2]. apply (Permutation_in _ (Permutation_sym (sort_nat_perm idx))).
      apply npu_idx_mem. split; [lia|auto].
Qed.
End Spec.
End NpUniqueSpec.

(* one more consequence of the np.unique specification: rows[idx[inv[j]]] ~ rows[j] *)
Section NpUniqueSpec2.
Context {K : Type} (cmp : K -> K -> comparison) (CO : cmp_order cmp).
Lemma npu_idx_inv_keq (rows : list K) (d : K) j :
  j < length rows ->
  let idx := snd (fst (np_unique cmp rows)) in
  let inv := snd (np_unique cmp rows) in
  nth (nth j inv 0) idx 0 <= j /\
  keq cmp (nth (nth (nth j inv 0) idx 0) rows d) (nth j rows d) = true.
Proof.
  intros Hj idx inv.
  destruct (npu_inv_spec cmp CO rows d j Hj) as [H1 H2].
  destruct (npu_idx_spec cmp CO rows d _ H1) as [H3 [H4 H5]].
  fold idx inv in H1, H2, H3, H4, H5 |- *. split.
  - destruct (le_lt_dec (nth (nth j inv 0) idx 0) j) as [|L]; auto.
    apply H5 in L. rewrite (keq_sym cmp CO) in L. congruence.
  - apply (keq_trans cmp CO) with (nth (nth j inv 0) (usort cmp rows) d); auto.
Qed.
End NpUniqueSpec2.

(* ------------------------------------------- first-appearance de-duplication *)
Section NubSpec.
Context {E K : Type} (cmp : K -> K -> comparison) (CO : cmp_order cmp) (key : E -> K).
Definition kdiff (x y : E) : Prop := keq cmp (key x) (key y) = false.

Lemma nubk_in l x : In x (nubk cmp key l) -> In x l.
Proof.
  induction l as [|a t IH]; simpl; [auto|]. intros [->|H]; auto.
  apply filter_In in H. right. apply IH. tauto.
Qed.

Lemma nubk_cover l x : In x l -> exists y, In y (nubk cmp key l) /\ keq cmp (key y) (key x) = true.
Proof.
  induction l as [|a t IH]; simpl; [contradiction|]. intros [->|H].
  - exists x; split; auto. apply (keq_refl cmp CO).
  - destruct (IH H) as [y [Hy Ey]]. destruct (keq cmp (key a) (key y)) eqn:F.
    + exists a. split; auto. apply (keq_trans cmp CO) with (key y); auto.
    + exists y. split; auto. right. apply filter_In. split; auto. rewrite F; auto.
Qed.

Lemma nubk_distinct l : StronglySorted kdiff (nubk cmp key l).
Proof.
  induction l as [|a t IH]; simpl; constructor.
  - apply ss_filter; auto.
  - rewrite Forall_forall. intros y Hy. apply filter_In in Hy. destruct Hy as [_ Hy].
    unfold kdiff. destruct (keq cmp (key a) (key y)); auto; discriminate.
Qed.

Lemma is_first_0 (kx : K) rs dk : is_first cmp (kx :: rs) dk 0 = true.
Proof. unfold is_first; simpl. rewrite (keq_refl cmp CO). auto. Qed.

Lemma is_first_S (kx : K) rs dk j :
  is_first cmp (kx :: rs) dk (S j) = negb (keq cmp kx (nth j rs dk)) && is_first cmp rs dk j.
Proof. unfold is_first; simpl. destruct (keq cmp kx (nth j rs dk)); simpl; auto. Qed.

(* selecting the first-occurrence positions IS first-appearance de-duplication *)
Lemma firsts_nubk l d :
  map (fun i => nth i l d) (firsts cmp (map key l) (key d)) = nubk cmp key l.
Proof.
  induction l as [|x t IH]; [reflexivity|].
  unfold firsts in *. simpl length. rewrite map_length in *.
  change (seq 0 (S (length t))) with (0 :: seq 1 (length t)).
  simpl filter. change (map key (x :: t)) with (key x :: map key t).
  rewrite is_first_0. rewrite <- seq_shift, filter_map_swap. simpl map at 1.
  rewrite map_map. simpl nth. f_equal.
  change (nubk cmp key (x :: t))
    with (x :: filter (fun y => negb (keq cmp (key x) (key y))) (nubk cmp key t)).
  rewrite <- IH, filter_map_swap, filter_filter. f_equal. f_equal.
  apply filter_ext. intros j. rewrite is_first_S, (map_nth key t d j). apply andb_comm.
Qed.
End NubSpec.

(* np.unique: the first-occurrence rows come in strictly increasing key order *)
Section NpUniqueSpec3.
Context {K : Type} (cmp : K -> K -> comparison) (CO : cmp_order cmp).
Lemma co_eq_r x y z : cmp x y = Eq -> cmp z x = cmp z y.
Proof. intros H. rewrite (co_sym _ CO x z), (co_sym _ CO y z), (co_eq _ CO x y z H). auto. Qed.

Lemma npu_idx_lt (rows : list K) (d : K) a b :
  let idx := snd (fst (np_unique cmp rows)) in
  a < b -> b < length idx ->
  cmp (nth (nth a idx 0) rows d) (nth (nth b idx 0) rows d) = Lt.
Proof.
  intros idx Hab Hb. unfold idx in Hb. rewrite (npu_len_idx cmp rows) in Hb.
  assert (Ha : a < length (usort cmp rows)) by lia.
  destruct (npu_idx_spec cmp CO rows d a Ha) as [_ [Ea _]].
  destruct (npu_idx_spec cmp CO rows d b Hb) as [_ [Eb _]].
  fold idx in Ea, Eb.
  pose proof (ss_nth _ _ d (usort_sorted cmp CO rows) a b Hab Hb) as L. unfold slt in L.
  apply (keq_true cmp) in Ea. apply (keq_true cmp) in Eb.
  rewrite (co_eq _ CO _ _ _ Ea), (co_eq_r _ _ _ Eb). exact L.
Qed.
End NpUniqueSpec3.

(* --------------------------------------------------------- Object3d.unique *)
Section ObjSpec.
Context {E K : Type} (cmp : K -> K -> comparison) (CO : cmp_order cmp)
        (rnd : E -> E) (iszero : E -> bool) (key : E -> K) (d : E).
Variable flat : list E.
Let data := obj_data rnd iszero flat.
Let nz := obj_nzpos rnd iszero d flat.
Let keys := map key data.
Let idx0 := snd (fst (np_unique cmp keys)).
Let inv0 := snd (np_unique cmp keys).
Let out := fst (fst (obj_unique cmp rnd iszero key d flat)).
Let idx := snd (fst (obj_unique cmp rnd iszero key d flat)).
Let inv := snd (obj_unique cmp rnd iszero key d flat).
Let f := fun i => nth i nz 0.

Lemma obj_idx_eq : idx = map f idx0. Proof. reflexivity. Qed.
Lemma obj_inv_eq : inv = map (fun u => nth u (argsort_nat (argsort_nat idx)) 0) inv0. Proof. reflexivity. Qed.
Lemma obj_out_eq : out = map (fun i => nth i data d) (sort_nat idx0). Proof. reflexivity. Qed.

(* the returned elements are exactly the first-appearance de-duplication of
   the rounded, zero-free data *)
Lemma obj_out_nubk : out = nubk cmp key data.
Proof.
  rewrite obj_out_eq. unfold idx0. rewrite (npu_sort_idx cmp CO keys (key d)).
  apply (firsts_nubk cmp CO key data d).
Qed.

Lemma obj_distinct : StronglySorted (kdiff cmp key) out.
Proof. rewrite obj_out_nubk. apply (nubk_distinct cmp key). Qed.

Lemma obj_distinct_nth a b : a < b -> b < length out ->
  keq cmp (key (nth a out d)) (key (nth b out d)) = false.
Proof. intros. apply (ss_nth _ out d obj_distinct a b); auto. Qed.

Lemma obj_cover e : In e flat -> iszero (rnd e) = false ->
  exists y, In y out /\ keq cmp (key y) (key (rnd e)) = true.
Proof.
  intros Hin Hz. rewrite obj_out_nubk. apply (nubk_cover cmp CO key).
  unfold data, obj_data. apply filter_In. split; [apply in_map; auto | rewrite Hz; auto].
Qed.

Lemma obj_from_input y : In y out -> exists e, In e flat /\ y = rnd e /\ iszero y = false.
Proof.
  rewrite obj_out_nubk. intros H. apply nubk_in in H. unfold data, obj_data in H.
  apply filter_In in H. destruct H as [H1 H2]. apply in_map_iff in H1. destruct H1 as [e [<- He]].
  exists e. repeat split; auto. destruct (iszero (rnd e)); auto; discriminate.
Qed.

(* ---- np.flatnonzero(is_nonzero): the kept positions *)
Lemma obj_data_nz : data = map (fun i => rnd (nth i flat d)) nz.
Proof.
  unfold data, obj_data, nz, obj_nzpos.
  rewrite <- (filter_positions (fun e => negb (iszero e)) (map rnd flat) (rnd d)).
  rewrite map_length.
  rewrite (filter_ext (fun i => negb (iszero (nth i (map rnd flat) (rnd d))))
                      (fun i => negb (iszero (rnd (nth i flat d))))).
  - apply map_ext. intros i. apply map_nth.
  - intros i. rewrite map_nth. reflexivity.
Qed.

Lemma obj_len_nz : length nz = length data.
Proof. rewrite obj_data_nz, map_length. reflexivity. Qed.

Lemma obj_nz_sorted : StronglySorted lt nz.
Proof. unfold nz, obj_nzpos. apply ss_filter, ss_seq. Qed.

Lemma obj_nz_in i : In i nz -> i < length flat /\ iszero (rnd (nth i flat d)) = false.
Proof.
  unfold nz, obj_nzpos. intros H. apply filter_In in H. destruct H as [H1 H2].
  apply in_seq in H1. split; [lia|]. destruct (iszero (rnd (nth i flat d))); auto; discriminate.
Qed.

Lemma obj_data_nth i : i < length data -> nth i data d = rnd (nth (f i) flat d).
Proof.
  intros Hi. rewrite obj_data_nz. rewrite <- obj_len_nz in Hi.
  apply (nth_map_lt (fun i => rnd (nth i flat d)) nz i 0 d Hi).
Qed.

Lemma obj_f_mono a b : a < length nz -> b < length nz -> Nat.leb (f a) (f b) = Nat.leb a b.
Proof.
  intros Ha Hb. unfold f. destruct (Nat.lt_trichotomy a b) as [L|[->|L]].
  - pose proof (ss_nth _ nz 0 obj_nz_sorted a b L Hb).
    rewrite (proj2 (Nat.leb_le a b)) by lia. apply Nat.leb_le. lia.
  - rewrite !Nat.leb_refl. reflexivity.
  - pose proof (ss_nth _ nz 0 obj_nz_sorted b a L Ha).
    rewrite (proj2 (Nat.leb_gt a b)) by lia. apply Nat.leb_gt. lia.
Qed.

Lemma obj_f_inj a b : a < length nz -> b < length nz -> f a = f b -> a = b.
Proof.
  intros Ha Hb Q. pose proof (obj_f_mono a b Ha Hb) as M1. pose proof (obj_f_mono b a Hb Ha) as M2.
  rewrite Q, Nat.leb_refl in M1, M2. symmetry in M1, M2. apply Nat.leb_le in M1, M2. lia.
Qed.

Lemma obj_idx0_lt i : In i idx0 -> i < length nz.
Proof.
  intros H. unfold idx0 in H. apply (npu_idx_mem cmp CO keys (key d)) in H.
  rewrite obj_len_nz. unfold keys in H. rewrite map_length in H. tauto.
Qed.

Lemma obj_len_idx0 : length idx0 = length out.
Proof.
  rewrite obj_out_eq, map_length. symmetry. apply Permutation_length, sort_nat_perm.
Qed.
Lemma obj_len_idx : length idx = length out.
Proof. rewrite obj_idx_eq, map_length. apply obj_len_idx0. Qed.
Lemma obj_len_inv : length inv = length data.
Proof. rewrite obj_inv_eq, map_length. unfold inv0. rewrite (npu_len_inv cmp keys). apply map_length. Qed.

(* np.sort commutes with the passage to positions of the flattened input *)
Lemma obj_sort_idx : sort_nat idx = map f (sort_nat idx0).
Proof.
  rewrite obj_idx_eq. apply sort_nat_map_mono.
  intros a b Ha Hb. apply obj_f_mono; apply obj_idx0_lt; auto.
Qed.

Lemma obj_sort_idx0_lt k : k < length out -> nth k (sort_nat idx0) 0 < length data.
Proof.
  intros Hk. rewrite <- obj_len_nz. apply obj_idx0_lt.
  apply (Permutation_in _ (sort_nat_perm idx0)). apply nth_In.
  rewrite (Permutation_length (sort_nat_perm idx0)), obj_len_idx0. exact Hk.
Qed.

(* INDEX ARRAY.  np.sort(idx) = positions, in the FLATTENED INPUT, of the
   first occurrences among the kept entries, and selects exactly the returned
   entries:  rnd (flat[np.sort(idx)[k]]) = out[k] *)
Lemma obj_sort_idx_firsts : sort_nat idx = map f (firsts cmp keys (key d)).
Proof. rewrite obj_sort_idx. unfold idx0. rewrite (npu_sort_idx cmp CO keys (key d)). reflexivity. Qed.

Lemma obj_index_sorted k : k < length out ->
  nth k out d = rnd (nth (nth k (sort_nat idx) 0) flat d).
Proof.
  intros Hk. rewrite obj_sort_idx.
  assert (Hs : k < length (sort_nat idx0)).
  { rewrite (Permutation_length (sort_nat_perm idx0)), obj_len_idx0. exact Hk. }
  rewrite (nth_map_lt f (sort_nat idx0) k 0 0 Hs).
  rewrite <- (obj_data_nth _ (obj_sort_idx0_lt k Hk)).
  rewrite obj_out_eq. apply (nth_map_lt (fun i => nth i data d) (sort_nat idx0) k 0 d Hs).
Qed.

Lemma obj_idx_nth k : k < length idx -> nth k idx 0 = f (nth k idx0 0).
Proof.
  intros Hk. rewrite obj_idx_eq in *. rewrite map_length in Hk.
  apply (nth_map_lt f idx0 k 0 0 Hk).
Qed.

(* every idx[k] is a position of the flattened input holding a kept entry *)
Lemma obj_idx_valid k : k < length idx ->
  nth k idx 0 < length flat /\ iszero (rnd (nth (nth k idx 0) flat d)) = false.
Proof.
  intros Hk. rewrite (obj_idx_nth k Hk). apply obj_nz_in. unfold f. apply nth_In.
  apply obj_idx0_lt. apply nth_In. rewrite obj_idx_eq, map_length in Hk. exact Hk.
Qed.

(* what remains of the finding: idx itself lists these positions in
   increasing KEY order, not in the order of the returned entries *)
Lemma obj_idx_key_order a b : a < b -> b < length idx ->
  cmp (key (rnd (nth (nth a idx 0) flat d))) (key (rnd (nth (nth b idx 0) flat d))) = Lt.
Proof.
  intros Hab Hb. rewrite (obj_idx_nth a) by lia. rewrite (obj_idx_nth b Hb).
  assert (Hb0 : b < length idx0) by (rewrite obj_idx_eq, map_length in Hb; exact Hb).
  assert (La : nth a idx0 0 < length data).
  { rewrite <- obj_len_nz. apply obj_idx0_lt, nth_In. lia. }
  assert (Lb : nth b idx0 0 < length data).
  { rewrite <- obj_len_nz. apply obj_idx0_lt, nth_In. lia. }
  rewrite <- (obj_data_nth _ La), <- (obj_data_nth _ Lb).
  pose proof (npu_idx_lt cmp CO keys (key d) a b Hab Hb0) as L.
  unfold keys in L. rewrite !(map_nth key data d) in L. exact L.
Qed.

Lemma obj_idx_partial :
  (forall k, k < length idx ->
     nth k idx 0 < length flat /\ iszero (rnd (nth (nth k idx 0) flat d)) = false) /\
  sort_nat idx = map (fun i => nth i (obj_nzpos rnd iszero d flat) 0) (firsts cmp (map key data) (key d)) /\
  (forall k, k < length out -> nth k out d = rnd (nth (nth k (sort_nat idx) 0) flat d)) /\
  (forall a b, a < b -> b < length idx ->
     cmp (key (rnd (nth (nth a idx 0) flat d))) (key (rnd (nth (nth b idx 0) flat d))) = Lt).
Proof.
  split; [exact obj_idx_valid|]. split; [exact obj_sort_idx_firsts|].
  split; [exact obj_index_sorted|exact obj_idx_key_order].
Qed.

(* OUTSIDE the remaining finding's stratum -- the keys first appear in
   increasing order (idx already sorted) -- the documented index contract
   holds, zero rows or not *)
Lemma obj_index_outside :
  StronglySorted le idx ->
  forall k, k < length out -> nth k out d = rnd (nth (nth k idx 0) flat d).
Proof. intros Hs k Hk. rewrite (obj_index_sorted k Hk), (sort_nat_id idx Hs). reflexivity. Qed.

(* INVERSE ARRAY: one entry per kept entry of the flattened input,
   out[inv[j]] = data[j] up to the key -- on every input *)
Lemma obj_inverse j : j < length data ->
  nth j inv 0 < length out /\
  keq cmp (key (nth (nth j inv 0) out d)) (key (nth j data d)) = true.
Proof.
  intros Hj. assert (Hj' : j < length keys) by (unfold keys; rewrite map_length; auto).
  destruct (npu_inv_spec cmp CO keys (key d) j Hj') as [H0 _]. fold inv0 in H0.
  rewrite <- (npu_len_idx cmp keys) in H0. fold idx0 in H0.
  set (u := nth j inv0 0) in *.
  assert (Hu : u < length idx) by (rewrite obj_idx_eq, map_length; exact H0).
  destruct (argsort_argsort_rank idx u Hu) as [R1 R2].
  assert (Hinv : nth j inv 0 = nth u (argsort_nat (argsort_nat idx)) 0).
  { rewrite obj_inv_eq.
    rewrite (nth_map_lt (fun u0 => nth u0 (argsort_nat (argsort_nat idx)) 0) inv0 j 0 0).
    - reflexivity.
    - unfold inv0. rewrite (npu_len_inv cmp keys). exact Hj'. }
  rewrite Hinv. set (m := nth u (argsort_nat (argsort_nat idx)) 0) in *.
  assert (Hm : m < length out) by (rewrite <- obj_len_idx; exact R1).
  split; [exact Hm|].
  assert (Hs : m < length (sort_nat idx0)).
  { rewrite (Permutation_length (sort_nat_perm idx0)), obj_len_idx0. exact Hm. }
  (* sort_nat idx0 [m] = idx0 [u] *)
  assert (Q : nth m (sort_nat idx0) 0 = nth u idx0 0).
  { apply obj_f_inj.
    - rewrite obj_len_nz. apply obj_sort_idx0_lt. exact Hm.
    - apply obj_idx0_lt, nth_In. exact H0.
    - rewrite obj_sort_idx in R2. rewrite (nth_map_lt f (sort_nat idx0) m 0 0 Hs) in R2.
      rewrite R2. apply obj_idx_nth. exact Hu. }
  rewrite obj_out_eq. rewrite (nth_map_lt (fun i => nth i data d) (sort_nat idx0) m 0 d Hs). rewrite Q.
  destruct (npu_idx_inv_keq cmp CO keys (key d) j Hj') as [_ H].
  fold idx0 inv0 in H. fold u in H. unfold keys in H. rewrite !(map_nth key data d) in H. exact H.
Qed.

Lemma obj_inverse_contract :
  length inv = length data /\
  forall j, j < length data ->
    nth j inv 0 < length out /\ keq cmp (key (nth (nth j inv 0) out d)) (key (nth j data d)) = true.
Proof. split; [exact obj_len_inv|exact obj_inverse]. Qed.

(* when no row is dropped this is the documented contract w.r.t. the
   flattened input *)
Lemma obj_inverse_outside :
  data = map rnd flat ->
  length inv = length flat /\
  forall j, j < length flat ->
    nth j inv 0 < length out /\
    keq cmp (key (nth (nth j inv 0) out d)) (key (nth j (map rnd flat) d)) = true.
Proof.
  intros Hd. split.
  - rewrite obj_len_inv, Hd. apply map_length.
  - intros j Hj. rewrite <- Hd. apply obj_inverse. rewrite Hd, map_length. exact Hj.
Qed.
End ObjSpec.

(* --------------------------------------------------------- Rotation.unique *)
Section RotSpec.
Context {E K : Type} (cmp : K -> K -> comparison) (CO : cmp_order cmp) (key : E -> K) (d : E).
Variable flat : list E.
Let keys := map key flat.
Let dat := fst (fst (rot_unique cmp key d flat)).
Let idxs := snd (fst (rot_unique cmp key d flat)).
Let inv' := snd (rot_unique cmp key d flat).
Let idx := snd (fst (np_unique cmp keys)).
Let inv := snd (np_unique cmp keys).

Lemma rot_unique_eq :
  rot_unique cmp key d flat =
  (map (fun i => nth i flat d) (map (fun p => nth p idx 0) (argsort_nat idx)),
   map (fun p => nth p idx 0) (argsort_nat idx),
   map (fun u => nth u (map (fun p => find_index (Nat.eqb p) (argsort_nat idx))
                            (seq 0 (length (argsort_nat idx)))) 0) inv).
Proof. reflexivity. Qed.

Lemma rot_idxs_eq : idxs = sort_nat idx.
Proof. unfold idxs. rewrite rot_unique_eq. simpl snd. apply argsort_take. Qed.

(* idx_sort = increasing list of the first-occurrence positions *)
Lemma rot_idxs_firsts : idxs = firsts cmp keys (key d).
Proof. rewrite rot_idxs_eq. apply (npu_sort_idx cmp CO). Qed.

Lemma rot_dat_eq : dat = map (fun i => nth i flat d) idxs.
Proof. reflexivity. Qed.

Lemma rot_dat_nubk : dat = nubk cmp key flat.
Proof. rewrite rot_dat_eq, rot_idxs_firsts. apply (firsts_nubk cmp CO key flat d). Qed.

Lemma rot_len_idxs : length idxs = length dat.
Proof. rewrite rot_dat_eq, map_length. auto. Qed.

Lemma rot_idxs_increasing : StronglySorted lt idxs.
Proof. rewrite rot_idxs_firsts. unfold firsts. apply ss_filter, ss_seq. Qed.

Lemma rot_idxs_first k : k < length idxs ->
  nth k idxs 0 < length flat /\ is_first cmp keys (key d) (nth k idxs 0) = true.
Proof.
  intros Hk. assert (H : In (nth k idxs 0) idxs) by (apply nth_In; auto).
  remember (nth k idxs 0) as m eqn:Em. clear Em.
  rewrite rot_idxs_firsts in H. unfold firsts in H. apply filter_In in H.
  destruct H as [H1 H2]. apply in_seq in H1. unfold keys in H1. rewrite map_length in H1.
  split; [lia|auto].
Qed.

(* index contract: the k-th returned element is LITERALLY the element at
   position idx_sort[k] of the flattened input *)
Lemma rot_index k : k < length dat -> nth k dat d = nth (nth k idxs 0) flat d.
Proof.
  intros Hk. rewrite rot_dat_eq in *. rewrite map_length in Hk.
  apply (nth_map_lt (fun i => nth i flat d) idxs k 0 d Hk).
Qed.

Lemma rot_distinct : StronglySorted (kdiff cmp key) dat.
Proof. rewrite rot_dat_nubk. apply (nubk_distinct cmp key). Qed.

Lemma rot_distinct_nth a b : a < b -> b < length dat ->
  keq cmp (key (nth a dat d)) (key (nth b dat d)) = false.
Proof. intros. apply (ss_nth _ dat d rot_distinct a b); auto. Qed.

Lemma rot_cover e : In e flat -> exists y, In y dat /\ keq cmp (key y) (key e) = true.
Proof. rewrite rot_dat_nubk. apply (nubk_cover cmp CO key). Qed.

Lemma rot_from_input y : In y dat -> In y flat.
Proof. rewrite rot_dat_nubk. apply nubk_in. Qed.

Lemma rot_len_inv : length inv' = length flat.
Proof.
  unfold inv'. rewrite rot_unique_eq. simpl snd. rewrite map_length.
  unfold inv. rewrite (npu_len_inv cmp keys). apply map_length.
Qed.

(* inverse contract: position inv[j] of the returned list holds the first
   occurrence of the key of flat[j] *)
Lemma rot_inverse j : j < length flat ->
  nth j inv' 0 < length dat /\
  nth (nth j inv' 0) idxs 0 = find_index (fun r => keq cmp r (key (nth j flat d))) keys /\
  keq cmp (key (nth (nth j inv' 0) dat d)) (key (nth j flat d)) = true.
Proof.
  intros Hj. assert (Hj' : j < length keys) by (unfold keys; rewrite map_length; auto).
  destruct (npu_inv_spec cmp CO keys (key d) j Hj') as [H1 _]. fold inv in H1.
  rewrite <- (npu_len_idx cmp keys) in H1. fold idx in H1.
  set (u := nth j inv 0) in *.
  set (k' := find_index (Nat.eqb u) (argsort_nat idx)).
  assert (Hinv : nth j inv' 0 = k').
  { unfold inv'. rewrite rot_unique_eq. simpl snd.
    rewrite (nth_map_lt (fun u0 => nth u0 (map (fun p => find_index (Nat.eqb p) (argsort_nat idx))
                 (seq 0 (length (argsort_nat idx)))) 0) inv j 0 0).
    2:{ unfold inv. rewrite (npu_len_inv cmp keys). auto. }
    fold u. rewrite (nth_map_lt (fun p => find_index (Nat.eqb p) (argsort_nat idx))
                        (seq 0 (length (argsort_nat idx))) u 0 0).
    2:{ rewrite seq_length, argsort_length. auto. }
    rewrite seq_nth by (rewrite argsort_length; auto). reflexivity. }
  assert (Hk' : k' < length (argsort_nat idx)).
  { apply find_index_lt. exists u. split; [|apply Nat.eqb_refl].
    apply (Permutation_in _ (Permutation_sym (argsort_perm idx))). apply in_seq. lia. }
  pose proof (find_index_nth (Nat.eqb u) (argsort_nat idx) 0 Hk') as Hn. fold k' in Hn.
  apply Nat.eqb_eq in Hn.
  assert (Hlen : length idxs = length idx).
  { rewrite rot_idxs_eq. apply Permutation_length, sort_nat_perm. }
  assert (Hidx : nth k' idxs 0 = nth u idx 0).
  { unfold idxs. rewrite rot_unique_eq. simpl snd. simpl fst.
    rewrite (nth_map_lt (fun p => nth p idx 0) (argsort_nat idx) k' 0 0 Hk'). rewrite <- Hn. auto. }
  rewrite Hinv. rewrite argsort_length in Hk'.
  assert (Hkd : k' < length dat) by (rewrite <- rot_len_idxs, Hlen; auto).
  split; auto.
  destruct (npu_idx_inv_keq cmp CO keys (key d) j Hj') as [_ Hq].
  fold idx inv in Hq. fold u in Hq.
  split.
  - rewrite Hidx. unfold u, idx, inv. rewrite (npu_idx_inv cmp CO keys (key d) j Hj').
    unfold keys. rewrite (map_nth key flat d). auto.
  - rewrite (rot_index _ Hkd), Hidx. unfold keys in Hq. rewrite !(map_nth key flat d) in Hq. exact Hq.
Qed.

(* elements with equal keys are sent to the same returned element, elements
   with different keys to different ones *)
Lemma rot_inverse_merge i j : i < length flat -> j < length flat ->
  (nth i inv' 0 = nth j inv' 0 <-> keq cmp (key (nth i flat d)) (key (nth j flat d)) = true).
Proof.
  intros Hi Hj. destruct (rot_inverse i Hi) as [A1 [_ A3]]. destruct (rot_inverse j Hj) as [B1 [_ B3]].
  split.
  - intros Q. rewrite Q in A3. apply (keq_trans cmp CO) with (key (nth (nth j inv' 0) dat d)); auto.
    rewrite (keq_sym cmp CO). auto.
  - intros Q. destruct (Nat.lt_trichotomy (nth i inv' 0) (nth j inv' 0)) as [L|[L|L]]; auto; exfalso.
    + pose proof (rot_distinct_nth _ _ L B1) as D.
      assert (keq cmp (key (nth (nth i inv' 0) dat d)) (key (nth (nth j inv' 0) dat d)) = true).
      { apply (keq_trans cmp CO) with (key (nth i flat d)); auto.
        apply (keq_trans cmp CO) with (key (nth j flat d)); auto. rewrite (keq_sym cmp CO). auto. }
      congruence.
    + pose proof (rot_distinct_nth _ _ L A1) as D.
      assert (keq cmp (key (nth (nth j inv' 0) dat d)) (key (nth (nth i inv' 0) dat d)) = true).
      { apply (keq_trans cmp CO) with (key (nth j flat d)); auto.
        apply (keq_trans cmp CO) with (key (nth i flat d)); auto.
        - rewrite (keq_sym cmp CO). auto.
        - rewrite (keq_sym cmp CO). auto. }
      congruence.
Qed.
End RotSpec.

(* ------------------------------------------------------------ Miller.unique *)
Section MillerSpec.
Context {E K K2 : Type} (cmp : K -> K -> comparison) (cmp2 : K2 -> K2 -> comparison)
        (CO : cmp_order cmp) (CO2 : cmp_order cmp2)
        (rnd : E -> E) (iszero : E -> bool) (key : E -> K) (d : E) (okey : E -> K2).
Variable flat : list E.
Let v := fst (fst (obj_unique cmp rnd iszero key d flat)).
Let idxb := snd (fst (obj_unique cmp rnd iszero key d flat)).
Let idx2 := snd (fst (np_unique cmp2 (map okey v))).
Let inv2 := snd (np_unique cmp2 (map okey v)).
Let out2 := fst (miller_unique cmp cmp2 rnd iszero key d okey true flat).
Let idxm := snd (miller_unique cmp cmp2 rnd iszero key d okey true flat).

(* without symmetry Miller.unique forwards Object3d.unique (so it inherits
   every theorem and every defect of the base class) *)
Lemma miller_nosym :
  miller_unique cmp cmp2 rnd iszero key d okey false flat
  = (fst (fst (obj_unique cmp rnd iszero key d flat)), snd (fst (obj_unique cmp rnd iszero key d flat))).
Proof. reflexivity. Qed.

Lemma miller_sym_eq :
  miller_unique cmp cmp2 rnd iszero key d okey true flat
  = (map (fun i => nth i v d) (rev idx2), map (fun i => nth i (sort_nat idxb) 0) (rev idx2)).
Proof. reflexivity. Qed.

Lemma miller_out2 : out2 = map (fun i => nth i v d) (rev idx2). Proof. reflexivity. Qed.

Lemma miller_len : length out2 = length idx2.
Proof. rewrite miller_out2, map_length, rev_length. auto. Qed.

Lemma miller_idx2_lt k : k < length idx2 -> nth k idx2 0 < length v.
Proof.
  intros Hk. unfold idx2 in Hk. rewrite (npu_len_idx cmp2) in Hk.
  destruct (npu_idx_spec cmp2 CO2 (map okey v) (okey d) k Hk) as [H _].
  fold idx2 in H. rewrite map_length in H. auto.
Qed.

Lemma miller_sel k : k < length out2 ->
  nth k out2 d = nth (nth k (rev idx2) 0) v d.
Proof.
  intros Hk. rewrite miller_out2 in *. rewrite map_length in Hk.
  apply (nth_map_lt (fun i => nth i v d) (rev idx2) k 0 d Hk).
Qed.

(* INDEX ARRAY: the k-th returned vector is the rounded entry at position
   idx[k] of the flattened input *)
Lemma miller_sym_index k : k < length out2 ->
  length idxm = length out2 /\
  nth k out2 d = rnd (nth (nth k idxm 0) flat d).
Proof.
  intros Hk. split.
  - unfold idxm. rewrite miller_sym_eq. simpl snd. rewrite miller_out2, !map_length. reflexivity.
  - rewrite (miller_sel k Hk).
    assert (Hr : k < length (rev idx2)) by (rewrite rev_length, <- miller_len; exact Hk).
    assert (Hv : nth k (rev idx2) 0 < length v).
    { assert (Hin : In (nth k (rev idx2) 0) (rev idx2)) by (apply nth_In; exact Hr).
      apply in_rev in Hin. apply (In_nth _ _ 0) in Hin. destruct Hin as [i [Hi <-]].
      apply miller_idx2_lt. exact Hi. }
    unfold idxm. rewrite miller_sym_eq. simpl snd.
    rewrite (nth_map_lt (fun i => nth i (sort_nat idxb) 0) (rev idx2) k 0 0 Hr).
    apply (obj_index_sorted cmp CO rnd iszero key d flat). exact Hv.
Qed.

Lemma miller_nth k : k < length out2 ->
  nth k out2 d = nth (nth (length idx2 - S k) idx2 0) v d.
Proof.
  intros Hk. rewrite (miller_sel k Hk). rewrite miller_len in Hk.
  rewrite rev_nth by auto. auto.
Qed.

(* returned vectors: strictly DEcreasing canonical orbit keys -- hence one
   representative per orbit key, but not in order of first appearance *)
Lemma miller_sym_decreasing a b : a < b -> b < length out2 ->
  cmp2 (okey (nth b out2 d)) (okey (nth a out2 d)) = Lt.
Proof.
  intros Hab Hb. rewrite (miller_nth a) by lia. rewrite (miller_nth b) by auto.
  rewrite miller_len in Hb.
  pose proof (npu_idx_lt cmp2 CO2 (map okey v) (okey d) (length idx2 - S b) (length idx2 - S a)) as L.
  cbv zeta in L. fold idx2 in L. rewrite !(map_nth okey v d) in L. apply L; lia.
Qed.

Lemma miller_sym_distinct a b : a < b -> b < length out2 ->
  keq cmp2 (okey (nth a out2 d)) (okey (nth b out2 d)) = false.
Proof.
  intros Hab Hb. pose proof (miller_sym_decreasing a b Hab Hb) as L.
  rewrite (keq_sym cmp2 CO2). apply (slt_not_keq cmp2). exact L.
Qed.

Lemma miller_sym_from y : In y out2 -> In y v.
Proof.
  rewrite miller_out2. intros H. apply in_map_iff in H. destruct H as [i [<- Hi]].
  apply in_rev in Hi. apply (In_nth _ _ 0) in Hi. destruct Hi as [k [Hk <-]].
  apply nth_In. apply miller_idx2_lt; auto.
Qed.

Lemma miller_sym_cover y : In y v -> exists z, In z out2 /\ keq cmp2 (okey z) (okey y) = true.
Proof.
  intros Hy. apply (In_nth _ _ d) in Hy. destruct Hy as [j [Hj <-]].
  assert (Hj' : j < length (map okey v)) by (rewrite map_length; auto).
  destruct (npu_inv_spec cmp2 CO2 (map okey v) (okey d) j Hj') as [H1 _]. fold inv2 in H1.
  rewrite <- (npu_len_idx cmp2) in H1. fold idx2 in H1.
  destruct (npu_idx_inv_keq cmp2 CO2 (map okey v) (okey d) j Hj') as [_ H]. fold idx2 inv2 in H.
  rewrite !(map_nth okey v d) in H.
  exists (nth (nth (nth j inv2 0) idx2 0) v d). split; auto.
  rewrite miller_out2. apply in_map_iff. exists (nth (nth j inv2 0) idx2 0). split; auto.
  apply in_rev. rewrite rev_involutive. apply nth_In; auto.
Qed.
End MillerSpec.

(* --------------------------------------- lexicographic order on rows of keys *)
Section Lex.
Context {A : Type} (c : A -> A -> comparison) (CO : cmp_order c).

Lemma lexcmp_refl x : lexcmp c x x = Eq.
Proof. induction x; simpl; auto. rewrite (co_refl _ CO). auto. Qed.

Lemma lexcmp_sym x : forall y, lexcmp c y x = CompOpp (lexcmp c x y).
Proof.
  induction x as [|a x IH]; destruct y as [|b y]; simpl; auto.
  rewrite (co_sym _ CO a b). destruct (c a b); simpl; auto.
Qed.

Lemma lexcmp_eq x : forall y z, lexcmp c x y = Eq -> lexcmp c x z = lexcmp c y z.
Proof.
  induction x as [|a x IH]; destruct y as [|b y]; simpl; intros z H; try discriminate; auto.
  destruct (c a b) eqn:E; try discriminate.
  destruct z as [|e z]; simpl; auto. rewrite (co_eq _ CO a b e E).
  destruct (c b e); auto.
Qed.

Lemma lexcmp_trans x : forall y z, lexcmp c x y = Lt -> lexcmp c y z = Lt -> lexcmp c x z = Lt.
Proof.
  induction x as [|a x IH]; destruct y as [|b y]; destruct z as [|e z]; simpl; intros H1 H2;
    try discriminate; auto.
  destruct (c a b) eqn:E1; try discriminate.
  - rewrite (co_eq _ CO a b e E1). destruct (c b e) eqn:E2; try discriminate; auto.
    apply (IH y z); auto.
  - destruct (c b e) eqn:E2; try discriminate.
    + rewrite <- (co_eq_r c CO b e a E2), E1. auto.
    + rewrite (co_trans _ CO a b e E1 E2). auto.
Qed.

Lemma lexcmp_order : cmp_order (lexcmp c).
Proof.
  constructor.
  - apply lexcmp_refl.
  - intros x y. apply lexcmp_sym.
  - intros x y z. apply lexcmp_trans.
  - intros x y z. apply lexcmp_eq.
Qed.

(* when Eq of the scalar comparison is equality, Eq of rows is equality *)
Lemma lexcmp_eq_iff (Heq : forall a b, c a b = Eq <-> a = b) x :
  forall y, lexcmp c x y = Eq <-> x = y.
Proof.
  induction x as [|a x IH]; destruct y as [|b y]; simpl; split; intros H; try discriminate; auto.
  - destruct (c a b) eqn:E; try discriminate. apply Heq in E. apply IH in H. subst; auto.
  - inversion H; subst. rewrite (proj2 (Heq b b) eq_refl). apply IH. auto.
Qed.
End Lex.

(* ----------------------------------- the canonical orbit key (Miller.unique) *)
(* Sorting is a canonical form for multisets: two lists have the same sorted
   form iff they are permutations of each other (for a total order whose Eq is
   equality).  With a point group closed under right multiplication this
   makes "equal orbit key" the same as "symmetrically equivalent". *)
Section SortCanon.
Context {A : Type} (leb : A -> A -> bool).
Hypothesis leb_total : forall x y, leb x y = true \/ leb y x = true.
Hypothesis leb_trans : forall x y z, leb x y = true -> leb y z = true -> leb x z = true.
Hypothesis leb_antisym : forall x y, leb x y = true -> leb y x = true -> x = y.

Definition lsorted := StronglySorted (fun x y => leb x y = true).

Lemma isort_ins_lsorted x l : lsorted l -> lsorted (isort_ins leb x l).
Proof.
  induction 1 as [|y t Hs IH Hf]; simpl; [repeat constructor|].
  destruct (leb x y) eqn:E.
  - constructor; [constructor; auto|]. constructor; auto.
    rewrite Forall_forall in *. intros z Hz. apply leb_trans with y; auto.
  - constructor; auto. rewrite Forall_forall in *. intros z Hz.
    apply (Permutation_in _ (isort_ins_perm leb x t)) in Hz. destruct Hz as [<-|Hz]; auto.
    destruct (leb_total x y); congruence.
Qed.

Lemma isort_lsorted l : lsorted (isort leb l).
Proof. induction l; simpl; [constructor|]. apply isort_ins_lsorted; auto. Qed.

Lemma lsorted_perm_eq l1 : forall l2, lsorted l1 -> lsorted l2 -> Permutation l1 l2 -> l1 = l2.
Proof.
  induction l1 as [|a t1 IH]; intros l2 H1 H2 P.
  - apply Permutation_nil in P. auto.
  - destruct l2 as [|b t2]. { apply Permutation_sym, Permutation_nil in P. discriminate. }
    inversion H1 as [|? ? Hs1 Hf1]; inversion H2 as [|? ? Hs2 Hf2]; subst.
    rewrite Forall_forall in Hf1, Hf2.
    assert (a = b).
    { assert (Ha : In a (b :: t2)) by (apply (Permutation_in _ P); left; auto).
      assert (Hb : In b (a :: t1)) by (apply (Permutation_in _ (Permutation_sym P)); left; auto).
      destruct Ha as [|Ha]; [auto|]. destruct Hb as [|Hb]; [auto|].
      apply leb_antisym; [apply Hf1|apply Hf2]; assumption. }
    subst b. f_equal. apply IH; auto. apply Permutation_cons_inv in P. auto.
Qed.

Lemma isort_canonical l1 l2 : isort leb l1 = isort leb l2 <-> Permutation l1 l2.
Proof.
  split.
  - intros E. rewrite <- (isort_perm leb l1), <- (isort_perm leb l2), E. auto.
  - intros P. apply lsorted_perm_eq; try apply isort_lsorted.
    rewrite (isort_perm leb l1), (isort_perm leb l2). auto.
Qed.
End SortCanon.

Section OrbitKey.
(* an abstract finite group acting on vectors: G a list of operations,
   [act g x]; closure under right multiplication by g0 is expressed as: the
   list [g * g0 | g in G] is a permutation of G *)
Context {G V : Type} (act : G -> V -> V) (mul : G -> G -> G) (ops : list G)
        (leb : V -> V -> bool).
Hypothesis leb_total : forall x y, leb x y = true \/ leb y x = true.
Hypothesis leb_trans : forall x y z, leb x y = true -> leb y z = true -> leb x z = true.
Hypothesis leb_antisym : forall x y, leb x y = true -> leb y x = true -> x = y.
Hypothesis act_mul : forall g h x, act (mul g h) x = act g (act h x).

Definition orbit (x : V) : list V := map (fun g => act g x) ops.
Definition okey_abs (x : V) : list V := isort leb (orbit x).

(* equivalent vectors have the same canonical orbit key *)
Lemma okey_equiv g0 x :
  Permutation (map (fun g => mul g g0) ops) ops -> okey_abs (act g0 x) = okey_abs x.
Proof.
  intros P. unfold okey_abs. apply (isort_canonical leb leb_total leb_trans leb_antisym).
  unfold orbit. rewrite <- (Permutation_map (fun g => act g x) P). rewrite map_map.
  erewrite map_ext; [reflexivity|]. intros g. simpl. symmetry. apply act_mul.
Qed.

(* and conversely (identity in the group): equal keys => same orbit *)
Lemma okey_sound e x y :
  In e ops -> (forall z, act e z = z) -> okey_abs x = okey_abs y -> exists g, In g ops /\ y = act g x.
Proof.
  intros He Hid E. apply (isort_canonical leb leb_total leb_trans leb_antisym) in E.
  assert (Hy : In y (orbit y)). { unfold orbit. apply in_map_iff. exists e. split; auto. }
  apply (Permutation_in _ (Permutation_sym E)) in Hy. unfold orbit in Hy.
  apply in_map_iff in Hy. destruct Hy as [g [Hg Hin]]. exists g. split; auto.
Qed.
End OrbitKey.

(* ------------------------------------------------ the contracts, as one Prop *)
(* the full contract of unique(return_index=True, return_inverse=True) with
   respect to a key (the documented notion of equality): *)
Definition unique_contract {E K} (cmp : K -> K -> comparison) (key : E -> K) (d : E)
           (flat dat : list E) (idx inv : list nat) : Prop :=
  (* pairwise distinct *)
  (forall a b, a < b -> b < length dat -> keq cmp (key (nth a dat d)) (key (nth b dat d)) = false) /\
  (* cover *)
  (forall e, In e flat -> exists y, In y dat /\ keq cmp (key y) (key e) = true) /\
  (* order of first appearance + index array: idx strictly increasing, selects
     the returned elements from the flattened input, each at the FIRST
     position carrying its key *)
  StronglySorted lt idx /\ length idx = length dat /\
  (forall k, k < length dat ->
     nth k idx 0 < length flat /\ nth k dat d = nth (nth k idx 0) flat d /\
     forall j, j < nth k idx 0 -> keq cmp (key (nth j flat d)) (key (nth k dat d)) = false) /\
  (* inverse array reconstructs the flattened input (up to the key) *)
  length inv = length flat /\
  (forall j, j < length flat ->
     nth j inv 0 < length dat /\ keq cmp (key (nth (nth j inv 0) dat d)) (key (nth j flat d)) = true).

Lemma rot_unique_contract {E K} (cmp : K -> K -> comparison) (CO : cmp_order cmp) (key : E -> K) (d : E)
      (flat : list E) :
  unique_contract cmp key d flat (fst (fst (rot_unique cmp key d flat)))
                  (snd (fst (rot_unique cmp key d flat))) (snd (rot_unique cmp key d flat)).
Proof.
  unfold unique_contract. repeat split.
  - intros a b. apply (rot_distinct_nth cmp CO key d flat).
  - apply (rot_cover cmp CO key d flat).
  - apply (rot_idxs_increasing cmp CO key d flat).
  - apply (rot_len_idxs cmp key d flat).
  - apply (rot_idxs_first cmp CO key d flat). rewrite (rot_len_idxs cmp key d flat). auto.
  - apply (rot_index cmp key d flat); auto.
  - intros j Hj. rewrite (rot_index cmp key d flat k H).
    assert (Hk : k < length (snd (fst (rot_unique cmp key d flat))))
      by (rewrite (rot_len_idxs cmp key d flat); auto).
    destruct (rot_idxs_first cmp CO key d flat k Hk) as [_ F].
    unfold is_first in F. apply Nat.eqb_eq in F.
    set (m := nth k (snd (fst (rot_unique cmp key d flat))) 0) in *.
    assert (B : j < find_index (fun r => keq cmp r (nth m (map key flat) (key d))) (map key flat))
      by (rewrite F; auto).
    apply (find_index_before _ _ (key d)) in B. rewrite !(map_nth key flat d) in B. exact B.
  - apply (rot_len_inv cmp key d flat).
  - apply (rot_inverse cmp CO key d flat); auto.
  - apply (rot_inverse cmp CO key d flat); auto.
Qed.

(* what holds for the base class on every input *)
Definition base_contract {E K} (cmp : K -> K -> comparison) (rnd : E -> E) (iszero : E -> bool)
           (key : E -> K) (d : E) (flat out : list E) : Prop :=
  (forall a b, a < b -> b < length out -> keq cmp (key (nth a out d)) (key (nth b out d)) = false) /\
  (forall e, In e flat -> iszero (rnd e) = false ->
     exists y, In y out /\ keq cmp (key y) (key (rnd e)) = true) /\
  (forall y, In y out -> exists e, In e flat /\ y = rnd e /\ iszero y = false) /\
  out = nubk cmp key (filter (fun e => negb (iszero e)) (map rnd flat)).

Lemma obj_unique_contract {E K} (cmp : K -> K -> comparison) (CO : cmp_order cmp)
      (rnd : E -> E) (iszero : E -> bool) (key : E -> K) (d : E) (flat : list E) :
  base_contract cmp rnd iszero key d flat (fst (fst (obj_unique cmp rnd iszero key d flat))).
Proof.
  unfold base_contract. repeat split.
  - intros a b. apply (obj_distinct_nth cmp CO rnd iszero key d flat).
  - apply (obj_cover cmp CO rnd iszero key d flat).
  - apply (obj_from_input cmp CO rnd iszero key d flat).
  - apply (obj_out_nubk cmp CO rnd iszero key d flat).
Qed.
