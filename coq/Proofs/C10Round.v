(* C10 -- _round_indices over exact reals: for indices t*(a,b,c) with integer
   (a,b,c) /= 0 and t > 0, the multiplier search finds the least multiplier
   that makes all scaled indices integral, and the result is the coprime
   triple (a,b,c)/gcd -- provided its largest index is at most max_index and
   max_index <= 42 (so that a non-integral multiplier cannot have a relative
   squared error below the 5e-8 that rounds to zero). *)
From Coq Require Import Reals ZArith List Lia Lra Psatz.
From Verif Require Import Scalar RInst C10Model.
Import ListNotations.
Local Open Scope R_scope.

(* np.round to an integer: nearest, ties to even *)
Definition Rrint (x : R) : Z :=
  let n := Int_part x in
  let f := x - IZR n in
  if Rlt_dec f (/ 2) then n
  else if Rlt_dec (/ 2) f then (n + 1)%Z
  else if Z.even n then n else (n + 1)%Z.

Lemma Rabs_le_inv' x a : Rabs x <= a -> - a <= x <= a.
Proof. unfold Rabs. destruct (Rcase_abs x); lra. Qed.

Lemma Rrint_close x : Rabs (IZR (Rrint x) - x) <= / 2.
Proof.
  unfold Rrint. destruct (base_Int_part x) as [H1 H2]. set (n := Int_part x) in *.
  destruct (Rlt_dec (x - IZR n) (/ 2)) as [L|L];
    [|destruct (Rlt_dec (/ 2) (x - IZR n)) as [L2|L2]; [|destruct (Z.even n)]];
    try rewrite plus_IZR; apply Rabs_le; lra.
Qed.

Lemma IZR_half_zero (k : Z) : Rabs (IZR k) <= / 2 -> k = 0%Z.
Proof.
  intros H. destruct (Z.eq_dec k 0) as [|N]; auto. exfalso.
  assert (A : (1 <= Z.abs k)%Z) by lia. apply IZR_le in A. rewrite abs_IZR in A. lra.
Qed.

Lemma Rrint_IZR k : Rrint (IZR k) = k.
Proof.
  pose proof (Rrint_close (IZR k)) as H. rewrite <- minus_IZR in H.
  apply IZR_half_zero in H. lia.
Qed.

Lemma Rrint_nonneg x : 0 <= x -> (0 <= Rrint x)%Z.
Proof.
  intros Hx. pose proof (Rrint_close x) as H. apply Rabs_le_inv' in H.
  assert (L : IZR (-1) < IZR (Rrint x)) by (simpl; lra). apply lt_IZR in L. lia.
Qed.

Lemma Rrint_ge1 x : / 2 < x -> (1 <= Rrint x)%Z.
Proof.
  intros Hx. pose proof (Rrint_close x) as H. apply Rabs_le_inv' in H.
  assert (L : IZR 0 < IZR (Rrint x)) by (simpl; lra). apply lt_IZR in L. lia.
Qed.

(* ----------------------------------------------------------------- argmin *)
Lemma argmin_from_zero l : forall i bi, (forall x, In x l -> (0 <= x)%Z) -> argmin_from 0%Z bi i l = bi.
Proof.
  induction l as [|x l IH]; intros i bi H; simpl; auto.
  assert (0 <= x)%Z by (apply H; simpl; auto).
  destruct (x <? 0)%Z eqn:E; [apply Z.ltb_lt in E; lia|]. apply IH. intros; apply H; simpl; auto.
Qed.

Lemma argmin_from_first0 l1 : forall l2 i best bi,
  (1 <= best)%Z -> (forall x, In x l1 -> (1 <= x)%Z) -> (forall x, In x l2 -> (0 <= x)%Z) ->
  argmin_from best bi i (l1 ++ 0%Z :: l2) = (i + length l1)%nat.
Proof.
  induction l1 as [|x l1 IH]; intros l2 i best bi Hb H1 H2; simpl.
  - destruct (0 <? best)%Z eqn:E; [|apply Z.ltb_ge in E; lia].
    rewrite argmin_from_zero; auto; lia.
  - assert (1 <= x)%Z by (apply H1; simpl; auto).
    destruct (x <? best)%Z; rewrite IH; auto; try lia; intros; apply H1; simpl; auto.
Qed.

Lemma argmin_first_first0 l1 l2 :
  (forall x, In x l1 -> (1 <= x)%Z) -> (forall x, In x l2 -> (0 <= x)%Z) ->
  argmin_first (l1 ++ 0%Z :: l2) = length l1.
Proof.
  intros H1 H2. destruct l1 as [|y l1]; simpl.
  - apply argmin_from_zero; auto.
  - rewrite argmin_from_first0; auto; try lia.
    + apply H1; simpl; auto.
    + intros; apply H1; simpl; auto.
Qed.

(* ----------------------------------------------------------- real helpers *)
Lemma omax_Rmax m y : o_max ROps m y = Rmax m y.
Proof. unfold o_max, Rmax. rsimpl. unfold Rltb. destruct (Rlt_dec m y), (Rle_dec m y); lra. Qed.

Lemma Rmax_IZR x y : Rmax (IZR x) (IZR y) = IZR (Z.max x y).
Proof.
  unfold Rmax. destruct (Rle_dec (IZR x) (IZR y)) as [L|L].
  - apply le_IZR in L. rewrite Z.max_r; auto.
  - rewrite Z.max_l; auto. apply Z.lt_le_incl. apply lt_IZR. lra.
Qed.

Lemma sumsq3 x y z : sumsq ROps [x; y; z] = x * x + y * y + z * z.
Proof. unfold sumsq. simpl. rsimpl. ring. Qed.

Lemma sq_nonneg x : 0 <= x * x.
Proof. nra. Qed.

(* ============================================================ the theorem *)
Section Round.
Variables (a b c : Z) (t : R) (M : nat).
Hypothesis nz : (a, b, c) <> (0, 0, 0)%Z.
Hypothesis tpos : 0 < t.

Let g := Z.gcd a (Z.gcd b c).
Let mxz := Z.max (Z.abs a) (Z.max (Z.abs b) (Z.abs c)).
Let q := (mxz / g)%Z.
Let a' := (a / g)%Z.
Let b' := (b / g)%Z.
Let c' := (c / g)%Z.

Hypothesis q_le_M : (q <= Z.of_nat M)%Z.
Hypothesis M_small : (6 * Z.of_nat M ^ 4 < 20000000)%Z.

Lemma g_pos : (0 < g)%Z.
Proof.
  assert (0 <= g)%Z by apply Z.gcd_nonneg.
  destruct (Z.eq_dec g 0) as [E|]; [|lia]. exfalso. unfold g in E.
  apply Z.gcd_eq_0 in E. destruct E as [Ea E]. apply Z.gcd_eq_0 in E. destruct E. subst. apply nz. auto.
Qed.

Lemma g_div_a : (g | a)%Z. Proof. apply Z.gcd_divide_l. Qed.
Lemma g_div_b : (g | b)%Z.
Proof. eapply Z.divide_trans; [apply Z.gcd_divide_r|apply Z.gcd_divide_l]. Qed.
Lemma g_div_c : (g | c)%Z.
Proof. eapply Z.divide_trans; [apply Z.gcd_divide_r|apply Z.gcd_divide_r]. Qed.

Lemma a_eq : a = (g * a')%Z.
Proof. unfold a'. pose proof g_pos. destruct g_div_a as [k Hk]. rewrite Hk at 2. rewrite Z.div_mul by lia. lia. Qed.
Lemma b_eq : b = (g * b')%Z.
Proof. unfold b'. pose proof g_pos. destruct g_div_b as [k Hk]. rewrite Hk at 2. rewrite Z.div_mul by lia. lia. Qed.
Lemma c_eq : c = (g * c')%Z.
Proof. unfold c'. pose proof g_pos. destruct g_div_c as [k Hk]. rewrite Hk at 2. rewrite Z.div_mul by lia. lia. Qed.

Lemma g_div_mx : (g | mxz)%Z.
Proof.
  unfold mxz.
  assert (Ha : (g | Z.abs a)%Z) by (apply Z.divide_abs_r, g_div_a).
  assert (Hb : (g | Z.abs b)%Z) by (apply Z.divide_abs_r, g_div_b).
  assert (Hc : (g | Z.abs c)%Z) by (apply Z.divide_abs_r, g_div_c).
  destruct (Z.max_spec (Z.abs b) (Z.abs c)) as [[_ ->]|[_ ->]];
    destruct (Z.max_spec (Z.abs a) (Z.abs c)) as [[_ E]|[_ E]];
    destruct (Z.max_spec (Z.abs a) (Z.abs b)) as [[_ E2]|[_ E2]]; try rewrite E; try rewrite E2; auto.
Qed.

Lemma mx_eq : mxz = (g * q)%Z.
Proof. unfold q. pose proof g_pos. destruct g_div_mx as [k Hk]. rewrite Hk at 2. rewrite Z.div_mul by lia. lia. Qed.

Lemma mx_pos : (0 < mxz)%Z.
Proof.
  unfold mxz. destruct (Z.eq_dec a 0), (Z.eq_dec b 0), (Z.eq_dec c 0); try lia.
  subst. exfalso. apply nz. auto.
Qed.

Lemma q_pos : (1 <= q)%Z.
Proof. pose proof mx_pos. pose proof g_pos. rewrite mx_eq in H. nia. Qed.

Lemma abs_le_mx : (Z.abs a <= mxz /\ Z.abs b <= mxz /\ Z.abs c <= mxz)%Z.
Proof. unfold mxz. lia. Qed.

Lemma abs'_le_q : (Z.abs a' <= q /\ Z.abs b' <= q /\ Z.abs c' <= q)%Z.
Proof.
  pose proof abs_le_mx as [Ha [Hb Hc]]. pose proof g_pos.
  rewrite mx_eq in Ha, Hb, Hc. rewrite a_eq in Ha. rewrite b_eq in Hb. rewrite c_eq in Hc.
  rewrite Z.abs_mul in Ha, Hb, Hc. rewrite (Z.abs_eq g) in Ha, Hb, Hc by lia. nia.
Qed.

Lemma gcd'_one : Z.gcd a' (Z.gcd b' c') = 1%Z.
Proof.
  set (h := Z.gcd a' (Z.gcd b' c')).
  assert (Hh : (0 <= h)%Z) by apply Z.gcd_nonneg.
  assert (Ha : (h | a')%Z) by apply Z.gcd_divide_l.
  assert (Hb : (h | b')%Z) by (eapply Z.divide_trans; [apply Z.gcd_divide_r|apply Z.gcd_divide_l]).
  assert (Hc : (h | c')%Z) by (eapply Z.divide_trans; [apply Z.gcd_divide_r|apply Z.gcd_divide_r]).
  assert (D : (g * h | g)%Z).
  { unfold g at 2. apply Z.gcd_greatest; [|apply Z.gcd_greatest].
    - rewrite a_eq. apply Z.mul_divide_mono_l; auto.
    - rewrite b_eq. apply Z.mul_divide_mono_l; auto.
    - rewrite c_eq. apply Z.mul_divide_mono_l; auto. }
  pose proof g_pos. destruct D as [k Hk].
  assert (k * h = 1)%Z by nia.
  assert (h = 1 \/ h = -1)%Z by (apply Z.mul_eq_1 with k; lia). lia.
Qed.

(* the scaled, normalised indices *)
Let w : list R := [IZR a' / IZR q; IZR b' / IZR q; IZR c' / IZR q].

Lemma IZRq_pos : 0 < IZR q.
Proof. apply IZR_lt. pose proof q_pos. lia. Qed.

Lemma nz' : (a' <> 0 \/ b' <> 0 \/ c' <> 0)%Z.
Proof.
  destruct (Z.eq_dec a' 0) as [Ea|]; auto. destruct (Z.eq_dec b' 0) as [Eb|]; auto.
  destruct (Z.eq_dec c' 0) as [Ec|]; auto. exfalso. apply nz.
  rewrite a_eq, b_eq, c_eq, Ea, Eb, Ec. rewrite !Z.mul_0_r. auto.
Qed.

Lemma sumsq_w_pos : 0 < IZR a' * IZR a' + IZR b' * IZR b' + IZR c' * IZR c'.
Proof.
  pose proof (sq_nonneg (IZR a')). pose proof (sq_nonneg (IZR b')). pose proof (sq_nonneg (IZR c')).
  destruct nz' as [N|[N|N]]; apply (not_0_IZR) in N; nra.
Qed.

Definition scaled (m : Z) (x : Z) : R := IZR x / IZR q * IZR m.

Lemma err_unfold m :
  round_err ROps Rrint w m
  = Rrint (10000000 *
           ((scaled m a' - IZR (Rrint (scaled m a'))) * (scaled m a' - IZR (Rrint (scaled m a')))
            + (scaled m b' - IZR (Rrint (scaled m b'))) * (scaled m b' - IZR (Rrint (scaled m b')))
            + (scaled m c' - IZR (Rrint (scaled m c'))) * (scaled m c' - IZR (Rrint (scaled m c'))))
           / (scaled m a' * scaled m a' + scaled m b' * scaled m b' + scaled m c' * scaled m c')).
Proof.
  unfold round_err, w. cbn [map]. rewrite !sumsq3. rsimpl. unfold scaled. reflexivity.
Qed.

Lemma scaled_q x : scaled q x = IZR x.
Proof. unfold scaled. pose proof IZRq_pos. field. lra. Qed.

Lemma err_q : round_err ROps Rrint w q = 0%Z.
Proof.
  rewrite err_unfold. rewrite !scaled_q, !Rrint_IZR.
  replace (10000000 * ((IZR a' - IZR a') * (IZR a' - IZR a') + (IZR b' - IZR b') * (IZR b' - IZR b')
                       + (IZR c' - IZR c') * (IZR c' - IZR c'))
           / (IZR a' * IZR a' + IZR b' * IZR b' + IZR c' * IZR c')) with (IZR 0).
  - apply Rrint_IZR.
  - simpl. pose proof sumsq_w_pos. field. lra.
Qed.

Lemma scaled_sq_sum m : (1 <= m)%Z ->
  0 < scaled m a' * scaled m a' + scaled m b' * scaled m b' + scaled m c' * scaled m c'
  <= 3 * (IZR m * IZR m).
Proof.
  intros Hm. pose proof IZRq_pos as Q. pose proof sumsq_w_pos as S.
  assert (Mp : 1 <= IZR m) by (apply IZR_le in Hm; auto).
  unfold scaled.
  replace (IZR a' / IZR q * IZR m * (IZR a' / IZR q * IZR m) + IZR b' / IZR q * IZR m * (IZR b' / IZR q * IZR m)
           + IZR c' / IZR q * IZR m * (IZR c' / IZR q * IZR m))
    with ((IZR a' * IZR a' + IZR b' * IZR b' + IZR c' * IZR c') * (IZR m * IZR m) / (IZR q * IZR q))
    by (field; lra).
  assert (Q2 : 0 < IZR q * IZR q) by nra.
  assert (M2 : 0 < IZR m * IZR m) by nra.
  split.
  - apply Rdiv_lt_0_compat; nra.
  - apply Rmult_le_reg_r with (IZR q * IZR q); auto.
    unfold Rdiv. rewrite Rmult_assoc, Rinv_l, Rmult_1_r by lra.
    destruct abs'_le_q as [Ha [Hb Hc]].
    assert (Sa : IZR a' * IZR a' <= IZR q * IZR q).
    { rewrite <- !mult_IZR. apply IZR_le. nia. }
    assert (Sb : IZR b' * IZR b' <= IZR q * IZR q).
    { rewrite <- !mult_IZR. apply IZR_le. nia. }
    assert (Sc : IZR c' * IZR c' <= IZR q * IZR q).
    { rewrite <- !mult_IZR. apply IZR_le. nia. }
    nra.
Qed.

Lemma err_nonneg m : (1 <= m)%Z -> (0 <= round_err ROps Rrint w m)%Z.
Proof.
  intros Hm. rewrite err_unfold. apply Rrint_nonneg.
  destruct (scaled_sq_sum m Hm) as [P _].
  apply Rmult_le_pos; [|apply Rlt_le, Rinv_0_lt_compat; auto].
  apply Rmult_le_pos; [lra|].
  pose proof (sq_nonneg (scaled m a' - IZR (Rrint (scaled m a')))).
  pose proof (sq_nonneg (scaled m b' - IZR (Rrint (scaled m b')))).
  pose proof (sq_nonneg (scaled m c' - IZR (Rrint (scaled m c')))). lra.
Qed.

(* distance of a non-integral x/q*m from every integer is at least 1/q *)
Lemma frac_lower m x : ~ (q | m * x)%Z ->
  / (IZR q * IZR q) <= (scaled m x - IZR (Rrint (scaled m x))) * (scaled m x - IZR (Rrint (scaled m x))).
Proof.
  intros ND. pose proof IZRq_pos as Q. set (r := Rrint (scaled m x)).
  assert (E : scaled m x - IZR r = IZR (m * x - r * q) / IZR q).
  { unfold scaled. rewrite minus_IZR, !mult_IZR. field. lra. }
  rewrite E. set (k := (m * x - r * q)%Z).
  assert (K : k <> 0%Z).
  { intros K0. apply ND. exists r. unfold k in K0. lia. }
  assert (K1 : 1 <= IZR k * IZR k).
  { rewrite <- mult_IZR. apply IZR_le. nia. }
  replace (IZR k / IZR q * (IZR k / IZR q)) with (IZR k * IZR k * / (IZR q * IZR q)) by (field; lra).
  assert (P : 0 < / (IZR q * IZR q)) by (apply Rinv_0_lt_compat; nra).
  nra.
Qed.

Lemma some_nonintegral m : (1 <= m < q)%Z ->
  ~ (q | m * a')%Z \/ ~ (q | m * b')%Z \/ ~ (q | m * c')%Z.
Proof.
  intros Hm.
  destruct (Znumtheory.Zdivide_dec q (m * a')) as [Da|]; auto.
  destruct (Znumtheory.Zdivide_dec q (m * b')) as [Db|]; auto.
  destruct (Znumtheory.Zdivide_dec q (m * c')) as [Dc|]; auto.
  exfalso.
  assert (D : (q | Z.gcd (m * a') (Z.gcd (m * b') (m * c')))%Z)
    by (apply Z.gcd_greatest; [|apply Z.gcd_greatest]; auto).
  rewrite !Z.gcd_mul_mono_l_nonneg in D by lia. rewrite gcd'_one, Z.mul_1_r in D.
  apply Z.divide_pos_le in D; lia.
Qed.

Lemma M4 : forall m, (1 <= m < q)%Z -> 3 * (IZR m * IZR m) * (IZR q * IZR q) < 10000000.
Proof.
  intros m Hm.
  assert (B : (6 * (m * m * (q * q)) < 20000000)%Z).
  { assert (m <= Z.of_nat M)%Z by lia. assert (q * q <= Z.of_nat M * Z.of_nat M)%Z by nia.
    assert (m * m <= Z.of_nat M * Z.of_nat M)%Z by nia.
    assert (m * m * (q * q) <= Z.of_nat M * Z.of_nat M * (Z.of_nat M * Z.of_nat M))%Z by nia.
    replace (Z.of_nat M ^ 4)%Z with (Z.of_nat M * Z.of_nat M * (Z.of_nat M * Z.of_nat M))%Z in M_small by ring.
    lia. }
  apply IZR_lt in B. rewrite !mult_IZR in B. lra.
Qed.

Lemma err_ge1 m : (1 <= m < q)%Z -> (1 <= round_err ROps Rrint w m)%Z.
Proof.
  intros Hm. rewrite err_unfold. apply Rrint_ge1.
  destruct (scaled_sq_sum m) as [P U]; [lia|].
  pose proof (sq_nonneg (scaled m a' - IZR (Rrint (scaled m a')))) as Fa.
  pose proof (sq_nonneg (scaled m b' - IZR (Rrint (scaled m b')))) as Fb.
  pose proof (sq_nonneg (scaled m c' - IZR (Rrint (scaled m c')))) as Fc.
  set (S := (scaled m a' - IZR (Rrint (scaled m a'))) * (scaled m a' - IZR (Rrint (scaled m a')))
            + (scaled m b' - IZR (Rrint (scaled m b'))) * (scaled m b' - IZR (Rrint (scaled m b')))
            + (scaled m c' - IZR (Rrint (scaled m c'))) * (scaled m c' - IZR (Rrint (scaled m c')))) in *.
  set (N := scaled m a' * scaled m a' + scaled m b' * scaled m b' + scaled m c' * scaled m c') in *.
  assert (SL : / (IZR q * IZR q) <= S).
  { unfold S. destruct (some_nonintegral m Hm) as [D|[D|D]]; pose proof (frac_lower m _ D); lra. }
  pose proof IZRq_pos as Q. pose proof (M4 m Hm) as B.
  assert (Mp : 1 <= IZR m) by (apply IZR_le; lia).
  assert (Q2 : 0 < IZR q * IZR q) by nra.
  (* 1e7 * S / N >= 1e7 / (q^2 * 3 m^2) > 1/2 *)
  apply Rmult_lt_reg_r with N; auto.
  unfold Rdiv. rewrite Rmult_assoc, Rinv_l, Rmult_1_r by lra.
  assert (S1 : 1 <= S * (IZR q * IZR q)).
  { apply Rmult_le_reg_r with (/ (IZR q * IZR q)); [apply Rinv_0_lt_compat; auto|].
    rewrite Rmult_assoc, Rinv_r, Rmult_1_r, Rmult_1_l by lra. auto. }
  assert (NB : N * (IZR q * IZR q) < 10000000 * 2 * S * (IZR q * IZR q)).
  { assert (N * (IZR q * IZR q) <= 3 * (IZR m * IZR m) * (IZR q * IZR q)) by nra.
    assert (3 * (IZR m * IZR m) * (IZR q * IZR q) < 10000000 * 2) by lra.
    nra. }
  assert (NS : N < 10000000 * 2 * S).
  { apply Rmult_lt_reg_r with (IZR q * IZR q); [exact Q2|lra]. }
  lra.
Qed.

(* the error list: positive before position q-1, zero there *)
Lemma errs_split :
  map (fun m => round_err ROps Rrint w (Z.of_nat m)) (seq 1 M)
  = map (fun m => round_err ROps Rrint w (Z.of_nat m)) (seq 1 (Z.to_nat q - 1))
    ++ 0%Z :: map (fun m => round_err ROps Rrint w (Z.of_nat m)) (seq (S (Z.to_nat q)) (M - Z.to_nat q)).
Proof.
  pose proof q_pos.
  replace M with ((Z.to_nat q - 1) + S (M - Z.to_nat q))%nat at 1 by lia.
  rewrite seq_app, map_app. f_equal.
  replace (1 + (Z.to_nat q - 1))%nat with (Z.to_nat q) by lia.
  simpl. f_equal. rewrite Z2Nat.id by lia. apply err_q.
Qed.

Lemma argmin_errs :
  argmin_first (map (fun m => round_err ROps Rrint w (Z.of_nat m)) (seq 1 M)) = (Z.to_nat q - 1)%nat.
Proof.
  pose proof q_pos.
  rewrite errs_split. rewrite argmin_first_first0.
  - rewrite map_length, seq_length. auto.
  - intros x Hx. apply in_map_iff in Hx. destruct Hx as [m [<- Hm]]. apply in_seq in Hm.
    apply err_ge1. lia.
  - intros x Hx. apply in_map_iff in Hx. destruct Hx as [m [<- Hm]]. apply in_seq in Hm.
    apply err_nonneg. lia.
Qed.

Lemma absmax_eq : absmax ROps [t * IZR a; t * IZR b; t * IZR c] = t * IZR mxz.
Proof.
  unfold absmax. simpl fold_left. rewrite !omax_Rmax. rsimpl.
  assert (A : forall x, Rabs (t * IZR x) = t * IZR (Z.abs x)).
  { intros x. rewrite Rabs_mult, (Rabs_right t) by lra. rewrite abs_IZR. auto. }
  rewrite !A. replace 0 with (t * IZR 0) by (simpl; ring).
  rewrite !RmaxRmult by lra. rewrite !Rmax_IZR. f_equal. f_equal. unfold mxz. lia.
Qed.

Lemma w_eq :
  map (fun x => o_div ROps x (t * IZR mxz)) [t * IZR a; t * IZR b; t * IZR c] = w.
Proof.
  unfold w. cbn [map]. rsimpl. pose proof IZRq_pos. pose proof g_pos as G. apply IZR_lt in G.
  rewrite mx_eq. rewrite a_eq at 1. rewrite b_eq at 1. rewrite c_eq at 1. rewrite !mult_IZR.
  f_equal; [|f_equal; [|f_equal]]; field; lra.
Qed.

Theorem round_parallel_coprime_sec :
  round_indices ROps Rrint M [t * IZR a; t * IZR b; t * IZR c] = [a'; b'; c'] /\
  Z.gcd a' (Z.gcd b' c') = 1%Z /\ (a = g * a' /\ b = g * b' /\ c = g * c')%Z.
Proof.
  split; [|split; [apply gcd'_one | repeat split; [apply a_eq | apply b_eq | apply c_eq]]].
  unfold round_indices. cbn [drop_third]. rewrite absmax_eq, w_eq, argmin_errs.
  pose proof q_pos as Q1. pose proof IZRq_pos as Q. pose proof g_pos as G. apply IZR_lt in G.
  replace (Z.of_nat (S (Z.to_nat q - 1))) with q by lia.
  cbn [map]. rsimpl.
  assert (X : forall x x', x = (g * x')%Z -> IZR q / (t * IZR mxz) * (t * IZR x) = IZR x').
  { intros x x' ->. rewrite mx_eq, !mult_IZR. field; lra. }
  rewrite (X a a' a_eq), (X b b' b_eq), (X c c' c_eq), !Rrint_IZR. reflexivity.
Qed.
End Round.

Theorem round_parallel_coprime :
  forall (a b c : Z) (t : R) (M : nat),
  (a, b, c) <> (0, 0, 0)%Z -> 0 < t ->
  (Z.max (Z.abs a) (Z.max (Z.abs b) (Z.abs c)) / Z.gcd a (Z.gcd b c) <= Z.of_nat M)%Z ->
  (6 * Z.of_nat M ^ 4 < 20000000)%Z ->
  let g := Z.gcd a (Z.gcd b c) in
  round_indices ROps Rrint M [t * IZR a; t * IZR b; t * IZR c] = [(a / g)%Z; (b / g)%Z; (c / g)%Z] /\
  Z.gcd (a / g) (Z.gcd (b / g) (c / g)) = 1%Z /\
  (a = g * (a / g) /\ b = g * (b / g) /\ c = g * (c / g))%Z.
Proof. intros a b c t M nz tpos HM Hs. exact (round_parallel_coprime_sec a b c t M nz tpos HM Hs). Qed.
