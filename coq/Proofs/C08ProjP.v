(* C08 -- the fold of Vector3d.in_fundamental_sector (nearest rotated sector
   centre) is invariant under the group, over R; hence IPF colours of
   equivalent directions / orientations coincide. *)
From Coq Require Import Reals ZArith Lra Lia Bool List.
From Verif Require Import Scalar RInst QuatKernels Conversions C08Color Quat QuatAlg C08Model C08ColorP C08GeomP.
Import ListNotations.
Local Open Scope R_scope.

(* ------------------------------------------------------------ argmax *)
Lemma argmax_from_ok (d : R) : forall (xs pre : list R) best bi i,
  length pre = i -> (bi < i)%nat -> nth bi pre d = best ->
  (forall j, (j < i)%nat -> nth j pre d <= best) ->
  let k := argmax_from ROps best bi i xs in
  (k < i + length xs)%nat /\
  forall j, (j < i + length xs)%nat -> nth j (pre ++ xs) d <= nth k (pre ++ xs) d.
Proof.
  induction xs as [|x r IH]; intros pre best bi i Hlen Hbi Hb Hmax; cbn [argmax_from length].
  - rewrite Nat.add_0_r, app_nil_r. split; [exact Hbi|]. intros j Hj. rewrite Hb. apply Hmax. exact Hj.
  - rsimpl.
    assert (Hl' : length (pre ++ [x]) = S i) by (rewrite app_length; simpl; lia).
    assert (Hx : nth i (pre ++ [x]) d = x) by (rewrite app_nth2 by lia; rewrite Hlen, Nat.sub_diag; reflexivity).
    assert (Happ : pre ++ x :: r = (pre ++ [x]) ++ r) by (rewrite <- app_assoc; reflexivity).
    destruct (Rltb best x) eqn:L; [apply Rltb_true in L | apply Rltb_false in L].
    + destruct (IH (pre ++ [x]) x i (S i) Hl' (Nat.lt_succ_diag_r i) Hx) as [K1 K2].
      { intros j Hj. destruct (Nat.eq_dec j i) as [-> | Hne]; [rewrite Hx; lra|].
        rewrite app_nth1 by lia. pose proof (Hmax j ltac:(lia)). lra. }
      rewrite Happ. split; [lia|]. intros j Hj. apply K2. lia.
    + destruct (IH (pre ++ [x]) best bi (S i) Hl' ltac:(lia)) as [K1 K2].
      { rewrite app_nth1 by lia. exact Hb. }
      { intros j Hj. destruct (Nat.eq_dec j i) as [-> | Hne]; [rewrite Hx; lra|].
        rewrite app_nth1 by lia. apply Hmax. lia. }
      rewrite Happ. split; [lia|]. intros j Hj. apply K2. lia.
Qed.

Lemma argmax_ok (d : R) (xs : list R) : xs <> [] ->
  (argmax ROps xs < length xs)%nat /\
  forall j, (j < length xs)%nat -> nth j xs d <= nth (argmax ROps xs) xs d.
Proof.
  destruct xs as [|x r]; [congruence|]. intros _. unfold argmax.
  destruct (argmax_from_ok d r [x] x 0%nat 1%nat eq_refl ltac:(lia) eq_refl) as [K1 K2].
  - intros j Hj. assert (j = 0%nat) by lia. subst. simpl. lra.
  - split; [simpl in *; lia|]. intros j Hj. apply K2. simpl in *. lia.
Qed.

(* ------------------------------------------------------------ rotations *)
Notation Rr := (rot (T:=R)).
Definition unitr (g : Rr) : Prop := qnorm2 ROps (fst g) = 1.
(* two stored rotations act in the same way on every vector *)
Definition same_action (g h : Rr) : Prop := forall w : Rv, ract ROps g w = ract ROps h w.

Lemma unitr_inv g : unitr g -> unitr (rinv ROps g).
Proof. unfold unitr, rinv. cbn [fst]. rewrite qnorm2_conj. auto. Qed.

Lemma rinv_invol (g : Rr) : rinv ROps (rinv ROps g) = g.
Proof. destruct g as [q i]. unfold rinv. cbn [fst snd]. rewrite qconj_invol. reflexivity. Qed.

Lemma ract_inv_r (g : Rr) (v : Rv) : unitr g -> ract ROps g (ract ROps (rinv ROps g) v) = v.
Proof.
  intros Hg. pose proof (ract_inv (rinv ROps g) v (unitr_inv g Hg)) as H.
  rewrite rinv_invol in H. exact H.
Qed.

(* (g v) . u = v . (g^-1 u) *)
Lemma ract_dot_adj (g : Rr) (v u : Rv) : unitr g ->
  vdot ROps (ract ROps g v) u = vdot ROps v (ract ROps (rinv ROps g) u).
Proof.
  intros Hg. rewrite <- (ract_dot (rinv ROps g) (ract ROps g v) u (unitr_inv g Hg)).
  rewrite ract_inv by exact Hg. reflexivity.
Qed.

Section Proj.
Variable rd : Rnd (T:=R).
Variable G : list Rr.
Variable sec : sector (T:=R).
Hypothesis Gunit : forall g, In g G -> unitr g.
Hypothesis Gne : G <> [].

Let c := s_center sec.
Let gk (k : nat) : Rr := nth k G (rid ROps).
Let m (v : Rv) (j : nat) : R := r12 rd (vdot ROps v (ract ROps (gk j) c)).

Lemma gk_in k : (k < length G)%nat -> In (gk k) G.
Proof. intros H. apply nth_In. exact H. Qed.

Lemma closeness_length v : length (closeness ROps rd G c v) = length G.
Proof. unfold closeness. apply map_length. Qed.

Lemma closeness_nth v j : (j < length G)%nat -> nth j (closeness ROps rd G c v) 0 = m v j.
Proof.
  intros Hj. unfold closeness, m, gk.
  rewrite (nth_indep _ 0 (r12 rd (vdot ROps v (ract ROps (rid ROps) c))))
    by (rewrite map_length; exact Hj).
  rewrite (map_nth (fun g => r12 rd (vdot ROps v (ract ROps g c)))). reflexivity.
Qed.

Definition best (v : Rv) : nat := argmax ROps (closeness ROps rd G c v).

Lemma best_ok v : (best v < length G)%nat /\ forall j, (j < length G)%nat -> m v j <= m v (best v).
Proof.
  assert (Hne : closeness ROps rd G c v <> []).
  { intro E. apply Gne. apply length_zero_iff_nil. rewrite <- closeness_length with (v := v), E. reflexivity. }
  destruct (argmax_ok 0 _ Hne) as [K1 K2]. rewrite closeness_length in *. fold (best v) in *.
  split; [exact K1|]. intros j Hj. rewrite <- !closeness_nth by assumption. apply K2. exact Hj.
Qed.

Lemma project0_eq v : project0 ROps rd G sec v = ract ROps (rinv ROps (gk (best v))) v.
Proof. reflexivity. Qed.

(* The list is closed under s^-1 . and under s . (as actions on vectors);
   this is what "s belongs to the group G" is used for. *)
Definition closed_under (s : Rr) : Prop :=
  (forall j, (j < length G)%nat -> exists j', (j' < length G)%nat /\
      forall w, ract ROps (rinv ROps s) (ract ROps (gk j) w) = ract ROps (gk j') w) /\
  (forall j, (j < length G)%nat -> exists j', (j' < length G)%nat /\
      forall w, ract ROps s (ract ROps (gk j) w) = ract ROps (gk j') w).

(* the nearest rotated centre is unique (as a rotated sector): the direction is
   not on a cell boundary of the rounded closeness *)
Definition unique_best (v : Rv) : Prop :=
  forall j, (j < length G)%nat -> m v j = m v (best v) -> same_action (gk j) (gk (best v)).

Theorem project0_invariant (s : Rr) (v : Rv) :
  unitr s -> closed_under s -> unique_best v ->
  project0 ROps rd G sec (ract ROps s v) = project0 ROps rd G sec v.
Proof.
  intros Hs [C1 C2] Hu. rewrite !project0_eq.
  set (w := ract ROps s v).
  destruct (best_ok v) as [Kv Mv]. destruct (best_ok w) as [Kw Mw].
  set (k := best v) in *. set (k' := best w) in *.
  (* closeness of s.v at j = closeness of v at sigma j *)
  assert (Hshift : forall j j', (forall u, ract ROps (rinv ROps s) (ract ROps (gk j) u) = ract ROps (gk j') u) ->
                           m w j = m v j').
  { intros j j' E. unfold m, w. rewrite ract_dot_adj by exact Hs. rewrite E. reflexivity. }
  destruct (C1 k' Kw) as (sk' & Hsk' & Esk').
  destruct (C2 k Kv) as (j0 & Hj0 & Ej0).
  assert (Hj0m : m w j0 = m v k).
  { apply Hshift. intros u. rewrite <- Ej0. apply ract_inv. exact Hs. }
  assert (Hk'm : m w k' = m v sk') by (apply Hshift; exact Esk').
  assert (Heq : m v sk' = m v k).
  { pose proof (Mw j0 Hj0). pose proof (Mv sk' Hsk'). lra. }
  pose proof (Hu sk' Hsk' Heq) as Hact.
  (* u = g_k'^-1 (s v) satisfies g_k u = v *)
  set (u := ract ROps (rinv ROps (gk k')) w).
  assert (Hgu : ract ROps (gk k') u = w) by (apply ract_inv_r; apply Gunit, gk_in; exact Kw).
  assert (Hv : ract ROps (gk k) u = v).
  { rewrite <- Hact, <- Esk', Hgu. unfold w. apply ract_inv. exact Hs. }
  rewrite <- Hv. symmetry. apply ract_inv. apply Gunit, gk_in. exact Kv.
Qed.

(* With the final step of the code ("keep the vectors already inside the
   sector"), invariance needs the C07 fact that the fold does not move vectors
   of the sector: stated as a hypothesis. *)
Hypothesis normals_ne : s_normals sec <> [].
Definition sector_fixed : Prop :=
  forall v, in_sector ROps sec v = true -> project0 ROps rd G sec v = v.

Lemma project_eq0 v : sector_fixed -> project ROps rd false G sec v = project0 ROps rd G sec v.
Proof.
  intros Hf. unfold project. destruct (s_normals sec) eqn:E; [contradiction|].
  destruct (in_sector ROps sec v) eqn:I; [symmetry; apply Hf; exact I | reflexivity].
Qed.

Theorem project_invariant (s : Rr) (v : Rv) :
  sector_fixed -> unitr s -> closed_under s -> unique_best v ->
  project ROps rd false G sec (ract ROps s v) = project ROps rd false G sec v.
Proof. intros Hf Hs Hc Hu. rewrite !project_eq0 by exact Hf. apply project0_invariant; assumption. Qed.

(* colours: a function of the projected direction *)
Theorem color_function_of_projection m3 tbl (v w : Rv) :
  project ROps rd m3 G sec v = project ROps rd m3 G sec w ->
  direction2color ROps rd m3 G sec tbl v = direction2color ROps rd m3 G sec tbl w.
Proof. unfold direction2color. intros ->. reflexivity. Qed.

Theorem direction2color_invariant tbl (s : Rr) (v : Rv) :
  sector_fixed -> unitr s -> closed_under s -> unique_best v ->
  direction2color ROps rd false G sec tbl (ract ROps s v) = direction2color ROps rd false G sec tbl v.
Proof. intros. apply color_function_of_projection. apply project_invariant; assumption. Qed.

(* orientations: the colour of o is the colour of the crystal direction o*d;
   multiplying the orientation on the left by a group element s maps that
   direction to s*(o*d) *)
Theorem orientation2color_is_direction tbl m3 (d : Rv) (o : Rr) :
  orientation2color ROps rd m3 G sec tbl d o = direction2color ROps rd m3 G sec tbl (ract ROps o d).
Proof. reflexivity. Qed.

Theorem orientation2color_invariant tbl (s o : Rr) (d : Rv) :
  sector_fixed -> unitr s -> unitr o -> closed_under s -> unique_best (ract ROps o d) ->
  orientation2color ROps rd false G sec tbl d (rmul ROps s o)
  = orientation2color ROps rd false G sec tbl d o.
Proof.
  intros Hf Hs Ho Hc Hu. unfold orientation2color.
  rewrite ract_mul by assumption. apply direction2color_invariant; assumption.
Qed.

End Proj.
