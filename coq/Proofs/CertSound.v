(* Soundness of the exact region certificates over the reals: if the
   certificates of a region check, then every real quaternion inside the region
   (exact test) is inside the unpruned large cell of its distinguished points,
   hence has the smallest rotation angle among { x * ~d }. *)
From Coq Require Import Reals ZArith QArith List String Bool Lra.
From Verif Require Import Scalar RInst KField KtoR KSign Quat QuatAlg GroupK SymDot SymDotR SymDotK
  ZoneModel ZoneProofs CertCheck.
Import ListNotations.
Local Open Scope R_scope.

Notation Rq := (quat (T:=R)).

Lemma qtoR_kq_add p q : qtoR (kq_add p q) =
  (let '(a, b, c, d) := qtoR p in let '(e, f, g, h) := qtoR q in (a + e, b + f, c + g, d + h)).
Proof.
  destruct p as [[[a b] c] d], q as [[[e f] g] h]. unfold kq_add, qtoR. rewrite !toR_add. reflexivity.
Qed.

Lemma qdot_toR_add p q (x : Rq) : qdot ROps (qtoR (kq_add p q)) x = qdot ROps (qtoR p) x + qdot ROps (qtoR q) x.
Proof.
  rewrite qtoR_kq_add. destruct (qtoR p) as [[[a b] c] d], (qtoR q) as [[[e f] g] h], x as [[[x0 x1] x2] x3].
  qunfold. ring.
Qed.

Lemma qdot_toR_scale l p (x : Rq) : qdot ROps (qtoR (kq_scale l p)) x = toR l * qdot ROps (qtoR p) x.
Proof.
  destruct p as [[[a b] c] d], x as [[[x0 x1] x2] x3]. unfold kq_scale, qtoR. rewrite !toR_mul. qunfold. ring.
Qed.

Lemma qdot_toR_zero (x : Rq) : qdot ROps (qtoR kq_zero) x = 0.
Proof. destruct x as [[[x0 x1] x2] x3]. unfold kq_zero, qtoR. rewrite toR_K0. qunfold. ring. Qed.

(* a non-negative combination of normals is non-negative on the cone *)
Lemma comb_nonneg (N : list kquat) (c : list (nat * K)) (x : Rq) :
  forallb (fun jl => Knonneg (snd jl) && Nat.ltb (fst jl) (List.length N)) c = true ->
  (forall n, In n (map qtoR N) -> 0 <= qdot ROps n x) ->
  0 <= qdot ROps (qtoR (comb N c)) x.
Proof.
  intros Hc Hx. induction c as [|[j l] c IH]; cbn [comb].
  - rewrite qdot_toR_zero. lra.
  - cbn [forallb] in Hc. apply andb_prop in Hc. destruct Hc as [Hjl Hc]. cbn [fst snd] in Hjl.
    apply andb_prop in Hjl. destruct Hjl as [Hl Hj]. apply Knonneg_sound in Hl. apply Nat.ltb_lt in Hj.
    rewrite qdot_toR_add, qdot_toR_scale.
    assert (Hn : 0 <= qdot ROps (qtoR (nth j N kq_zero)) x).
    { apply Hx. apply in_map. apply nth_In. exact Hj. }
    specialize (IH Hc). nra.
Qed.

Lemma comb_nonpos (N : list kquat) (c : list (nat * K)) (x : Rq) :
  forallb (fun jl => Knonneg (snd jl) && Nat.ltb (fst jl) (List.length N)) c = true ->
  (forall n, In n (map qtoR N) -> qdot ROps n x <= 0) ->
  qdot ROps (qtoR (comb N c)) x <= 0.
Proof.
  intros Hc Hx. induction c as [|[j l] c IH]; cbn [comb].
  - rewrite qdot_toR_zero. lra.
  - cbn [forallb] in Hc. apply andb_prop in Hc. destruct Hc as [Hjl Hc]. cbn [fst snd] in Hjl.
    apply andb_prop in Hjl. destruct Hjl as [Hl Hj]. apply Knonneg_sound in Hl. apply Nat.ltb_lt in Hj.
    rewrite qdot_toR_add, qdot_toR_scale.
    assert (Hn : qdot ROps (qtoR (nth j N kq_zero)) x <= 0).
    { apply Hx. apply in_map. apply nth_In. exact Hj. }
    specialize (IH Hc). nra.
Qed.

Lemma cert_ok_sound N t c (x : Rq) : cert_ok N t c = true ->
  ((forall n, In n (map qtoR N) -> 0 <= qdot ROps n x) -> 0 <= qdot ROps (qtoR t) x) /\
  ((forall n, In n (map qtoR N) -> qdot ROps n x <= 0) -> qdot ROps (qtoR t) x <= 0).
Proof.
  unfold cert_ok. intros H. apply andb_prop in H. destruct H as [Hc He].
  apply kq_eqb_sound in He. rewrite <- He. split; intros Hx; [apply comb_nonneg|apply comb_nonpos]; assumption.
Qed.

Lemma qtoR_one_plus d : qtoR (kq_add kq_one d) = plane_plus ROps (qtoR d).
Proof.
  destruct d as [[[a b] c] e]. unfold kq_add, kq_one, plane_plus, qadd, qone, qtoR.
  rewrite !toR_add, toR_K1, toR_K0. rsimpl. repeat (apply f_equal2); lra.
Qed.
Lemma qtoR_one_minus d : qtoR (kq_add kq_one (qneg KOps d)) = plane_minus ROps (qtoR d).
Proof.
  destruct d as [[[a b] c] e]. unfold kq_add, kq_one, plane_minus, qadd, qone, qneg, qtoR.
  cbn [KOps o_opp]. rewrite !toR_add, !toR_opp, toR_K1, toR_K0. rsimpl. repeat (apply f_equal2); lra.
Qed.

Lemma certs_ok_sound N D cs (x : Rq) : certs_ok N D cs = true ->
  forall m, In m (large_cell ROps (map qtoR D)) ->
    ((forall n, In n (map qtoR N) -> 0 <= qdot ROps n x) -> 0 <= qdot ROps m x) /\
    ((forall n, In n (map qtoR N) -> qdot ROps n x <= 0) -> qdot ROps m x <= 0).
Proof.
  revert cs. induction D as [|d D IH]; intros cs H m Hm.
  - destruct Hm.
  - destruct cs as [|[cp cm] cs]; [discriminate|]. cbn [certs_ok] in H.
    apply andb_prop in H. destruct H as [H H3]. apply andb_prop in H. destruct H as [H1 H2].
    cbn [map large_cell flat_map] in Hm. cbn [app] in Hm.
    destruct Hm as [<-|[<-|Hm]].
    + rewrite <- qtoR_one_plus. apply cert_ok_sound with (c := cp). exact H1.
    + rewrite <- qtoR_one_minus. apply cert_ok_sound with (c := cm). exact H2.
    + apply (IH cs H3). exact Hm.
Qed.

(* MAIN: a checked region certificate => inside the region (exact test) implies
   inside the unpruned large cell, for every real quaternion *)
Theorem region_implies_large_cell (rc : region_cert) : rc_ok rc = true ->
  forall x : Rq, inside_region ROps 0 (map qtoR (rc_N rc)) x = true ->
               inside_region ROps 0 (large_cell ROps (map qtoR (rc_D rc))) x = true.
Proof.
  unfold rc_ok. intros Hok x. unfold inside_region. rewrite !orb_true_iff.
  replace (o_opp ROps 0) with 0 by (rsimpl; ring).
  rewrite !forallb_leb_R, !forallb_leb_R'.
  intros [H|H]; [left|right]; intros m Hm;
    destruct (certs_ok_sound _ _ _ x Hok m Hm) as [Hp Hn]; auto.
Qed.

(* ... hence has the smallest rotation angle among { x * ~d : d distinguished } *)
Corollary region_implies_minimal (rc : region_cert) : rc_ok rc = true ->
  forall x : Rq, inside_region ROps 0 (map qtoR (rc_N rc)) x = true ->
  forall d, In d (map qtoR (rc_D rc)) -> Rabs (qre (qmul ROps x (qconj ROps d))) <= Rabs (qre x).
Proof.
  intros Hok x Hin. apply inside_large_cell_minimal. apply region_implies_large_cell; assumption.
Qed.
