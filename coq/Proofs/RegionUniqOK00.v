(* exact check of the uniqueness certificates (two Gordan certificates per pair of operations other than the identity
   pair) of the regions whose first group is number 00 of the proper groups *)
From Coq Require Import List Bool.
From Verif Require Import CertCheck CoverCheck ExistCheck UniqCheck RegionCerts00 RegionUniq00.
Lemma region_uniq_ok_00 : all2b rc_uniq_ok region_certs_00 region_uniq_00 = true.
Proof. vm_compute. reflexivity. Qed.
