(* C10 -- proofs about the model of Miller.symmetrise / multiplicity /
   angle_with(use_symmetry) / unique(use_symmetry) (Model/C10Model.v). *)
From Coq Require Import ZArith List Bool Arith Lia Permutation Sorted.
From Verif Require Import NdIndex C17Unique C17UniqueSpec C10Model C10Orbit.
Import ListNotations.

(* ------------------------------------------------------------ list helpers *)
Lemma map_nth_seq {A B} (f : A -> B) (l : list A) d :
  map (fun i => f (nth i l d)) (seq 0 (length l)) = map f l.
Proof.
  induction l as [|a l IH]; simpl; auto. f_equal.
  rewrite <- seq_shift, map_map. exact IH.
Qed.

Lemma firstn_app_exact {A} (l r : list A) : firstn (length l) (l ++ r) = l.
Proof. rewrite firstn_app, Nat.sub_diag, firstn_all. simpl. apply app_nil_r. Qed.

Lemma skipn_app_exact {A} (l r : list A) k : skipn (length l + k) (l ++ r) = skipn k r.
Proof.
  rewrite skipn_app. rewrite skipn_all2 by lia. simpl. f_equal. lia.
Qed.

Lemma skipn_repeat {A} (x : A) k r : skipn k (repeat x r) = repeat x (r - k).
Proof.
  revert k; induction r as [|r IH]; intros k; simpl.
  - destruct k; auto.
  - destruct k; simpl; auto.
Qed.

Lemma filter_none {A} (p : A -> bool) l : (forall a, In a l -> p a = false) -> filter p l = [].
Proof.
  induction l as [|a l IH]; intros H; simpl; auto.
  rewrite (H a (or_introl eq_refl)). apply IH. intros; apply H; simpl; auto.
Qed.

Lemma filter_all' {A} (p : A -> bool) l : (forall a, In a l -> p a = true) -> filter p l = l.
Proof.
  induction l as [|a l IH]; intros H; simpl; auto.
  rewrite (H a (or_introl eq_refl)). f_equal. apply IH. intros; apply H; simpl; auto.
Qed.

Lemma filter_app' {A} (p : A -> bool) l1 l2 : filter p (l1 ++ l2) = filter p l1 ++ filter p l2.
Proof. induction l1; simpl; auto. destruct (p a); simpl; rewrite IHl1; auto. Qed.

Lemma filter_concat {A} (p : A -> bool) ls : filter p (concat ls) = concat (map (filter p) ls).
Proof. induction ls; simpl; auto. rewrite filter_app', IHls. auto. Qed.

Lemma filter_length_le {A} (p : A -> bool) l : length (filter p l) <= length l.
Proof. induction l; simpl; auto. destruct (p a); simpl; lia. Qed.

(* ------------------------------------------- multi-indices (C order) *)
Lemma nd_unravel_valid s k : k < size s -> valid s (unravel s k).
Proof.
  revert k; induction s as [|n s IH]; intros k Hk; simpl in *.
  - constructor.
  - assert (Hm : 0 < size s) by (destruct (size s); lia).
    assert (Hn : 0 < n) by (destruct n; lia).
    constructor.
    + apply Nat.mod_upper_bound; lia.
    + apply IH. apply Nat.mod_upper_bound; lia.
Qed.

Lemma nd_ravel_unravel s k : k < size s -> ravel s (unravel s k) = k.
Proof.
  revert k; induction s as [|n s IH]; intros k Hk; simpl in *.
  - lia.
  - assert (Hm : 0 < size s) by (destruct (size s); lia).
    assert (Hd : k / size s < n) by (apply Nat.div_lt_upper_bound; lia).
    rewrite Nat.mod_small by exact Hd.
    rewrite IH by (apply Nat.mod_upper_bound; lia).
    pose proof (Nat.div_mod k (size s)). lia.
Qed.

Lemma nd_unravel_ravel s idx : valid s idx -> unravel s (ravel s idx) = idx.
Proof.
  intros H; induction H as [|i n idx s Hi Hrest IH]; simpl; [reflexivity|].
  pose proof (ravel_lt _ _ Hrest) as Hr.
  assert (Hm : 0 < size s) by lia.
  rewrite Nat.div_add_l by lia. rewrite (Nat.div_small (ravel s idx)) by lia.
  rewrite Nat.add_0_r, Nat.mod_small by lia.
  rewrite Nat.add_comm, Nat.mod_add by lia. rewrite Nat.mod_small by lia.
  rewrite IH; reflexivity.
Qed.

Lemma nd_valid_rev s idx : valid s idx -> valid (rev s) (rev idx).
Proof.
  intros H; induction H as [|i n idx s Hi Hrest IH]; simpl; [constructor|].
  apply Forall2_app; [exact IH|]. constructor; [exact Hi|constructor].
Qed.

Lemma nd_size_rev s : size (rev s) = size s.
Proof. induction s as [|n s IH]; simpl; auto. rewrite size_app, IH. simpl. lia. Qed.

Lemma nth_seq_map {B} (F : nat -> B) N k dB : k < N -> nth k (map F (seq 0 N)) dB = F k.
Proof.
  intros H. rewrite (nth_map_lt F (seq 0 N) k 0 dB) by (rewrite seq_length; auto).
  rewrite seq_nth by auto. reflexivity.
Qed.

(* the column-major enumeration (Object3d.flatten) followed by reshape to the
   reversed shape and transposition is the identity on the C-order list *)
Lemma unflatten_flatten {A B} (f : A -> B) (dA : A) (dB : B) shape (data : list A) :
  length data = size shape ->
  unflattenF dB shape (map f (flattenF dA shape data)) = map f data.
Proof.
  intros H. unfold unflattenF.
  rewrite <- (map_nth_seq f data dA). rewrite H.
  apply map_ext_in. intros k Hk. apply in_seq in Hk. assert (Hk' : k < size shape) by lia.
  pose proof (nd_valid_rev _ _ (nd_unravel_valid shape k Hk')) as V.
  pose proof (ravel_lt _ _ V) as L. rewrite nd_size_rev in L.
  rewrite (nth_map_lt f (flattenF dA shape data) _ dA dB)
    by (unfold flattenF; rewrite map_length, seq_length; exact L).
  f_equal. unfold flattenF. rewrite nth_seq_map by exact L.
  rewrite (nd_unravel_ravel _ _ V), rev_involutive, (nd_ravel_unravel shape k Hk'). reflexivity.
Qed.

(* ============================================================ symmetrise *)
Section Sym.
Context {G E K : Type} (cmp : K -> K -> comparison) (CO : cmp_order cmp)
        (rnd : E -> E) (iszero : E -> bool) (key : E -> K) (d zero : E) (exact0 : E -> bool)
        (act : G -> E -> E) (ops : list G).
Hypothesis zero_exact0 : exact0 zero = true.
Hypothesis exact0_iszero : forall e, exact0 e = true -> iszero e = true.

Notation orbit_of := (orbit_of act ops).
Notation uniq := (uniq cmp rnd iszero key d).
Notation block_of := (block_of cmp rnd iszero key d act ops).

(* ---- the outer product, column by column *)
Lemma column_outer vs i : i < length vs ->
  column d (outer_rows act ops vs) i = orbit_of (nth i vs d).
Proof.
  intros Hi. unfold column, outer_rows, C10Model.orbit_of. rewrite map_map.
  apply map_ext. intros g. apply nth_map_lt. auto.
Qed.

Lemma columns_outer vs :
  columns d (length vs) (outer_rows act ops vs) = map orbit_of vs.
Proof.
  unfold columns. rewrite <- (map_nth_seq orbit_of vs d).
  apply map_ext_in. intros i Hi. apply in_seq in Hi. apply column_outer. lia.
Qed.

(* symmetrise(): all images of each vector, vector by vector, in the order
   of the operations *)
Theorem symmetrise_all_spec vs :
  symmetrise_all d act ops vs = flat_map (fun v => map (fun g => act g v) ops) vs.
Proof.
  unfold symmetrise_all, flattenF2. rewrite columns_outer. rewrite flat_map_concat_map. reflexivity.
Qed.

Corollary symmetrise_all_length vs : length (symmetrise_all d act ops vs) = length vs * length ops.
Proof.
  rewrite symmetrise_all_spec. induction vs; simpl; auto.
  rewrite app_length, map_length, IHvs. lia.
Qed.

(* ---- per-vector unique *)
Lemma uniq_nubk col : uniq col = nubk cmp key (filter (fun e => negb (iszero e)) (map rnd col)).
Proof. unfold C10Model.uniq. apply (obj_out_nubk cmp CO rnd iszero key d col). Qed.

Lemma nubk_length_le (l : list E) : length (nubk cmp key l) <= length l.
Proof.
  induction l as [|x l IH]; simpl; auto.
  pose proof (filter_length_le (fun y => negb (keq cmp (key x) (key y))) (nubk cmp key l)). lia.
Qed.

Lemma uniq_length_le col : length (uniq col) <= length col.
Proof.
  rewrite uniq_nubk. etransitivity; [apply nubk_length_le|].
  etransitivity; [apply filter_length_le|]. rewrite map_length. auto.
Qed.

Lemma uniq_not_exact0 col e : In e (uniq col) -> exact0 e = false.
Proof.
  intros H. unfold C10Model.uniq in H.
  destruct (obj_from_input cmp CO rnd iszero key d col e H) as [e0 [_ [_ Hz]]].
  destruct (exact0 e) eqn:X; auto. rewrite (exact0_iszero e X) in Hz. discriminate.
Qed.

(* ---- the loop *)
Definition pad (m : nat) (b : list E) : list E := b ++ repeat zero (m - length b).
(* the index array: input position repeated multiplicity times *)
Fixpoint idx_spec (i0 : nat) (blocks : list (list E)) : list Z :=
  match blocks with
  | [] => []
  | b :: t => repeat (Z.of_nat i0) (length b) ++ idx_spec (S i0) t
  end.

Lemma idx_spec_length i0 blocks : length (idx_spec i0 blocks) = length (concat blocks).
Proof.
  revert i0; induction blocks as [|b t IH]; intros i0; simpl; auto.
  rewrite !app_length, repeat_length, IH. auto.
Qed.

Lemma set_slice_fresh (I : list Z) r l x : l <= r ->
  set_slice (I ++ repeat (-1)%Z r) (length I) l x = I ++ repeat x l ++ repeat (-1)%Z (r - l).
Proof.
  intros Hl. unfold set_slice. rewrite firstn_app_exact. f_equal.
  rewrite app_length, repeat_length. replace (length I + r - length I) with r by lia.
  rewrite Nat.min_l by auto. f_equal.
  rewrite skipn_app_exact. apply skipn_repeat.
Qed.

Lemma loop_inv m : forall cols i0 R Mu I r,
  (forall c, In c cols -> length (uniq c) <= m) -> length cols * m <= r ->
  sym_loop_from cmp rnd iszero key d zero m (mkSt R Mu (I ++ repeat (-1)%Z r) (length I)) i0 cols
  = mkSt (R ++ map (fun c => pad m (uniq c)) cols)
         (Mu ++ map (fun c => length (uniq c)) cols)
         ((I ++ idx_spec i0 (map uniq cols)) ++ repeat (-1)%Z (r - length (concat (map uniq cols))))
         (length I + length (concat (map uniq cols))).
Proof.
  induction cols as [|c cols IH]; intros i0 R Mu I r Hl Hr.
  - unfold sym_loop_from. simpl. rewrite !app_nil_r, Nat.sub_0_r, Nat.add_0_r. reflexivity.
  - unfold sym_loop_from in *. simpl length. simpl seq. simpl combine. simpl fold_left.
    unfold sym_step at 2. simpl fst. simpl snd. simpl st_rows. simpl st_mult. simpl st_idx. simpl st_acc.
    assert (Hc : length (uniq c) <= m) by (apply Hl; simpl; auto).
    simpl in Hr.
    rewrite set_slice_fresh by lia.
    replace (I ++ repeat (Z.of_nat i0) (length (uniq c)) ++ repeat (-1)%Z (r - length (uniq c)))
      with ((I ++ repeat (Z.of_nat i0) (length (uniq c))) ++ repeat (-1)%Z (r - length (uniq c)))
      by (rewrite app_assoc; auto).
    replace (length I + length (uniq c)) with (length (I ++ repeat (Z.of_nat i0) (length (uniq c))))
      by (rewrite app_length, repeat_length; auto).
    rewrite IH.
    + simpl map. simpl concat. simpl idx_spec. rewrite !app_length, repeat_length.
      f_equal.
      * rewrite <- app_assoc. reflexivity.
      * rewrite <- app_assoc. reflexivity.
      * replace (r - length (uniq c) - length (concat (map uniq cols)))
          with (r - (length (uniq c) + length (concat (map uniq cols)))) by lia.
        rewrite <- !app_assoc. reflexivity.
      * lia.
    + intros c' Hc'. apply Hl. simpl; auto.
    + lia.
Qed.

Lemma filter_pad m b : (forall e, In e b -> exact0 e = false) ->
  filter (fun e => negb (exact0 e)) (pad m b) = b.
Proof.
  intros H. unfold pad. rewrite filter_app'. rewrite filter_all'.
  - rewrite filter_none; [apply app_nil_r|]. intros a Ha. apply repeat_spec in Ha. subst. rewrite zero_exact0. auto.
  - intros a Ha. rewrite (H a Ha). auto.
Qed.

(* symmetrise(unique=True, return_multiplicity=True, return_index=True) from
   the columns of the outer product: blocks of unique vectors concatenated in
   input order, multiplicities = block lengths, idx = input position repeated
   multiplicity times.  Holds for EVERY rounding function. *)
Theorem symmetrise_unique_cols_spec m cols :
  (forall c, In c cols -> length c <= m) ->
  symmetrise_unique_cols cmp rnd iszero key d zero exact0 m cols
  = (concat (map uniq cols), map (fun c => length (uniq c)) cols, idx_spec 0 (map uniq cols)).
Proof.
  intros Hlen. unfold symmetrise_unique_cols, sym_init.
  pose proof (loop_inv m cols 0 [] [] [] (length cols * m)) as L. simpl app in L. simpl length in L.
  rewrite L; clear L.
  - unfold sym_finish. simpl st_rows. simpl st_mult. simpl st_idx.
    assert (F : filter (fun e => negb (exact0 e)) (concat (map (fun c => pad m (uniq c)) cols))
                = concat (map uniq cols)).
    { rewrite filter_concat, map_map. f_equal. apply map_ext. intros c. apply filter_pad.
      intros e He. apply (uniq_not_exact0 c e He). }
    rewrite F. f_equal.
    rewrite <- (idx_spec_length 0 (map uniq cols)). apply firstn_app_exact.
  - intros c Hc. etransitivity; [apply uniq_length_le|]. apply Hlen; auto.
  - lia.
Qed.

Theorem symmetrise_unique_spec vs :
  symmetrise_unique cmp rnd iszero key d zero exact0 act ops vs
  = (concat (map block_of vs), map (fun v => length (block_of v)) vs, idx_spec 0 (map block_of vs)).
Proof.
  unfold symmetrise_unique. rewrite columns_outer. rewrite symmetrise_unique_cols_spec.
  - rewrite !map_map. reflexivity.
  - intros c Hc. apply in_map_iff in Hc. destruct Hc as [v [<- _]].
    unfold C10Model.orbit_of. rewrite map_length. auto.
Qed.

(* the block of a vector: first-appearance de-duplication (by key) of its
   rounded, zero-free images *)
Theorem block_spec v :
  block_of v = nubk cmp key (filter (fun e => negb (iszero e)) (map rnd (orbit_of v))).
Proof. unfold C10Model.block_of. apply uniq_nubk. Qed.

(* ---- multiplicity of an n-d object *)
Lemma flattenF_1d n (data : list E) : length data = n -> flattenF d [n] data = data.
Proof.
  intros <-. unfold flattenF. simpl size. rewrite Nat.mul_1_r.
  transitivity (map (fun i => nth i data d) (seq 0 (length data))).
  - apply map_ext_in. intros k Hk. apply in_seq in Hk.
    cbn [rev app unravel ravel size fold_right].
    rewrite Nat.div_1_r, Nat.mod_small by lia. f_equal. lia.
  - rewrite (map_nth_seq (fun x => x) data d). apply map_id.
Qed.

(* Miller.multiplicity of an object of ANY shape: element-wise number of
   distinct (rounded) images -- the multiplicities of the column-major
   enumeration are put back by the inverse enumeration *)
Theorem multiplicity_nd shape (data : list E) : length data = size shape ->
  multiplicity cmp rnd iszero key d zero exact0 act ops shape data
  = map (fun v => length (block_of v)) data.
Proof.
  intros H. unfold multiplicity, symmetrise_unique_nd. rewrite symmetrise_unique_spec. simpl snd.
  apply (unflatten_flatten (fun v => length (block_of v)) d 0 shape data H).
Qed.

Corollary multiplicity_1d n (data : list E) : length data = n ->
  multiplicity cmp rnd iszero key d zero exact0 act ops [n] data
  = map (fun v => length (block_of v)) data.
Proof. intros H. apply multiplicity_nd. simpl. lia. Qed.
End Sym.

(* ============================== exact de-duplication: blocks are the orbits *)
Section Exact.
Context {G E K : Type} (cmp : K -> K -> comparison) (CO : cmp_order cmp)
        (rnd : E -> E) (iszero : E -> bool) (key : E -> K) (d : E)
        (act : G -> E -> E) (ops : list G).
(* exact equality is the de-duplication relation *)
Hypothesis key_eq : forall x y, keq cmp (key x) (key y) = true <-> x = y.

Notation orbit_of := (orbit_of act ops).
Notation block_of := (block_of cmp rnd iszero key d act ops).

Lemma nubk_NoDup (l : list E) : NoDup (nubk cmp key l).
Proof.
  pose proof (nubk_distinct cmp key l) as S.
  induction S as [|x t S IH F]; constructor; auto.
  intros Hin. rewrite Forall_forall in F. specialize (F x Hin). unfold kdiff in F.
  assert (T : keq cmp (key x) (key x) = true) by (apply key_eq; auto). congruence.
Qed.

Lemma nubk_In (l : list E) x : In x (nubk cmp key l) <-> In x l.
Proof.
  split; [apply nubk_in|]. intros H.
  destruct (nubk_cover cmp CO key l x H) as [y [Hy Ey]]. apply key_eq in Ey. subst. auto.
Qed.

(* the vector v is "exactly representable": rounding to 10 decimals changes
   none of its images and none of them is treated as zero *)
Definition exact_on (v : E) : Prop :=
  forall g, In g ops -> rnd (act g v) = act g v /\ iszero (act g v) = false.

Lemma exact_data v : exact_on v ->
  filter (fun e => negb (iszero e)) (map rnd (orbit_of v)) = orbit_of v.
Proof.
  intros H. unfold C10Model.orbit_of. rewrite map_map.
  rewrite (map_ext_in (fun g => rnd (act g v)) (fun g => act g v)) by (intros g Hg; apply H; auto).
  apply filter_all'. intros a Ha. apply in_map_iff in Ha. destruct Ha as [g [<- Hg]].
  destruct (H g Hg) as [_ Hz]. rewrite Hz. auto.
Qed.

(* with unique=True each block is the duplicate-free first-appearance list
   of the images of the vector *)
Theorem block_is_orbit v : exact_on v ->
  block_of v = nubk cmp key (orbit_of v) /\ NoDup (block_of v) /\
  (forall w, In w (block_of v) <-> In w (orbit_of v)).
Proof.
  intros H. rewrite (block_spec cmp CO rnd iszero key d act ops v), (exact_data v H).
  split; [reflexivity|]. split; [apply nubk_NoDup | apply nubk_In].
Qed.

(* first appearance: the k-th listed image did not occur among the images
   produced by earlier operations *)
Lemma nubk_first (l : list E) : forall k, k < length (nubk cmp key l) ->
  exists j, j < length l /\ nth j l d = nth k (nubk cmp key l) d /\
            forall i, i < j -> nth i l d <> nth k (nubk cmp key l) d.
Proof.
  induction l as [|x l IH]; intros k Hk; simpl in Hk; [lia|].
  destruct k as [|k].
  - exists 0. simpl. repeat split; auto; try lia.
  - simpl in Hk. apply Nat.succ_lt_mono in Hk.
    set (f := fun y => negb (keq cmp (key x) (key y))) in *.
    assert (Hin : In (nth k (filter f (nubk cmp key l)) d) (filter f (nubk cmp key l))) by (apply nth_In; auto).
    apply filter_In in Hin. destruct Hin as [Hin Hf].
    destruct (In_nth _ _ d Hin) as [k' [Hk' Ek']].
    destruct (IH k' Hk') as [j [Hj [Ej Hmin]]].
    exists (S j). simpl nth. rewrite Ek' in Ej. repeat split; auto; try (simpl; lia).
    intros i Hi. destruct i as [|i]; simpl.
    + intros Ex. unfold f in Hf. rewrite <- Ex in Hf.
      assert (T : keq cmp (key x) (key x) = true) by (apply key_eq; auto). rewrite T in Hf. discriminate.
    + fold f. rewrite <- Ek'. apply Hmin. lia.
Qed.
End Exact.

(* ================================= multiplicity divides the group order *)
Section Divides.
Context {G E K : Type} (cmp : K -> K -> comparison) (CO : cmp_order cmp)
        (rnd : E -> E) (iszero : E -> bool) (key : E -> K) (d : E)
        (veq : E -> E -> bool) (mul : G -> G -> G) (inv : G -> G) (e : G)
        (act : G -> E -> E) (ops : list G).
Hypothesis key_eq : forall x y, keq cmp (key x) (key y) = true <-> x = y.
Hypothesis veq_true : forall x y, veq x y = true <-> x = y.
Hypothesis GA : group_action mul inv e act ops.

Notation block_of := (block_of cmp rnd iszero key d act ops).

Theorem multiplicity_orbit_stabiliser v : exact_on rnd iszero act ops v ->
  length (block_of v) * length (stab veq act ops v) = length ops.
Proof.
  intros H. destruct (block_is_orbit cmp CO rnd iszero key d act ops key_eq v H) as [_ [Hn Hi]].
  apply (orbit_stabiliser veq veq_true mul inv e act ops GA v (block_of v) Hn Hi).
Qed.

Theorem multiplicity_divides v : exact_on rnd iszero act ops v ->
  Nat.divide (length (block_of v)) (length ops).
Proof.
  intros H. exists (length (stab veq act ops v)).
  rewrite <- (multiplicity_orbit_stabiliser v H). lia.
Qed.

(* equivalent vectors have the same multiplicity *)
Theorem multiplicity_invariant v g : In g ops ->
  exact_on rnd iszero act ops v -> exact_on rnd iszero act ops (act g v) ->
  length (block_of (act g v)) = length (block_of v).
Proof.
  intros Hg H1 H2.
  destruct (block_is_orbit cmp CO rnd iszero key d act ops key_eq v H1) as [_ [Hn1 Hi1]].
  destruct (block_is_orbit cmp CO rnd iszero key d act ops key_eq (act g v) H2) as [_ [Hn2 Hi2]].
  apply Permutation_length. apply NoDup_Permutation; auto.
  intros x. rewrite Hi1, Hi2. symmetry.
  apply (orbit_equivalent mul inv e act ops GA v (act g v)). exists g. auto.
Qed.
End Divides.

(* ==================================== angle_with(use_symmetry): minimum *)
Section MinSpec.
Context {A : Type} (leb : A -> A -> bool).
Hypothesis leb_total : forall x y, leb x y = true \/ leb y x = true.
Hypothesis leb_trans : forall x y z, leb x y = true -> leb y z = true -> leb x z = true.

Definition is_min (a : A) (l : list A) : Prop := In a l /\ forall x, In x l -> leb a x = true.

Lemma leb_refl x : leb x x = true.
Proof. destruct (leb_total x x); auto. Qed.

Lemma fold_min_spec t : forall x, is_min (fold_left (min2 leb) t x) (x :: t).
Proof.
  induction t as [|y t IH]; intros x; simpl.
  - split; simpl; auto. intros z [<-|[]]. apply leb_refl.
  - destruct (IH (min2 leb x y)) as [Hin Hle]. split.
    + simpl in Hin. destruct Hin as [Hin|Hin]; [|simpl; auto].
      rewrite <- Hin. unfold min2. destruct (leb x y); simpl; auto.
    + intros z Hz. simpl in Hz.
      assert (Hm1 : leb (fold_left (min2 leb) t (min2 leb x y)) (min2 leb x y) = true)
        by (apply Hle; simpl; auto).
      destruct Hz as [<-|[<-|Hz]].
      * apply (leb_trans _ _ _ Hm1). unfold min2. destruct (leb x y) eqn:X; [apply leb_refl|].
        destruct (leb_total x y); congruence.
      * apply (leb_trans _ _ _ Hm1). unfold min2. destruct (leb x y) eqn:X; auto. apply leb_refl.
      * apply Hle. simpl; auto.
Qed.

Lemma lmin_spec l a : lmin leb l = Some a -> is_min a l.
Proof. destruct l as [|x t]; simpl; [discriminate|]. intros [= <-]. apply fold_min_spec. Qed.

Lemma lmin_some l : l <> [] -> exists a, lmin leb l = Some a.
Proof. destruct l; [congruence|]. intros _. simpl. eauto. Qed.

(* a minimum only depends on the SET of values *)
Lemma is_min_same_set a l l' : (forall x, In x l <-> In x l') -> is_min a l -> is_min a l'.
Proof. intros H [H1 H2]. split; [apply H; auto|]. intros x Hx. apply H2, H; auto. Qed.
End MinSpec.

Section Angle.
Context {G E A : Type} (leb : A -> A -> bool) (ang : E -> E -> A) (act : G -> E -> E) (ops : list G) (d : E).
Hypothesis leb_total : forall x y, leb x y = true \/ leb y x = true.
Hypothesis leb_trans : forall x y z, leb x y = true -> leb y z = true -> leb x z = true.

Notation sma := (sym_min_angle leb ang act ops).

(* the angle of one pair: a minimum over the images of the other vector *)
Lemma sym_min_angle_spec v w : ops <> [] ->
  is_min leb (sma v w) (map (fun g => ang v (act g w)) ops).
Proof.
  intros Hne. unfold sym_min_angle.
  destruct (lmin_some leb (map (fun g => ang v (act g w)) ops)) as [a Ha].
  - destruct ops; [congruence|discriminate].
  - rewrite Ha. apply (lmin_spec leb leb_total leb_trans _ _ Ha).
Qed.

(* what the code computes for ANY shapes: self and other are broadcast
   against each other and entry idx of the result is a minimum of the angles
   between the vector of self at idx and all images of the vector of other at
   idx (bidx = the index into an operand with broadcast axes of length 1) *)
Theorem angle_with_sym_spec sS sO (self other : list E) s res :
  angle_with_sym leb ang act ops d sS sO self other = Some (s, res) ->
  bshape sS sO = Some s /\ length res = size s /\
  forall k, k < size s ->
    is_min leb (nth k res (ang d d))
      (map (fun g => ang (nth (ravel (pad_shape (length s) sS) (bidx (pad_shape (length s) sS) (unravel s k))) self d)
                         (act g (nth (ravel (pad_shape (length s) sO) (bidx (pad_shape (length s) sO) (unravel s k))) other d)))
           ops).
Proof.
  unfold angle_with_sym. destruct ops as [|g0 ops'] eqn:Eo; [discriminate|]. rewrite <- Eo.
  unfold bcast2. destruct (bshape sS sO) as [s'|]; [|discriminate].
  intros [= <- <-]. split; [reflexivity|]. split; [rewrite map_length, seq_length; reflexivity|].
  intros k Hk. rewrite nth_seq_map by exact Hk.
  apply sym_min_angle_spec. rewrite Eo. discriminate.
Qed.

(* which shapes are accepted: exactly the broadcastable ones *)
Lemma angle_with_sym_none sS sO (self other : list E) : ops <> [] ->
  (angle_with_sym leb ang act ops d sS sO self other = None <-> bshape sS sO = None).
Proof.
  intros Hne. unfold angle_with_sym. destruct ops; [congruence|].
  unfold bcast2. destruct (bshape sS sO); split; intros; auto; discriminate.
Qed.

(* ---- 1-d operands *)
Lemma bcast2_1d_same {X Y Z} (f : X -> Y -> Z) dx dy n (xs : list X) (ys : list Y) :
  bcast2 f dx dy [n] [n] xs ys = Some ([n], map (fun k => f (nth k xs dx) (nth k ys dy)) (seq 0 n)).
Proof.
  unfold bcast2, bshape. simpl length. simpl Nat.max. unfold pad_shape. simpl repeat. simpl app.
  simpl zip_with. unfold bcompat. rewrite Nat.eqb_refl. simpl forallb.
  assert (B : bdim n n = n) by (unfold bdim; destruct (Nat.eqb n 1); auto). rewrite B.
  simpl length. simpl repeat. simpl app. f_equal. f_equal.
  simpl size. rewrite Nat.mul_1_r. apply map_ext_in. intros k Hk. apply in_seq in Hk.
  cbn [unravel size fold_right]. rewrite Nat.div_1_r, Nat.mod_small by lia.
  unfold bidx. cbn [zip_with].
  assert (I : (if Nat.eqb n 1 then 0 else k) = k)
    by (destruct (Nat.eqb n 1) eqn:N1; auto; apply Nat.eqb_eq in N1; lia).
  rewrite I. cbn [ravel size fold_right]. rewrite Nat.mul_1_r, Nat.add_0_r. reflexivity.
Qed.

Lemma bcast2_1d_one {X Y Z} (f : X -> Y -> Z) dx dy n (xs : list X) (ys : list Y) :
  bcast2 f dx dy [n] [1] xs ys = Some ([n], map (fun k => f (nth k xs dx) (nth 0 ys dy)) (seq 0 n)).
Proof.
  unfold bcast2, bshape. simpl length. simpl Nat.max. unfold pad_shape. simpl repeat. simpl app.
  simpl zip_with. unfold bcompat. simpl (Nat.eqb 1 1). rewrite !orb_true_r. simpl forallb.
  assert (B : bdim n 1 = n) by (unfold bdim; destruct (Nat.eqb n 1) eqn:N1; auto; apply Nat.eqb_eq in N1; lia).
  rewrite B. simpl length. simpl repeat. simpl app. f_equal. f_equal.
  simpl size. rewrite Nat.mul_1_r. apply map_ext_in. intros k Hk. apply in_seq in Hk.
  cbn [unravel size fold_right]. rewrite Nat.div_1_r, Nat.mod_small by lia.
  unfold bidx. cbn [zip_with]. simpl (Nat.eqb 1 1). cbv iota.
  assert (I : (if Nat.eqb n 1 then 0 else k) = k)
    by (destruct (Nat.eqb n 1) eqn:N1; auto; apply Nat.eqb_eq in N1; lia).
  rewrite I. cbn [ravel size fold_right]. rewrite Nat.mul_1_r, !Nat.add_0_r. reflexivity.
Qed.

(* the property for equally many vectors: ELEMENT-WISE, entry i is the
   minimum of the angles between self[i] and all images of other[i] *)
Theorem angle_elementwise n (self other : list E) : ops <> [] ->
  exists res, angle_with_sym leb ang act ops d [n] [n] self other = Some ([n], res) /\ length res = n /\
    forall i, i < n ->
      is_min leb (nth i res (ang d d)) (map (fun g => ang (nth i self d) (act g (nth i other d))) ops).
Proof.
  intros Hne. exists (map (fun k => sma (nth k self d) (nth k other d)) (seq 0 n)).
  split; [|split].
  - unfold angle_with_sym. destruct ops; [congruence|]. apply bcast2_1d_same.
  - rewrite map_length, seq_length. reflexivity.
  - intros i Hi. rewrite nth_seq_map by exact Hi. apply sym_min_angle_spec. exact Hne.
Qed.

(* one other vector: every entry is the minimum over the images of that vector *)
Theorem angle_one_other n (self : list E) (w : E) : ops <> [] ->
  exists res, angle_with_sym leb ang act ops d [n] [1] self [w] = Some ([n], res) /\ length res = n /\
    forall i, i < n ->
      is_min leb (nth i res (ang d d)) (map (fun g => ang (nth i self d) (act g w)) ops).
Proof.
  intros Hne. exists (map (fun k => sma (nth k self d) w) (seq 0 n)).
  split; [|split].
  - unfold angle_with_sym. destruct ops; [congruence|]. exact (bcast2_1d_one _ d d n self [w]).
  - rewrite map_length, seq_length. reflexivity.
  - intros i Hi. rewrite nth_seq_map by exact Hi. apply sym_min_angle_spec. exact Hne.
Qed.
End Angle.

(* the selection step used by the correspondence check is miller_unique *)
Lemma miller_unique_select {E K K2 : Type} (cmp : K -> K -> comparison) (cmp2 : K2 -> K2 -> comparison)
      (rnd : E -> E) (iszero : E -> bool) (key : E -> K) (d : E) (okey : E -> K2) (flat : list E) :
  fst (miller_unique cmp cmp2 rnd iszero key d okey true flat)
  = sym_select cmp2 d (fst (fst (obj_unique cmp rnd iszero key d flat)))
               (map okey (fst (fst (obj_unique cmp rnd iszero key d flat)))).
Proof.
  unfold miller_unique, sym_select.
  destruct (obj_unique cmp rnd iszero key d flat) as [[v idx] inv]. cbn [fst snd].
  destruct (np_unique cmp2 (map okey v)) as [[us idx2] inv2]. cbn [fst snd]. reflexivity.
Qed.

Lemma orbit_key_of_eq {T} (O : Scalar.Ops T) (rnd10 : T -> T) (ops : list (Quat.rot (T:=T))) (r : list T) :
  orbit_key O rnd10 ops r
  = orbit_key_of O rnd10 (map (fun g => vec2row (Quat.ract O g (row2vec O r))) ops).
Proof. unfold orbit_key, orbit_key_of. rewrite map_map. reflexivity. Qed.

(* ======================= unique(use_symmetry=True): one vector per orbit *)
Section UniqueOrbits.
Context {G E K : Type} (cmp : K -> K -> comparison) (cmp2 : list E -> list E -> comparison)
        (CO : cmp_order cmp) (CO2 : cmp_order cmp2)
        (rnd : E -> E) (iszero : E -> bool) (key : E -> K) (d : E)
        (mul : G -> G -> G) (inv : G -> G) (e : G) (act : G -> E -> E) (ops : list G)
        (leb : E -> E -> bool).
Hypothesis key_eq : forall x y, keq cmp (key x) (key y) = true <-> x = y.
Hypothesis cmp2_eq : forall x y, cmp2 x y = Eq <-> x = y.
Hypothesis leb_total : forall x y, leb x y = true \/ leb y x = true.
Hypothesis leb_trans : forall x y z, leb x y = true -> leb y z = true -> leb x z = true.
Hypothesis leb_antisym : forall x y, leb x y = true -> leb y x = true -> x = y.
Hypothesis GA : group_action mul inv e act ops.

(* canonical form of an orbit = its sorted list of images (exact arithmetic) *)
Definition okey (x : E) : list E := okey_abs act ops leb x.

Lemma okey_equivalent x y : equivalent act ops x y -> okey x = okey y.
Proof.
  intros [g0 [H0 ->]]. symmetry. unfold okey, okey_abs.
  apply (isort_canonical leb leb_total leb_trans leb_antisym).
  unfold C17UniqueSpec.orbit.
  rewrite (map_ext_in (fun g => act g (act g0 x)) (fun g => act (mul g g0) x))
    by (intros g Hg; symmetry; apply (ga_act_mul _ _ _ _ _ GA); auto).
  rewrite <- (map_map (fun g => mul g g0) (fun h => act h x)).
  apply Permutation_map. apply (right_translation_perm mul inv e act ops GA g0 H0).
Qed.

Lemma okey_sound' x y : okey x = okey y -> equivalent act ops x y.
Proof.
  intros H.
  destruct (okey_sound act ops leb leb_total leb_trans leb_antisym e x y
              (ga_e _ _ _ _ _ GA) (fun z => ga_act_e _ _ _ _ _ GA z) H) as [g [Hg Eg]].
  exists g. auto.
Qed.

Definition base (flat : list E) : list E := fst (fst (obj_unique cmp rnd iszero key d flat)).
Definition out (flat : list E) : list E := fst (miller_unique cmp cmp2 rnd iszero key d okey true flat).

(* no two returned vectors are symmetrically equivalent *)
Theorem unique_sym_distinct flat a b : a < b -> b < length (out flat) ->
  ~ equivalent act ops (nth a (out flat) d) (nth b (out flat) d).
Proof.
  intros Hab Hb Heq.
  pose proof (miller_sym_distinct cmp cmp2 CO2 rnd iszero key d okey flat a b Hab Hb) as D.
  fold (out flat) in D. rewrite (okey_equivalent _ _ Heq) in D.
  rewrite (keq_refl cmp2 CO2) in D. discriminate.
Qed.

(* every vector kept by the plain unique() has an equivalent returned vector,
   and returned vectors are among those *)
Theorem unique_sym_cover flat y : In y (base flat) ->
  exists z, In z (out flat) /\ equivalent act ops z y.
Proof.
  intros Hy. destruct (miller_sym_cover cmp cmp2 CO2 rnd iszero key d okey flat y Hy) as [z [Hz Ez]].
  exists z. split; auto. apply okey_sound'. apply cmp2_eq. apply (keq_true cmp2). exact Ez.
Qed.

Theorem unique_sym_from flat z : In z (out flat) -> In z (base flat).
Proof. apply (miller_sym_from cmp cmp2 CO2 rnd iszero key d okey flat). Qed.

(* in terms of the input: every non-zero input vector (after rounding) is
   represented by exactly one returned vector of its orbit *)
Theorem unique_one_per_orbit flat x : In x flat -> iszero (rnd x) = false ->
  exists z, In z (out flat) /\ equivalent act ops z (rnd x) /\
            forall z', In z' (out flat) -> equivalent act ops z' (rnd x) -> z' = z.
Proof.
  intros Hx Hz.
  destruct (obj_cover cmp CO rnd iszero key d flat x Hx Hz) as [y [Hy Ey]].
  apply key_eq in Ey. subst y.
  destruct (unique_sym_cover flat (rnd x) Hy) as [z [Hzin Hze]].
  exists z. repeat split; auto.
  intros z' Hz' He'.
  destruct (In_nth _ _ d Hzin) as [a [Ha Ea]]. destruct (In_nth _ _ d Hz') as [b [Hb Eb]].
  assert (Heq : equivalent act ops z z').
  { apply (equivalent_trans mul inv e act ops GA z (rnd x) z'); auto.
    apply (equivalent_sym mul inv e act ops GA); auto. }
  destruct (Nat.lt_trichotomy a b) as [L|[L|L]].
  - exfalso. apply (unique_sym_distinct flat a b L Hb). rewrite Ea, Eb. exact Heq.
  - subst b. congruence.
  - exfalso. apply (unique_sym_distinct flat b a L Ha). rewrite Ea, Eb.
    apply (equivalent_sym mul inv e act ops GA); auto.
Qed.
End UniqueOrbits.
