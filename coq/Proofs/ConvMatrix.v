(* C01: om2qu_single (generated) inverts qu2om_single (generated) over R. *)
From Coq Require Import Reals ZArith Lra Nsatz Bool.
From Verif Require Import Scalar RInst QuatKernels Conversions Quat QuatAlg.
Local Open Scope R_scope.

Definition eps9 : R := 1 / 1000000000.

Lemma sqrt_4sq x : sqrt (4 * (x * x)) = 2 * Rabs x.
Proof.
  replace (4 * (x * x)) with (Rsqr (2 * x)) by (unfold Rsqr; ring).
  rewrite sqrt_Rsqr_abs, Rabs_mult, (Rabs_right 2) by lra. reflexivity.
Qed.

(* no component of q lies in the (0, sqrt(eps9)/2) band that om2qu zeroes *)
Definition clear_of_band (x : R) : Prop := 4 * (x * x) < eps9 -> x = 0.

Ltac norm_almost a b c d :=
  repeat match goal with
  | |- context [Rltb ?x (1 / 1000000000)] =>
      lazymatch x with
      | 4 * (_ * _) => fail
      | _ => first [ replace x with (4 * (a * a)) by lra
                   | replace x with (4 * (b * b)) by lra
                   | replace x with (4 * (c * c)) by lra
                   | replace x with (4 * (d * d)) by lra ]
      end
  end.

Lemma om2qu_qu2om_pos a b c d :
  a * a + b * b + c * c + d * d = 1 -> 0 < a ->
  clear_of_band a -> clear_of_band b -> clear_of_band c -> clear_of_band d ->
  om2qu ROps (qu2om ROps (a, b, c, d)) = (a, b, c, d).
Proof.
  intros Hu Ha Ga Gb Gc Gd. unfold clear_of_band, eps9 in *.
  unfold om2qu, qu2om, qu2om_single, om2qu_single. cbv zeta. rsimpl.
  norm_almost a b c d.
  (* first component *)
  assert (C0 : (if Rltb (4 * (a * a)) (1 / 1000000000) then 0
                else 1 / 2 * sqrt (4 * (a * a))) = a).
  { destruct (Rltb (4 * (a * a)) (1 / 1000000000)) eqn:E.
    - apply Rltb_true in E. specialize (Ga E). lra.
    - rewrite sqrt_4sq, Rabs_right by lra. lra. }
  rewrite !C0.
  assert (C1 : (if Rltb (4 * (b * b)) (1 / 1000000000) then 0
                else if Rltb (2 * (c * d + a * b)) (2 * (c * d - a * b))
                     then -1 / 2 * sqrt (4 * (b * b)) else 1 / 2 * sqrt (4 * (b * b))) = b).
  { destruct (Rltb (4 * (b * b)) (1 / 1000000000)) eqn:E.
    - apply Rltb_true in E. symmetry; auto.
    - rewrite sqrt_4sq.
      destruct (Rltb (2 * (c * d + a * b)) (2 * (c * d - a * b))) eqn:S.
      + apply Rltb_true in S. assert (b < 0) by nra. rewrite Rabs_left by lra. lra.
      + apply Rltb_false in S. assert (0 <= b) by nra. rewrite Rabs_right by lra. lra. }
  rewrite !C1.
  assert (C2 : (if Rltb (4 * (c * c)) (1 / 1000000000) then 0
                else if Rltb (2 * (b * d + a * c)) (2 * (b * d - a * c))
                     then -1 / 2 * sqrt (4 * (c * c)) else 1 / 2 * sqrt (4 * (c * c))) = c).
  { destruct (Rltb (4 * (c * c)) (1 / 1000000000)) eqn:E.
    - apply Rltb_true in E. symmetry; auto.
    - rewrite sqrt_4sq.
      destruct (Rltb (2 * (b * d + a * c)) (2 * (b * d - a * c))) eqn:S.
      + apply Rltb_true in S. assert (c < 0) by nra. rewrite Rabs_left by lra. lra.
      + apply Rltb_false in S. assert (0 <= c) by nra. rewrite Rabs_right by lra. lra. }
  rewrite !C2.
  assert (C3 : (if Rltb (4 * (d * d)) (1 / 1000000000) then 0
                else if Rltb (2 * (b * c + a * d)) (2 * (b * c - a * d))
                     then -1 / 2 * sqrt (4 * (d * d)) else 1 / 2 * sqrt (4 * (d * d))) = d).
  { destruct (Rltb (4 * (d * d)) (1 / 1000000000)) eqn:E.
    - apply Rltb_true in E. symmetry; auto.
    - rewrite sqrt_4sq.
      destruct (Rltb (2 * (b * c + a * d)) (2 * (b * c - a * d))) eqn:S.
      + apply Rltb_true in S. assert (d < 0) by nra. rewrite Rabs_left by lra. lra.
      + apply Rltb_false in S. assert (0 <= d) by nra. rewrite Rabs_right by lra. lra. }
  rewrite !C3.
  replace (a * a + b * b + c * c + d * d) with 1 by lra.
  rewrite sqrt_1. tuple_eq; field.
Qed.

(* both hemispheres: the matrix round trip returns q or -q *)
Lemma om2qu_qu2om (q : quat (T:=R)) :
  qnorm2 ROps q = 1 ->
  (let '(a, b, c, d) := q in
   a <> 0 /\ clear_of_band a /\ clear_of_band b /\ clear_of_band c /\ clear_of_band d) ->
  om2qu ROps (qu2om ROps q) = q \/ om2qu ROps (qu2om ROps q) = qneg ROps q.
Proof.
  destruct q as [[[a b] c] d]. intros Hu (Ha & Ga & Gb & Gc & Gd).
  unfold qnorm2 in Hu; cbv [ROps o_add o_mul] in Hu.
  destruct (Rlt_dec 0 a) as [Hp|Hn].
  - left. apply om2qu_qu2om_pos; auto; lra.
  - right. assert (Hneg : 0 < - a) by lra.
    rewrite <- (qu2om_neg (a, b, c, d)). unfold qneg; rsimpl.
    apply om2qu_qu2om_pos; auto; unfold clear_of_band in *; try nra.
Qed.

(* The clause FAILS for exact 180-degree rotations with a mixed-sign axis:
   q = (0, 3/5, -4/5, 0) comes back as (0, 3/5, 4/5, 0). *)
Lemma om2qu_qu2om_pi_refuted :
  exists q : quat (T:=R), qnorm2 ROps q = 1 /\
    om2qu ROps (qu2om ROps q) <> q /\ om2qu ROps (qu2om ROps q) <> qneg ROps q.
Proof.
  exists (0, 3/5, -4/5, 0).
  assert (E : om2qu ROps (qu2om ROps (0, 3/5, -4/5, 0)) = (0, 3/5, 4/5, 0)).
  { unfold om2qu, qu2om, qu2om_single, om2qu_single. cbv zeta. rsimpl.
    repeat match goal with
    | |- context [Rltb ?x ?y] =>
        let b := fresh "b" in
        destruct (Rltb x y) eqn:b;
        [ apply Rltb_true in b; try (exfalso; lra) | apply Rltb_false in b; try (exfalso; lra) ]
    end.
    replace (1 + (0 * 0 - (3 / 5 * (3 / 5) + -4 / 5 * (-4 / 5) + 0 * 0) + 2 * (3 / 5 * (3 / 5))) -
             (0 * 0 - (3 / 5 * (3 / 5) + -4 / 5 * (-4 / 5) + 0 * 0) + 2 * (-4 / 5 * (-4 / 5))) -
             (0 * 0 - (3 / 5 * (3 / 5) + -4 / 5 * (-4 / 5) + 0 * 0) + 2 * (0 * 0)))
      with (4 * (3/5 * (3/5))) by field.
    replace (1 - (0 * 0 - (3 / 5 * (3 / 5) + -4 / 5 * (-4 / 5) + 0 * 0) + 2 * (3 / 5 * (3 / 5))) +
             (0 * 0 - (3 / 5 * (3 / 5) + -4 / 5 * (-4 / 5) + 0 * 0) + 2 * (-4 / 5 * (-4 / 5))) -
             (0 * 0 - (3 / 5 * (3 / 5) + -4 / 5 * (-4 / 5) + 0 * 0) + 2 * (0 * 0)))
      with (4 * (4/5 * (4/5))) by field.
    rewrite !sqrt_4sq, !Rabs_right by lra.
    replace (0 * 0 + 1 / 2 * (2 * (3 / 5)) * (1 / 2 * (2 * (3 / 5))) +
             1 / 2 * (2 * (4 / 5)) * (1 / 2 * (2 * (4 / 5))) + 0 * 0) with 1 by field.
    rewrite sqrt_1. tuple_eq; field. }
  rewrite E. repeat split.
  - unfold qnorm2; rsimpl; field.
  - intros H. injection H; intros; lra.
  - unfold qneg; rsimpl. intros H. injection H; intros; lra.
Qed.
