(* C01: om2qu_single (generated) inverts qu2om_single (generated) over R,
   on both hemispheres and -- after repair 86e5199 -- for rotations by exactly
   180 degrees. *)
From Coq Require Import Reals ZArith Lra Nsatz Bool.
From Verif Require Import Scalar RInst QuatKernels Conversions Quat QuatAlg.
Local Open Scope R_scope.

Definition eps9 : R := 1 / 1000000000.

Lemma sqrt_4sq x : sqrt (4 * (x * x)) = 2 * Rabs x.
Proof.
  replace (4 * (x * x)) with (Rsqr (2 * x)) by (unfold Rsqr; ring).
  rewrite sqrt_Rsqr_abs, Rabs_mult, (Rabs_right 2) by lra. reflexivity.
Qed.

(* no component of q lies in the (0, sqrt(eps9)/2) band that om2qu zeroes *)
Definition clear_of_band (x : R) : Prop := 4 * (x * x) < eps9 -> x = 0.

(* ---- a structured specification that the generated term is CONVERTIBLE to --- *)
Definition c0 (A : R) : R := if Rltb A (1 / 1000000000) then 0 else 1 / 2 * sqrt A.
Definition cs (X s1 s2 : R) : R :=
  if Rltb X (1 / 1000000000) then 0
  else if Rltb s1 s2 then -1 / 2 * sqrt X else 1 / 2 * sqrt X.

Definition om2qu_spec (om00 om01 om02 om10 om11 om12 om20 om21 om22 : R) : quat (T:=R) :=
  let A := 1 + om00 + om11 + om22 in
  let B := 1 + om00 - om11 - om22 in
  let C := 1 - om00 + om11 - om22 in
  let D := 1 - om00 - om11 + om22 in
  let Q0 := c0 A in
  let Q1 := cs B om21 om12 in let Q2 := cs C om02 om20 in let Q3 := cs D om10 om01 in
  let b := Rabs Q1 in let c := Rabs Q2 in let d := Rabs Q3 in
  let q1 := if Rltb A (1 / 1000000000)
            then (if Rleb c b && Rleb d b then b
                  else if Rleb d c then (if Rltb (om01 + om10) 0 then - b else b)
                       else (if Rltb (om02 + om20) 0 then - b else b))
            else Q1 in
  let q2 := if Rltb A (1 / 1000000000)
            then (if Rleb c b && Rleb d b then (if Rltb (om01 + om10) 0 then - c else c)
                  else if Rleb d c then c
                       else (if Rltb (om12 + om21) 0 then - c else c))
            else Q2 in
  let q3 := if Rltb A (1 / 1000000000)
            then (if Rleb c b && Rleb d b then (if Rltb (om02 + om20) 0 then - d else d)
                  else if Rleb d c then (if Rltb (om12 + om21) 0 then - d else d)
                       else d)
            else Q3 in
  let n := sqrt (Q0 * Q0 + q1 * q1 + q2 * q2 + q3 * q3) in
  (Q0 / n, q1 / n, q2 / n, q3 / n).

Lemma om2qu_is_spec om00 om01 om02 om10 om11 om12 om20 om21 om22 :
  om2qu_single ROps om00 om01 om02 om10 om11 om12 om20 om21 om22
  = om2qu_spec om00 om01 om02 om10 om11 om12 om20 om21 om22.
Proof. reflexivity. Qed.

(* ---- the entries of qu2om for a unit quaternion --------------------------- *)
Section Unit.
Variables a b c d : R.
Hypothesis Hu : a * a + b * b + c * c + d * d = 1.
Hypothesis Ga : clear_of_band a.
Hypothesis Gb : clear_of_band b.
Hypothesis Gc : clear_of_band c.
Hypothesis Gd : clear_of_band d.

Let qq := a * a - (b * b + c * c + d * d).
Let m00 := qq + 2 * (b * b). Let m01 := 2 * (b * c - a * d). Let m02 := 2 * (b * d + a * c).
Let m10 := 2 * (b * c + a * d). Let m11 := qq + 2 * (c * c). Let m12 := 2 * (c * d - a * b).
Let m20 := 2 * (b * d - a * c). Let m21 := 2 * (c * d + a * b). Let m22 := qq + 2 * (d * d).

Lemma qu2om_entries : qu2om ROps (a, b, c, d) = ((m00, m01, m02), (m10, m11, m12), (m20, m21, m22)).
Proof. unfold qu2om, qu2om_single. rsimpl. reflexivity. Qed.

Lemma almost_a : 1 + m00 + m11 + m22 = 4 * (a * a). Proof. unfold m00, m11, m22, qq. lra. Qed.
Lemma almost_b : 1 + m00 - m11 - m22 = 4 * (b * b). Proof. unfold m00, m11, m22, qq. lra. Qed.
Lemma almost_c : 1 - m00 + m11 - m22 = 4 * (c * c). Proof. unfold m00, m11, m22, qq. lra. Qed.
Lemma almost_d : 1 - m00 - m11 + m22 = 4 * (d * d). Proof. unfold m00, m11, m22, qq. lra. Qed.

(* signed component for x with "sign tests" equivalent to a*x < 0 *)
Lemma cs_pos x s1 s2 : clear_of_band x -> 0 < a -> (s1 < s2 <-> a * x < 0) -> cs (4 * (x * x)) s1 s2 = x.
Proof.
  intros Gx Ha Hs. unfold cs, clear_of_band, eps9 in *.
  destruct (Rltb (4 * (x * x)) (1 / 1000000000)) eqn:E.
  - apply Rltb_true in E. symmetry; auto.
  - rewrite sqrt_4sq. destruct (Rltb s1 s2) eqn:S.
    + apply Rltb_true in S. apply Hs in S. assert (x < 0) by nra. rewrite Rabs_left by lra. lra.
    + apply Rltb_false in S. assert (0 <= x).
      { destruct (Rle_dec 0 x); [assumption|exfalso]. assert (a * x < 0) by nra. apply Hs in H. lra. }
      rewrite Rabs_right by lra. lra.
Qed.

(* for a = 0 the antisymmetric tests are all false: components are |x| *)
Lemma cs_zero x s : clear_of_band x -> cs (4 * (x * x)) s s = Rabs x.
Proof.
  intros Gx. unfold cs, clear_of_band, eps9 in *.
  destruct (Rltb (4 * (x * x)) (1 / 1000000000)) eqn:E.
  - apply Rltb_true in E. rewrite (Gx E), Rabs_R0. reflexivity.
  - rewrite sqrt_4sq. destruct (Rltb s s) eqn:S; [apply Rltb_true in S; lra|]. lra.
Qed.

(* positive scalar part: exact inverse *)
Lemma om2qu_qu2om_pos : 0 < a -> om2qu ROps (qu2om ROps (a, b, c, d)) = (a, b, c, d).
Proof.
  intros Ha. rewrite qu2om_entries. unfold om2qu. rewrite om2qu_is_spec. unfold om2qu_spec.
  rewrite almost_a, almost_b, almost_c, almost_d.
  assert (EA : Rltb (4 * (a * a)) (1 / 1000000000) = false).
  { apply Rltb_false. unfold clear_of_band, eps9 in Ga.
    destruct (Rle_dec (1 / 1000000000) (4 * (a * a))); [assumption|exfalso].
    assert (a = 0) by (apply Ga; lra). lra. }
  rewrite EA.
  assert (E0 : c0 (4 * (a * a)) = a).
  { unfold c0. rewrite EA, sqrt_4sq, Rabs_right by lra. lra. }
  rewrite E0.
  rewrite (cs_pos b m21 m12 Gb Ha) by (unfold m21, m12; split; intros; nra).
  rewrite (cs_pos c m02 m20 Gc Ha) by (unfold m02, m20; split; intros; nra).
  rewrite (cs_pos d m10 m01 Gd Ha) by (unfold m10, m01; split; intros; nra).
  rewrite Hu, sqrt_1. repeat (apply f_equal2); field.
Qed.
End Unit.

(* relative sign from the symmetric part: for a pivot p <> 0,
   (if 4 p y < 0 then -|y| else |y|) is y when p > 0 and -y when p < 0 *)
Lemma rel_sign p y s : p <> 0 -> s = 4 * (p * y) ->
  (if Rltb s 0 then - Rabs y else Rabs y) = (if Rlt_dec 0 p then y else - y).
Proof.
  intros Hp ->. destruct (Rltb (4 * (p * y)) 0) eqn:E; destruct (Rlt_dec 0 p) as [Hpos|Hneg].
  - apply Rltb_true in E. assert (y < 0) by nra. rewrite Rabs_left by lra. lra.
  - apply Rltb_true in E. assert (0 < y) by nra. rewrite Rabs_right by lra. lra.
  - apply Rltb_false in E. assert (0 <= y) by nra. rewrite Rabs_right by lra. lra.
  - apply Rltb_false in E. assert (y <= 0) by nra. destruct (Req_dec y 0) as [->|]; [rewrite Rabs_R0; lra|].
    rewrite Rabs_left by lra. lra.
Qed.

Lemma Rabs_eq_0 x : Rabs x = 0 -> x = 0.
Proof. intros H. destruct (Req_dec x 0) as [|Hn]; [assumption|]. apply Rabs_no_R0 in Hn. contradiction. Qed.

Lemma pivot_abs p : (if Rlt_dec 0 p then p else - p) = Rabs p.
Proof. destruct (Rlt_dec 0 p); [rewrite Rabs_right; lra|]. destruct (Req_dec p 0) as [->|]; [rewrite Rabs_R0; lra|]. rewrite Rabs_left; lra. Qed.

(* rotation by exactly 180 degrees (a = 0): +-q is recovered *)
Lemma om2qu_qu2om_pi b c d :
  b * b + c * c + d * d = 1 -> clear_of_band b -> clear_of_band c -> clear_of_band d ->
  om2qu ROps (qu2om ROps (0, b, c, d)) = (0, b, c, d) \/
  om2qu ROps (qu2om ROps (0, b, c, d)) = qneg ROps (0, b, c, d).
Proof.
  intros Hu Gb Gc Gd.
  assert (Hu0 : 0 * 0 + b * b + c * c + d * d = 1) by lra.
  rewrite (qu2om_entries 0 b c d). unfold om2qu. rewrite om2qu_is_spec. unfold om2qu_spec.
  rewrite (almost_a 0 b c d Hu0), (almost_b 0 b c d Hu0), (almost_c 0 b c d Hu0), (almost_d 0 b c d Hu0).
  assert (EA : Rltb (4 * (0 * 0)) (1 / 1000000000) = true) by (apply Rltb_true; lra).
  rewrite EA. unfold c0. rewrite EA.
  replace (2 * (c * d + 0 * b)) with (2 * (c * d - 0 * b)) by ring.
  replace (2 * (b * d + 0 * c)) with (2 * (b * d - 0 * c)) by ring.
  replace (2 * (b * c + 0 * d)) with (2 * (b * c - 0 * d)) by ring.
  rewrite (cs_zero b _ Gb), (cs_zero c _ Gc), (cs_zero d _ Gd), !Rabs_Rabsolu.
  set (s01 := 2 * (b * c - 0 * d) + 2 * (b * c - 0 * d)).
  set (s02 := 2 * (b * d - 0 * c) + 2 * (b * d - 0 * c)).
  set (s12 := 2 * (c * d - 0 * b) + 2 * (c * d - 0 * b)).
  assert (N1 : forall x y z : R, x * x + y * y + z * z = 1 ->
                0 * 0 + x * x + y * y + z * z = 1) by (intros; lra).
  unfold qneg; rsimpl.
  destruct (Rleb (Rabs c) (Rabs b) && Rleb (Rabs d) (Rabs b)) eqn:E1.
  - (* b is the pivot *)
    apply andb_prop in E1. destruct E1 as [E1 E2]. apply Rleb_true in E1, E2.
    assert (Hb : b <> 0).
    { intros ->. rewrite Rabs_R0 in E1, E2. pose proof (Rabs_pos c). pose proof (Rabs_pos d).
      assert (Rabs c = 0) by lra. assert (Rabs d = 0) by lra.
      apply Rabs_eq_0 in H1. apply Rabs_eq_0 in H2. subst. lra. }
    rewrite (rel_sign b c s01 Hb) by (unfold s01; ring).
    rewrite (rel_sign b d s02 Hb) by (unfold s02; ring).
    rewrite <- (pivot_abs b).
    destruct (Rlt_dec 0 b); [left|right];
      (replace (0 * 0 + _ + _ + _) with 1 by lra); rewrite sqrt_1; repeat (apply f_equal2); field.
  - destruct (Rleb (Rabs d) (Rabs c)) eqn:E2.
    + (* c is the pivot *)
      apply Rleb_true in E2.
      assert (Hc : c <> 0).
      { intros ->. rewrite Rabs_R0 in E2. pose proof (Rabs_pos d). assert (Rabs d = 0) by lra.
        apply Rabs_eq_0 in H0. subst.
        apply andb_false_iff in E1. rewrite Rabs_R0 in E1. destruct E1 as [E1|E1]; apply Rleb_false in E1;
          pose proof (Rabs_pos b); lra. }
      rewrite (rel_sign c b s01 Hc) by (unfold s01; ring).
      rewrite (rel_sign c d s12 Hc) by (unfold s12; ring).
      rewrite <- (pivot_abs c).
      destruct (Rlt_dec 0 c); [left|right];
        (replace (0 * 0 + _ + _ + _) with 1 by lra); rewrite sqrt_1; repeat (apply f_equal2); field.
    + (* d is the pivot *)
      apply Rleb_false in E2.
      assert (Hd : d <> 0) by (intros ->; rewrite Rabs_R0 in E2; pose proof (Rabs_pos c); lra).
      rewrite (rel_sign d b s02 Hd) by (unfold s02; ring).
      rewrite (rel_sign d c s12 Hd) by (unfold s12; ring).
      rewrite <- (pivot_abs d).
      destruct (Rlt_dec 0 d); [left|right];
        (replace (0 * 0 + _ + _ + _) with 1 by lra); rewrite sqrt_1; repeat (apply f_equal2); field.
Qed.

(* FULL: every unit quaternion with no component in the zeroed band is
   recovered up to sign -- both hemispheres and 180 degree rotations *)
Lemma om2qu_qu2om (q : quat (T:=R)) :
  qnorm2 ROps q = 1 ->
  (let '(a, b, c, d) := q in
   clear_of_band a /\ clear_of_band b /\ clear_of_band c /\ clear_of_band d) ->
  om2qu ROps (qu2om ROps q) = q \/ om2qu ROps (qu2om ROps q) = qneg ROps q.
Proof.
  destruct q as [[[a b] c] d]. intros Hu (Ga & Gb & Gc & Gd).
  unfold qnorm2 in Hu; cbv [ROps o_add o_mul] in Hu.
  destruct (Rlt_dec 0 a) as [Hp|Hn].
  - left. apply om2qu_qu2om_pos; auto.
  - destruct (Req_dec a 0) as [->|Hne].
    + apply om2qu_qu2om_pi; auto. lra.
    + right. assert (Hneg : 0 < - a) by lra.
      rewrite <- (qu2om_neg (a, b, c, d)). unfold qneg; rsimpl.
      apply om2qu_qu2om_pos; auto; unfold clear_of_band in *; try nra.
Qed.
