(* The reduction for ALL ordered pairs of the 38 named point groups for which a region is defined (1300 pairs,
   improper groups included): the value the loop returns lies inside the region that get_proper_groups selects,
   is gl * M * gr for a pair of two proper or two improper operations, and has the smallest rotation angle among
   all such pairs. *)
From Coq Require Import Reals ZArith QArith List String Bool Lra.
From Verif Require Import Scalar RInst KField KtoR KSign Quat QuatAlg GroupK Groups ProperGroups SymDot SymDotR SymDotK
  ZoneModel ZoneProofs CertCheck CertSound CoverCheck CoverSound ExistCheck ExistSound ExistInst
  RegionCertsAll RegionCertsAllOK RegionExistAllOK AllPairsCheck.
Import ListNotations.
Local Open Scope R_scope.

Lemma all_pairs_ok_true : forallb (fun g1 => forallb (fun g2 => pair_ok g1 g2) groups) groups = true.
Proof. vm_compute. reflexivity. Qed.

Lemma forallb_In' {X} (f : X -> bool) l : forallb f l = true -> forall x, In x l -> f x = true.
Proof. intros H x Hx. rewrite forallb_forall in H. exact (H x Hx). Qed.

Lemma n_pairs_with_region_is : n_pairs_with_region = 1300%nat.
Proof. vm_compute. reflexivity. Qed.

Definition pairR (ab : kquat * kquat) : Rq * Rq := (qtoR (fst ab), qtoR (snd ab)).

Lemma find_rc_in n1 n2 rc : find_rc n1 n2 = Some rc ->
  In rc (List.concat all_region_certs) /\ rc_l rc = n1 /\ rc_r rc = n2.
Proof.
  unfold find_rc. intros H. apply find_some in H. destruct H as [Hin Hb].
  apply andb_prop in Hb. destruct Hb as [H1 H2]. apply String.eqb_eq in H1, H2. auto.
Qed.

(* minimality from "inside": if r = +- a0 * M * b0 lies inside the region, no member of the orbit of M has a
   larger |Re| *)
Lemma minimal_of_inside (rc : region_cert) : In rc (List.concat all_region_certs) ->
  forall (r M a0 b0 : Rq),
  In a0 (map qtoR (pquats (rc_l rc))) -> In b0 (map qtoR (pquats (rc_r rc))) ->
  pm_eq r (transform ROps a0 b0 M) ->
  inside_region ROps 0 (map qtoR (rc_N rc)) r = true ->
  forall gl gr, In gl (map qtoR (pquats (rc_l rc))) -> In gr (map qtoR (pquats (rc_r rc))) ->
    Rabs (qre (transform ROps gl gr M)) <= Rabs (qre r).
Proof.
  intros Hrc r M a b Ha Hb Er Hin gl gr Hgl Hgr.
  destruct (rc_names_listed rc Hrc) as [Pl Pr].
  destruct (pgroup_ok_facts _ Pl) as [cA [uA nA]]. destruct (pgroup_ok_facts _ Pr) as [cB [uB nB]].
  pose proof (pgroup_ok_inv _ Pl) as iA. pose proof (pgroup_ok_inv _ Pr) as iB.
  assert (Ua : qnorm2 ROps a = 1) by (apply (qunit_sound _ uA); exact Ha).
  assert (Ub : qnorm2 ROps b = 1) by (apply (qunit_sound _ uB); exact Hb).
  set (y := transform ROps a b M) in *.
  assert (E : transform ROps gl gr M =
              transform ROps (qmul ROps gl (qconj ROps a)) (qmul ROps (qconj ROps b) gr) y).
  { unfold y, transform. rewrite !qmul_assoc.
    rewrite <- (qmul_assoc b (qconj ROps b) gr), (qmul_conj_unit b Ub), qmul_one_l.
    rewrite <- (qmul_assoc (qconj ROps a) a), (qmul_conj_l a), Ua.
    replace (qscale ROps 1 (qone ROps)) with (qone ROps) by (unfold qscale, qone; rsimpl; tuple_eq; ring).
    rewrite qmul_one_l. reflexivity. }
  destruct (qinv_closed_pm_sound _ iA a Ha) as [a1 [Ha1 Ea1]].
  destruct (qinv_closed_pm_sound _ iB b Hb) as [b1 [Hb1 Eb1]].
  destruct (qclosed_pm_sound _ cA gl a1 Hgl Ha1) as [a2 [Ha2 Ea2]].
  destruct (qclosed_pm_sound _ cB b1 gr Hb1 Hgr) as [b2 [Hb2 Eb2]].
  assert (Epm : pm_eq (transform ROps gl gr M) (transform ROps a2 b2 r)).
  { rewrite E. unfold transform, pm_eq in *.
    destruct Er as [->| ->];
    destruct Ea1 as [->| ->], Eb1 as [->| ->]; rewrite ?qmul_neg_l, ?qmul_neg_r;
      destruct Ea2 as [->| ->], Eb2 as [->| ->];
      rewrite ?qmul_neg_l, ?qmul_neg_r, ?qmul_neg_l, ?qmul_neg_r, ?qneg_invol; auto. }
  rewrite (pm_abs_re _ _ Epm).
  rewrite !pquats_is_proper_quats in *.
  exact (inside_region_is_minimal_in_orbit rc Hrc r Hin a2 b2 Ha2 Hb2).
Qed.

Lemma kq_pm_mem_R q L : kq_pm_mem q L = true -> exists p, In p L /\ pm_eq (qtoR q) (qtoR p).
Proof.
  unfold kq_pm_mem. intros H. apply existsb_exists in H. destruct H as [p [Hp He]].
  exists p. split; [exact Hp|apply kq_pm_eqb_sound; exact He].
Qed.

Lemma transform_pm (a a' b b' M : Rq) : pm_eq a a' -> pm_eq b b' -> pm_eq (transform ROps a b M) (transform ROps a' b' M).
Proof.
  unfold pm_eq, transform. intros [->| ->] [->| ->]; rewrite ?qmul_neg_l, ?qmul_neg_r, ?qmul_neg_l, ?qneg_invol; auto.
Qed.

Lemma pm_eq_sym (p q : Rq) : pm_eq p q -> pm_eq q p.
Proof. unfold pm_eq. intros [->| ->]; rewrite ?qneg_invol; auto. Qed.

Lemma in_code_pairs_l (G1 G2 : list krot) a b :
  In a (kproper G1) -> In b (kproper G2) -> In (a, b) (code_pairs G1 G2).
Proof. intros Ha Hb. unfold code_pairs. apply in_or_app. left. apply in_prod; assumption. Qed.
Lemma in_code_pairs_r (G1 G2 : list krot) a b :
  In a (kimproper G1) -> In b (kimproper G2) -> In (a, b) (code_pairs G1 G2).
Proof. intros Ha Hb. unfold code_pairs. apply in_or_app. right. apply in_prod; assumption. Qed.

Theorem all_pairs_reduce (g1 g2 : gobs) (n1 n2 : string) (rc : region_cert) :
  gpg_names g1 g2 = Some (n1, n2) -> find_rc n1 n2 = Some rc ->
  pairs_equiv (g_elems g1) (g_elems g2) (pquats n1) (pquats n2) = true ->
  forall M : Rq,
  let pairs := map pairR (code_pairs (g_elems g1) (g_elems g2)) in
  let N := map qtoR (rc_N rc) in
  let r := reduce_loop ROps 0 N pairs M (qone ROps) in
  inside_region ROps 0 N r = true /\
  (exists ab, In ab pairs /\ r = transform ROps (fst ab) (snd ab) M) /\
  (forall ab, In ab pairs -> Rabs (qre (transform ROps (fst ab) (snd ab) M)) <= Rabs (qre r)).
Proof.
  intros _ Hf He M pairs N r. destruct (find_rc_in _ _ _ Hf) as [Hrc [E1 E2]]. subst n1 n2.
  unfold pairs_equiv in He. apply andb_prop in He. destruct He as [Hd1 Hd2].
  (* a member inside the region exists among the code's pairs *)
  destruct (region_has_orbit_member rc Hrc M) as [a' [b' [Ha' [Hb' Hi]]]].
  rewrite <- !pquats_is_proper_quats in Ha', Hb'.
  apply in_map_iff in Ha', Hb'. destruct Ha' as [ka [<- Hka]], Hb' as [kb [<- Hkb]].
  rewrite forallb_forall in Hd2. specialize (Hd2 ka Hka). rewrite forallb_forall in Hd2. specialize (Hd2 kb Hkb).
  assert (Hex : exists ab, In ab (code_pairs (g_elems g1) (g_elems g2)) /\
                           pm_eq (qtoR ka) (qtoR (fst ab)) /\ pm_eq (qtoR kb) (qtoR (snd ab))).
  { apply orb_prop in Hd2. destruct Hd2 as [H|H]; apply andb_prop in H; destruct H as [H1 H2];
      apply kq_pm_mem_R in H1, H2; destruct H1 as [p1 [Hp1 Q1]], H2 as [p2 [Hp2 Q2]]; exists (p1, p2); cbn [fst snd];
      (split; [|split; assumption]); [apply in_code_pairs_l|apply in_code_pairs_r]; assumption. }
  destruct Hex as [[c1 c2] [Hc [Q1 Q2]]]. cbn [fst snd] in Q1, Q2.
  assert (Hp0 : In (qtoR c1, qtoR c2) pairs).
  { unfold pairs. apply in_map_iff. exists (c1, c2). split; [reflexivity|exact Hc]. }
  assert (Hi0 : inside_region ROps 0 N (transform ROps (qtoR c1) (qtoR c2) M) = true).
  { pose proof (transform_pm _ _ _ _ M Q1 Q2) as Epm. unfold N.
    destruct Epm as [E|E]; [rewrite <- E; exact Hi|].
    rewrite <- (inside_region_neg (map qtoR (rc_N rc)) (transform ROps (qtoR c1) (qtoR c2) M)), <- E. exact Hi. }
  assert (Hin : inside_region ROps 0 N r = true).
  { unfold r. apply reduce_loop_inside. exists (qtoR c1), (qtoR c2). split; [exact Hp0|exact Hi0]. }
  assert (Horb : exists ab, In ab pairs /\ r = transform ROps (fst ab) (snd ab) M).
  { unfold r. destruct (reduce_loop_in_orbit 0 N pairs M (qone ROps)) as [[_ Hnil]|[gl [gr [Hp Hr]]]].
    - exfalso. rewrite Hnil in Hp0. destruct Hp0.
    - exists (gl, gr). split; [exact Hp|exact Hr]. }
  split; [exact Hin|split; [exact Horb|]].
  (* minimality *)
  assert (Hmem : forall ab, In ab pairs -> exists a b, In a (map qtoR (pquats (rc_l rc))) /\ In b (map qtoR (pquats (rc_r rc))) /\
                            pm_eq (fst ab) a /\ pm_eq (snd ab) b).
  { intros ab Hab. unfold pairs in Hab. apply in_map_iff in Hab. destruct Hab as [[k1 k2] [<- Hk]].
    rewrite forallb_forall in Hd1. specialize (Hd1 _ Hk). cbn [fst snd] in Hd1. apply andb_prop in Hd1. destruct Hd1 as [M1 M2].
    apply kq_pm_mem_R in M1, M2. destruct M1 as [p1 [Hp1 R1]], M2 as [p2 [Hp2 R2]].
    exists (qtoR p1), (qtoR p2). unfold pairR; cbn [fst snd].
    split; [apply in_map; exact Hp1|split; [apply in_map; exact Hp2|split; assumption]]. }
  intros ab Hab. destruct Horb as [ab0 [Hab0 Er]].
  destruct (Hmem ab0 Hab0) as [a0 [b0 [Ha0 [Hb0 [P1 P2]]]]].
  destruct (Hmem ab Hab) as [a [b [Ha [Hb [S1 S2]]]]].
  assert (Er' : pm_eq r (transform ROps a0 b0 M)) by (rewrite Er; apply transform_pm; assumption).
  rewrite (pm_abs_re _ _ (transform_pm _ _ _ _ M S1 S2)).
  exact (minimal_of_inside rc Hrc r M a0 b0 Ha0 Hb0 Er' Hin a b Ha Hb).
Qed.

Lemma pair_ok_inv (g1 g2 : gobs) n1 n2 : pair_ok g1 g2 = true -> gpg_names g1 g2 = Some (n1, n2) ->
  exists rc, find_rc n1 n2 = Some rc /\ pairs_equiv (g_elems g1) (g_elems g2) (pquats n1) (pquats n2) = true.
Proof.
  unfold pair_ok. intros H Hn. rewrite Hn in H.
  destruct (find_rc n1 n2) as [rc|]; [exists rc; split; [reflexivity|exact H]|discriminate].
Qed.

Lemma all_pairs_ok_each (g1 g2 : gobs) : In g1 groups -> In g2 groups -> pair_ok g1 g2 = true.
Proof.
  intros H1 H2.
  exact (forallb_In' _ _ (forallb_In' (fun g1 => forallb (fun g2 => pair_ok g1 g2) groups) groups all_pairs_ok_true g1 H1) g2 H2).
Qed.

(* for every ordered pair of named groups with a region: the certificate pair exists and the statement holds *)
Theorem all_group_pairs (g1 g2 : gobs) : In g1 groups -> In g2 groups ->
  forall n1 n2, gpg_names g1 g2 = Some (n1, n2) ->
  exists rc, find_rc n1 n2 = Some rc /\
  forall M : Rq,
  let pairs := map pairR (code_pairs (g_elems g1) (g_elems g2)) in
  let N := map qtoR (rc_N rc) in
  let r := reduce_loop ROps 0 N pairs M (qone ROps) in
  inside_region ROps 0 N r = true /\
  (exists ab, In ab pairs /\ r = transform ROps (fst ab) (snd ab) M) /\
  (forall ab, In ab pairs -> Rabs (qre (transform ROps (fst ab) (snd ab) M)) <= Rabs (qre r)).
Proof.
  intros H1 H2 n1 n2 Hn.
  destruct (pair_ok_inv g1 g2 n1 n2 (all_pairs_ok_each g1 g2 H1 H2) Hn) as [rc [Ef He]].
  exists rc. split; [exact Ef|]. exact (all_pairs_reduce g1 g2 n1 n2 rc Hn Ef He).
Qed.
