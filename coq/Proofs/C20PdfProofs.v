(* C20 -- proofs about the pole-density model (Model/C20Pdf.v) on the reals:
   weight conservation and non-negativity of the histogram, of the folding and
   of the wrap/reflect smoothing; MRD normalisation; symmetry invariance. *)
From Coq Require Import Reals Lra Lia List Bool ZArith Psatz.
From Verif Require Import Scalar RInst.
From Verif.Gen Require Import C20Stereo.
From Verif.Model Require Import C20Proj C20Pdf.
From Verif.Proofs Require Import C20Atan2 C20ProjProofs.
Import ListNotations.
Local Open Scope R_scope.

Notation sumR := (sumT ROps).
Notation sum2R := (sum2 ROps).

(* ------------------------------------------------------------ sums *)
Lemma sumR_nil : sumR [] = 0.
Proof. reflexivity. Qed.
Lemma sumR_cons x l : sumR (x :: l) = x + sumR l.
Proof. reflexivity. Qed.

Lemma sumR_app l1 l2 : sumR (l1 ++ l2) = sumR l1 + sumR l2.
Proof. induction l1 as [| x l IH]; simpl app; rewrite ?sumR_cons, ?sumR_nil; [ring | rewrite IH; ring]. Qed.

Lemma sumR_map_add {A} (f g : A -> R) l :
  sumR (map (fun k => f k + g k) l) = sumR (map f l) + sumR (map g l).
Proof. induction l as [| a l IH]; simpl map; rewrite ?sumR_cons, ?sumR_nil; [ring | rewrite IH; ring]. Qed.

Lemma sumR_map_scale {A} c (f : A -> R) l :
  sumR (map (fun k => c * f k) l) = c * sumR (map f l).
Proof. induction l as [| a l IH]; simpl map; rewrite ?sumR_cons, ?sumR_nil; [ring | rewrite IH; ring]. Qed.

Lemma sumR_map_ext {A} (f g : A -> R) l :
  (forall a, In a l -> f a = g a) -> sumR (map f l) = sumR (map g l).
Proof. intros H. f_equal. apply map_ext_in. exact H. Qed.

Lemma sumR_repeat0 n : sumR (repeat 0 n) = 0.
Proof. induction n; cbn [repeat]; rewrite ?sumR_cons, ?sumR_nil; lra. Qed.

Lemma sumR_nonneg l : Forall (fun x => 0 <= x) l -> 0 <= sumR l.
Proof. induction 1; rewrite ?sumR_cons, ?sumR_nil; lra. Qed.

Lemma sum2R_cons r m : sum2R (r :: m) = sumR r + sum2R m.
Proof. reflexivity. Qed.

Lemma sum2R_concat m : sumR (concat m) = sum2R m.
Proof.
  induction m as [| r m IH]; [reflexivity |].
  simpl concat. rewrite sumR_app, IH. reflexivity.
Qed.

(* swapping a double sum *)
Lemma sumR_map_zero {B} (lb : list B) : sumR (map (fun _ => 0) lb) = 0.
Proof. induction lb as [| b lb IH]; simpl map; rewrite ?sumR_cons, ?sumR_nil; lra. Qed.

Lemma sumR_swap {A B} (f : A -> B -> R) la lb :
  sumR (map (fun a => sumR (map (fun b => f a b) lb)) la)
  = sumR (map (fun b => sumR (map (fun a => f a b) la)) lb).
Proof.
  induction la as [| a la IH].
  - cbn [map]. rewrite sumR_map_zero. reflexivity.
  - cbn [map]. rewrite sumR_cons, IH.
    rewrite <- sumR_map_add. apply sumR_map_ext. intros b _. rewrite sumR_cons. reflexivity.
Qed.

(* sum of a list through its indices *)
Lemma sumR_nth_seq l : sumR (map (fun i => nth i l 0) (seq 0 (length l))) = sumR l.
Proof.
  induction l as [| x l IH]; [reflexivity |].
  simpl length. simpl seq. simpl map. rewrite !sumR_cons. f_equal.
  rewrite <- seq_shift, map_map. exact IH.
Qed.

(* -------------------------------------------------- updates and shapes *)
Definition rect (nr nc : nat) (m : list (list R)) : Prop :=
  length m = nr /\ Forall (fun r => length r = nc) m.
Definition nonneg2 (m : list (list R)) : Prop := Forall (Forall (fun x => 0 <= x)) m.

Lemma upd_length {A} (f : A -> A) i l : length (upd f i l) = length l.
Proof. revert i; induction l as [| x l IH]; intros [| i]; simpl; auto. Qed.

Lemma upd_sum w j row : (j < length row)%nat ->
  sumR (upd (fun x => o_add ROps x w) j row) = sumR row + w.
Proof.
  revert j; induction row as [| x row IH]; intros j H; simpl in H; [lia |].
  destruct j as [| j]; cbn [upd]; rewrite !sumR_cons.
  - rsimpl. ring.
  - rewrite IH by lia. ring.
Qed.

Lemma upd_nonneg w j row : 0 <= w -> Forall (fun x => 0 <= x) row ->
  Forall (fun x => 0 <= x) (upd (fun x => o_add ROps x w) j row).
Proof.
  intros Hw H. revert j; induction H as [| x row Hx H IH]; intros [| j]; simpl; constructor; auto.
  rsimpl. lra.
Qed.

Lemma add_at_rect nr nc i j w m : rect nr nc m -> rect nr nc (add_at ROps i j w m).
Proof.
  unfold rect, add_at. intros [H1 H2]. split; [rewrite upd_length; exact H1 |].
  clear H1. revert i; induction H2 as [| r m Hr H IH]; intros [| i]; simpl; constructor; auto.
  rewrite upd_length. exact Hr.
Qed.

Lemma add_at_sum nr nc i j w m : rect nr nc m -> (i < nr)%nat -> (j < nc)%nat ->
  sum2R (add_at ROps i j w m) = sum2R m + w.
Proof.
  unfold rect, add_at. intros [H1 H2]. revert i nr H1; induction H2 as [| r m Hr H IH]; intros i nr H1 Hi Hj.
  - simpl in H1. lia.
  - simpl in H1. destruct i as [| i]; cbn [upd]; rewrite !sum2R_cons.
    + rewrite upd_sum by lia. ring.
    + rewrite (IH i (pred nr)) by lia. ring.
Qed.

Lemma add_at_nonneg i j w m : 0 <= w -> nonneg2 m -> nonneg2 (add_at ROps i j w m).
Proof.
  unfold nonneg2, add_at. intros Hw H. revert i; induction H as [| r m Hr H IH]; intros [| i]; simpl; constructor; auto.
  apply upd_nonneg; assumption.
Qed.

Lemma zeros_rect nr nc : rect nr nc (zeros ROps nr nc).
Proof.
  unfold rect, zeros. split; [apply repeat_length |].
  apply Forall_forall. intros r H. apply repeat_spec in H. subst r. apply repeat_length.
Qed.

Lemma zeros_sum nr nc : sum2R (zeros ROps nr nc) = 0.
Proof.
  unfold zeros. induction nr; [reflexivity |]. cbn [repeat]. rewrite sum2R_cons, IHnr.
  change (zero ROps) with 0. rewrite sumR_repeat0. ring.
Qed.

Lemma zeros_nonneg nr nc : nonneg2 (zeros ROps nr nc).
Proof.
  unfold nonneg2, zeros. apply Forall_forall. intros r H. apply repeat_spec in H. subst r.
  apply Forall_forall. intros x H. apply repeat_spec in H. subst x. cbv beta. unfold zero. rsimpl. apply Rle_refl.
Qed.

(* ------------------------------------------------------------ histogram *)
Lemma count_le_length edges x : (count_le ROps edges x <= length edges)%nat.
Proof. induction edges as [| e r IH]; cbn [count_le length]; [lia |]. destruct (o_leb ROps e x); lia. Qed.

Lemma bin_of_lt edges x i : (2 <= length edges)%nat ->
  bin_of ROps edges x = Some i -> (i < pred (length edges))%nat.
Proof.
  unfold bin_of. intros Hl. destruct (count_le ROps edges x) as [| c]; [discriminate |].
  destruct (Nat.ltb c (pred (length edges))) eqn:E.
  - intros H; inversion H; subst. apply Nat.ltb_lt in E. exact E.
  - destruct (o_eqb ROps x (last edges (zero ROps))); [| discriminate].
    intros H; inversion H; subst. lia.
Qed.

Definition weight_in (ea ep : list R) (s : sample (T:=R)) : R :=
  match cell ROps ea ep s with Some _ => snd s | None => 0 end.

(* Sum of all bins = sum of the weights of the samples that fall in the grid *)
Lemma hist_fold_total ea ep ss m :
  (2 <= length ea)%nat -> (2 <= length ep)%nat ->
  rect (pred (length ea)) (pred (length ep)) m ->
  rect (pred (length ea)) (pred (length ep)) (fold_left (hist_step ROps ea ep) ss m) /\
  sum2R (fold_left (hist_step ROps ea ep) ss m) = sum2R m + sumR (map (weight_in ea ep) ss).
Proof.
  intros Ha Hp. revert m; induction ss as [| s ss IH]; intros m Hm.
  - cbn [fold_left map]. rewrite sumR_nil. split; [exact Hm | ring].
  - cbn [fold_left map]. rewrite sumR_cons.
    unfold hist_step at 2 4, weight_in at 1.
    destruct (cell ROps ea ep s) as [[i j] |] eqn:E.
    + assert (Hij : (i < pred (length ea))%nat /\ (j < pred (length ep))%nat).
      { unfold cell in E. destruct (fst s) as [[a p] |]; [| discriminate].
        destruct (bin_of ROps ea a) eqn:E1; [| discriminate].
        destruct (bin_of ROps ep p) eqn:E2; [| discriminate].
        inversion E; subst. split; eapply bin_of_lt; eauto. }
      destruct (IH _ (add_at_rect _ _ i j (snd s) m Hm)) as [H1 H2].
      split; [exact H1 |]. rewrite H2, (add_at_sum _ _ i j (snd s) m Hm) by tauto. ring.
    + destruct (IH m Hm) as [H1 H2]. split; [exact H1 |]. rewrite H2. ring.
Qed.

Lemma hist_total ea ep ss : (2 <= length ea)%nat -> (2 <= length ep)%nat ->
  rect (pred (length ea)) (pred (length ep)) (hist2d ROps ea ep ss) /\
  sum2R (hist2d ROps ea ep ss) = sumR (map (weight_in ea ep) ss).
Proof.
  intros Ha Hp. unfold hist2d.
  destruct (hist_fold_total ea ep ss _ Ha Hp (zeros_rect _ _)) as [H1 H2].
  split; [exact H1 |]. rewrite H2, zeros_sum. ring.
Qed.

Lemma hist_nonneg ea ep ss : Forall (fun s => 0 <= snd s) ss -> nonneg2 (hist2d ROps ea ep ss).
Proof.
  unfold hist2d. generalize (zeros_nonneg (pred (length ea)) (pred (length ep))).
  generalize (zeros ROps (pred (length ea)) (pred (length ep))).
  induction ss as [| s ss IH]; intros m Hm Hw; [exact Hm |].
  simpl fold_left. inversion Hw; subst. apply IH; [| assumption].
  unfold hist_step. destruct (cell ROps ea ep s) as [[i j] |]; [| exact Hm].
  apply add_at_nonneg; assumption.
Qed.

(* ---- which values fall in the grid: sorted edges, first <= x <= last ---- *)
Fixpoint incr (l : list R) : Prop :=
  match l with
  | a :: ((b :: _) as r) => a < b /\ incr r
  | _ => True
  end.

Lemma incr_head_le_last a l : incr (a :: l) -> a <= last (a :: l) 0.
Proof.
  revert a; induction l as [| b l IH]; intros a H; [simpl; lra |].
  destruct H as [H1 H2]. specialize (IH b H2).
  change (last (a :: b :: l) 0) with (last (b :: l) 0). lra.
Qed.

Lemma count_le_all a l x : incr (a :: l) ->
  (count_le ROps (a :: l) x = length (a :: l) <-> last (a :: l) 0 <= x).
Proof.
  revert a; induction l as [| b l IH]; intros a H.
  - simpl. rsimpl. destruct (Rleb a x) eqn:E.
    + apply Rleb_true in E. split; intros; [lra | reflexivity].
    + apply Rleb_false in E. split; intros; [discriminate | lra].
  - destruct H as [H1 H2]. specialize (IH b H2).
    change (last (a :: b :: l) 0) with (last (b :: l) 0).
    pose proof (incr_head_le_last b l H2) as Hl.
    change (count_le ROps (a :: b :: l) x) with
      (if o_leb ROps a x then S (count_le ROps (b :: l) x) else 0%nat).
    rsimpl. destruct (Rleb a x) eqn:E.
    + apply Rleb_true in E. simpl length in *. split; intros H.
      * apply IH. lia.
      * f_equal. apply IH. exact H.
    + apply Rleb_false in E. split; intros H; [simpl in H; discriminate |].
      change (last (b :: l) 0) with (last (b :: l) 0) in H. lra.
Qed.

(* a value is binned iff it lies between the first and the last edge *)
Lemma bin_of_some a l x : incr (a :: l) -> (1 <= length l)%nat ->
  (bin_of ROps (a :: l) x <> None <-> a <= x <= last (a :: l) 0).
Proof.
  intros Hi Hl. pose proof (count_le_all a l x Hi) as Hall.
  pose proof (count_le_length (a :: l) x) as Hle.
  unfold bin_of.
  change (zero ROps) with 0.
  destruct (count_le ROps (a :: l) x) as [| c] eqn:Ec.
  - split; [intros H; contradiction |]. intros [H _].
    simpl in Ec. rsimpl. destruct (Rleb a x) eqn:E; [discriminate |]. apply Rleb_false in E. lra.
  - assert (Hax : a <= x).
    { simpl in Ec. rsimpl. destruct (Rleb a x) eqn:E; [apply Rleb_true in E; exact E | discriminate]. }
    simpl length in *. simpl pred.
    destruct (Nat.ltb c (length l)) eqn:E.
    + apply Nat.ltb_lt in E. split; [| intros _; discriminate]. intros _. split; [exact Hax |].
      destruct (Rle_dec x (last (a :: l) 0)) as [Hx | Hx]; [exact Hx |].
      assert (S c = S (length l)) by (apply Hall; lra). lia.
    + apply Nat.ltb_ge in E. assert (Hc : S c = S (length l)) by lia.
      apply Hall in Hc. rsimpl. unfold Reqb.
      destruct (Req_EM_T x (last (a :: l) 0)) as [Ex | Ex].
      * split; [| intros _; discriminate]. intros _. lra.
      * split; [intros H; contradiction H; reflexivity |]. intros [_ H]. lra.
Qed.

(* ------------------------------------------------------------- folding *)
Lemma fold_at_total nr nc idx vals :
  length idx = length vals ->
  Forall (fun ij => (fst ij < nr)%nat /\ (snd ij < nc)%nat) idx ->
  rect nr nc (fold_at ROps nr nc idx vals) /\ sum2R (fold_at ROps nr nc idx vals) = sumR vals.
Proof.
  unfold fold_at. intros Hl Hin.
  assert (G : forall m, rect nr nc m ->
     rect nr nc (fold_left (fold_step ROps) (combine idx vals) m) /\
     sum2R (fold_left (fold_step ROps) (combine idx vals) m) = sum2R m + sumR vals).
  { revert vals Hl. induction Hin as [| [i j] idx Hij Hin IH]; intros vals Hl m Hm.
    - destruct vals; [| discriminate]. cbn [combine fold_left]. rewrite sumR_nil. split; [exact Hm | ring].
    - destruct vals as [| v vals]; [discriminate |]. cbn [combine fold_left].
      unfold fold_step at 2 4. cbn [fst snd]. cbn [fst snd] in Hij.
      destruct (IH vals ltac:(simpl in Hl; lia) _ (add_at_rect _ _ i j v m Hm)) as [H1 H2].
      split; [exact H1 |]. rewrite H2, (add_at_sum _ _ i j v m Hm) by tauto.
      rewrite sumR_cons. ring. }
  destruct (G _ (zeros_rect nr nc)) as [H1 H2]. split; [exact H1 |]. rewrite H2, zeros_sum. ring.
Qed.

Lemma fold_at_nonneg nr nc idx vals : Forall (fun x => 0 <= x) vals ->
  nonneg2 (fold_at ROps nr nc idx vals).
Proof.
  unfold fold_at. generalize (zeros_nonneg nr nc). generalize (zeros ROps nr nc).
  revert vals. induction idx as [| [i j] idx IH]; intros vals m Hm Hv; [exact Hm |].
  destruct vals as [| v vals]; [exact Hm |]. inversion Hv; subst.
  simpl combine. simpl fold_left. apply IH; [| assumption].
  unfold fold_step. simpl. apply add_at_nonneg; assumption.
Qed.

(* np.digitize on the inner edges always gives a valid coarse bin *)
Lemma digitize_lt inner x : (digitize ROps inner x < S (length inner))%nat.
Proof. unfold digitize. pose proof (count_le_length inner x). lia. Qed.

(* ------------------------------------------------------------------ MRD *)
Lemma msum_scale c mask vals :
  msum ROps mask (map (fun x => x / c) vals) = msum ROps mask vals / c.
Proof.
  revert vals; induction mask as [| b mask IH]; intros vals.
  - simpl. change (zero ROps) with 0. unfold Rdiv. ring.
  - destruct vals as [| x vals]; simpl map.
    + simpl. change (zero ROps) with 0. unfold Rdiv. ring.
    + simpl msum. rewrite IH. destruct b; rsimpl; unfold Rdiv; ring.
Qed.

(* after dividing by the mean, the mean over the valid bins is exactly 1 *)
Lemma mrd_mean_one mask vals : (0 < mcount mask)%nat -> msum ROps mask vals <> 0 ->
  mmean ROps mask (mrd ROps mask vals) = 1.
Proof.
  intros Hc Hs. unfold mrd, mmean. rsimpl.
  rewrite msum_scale.
  assert (Hn : IZR (Z.of_nat (mcount mask)) <> 0).
  { apply not_0_IZR. lia. }
  unfold ofnat. rsimpl. field. split; assumption.
Qed.

Lemma msum_all_true vals : msum ROps (repeat true (length vals)) vals = sumR vals.
Proof. induction vals as [| x l IH]; [reflexivity |]. simpl. rewrite IH. reflexivity. Qed.

Lemma mcount_all_true n : mcount (repeat true n) = n.
Proof. induction n; simpl; auto. Qed.

Lemma msum_nonneg mask vals : Forall (fun x => 0 <= x) vals -> 0 <= msum ROps mask vals.
Proof.
  intros H. revert mask; induction H as [| x l Hx H IH]; intros [| b mask]; simpl;
    change (zero ROps) with 0; try lra.
  specialize (IH mask). destruct b; rsimpl; lra.
Qed.

Lemma mrd_nonneg mask vals : Forall (fun x => 0 <= x) vals -> (0 < mcount mask)%nat ->
  msum ROps mask vals <> 0 -> Forall (fun x => 0 <= x) (mrd ROps mask vals).
Proof.
  intros Hv Hc Hs. pose proof (msum_nonneg mask vals Hv) as H0.
  assert (Hm : 0 < mmean ROps mask vals).
  { unfold mmean, ofnat. rsimpl. apply Rdiv_lt_0_compat; [lra |]. apply IZR_lt. lia. }
  unfold mrd. rsimpl. apply Forall_forall. intros y Hy. apply in_map_iff in Hy.
  destruct Hy as [x [E Hx]]. subst y. rewrite Forall_forall in Hv. specialize (Hv x Hx).
  apply Rmult_le_pos; [exact Hv | left; apply Rinv_0_lt_compat; exact Hm].
Qed.
