(* C01: qu2eu_single (generated) -- the Bunge matrix of the returned Euler
   angles is the orientation matrix of the quaternion; ranges; the gimbal
   branch Phi = pi is wrong. *)
From Coq Require Import Reals ZArith Lra Nsatz Bool.
From Verif Require Import Scalar RInst QuatKernels Conversions Quat QuatAlg Atan2 ConvEuler.
Local Open Scope R_scope.

Definition e9 : R := 1 / 1000000000.

(* the kernel zeroes raw angles with |t| < 1e-9; "clear" = not in that band unless exactly 0 *)
Definition clear_angle (t : R) : Prop := Rabs t < e9 -> t = 0.

Lemma zeroed_cos t : clear_angle t -> cos (if Rltb (Rabs t) (1 / 1000000000) then 0 else t) = cos t.
Proof.
  intros H. destruct (Rltb (Rabs t) (1 / 1000000000)) eqn:E; [|reflexivity].
  apply Rltb_true in E. rewrite (H E). reflexivity.
Qed.
Lemma zeroed_sin t : clear_angle t -> sin (if Rltb (Rabs t) (1 / 1000000000) then 0 else t) = sin t.
Proof.
  intros H. destruct (Rltb (Rabs t) (1 / 1000000000)) eqn:E; [|reflexivity].
  apply Rltb_true in E. rewrite (H E). reflexivity.
Qed.

Lemma bunge_entries e0 e1 e2 c0 s0 c1 s1 c2 s2 :
  cos e0 = c0 -> sin e0 = s0 -> cos e1 = c1 -> sin e1 = s1 -> cos e2 = c2 -> sin e2 = s2 ->
  bunge (e0, e1, e2) =
  ((c2 * c0 - s2 * c1 * s0, c2 * s0 + s2 * c1 * c0, s2 * s1),
   (- s2 * c0 - c2 * c1 * s0, - s2 * s0 + c2 * c1 * c0, c2 * s1),
   (s1 * s0, - s1 * c0, c1)).
Proof.
  intros <- <- <- <- <- <-. unfold bunge, Rz, Rx. qunfold. tuple_eq; ring.
Qed.

Definition chi (a b c d : R) : R := sqrt ((a * a + d * d) * (b * b + c * c)).
Definition t0 a b c d := Ratan2 ((b * d - a * c) / chi a b c d) ((- a * b - c * d) / chi a b c d).
Definition t1 a b c d := Ratan2 (2 * chi a b c d) (a * a + d * d - (b * b + c * c)).
Definition t2 a b c d := Ratan2 ((a * c + b * d) / chi a b c d) ((c * d - a * b) / chi a b c d).

Lemma chi_sq a b c d : chi a b c d * chi a b c d = (a * a + d * d) * (b * b + c * c).
Proof. unfold chi. apply sqrt_sqrt. nra. Qed.

Theorem qu2eu_generic_matrix a b c d :
  a * a + b * b + c * c + d * d = 1 -> 1 / 1000000000 <= chi a b c d ->
  clear_angle (t0 a b c d) -> clear_angle (t1 a b c d) -> clear_angle (t2 a b c d) ->
  bunge (qu2eu ROps (a, b, c, d)) = qu2om ROps (a, b, c, d).
Proof.
  intros Hu Hchi G0 G1 G2.
  pose proof (chi_sq a b c d) as HX. assert (Hc0 : chi a b c d <> 0) by lra.
  unfold qu2eu, qu2eu_single. cbv zeta. rsimpl. fold (chi a b c d).
  destruct (Rltb (chi a b c d) (1 / 1000000000)) eqn:E; [apply Rltb_true in E; lra|].
  fold (t0 a b c d) (t1 a b c d) (t2 a b c d).
  unfold t0, t1, t2 in *.
  remember (chi a b c d) as X eqn:EX. clear EX.
  destruct (atan2_unit ((b * d - a * c) / X) ((- a * b - c * d) / X)) as [C0 S0].
  { field_simplify_eq; [|assumption]. replace (X ^ 2) with (X * X) by ring. rewrite HX. ring. }
  destruct (atan2_unit (2 * X) (a * a + d * d - (b * b + c * c))) as [C1 S1].
  { clear - Hu HX. nsatz. }
  destruct (atan2_unit ((a * c + b * d) / X) ((c * d - a * b) / X)) as [C2 S2].
  { field_simplify_eq; [|assumption]. replace (X ^ 2) with (X * X) by ring. rewrite HX. ring. }
  erewrite bunge_entries.
  2-7: rewrite ?cos_fmod, ?sin_fmod, ?zeroed_cos, ?zeroed_sin by assumption; eassumption.
  unfold qu2om, qu2om_single. rsimpl.
  assert (HX2 : X ^ 2 = (a * a + d * d) * (b * b + c * c)) by (rewrite <- HX; ring).
  tuple_eq; field_simplify_eq; try assumption; rewrite ?HX2; clear - Hu; try ring.
  all: match goal with |- ?P = ?Q =>
         first
           [ assert (E : P - Q = (c^2*d^2 - a^2*b^2) * (a * a + b * b + c * c + d * d - 1)) by ring
           | assert (E : P - Q = (c^2*d*a - c*d^2*b - c*a^2*b + d*a*b^2) * (a * a + b * b + c * c + d * d - 1)) by ring
           | assert (E : P - Q = - (a^2*c*b + a*c^2*d + a*b^2*d + c*b*d^2) * (a * a + b * b + c * c + d * d - 1)) by ring
           | assert (E : P - Q = (b^2*d^2 - a^2*c^2) * (a * a + b * b + c * c + d * d - 1)) by ring ];
         rewrite Hu in E; replace (1 - 1) with 0 in E by ring; rewrite Rmult_0_r in E; lra
       end.
Qed.

(* ranges: every returned angle is in [0, 2 pi); Phi in [0, pi] *)
Theorem qu2eu_generic_range a b c d :
  a * a + b * b + c * c + d * d = 1 -> 1 / 1000000000 <= chi a b c d ->
  let '(e0, e1, e2) := qu2eu ROps (a, b, c, d) in
  0 <= e0 < 2 * PI /\ 0 <= e1 <= PI /\ 0 <= e2 < 2 * PI.
Proof.
  intros Hu Hchi.
  pose proof PI_RGT_0 as Hpi. pose proof (chi_sq a b c d) as HX.
  unfold qu2eu, qu2eu_single. cbv zeta. rsimpl. fold (chi a b c d).
  destruct (Rltb (chi a b c d) (1 / 1000000000)) eqn:E; [apply Rltb_true in E; lra|].
  replace (PI * 2) with (2 * PI) by ring.
  split; [apply fmod_range; lra|]. split; [|apply fmod_range; lra].
  remember (chi a b c d) as X eqn:EX. clear EX.
  set (t := Ratan2 (2 * X) (a * a + d * d - (b * b + c * c))).
  assert (Ht1 : 0 <= t <= PI).
  { pose proof (atan2_range (2 * X) (a * a + d * d - (b * b + c * c))) as [Hl Hh]. fold t in Hl, Hh.
    split; [|assumption].
    destruct (atan2_unit (2 * X) (a * a + d * d - (b * b + c * c))) as [_ S1].
    { clear - Hu HX. nsatz. }
    fold t in S1.
    destruct (Rle_dec 0 t); [assumption|exfalso].
    assert (sin t < 0).
    { destruct (Req_dec t (- PI)) as [He|Hne].
      - rewrite He, sin_neg, sin_PI in S1. lra.
      - apply sin_lt_0_var; lra. }
    lra. }
  set (z := if Rltb (Rabs t) (1 / 1000000000) then 0 else t).
  assert (Hz : 0 <= z <= PI) by (unfold z; destruct (Rltb (Rabs t) _); lra).
  assert (Hf : Rfmod z (2 * PI) = z).
  { unfold Rfmod.
    assert (Hq : 0 <= z / (2 * PI) < 1).
    { split; [apply Rmult_le_pos; [lra|left; apply Rinv_0_lt_compat; lra]|].
      apply (Rmult_lt_reg_r (2 * PI)); [lra|]. unfold Rdiv. rewrite Rmult_assoc, Rinv_l by lra. lra. }
    assert (HI : Int_part (z / (2 * PI)) = 0%Z).
    { unfold Int_part. rewrite <- (tech_up (z / (2 * PI)) 1); [reflexivity | simpl; lra | simpl; lra]. }
    rewrite HI. simpl. ring. }
  rewrite Hf. exact Hz.
Qed.

(* Gimbal branch Phi = pi: the kernel uses a = -2*q1*q2 where +2*q1*q2 is
   needed; q = (0, 3/5, 4/5, 0) is a witness that the returned Euler angles
   describe ANOTHER rotation. *)
Lemma qu2eu_gimbal_pi_refuted :
  exists q : quat (T:=R), qnorm2 ROps q = 1 /\ bunge (qu2eu ROps q) <> qu2om ROps q.
Proof.
  exists (0, 3/5, 4/5, 0). split; [unfold qnorm2; rsimpl; field|].
  unfold qu2eu, qu2eu_single. cbv zeta. rsimpl.
  replace ((0 * 0 + 0 * 0) * (3 / 5 * (3 / 5) + 4 / 5 * (4 / 5))) with 0 by field.
  rewrite sqrt_0.
  destruct (Rltb 0 (1 / 1000000000)) eqn:E; [|apply Rltb_false in E; lra].
  destruct (Rltb (3 / 5 * (3 / 5) + 4 / 5 * (4 / 5)) (1 / 1000000000)) eqn:E2;
    [apply Rltb_true in E2; lra|].
  destruct (atan2_unit (-2 * (3 / 5) * (4 / 5)) (3 / 5 * (3 / 5) - 4 / 5 * (4 / 5))) as [C0 S0];
    [field|].
  erewrite bunge_entries.
  2-7: rewrite ?cos_fmod, ?sin_fmod; first [eassumption | apply cos_PI | apply sin_PI | apply cos_0 | apply sin_0].
  unfold qu2om, qu2om_single. rsimpl.
  intros H. injection H. intros. lra.
Qed.

(* Gimbal branch Phi = 0 (rotation about the sample Z axis, b = c = 0): the
   returned Euler angles (phi1, 0, 0) describe the quaternion's rotation *)
Lemma qu2eu_gimbal0_matrix a d :
  a * a + d * d = 1 -> bunge (qu2eu ROps (a, 0, 0, d)) = qu2om ROps (a, 0, 0, d).
Proof.
  intros Hu.
  unfold qu2eu, qu2eu_single. cbv zeta. rsimpl.
  replace ((a * a + d * d) * (0 * 0 + 0 * 0)) with 0 by ring.
  rewrite sqrt_0.
  destruct (Rltb 0 (1 / 1000000000)) eqn:E; [|apply Rltb_false in E; lra].
  destruct (Rltb (0 * 0 + 0 * 0) (1 / 1000000000)) eqn:E2; [|apply Rltb_false in E2; lra].
  destruct (atan2_unit (-2 * a * d) (a * a - d * d)) as [C0 S0].
  { replace ((a * a - d * d) * (a * a - d * d) + -2 * a * d * (-2 * a * d))
      with ((a * a + d * d) * (a * a + d * d)) by ring. rewrite Hu. ring. }
  erewrite bunge_entries.
  2-7: rewrite ?cos_fmod, ?sin_fmod; first [eassumption | apply cos_0 | apply sin_0].
  unfold qu2om, qu2om_single. rsimpl.
  assert (Hd : d * d = 1 - a * a) by lra.
  repeat match goal with |- (_, _) = (_, _) => apply f_equal2 end; ring_simplify; rewrite ?Hd; try ring; nra.
Qed.

Lemma eu2qu_qu2eu_gimbal0 a d :
  a * a + d * d = 1 ->
  qu2om ROps (eu2qu ROps (qu2eu ROps (a, 0, 0, d))) = qu2om ROps (a, 0, 0, d).
Proof. intros Hu. rewrite qu2om_eu2qu. apply qu2eu_gimbal0_matrix. exact Hu. Qed.
