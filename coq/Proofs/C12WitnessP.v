(* C12 -- witnesses: clauses that the FAITHFUL model violates (each is replayed on
   the implementation by the check and recorded as a known finding), the
   reachability corollary, and non-vacuity examples. *)
From Coq Require Import ZArith List Bool String Lia.
From Verif Require Import C12Phases C12Map C12PhasesP C12MapP.
Import ListNotations.
Open Scope Z_scope.
Open Scope string_scope.

(* invariant for every state reachable from a construction *)
Theorem reachable_Inv pid pl props st v0 ops :
  (forall pl0, pl = Some pl0 -> sortedk pl0 /\ ~ In ni_name (names pl0)) ->
  (forall x, In x pid -> -1 <= x) ->
  init pid pl props = Ok st ->
  run_ok ops (mkState st [v0]) ->
  Inv (m_store (run ops (mkState st [v0]))).
Proof. intros H1 H2 H3 H4. apply run_Inv; auto. simpl. eapply init_Inv; eauto. Qed.

(* --- finding: a caller's list holding not_indexed, relinked by list order *)
Definition w1_pl : plist :=
  [(-1, ni_phase); (0, mkPhase "a" (Some "m-3m") 0); (1, mkPhase "b" None 0)].

Lemma init_not_indexed_refuted :
  exists pid pl st,
    sortedk pl /\ (forall i p, In (i, p) pl -> (pname p = ni_name <-> i = -1)) /\
    (forall x, In x pid -> -1 <= x) /\ init pid (Some pl) [] = Ok st /\
    exists i p, In (i, p) (s_phases st) /\ pname p = ni_name /\ i <> -1.
Proof.
  exists [0; 1; 2], w1_pl. eexists. split; [|split; [|split; [|split]]].
  - simpl. repeat split; repeat constructor; simpl; lia.
  - intros i p [H|[H|[H|[]]]]; inversion H; subst; simpl; split; intros E; try reflexivity;
      try discriminate; try lia.
  - simpl. intros x [H|[H|[H|[]]]]; lia.
  - vm_compute. reflexivity.
  - exists 0, ni_phase. simpl. split; [left; reflexivity|split; [reflexivity|lia]].
Qed.

(* --- finding: array assignment containing -1 while not_indexed is not listed *)
Definition w2_st : store := mkStore [0; 0] [(0, default_phase)] [].

Lemma w2_Inv : Inv w2_st.
Proof.
  apply (init_Inv [0; 0] None [] w2_st).
  - intros pl0 H. discriminate.
  - simpl. intros x [H|[H|[]]]; lia.
  - reflexivity.
Qed.

Lemma set_pid_array_refuted :
  exists st v zs, Inv st /\ List.length v = List.length (s_pid st) /\ List.length zs = count v /\
    (forall z, In z zs -> z = -1 \/ In z (ids (s_phases st))) /\
    ~ Inv (fst (set_pid st v (PArr zs))).
Proof.
  exists w2_st, [true; true], [-1; 0]. split; [apply w2_Inv|]. repeat split.
  - simpl. intros z [H|[H|[]]]; subst; auto.
  - intros [_ He]. assert (H : In (-1) (ids (s_phases (fst (set_pid w2_st [true; true] (PArr [-1; 0])))))).
    { apply He. vm_compute. auto. }
    vm_compute in H. destruct H as [H|[]]. discriminate.
Qed.

(* --- finding: one phase in the selection, its name shared with a smaller id *)
Definition w3_st : store := mkStore [0; 0; 3] [(0, default_phase); (3, default_phase)] [].

Lemma w3_Inv : Inv w3_st.
Proof.
  apply (init_Inv [0; 0; 3] None [] w3_st).
  - intros pl0 H. discriminate.
  - simpl. intros x [H|[H|[H|[]]]]; lia.
  - reflexivity.
Qed.

Lemma phases_in_data_refuted :
  exists st v pl, Inv st /\ List.length v = List.length (s_pid st) /\
    phases_in_data st v = Ok pl /\ ids pl <> present st v.
Proof.
  exists w3_st, [false; false; true], [(0, default_phase)]. split; [apply w3_Inv|]. repeat split.
  vm_compute. discriminate.
Qed.

(* --- finding: int value assigned through a selection to a float property *)
Lemma set_prop_frame_refuted :
  exists st v k a z a',
    prop_get k (s_props st) = Some a /\ List.length v = List.length (pvals a) /\ pdt a = DFlt /\
    prop_get k (s_props (fst (set_prop st v k (VScalar DInt z)))) = Some a' /\ pdt a' = DInt /\
    (* outside the selection the NUMBERS changed (quarters: 0.5 -> 0) *)
    map (fun x => x * 4) (select_by (map negb v) (pvals a')) <> select_by (map negb v) (pvals a).
Proof.
  exists (mkStore [0; 0] [(0, default_phase)] [("iq", mkArr DFlt [2; 6])]), [false; true], "iq",
    (mkArr DFlt [2; 6]), 7, (mkArr DInt [0; 7]).
  repeat split. vm_compute. discriminate.
Qed.

(* the size guard of the `phases` setter does not protect the invariant *)
Lemma phases_setter_guard_insufficient :
  exists st v value, Inv st /\ set_phases_guard st v value = true /\ sortedk value /\
    ~ Inv (mkStore (s_pid st) value (s_props st)).
Proof.
  exists w2_st, [true; true], [(5, default_phase)]. split; [apply w2_Inv|]. repeat split.
  { constructor. }
  intros [_ He]. assert (H : In 0 (ids [(5, default_phase)])) by (apply He; simpl; auto).
  simpl in H. destruct H as [H|[]]. discriminate.
Qed.

(* ------------------------------------------------------ non-vacuity *)
Definition ex_ops : list op :=
  [OSelect 0 (SNames ["indexed"]); OSetPid 1 (PScalar (-1)); OSetPid 0 (PArr [0; 1; 0]);
   OPhAdd [mkPhase "x" (Some "432") 0]; OPhDel (DelInt 2); OSetProp 1 "iq" (VScalar DFlt 2);
   OSelect 0 (SMask [true; false; true]); OSetPid 2 (PScalar 1); OPhAddNI; OPhSort].

Example history_nonvacuous :
  exists st, init [0; 1; 1] None [] = Ok st /\ run_ok ex_ops (mkState st [[true; true; true]]) /\
    s_pid (m_store (run ex_ops (mkState st [[true; true; true]]))) = [1; 1; 1] /\
    ids (s_phases (m_store (run ex_ops (mkState st [[true; true; true]])))) = [-1; 0; 1].
Proof.
  eexists. split; [reflexivity|]. split; [|split; vm_compute; reflexivity].
  simpl. repeat split; auto.
  - intros z [H|[H|[H|[]]]]; subst; auto.
  - intros p [H|[]]; subst. discriminate.
  - intros [H|[H|[H|[]]]]; discriminate.
Qed.

Example init_nonvacuous :
  exists st, init [2; -1; 7; 2] (Some [(0, mkPhase "a" (Some "m-3m") 0); (1, mkPhase "b" None 0); (4, mkPhase "c" None 0)]) [] = Ok st
             /\ ids (s_phases st) = [-1; 2; 7] /\ names (s_phases st) = ["not_indexed"; "a"; "b"].
Proof. eexists. split; [reflexivity|]. split; reflexivity. Qed.

Example slice_nonvacuous :
  index [(-1, ni_phase); (0, default_phase); (2, mkPhase "c" None 0)] (KSlice (Some 0) (Some 2) None)
  = IMany [(-1, ni_phase); (0, default_phase)].
Proof. reflexivity. Qed.
