(* C12 -- witnesses: clauses that the FAITHFUL model violates (each is replayed on
   the implementation by the check and recorded as a known finding), the
   reachability corollary, and non-vacuity examples. *)
From Coq Require Import ZArith List Bool String Lia.
From Verif Require Import C12Phases C12Map C12PhasesP C12MapP.
Import ListNotations.
Open Scope Z_scope.
Open Scope string_scope.

(* invariant for every state reachable from a construction *)
Theorem reachable_Inv pid pl props st v0 ops :
  (forall pl0, pl = Some pl0 -> caller_ok pl0) ->
  (forall x, In x pid -> -1 <= x) ->
  init pid pl props = Ok st ->
  run_ok ops (mkState st [v0]) ->
  Inv (m_store (run ops (mkState st [v0]))).
Proof. intros H1 H2 H3 H4. apply run_Inv; auto. simpl. eapply init_Inv; eauto. Qed.

(* a caller's list holding not_indexed at id -1 (e.g. another map's .phases): after
   construction "not_indexed" is still exactly the phase of id -1 *)
Theorem init_not_indexed pid pl st :
  sortedk pl -> (forall i p, In (i, p) pl -> (pname p = ni_name <-> i = -1)) ->
  (forall x, In x pid -> -1 <= x) -> init pid (Some pl) [] = Ok st ->
  forall i p, In (i, p) (s_phases st) -> (pname p = ni_name <-> i = -1).
Proof.
  intros Hs Hn Hl Hi.
  assert (HI : Inv st).
  { apply (init_Inv pid (Some pl) [] st); auto. intros pl0 E. inversion E; subst. split; auto.
    intros i p Hin. apply (Hn _ _ Hin). }
  apply HI.
Qed.

(* the caller's not_indexed entry takes no part in the linking *)
Theorem init_ignores_caller_not_indexed pid pl props : sortedk pl ->
  init pid (Some pl) props = init pid (Some (filter (fun kv => negb (Z.eqb (fst kv) (-1))) pl)) props.
Proof.
  intros Hs. unfold init, init_phases.
  assert (E : strip_ni (filter (fun kv => negb (Z.eqb (fst kv) (-1))) pl) = strip_ni pl).
  { rewrite (strip_ni_filter pl) by (apply sortedk_NoDup; auto).
    apply strip_ni_none. intros Hin. unfold ids in Hin. apply in_map_iff in Hin.
    destruct Hin as [[i p] [E Hin]]. apply filter_In in Hin. simpl in *. subst i.
    destruct Hin as [_ Hin]. discriminate. }
  rewrite E. reflexivity.
Qed.

(* the former witness: list [-1:not_indexed, 0:a, 1:b] with ids [0,1,2] *)
Definition w1_pl : plist :=
  [(-1, ni_phase); (0, mkPhase "a" (Some "m-3m") 0); (1, mkPhase "b" None 0)].

Example init_not_indexed_witness :
  init [0; 1; 2] (Some w1_pl) []
  = Ok (mkStore [0; 1; 2] [(0, mkPhase "a" (Some "m-3m") 0); (1, mkPhase "b" None 0); (2, default_phase)] []).
Proof. reflexivity. Qed.

(* the former witness of the array assignment: [0,0] <- [-1,0] now lists not_indexed *)
Definition w2_st : store := mkStore [0; 0] [(0, default_phase)] [].

Lemma w2_Inv : Inv w2_st.
Proof.
  apply (init_Inv [0; 0] None [] w2_st).
  - intros pl0 H. discriminate.
  - simpl. intros x [H|[H|[]]]; lia.
  - reflexivity.
Qed.

Example set_pid_array_witness :
  set_pid w2_st [true; true] (PArr [-1; 0])
  = (mkStore [-1; 0] [(-1, ni_phase); (0, default_phase)] [], None).
Proof. reflexivity. Qed.

(* array assignment of ids that are -1 or listed keeps the invariant *)
Theorem set_pid_array_Inv st v zs : Inv st ->
  (forall z, In z zs -> z = -1 \/ In z (ids (s_phases st))) ->
  Inv (fst (set_pid st v (PArr zs))).
Proof. intros HI Hz. apply (set_pid_Inv st v (PArr zs)); auto. Qed.

(* the former witness of phases_in_data: unnamed phases 0 and 3, selection holding only id 3 *)
Definition w3_st : store := mkStore [0; 0; 3] [(0, default_phase); (3, default_phase)] [].

Example phases_in_data_witness :
  phases_in_data w3_st [false; false; true] = Ok [(3, default_phase)].
Proof. reflexivity. Qed.

(* the former witness of the property cast: float [0.5, 1.5], selection {1}, int 7 *)
Example set_prop_witness :
  s_props (fst (set_prop (mkStore [0; 0] [(0, default_phase)] [("iq", mkArr DFlt [2; 6])]) [false; true] "iq"
                         (VScalar DInt 7)))
  = [("iq", mkArr DFlt [2; 28])].
Proof. reflexivity. Qed.

(* the size guard of the `phases` setter does not protect the invariant *)
Lemma phases_setter_guard_insufficient :
  exists st v value, Inv st /\ set_phases_guard st v value = true /\ sortedk value /\
    ~ Inv (mkStore (s_pid st) value (s_props st)).
Proof.
  exists w2_st, [true; true], [(5, default_phase)]. split; [apply w2_Inv|]. repeat split.
  { constructor. }
  intros [_ He]. assert (H : In 0 (ids [(5, default_phase)])) by (apply He; simpl; auto).
  simpl in H. destruct H as [H|[]]. discriminate.
Qed.

(* ------------------------------------------------------ non-vacuity *)
Definition ex_ops : list op :=
  [OSelect 0 (SNames ["indexed"]); OSetPid 1 (PScalar (-1)); OSetPid 0 (PArr [0; 1; 0]);
   OPhAdd [mkPhase "x" (Some "432") 0]; OPhDel (DelInt 2); OSetProp 1 "iq" (VScalar DFlt 2);
   OSelect 0 (SMask [true; false; true]); OSetPid 2 (PScalar 1); OPhAddNI; OPhSort].

Example history_nonvacuous :
  exists st, init [0; 1; 1] None [] = Ok st /\ run_ok ex_ops (mkState st [[true; true; true]]) /\
    s_pid (m_store (run ex_ops (mkState st [[true; true; true]]))) = [1; 1; 1] /\
    ids (s_phases (m_store (run ex_ops (mkState st [[true; true; true]])))) = [-1; 0; 1].
Proof.
  eexists. split; [reflexivity|]. split; [|split; vm_compute; reflexivity].
  simpl. repeat split; auto.
  - intros z [H|[H|[H|[]]]]; subst; auto.
  - intros p [H|[]]; subst. discriminate.
  - intros [H|[H|[H|[]]]]; discriminate.
Qed.

Example init_nonvacuous :
  exists st, init [2; -1; 7; 2] (Some [(0, mkPhase "a" (Some "m-3m") 0); (1, mkPhase "b" None 0); (4, mkPhase "c" None 0)]) [] = Ok st
             /\ ids (s_phases st) = [-1; 2; 7] /\ names (s_phases st) = ["not_indexed"; "a"; "b"].
Proof. eexists. split; [reflexivity|]. split; reflexivity. Qed.

Example slice_nonvacuous :
  index [(-1, ni_phase); (0, default_phase); (2, mkPhase "c" None 0)] (KSlice (Some 0) (Some 2) None)
  = IMany [(-1, ni_phase); (0, default_phase)].
Proof. reflexivity. Qed.
