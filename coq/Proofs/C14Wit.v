(* C14 -- concrete instances: non-vacuous instances of the round-trip theorem
   (among them the strata of the repaired defects: maps of at most 3 points, 3
   points in data, one point in data, single column, single point, name with a
   blank, property "ds"), and witnesses where the FAITHFUL model still violates
   a clause of the property (each is replayed on the implementation by the
   oracle of the check). *)
From Coq Require Import ZArith String Ascii List Bool Lia.
From Verif Require Import C14Ang C14Lemmas C14Grid C14Header C14Round.
Import ListNotations.
Open Scope Z_scope.

(* exact instance: values are integers in units of 10^-5 (10^-3 for lattice
   constants), printing is the identity, k*dx is exact *)
Definition ZRot : Type := Z * Z * Z.
Definition zcoord (d : Z) (k : nat) : Z := Z.of_nat k * d.
Definition zwrite (m : @cmap Z ZRot) (kw : kwargs) : option file :=
  write 0 100000 zcoord (fun v => v) (fun v => v) (fun v => v) (fun v => v) (fun r : ZRot => r) m kw.
Definition zgeometry (m : @cmap Z ZRot) := geometry (Rot := ZRot) 100000 m.
Definition zexpected := @expected Z ZRot zcoord (fun v => v) (fun v => v) (fun v => v) (fun r : ZRot => r).
Definition zclean := @clean Z ZRot zcoord (fun v => v) (fun v => v).

(* printing with 5 decimals of k * dx where dx is given in units of 10^-8 *)
Definition ccoord (d : Z) (k : nat) : Z := rdiv (Z.of_nat k * d) 1000.
Definition cwrite (m : @cmap Z ZRot) (kw : kwargs) : option file :=
  write 0 100000000 ccoord (fun v => v) (fun v => v) (fun v => v) (fun v => v) (fun r : ZRot => r) m kw.

Definition kw0 : kwargs := {| k_index := None; k_iq := None; k_ci := None; k_ds := None; k_fit := None; k_extra := [] |}.

Definition ph (n : string) (g : string) : @phase Z :=
  {| ph_name := n; ph_pg := Some g; ph_lat := [4050; 4050; 4050; 90000; 90000; 90000] |}.

Definition mk (R C : nat) (ins : list bool) (pids : list Z) (phs : list (Z * @phase Z)) (props : list (@prop Z))
  : @cmap Z ZRot :=
  {| m_rows := R; m_cols := C; m_dx := 150000; m_dy := 50000; m_in := ins; m_pid := pids; m_rmulti := false;
     m_rots := map (fun k => [(Z.of_nat k * 1000, 50000, 100000)]) (seq 0 (R * C));
     m_phases := phs; m_props := props |}.

Definition all_in (n : nat) : list bool := repeat true n.

(* ---------------------------------------------------------------- a good map *)
Definition m_good : @cmap Z ZRot :=
  mk 2 3 [true; true; true; true; false; true] [3; 7; 3; -1; 7; 7]
     [(-1, {| ph_name := "not_indexed"; ph_pg := None; ph_lat := [] |}); (3, ph "austenite" "m-3m"); (7, ph "ferrite" "mmm")]
     [{| pr_name := "IQ"; pr_multi := false; pr_vals := map (fun v => [v]) [100; 200; 300; 400; 500; 600] |};
      {| pr_name := "dp"; pr_multi := false; pr_vals := map (fun v => [v]) [7; 8; 9; 10; 11; 12] |}].
Definition kw_good : kwargs :=
  {| k_index := None; k_iq := None; k_ci := None; k_ds := None; k_fit := None; k_extra := ["dp"%string] |}.

Definition g_good : @geom Z :=
  match zgeometry m_good with Some g => g | None => {| g_nrows := 0; g_ncols := 0; g_dy := 0; g_dx := 0; g_pts := [] |} end.

Lemma good_instance :
  exists f, zwrite m_good kw_good = Some f /\ zgeometry m_good = Some g_good /\ zclean m_good kw_good g_good.
Proof.
  eexists. split; [vm_compute; reflexivity|]. split; [vm_compute; reflexivity|].
  constructor.
  - intros kv Hin. vm_compute in Hin. destruct Hin as [<- | [<- | []]]; vm_compute; repeat split; reflexivity.
  - vm_compute. repeat constructor; simpl; intuition discriminate.
  - intros e He. vm_compute in He. destruct He as [<- | []]. vm_compute. intuition discriminate.
  - intros _. change (axis_ok (fun k => Z.of_nat k * 150000) 3). apply axis_ok_linear. lia.
  - intros _. change (axis_ok (fun k => Z.of_nat k * 50000) 2). apply axis_ok_linear. lia.
  - intros p Hp Hi. vm_compute in Hp.
    destruct Hp as [<- | [<- | [<- | [<- | [<- | [<- | []]]]]]]; vm_compute in Hi; try discriminate; vm_compute; discriminate.
Qed.

(* the round trip of that map, computed: phases 3, 7 become 1, 2; the masked
   point and the not-indexed point carry the sentinels *)
Lemma good_roundtrip_value :
  (f <- zwrite m_good kw_good ;; read f) = Some (zexpected m_good kw_good g_good)
  /\ r_pid (zexpected m_good kw_good g_good) = [1; 2; 1; -1; -1; 2]
  /\ map fst (r_phases (zexpected m_good kw_good g_good)) = [-1; 1; 2]
  /\ map fst (r_props (zexpected m_good kw_good g_good)) = ["iq"; "ci"; "detector_signal"; "fit"; "dp"]%string.
Proof. vm_compute. repeat split; reflexivity. Qed.

(* "write m kw gives a file whose read-back satisfies P" *)
Definition rt_sat (w : option file) (P : rmap -> Prop) : Prop :=
  match w with
  | Some f => match read f with Some r => P r | None => False end
  | None => False
  end.

(* ---------------------------------------------------------------- strata of the repaired defects *)
(* the round trip of m equals `expected` (computed), and the read-back map satisfies P *)
Definition rt_exp (m : @cmap Z ZRot) (kw : kwargs) (P : rmap -> Prop) : Prop :=
  match zwrite m kw, zgeometry m with
  | Some f, Some g => read f = Some (zexpected m kw g) /\ P (zexpected m kw g)
  | _, _ => False
  end.

Definition one_phase : list (Z * @phase Z) := [(0, ph "a" "432")].

(* maps with at most 3 points (get_map_data) *)
Lemma fixed_small_map :
  rt_exp (mk 1 3 (all_in 3) [0; 0; 0] one_phase []) kw0
         (fun r => r_shape r = [3%nat] /\ r_dx r = 150000 /\ r_pid r = [1; 1; 1])
  /\ rt_exp (mk 1 2 (all_in 2) [0; 0] one_phase []) kw0 (fun r => r_shape r = [2%nat] /\ r_pid r = [1; 1])
  /\ rt_exp (mk 3 1 (all_in 3) [0; -1; 0] one_phase []) kw0 (fun r => r_shape r = [3%nat] /\ r_pid r = [1; -1; 1]).
Proof. vm_compute. repeat split; reflexivity. Qed.

(* ... also with a layer index (the Euler array is passed as an (n,3) array) *)
Lemma fixed_small_map_index :
  rt_exp {| m_rows := 1; m_cols := 2; m_dx := 150000; m_dy := 0; m_in := [true; true]; m_pid := [0; 0]; m_rmulti := true;
            m_rots := [[(1, 2, 3); (4, 5, 6)]; [(7, 8, 9); (10, 11, 12)]]; m_phases := one_phase; m_props := [] |}
         {| k_index := Some 1; k_iq := None; k_ci := None; k_ds := None; k_fit := None; k_extra := [] |}
         (fun r => r_shape r = [2%nat] /\ r_eul r = [(4, 5, 6); (10, 11, 12)]).
Proof. vm_compute. repeat split; reflexivity. Qed.

(* exactly three points in data (get_map_data, repaired for C11) *)
Lemma fixed_three_in_data :
  rt_exp (mk 2 3 [true; true; true; false; false; false] [0; 0; 0; 0; 0; 0] one_phase []) kw0
         (fun r => r_shape r = [3%nat] /\ r_pid r = [1; 1; 1]).
Proof. vm_compute. repeat split; reflexivity. Qed.

(* one point in data: the one-line file is read back (np.loadtxt(..., ndmin=2)) *)
Lemma fixed_single_row :
  rt_exp (mk 2 3 [false; true; false; false; false; false] [0; 0; 0; 0; 0; 0] one_phase []) kw0
         (fun r => r_shape r = [] /\ r_pid r = [1] /\ r_eul r = [(1000, 50000, 100000)]).
Proof. vm_compute. repeat split; reflexivity. Qed.

(* a single-column map (shape (4,)) comes back with shape (4,) and its y step *)
Lemma fixed_single_column :
  rt_exp (mk 4 1 (all_in 4) [0; 0; 0; 0] one_phase []) kw0
         (fun r => r_shape r = [4%nat] /\ r_dy r = 50000 /\ r_dx r = 0).
Proof. vm_compute. repeat split; reflexivity. Qed.

(* a single-point map (shape ()) is written and read back *)
Lemma fixed_single_point :
  rt_exp (mk 1 1 [true] [0] one_phase []) kw0 (fun r => r_shape r = [] /\ r_pid r = [1]).
Proof. vm_compute. repeat split; reflexivity. Qed.

(* a phase name with a blank comes back unchanged *)
Lemma fixed_blank_name :
  rt_exp (mk 2 2 (all_in 4) [0; 0; 0; 0] [(0, ph "iron alpha" "432")] []) kw0
         (fun r => map (fun kv => rp_name (snd kv)) (r_phases r) = ["iron alpha"%string]).
Proof. vm_compute. repeat split; reflexivity. Qed.

(* a property named "ds" is the default detector signal *)
Lemma fixed_default_ds :
  rt_exp (mk 2 2 (all_in 4) [0; 0; 0; 0] one_phase
             [{| pr_name := "ds"; pr_multi := false; pr_vals := map (fun v => [v]) [5; 6; 7; 8] |}]) kw0
         (fun r => assoc_s "detector_signal" (r_props r) = Some [5; 6; 7; 8]).
Proof. vm_compute. repeat split; reflexivity. Qed.

(* the hypotheses of the round-trip theorem hold for a single-point map and for
   a map with a blank in a phase name (no guard on the number of rows / on blanks) *)
Definition m_point : @cmap Z ZRot := mk 1 1 [true] [0] [(0, ph "iron alpha" "432")] [].
Definition g_point : @geom Z :=
  match zgeometry m_point with Some g => g | None => {| g_nrows := 0; g_ncols := 0; g_dy := 0; g_dx := 0; g_pts := [] |} end.
Lemma point_instance :
  exists f, zwrite m_point kw0 = Some f /\ zgeometry m_point = Some g_point /\ zclean m_point kw0 g_point.
Proof.
  eexists. split; [vm_compute; reflexivity|]. split; [vm_compute; reflexivity|].
  constructor.
  - intros kv Hin. vm_compute in Hin. destruct Hin as [<- | []]. vm_compute. repeat split; reflexivity.
  - vm_compute. constructor.
  - intros e He. vm_compute in He. destruct He.
  - intro H. vm_compute in H. lia.
  - intro H. vm_compute in H. lia.
  - intros p Hp Hi. vm_compute in Hp. destruct Hp as [<- | []]. vm_compute. discriminate.
Qed.

(* ---------------------------------------------------------------- violations of the faithful model *)
(* leading or repeated blanks of a phase name are lost (the header is split at
   blanks and joined with single blanks) *)
Lemma wit_blank_run_name :
  rt_sat (zwrite (mk 2 2 (all_in 4) [0; 0; 0; 0] [(0, ph " lead" "432")] []) kw0)
         (fun r => map (fun kv => rp_name (snd kv)) (r_phases r) = ["lead"%string])
  /\ rt_sat (zwrite (mk 2 2 (all_in 4) [0; 0; 0; 0] [(0, ph "x  y" "432")] []) kw0)
         (fun r => map (fun kv => rp_name (snd kv)) (r_phases r) = ["x y"%string]).
Proof. vm_compute. split; reflexivity. Qed.

(* an indexed point whose confidence index is -1 comes back not indexed *)
Lemma wit_ci_collision :
  rt_sat (zwrite (mk 2 2 (all_in 4) [0; 0; 0; 0] [(0, ph "a" "432")]
                     [{| pr_name := "ci"; pr_multi := false; pr_vals := map (fun v => [v]) [50000; -100000; 30000; 20000] |}]) kw0)
         (fun r => r_pid r = [1; -1; 1; 1]).
Proof. vm_compute. reflexivity. Qed.

(* a step that is not resolved by 5 decimals: 1 x 110 points with dx = 0.0010049 come back as 111 *)
Definition m_coarse : @cmap Z ZRot :=
  {| m_rows := 1; m_cols := 110; m_dx := 100490; m_dy := 0; m_in := all_in 110; m_pid := repeat 0 110; m_rmulti := false;
     m_rots := repeat [(0, 0, 0)] 110; m_phases := [(0, ph "a" "432")]; m_props := [] |}.
Lemma wit_coarse_step : rt_sat (cwrite m_coarse kw0) (fun r => r_shape r = [111%nat] /\ r_dx r = 100).
Proof. vm_compute. split; reflexivity. Qed.

(* an extra column named like a standard column replaces it: the not-indexed
   point of a two-phase map comes back indexed, with the unknown phase id 0 *)
Lemma wit_extra_named_ci :
  rt_sat (zwrite (mk 2 2 (all_in 4) [0; -1; 0; 1] [(-1, ph "not_indexed" "1"); (0, ph "a" "432"); (1, ph "b" "432")]
                     [{| pr_name := "ci"; pr_multi := false; pr_vals := map (fun v => [v]) [50000; 40000; 30000; 20000] |}])
                 {| k_index := None; k_iq := None; k_ci := None; k_ds := None; k_fit := None; k_extra := ["ci"%string] |})
         (fun r => r_pid r = [1; 0; 1; 2]).
Proof. vm_compute. reflexivity. Qed.

Lemma ref_blank_run_name :
  exists m kw, map (fun kv => ph_name (snd kv)) (m_phases m) = [" lead"%string]
               /\ rt_sat (zwrite m kw) (fun r => map (fun kv => rp_name (snd kv)) (r_phases r) = ["lead"%string]).
Proof.
  exists (mk 2 2 (all_in 4) [0; 0; 0; 0] [(0, ph " lead" "432")] []), kw0.
  split; [reflexivity | exact (proj1 wit_blank_run_name)].
Qed.

Lemma ref_ci_collision :
  exists m kw, m_pid m = [0; 0; 0; 0] /\ rt_sat (zwrite m kw) (fun r => r_pid r = [1; -1; 1; 1]).
Proof.
  exists (mk 2 2 (all_in 4) [0; 0; 0; 0] [(0, ph "a" "432")]
             [{| pr_name := "ci"; pr_multi := false; pr_vals := map (fun v => [v]) [50000; -100000; 30000; 20000] |}]), kw0.
  split; [reflexivity | exact wit_ci_collision].
Qed.

Lemma ref_coarse_step :
  exists m kw, m_rows m = 1%nat /\ m_cols m = 110%nat /\ rt_sat (cwrite m kw) (fun r => r_shape r = [111%nat] /\ r_dx r = 100).
Proof. exists m_coarse, kw0. split; [reflexivity | split; [reflexivity | exact wit_coarse_step]]. Qed.

Lemma ref_extra_named_ci :
  exists m kw, m_pid m = [0; -1; 0; 1] /\ rt_sat (zwrite m kw) (fun r => r_pid r = [1; 0; 1; 2]).
Proof.
  exists (mk 2 2 (all_in 4) [0; -1; 0; 1] [(-1, ph "not_indexed" "1"); (0, ph "a" "432"); (1, ph "b" "432")]
             [{| pr_name := "ci"; pr_multi := false; pr_vals := map (fun v => [v]) [50000; 40000; 30000; 20000] |}]),
         {| k_index := None; k_iq := None; k_ci := None; k_ds := None; k_fit := None; k_extra := ["ci"%string] |}.
  split; [reflexivity | exact wit_extra_named_ci].
Qed.
