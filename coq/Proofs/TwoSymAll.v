(* all 38 x 38 ordered pairs of named point groups: the set of symmetry
   elements Orientation.dot uses for two symmetries is the needed one *)
From Coq Require Import List Bool String Lia.
From Verif Require Import Groups GroupFacts SymDotK TwoSymRow00 TwoSymRow01 TwoSymRow02 TwoSymRow03 TwoSymRow04 TwoSymRow05 TwoSymRow06 TwoSymRow07 TwoSymRow08 TwoSymRow09 TwoSymRow10 TwoSymRow11 TwoSymRow12 TwoSymRow13 TwoSymRow14 TwoSymRow15 TwoSymRow16 TwoSymRow17 TwoSymRow18 TwoSymRow19 TwoSymRow20 TwoSymRow21 TwoSymRow22 TwoSymRow23 TwoSymRow24 TwoSymRow25 TwoSymRow26 TwoSymRow27 TwoSymRow28 TwoSymRow29 TwoSymRow30 TwoSymRow31 TwoSymRow32 TwoSymRow33 TwoSymRow34 TwoSymRow35 TwoSymRow36 TwoSymRow37.

Lemma two_sym_rows : forall i, (i < 38)%nat -> two_sym_row i = true.
Proof.
  intros i Hi.
  do 38 (destruct i as [|i]; [shelve|]). exfalso; lia.
  Unshelve.
  - exact two_sym_row_00.
  - exact two_sym_row_01.
  - exact two_sym_row_02.
  - exact two_sym_row_03.
  - exact two_sym_row_04.
  - exact two_sym_row_05.
  - exact two_sym_row_06.
  - exact two_sym_row_07.
  - exact two_sym_row_08.
  - exact two_sym_row_09.
  - exact two_sym_row_10.
  - exact two_sym_row_11.
  - exact two_sym_row_12.
  - exact two_sym_row_13.
  - exact two_sym_row_14.
  - exact two_sym_row_15.
  - exact two_sym_row_16.
  - exact two_sym_row_17.
  - exact two_sym_row_18.
  - exact two_sym_row_19.
  - exact two_sym_row_20.
  - exact two_sym_row_21.
  - exact two_sym_row_22.
  - exact two_sym_row_23.
  - exact two_sym_row_24.
  - exact two_sym_row_25.
  - exact two_sym_row_26.
  - exact two_sym_row_27.
  - exact two_sym_row_28.
  - exact two_sym_row_29.
  - exact two_sym_row_30.
  - exact two_sym_row_31.
  - exact two_sym_row_32.
  - exact two_sym_row_33.
  - exact two_sym_row_34.
  - exact two_sym_row_35.
  - exact two_sym_row_36.
  - exact two_sym_row_37.
Qed.

Theorem two_sym_decided : forall g h, In g groups -> In h groups -> two_sym_ok g h = true.
Proof.
  intros g h Hg Hh. apply In_nth_error in Hg. destruct Hg as [i Hi].
  assert (Hlt : (i < 38)%nat).
  { rewrite <- group_count. apply nth_error_Some. rewrite Hi. discriminate. }
  pose proof (two_sym_rows i Hlt) as H. unfold two_sym_row in H. rewrite Hi in H.
  rewrite forallb_forall in H. apply H. exact Hh.
Qed.
