(* Transfer of exact K-level set conditions to the reals, and the exhaustive
   decision of "the set used by the code = the set the true minimum needs"
   for all named point groups (alone and in ordered pairs). *)
From Coq Require Import Reals ZArith QArith List String Bool Lra.
From Verif Require Import Scalar RInst KField KtoR QuatKernels Conversions Quat QuatAlg
  GroupK Groups SymDot SymDotR.
Import ListNotations.

Definition qtoR (q : quat (T:=K)) : quat (T:=R) :=
  let '(a, b, c, d) := q in (toR a, toR b, toR c, toR d).
Definition rtoR (r : krot) : rot (T:=R) := (qtoR (fst r), snd r).

Lemma qtoR_mul p q : qtoR (qmul KOps p q) = qmul ROps (qtoR p) (qtoR q).
Proof.
  destruct p as [[[a b] c] d], q as [[[e f] g] h].
  unfold qmul, qu_multiply_gufunc, qtoR. cbn [KOps ROps o_add o_sub o_mul].
  repeat (rewrite toR_add || rewrite toR_sub || rewrite toR_mul). reflexivity.
Qed.
Lemma qtoR_conj p : qtoR (qconj KOps p) = qconj ROps (qtoR p).
Proof.
  destruct p as [[[a b] c] d]. unfold qconj, qu_conj_gufunc, qtoR. cbn [KOps ROps o_opp].
  rewrite ?toR_opp. reflexivity.
Qed.
Lemma qtoR_neg p : qtoR (qneg KOps p) = qneg ROps (qtoR p).
Proof.
  destruct p as [[[a b] c] d]. unfold qneg, qtoR. cbn [KOps ROps o_opp].
  rewrite ?toR_opp. reflexivity.
Qed.

Lemma kq_eqb_sound p q : kq_eqb p q = true -> qtoR p = qtoR q.
Proof.
  destruct p as [[[a b] c] d], q as [[[e f] g] h]. unfold kq_eqb, qtoR. intros H.
  apply andb_prop in H; destruct H as [H H4]. apply andb_prop in H; destruct H as [H H3].
  apply andb_prop in H; destruct H as [H1 H2].
  apply Keqb_sound in H1, H2, H3, H4. rewrite H1, H2, H3, H4. reflexivity.
Qed.

Lemma kr_eqb_sound r s : kr_eqb r s = true -> req (rtoR r) (rtoR s).
Proof.
  unfold kr_eqb, req, rtoR; cbn [fst snd]. intros H. apply andb_prop in H. destruct H as [H1 H2].
  split; [apply eqb_prop; exact H2|].
  apply orb_prop in H1. destruct H1 as [H1|H1].
  - left. apply kq_eqb_sound; exact H1.
  - right. rewrite <- qtoR_neg. apply kq_eqb_sound; exact H1.
Qed.

Definition kset_equiv (U V : list krot) : bool := ksubset U V && ksubset V U.

Lemma ksubset_sound U V : ksubset U V = true ->
  forall u, In u (map rtoR U) -> exists v, In v (map rtoR V) /\ req u v.
Proof.
  unfold ksubset. intros H u Hu. apply in_map_iff in Hu. destruct Hu as [u0 [<- Hu0]].
  rewrite forallb_forall in H. specialize (H u0 Hu0). unfold kmem in H.
  apply existsb_exists in H. destruct H as [v0 [Hv0 He]].
  exists (rtoR v0). split; [apply in_map; exact Hv0 | apply kr_eqb_sound; exact He].
Qed.

Lemma kset_equiv_sound U V : kset_equiv U V = true -> sign_equiv (map rtoR U) (map rtoR V).
Proof.
  unfold kset_equiv. intros H. apply andb_prop in H. destruct H as [H1 H2].
  split; apply ksubset_sound; assumption.
Qed.

Lemma needed_set_toR G1 G2 :
  map rtoR (needed_set KOps G1 G2) = needed_set ROps (map rtoR G1) (map rtoR G2).
Proof.
  unfold needed_set. rewrite !flat_map_concat_map, concat_map, !map_map. f_equal.
  apply map_ext. intros g1. rewrite !map_map. apply map_ext. intros g2.
  unfold needed_elem, rtoR; cbn [fst snd]. rewrite qtoR_mul, qtoR_conj. reflexivity.
Qed.

(* K-level condition => real theorem for the embedded lists *)
Theorem code_dot_is_brute_K (U G1 G2 : list krot) :
  kset_equiv U (needed_set KOps G1 G2) = true ->
  forall O1 O2 : quat (T:=R),
    code_dot ROps (map rtoR U) O1 O2 = brute_dot ROps (map rtoR G1) (map rtoR G2) O1 O2.
Proof.
  intros H O1 O2. apply code_dot_is_brute. rewrite <- needed_set_toR.
  apply kset_equiv_sound. exact H.
Qed.

(* ---- exhaustive decisions over the regenerated groups ------------------ *)
(* same symmetry: the code uses the group itself *)
Definition same_sym_ok (g : gobs) : bool :=
  kset_equiv (g_elems g) (needed_set KOps (g_elems g) (g_elems g)).
(* two symmetries (G1 = symmetry of self, G2 = symmetry of other): the code uses
   _get_unique_symmetry_elements(other.symmetry, self.symmetry) = unique (G2 . G1) *)
Definition code_set (G1 G2 : list krot) : list krot := kdedup (product_set KOps G2 G1).
Definition two_sym_ok (g h : gobs) : bool :=
  if String.eqb (g_name g) (g_name h) then true
  else kset_equiv (code_set (g_elems g) (g_elems h)) (needed_set KOps (g_elems g) (g_elems h)).
Definition two_sym_failing : list (string * string) :=
  flat_map (fun g => flat_map (fun h => if two_sym_ok g h then [] else [(g_name g, g_name h)]) groups) groups.

Lemma all_same_sym_ok : forallb same_sym_ok groups = true.
Proof. vm_compute. reflexivity. Qed.

(* one row of the exhaustive 38 x 38 decision: for the i-th group g, the set
   the code uses with every other group h is the needed one *)
Definition two_sym_row (i : nat) : bool :=
  match nth_error groups i with
  | Some g => forallb (fun h => two_sym_ok g h) groups
  | None => true
  end.
