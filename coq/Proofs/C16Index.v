(* C16 -- multi-index arithmetic: ravel / unravel are mutually inverse on
   valid indices; facts about size, valid, nth over seq. *)
From Coq Require Import List Arith Lia Bool Permutation.
From Verif Require Import NdIndex.
Import ListNotations.

Lemma unravel_length s k : length (unravel s k) = length s.
Proof. revert k; induction s as [|n s IH]; intros k; simpl; [reflexivity|]. rewrite IH; reflexivity. Qed.

Lemma valid_length s idx : valid s idx -> length idx = length s.
Proof. intros H; induction H; simpl; congruence. Qed.

Lemma unravel_valid s k : k < size s -> valid s (unravel s k).
Proof.
  revert k; induction s as [|n s IH]; intros k Hk; simpl in *.
  - constructor.
  - assert (Hm : 0 < size s) by (destruct (size s); lia).
    assert (Hn : 0 < n) by (destruct n; lia).
    constructor.
    + apply Nat.mod_upper_bound; lia.
    + apply IH. apply Nat.mod_upper_bound; lia.
Qed.

Lemma ravel_unravel s k : k < size s -> ravel s (unravel s k) = k.
Proof.
  revert k; induction s as [|n s IH]; intros k Hk; simpl in *.
  - lia.
  - assert (Hm : 0 < size s) by (destruct (size s); lia).
    assert (Hd : k / size s < n) by (apply Nat.div_lt_upper_bound; lia).
    rewrite Nat.mod_small by exact Hd.
    rewrite IH by (apply Nat.mod_upper_bound; lia).
    pose proof (Nat.div_mod k (size s)). lia.
Qed.

Lemma unravel_ravel s idx : valid s idx -> unravel s (ravel s idx) = idx.
Proof.
  intros H; induction H as [|i n idx s Hi Hrest IH]; simpl; [reflexivity|].
  pose proof (ravel_lt _ _ Hrest) as Hr.
  assert (Hm : 0 < size s) by lia.
  rewrite Nat.div_add_l by lia. rewrite (Nat.div_small (ravel s idx)) by lia.
  rewrite Nat.add_0_r, Nat.mod_small by lia.
  rewrite Nat.add_comm, Nat.mod_add by lia. rewrite Nat.mod_small by lia.
  rewrite IH; reflexivity.
Qed.

Lemma map_nth_seq {A} (l : list A) d : map (fun k => nth k l d) (seq 0 (length l)) = l.
Proof.
  induction l as [|a l IH]; simpl; [reflexivity|].
  f_equal. rewrite <- seq_shift, map_map. exact IH.
Qed.

Lemma size_rev s : size (rev s) = size s.
Proof.
  induction s as [|n s IH]; simpl; [reflexivity|].
  rewrite size_app; simpl. rewrite IH; lia.
Qed.

Lemma size_perm s t : Permutation s t -> size s = size t.
Proof. intros H; induction H; simpl; lia. Qed.

Lemma valid_nth s idx a : valid s idx -> a < length s -> nth a idx 0 < nth a s 0.
Proof.
  intros H; revert a; induction H as [|i n idx s Hi Hrest IH]; intros a Ha; simpl in *; [lia|].
  destruct a; [assumption|]. apply IH; lia.
Qed.

Lemma valid_of_nth s idx :
  length idx = length s -> (forall a, a < length s -> nth a idx 0 < nth a s 0) -> valid s idx.
Proof.
  revert idx; induction s as [|n s IH]; intros idx Hl H; destruct idx as [|i idx]; simpl in *; try lia.
  - constructor.
  - constructor.
    + apply (H 0); lia.
    + apply IH; [lia|]. intros a Ha. apply (H (S a)); lia.
Qed.
