(* C12 -- lemmas about the PhaseList model (Model/C12Phases.v). *)
From Coq Require Import ZArith List Bool String Lia Permutation.
From Verif Require Import C12Phases.
Import ListNotations.
Open Scope Z_scope.

(* ids strictly increasing (hence unique) *)
Fixpoint sortedk (pl : plist) : Prop :=
  match pl with
  | [] => True
  | kv :: r => Forall (fun x => fst kv < fst x) r /\ sortedk r
  end.

Fixpoint sortedZ (l : list Z) : Prop :=
  match l with
  | [] => True
  | x :: r => Forall (fun y => x < y) r /\ sortedZ r
  end.

Lemma sortedk_ids pl : sortedk pl <-> sortedZ (ids pl).
Proof.
  induction pl as [|kv r IH]; simpl; [tauto|].
  rewrite IH. unfold ids. rewrite Forall_map. tauto.
Qed.

Lemma sortedZ_NoDup l : sortedZ l -> NoDup l.
Proof.
  induction l as [|x r IH]; simpl; intros H; constructor.
  - destruct H as [H _]. intros Hin. rewrite Forall_forall in H. specialize (H _ Hin). lia.
  - apply IH, H.
Qed.

Lemma sortedk_NoDup pl : sortedk pl -> NoDup (ids pl).
Proof. intros H; apply sortedZ_NoDup, sortedk_ids, H. Qed.

Lemma memZ_In x l : memZ x l = true <-> In x l.
Proof.
  unfold memZ. rewrite existsb_exists. split.
  - intros [y [Hy He]]. apply Z.eqb_eq in He. subst; auto.
  - intros H. exists x. split; [auto|apply Z.eqb_refl].
Qed.

Lemma memZ_false x l : memZ x l = false <-> ~ In x l.
Proof. rewrite <- memZ_In. destruct (memZ x l); split; intros; try congruence; tauto. Qed.

Lemma memS_In x l : memS x l = true <-> In x l.
Proof.
  unfold memS. rewrite existsb_exists. split.
  - intros [y [Hy He]]. apply String.eqb_eq in He. subst; auto.
  - intros H. exists x. split; [auto|apply String.eqb_refl].
Qed.

(* two strictly sorted lists with the same elements are equal *)
Lemma sortedZ_ext a : forall b, sortedZ a -> sortedZ b -> (forall x, In x a <-> In x b) -> a = b.
Proof.
  induction a as [|x a IH]; intros [|y b] Ha Hb H; auto.
  - exfalso. apply (proj2 (H y)). left; auto.
  - exfalso. apply (proj1 (H x)). left; auto.
  - simpl in Ha, Hb. destruct Ha as [Ha1 Ha2], Hb as [Hb1 Hb2].
    rewrite Forall_forall in Ha1, Hb1.
    assert (x = y).
    { destruct (proj1 (H x) (or_introl eq_refl)) as [E|E]; [auto|].
      destruct (proj2 (H y) (or_introl eq_refl)) as [E'|E']; [auto|].
      specialize (Ha1 _ E'). specialize (Hb1 _ E). lia. }
    subst y. f_equal. apply IH; auto.
    intros z; split; intros Hz.
    + destruct (proj1 (H z) (or_intror Hz)) as [E|E]; [|auto].
      subst z. specialize (Ha1 _ Hz). lia.
    + destruct (proj2 (H z) (or_intror Hz)) as [E|E]; [|auto].
      subst z. specialize (Hb1 _ Hz). lia.
Qed.

Lemma NoDup_app_intro_single {A} (l : list A) (x : A) : NoDup l -> ~ In x l -> NoDup (l ++ [x]).
Proof.
  induction l as [|y r IH]; simpl; intros H Hn; [constructor; [tauto|constructor]|].
  inversion H; subst. constructor.
  - rewrite in_app_iff. simpl. intuition.
  - apply IH; auto.
Qed.

Lemma filter_all_id {A} (f : A -> bool) (l : list A) : (forall x, In x l -> f x = true) -> filter f l = l.
Proof.
  induction l as [|y r IH]; simpl; intros H; auto.
  rewrite (H y) by auto. f_equal. apply IH. auto.
Qed.

(* ------------------------------------------------------------ dict ops *)
Lemma dict_get_In k p d : dict_get k d = Some p -> In (k, p) d.
Proof.
  induction d as [|[k' v'] r IH]; simpl; [discriminate|].
  destruct (k =? k') eqn:E.
  - intros H; inversion H; subst. apply Z.eqb_eq in E; subst. auto.
  - intros H; right; auto.
Qed.

Lemma In_dict_get k p d : NoDup (ids d) -> In (k, p) d -> dict_get k d = Some p.
Proof.
  induction d as [|[k' v'] r IH]; simpl; intros Hn H; [tauto|].
  inversion Hn as [|? ? Hnot Hn']; subst.
  destruct H as [H|H].
  - inversion H; subst. rewrite Z.eqb_refl. auto.
  - destruct (k =? k') eqn:E.
    + apply Z.eqb_eq in E; subst. exfalso. apply Hnot. apply (in_map fst) in H. auto.
    + auto.
Qed.

Lemma dict_get_None k d : dict_get k d = None <-> ~ In k (ids d).
Proof.
  induction d as [|[k' v'] r IH]; simpl; [tauto|].
  destruct (k =? k') eqn:E.
  - apply Z.eqb_eq in E. subst. split; [discriminate|]. intros H; exfalso; apply H; auto.
  - apply Z.eqb_neq in E. rewrite IH. split; intros H; [intros [H1|H1]; [congruence|tauto]|tauto].
Qed.

Lemma dict_get_Some_ids k d : In k (ids d) -> exists p, dict_get k d = Some p.
Proof.
  intros H. destruct (dict_get k d) eqn:E; [eauto|]. apply dict_get_None in E. tauto.
Qed.

Lemma dict_set_new k v d : ~ In k (ids d) -> dict_set k v d = d ++ [(k, v)].
Proof.
  induction d as [|[k' v'] r IH]; simpl; intros H; auto.
  destruct (k =? k') eqn:E.
  - apply Z.eqb_eq in E. subst. exfalso; auto.
  - rewrite IH; auto.
Qed.

Lemma ids_dict_set_old k v d : In k (ids d) -> ids (dict_set k v d) = ids d.
Proof.
  induction d as [|[k' v'] r IH]; simpl; intros H; [tauto|].
  destruct (k =? k') eqn:E; simpl.
  - apply Z.eqb_eq in E. subst; auto.
  - f_equal. apply IH. apply Z.eqb_neq in E. destruct H; [congruence|auto].
Qed.

Lemma ids_app a b : ids (a ++ b) = ids a ++ ids b.
Proof. apply map_app. Qed.

Lemma dict_set_NoDup k v d : NoDup (ids d) -> NoDup (ids (dict_set k v d)).
Proof.
  intros H. destruct (in_dec Z.eq_dec k (ids d)) as [Hi|Hi].
  - rewrite ids_dict_set_old; auto.
  - rewrite dict_set_new, ids_app by auto. simpl.
    apply NoDup_app_intro_single; auto.
Qed.

Lemma dict_set_In_ids k v d x : In x (ids (dict_set k v d)) <-> x = k \/ In x (ids d).
Proof.
  destruct (in_dec Z.eq_dec k (ids d)) as [Hi|Hi].
  - rewrite ids_dict_set_old by auto. split; [auto|]. intros [E|E]; [subst; auto|auto].
  - rewrite dict_set_new, ids_app, in_app_iff by auto. simpl. intuition.
Qed.

Lemma dict_get_set k v d j :
  dict_get j (dict_set k v d) = if j =? k then Some v else dict_get j d.
Proof.
  induction d as [|[k' v'] r IH]; simpl.
  - destruct (j =? k); auto.
  - destruct (k =? k') eqn:E; simpl.
    + apply Z.eqb_eq in E. subst k'. destruct (j =? k); auto.
    + rewrite IH. destruct (j =? k') eqn:E2; auto.
      destruct (j =? k) eqn:E3; auto.
      apply Z.eqb_eq in E2, E3. subst. rewrite Z.eqb_refl in E. discriminate.
Qed.

Lemma dict_set_In k v d x : In x (dict_set k v d) -> x = (k, v) \/ In x d.
Proof.
  induction d as [|[k' v'] r IH]; simpl.
  - intuition.
  - destruct (k =? k'); simpl; intros [H|H]; auto. destruct (IH H); auto.
Qed.

(* dict_of_pairs *)
Lemma dict_of_pairs_gen l : forall d,
  NoDup (ids d) -> NoDup (ids (fold_left (fun d kv => dict_set (fst kv) (snd kv) d) l d)).
Proof.
  induction l as [|kv l IH]; simpl; intros d H; auto.
  apply IH, dict_set_NoDup, H.
Qed.

Lemma dict_of_pairs_NoDup l : NoDup (ids (dict_of_pairs l)).
Proof. apply dict_of_pairs_gen. constructor. Qed.

Lemma dict_of_pairs_id_gen l : forall d,
  NoDup (ids d ++ map fst l) ->
  fold_left (fun d kv => dict_set (fst kv) (snd kv) d) l d = d ++ l.
Proof.
  induction l as [|[k v] l IH]; simpl; intros d H.
  - rewrite app_nil_r; auto.
  - assert (~ In k (ids d)).
    { intros Hi. apply NoDup_remove_2 in H. apply H. apply in_or_app; auto. }
    rewrite dict_set_new by auto. rewrite IH.
    + rewrite <- app_assoc; auto.
    + rewrite ids_app. simpl. rewrite <- app_assoc. simpl. auto.
Qed.

(* a list of pairs with distinct keys IS its dict *)
Lemma dict_of_pairs_id l : NoDup (map fst l) -> dict_of_pairs l = l.
Proof. intros H. unfold dict_of_pairs. rewrite dict_of_pairs_id_gen; auto. Qed.

Lemma dict_of_pairs_In_gen l : forall d x,
  In x (fold_left (fun d kv => dict_set (fst kv) (snd kv) d) l d) -> In x d \/ In x l.
Proof.
  induction l as [|[k v] l IH]; simpl; intros d x H; auto.
  destruct (IH _ _ H) as [H1|H1]; auto.
  destruct (dict_set_In _ _ _ _ H1); auto.
Qed.

Lemma dict_of_pairs_In l x : In x (dict_of_pairs l) -> In x l.
Proof. intros H. destruct (dict_of_pairs_In_gen _ _ _ H) as [[]|]; auto. Qed.

(* dict_remove *)
Lemma dict_remove_filter k d :
  NoDup (ids d) -> dict_remove k d = filter (fun kv => negb (fst kv =? k)) d.
Proof.
  induction d as [|[k' v'] r IH]; simpl; intros H; auto.
  inversion H as [|? ? Hnot Hn]; subst.
  destruct (k =? k') eqn:E.
  - apply Z.eqb_eq in E. subst k'. rewrite Z.eqb_refl. simpl.
    symmetry. apply filter_all_id. intros [a b] Hin. simpl.
    destruct (a =? k) eqn:E2; auto. apply Z.eqb_eq in E2. subst.
    exfalso. apply Hnot. apply (in_map fst) in Hin. auto.
  - rewrite Z.eqb_sym, E. simpl. f_equal. auto.
Qed.

Lemma sortedk_filter f pl : sortedk pl -> sortedk (filter f pl).
Proof.
  induction pl as [|kv r IH]; simpl; auto.
  intros [H1 H2]. destruct (f kv); simpl; auto. split; auto.
  rewrite Forall_forall in *. intros x Hx. apply filter_In in Hx. apply H1, Hx.
Qed.

Lemma dict_remove_sorted k pl : sortedk pl -> sortedk (dict_remove k pl).
Proof. intros H. rewrite dict_remove_filter by (apply sortedk_NoDup; auto). apply sortedk_filter; auto. Qed.

Lemma dict_remove_length k d : In k (ids d) -> S (List.length (dict_remove k d)) = List.length d.
Proof.
  induction d as [|[k' v'] r IH]; simpl; intros H; [tauto|].
  destruct (k =? k') eqn:E; simpl; auto.
  apply Z.eqb_neq in E. destruct H; [congruence|]. rewrite IH; auto.
Qed.

(* ------------------------------------------------------------ sorting *)
Lemma insert_by_id_perm kv l : Permutation (kv :: l) (insert_by_id kv l).
Proof.
  induction l as [|kv' r IH]; simpl; auto.
  destruct (fst kv <=? fst kv'); auto.
  eapply perm_trans; [apply perm_swap|]. apply perm_skip; auto.
Qed.

Lemma sort_by_id_perm d : Permutation d (sort_by_id d).
Proof.
  induction d as [|kv r IH]; simpl; auto.
  eapply perm_trans; [|apply insert_by_id_perm]. apply perm_skip; auto.
Qed.

Lemma insert_by_id_sorted kv l :
  sortedk l -> ~ In (fst kv) (ids l) -> sortedk (insert_by_id kv l).
Proof.
  induction l as [|kv' r IH]; simpl; intros Hs Hn; auto.
  destruct Hs as [H1 H2].
  destruct (fst kv <=? fst kv') eqn:E.
  - apply Z.leb_le in E. simpl. repeat split; auto.
    constructor; [lia|]. rewrite Forall_forall in *. intros x Hx. specialize (H1 _ Hx). lia.
  - apply Z.leb_gt in E. simpl. split.
    + rewrite Forall_forall in *. intros x Hx.
      apply (Permutation_in _ (Permutation_sym (insert_by_id_perm kv r))) in Hx.
      destruct Hx as [Hx|Hx]; [subst; lia|auto].
    + apply IH; auto.
Qed.

Lemma sort_by_id_sorted d : NoDup (ids d) -> sortedk (sort_by_id d).
Proof.
  induction d as [|kv r IH]; simpl; intros H; auto.
  inversion H as [|? ? Hnot Hn]; subst.
  apply insert_by_id_sorted; auto.
  intros Hin. apply Hnot.
  apply (Permutation_in _ (Permutation_sym (Permutation_map fst (sort_by_id_perm r)))) in Hin. auto.
Qed.

Lemma insert_by_id_head kv l : Forall (fun x => fst kv < fst x) l -> insert_by_id kv l = kv :: l.
Proof.
  destruct l as [|kv' r]; simpl; auto. intros H. inversion H; subst.
  destruct (fst kv <=? fst kv') eqn:E; auto. apply Z.leb_gt in E. lia.
Qed.

Lemma sort_by_id_id d : sortedk d -> sort_by_id d = d.
Proof.
  induction d as [|kv r IH]; simpl; auto. intros [H1 H2].
  rewrite IH by auto. apply insert_by_id_head; auto.
Qed.

Lemma sort_by_id_In d x : In x (sort_by_id d) <-> In x d.
Proof.
  split; intros H.
  - eapply Permutation_in; [apply Permutation_sym, sort_by_id_perm|auto].
  - eapply Permutation_in; [apply sort_by_id_perm|auto].
Qed.

Lemma sort_by_id_ids_In d x : In x (ids (sort_by_id d)) <-> In x (ids d).
Proof.
  split; intros H.
  - eapply Permutation_in; [apply Permutation_sym, Permutation_map, sort_by_id_perm|auto].
  - eapply Permutation_in; [apply Permutation_map, sort_by_id_perm|auto].
Qed.

Lemma sort_by_id_NoDup d : NoDup (ids d) -> NoDup (ids (sort_by_id d)).
Proof. intros H. eapply Permutation_NoDup; [apply Permutation_map, sort_by_id_perm|auto]. Qed.

Lemma sort_by_id_length d : List.length (sort_by_id d) = List.length d.
Proof. symmetry. apply Permutation_length, sort_by_id_perm. Qed.

(* two sorted association lists with the same entries are equal *)
Lemma sortedk_ext a : forall b, sortedk a -> sortedk b -> (forall x, In x a <-> In x b) -> a = b.
Proof.
  induction a as [|x a IH]; intros [|y b] Ha Hb H; auto.
  - exfalso. apply (proj2 (H y)). left; auto.
  - exfalso. apply (proj1 (H x)). left; auto.
  - simpl in Ha, Hb. destruct Ha as [Ha1 Ha2], Hb as [Hb1 Hb2].
    rewrite Forall_forall in Ha1, Hb1.
    assert (x = y).
    { destruct (proj1 (H x) (or_introl eq_refl)) as [E|E]; [auto|].
      destruct (proj2 (H y) (or_introl eq_refl)) as [E'|E']; [auto|].
      specialize (Ha1 _ E'). specialize (Hb1 _ E). lia. }
    subst y. f_equal. apply IH; auto.
    intros z; split; intros Hz.
    + destruct (proj1 (H z) (or_intror Hz)) as [E|E]; [|auto].
      subst z. specialize (Ha1 _ Hz). lia.
    + destruct (proj2 (H z) (or_intror Hz)) as [E|E]; [|auto].
      subst z. specialize (Hb1 _ Hz). lia.
Qed.

(* ------------------------------------------------------- constructors *)
Lemma pl_of_dict_sorted d : sortedk (pl_of_dict d).
Proof. apply sort_by_id_sorted, dict_of_pairs_NoDup. Qed.

Lemma pl_of_phases_sorted idl ps : sortedk (pl_of_phases idl ps).
Proof. apply sort_by_id_sorted, dict_of_pairs_NoDup. Qed.

Lemma fields_loop_NoDup nm pg idl n : forall i it d r,
  NoDup (ids d) -> fields_loop nm pg idl i n it d = Ok r -> NoDup (ids r).
Proof.
  induction n as [|n IH]; simpl; intros i it d r Hd H.
  - inversion H; subst; auto.
  - destruct (nth_error idl i).
    + eapply IH; [|exact H]. apply dict_set_NoDup; auto.
    + destruct idl; [discriminate|]. eapply IH; [|exact H]. apply dict_set_NoDup; auto.
Qed.

Lemma pl_of_fields_sorted nm pg idl pl : pl_of_fields nm pg idl = Ok pl -> sortedk pl.
Proof.
  unfold pl_of_fields. intros H.
  match type of H with context [fields_loop ?a ?b ?c ?d ?e ?f ?g] =>
    destruct (fields_loop a b c d e f g) eqn:E end; [|discriminate].
  inversion H; subst. apply sort_by_id_sorted. eapply fields_loop_NoDup; [|exact E]. constructor.
Qed.

(* a list of phases without explicit ids is numbered 0, 1, 2, ... in list order *)
Lemma seq_NoDup_Z n s : NoDup (map Z.of_nat (seq s n)).
Proof.
  apply FinFun.Injective_map_NoDup; [|apply seq_NoDup].
  intros a b H. lia.
Qed.

Lemma combine_fst_NoDup {A B} (a : list A) (b : list B) : NoDup a -> NoDup (map fst (combine a b)).
Proof.
  revert b. induction a as [|x a IH]; intros [|y b] H; simpl; try constructor.
  - inversion H; subst. intros Hin. apply in_map_iff in Hin. destruct Hin as [[p q] [E Hin]].
    simpl in E. subst. apply in_combine_l in Hin. auto.
  - inversion H; subst. auto.
Qed.

Lemma sortedZ_seq n : forall s, sortedZ (map Z.of_nat (seq s n)).
Proof.
  induction n as [|n IH]; simpl; intros s; auto. split; auto.
  rewrite Forall_map. apply Forall_forall. intros x Hx. apply in_seq in Hx. lia.
Qed.

Lemma sortedk_combine (a : list Z) (b : list phase) : sortedZ a -> sortedk (combine a b).
Proof.
  revert b. induction a as [|x a IH]; intros [|y b] H; simpl; auto.
  destruct H as [H1 H2]. split; auto.
  rewrite Forall_forall in *. intros [p q] Hin. simpl. apply in_combine_l in Hin. auto.
Qed.

Lemma pl_of_phases_default ps :
  pl_of_phases None ps = combine (map Z.of_nat (seq 0 (List.length ps))) ps.
Proof.
  unfold pl_of_phases. rewrite dict_of_pairs_id.
  - apply sort_by_id_id, sortedk_combine, sortedZ_seq.
  - apply combine_fst_NoDup, seq_NoDup_Z.
Qed.

(* --------------------------------------------------------------- add *)
Lemma maxZ_ge l : forall x, x <= maxZ x l /\ Forall (fun y => y <= maxZ x l) l.
Proof.
  induction l as [|y r IH]; simpl; intros x; [split; [lia|constructor]|].
  destruct (IH (Z.max x y)) as [H1 H2]. split; [lia|]. constructor; [lia|auto].
Qed.

Lemma new_id_gt pl : Forall (fun x => x < new_id pl) (ids pl).
Proof.
  unfold new_id. destruct (ids pl) as [|x r]; [constructor|].
  destruct (maxZ_ge r x) as [H1 H2]. constructor; [lia|].
  eapply Forall_impl; [|exact H2]. simpl; intros; lia.
Qed.

Lemma maxZ_in l : forall x, maxZ x l = x \/ In (maxZ x l) l.
Proof.
  induction l as [|y r IH]; simpl; intros x; auto.
  destruct (IH (Z.max x y)) as [H|H]; [|auto].
  rewrite H. destruct (Z.max_spec x y) as [[_ E]|[_ E]]; rewrite E; auto.
Qed.

Lemma new_id_lower pl b : Forall (fun x => b <= x) (ids pl) -> b <= -1 -> b < new_id pl.
Proof.
  unfold new_id. destruct (ids pl) as [|x r]; [lia|]. intros H Hb.
  destruct (maxZ_in r x) as [E|E].
  - rewrite E. inversion H; subst. lia.
  - inversion H as [|? ? ? Hr]; subst. rewrite Forall_forall in Hr. specialize (Hr _ E). lia.
Qed.

Lemma sortedk_snoc pl kv : sortedk pl -> Forall (fun x => x < fst kv) (ids pl) -> sortedk (pl ++ [kv]).
Proof.
  induction pl as [|x r IH]; simpl; intros Hs Hf; [split; constructor|].
  destruct Hs as [H1 H2]. inversion Hf; subst. split; [|auto].
  apply Forall_app; split; auto.
Qed.

Lemma new_id_fresh pl : ~ In (new_id pl) (ids pl).
Proof.
  intros H. pose proof (new_id_gt pl) as G. rewrite Forall_forall in G. specialize (G _ H). lia.
Qed.

Lemma add_one_eq pl p : dict_set (new_id pl) p pl = pl ++ [(new_id pl, p)].
Proof. apply dict_set_new, new_id_fresh. Qed.

Lemma add_sorted ps : forall pl, sortedk pl -> sortedk (fst (add pl ps)).
Proof.
  induction ps as [|p r IH]; simpl; intros pl H; auto.
  destruct (memS (pname p) (names pl)); simpl; auto.
  apply IH. rewrite add_one_eq. apply sortedk_snoc; auto. apply new_id_gt.
Qed.

(* adding a phase whose name is present is rejected, the list is unchanged *)
Lemma add_present_rejected pl p r :
  In (pname p) (names pl) -> add pl (p :: r) = (pl, Some ValueError).
Proof. intros H. simpl. apply memS_In in H. rewrite H. auto. Qed.

(* adding a phase with a fresh name appends it with id max+1 *)
Lemma add_fresh pl p :
  ~ In (pname p) (names pl) -> add pl [p] = (pl ++ [(new_id pl, p)], None).
Proof.
  intros H. simpl. destruct (memS (pname p) (names pl)) eqn:E.
  - apply memS_In in E. tauto.
  - rewrite add_one_eq. auto.
Qed.

Lemma names_app a b : names (a ++ b) = names a ++ names b.
Proof. apply map_app. Qed.

(* names stay pairwise distinct under add *)
Lemma add_names_NoDup ps : forall pl, NoDup (names pl) -> NoDup (names (fst (add pl ps))).
Proof.
  induction ps as [|p r IH]; simpl; intros pl H; auto.
  destruct (memS (pname p) (names pl)) eqn:E; simpl; auto.
  apply IH. rewrite add_one_eq, names_app. simpl.
  apply NoDup_app_intro_single; auto. intros Hin. apply memS_In in Hin. congruence.
Qed.

(* existing entries keep their place; new ones follow *)
Lemma add_prefix ps : forall pl, exists ext, fst (add pl ps) = pl ++ ext /\
  Forall (fun kv => In (snd kv) ps /\ ~ In (fst kv) (ids pl)) ext.
Proof.
  induction ps as [|p r IH]; simpl; intros pl.
  - exists []. rewrite app_nil_r. auto.
  - destruct (memS (pname p) (names pl)); simpl.
    + exists []. rewrite app_nil_r. auto.
    + destruct (IH (dict_set (new_id pl) p pl)) as [ext [E F]].
      rewrite add_one_eq in *. exists ((new_id pl, p) :: ext). split.
      * rewrite E, <- app_assoc. auto.
      * constructor; [simpl; split; [auto|apply new_id_fresh]|].
        eapply Forall_impl; [|exact F]. simpl. intros kv [H1 H2]. split; [auto|].
        intros Hin. apply H2. rewrite ids_app. apply in_or_app; auto.
Qed.

(* the error is raised exactly when some name clashes with the list or an earlier added phase *)
Lemma add_ok_iff ps : forall pl,
  snd (add pl ps) = None <-> (NoDup (map pname ps) /\ forall p, In p ps -> ~ In (pname p) (names pl)).
Proof.
  induction ps as [|p r IH]; simpl; intros pl.
  - split; auto. intros _. split; [constructor|tauto].
  - destruct (memS (pname p) (names pl)) eqn:E; simpl.
    + apply memS_In in E. split; [discriminate|]. intros [_ H]. exfalso. eapply H; eauto.
    + rewrite IH, add_one_eq, names_app. simpl.
      assert (Hn : ~ In (pname p) (names pl)) by (intros Hin; apply memS_In in Hin; congruence).
      split.
      * intros [H1 H2]. split.
        -- constructor; auto. intros Hin. apply in_map_iff in Hin. destruct Hin as [q [Eq Hq]].
           apply (H2 q Hq). apply in_or_app. right. simpl. auto.
        -- intros q [Hq|Hq]; [subst; auto|]. intros Hin. apply (H2 q Hq). apply in_or_app; auto.
      * intros [H1 H2]. inversion H1; subst. split; auto.
        intros q Hq Hin. apply in_app_or in Hin. destruct Hin as [Hin|[Hin|[]]].
        -- eapply H2; eauto.
        -- apply H3. rewrite Hin. apply in_map; auto.
Qed.

(* --------------------------------------------------- add_not_indexed *)
Lemma add_not_indexed_sorted pl : sortedk pl -> sortedk (add_not_indexed pl).
Proof. intros H. apply sort_by_id_sorted, dict_set_NoDup, sortedk_NoDup, H. Qed.

Lemma dict_set_sorted_old k v pl : sortedk pl -> In k (ids pl) -> sortedk (dict_set k v pl).
Proof.
  intros H Hin. apply sortedk_ids. rewrite ids_dict_set_old by auto. apply sortedk_ids; auto.
Qed.

(* -1 absent, all ids above -1: the not_indexed phase goes to the front *)
Lemma add_not_indexed_new pl :
  sortedk pl -> Forall (fun x => -1 < x) (ids pl) -> add_not_indexed pl = (-1, ni_phase) :: pl.
Proof.
  intros Hs Hf. unfold add_not_indexed.
  assert (Hn : ~ In (-1) (ids pl)).
  { intros Hin. rewrite Forall_forall in Hf. specialize (Hf _ Hin). lia. }
  rewrite dict_set_new by auto.
  apply sortedk_ext.
  - apply sort_by_id_sorted. rewrite ids_app. simpl. apply NoDup_app_intro_single; auto.
    apply sortedk_NoDup; auto.
  - simpl. split; auto. unfold ids in Hf. rewrite Forall_map in Hf. auto.
  - intros x. rewrite sort_by_id_In, in_app_iff. simpl. tauto.
Qed.

(* -1 present: the entry is replaced in place, nothing else changes *)
Lemma add_not_indexed_old pl :
  sortedk pl -> In (-1) (ids pl) -> add_not_indexed pl = dict_set (-1) ni_phase pl.
Proof. intros Hs Hin. apply sort_by_id_id, dict_set_sorted_old; auto. Qed.

Lemma add_not_indexed_get pl j :
  NoDup (ids pl) ->
  dict_get j (add_not_indexed pl) = if j =? -1 then Some ni_phase else dict_get j pl.
Proof.
  intros Hn. unfold add_not_indexed. rewrite <- dict_get_set.
  destruct (dict_get j (dict_set (-1) ni_phase pl)) eqn:E.
  - apply dict_get_In in E. apply In_dict_get.
    + apply sort_by_id_NoDup, dict_set_NoDup; auto.
    + apply sort_by_id_In; auto.
  - apply dict_get_None in E. apply dict_get_None. rewrite sort_by_id_ids_In. auto.
Qed.

Lemma add_not_indexed_ids pl x : In x (ids (add_not_indexed pl)) <-> x = -1 \/ In x (ids pl).
Proof. unfold add_not_indexed. rewrite sort_by_id_ids_In. apply dict_set_In_ids. Qed.

Lemma add_not_indexed_In pl x : In x (add_not_indexed pl) -> x = (-1, ni_phase) \/ In x pl.
Proof. unfold add_not_indexed. rewrite sort_by_id_In. apply dict_set_In. Qed.

(* -------------------------------------------------------------- del *)
Lemma first_id_with_name_In s pl i : first_id_with_name s pl = Some i -> In i (ids pl).
Proof.
  induction pl as [|[k p] r IH]; simpl; [discriminate|].
  destruct (String.eqb s (pname p)); [intros H; inversion H; auto|auto].
Qed.

Lemma del_sorted pl k pl' : sortedk pl -> del pl k = Ok pl' -> sortedk pl'.
Proof.
  destruct k as [i|s|]; simpl; intros Hs H.
  - destruct (memZ i (ids pl)); inversion H; subst. apply dict_remove_sorted; auto.
  - destruct (first_id_with_name s pl); inversion H; subst. apply dict_remove_sorted; auto.
  - discriminate.
Qed.

(* deleting by id removes exactly that entry; a missing id is a KeyError *)
Lemma del_int_spec pl i : sortedk pl ->
  del pl (DelInt i) = if memZ i (ids pl) then Ok (filter (fun kv => negb (fst kv =? i)) pl) else Err KeyError.
Proof.
  intros H. simpl. destruct (memZ i (ids pl)); auto.
  rewrite dict_remove_filter; auto. apply sortedk_NoDup; auto.
Qed.

Lemma del_str_spec pl s : sortedk pl ->
  del pl (DelStr s) = match first_id_with_name s pl with
                      | Some i => Ok (filter (fun kv => negb (fst kv =? i)) pl)
                      | None => Err KeyError
                      end.
Proof.
  intros H. simpl. destruct (first_id_with_name s pl); auto.
  rewrite dict_remove_filter; auto. apply sortedk_NoDup; auto.
Qed.

Lemma first_id_with_name_None s pl : first_id_with_name s pl = None <-> ~ In s (names pl).
Proof.
  induction pl as [|[k p] r IH]; simpl; [tauto|].
  destruct (String.eqb s (pname p)) eqn:E.
  - apply String.eqb_eq in E. split; [discriminate|]. intros H; exfalso; apply H; auto.
  - apply String.eqb_neq in E. rewrite IH. split; intros H; [intros [H1|H1]; [congruence|tauto]|tauto].
Qed.

(* ------------------------------------------------------------ index *)
(* what `pack` returns for a selection that is already in id order *)
Definition the_result (r : ires) (sel : plist) : Prop :=
  match sel with
  | [] => r = IErr KeyError
  | [kv] => r = IOne (snd kv)
  | _ => r = IMany sel
  end.

Lemma pack_sorted d : sortedk d -> the_result (pack d) d.
Proof.
  intros H. destruct d as [|a [|b r]]; simpl; auto.
  f_equal. change (sort_by_id (a :: b :: r) = a :: b :: r). apply sort_by_id_id; auto.
Qed.

Lemma pack_sort d : the_result (pack d) (sort_by_id d).
Proof.
  destruct d as [|a [|b r]]; [simpl; auto..|].
  pose proof (sort_by_id_length (a :: b :: r)) as L.
  unfold pack. remember (sort_by_id (a :: b :: r)) as t.
  destruct t as [|x [|y t]]; simpl in L; try discriminate. reflexivity.
Qed.

Lemma filter_NoDup_ids f (pl : plist) : NoDup (ids pl) -> NoDup (ids (filter f pl)).
Proof.
  induction pl as [|kv r IH]; simpl; intros H; auto. inversion H; subst.
  destruct (f kv); simpl; auto. constructor; auto.
  intros Hin. apply H2. apply in_map_iff in Hin. destruct Hin as [x [E Hx]].
  apply filter_In in Hx. rewrite <- E. apply in_map. tauto.
Qed.

(* indexing by ids: exactly the entries with those ids, in id order; KeyError for a missing id *)
Lemma by_ids_spec pl ks : sortedk pl ->
  (forall k, In k ks -> In k (ids pl)) ->
  the_result (by_ids pl ks) (filter (fun kv => memZ (fst kv) ks) pl).
Proof.
  intros Hs Hin. unfold by_ids.
  replace (forallb (fun k => memZ k (ids pl)) ks) with true.
  - apply pack_sorted, sortedk_filter; auto.
  - symmetry. apply forallb_forall. intros k Hk. apply memZ_In; auto.
Qed.

Lemma by_ids_missing pl ks k : In k ks -> ~ In k (ids pl) -> by_ids pl ks = IErr KeyError.
Proof.
  intros H1 H2. unfold by_ids.
  destruct (forallb (fun k => memZ k (ids pl)) ks) eqn:E; auto.
  rewrite forallb_forall in E. specialize (E _ H1). apply memZ_In in E. tauto.
Qed.

(* indexing by names: exactly the entries whose name is among the keys *)
Lemma by_names_spec pl ks : sortedk pl ->
  the_result (by_names pl ks) (filter (fun kv => memS (pname (snd kv)) ks) pl).
Proof. intros Hs. apply pack_sorted, sortedk_filter; auto. Qed.

(* results that are lists are sorted *)
Lemma pack_IMany_sorted d pl : NoDup (ids d) -> pack d = IMany pl -> sortedk pl.
Proof.
  intros Hn H. destruct d as [|a [|b r]]; try discriminate.
  unfold pack in H. injection H as <-.
  change (sortedk (sort_by_id (a :: b :: r))). apply sort_by_id_sorted; auto.
Qed.

(* --- python slices --- *)
Lemma range_from_pos fuel : forall i stop step x,
  0 < step -> In x (range_from fuel i stop step) -> i <= x < stop.
Proof.
  induction fuel as [|f IH]; simpl; intros i stop step x Hs H; [tauto|].
  replace (0 <? step) with true in H by (symmetry; apply Z.ltb_lt; auto).
  destruct (i <? stop) eqn:E; [|inversion H]. apply Z.ltb_lt in E.
  destruct H as [H|H]; [subst; lia|]. specialize (IH _ _ _ _ Hs H). lia.
Qed.

Lemma range_from_neg fuel : forall i stop step x,
  step < 0 -> In x (range_from fuel i stop step) -> stop < x <= i.
Proof.
  induction fuel as [|f IH]; simpl; intros i stop step x Hs H; [tauto|].
  replace (0 <? step) with false in H by (symmetry; apply Z.ltb_ge; lia).
  destruct (stop <? i) eqn:E; [|inversion H]. apply Z.ltb_lt in E.
  destruct H as [H|H]; [subst; lia|]. specialize (IH _ _ _ _ Hs H). lia.
Qed.

Lemma range_from_NoDup fuel : forall i stop step, step <> 0 -> NoDup (range_from fuel i stop step).
Proof.
  induction fuel as [|f IH]; simpl; intros i stop step Hs; [constructor|].
  destruct (0 <? step) eqn:E0.
  - apply Z.ltb_lt in E0. destruct (i <? stop); [|constructor]. constructor; auto.
    intros H. apply range_from_pos in H; auto. lia.
  - apply Z.ltb_ge in E0. destruct (stop <? i); [|constructor]. constructor; auto.
    intros H. apply range_from_neg in H; lia.
Qed.

Lemma slice_indices_NoDup n a b s l : slice_indices n a b s = Some l -> NoDup l.
Proof.
  unfold slice_indices. destruct (match s with Some x => x | None => 1 end =? 0) eqn:E; [discriminate|].
  intros H. inversion H; subst. apply range_from_NoDup. apply Z.eqb_neq in E. auto.
Qed.

(* step-1 ranges are intervals *)
Lemma range_from_step1 fuel : forall i,
  range_from fuel i (i + Z.of_nat fuel) 1 = map (fun j => i + Z.of_nat j) (seq 0 fuel).
Proof.
  induction fuel as [|f IH]; intros i; [reflexivity|].
  cbn [range_from]. replace (0 <? 1) with true by reflexivity.
  replace (i <? i + Z.of_nat (S f)) with true by (symmetry; apply Z.ltb_lt; lia).
  cbn [seq map]. f_equal; [f_equal; lia|].
  replace (i + Z.of_nat (S f)) with ((i + 1) + Z.of_nat f) by lia.
  rewrite IH, <- seq_shift, map_map. apply map_ext. intros; lia.
Qed.

Lemma range_from_more_fuel fuel : forall i stop extra,
  stop <= i + Z.of_nat fuel ->
  range_from (fuel + extra) i stop 1 = range_from fuel i stop 1.
Proof.
  induction fuel as [|f IH]; intros i stop extra H.
  - simpl. destruct extra; simpl; auto. replace (i <? stop) with false; auto.
    symmetry. apply Z.ltb_ge. simpl in H. lia.
  - cbn [Nat.add range_from]. replace (0 <? 1) with true by reflexivity.
    destruct (i <? stop); auto. f_equal. apply IH. lia.
Qed.

Lemma range_from_In_step1 fuel i stop x :
  stop <= i + Z.of_nat fuel -> (In x (range_from fuel i stop 1) <-> i <= x < stop).
Proof.
  intros H. split; [apply range_from_pos; lia|].
  intros Hx.
  destruct (Z_le_gt_dec stop i) as [Hle|Hgt]; [lia|].
  set (m := Z.to_nat (stop - i)).
  assert (Hm : (m <= fuel)%nat) by (unfold m; lia).
  replace fuel with (m + (fuel - m))%nat by lia.
  rewrite range_from_more_fuel by (unfold m; lia).
  replace stop with (i + Z.of_nat m) by (unfold m; lia).
  rewrite range_from_step1. apply in_map_iff. exists (Z.to_nat (x - i)). split; [lia|].
  apply in_seq. unfold m. lia.
Qed.

Lemma entries_of_In pl l x : In x (entries_of pl l) <-> In (fst x) l /\ dict_get (fst x) pl = Some (snd x).
Proof.
  unfold entries_of. rewrite in_flat_map. split.
  - intros [i [Hi Hx]]. destruct (dict_get i pl) eqn:E; [|inversion Hx].
    destruct Hx as [Hx|[]]. subst x. simpl. auto.
  - intros [H1 H2]. exists (fst x). split; auto. rewrite H2. destruct x; simpl; auto.
Qed.

Lemma entries_of_NoDup pl l : NoDup l -> NoDup (ids (entries_of pl l)).
Proof.
  induction l as [|i r IH]; simpl; intros H; [constructor|]. inversion H; subst.
  destruct (dict_get i pl); simpl; auto. constructor; auto.
  intros Hin. apply in_map_iff in Hin. destruct Hin as [x [E Hx]].
  apply entries_of_In in Hx. rewrite E in Hx. tauto.
Qed.

(* slice indexing: the ids are taken relative to the first id of
   arange(first, max + 1), first = -1 when the list starts with not_indexed *)
Definition slice_start (pl : plist) : Z :=
  match ids pl with i0 :: _ => if i0 =? -1 then -1 else 0 | [] => 0 end.

Definition slice_len (pl : plist) : Z :=
  match ids pl with i0 :: r => Z.max 0 (maxZ i0 r + 1 - slice_start pl) | [] => 0 end.

Lemma by_slice_spec pl a b s pos : sortedk pl -> pl <> [] ->
  slice_indices (slice_len pl) a b s = Some pos ->
  the_result (by_slice pl a b s) (filter (fun kv => memZ (fst kv - slice_start pl) pos) pl).
Proof.
  intros Hs Hne Hp. unfold by_slice, slice_len, slice_start in *.
  destruct pl as [|[i0 p0] r]; [congruence|]. cbn [ids map fst] in *.
  rewrite Hp.
  set (start := if i0 =? -1 then -1 else 0) in *.
  set (l := map (fun p => p + start) pos).
  assert (Hnd : NoDup l).
  { apply FinFun.Injective_map_NoDup; [intros x y; lia|]. eapply slice_indices_NoDup; eauto. }
  replace (filter (fun kv => memZ (fst kv - start) pos) ((i0, p0) :: r))
    with (sort_by_id (entries_of ((i0, p0) :: r) l)); [apply pack_sort|].
  apply sortedk_ext.
  - apply sort_by_id_sorted, entries_of_NoDup; auto.
  - apply sortedk_filter; auto.
  - intros x. rewrite sort_by_id_In, entries_of_In, filter_In, memZ_In.
    unfold l. rewrite in_map_iff. split.
    + intros [[y [E Hy]] H2]. split.
      * destruct x; apply dict_get_In; auto.
      * replace (fst x - start) with y by lia. auto.
    + intros [H1 H2]. split.
      * exists (fst x - start). split; [lia|auto].
      * destruct x. apply In_dict_get; auto. apply (sortedk_NoDup _ Hs).
Qed.

Lemma by_slice_step0 pl a b : pl <> [] -> by_slice pl a b (Some 0) = IErr ValueError.
Proof. destruct pl as [|[i p] r]; [congruence|]. reflexivity. Qed.

(* every list returned by indexing is sorted *)
Lemma index_IMany_sorted pl k pl' : sortedk pl -> index pl k = IMany pl' -> sortedk pl'.
Proof.
  intros Hs H.
  assert (Hn := sortedk_NoDup _ Hs).
  assert (Hids : forall ks, by_ids pl ks = IMany pl' -> sortedk pl').
  { intros ks. unfold by_ids. destruct (forallb _ ks); [|discriminate].
    apply pack_IMany_sorted, filter_NoDup_ids; auto. }
  assert (Hnm : forall ks, by_names pl ks = IMany pl' -> sortedk pl').
  { intros ks. apply pack_IMany_sorted, filter_NoDup_ids; auto. }
  destruct k as [i|s|c l|c l|a b s]; simpl in H; eauto.
  - destruct c, l; try discriminate; eauto.
  - destruct c, l; try discriminate; eauto.
  - unfold by_slice in H. destruct (ids pl) as [|i0 r]; [discriminate|].
    match type of H with context [slice_indices ?n a b s] => destruct (slice_indices n a b s) eqn:E end;
      [|discriminate].
    eapply pack_IMany_sorted; [|exact H]. apply entries_of_NoDup.
    apply FinFun.Injective_map_NoDup; [intros x y; lia|]. eapply slice_indices_NoDup; eauto.
Qed.

(* ----------------------------------------------------- all histories *)
Lemma pl_step_sorted pl o : sortedk pl -> sortedk (pl_step pl o).
Proof.
  intros H. destruct o as [ps|k| | |k]; simpl.
  - apply add_sorted; auto.
  - destruct (del pl k) eqn:E; auto. eapply del_sorted; eauto.
  - apply add_not_indexed_sorted; auto.
  - rewrite sort_by_id_id; auto.
  - destruct (index pl k) eqn:E; auto. eapply index_IMany_sorted; eauto.
Qed.

Theorem pl_run_sorted ops : forall pl, sortedk pl -> sortedk (pl_run ops pl).
Proof.
  unfold pl_run. induction ops as [|o r IH]; simpl; intros pl H; auto.
  apply IH, pl_step_sorted, H.
Qed.

(* pl[a:b] with 0 <= a <= b : exactly the phases whose id, counted from the first
   id of arange(first, max + 1), lies in [a, b) -- i.e. ids in [a, b) for a list
   without not_indexed, ids in [a - 1, b - 1) for a list starting with id -1 *)
Theorem slice_contiguous pl a b : sortedk pl -> pl <> [] -> 0 <= a -> 0 <= b ->
  the_result (index pl (KSlice (Some a) (Some b) None))
    (filter (fun kv => (a <=? fst kv - slice_start pl) && (fst kv - slice_start pl <? b)) pl).
Proof.
  intros Hs Hne Ha Hb. cbn [index].
  set (n := slice_len pl).
  assert (Hn0 : 0 <= n).
  { unfold n, slice_len. destruct (ids pl); lia. }
  assert (Hmax : forall x, In x (ids pl) -> x - slice_start pl < n).
  { unfold n, slice_len, slice_start. destruct (ids pl) as [|i0 r]; [intros x []|].
    intros x Hx. destruct (maxZ_ge r i0) as [M1 M2]. rewrite Forall_forall in M2.
    destruct Hx as [Hx|Hx]; [subst|specialize (M2 _ Hx)]; lia. }
  assert (Hp : slice_indices n (Some a) (Some b) None
               = Some (range_from (Z.to_nat n) (Z.min a n) (Z.min b n) 1)).
  { unfold slice_indices. simpl.
    replace (a <? 0) with false by (symmetry; apply Z.ltb_ge; lia).
    replace (b <? 0) with false by (symmetry; apply Z.ltb_ge; lia). auto. }
  pose proof (by_slice_spec pl (Some a) (Some b) None _ Hs Hne Hp) as R.
  replace (filter (fun kv => (a <=? fst kv - slice_start pl) && (fst kv - slice_start pl <? b)) pl)
    with (filter (fun kv => memZ (fst kv - slice_start pl)
                              (range_from (Z.to_nat n) (Z.min a n) (Z.min b n) 1)) pl); auto.
  apply filter_ext_in. intros [i p] Hi. simpl.
  specialize (Hmax i (in_map fst _ _ Hi)). simpl in Hmax.
  destruct ((a <=? i - slice_start pl) && (i - slice_start pl <? b)) eqn:E.
  - apply andb_true_iff in E. destruct E as [E1 E2]. apply Z.leb_le in E1. apply Z.ltb_lt in E2.
    apply memZ_In, range_from_In_step1; lia.
  - apply memZ_false. intros HI. apply range_from_In_step1 in HI; [|lia].
    apply andb_false_iff in E. destruct E as [E|E]; [apply Z.leb_gt in E|apply Z.ltb_ge in E]; lia.
Qed.
