(* C14 -- lemmas on the data part of the codec: rows written by the writer,
   columns and names as the reader finds them, alias table. *)
From Coq Require Import ZArith String Ascii List Bool Lia.
From Verif Require Import C14Ang.
Import ListNotations.
Open Scope Z_scope.

(* ---------------------------------------------------------------- options *)
Lemma sequence_map_inv : forall {A B} (f : A -> option B) l l',
  sequence (map f l) = Some l' -> map f l = map Some l'.
Proof.
  intros A B f. induction l as [|x r IH]; intros l' H; simpl in *.
  - inversion H. reflexivity.
  - destruct (f x) as [b|] eqn:E; simpl in H; [|discriminate].
    destruct (sequence (map f r)) as [r'|] eqn:E2; simpl in H; [|discriminate].
    inversion H. subst. simpl. rewrite (IH r' eq_refl). reflexivity.
Qed.

Lemma sequence_map_some : forall {A B} (f : A -> option B) (g : A -> B) l,
  (forall x, In x l -> f x = Some (g x)) -> sequence (map f l) = Some (map g l).
Proof.
  intros A B f g. induction l as [|x r IH]; intros H; simpl; [reflexivity|].
  rewrite (H x) by (left; reflexivity). simpl. rewrite IH; [reflexivity|].
  intros y Hy. apply H. right. exact Hy.
Qed.

Lemma sequence_map_total : forall {A B} (f : A -> option B) (d : B) l l',
  sequence (map f l) = Some l' -> l' = map (fun x => match f x with Some b => b | None => d end) l.
Proof.
  intros A B f d. induction l as [|x r IH]; intros l' H; simpl in *.
  - inversion H. reflexivity.
  - destruct (f x) as [b|] eqn:E; simpl in H; [|discriminate].
    destruct (sequence (map f r)) as [r'|] eqn:E2; simpl in H; [|discriminate].
    inversion H. subst. rewrite (IH r' eq_refl). reflexivity.
Qed.

(* ---------------------------------------------------------------- alias table *)
Fixpoint slist_eqb (a b : list string) : bool :=
  match a, b with
  | [], [] => true
  | x :: a', y :: b' => String.eqb x y && slist_eqb a' b'
  | _, _ => false
  end.
Lemma slist_eqb_eq : forall a b, slist_eqb a b = true -> a = b.
Proof.
  induction a as [|x a IH]; destruct b as [|y b]; simpl; intros H; try discriminate; [reflexivity|].
  apply andb_prop in H. destruct H as [H1 H2]. apply String.eqb_eq in H1. subst. f_equal. apply IH. exact H2.
Qed.

Definition alias_entry_ok (gp : string * string) : bool :=
  let a := alias_of (snd gp) in
  match resolve_pg a with
  | Some n => String.eqb n (snd gp)
  | None => false
  end && slist_eqb (words a) [a] && smem (snd gp) group_names.

(* every named point group: the name written for its proper subgroup is one
   word and is resolved by the reader to that proper subgroup, itself a named group *)
Lemma alias_table_all : forallb alias_entry_ok pg_table = true.
Proof. vm_compute. reflexivity. Qed.

Lemma assoc_s_in : forall {V} k (l : list (string * V)) v, assoc_s k l = Some v -> In (k, v) l.
Proof.
  intros V k. induction l as [|[k' v'] r IH]; intros v H; simpl in *; [discriminate|].
  destruct (String.eqb k k') eqn:E.
  - apply String.eqb_eq in E. inversion H. subst. left. reflexivity.
  - right. apply IH. exact H.
Qed.

Lemma alias_roundtrip : forall g pr, proper_of g = Some pr ->
  resolve_pg (alias_of pr) = Some pr /\ words (alias_of pr) = [alias_of pr].
Proof.
  intros g pr H. apply assoc_s_in in H.
  pose proof alias_table_all as A. rewrite forallb_forall in A. specialize (A _ H).
  unfold alias_entry_ok in A. simpl in A.
  apply andb_prop in A. destruct A as [A _]. apply andb_prop in A. destruct A as [A1 A2].
  split.
  - destruct (resolve_pg (alias_of pr)) as [n|]; [|discriminate]. apply String.eqb_eq in A1. subst. reflexivity.
  - apply slist_eqb_eq. exact A2.
Qed.

Lemma alias_one : resolve_pg "1" = Some "1"%string /\ words "1" = ["1"%string].
Proof. vm_compute. split; reflexivity. Qed.

(* ---------------------------------------------------------------- names *)
Lemma last_index_notin : forall n l k, ~ In n l -> last_index n l k = None.
Proof.
  intros n. induction l as [|m r IH]; intros k H; simpl; [reflexivity|].
  rewrite IH by (intro; apply H; right; assumption).
  destruct (String.eqb n m) eqn:E; [|reflexivity].
  apply String.eqb_eq in E. subst. exfalso. apply H. left. reflexivity.
Qed.

Lemma last_index_app_notin : forall n l1 l2 k, ~ In n l2 -> last_index n (l1 ++ l2) k = last_index n l1 k.
Proof.
  intros n. induction l1 as [|m r IH]; intros l2 k H; simpl.
  - apply last_index_notin. exact H.
  - rewrite IH by exact H. reflexivity.
Qed.

Lemma last_index_nodup : forall l n i k, NoDup l -> nth_error l i = Some n -> last_index n l k = Some (k + i)%nat.
Proof.
  induction l as [|m r IH]; intros n i k Hnd Hn; [destruct i; discriminate|].
  inversion Hnd as [|? ? Hnotin Hnd']. subst. simpl. destruct i as [|i].
  - simpl in Hn. inversion Hn. subst. rewrite last_index_notin by exact Hnotin.
    rewrite String.eqb_refl. f_equal. lia.
  - simpl in Hn. rewrite (IH n i (S k) Hnd' Hn). f_equal. lia.
Qed.

Lemma last_index_app_right : forall l1 l2 n i, NoDup l2 -> nth_error l2 i = Some n ->
  last_index n (l1 ++ l2) 0 = Some (length l1 + i)%nat.
Proof.
  intros l1 l2 n i Hnd Hn.
  assert (G : forall k, last_index n (l1 ++ l2) k = Some (k + length l1 + i)%nat).
  { induction l1 as [|m r IH]; intro k; simpl.
    - rewrite (last_index_nodup l2 n i k Hnd Hn). f_equal. lia.
    - rewrite IH. f_equal. lia. }
  rewrite G. reflexivity.
Qed.

Lemma filter_id : forall {A} (f : A -> bool) l, (forall x, In x l -> f x = true) -> filter f l = l.
Proof.
  intros A f. induction l as [|x r IH]; intros H; simpl; [reflexivity|].
  rewrite (H x) by (left; reflexivity). f_equal. apply IH. intros y Hy. apply H. right. exact Hy.
Qed.

Lemma dedup_nodup : forall l, NoDup l -> dedup l = l.
Proof.
  induction l as [|x r IH]; intros H; simpl; [reflexivity|].
  inversion H as [|? ? Hnotin Hnd]. subst. rewrite IH by exact Hnd. f_equal.
  apply filter_id. intros y Hy. apply negb_true_iff. apply String.eqb_neq. intro E. subst. contradiction.
Qed.

Lemma smem_false_notin : forall n l, smem n l = false -> ~ In n l.
Proof.
  intros n l H Hin. unfold smem in H.
  assert (existsb (String.eqb n) l = true) by (apply existsb_exists; exists n; split; [exact Hin | apply String.eqb_refl]).
  congruence.
Qed.
Lemma smem_true_in : forall n l, smem n l = true -> In n l.
Proof.
  intros n l H. unfold smem in H. apply existsb_exists in H. destruct H as [x [Hx E]].
  apply String.eqb_eq in E. subst. exact Hx.
Qed.
Lemma notin_smem_false : forall n l, ~ In n l -> smem n l = false.
Proof.
  intros n l H. destruct (smem n l) eqn:E; [|reflexivity]. exfalso. apply H. apply smem_true_in. exact E.
Qed.

(* ---------------------------------------------------------------- columns *)
Lemma column_of_rows : forall {A} (F : A -> list cell) (c : A -> cell) (l : list A) j,
  (forall a, In a l -> nth_error (F a) j = Some (c a)) ->
  column (map F l) j = Some (map c l).
Proof.
  intros A F c l j H. unfold column. rewrite map_map. apply sequence_map_some. exact H.
Qed.

Lemma combine_seq_map : forall {A B} (h : nat -> B) (l : list A) s,
  map (fun kp : nat * A => h (fst kp)) (combine (seq s (length l)) l) = map h (seq s (length l)).
Proof.
  intros A B h. induction l as [|x r IH]; intro s; simpl; [reflexivity|]. rewrite IH. reflexivity.
Qed.
Lemma combine_seq_map_snd : forall {A B} (h : A -> B) (l : list A) s,
  map (fun kp : nat * A => h (snd kp)) (combine (seq s (length l)) l) = map h l.
Proof.
  intros A B h. induction l as [|x r IH]; intro s; simpl; [reflexivity|]. rewrite IH. reflexivity.
Qed.

Lemma zip3_map : forall {A} (f g h : A -> Z) (l : list A),
  zip3 (map f l) (map g l) (map h l) = map (fun a => (f a, g a, h a)) l.
Proof. intros A f g h. induction l as [|x r IH]; simpl; [reflexivity|]. rewrite IH. reflexivity. Qed.

Lemma set_not_indexed_map : forall {A} (c p : A -> Z) (l : list A),
  set_not_indexed (map c l) (map p l) = map (fun a => if c a =? ci_not_indexed5 then -1 else p a) l.
Proof.
  intros A c p. unfold set_not_indexed. induction l as [|x r IH]; simpl; [reflexivity|]. rewrite IH. reflexivity.
Qed.
