(* exact check of the Farkas certificates of the regions whose first group is number 9 of the proper groups
   (one file per first group so that make -j runs them in parallel) *)
From Coq Require Import List Bool.
From Verif Require Import CertCheck RegionCerts09.
Lemma region_certs_ok_09 : forallb rc_ok region_certs_09 = true.
Proof. vm_compute. reflexivity. Qed.
