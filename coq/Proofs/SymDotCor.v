(* C04 corollaries over the reals: the brute-force symmetry-reduced dot product
   is symmetric in its arguments and invariant under replacing an argument by a
   symmetry-equivalent orientation, for every group closed up to sign. *)
From Coq Require Import Reals ZArith Lra List Bool.
From Verif Require Import Scalar RInst QuatKernels Conversions Quat QuatAlg SymDot SymDotR.
Import ListNotations.
Local Open Scope R_scope.

Notation Rq := (quat (T:=R)).
Notation Rrot := (rot (T:=R)).

Lemma qre_conj (x : Rq) : qre (qconj ROps x) = qre x.
Proof. qdestruct. unfold qre. qunfold. reflexivity. Qed.

Lemma mis_swap (O1 O2 : Rq) : mis ROps O2 O1 = qconj ROps (mis ROps O1 O2).
Proof. unfold mis. rewrite qconj_mul, qconj_invol. reflexivity. Qed.

Lemma brute_term_swap (M : Rq) (g1 g2 : Rrot) :
  brute_term ROps (qconj ROps M) g2 g1 = brute_term ROps M g1 g2.
Proof.
  unfold brute_term. rewrite xorb_comm. destruct (xorb (snd g1) (snd g2)); [reflexivity|].
  f_equal.
  replace (qmul ROps (fst g1) (qmul ROps (qconj ROps M) (qconj ROps (fst g2))))
    with (qconj ROps (qmul ROps (fst g2) (qmul ROps M (qconj ROps (fst g1))))).
  - apply qre_conj.
  - rewrite !qconj_mul, qconj_invol, qmul_assoc. reflexivity.
Qed.

Lemma in_brute_list (G1 G2 : list Rrot) M x :
  In x (flat_map (fun g1 => map (brute_term ROps M g1) G2) G1) <->
  exists g1 g2, In g1 G1 /\ In g2 G2 /\ x = brute_term ROps M g1 g2.
Proof.
  rewrite in_flat_map. split.
  - intros [g1 [H1 H]]. apply in_map_iff in H. destruct H as [g2 [<- H2]]. exists g1, g2. auto.
  - intros [g1 [g2 [H1 [H2 ->]]]]. exists g1. split; [exact H1|]. apply in_map. exact H2.
Qed.

(* SYMMETRIC: d(O1, O2) with symmetries (G1, G2) = d(O2, O1) with (G2, G1) *)
Theorem brute_dot_symmetric (G1 G2 : list Rrot) (O1 O2 : Rq) :
  brute_dot ROps G1 G2 O1 O2 = brute_dot ROps G2 G1 O2 O1.
Proof.
  unfold brute_dot. rewrite (mis_swap O1 O2).
  apply Rle_antisym; apply omax_list_le; intros x Hx; right;
    apply in_brute_list in Hx; destruct Hx as [a [b [Ha [Hb ->]]]].
  - exists (brute_term ROps (qconj ROps (mis ROps O1 O2)) b a). split.
    + apply in_brute_list. exists b, a. auto.
    + rewrite brute_term_swap. lra.
  - exists (brute_term ROps (mis ROps O1 O2) b a). split.
    + apply in_brute_list. exists b, a. auto.
    + rewrite <- (brute_term_swap (mis ROps O1 O2) b a). lra.
Qed.

(* right-closure of a list under multiplication by a proper element, up to sign *)
Definition right_closed (G : list Rrot) (g : Rq) : Prop :=
  forall h, In h G -> exists k, In k G /\ req (rmul ROps h (g, false)) k.

Lemma qre_neg (x : Rq) : qre (qneg ROps x) = - qre x.
Proof. qdestruct. unfold qre. qunfold. reflexivity. Qed.
Lemma qmul_neg_l (p q : Rq) : qmul ROps (qneg ROps p) q = qneg ROps (qmul ROps p q).
Proof. qdestruct; qunfold; tuple_eq; ring. Qed.
Lemma qmul_neg_r (p q : Rq) : qmul ROps p (qneg ROps q) = qneg ROps (qmul ROps p q).
Proof. qdestruct; qunfold; tuple_eq; ring. Qed.
Lemma qconj_neg (p : Rq) : qconj ROps (qneg ROps p) = qneg ROps (qconj ROps p).
Proof. qdestruct; qunfold; tuple_eq; ring. Qed.

Lemma brute_term_req M h k g2 : req h k -> brute_term ROps M h g2 = brute_term ROps M k g2.
Proof.
  intros [Hs [Hq|Hq]]; unfold brute_term; rewrite Hs, Hq; [reflexivity|].
  destruct (xorb (snd k) (snd g2)); [reflexivity|].
  rewrite qconj_neg, qmul_neg_r, qmul_neg_r, qre_neg. rsimpl. apply Rabs_Ropp.
Qed.

(* one direction: replacing O1 by g*O1 can only produce values that already occur *)
Lemma brute_dot_left_equiv_le (G1 G2 : list Rrot) (g O1 O2 : Rq) :
  right_closed G1 g ->
  brute_dot ROps G1 G2 (qmul ROps g O1) O2 <= brute_dot ROps G1 G2 O1 O2.
Proof.
  intros Hc. unfold brute_dot. apply omax_list_le. intros x Hx. right.
  apply in_brute_list in Hx. destruct Hx as [h [g2 [Hh [H2 ->]]]].
  destruct (Hc h Hh) as [k [Hk Hr]].
  exists (brute_term ROps (mis ROps O1 O2) k g2). split.
  - apply in_brute_list. exists k, g2. auto.
  - rewrite <- (brute_term_req _ _ _ g2 Hr).
    unfold brute_term, rmul, mis; cbn [fst snd]. rewrite xorb_false_r.
    destruct (xorb (snd h) (snd g2)); [lra|].
    rewrite !qconj_mul, !qmul_assoc. lra.
Qed.

(* INVARIANCE: replacing the first orientation by a symmetry-equivalent one g*O1
   (g a unit element under which G1 is right-closed, together with its inverse)
   does not change the value *)
Theorem brute_dot_left_equiv (G1 G2 : list Rrot) (g O1 O2 : Rq) :
  qnorm2 ROps g = 1 -> right_closed G1 g -> right_closed G1 (qconj ROps g) ->
  brute_dot ROps G1 G2 (qmul ROps g O1) O2 = brute_dot ROps G1 G2 O1 O2.
Proof.
  intros Hg Hc Hci. apply Rle_antisym; [apply brute_dot_left_equiv_le; exact Hc|].
  pose proof (brute_dot_left_equiv_le G1 G2 (qconj ROps g) (qmul ROps g O1) O2 Hci) as H.
  rewrite <- qmul_assoc, qmul_conj_l, Hg in H.
  replace (qmul ROps (qscale ROps 1 (qone ROps)) O1) with O1 in H; [exact H|].
  destruct O1 as [[[a b] c] d]. qunfold. tuple_eq; ring.
Qed.

(* and the same for the second orientation, by symmetry *)
Theorem brute_dot_right_equiv (G1 G2 : list Rrot) (g O1 O2 : Rq) :
  qnorm2 ROps g = 1 -> right_closed G2 g -> right_closed G2 (qconj ROps g) ->
  brute_dot ROps G1 G2 O1 (qmul ROps g O2) = brute_dot ROps G1 G2 O1 O2.
Proof.
  intros. rewrite brute_dot_symmetric, brute_dot_left_equiv by assumption. apply brute_dot_symmetric.
Qed.

(* the reduced dot product of unit quaternions lies in [0, 1] (Cauchy-Schwarz),
   so the angle arccos (2 d^2 - 1) is always defined *)
Lemma qdot_cs (p q : Rq) : qdot ROps p q * qdot ROps p q <= qnorm2 ROps p * qnorm2 ROps q.
Proof.
  destruct p as [[[a b] c] d], q as [[[e f] g] h]. qunfold.
  assert (H : (a*a+b*b+c*c+d*d)*(e*e+f*f+g*g+h*h) - (a*e+b*f+c*g+d*h)*(a*e+b*f+c*g+d*h)
              = (a*f-b*e)*(a*f-b*e) + (a*g-c*e)*(a*g-c*e) + (a*h-d*e)*(a*h-d*e)
              + (b*g-c*f)*(b*g-c*f) + (b*h-d*f)*(b*h-d*f) + (c*h-d*g)*(c*h-d*g)) by ring.
  assert (S : 0 <= (a*f-b*e)*(a*f-b*e) + (a*g-c*e)*(a*g-c*e) + (a*h-d*e)*(a*h-d*e)
              + (b*g-c*f)*(b*g-c*f) + (b*h-d*f)*(b*h-d*f) + (c*h-d*g)*(c*h-d*g)).
  { repeat apply Rplus_le_le_0_compat; apply Rle_0_sqr. }
  lra.
Qed.

Lemma code_term_le_1 (M : Rq) (s : Rrot) :
  qnorm2 ROps M = 1 -> qnorm2 ROps (fst s) = 1 -> code_term ROps M s <= 1.
Proof.
  intros HM Hs. unfold code_term. destruct (snd s); [rsimpl; lra|].
  pose proof (qdot_cs M (fst s)) as H. rewrite HM, Hs in H. rsimpl.
  apply Rabs_le. split; nra.
Qed.

Theorem code_dot_range (U : list Rrot) (O1 O2 : Rq) :
  qnorm2 ROps O1 = 1 -> qnorm2 ROps O2 = 1 -> (forall s, In s U -> qnorm2 ROps (fst s) = 1) ->
  0 <= code_dot ROps U O1 O2 <= 1.
Proof.
  intros H1 H2 HU. split; [apply omax_list_nonneg|].
  unfold code_dot. destruct (omax_list_attained (map (code_term ROps (mis ROps O1 O2)) U)) as [E|E].
  - rewrite E. lra.
  - apply in_map_iff in E. destruct E as [s [Hs Hin]]. rewrite <- Hs.
    apply code_term_le_1; [|apply HU; exact Hin].
    unfold mis. rewrite qnorm2_mul, qnorm2_conj, H1, H2. ring.
Qed.
