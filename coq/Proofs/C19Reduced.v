(* C19 -- get_sample_reduced_fundamental: the rotation built from a direction's
   spherical coordinates,  from_euler([0, polar, (pi/2 - azimuth) % 2pi]),  maps
   the sample Z axis EXACTLY onto that direction.  About the generated kernels
   eu2qu_single, qu_rotate_vec_gufunc, from_polar, v_polar, v_azimuth. *)
From Coq Require Import Reals ZArith List Bool Lia Lra Nsatz.
From Verif Require Import Scalar RInst QuatKernels Conversions Quat QuatAlg ConvEuler C19Model C19Unit.
From Verif.Gen Require Import C20Stereo.
From Verif.Model Require C20Proj.
From Verif.Proofs Require C20ProjProofs.
Import ListNotations.
Local Open Scope R_scope.

(* sin, cos are 2 pi-periodic for every INTEGER number of periods *)
Lemma cos_sin_period_Z x k : cos (x - 2 * PI * IZR k) = cos x /\ sin (x - 2 * PI * IZR k) = sin x.
Proof.
  destruct (Z_le_gt_dec 0 k) as [Hk|Hk].
  - rewrite <- (Z2Nat.id k Hk), <- INR_IZR_INZ. set (n := Z.to_nat k).
    rewrite <- (cos_period (x - 2 * PI * INR n) n), <- (sin_period (x - 2 * PI * INR n) n).
    split; f_equal; ring.
  - assert (Hk' : (0 <= - k)%Z) by lia.
    replace (IZR k) with (- IZR (- k)) by (rewrite opp_IZR; ring).
    rewrite <- (Z2Nat.id (- k) Hk'), <- INR_IZR_INZ. set (n := Z.to_nat (- k)).
    rewrite <- (cos_period x n), <- (sin_period x n). split; f_equal; ring.
Qed.

Lemma fmod_2pi_cs x :
  cos (Rfmod x (2 * PI)) = cos x /\ sin (Rfmod x (2 * PI)) = sin x.
Proof. unfold Rfmod. apply cos_sin_period_Z. Qed.

(* the rotation of from_euler([0, Phi, phi2]) applied to the Z axis *)
Lemma euler_z_image Phi phi2 :
  qrot ROps (eu2qu ROps (0, Phi, phi2)) (0, 0, 1) = (sin phi2 * sin Phi, cos phi2 * sin Phi, cos Phi).
Proof.
  rewrite <- (qu2om_action (eu2qu ROps (0, Phi, phi2)) (0, 0, 1)) by apply eu2qu_unit.
  rewrite qu2om_eu2qu. unfold bunge, Rz, Rx. rewrite cos_0, sin_0. qunfold. tuple_eq; ring.
Qed.

(* for EVERY polar angle t and azimuth a:  the reduced-sample rotation maps Z
   onto the direction with these spherical coordinates *)
Lemma reduced_rotation_polar a t :
  qrot ROps (eu2qu ROps (0, t, Rfmod (PI / 2 - a) (2 * PI))) (0, 0, 1)
  = from_polar ROps false a t 1.
Proof.
  rewrite euler_z_image. destruct (fmod_2pi_cs (PI / 2 - a)) as [Hc Hs]. rewrite Hc, Hs.
  rewrite sin_shift, cos_shift. unfold from_polar. cbv zeta. rsimpl. tuple_eq; ring.
Qed.

Lemma reduced_euler_unfold x y z :
  reduced_euler ROps (x, y, z) = (0, v_polar ROps x y z, Rfmod (PI / 2 - v_azimuth ROps x y z) (2 * PI)).
Proof. reflexivity. Qed.

(* unit directions outside the rounding band of Vector3d.azimuth (0 < |x| <= 1e-8 |v|
   or 0 < |y| <= 1e-8 |v|, with |v| = 1 here; see C20) are recovered from their
   spherical coordinates *)
Lemma polar_roundtrip_unit x y z :
  x * x + y * y + z * z = 1 -> C20ProjProofs.nosnap x -> C20ProjProofs.nosnap y ->
  from_polar ROps false (v_azimuth ROps x y z) (v_polar ROps x y z) 1 = (x, y, z).
Proof.
  intros Hu Hx Hy.
  assert (Hn : C20ProjProofs.nrm (x, y, z) = 1).
  { unfold C20ProjProofs.nrm, C20Proj.vnorm. rsimpl. rewrite Hu. apply sqrt_1. }
  pose proof (C20ProjProofs.cart_sph_cart_rad x y z) as H.
  rewrite Hn in H.
  specialize (H Rlt_0_1 (proj2 (C20ProjProofs.nosnapr_unit x) Hx) (proj2 (C20ProjProofs.nosnapr_unit y) Hy)).
  unfold C20Proj.vec2polar in H. rewrite C20ProjProofs.to_polar_unfold in H.
  rewrite C20ProjProofs.radial_unfold, Hn in H. exact H.
Qed.

(* EXACTNESS: the reduced-sample rotation of a unit direction maps Z onto it *)
Lemma reduced_maps_z x y z :
  x * x + y * y + z * z = 1 -> C20ProjProofs.nosnap x -> C20ProjProofs.nosnap y ->
  qrot ROps (eu2qu ROps (reduced_euler ROps (x, y, z))) (e3 ROps) = (x, y, z).
Proof.
  intros Hu Hx Hy. rewrite reduced_euler_unfold.
  change (e3 ROps) with ((0, 0, 1) : vec3 (T:=R)).
  rewrite reduced_rotation_polar. apply polar_roundtrip_unit; assumption.
Qed.

(* filter lemma: every returned rotation comes from a mesh direction that
   satisfies the sector predicate; it is a unit quaternion with phi1 = 0 *)
Lemma reduced_from_sector normals pts q : In q (reduced_on ROps normals pts) ->
  exists v, In v pts /\ in_sector ROps normals v = true /\
            q = eu2qu ROps (reduced_euler ROps v) /\ qnorm2 ROps q = 1 /\
            fst (fst (reduced_euler ROps v)) = 0.
Proof.
  unfold reduced_on. intros H. apply in_map_iff in H. destruct H as [v [<- H]].
  apply filter_In in H. destruct H as [H1 H2]. exists v. repeat split; auto.
  - apply eu2qu_unit.
  - destruct v as [[x y] z]. reflexivity.
Qed.

(* and every mesh direction of the sector is hit *)
Lemma reduced_complete normals pts v : In v pts -> in_sector ROps normals v = true ->
  In (eu2qu ROps (reduced_euler ROps v)) (reduced_on ROps normals pts).
Proof.
  intros H1 H2. unfold reduced_on.
  apply (in_map (fun v => eu2qu ROps (reduced_euler ROps v))). apply filter_In. tauto.
Qed.

(* the sector predicate on the reals: every normal sees the direction on its
   non-negative side, up to 1e-9 *)
Lemma in_sector_spec (normals : list (vecT (T:=R))) (v : vecT (T:=R)) :
  in_sector ROps normals v = true <->
  forall n, In n normals -> - (1 / 1000000000) < vdot ROps n v.
Proof.
  unfold in_sector. rewrite forallb_forall. split; intros H n Hn; specialize (H n Hn);
    destruct n as [[n0 n1] n2], v as [[x y] z]; unfold region_ge_k, vdot in *; rsimpl.
  - apply Rltb_true in H. lra.
  - apply Rltb_true. lra.
Qed.

(* all together, for every mesh and every sector: each returned rotation maps Z
   exactly onto a mesh direction inside the sector *)
Lemma reduced_exact normals pts q :
  (forall v, In v pts -> n2 v = 1 /\ C20ProjProofs.nosnap (fst (fst v)) /\ C20ProjProofs.nosnap (snd (fst v))) ->
  In q (reduced_on ROps normals pts) ->
  In (qrot ROps q (e3 ROps)) pts /\ in_sector ROps normals (qrot ROps q (e3 ROps)) = true.
Proof.
  intros Hp H. destruct (reduced_from_sector normals pts q H) as [v [Hv [Hs [-> _]]]].
  destruct (Hp v Hv) as [Hu [Hx Hy]]. destruct v as [[x y] z]. cbn [fst snd] in *.
  rewrite reduced_maps_z by assumption. auto.
Qed.

(* a concrete instance of the hypotheses used above *)
From Verif Require Import C17Unique C17UniqueSpec C17Diff C19Lists.
Lemma nonvacuous_example :
  (3/5) * (3/5) + 0 * 0 + (4/5) * (4/5) = 1 /\ C20ProjProofs.nosnap (3/5) /\ C20ProjProofs.nosnap 0 /\
  in_region ROps [(0, 1, 0, 0)] (1, 0, 0, 0) = true /\
  In (1, 0, 0, 0) (sample_fundamental_on ROps (fun t => t) [(0, 1, 0, 0)] [(1, 0, 0, 0)]).
Proof.
  assert (Hr : in_region ROps [(0, 1, 0, 0)] (1, 0, 0, 0) = true).
  { apply in_region_spec. left. intros n [<-|[]]. unfold qdot. rsimpl. lra. }
  split; [field|]. split.
  { right. unfold C20ProjProofs.tol8. rewrite Rabs_right; lra. }
  split; [left; reflexivity|]. split; [exact Hr|].
  destruct (fundamental_complete ROps (fun t => t) rowcmp_R_order [(0, 1, 0, 0)] [(1, 0, 0, 0)] (1, 0, 0, 0))
    as [y [Hy _]]; [left; reflexivity | exact Hr |].
  pose proof (fundamental_inside ROps (fun t => t) rowcmp_R_order _ _ y Hy) as [_ [<-|[]]]. exact Hy.
Qed.
