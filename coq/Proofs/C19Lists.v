(* C19 -- list-level lemmas: get_sample_fundamental / get_sample_local are
   "filter then unique"; every statement is for ALL grids, ALL region normals,
   ALL rounding functions (so for every resolution, method and point group). *)
From Coq Require Import Reals ZArith List Bool Lia Lra Sorted.
From Verif Require Import Scalar RInst QuatKernels Conversions Quat QuatAlg
  C17Differentiators C17Unique C17UniqueSpec C17Diff C19Model.
Import ListNotations.
Local Open Scope R_scope.

Notation RQ := (quatT (T:=R)).

(* ------------------------------------------------ unique_rot, any scalar type *)
Section UniqueGeneric.
Context {T : Type} (O : Ops T) (rnd12 : T -> T).
Hypothesis CO : cmp_order (rowcmp O).

Let key := key_antipodal O rnd12.

Lemma unique_rot_eq (qs : list (quatT (T:=T))) :
  unique_rot O rnd12 qs = map fst (nubk (rowcmp O) key (map (mk_rot (T:=T)) qs)).
Proof.
  unfold unique_rot, rotation_unique. f_equal.
  apply (rot_dat_nubk (rowcmp O) CO key (zrot O)).
Qed.

Lemma nubk_map_mk (qs : list (quatT (T:=T))) :
  nubk (rowcmp O) key (map (mk_rot (T:=T)) qs)
  = map (mk_rot (T:=T)) (map fst (nubk (rowcmp O) key (map (mk_rot (T:=T)) qs))).
Proof.
  rewrite map_map. rewrite <- (map_id (nubk _ _ _)) at 1. apply map_ext_in.
  intros r Hr. apply nubk_in in Hr. apply in_map_iff in Hr. destruct Hr as [q [<- _]]. reflexivity.
Qed.

(* nothing is invented: every returned rotation is one of the inputs *)
Lemma unique_rot_in qs q : In q (unique_rot O rnd12 qs) -> In q qs.
Proof.
  rewrite unique_rot_eq. intros H. apply in_map_iff in H. destruct H as [r [<- Hr]].
  apply nubk_in in Hr. apply in_map_iff in Hr. destruct Hr as [q' [<- Hq']]. exact Hq'.
Qed.

(* nothing is lost: every input has a returned rotation with the same key *)
Lemma unique_rot_cover qs q : In q qs ->
  exists y, In y (unique_rot O rnd12 qs) /\ keq (rowcmp O) (key (mk_rot y)) (key (mk_rot q)) = true.
Proof.
  intros H. destruct (nubk_cover (rowcmp O) CO key (map (mk_rot (T:=T)) qs) (mk_rot q)) as [y [Hy Hk]].
  { apply in_map. exact H. }
  exists (fst y). split.
  - rewrite unique_rot_eq. apply in_map. exact Hy.
  - apply nubk_in in Hy. apply in_map_iff in Hy. destruct Hy as [q' [<- _]]. exact Hk.
Qed.

(* pairwise distinct keys *)
Lemma unique_rot_distinct qs :
  StronglySorted (fun x y => keq (rowcmp O) (key (mk_rot x)) (key (mk_rot y)) = false)
                 (unique_rot O rnd12 qs).
Proof.
  rewrite unique_rot_eq.
  pose proof (nubk_distinct (rowcmp O) key (map (mk_rot (T:=T)) qs)) as H.
  rewrite nubk_map_mk in H. rewrite <- unique_rot_eq in *.
  remember (unique_rot O rnd12 qs) as l eqn:E. clear E.
  induction l as [|x l IH]; [constructor|].
  cbn [map] in H. apply StronglySorted_inv in H. destruct H as [H1 H2]. constructor; [auto|].
  rewrite Forall_forall in *. intros y Hy. apply (H2 (mk_rot y)). apply in_map. exact Hy.
Qed.

(* ---- get_sample_fundamental: filter lemma *)
Lemma fundamental_inside normals grid q :
  In q (sample_fundamental_on O rnd12 normals grid) -> in_region O normals q = true /\ In q grid.
Proof.
  unfold sample_fundamental_on. intros H. apply unique_rot_in in H. apply filter_In in H. tauto.
Qed.

Lemma fundamental_complete normals grid q :
  In q grid -> in_region O normals q = true ->
  exists y, In y (sample_fundamental_on O rnd12 normals grid) /\
            keq (rowcmp O) (key (mk_rot y)) (key (mk_rot q)) = true.
Proof.
  intros H1 H2. apply unique_rot_cover. apply filter_In. tauto.
Qed.

Lemma fundamental_distinct normals grid :
  StronglySorted (fun x y => keq (rowcmp O) (key (mk_rot x)) (key (mk_rot y)) = false)
                 (sample_fundamental_on O rnd12 normals grid).
Proof. apply unique_rot_distinct. Qed.

(* ---- get_sample_local: filter lemma *)
Lemma local_inside max_angle center grid q :
  In q (sample_local_on O rnd12 max_angle center grid) ->
  exists q', In q' grid /\ within_angle O max_angle q' = true /\
             q = match center with None => q' | Some c => qmul O c q' end.
Proof.
  unfold sample_local_on. destruct center as [c|]; intros H.
  - apply in_map_iff in H. destruct H as [q' [<- H]]. apply unique_rot_in in H.
    apply filter_In in H. exists q'. tauto.
  - apply unique_rot_in in H. apply filter_In in H. exists q. tauto.
Qed.
End UniqueGeneric.

(* ------------------------------------------------------------- on the reals *)
(* the region predicate: a rotation is kept iff all normals see it on the
   non-negative side (up to 1e-9), or all on the non-positive side *)
Lemma in_region_spec (normals : list RQ) (q : RQ) :
  in_region ROps normals q = true <->
  (forall n, In n normals -> - (1 / 1000000000) <= qdot ROps n q) \/
  (forall n, In n normals -> qdot ROps n q <= 1 / 1000000000).
Proof.
  unfold in_region, eps9. rewrite orb_true_iff, !forallb_forall. rsimpl.
  split; (intros [H|H]; [left|right]; intros n Hn; specialize (H n Hn)).
  - apply Rleb_true in H. exact H.
  - apply Rleb_true in H. exact H.
  - apply Rleb_true. exact H.
  - apply Rleb_true. exact H.
Qed.

(* q and -q (the same rotation) get the same verdict *)
Lemma qdot_neg_r (n q : RQ) : qdot ROps n (qneg ROps q) = - qdot ROps n q.
Proof. destruct n as [[[a b] c] d], q as [[[e f] g] h]. qunfold. ring. Qed.

Lemma in_region_neg (normals : list RQ) (q : RQ) :
  in_region ROps normals (qneg ROps q) = in_region ROps normals q.
Proof.
  apply eq_true_iff_eq. rewrite !in_region_spec. split; intros [H|H]; [right|left|right|left];
    intros n Hn; specialize (H n Hn); rewrite ?qdot_neg_r in *; lra.
Qed.

(* no duplicates: with exact keys two returned rotations are never equal, not
   even up to sign (q ~ -q is the same rotation) *)
Lemma key_neq_exact (x y : RQ) :
  keq (rowcmp ROps) (key_antipodal ROps (fun t => t) (mk_rot x)) (key_antipodal ROps (fun t => t) (mk_rot y)) = false ->
  y <> x /\ y <> qneg ROps x.
Proof.
  intros H. assert (Hn : ~ (key_antipodal ROps (fun t => t) (x, false) = key_antipodal ROps (fun t => t) (y, false))).
  { intros E. unfold mk_rot in H. rewrite E in H.
    assert (keq (rowcmp ROps) (key_antipodal ROps (fun t => t) (y, false)) (key_antipodal ROps (fun t => t) (y, false)) = true)
      by (apply rowcmp_R_eq; reflexivity).
    congruence. }
  split; intros E; apply Hn; apply key_antipodal_exact; split; auto.
Qed.

Lemma ss_nth_rel {A} (P : A -> A -> Prop) (l : list A) (d : A) :
  StronglySorted P l -> forall i j, (i < j)%nat -> (j < length l)%nat -> P (nth i l d) (nth j l d).
Proof.
  induction 1 as [|x l Hs IH Hf]; intros i j Hij Hj; [simpl in Hj; lia|].
  destruct j as [|j]; [lia|]. cbn [length] in Hj. destruct i as [|i]; cbn [nth].
  - rewrite Forall_forall in Hf. apply Hf. apply nth_In. lia.
  - apply IH; lia.
Qed.

Lemma fundamental_nodup_exact (normals grid : list RQ) d i j :
  (i < j)%nat -> (j < length (sample_fundamental_on ROps (fun t => t) normals grid))%nat ->
  let out := sample_fundamental_on ROps (fun t => t) normals grid in
  nth j out d <> nth i out d /\ nth j out d <> qneg ROps (nth i out d).
Proof.
  intros Hij Hj out. apply key_neq_exact.
  apply (ss_nth_rel _ _ d (fundamental_distinct ROps (fun t => t) rowcmp_R_order normals grid) i j Hij Hj).
Qed.

(* for EVERY rounding function of resolution delta < 1/2 (np.round(., 12):
   delta = 5e-13): whatever the rounding does, two rotations that ARE merged
   into one returned element agree up to 32 delta^2, so nothing but
   (numerical) duplicates is removed; and every in-region grid point has such
   a representative *)
Lemma fundamental_complete_rounded (rnd12 : R -> R) (delta : R) (normals grid : list RQ) (q : RQ) :
  (forall x, Rabs (rnd12 x - x) <= delta) -> delta < / 2 ->
  (forall p, In p grid -> qnorm2 ROps p = 1) ->
  In q grid -> in_region ROps normals q = true ->
  exists y, In y (sample_fundamental_on ROps rnd12 normals grid) /\
            1 - 32 * (delta * delta) <= qdot ROps y q * qdot ROps y q.
Proof.
  intros Hr Hd Hu Hq Hin.
  destruct (fundamental_complete ROps rnd12 rowcmp_R_order normals grid q Hq Hin) as [y [Hy Hk]].
  exists y. split; [exact Hy|].
  apply rowcmp_R_eq in Hk. unfold mk_rot in Hk.
  destruct (fundamental_inside ROps rnd12 rowcmp_R_order normals grid y Hy) as [_ Hyg].
  apply (key_antipodal_merged rnd12 delta Hr y false q false Hd (Hu y Hyg) (Hu q Hq) Hk).
Qed.

(* ---- local samples on the reals: the rotation angle of  conj(center) * q  is
   below the requested width *)
Lemma within_angle_spec (max_angle : R) (q : RQ) :
  within_angle ROps max_angle q = true <->
  acos (let '(a, _, _, _) := q in a) < max_angle / 2 * (PI / 180).
Proof.
  destruct q as [[[a b] c] d]. unfold within_angle, deg2rad, c2. rsimpl. apply Rltb_true.
Qed.

Lemma local_within (rnd12 : R -> R) (max_angle : R) (center : option RQ) (grid : list RQ) (q : RQ) :
  In q (sample_local_on ROps rnd12 max_angle center grid) ->
  exists q', In q' grid /\
    2 * acos (let '(a, _, _, _) := q' in a) < max_angle * (PI / 180) /\
    q = match center with None => q' | Some c => qmul ROps c q' end /\
    match center with
    | None => True
    | Some c => qnorm2 ROps c = 1 -> qmul ROps (qconj ROps c) q = q'
    end.
Proof.
  intros H. destruct (local_inside ROps rnd12 rowcmp_R_order max_angle center grid q H) as [q' [Hg [Hw Hq]]].
  exists q'. split; [exact Hg|]. split; [apply within_angle_spec in Hw; lra|]. split; [exact Hq|].
  destruct center as [c|]; [|exact I]. intros Hc. subst q.
  rewrite <- qmul_assoc. rewrite qmul_conj_l, Hc.
  destruct q' as [[[a b] c'] d]. qunfold. tuple_eq; ring.
Qed.
