(* C11 -- every exact regular grid satisfies the coordinate hypothesis
   `axis_ok` of the selection theorems, for ANY origin and ANY positive step
   size (so `wf` is not a property of a few sample maps): data slices are
   computed from coordinates relative to the minimum of all points. *)
From Coq Require Import String Ascii ZArith QArith Qround Lqa List Bool Lia Arith.
From Verif Require Import NdIndex C11CMap C11Nd C11Sel C11Acc C11Wit.
Import ListNotations.
Close Scope Q_scope.
Open Scope nat_scope.

Lemma Qfloor_unique (x : Q) (z : Z) :
  (inject_Z z <= x)%Q -> (x < inject_Z (z + 1))%Q -> Qfloor x = z.
Proof.
  intros H1 H2.
  pose proof (Qfloor_le x) as Hl. pose proof (Qlt_floor x) as Hu.
  assert (Ha : (z <= Qfloor x)%Z).
  { rewrite <- (Qfloor_Z z). apply Qfloor_resp_le. assumption. }
  assert (Hb : (Qfloor x < z + 1)%Z).
  { rewrite Zlt_Qlt. eapply Qle_lt_trans; eassumption. }
  lia.
Qed.

Lemma injm1 k : (inject_Z (k - 1) == inject_Z k - 1)%Q.
Proof. unfold Z.sub. rewrite inject_Z_plus. reflexivity. Qed.
Lemma injp1 k : (inject_Z (k + 1) == inject_Z k + 1)%Q.
Proof. rewrite inject_Z_plus. reflexivity. Qed.

(* round-half-even of (integer + something strictly within half a unit) *)
Lemma rhe_shift (r : Q) (k : Z) :
  (- (1 # 2) < r)%Q -> (r < 1 # 2)%Q -> rhe (r + inject_Z k)%Q = k.
Proof.
  intros Hlo Hhi. unfold rhe.
  destruct (Qlt_le_dec r 0) as [Hneg | Hpos].
  - assert (Hf : Qfloor (r + inject_Z k)%Q = (k - 1)%Z).
    { apply Qfloor_unique.
      - rewrite injm1. lra.
      - replace (k - 1 + 1)%Z with k by lia. lra. }
    rewrite Hf.
    assert (Hc : ((r + inject_Z k - inject_Z (k - 1)) ?= (1 # 2))%Q = Gt).
    { apply (proj1 (Qgt_alt _ _)). rewrite injm1. lra. }
    rewrite Hc. lia.
  - assert (Hf : Qfloor (r + inject_Z k)%Q = k).
    { apply Qfloor_unique.
      - lra.
      - rewrite injp1. lra. }
    rewrite Hf.
    assert (Hc : ((r + inject_Z k - inject_Z k) ?= (1 # 2))%Q = Lt).
    { apply (proj1 (Qlt_alt _ _)). lra. }
    rewrite Hc. reflexivity.
Qed.

Lemma rhe_int (k : Z) : rhe (0 + inject_Z k)%Q = k.
Proof. apply rhe_shift; reflexivity. Qed.

(* the point with flat index 0 has grid index 0 along every axis *)
Lemma unravel_zero s : unravel s 0 = repeat 0 (length s).
Proof.
  induction s as [|n s IH]; simpl; [reflexivity|].
  assert (H1 : 0 / size s = 0) by (destruct (size s); reflexivity).
  assert (H2 : 0 mod size s = 0) by (destruct (size s); [reflexivity | apply Nat.mod_0_l; lia]).
  rewrite H1, H2, IH. f_equal. destruct n; [reflexivity | apply Nat.mod_0_l; lia].
Qed.

Lemma ix_zero s d : ix s d 0 = 0.
Proof.
  unfold ix. rewrite unravel_zero.
  destruct (Nat.lt_ge_cases d (length s)) as [H|H].
  - apply nth_repeat.
  - apply nth_overflow. rewrite repeat_length. assumption.
Qed.

(* the coordinate hypothesis holds for every exact grid axis, whatever its
   origin o *)
Theorem exact_grid_axis_ok (s : list nat) (d : nat) (o st st' : Q) (c : list Q) :
  (0 < st)%Q -> (st' == st)%Q ->
  length c = size s ->
  (forall p, p < size s -> (nth p c 0 == o + inject_Z (Z.of_nat (ix s d p)) * st)%Q) ->
  axis_ok s d (c, st').
Proof.
  intros Hst Heq Hlen Hc. unfold axis_ok. simpl.
  assert (Hne : ~ (st == 0)%Q) by lra.
  split; [assumption|].
  destruct (Nat.eq_dec (size s) 0) as [Hz|Hnz].
  { split; intros; lia. }
  (* the minimum of the coordinates is the origin *)
  assert (Hmin : (qminl c == o)%Q).
  { assert (Hcne : c <> []) by (intros E; subst c; simpl in Hlen; lia).
    pose proof (qminl_In c Hcne) as Hin.
    apply (In_nth _ _ 0%Q) in Hin as [pa [Hpa Ea]]. rewrite Hlen in Hpa.
    assert (Hle : (qminl c <= nth 0 c 0)%Q).
    { apply qminl_le. apply nth_In. lia. }
    rewrite (Hc 0 ltac:(lia)), ix_zero in Hle. change (inject_Z (Z.of_nat 0)) with 0%Q in Hle.
    pose proof (Hc pa Hpa) as Hca. rewrite Ea in Hca.
    assert (Hnn : (0 <= inject_Z (Z.of_nat (ix s d pa)))%Q).
    { change 0%Q with (inject_Z 0). rewrite <- Zle_Qle. lia. }
    assert (Hm : (0 <= inject_Z (Z.of_nat (ix s d pa)) * st)%Q)
      by (apply Qmult_le_0_compat; [assumption | lra]).
    apply Qle_antisym; lra. }
  split.
  - intros p Hp. specialize (Hc p Hp).
    set (k := Z.of_nat (ix s d p)) in *.
    assert (E : ((nth p c 0 - qminl c) / st' == 0 + inject_Z k)%Q).
    { rewrite Hc, Hmin, Heq. field. assumption. }
    split.
    + rewrite (rhe_comp _ _ E). apply rhe_int.
    + assert (E2 : ((nth p c 0 - qminl c) / st' + 1 == 0 + inject_Z (k + 1))%Q).
      { rewrite E, injp1. ring. }
      rewrite (rhe_comp _ _ E2). apply rhe_int.
  - intros p q Hp Hq Hle. rewrite (Hc p Hp), (Hc q Hq).
    assert (Hz : (inject_Z (Z.of_nat (ix s d p)) <= inject_Z (Z.of_nat (ix s d q)))%Q).
    { rewrite <- Zle_Qle. lia. }
    nra.
Qed.

(* ---------------------------------------------------------------------
   step size and presence of a coordinate array that is an exact grid *)
Section GridCoord.
Variable n : nat.
Variable f : nat -> nat.            (* grid index of point p along this axis *)
Variables o st : Q.
Hypothesis Hst : (0 < st)%Q.
Variables p0 p1 : nat.
Hypothesis Hp0 : p0 < n.
Hypothesis Hp1 : p1 < n.
Hypothesis Hf0 : f p0 = 0.
Hypothesis Hf1 : f p1 = 1.

Definition gc : list Q := map (fun p => (o + inject_Z (Z.of_nat (f p)) * st)%Q) (seq 0 n).

Lemma gc_In v : In v gc <-> exists p, p < n /\ v = (o + inject_Z (Z.of_nat (f p)) * st)%Q.
Proof.
  unfold gc. rewrite in_map_iff. split.
  - intros [p [E Hp]]. apply in_seq in Hp. exists p. split; [lia | congruence].
  - intros [p [Hp E]]. exists p. split; [congruence | apply in_seq; lia].
Qed.

Lemma gc_nth p : p < n -> nth p gc 0%Q = (o + inject_Z (Z.of_nat (f p)) * st)%Q.
Proof. intros Hp. unfold gc. rewrite map_seq_nth by assumption. reflexivity. Qed.

Lemma inj_nat_pos k : k <> 0 -> (1 <= inject_Z (Z.of_nat k))%Q.
Proof. intros H. change 1%Q with (inject_Z 1). rewrite <- Zle_Qle. lia. Qed.

Lemma inj_nat_nonneg k : (0 <= inject_Z (Z.of_nat k))%Q.
Proof. change 0%Q with (inject_Z 0). rewrite <- Zle_Qle. lia. Qed.

Lemma gc_min : (qminl gc == o)%Q.
Proof.
  assert (Hne : gc <> []).
  { intros E. assert (H : In (o + inject_Z (Z.of_nat (f p0)) * st)%Q gc) by (apply gc_In; eauto).
    rewrite E in H. exact H. }
  pose proof (qminl_In gc Hne) as Hin. apply gc_In in Hin as [pa [Hpa Ea]].
  assert (Hle : (qminl gc <= o + inject_Z (Z.of_nat (f p0)) * st)%Q).
  { apply qminl_le. apply gc_In. eauto. }
  rewrite Hf0 in Hle. change (inject_Z (Z.of_nat 0)) with 0%Q in Hle.
  rewrite Ea in *. pose proof (inj_nat_nonneg (f pa)) as Hnn.
  assert (Hm : (0 <= inject_Z (Z.of_nat (f pa)) * st)%Q) by (apply Qmult_le_0_compat; [assumption | lra]).
  apply Qle_antisym; lra.
Qed.

Lemma gc_step : (step_of (Some gc) == st)%Q /\ coord (Some gc) = Some gc.
Proof.
  pose proof gc_min as Hmin.
  set (m0 := qminl gc) in *.
  set (r := filter (fun v => negb (Qle_bool v m0)) gc).
  assert (Hr : forall v, In v r <-> In v gc /\ (m0 < v)%Q).
  { intros v. unfold r. rewrite filter_In, negb_true_iff. split; intros [H1 H2]; split; try assumption.
    - apply Qnot_le_lt. intros C. apply Qle_bool_iff in C. congruence.
    - destruct (Qle_bool v m0) eqn:E; [|reflexivity]. apply Qle_bool_iff in E. lra. }
  assert (H1in : In (o + inject_Z (Z.of_nat (f p1)) * st)%Q r).
  { apply Hr. split; [apply gc_In; eauto|]. rewrite Hf1. change (inject_Z (Z.of_nat 1)) with 1%Q. lra. }
  assert (Hrne : r <> []) by (intros E; rewrite E in H1in; exact H1in).
  assert (Hrmin : (qminl r == o + st)%Q).
  { pose proof (qminl_In r Hrne) as Hin. apply Hr in Hin as [Hin Hgt].
    apply gc_In in Hin as [pb [Hpb Eb]].
    pose proof (qminl_le r _ H1in) as Hle. rewrite Hf1 in Hle. change (inject_Z (Z.of_nat 1)) with 1%Q in Hle.
    rewrite Eb in *.
    destruct (Nat.eq_dec (f pb) 0) as [E0|E0].
    - rewrite E0 in Hgt. change (inject_Z (Z.of_nat 0)) with 0%Q in Hgt. lra.
    - pose proof (inj_nat_pos _ E0) as Hge.
      assert (Hm : (1 * st <= inject_Z (Z.of_nat (f pb)) * st)%Q) by (apply Qmult_le_compat_r; [assumption | lra]).
      apply Qle_antisym; lra. }
  split.
  - unfold step_of. fold m0. fold r.
    destruct r as [|r0 rt] eqn:Er; [congruence|]. rewrite <- Er in *. rewrite Hrmin, Hmin. ring.
  - unfold coord. destruct (all_equal gc) eqn:E; [|reflexivity]. exfalso.
    unfold all_equal in E. destruct gc as [|a t] eqn:Eg.
    + assert (H : In (o + inject_Z (Z.of_nat (f p0)) * st)%Q gc) by (apply gc_In; eauto).
      rewrite Eg in H. exact H.
    + assert (Hall : forall v, In v (a :: t) -> (a == v)%Q).
      { intros v [Ev|Hv]; [rewrite Ev; reflexivity|].
        rewrite forallb_forall in E. apply Qeq_bool_iff. apply E; assumption. }
      rewrite <- Eg in Hall.
      assert (H0 : (a == o + inject_Z (Z.of_nat (f p0)) * st)%Q) by (apply Hall, gc_In; eauto).
      assert (H1 : (a == o + inject_Z (Z.of_nat (f p1)) * st)%Q) by (apply Hall, gc_In; eauto).
      rewrite Hf0 in H0. rewrite Hf1 in H1.
      change (inject_Z (Z.of_nat 0)) with 0%Q in H0. change (inject_Z (Z.of_nat 1)) with 1%Q in H1. lra.
Qed.

Lemma gc_ne : gc <> [].
Proof.
  intros E. assert (H : In (o + inject_Z (Z.of_nat (f p0)) * st)%Q gc) by (apply gc_In; eauto).
  rewrite E in H. exact H.
Qed.

Lemma gc_max pM : pM < n -> (forall p, p < n -> f p <= f pM) ->
  (qmaxl gc == o + inject_Z (Z.of_nat (f pM)) * st)%Q.
Proof.
  intros HpM Hmax.
  pose proof (qmaxl_In gc gc_ne) as Hin. apply gc_In in Hin as [pa [Hpa Ea]].
  assert (Hge : (o + inject_Z (Z.of_nat (f pM)) * st <= qmaxl gc)%Q).
  { apply qmaxl_ge. apply gc_In. eauto. }
  rewrite Ea in *.
  assert (Hz : (inject_Z (Z.of_nat (f pa)) <= inject_Z (Z.of_nat (f pM)))%Q).
  { rewrite <- Zle_Qle. specialize (Hmax pa Hpa). lia. }
  assert (Hm : (inject_Z (Z.of_nat (f pa)) * st <= inject_Z (Z.of_nat (f pM)) * st)%Q)
    by (apply Qmult_le_compat_r; [assumption | lra]).
  apply Qle_antisym; lra.
Qed.

(* the data slice the model computes for this axis over ALL points *)
Lemma gc_slice_all pM sel :
  pM < n -> (forall p, p < n -> f p <= f pM) ->
  slice1 sel false (gc, step_of (Some gc)) = Ok (0%Z, Z.of_nat (S (f pM))).
Proof.
  intros HpM Hmax. unfold slice1. cbn [fst snd].
  destruct gc_step as [Hs _].
  rewrite match_ne by exact gc_ne.
  assert (Hne : ~ (st == 0)%Q) by lra.
  f_equal. f_equal.
  - assert (E : ((qminl gc - qminl gc) / step_of (Some gc) == 0 + inject_Z 0)%Q).
    { rewrite Hs. change (inject_Z 0) with 0%Q. field. assumption. }
    rewrite (rhe_comp _ _ E). apply rhe_int.
  - assert (E : ((qmaxl gc - qminl gc) / step_of (Some gc) + 1
                 == 0 + inject_Z (Z.of_nat (S (f pM))))%Q).
    { rewrite (gc_max pM HpM Hmax), gc_min, Hs. rewrite Nat2Z.inj_succ. unfold Z.succ. rewrite injp1.
      field. assumption. }
    rewrite (rhe_comp _ _ E). apply rhe_int.
Qed.

End GridCoord.

(* ---------------------------------------------------------------------
   Every 2-D map built by the constructor from exact grid coordinates with
   at least 2 rows and 2 columns, any positive steps and ANY origin is
   well-formed, with original shape (nr, nc). *)
Section Grid2.
Context {V R : Type}.
Variables nr nc : nat.
Variables ox oy dx dy : Q.
Hypothesis Hnr : 2 <= nr.
Hypothesis Hnc : 2 <= nc.
Hypothesis Hdx : (0 < dx)%Q.
Hypothesis Hdy : (0 < dy)%Q.

Let N := nr * nc.
Let gx := gc N (fun p => p mod nc) ox dx.
Let gy := gc N (fun p => p / nc) oy dy.

Lemma N_facts : 0 < N /\ 1 < N /\ nc < N /\ (nr - 1) * nc < N.
Proof. unfold N. nia. Qed.

Lemma gx_is : grid_x nr nc ox dx = gx.
Proof. reflexivity. Qed.
Lemma gy_is : grid_y nr nc oy dy = gy.
Proof. reflexivity. Qed.

Lemma gx_step : (step_of (Some gx) == dx)%Q /\ coord (Some gx) = Some gx.
Proof.
  destruct N_facts as (H0 & H1 & _).
  apply (gc_step N (fun p => p mod nc) ox dx Hdx 0 1 H0 H1).
  - apply Nat.mod_0_l. lia.
  - apply Nat.mod_small. lia.
Qed.

Lemma gy_step : (step_of (Some gy) == dy)%Q /\ coord (Some gy) = Some gy.
Proof.
  destruct N_facts as (H0 & _ & H2 & _).
  apply (gc_step N (fun p => p / nc) oy dy Hdy 0 nc H0 H2).
  - apply Nat.div_0_l. lia.
  - apply Nat.div_same. lia.
Qed.

Lemma axes_grid2 :
  axis1 (Some gy) ++ axis1 (Some gx) = [(gy, step_of (Some gy)); (gx, step_of (Some gx))].
Proof.
  unfold axis1.
  destruct gx_step as [Hsx Hcx]. destruct gy_step as [Hsy Hcy]. rewrite Hcx, Hcy.
  assert (Qeq_bool (step_of (Some gx)) 0 = false).
  { destruct (Qeq_bool (step_of (Some gx)) 0) eqn:E; [|reflexivity]. apply Qeq_bool_iff in E. lra. }
  assert (Qeq_bool (step_of (Some gy)) 0 = false).
  { destruct (Qeq_bool (step_of (Some gy)) 0) eqn:E; [|reflexivity]. apply Qeq_bool_iff in E. lra. }
  rewrite H, H0. reflexivity.
Qed.

Theorem exact_grid2_wf pid0 rots0 props0 phases0 ind0 :
  length ind0 = N -> length pid0 = N ->
  exists m : cmap V R,
    init (Some (grid_x nr nc ox dx)) (Some (grid_y nr nc oy dy)) pid0 rots0 props0 phases0 ind0 = Ok m /\
    oshape m = [nr; nc] /\ ind m = ind0 /\ pid m = pid0 /\ rots m = rots0 /\ props m = props0 /\ wf m.
Proof.
  intros Hi Hp. rewrite gx_is, gy_is.
  destruct N_facts as (H0 & H1 & H2 & H3).
  destruct gx_step as [Hsx Hcx]. destruct gy_step as [Hsy Hcy].
  unfold init, data_slices, axes. cbn [xs ys].
  rewrite axes_grid2. cbn [ind mapM].
  (* y axis: indices 0 .. nr-1;  x axis: indices 0 .. nc-1 *)
  assert (Sy : slice1 ind0 false (gy, step_of (Some gy)) = Ok (0%Z, Z.of_nat (S ((nr - 1) * nc / nc)))).
  { apply (gc_slice_all N (fun p => p / nc) oy dy Hdy 0 nc H0 H2
             ltac:(apply Nat.div_0_l; lia) ltac:(apply Nat.div_same; lia) ((nr - 1) * nc) ind0 H3).
    intros p Hp'. rewrite Nat.div_mul by lia. unfold N in Hp'.
    assert (p / nc < nr) by (apply Nat.div_lt_upper_bound; lia). lia. }
  assert (Sx : slice1 ind0 false (gx, step_of (Some gx)) = Ok (0%Z, Z.of_nat (S ((nc - 1) mod nc)))).
  { apply (gc_slice_all N (fun p => p mod nc) ox dx Hdx 0 1 H0 H1
             ltac:(apply Nat.mod_0_l; lia) ltac:(apply Nat.mod_small; lia) (nc - 1) ind0 ltac:(lia)).
    intros p Hp'. rewrite (Nat.mod_small (nc - 1)) by lia.
    assert (p mod nc < nc) by (apply Nat.mod_upper_bound; lia). lia. }
  rewrite Sy. cbn [bind]. rewrite Sx.
  cbn [bind]. rewrite Nat.div_mul by lia. rewrite (Nat.mod_small (nc - 1)) by lia.
  unfold shape_of_slices. cbn [map fst snd].
  replace (Z.to_nat (Z.of_nat (S (nr - 1)) - 0)) with nr by lia.
  replace (Z.to_nat (Z.of_nat (S (nc - 1)) - 0)) with nc by lia.
  eexists. split; [reflexivity|]. cbn [oshape ind pid rots props].
  repeat (split; [reflexivity|]).
  unfold wf. cbn [oshape ind pid].
  assert (Hsz : size [nr; nc] = N) by (unfold N; simpl; lia).
  split; [congruence|]. split; [congruence|].
  unfold grid_ok, axes. cbn [xs ys oshape]. rewrite axes_grid2.
  split; [reflexivity|].
  intros d a Hd.
  destruct d as [|[|d]]; simpl in Hd; [| |destruct d; discriminate]; injection Hd as Hd; subst a.
  - apply (exact_grid_axis_ok [nr; nc] 0 oy dy (step_of (Some gy)) gy Hdy Hsy).
    + unfold gy, gc. rewrite map_length, seq_length. congruence.
    + intros p Hp'. rewrite Hsz in Hp'. unfold gy. rewrite gc_nth by assumption.
      rewrite ix2_row by assumption. reflexivity.
  - apply (exact_grid_axis_ok [nr; nc] 1 ox dx (step_of (Some gx)) gx Hdx Hsx).
    + unfold gx, gc. rewrite map_length, seq_length. congruence.
    + intros p Hp'. rewrite Hsz in Hp'. unfold gx. rewrite gc_nth by assumption.
      rewrite ix2_col by assumption. reflexivity.
Qed.

End Grid2.
