(* C17 -- real-number side of the unique() models:
   * the comparison used on rows of reals is a total order whose Eq is equality;
   * the ten quadratic "differentiator" monomials regenerated from
     Rotation._differentiators are invariant under q -> -q and determine a
     quaternion up to sign; a quantitative version (monomials within eps =>
     |<q,q'>|^2 >= 1 - 8 eps^2) covers the rounded keys;
   * exact decimal rounding (half to even) on the reals, as one instance of
     the abstract rounding function the theorems quantify over. *)
From Coq Require Import Reals List Bool ZArith Lra Lia Nsatz Psatz.
From Verif Require Import Scalar RInst Quat C17Differentiators C17Unique C17UniqueSpec.
Import ListNotations.
Local Open Scope R_scope.

(* ------------------------------------------------ order on reals / on rows *)
Lemma ocmp_R_lt x y : ocmp ROps x y = Lt <-> x < y.
Proof.
  unfold ocmp; rsimpl. unfold Rltb, Reqb. destruct (Rlt_dec x y); [tauto|].
  destruct (Req_EM_T x y); split; intros; try discriminate; lra.
Qed.
Lemma ocmp_R_eq x y : ocmp ROps x y = Eq <-> x = y.
Proof.
  unfold ocmp; rsimpl. unfold Rltb, Reqb. destruct (Rlt_dec x y).
  - split; intros; try discriminate; lra.
  - destruct (Req_EM_T x y); split; intros; try discriminate; auto; lra.
Qed.
Lemma ocmp_R_gt x y : ocmp ROps x y = Gt <-> y < x.
Proof.
  unfold ocmp; rsimpl. unfold Rltb, Reqb. destruct (Rlt_dec x y).
  - split; intros; try discriminate; lra.
  - destruct (Req_EM_T x y); split; intros; try discriminate; auto; lra.
Qed.

Lemma ocmp_R_order : cmp_order (ocmp ROps).
Proof.
  constructor.
  - intros x. apply ocmp_R_eq. auto.
  - intros x y. destruct (ocmp ROps x y) eqn:E; simpl.
    + apply ocmp_R_eq in E. apply ocmp_R_eq. auto.
    + apply ocmp_R_lt in E. apply ocmp_R_gt. auto.
    + apply ocmp_R_gt in E. apply ocmp_R_lt. auto.
  - intros x y z H1 H2. apply ocmp_R_lt in H1. apply ocmp_R_lt in H2. apply ocmp_R_lt. lra.
  - intros x y z H. apply ocmp_R_eq in H. subst. auto.
Qed.

Lemma rowcmp_R_order : cmp_order (rowcmp ROps).
Proof. apply lexcmp_order, ocmp_R_order. Qed.

(* key equality on rows of reals IS equality of the rows *)
Lemma rowcmp_R_eq x y : keq (rowcmp ROps) x y = true <-> x = y.
Proof.
  rewrite (keq_true (rowcmp ROps)). apply (lexcmp_eq_iff _ ocmp_R_eq).
Qed.

(* ---------------------------------------------------------- differentiators *)
(* the list regenerated from the source is the ten monomials plus the flag *)
Lemma diff_gen_monomials a b c d i :
  differentiators_gen ROps a b c d i = monomials ROps (a, b, c, d) ++ [i].
Proof. reflexivity. Qed.

Lemma plain_columns a b c d (i : R) : rotation_plain_columns a b c d i = [a; b; c; d; i].
Proof. reflexivity. Qed.

Lemma monomials_neg q : monomials ROps (qneg ROps q) = monomials ROps q.
Proof.
  destruct q as [[[a b] c] d]. unfold monomials, qneg; rsimpl.
  repeat (f_equal; try ring).
Qed.

Lemma monomials_inj q q' :
  monomials ROps q = monomials ROps q' -> q' = q \/ q' = qneg ROps q.
Proof.
  destruct q as [[[a b] c] d]. destruct q' as [[[a' b'] c'] d'].
  unfold monomials, qneg; rsimpl. intros H.
  injection H as Haa Hbb Hcc Hdd Hab Hac Had Hbc Hbd Hcd.
  set (n := a * a + b * b + c * c + d * d).
  set (s := a * a' + b * b' + c * c' + d * d').
  destruct (Req_dec n 0) as [Hn|Hn].
  - assert (a = 0 /\ b = 0 /\ c = 0 /\ d = 0) as [-> [-> [-> ->]]] by (unfold n in Hn; repeat split; nra).
    assert (a' = 0) by nra. assert (b' = 0) by nra. assert (c' = 0) by nra. assert (d' = 0) by nra.
    subst. left. reflexivity.
  - assert (Hs : (s - n) * (s + n) = 0) by (unfold s, n; nsatz).
    assert (Ea : s * a' = n * a) by (unfold s, n; nsatz).
    assert (Eb : s * b' = n * b) by (unfold s, n; nsatz).
    assert (Ec : s * c' = n * c) by (unfold s, n; nsatz).
    assert (Ed : s * d' = n * d) by (unfold s, n; nsatz).
    apply Rmult_integral in Hs. destruct Hs as [Hs|Hs].
    + left. assert (s = n) by lra. rewrite H in *.
      apply Rmult_eq_reg_l in Ea, Eb, Ec, Ed; auto. subst. reflexivity.
    + right. assert (E : s = - n) by lra. rewrite E in *.
      assert (a' = - a) by (apply (Rmult_eq_reg_l n); auto; lra).
      assert (b' = - b) by (apply (Rmult_eq_reg_l n); auto; lra).
      assert (c' = - c) by (apply (Rmult_eq_reg_l n); auto; lra).
      assert (d' = - d) by (apply (Rmult_eq_reg_l n); auto; lra).
      subst. reflexivity.
Qed.

(* two quaternions have the same monomials iff they are equal up to sign *)
Lemma monomials_iff q q' :
  monomials ROps q = monomials ROps q' <-> (q' = q \/ q' = qneg ROps q).
Proof.
  split; [apply monomials_inj|]. intros [->| ->]; auto. rewrite monomials_neg. auto.
Qed.

Lemma sq_le_eps x eps : Rabs x <= eps -> x * x <= eps * eps.
Proof. intros H. assert (0 <= Rabs x) by apply Rabs_pos. rewrite <- (Rabs_mult_self x) || idtac.
  unfold Rabs in *. destruct (Rcase_abs x); nra. Qed.

(* quantitative version: monomials within eps => the two unit quaternions are
   the same rotation up to  1 - <q,q'>^2 <= 8 eps^2 *)
Lemma monomials_close q q' eps :
  qnorm2 ROps q = 1 -> qnorm2 ROps q' = 1 ->
  Forall2 (fun x y => Rabs (x - y) <= eps) (monomials ROps q) (monomials ROps q') ->
  1 - 8 * (eps * eps) <= qdot ROps q q' * qdot ROps q q'.
Proof.
  destruct q as [[[a b] c] d]. destruct q' as [[[a' b'] c'] d'].
  unfold monomials, qnorm2, qdot; rsimpl. intros N N' H.
  repeat match goal with H : Forall2 _ (_ :: _) (_ :: _) |- _ => inversion H; clear H; subst end.
  repeat match goal with H : Rabs _ <= eps |- _ => apply sq_le_eps in H end.
  assert (I : 2 - 2 * ((a * a' + b * b' + c * c' + d * d') * (a * a' + b * b' + c * c' + d * d'))
          = (a*a - a'*a') * (a*a - a'*a') + (b*b - b'*b') * (b*b - b'*b')
          + (c*c - c'*c') * (c*c - c'*c') + (d*d - d'*d') * (d*d - d'*d')
          + 2 * ((a*b - a'*b') * (a*b - a'*b') + (a*c - a'*c') * (a*c - a'*c')
               + (a*d - a'*d') * (a*d - a'*d') + (b*c - b'*c') * (b*c - b'*c')
               + (b*d - b'*d') * (b*d - b'*d') + (c*d - c'*d') * (c*d - c'*d'))).
  { transitivity ((a*a+b*b+c*c+d*d) * (a*a+b*b+c*c+d*d) + (a'*a'+b'*b'+c'*c'+d'*d') * (a'*a'+b'*b'+c'*c'+d'*d')
                  - 2 * ((a * a' + b * b' + c * c' + d * d') * (a * a' + b * b' + c * c' + d * d'))).
    - rewrite N, N'. ring.
    - ring. }
  lra.
Qed.

(* ------------------------------------------------------ keys under rounding *)
Section Rounding.
Variable rnd : R -> R.
Variable delta : R.
Hypothesis rnd_close : forall x, Rabs (rnd x - x) <= delta.

Lemma rnd_eq_close x y : rnd x = rnd y -> Rabs (x - y) <= 2 * delta.
Proof.
  intros E. pose proof (rnd_close x) as Hx. pose proof (rnd_close y) as Hy. rewrite E in Hx.
  unfold Rabs in *. destruct (Rcase_abs (rnd y - x)), (Rcase_abs (rnd y - y)), (Rcase_abs (x - y)); lra.
Qed.

Lemma map_rnd_close xs : forall ys, map rnd xs = map rnd ys ->
  Forall2 (fun x y => Rabs (x - y) <= 2 * delta) xs ys.
Proof.
  induction xs as [|x xs IH]; destruct ys as [|y ys]; simpl; intros H; try discriminate; constructor.
  - injection H as H _. apply rnd_eq_close; auto.
  - injection H as _ H. auto.
Qed.

(* the antipodal key: q and -q with the same flag ALWAYS get the same key
   (whatever the rounding function is) *)
Lemma key_antipodal_neg q i :
  key_antipodal ROps rnd (qneg ROps q, i) = key_antipodal ROps rnd (q, i).
Proof.
  destruct q as [[[a b] c] d]. unfold key_antipodal, qneg. cbn [fst snd].
  rewrite !diff_gen_monomials. f_equal. f_equal. apply (monomials_neg (a, b, c, d)).
Qed.

(* rotations merged by the antipodal key are the same rotation up to the
   rounding resolution, and have the same flag *)
Lemma key_antipodal_merged q i q' i' :
  delta < / 2 ->
  qnorm2 ROps q = 1 -> qnorm2 ROps q' = 1 ->
  key_antipodal ROps rnd (q, i) = key_antipodal ROps rnd (q', i') ->
  i = i' /\ 1 - 32 * (delta * delta) <= qdot ROps q q' * qdot ROps q q'.
Proof.
  intros Hd N N' H.
  destruct q as [[[a b] c] d]. destruct q' as [[[a' b'] c'] d'].
  unfold key_antipodal in H. cbn [fst snd] in H.
  rewrite !diff_gen_monomials, !map_app in H. cbn [map] in H.
  apply app_inj_tail in H. destruct H as [Hm Hf].
  split.
  - apply rnd_eq_close in Hf. destruct i, i'; auto; unfold bflag in Hf; rsimpl;
      unfold Rabs in Hf; destruct (Rcase_abs _) in Hf; lra.
  - apply map_rnd_close in Hm.
    replace (32 * (delta * delta)) with (8 * ((2 * delta) * (2 * delta))) by ring.
    apply monomials_close; auto.
Qed.

(* without rounding error (delta = 0) merging is exactly "equal up to sign" *)
Lemma key_plain_merged q i q' i' :
  delta < / 2 ->
  key_plain ROps rnd (q, i) = key_plain ROps rnd (q', i') ->
  i = i' /\
  let '(a, b, c, d) := q in let '(a', b', c', d') := q' in
  Rabs (a - a') <= 2 * delta /\ Rabs (b - b') <= 2 * delta /\
  Rabs (c - c') <= 2 * delta /\ Rabs (d - d') <= 2 * delta.
Proof.
  intros Hd H. destruct q as [[[a b] c] d]. destruct q' as [[[a' b'] c'] d'].
  unfold key_plain in H. cbn [fst snd] in H. rewrite !plain_columns in H.
  apply map_rnd_close in H.
  repeat match goal with H : Forall2 _ (_ :: _) (_ :: _) |- _ => inversion H; clear H; subst end.
  split; [|tauto].
  match goal with H : Rabs (bflag ROps i - bflag ROps i') <= _ |- _ => rename H into Hf end.
  destruct i, i'; auto; unfold bflag in Hf; rsimpl; unfold Rabs in Hf; destruct (Rcase_abs _) in Hf; lra.
Qed.
End Rounding.

(* exact keys (no rounding): same key <=> equal up to sign with the same flag *)
Lemma key_antipodal_exact q i q' i' :
  key_antipodal ROps (fun x => x) (q, i) = key_antipodal ROps (fun x => x) (q', i')
  <-> (i = i' /\ (q' = q \/ q' = qneg ROps q)).
Proof.
  destruct q as [[[a b] c] d]. destruct q' as [[[a' b'] c'] d'].
  unfold key_antipodal. cbn [fst snd]. rewrite !diff_gen_monomials, !map_id. split.
  - intros H. apply app_inj_tail in H. destruct H as [Hm Hf]. split.
    + destruct i, i'; auto; unfold bflag in Hf; rsimpl; lra.
    + apply monomials_inj; auto.
  - intros [-> Hq]. f_equal. apply monomials_iff. auto.
Qed.

(* ------------------------------- exact decimal rounding on the reals (np.round) *)
(* nearest integer, ties to even *)
Definition Rrint (y : R) : Z :=
  let n := Int_part y in
  let f := frac_part y in
  if Rlt_dec f (/ 2) then n
  else if Rlt_dec (/ 2) f then (n + 1)%Z
  else if Z.even n then n else (n + 1)%Z.

Lemma Rrint_close y : Rabs (IZR (Rrint y) - y) <= / 2.
Proof.
  unfold Rrint. pose proof (base_fp y) as [F1 F2].
  assert (E : y = IZR (Int_part y) + frac_part y) by (unfold frac_part; ring).
  set (n := Int_part y) in *. set (f := frac_part y) in *.
  destruct (Rlt_dec f (/ 2)); [|destruct (Rlt_dec (/ 2) f); [|destruct (Z.even n)]];
    rewrite ?plus_IZR; unfold Rabs; destruct (Rcase_abs _); simpl; lra.
Qed.

Definition pow10 (dec : nat) : R := 10 ^ dec.
Lemma pow10_pos dec : 0 < pow10 dec.
Proof. unfold pow10. apply pow_lt. lra. Qed.

(* np.round(x, dec) in exact arithmetic *)
Definition Rround (dec : nat) (x : R) : R := IZR (Rrint (x * pow10 dec)) / pow10 dec.

Lemma Rround_close dec x : Rabs (Rround dec x - x) <= / 2 / pow10 dec.
Proof.
  unfold Rround. pose proof (pow10_pos dec) as P. pose proof (Rrint_close (x * pow10 dec)) as H.
  replace (IZR (Rrint (x * pow10 dec)) / pow10 dec - x)
    with ((IZR (Rrint (x * pow10 dec)) - x * pow10 dec) / pow10 dec) by (field; lra).
  unfold Rdiv at 1. rewrite Rabs_mult. rewrite (Rabs_right (/ pow10 dec)).
  - unfold Rdiv. apply Rmult_le_compat_r; auto. left. apply Rinv_0_lt_compat; auto.
  - left. apply Rinv_0_lt_compat; auto.
Qed.

Lemma Rround_delta_small dec : (0 < dec)%nat -> / 2 / pow10 dec < / 2.
Proof.
  destruct dec; [lia|intros _]. unfold pow10. simpl.
  assert (1 <= 10 ^ dec) by (apply pow_R1_Rle; lra).
  unfold Rdiv. rewrite <- (Rmult_1_r (/ 2)) at 2. apply Rmult_lt_compat_l; [lra|].
  rewrite <- Rinv_1. apply Rinv_lt_contravar; nra.
Qed.

(* ------------------------------ end-to-end statements on the real instance *)
(* Object3d.unique on rows of reals, ANY rounding function: no repeated row,
   every non-zero rounded input row is returned, nothing else is *)
Lemma base_unique_R (rnd10 : R -> R) (flat : list (list R)) :
  let out := fst (fst (base_unique ROps rnd10 flat)) in
  NoDup out /\
  (forall r, In r flat -> row_iszero ROps (map rnd10 r) = false -> In (map rnd10 r) out) /\
  (forall y, In y out -> exists r, In r flat /\ y = map rnd10 r /\ row_iszero ROps y = false) /\
  out = nubk (rowcmp ROps) (fun r => r) (filter (fun e => negb (row_iszero ROps e)) (map (map rnd10) flat)).
Proof.
  intros out.
  destruct (obj_unique_contract (rowcmp ROps) rowcmp_R_order (map rnd10) (row_iszero ROps) (fun r => r) [] flat)
    as [D [C [F N]]].
  fold (base_unique ROps rnd10 flat) in D, C, F, N. fold out in D, C, F, N.
  repeat split; auto.
  - apply (NoDup_nth out []). intros a b Ha Hb E.
    destruct (Nat.lt_trichotomy a b) as [L|[L|L]]; auto; exfalso.
    + pose proof (D a b L Hb) as Q. rewrite E in Q.
      rewrite (proj2 (rowcmp_R_eq _ _) eq_refl) in Q. discriminate.
    + pose proof (D b a L Ha) as Q. rewrite E in Q.
      rewrite (proj2 (rowcmp_R_eq _ _) eq_refl) in Q. discriminate.
  - intros r Hr Hz. destruct (C r Hr Hz) as [y [Hy E]]. apply rowcmp_R_eq in E. subst. auto.
Qed.

(* Rotation.unique(antipodal=True) with exact keys: two inputs are merged
   iff they have the same flag and are equal up to sign *)
Lemma rotation_merge_exact (flat : list (rot (T:=R))) (i j : nat) :
  (i < length flat)%nat -> (j < length flat)%nat ->
  let inv := snd (rotation_unique ROps (fun x => x) (fun x => x) true flat) in
  List.nth i inv 0%nat = List.nth j inv 0%nat <->
  (snd (List.nth i flat (zrot ROps)) = snd (List.nth j flat (zrot ROps)) /\
   (fst (List.nth j flat (zrot ROps)) = fst (List.nth i flat (zrot ROps)) \/
    fst (List.nth j flat (zrot ROps)) = qneg ROps (fst (List.nth i flat (zrot ROps))))).
Proof.
  intros Hi Hj inv. unfold inv, rotation_unique.
  rewrite (rot_inverse_merge (rowcmp ROps) rowcmp_R_order (key_antipodal ROps (fun x => x)) (zrot ROps) flat i j Hi Hj).
  rewrite rowcmp_R_eq.
  destruct (List.nth i flat (zrot ROps)) as [q fi]. destruct (List.nth j flat (zrot ROps)) as [q' fj].
  apply key_antipodal_exact.
Qed.

(* ... with ANY rounding function: q and -q with the same flag are always
   merged, *)
Lemma rotation_merge_always (rnd10 rnd12 : R -> R) (flat : list (rot (T:=R))) (i j : nat) :
  (i < length flat)%nat -> (j < length flat)%nat ->
  snd (List.nth i flat (zrot ROps)) = snd (List.nth j flat (zrot ROps)) ->
  (fst (List.nth j flat (zrot ROps)) = fst (List.nth i flat (zrot ROps)) \/
   fst (List.nth j flat (zrot ROps)) = qneg ROps (fst (List.nth i flat (zrot ROps)))) ->
  let inv := snd (rotation_unique ROps rnd10 rnd12 true flat) in
  List.nth i inv 0%nat = List.nth j inv 0%nat.
Proof.
  intros Hi Hj Hf Hq. cbv zeta. unfold rotation_unique.
  apply (rot_inverse_merge (rowcmp ROps) rowcmp_R_order (key_antipodal ROps rnd12) (zrot ROps) flat i j Hi Hj).
  apply rowcmp_R_eq.
  destruct (List.nth i flat (zrot ROps)) as [q fi]. destruct (List.nth j flat (zrot ROps)) as [q' fj].
  cbn [fst snd] in Hf, Hq. subst fj. destruct Hq as [->| ->]; auto. symmetry. apply key_antipodal_neg.
Qed.

(* ... and whatever is merged is the same rotation up to the resolution *)
Lemma rotation_merge_rounded (rnd10 rnd12 : R -> R) (delta : R) (flat : list (rot (T:=R))) (i j : nat) :
  (forall x, Rabs (rnd12 x - x) <= delta) -> delta < / 2 ->
  (i < length flat)%nat -> (j < length flat)%nat ->
  qnorm2 ROps (fst (List.nth i flat (zrot ROps))) = 1 -> qnorm2 ROps (fst (List.nth j flat (zrot ROps))) = 1 ->
  let inv := snd (rotation_unique ROps rnd10 rnd12 true flat) in
  List.nth i inv 0%nat = List.nth j inv 0%nat ->
  snd (List.nth i flat (zrot ROps)) = snd (List.nth j flat (zrot ROps)) /\
  1 - 32 * (delta * delta)
  <= qdot ROps (fst (List.nth i flat (zrot ROps))) (fst (List.nth j flat (zrot ROps)))
     * qdot ROps (fst (List.nth i flat (zrot ROps))) (fst (List.nth j flat (zrot ROps))).
Proof.
  intros Hr Hd Hi Hj Ni Nj. cbv zeta. intros E. unfold rotation_unique in E.
  apply (rot_inverse_merge (rowcmp ROps) rowcmp_R_order (key_antipodal ROps rnd12) (zrot ROps) flat i j Hi Hj) in E.
  apply rowcmp_R_eq in E.
  destruct (List.nth i flat (zrot ROps)) as [q fi]. destruct (List.nth j flat (zrot ROps)) as [q' fj].
  cbn [fst snd] in *. apply (key_antipodal_merged rnd12 delta Hr q fi q' fj Hd Ni Nj E).
Qed.
