(* C11 -- accessor proofs: per-point arrays stay aligned with the ids,
   row / col are bounding-box relative grid indices, get_map_data places each
   value at its (row, col) and the fill value elsewhere, the shared property
   dictionary is re-synchronised on access. *)
From Coq Require Import String Ascii ZArith QArith Qround List Bool Lia Arith.
From Verif Require Import NdIndex C11CMap C11Nd C11Sel.
Import ListNotations.
Close Scope Q_scope.
Open Scope nat_scope.

Section Acc.
Context {V R : Type}.
Notation cmap := (cmap V R).

(* ------------------------------------------------------------ alignment *)
Theorem acc_pid_aligned (m : cmap) :
  length (ind m) = length (pid m) ->
  acc_pid m = map (fun i => nth i (pid m) 0%Z) (acc_id m).
Proof. intros H. apply mask_filter_ids; assumption. Qed.

Theorem acc_rot_aligned (m : cmap) d :
  length (ind m) = length (rots m) ->
  acc_rot m = map (fun i => nth i (rots m) d) (acc_id m).
Proof. intros H. apply mask_filter_ids; assumption. Qed.

Theorem acc_prop_aligned (m : cmap) k arr d :
  assoc k (props m) = Some arr -> length (ind m) = length arr ->
  acc_prop m k = Some (map (fun i => nth i arr d) (acc_id m)).
Proof. intros H Hl. unfold acc_prop. rewrite H. simpl. f_equal. apply mask_filter_ids; assumption. Qed.

Theorem acc_x_aligned (m : cmap) c :
  coord (xs m) = Some c -> length (ind m) = length c ->
  acc_x m = Some (map (fun i => nth i c 0%Q) (acc_id m)).
Proof. intros H Hl. unfold acc_x. rewrite H. simpl. f_equal. apply mask_filter_ids; assumption. Qed.

Theorem acc_y_aligned (m : cmap) c :
  coord (ys m) = Some c -> length (ind m) = length c ->
  acc_y m = Some (map (fun i => nth i c 0%Q) (acc_id m)).
Proof. intros H Hl. unfold acc_y. rewrite H. simpl. f_equal. apply mask_filter_ids; assumption. Qed.

Theorem acc_size_ids (m : cmap) : acc_size m = length (acc_id m).
Proof. reflexivity. Qed.

(* the property dictionary object is shared; whatever mask it held before,
   `m.prop[k]` first overwrites it with m's mask *)
Theorem prop_resync (m : cmap) (register : list bool) k :
  view_get (prop_access m register) (props m) k = acc_prop m k.
Proof. reflexivity. Qed.

(* a selection shares every full-size array with its source *)
Theorem getitem_same_arrays (m m' : cmap) k : getitem m k = Ok m' -> same_arrays m m'.
Proof.
  destruct k as [ks|b|names]; simpl.
  - unfold getitem_sel. destruct ks; [discriminate|].
    intros H. apply bind_ok in H as (shp & _ & H).
    destruct (_ <? _); [discriminate|].
    apply bind_ok in H as (Is & _ & H). apply bind_ok in H as (ds & _ & H).
    apply bind_ok in H as (i' & _ & H). injection H as H. rewrite <- H. reflexivity.
  - unfold getitem_mask. destruct (_ =? _).
    + intros H; injection H as H; rewrite <- H; reflexivity.
    + destruct (_ =? _); [|discriminate]. intros H; injection H as H; rewrite <- H; reflexivity.
  - unfold getitem_phase. destruct names; [discriminate|].
    intros H; injection H as H; rewrite <- H; reflexivity.
Qed.

Theorem run_same_arrays ops : forall (m m' : cmap), run m ops = Ok m' -> same_arrays m m'.
Proof.
  induction ops as [|k rest IH]; intros m m' H; simpl in H.
  - injection H as H. subst. apply same_arrays_refl.
  - apply bind_ok in H as (m1 & H1 & H2).
    eapply same_arrays_trans; [eapply getitem_same_arrays; eassumption | apply IH; assumption].
Qed.

(* ----------------------------------------------------------- row / col *)
Lemma mask_filter_seq_ids (i : list bool) n : length i = n -> mask_filter i (seq 0 n) = ids_of i.
Proof. intros H. unfold ids_of. rewrite H. reflexivity. Qed.

Lemma ix2_row nr nc p : p < nr * nc -> ix [nr; nc] 0 p = p / nc.
Proof.
  intros H. unfold ix. simpl. rewrite Nat.mul_1_r.
  apply Nat.mod_small. apply Nat.div_lt_upper_bound; [|lia].
  intros E; subst; lia.
Qed.

Lemma ix2_col nr nc p : p < nr * nc -> ix [nr; nc] 1 p = p mod nc.
Proof.
  intros H. unfold ix. cbn [unravel nth].
  change (size [nc]) with (nc * 1). change (size []) with 1. rewrite Nat.mul_1_r, Nat.div_1_r.
  assert (nc <> 0) by (intros E; subst; lia).
  apply Nat.mod_small. apply Nat.mod_upper_bound; assumption.
Qed.

Lemma match_ne {A B} (l : list A) (e : res B) (x : res B) :
  l <> [] -> match l with [] => e | _ :: _ => x end = x.
Proof. destruct l; [congruence | reflexivity]. Qed.

Theorem acc_row_2d (m : cmap) nr nc :
  oshape m = [nr; nc] -> length (ind m) = nr * nc -> acc_id m <> [] ->
  acc_row m = Ok (map (fun p => ix [nr; nc] 0 p - fst (nth 0 (bbox [nr; nc] (acc_id m)) (0, 0)))
                      (acc_id m)).
Proof.
  intros Hs Hl Hne. unfold acc_row, rc_shape. rewrite Hs. cbn [bind fst snd].
  rewrite Hl, Nat.eqb_refl. cbn [negb].
  rewrite mask_filter_map, (mask_filter_seq_ids _ _ Hl). fold (acc_id m).
  rewrite match_ne by (destruct (acc_id m); [congruence | discriminate]).
  f_equal. rewrite map_map. rewrite bbox_nth by (simpl; lia). cbn [fst].
  assert (Hids : forall p, In p (acc_id m) -> p < nr * nc).
  { intros p Hp. apply ids_of_lt in Hp. lia. }
  assert (E : map (fun p => p / nc) (acc_id m) = map (ix [nr; nc] 0) (acc_id m)).
  { apply map_ext_in. intros p Hp. symmetry. apply ix2_row. apply Hids; assumption. }
  rewrite E. apply map_ext_in. intros p Hp. rewrite ix2_row by (apply Hids; assumption). reflexivity.
Qed.

Theorem acc_col_2d (m : cmap) nr nc :
  oshape m = [nr; nc] -> length (ind m) = nr * nc -> acc_id m <> [] ->
  acc_col m = Ok (map (fun p => ix [nr; nc] 1 p - fst (nth 1 (bbox [nr; nc] (acc_id m)) (0, 0)))
                      (acc_id m)).
Proof.
  intros Hs Hl Hne. unfold acc_col, rc_shape. rewrite Hs. cbn [bind fst snd].
  rewrite Hl, Nat.eqb_refl. cbn [negb].
  rewrite mask_filter_map, (mask_filter_seq_ids _ _ Hl). fold (acc_id m).
  rewrite match_ne by (destruct (acc_id m); [congruence | discriminate]).
  f_equal. rewrite map_map. rewrite bbox_nth by (simpl; lia). cbn [fst].
  assert (Hids : forall p, In p (acc_id m) -> p < nr * nc).
  { intros p Hp. apply ids_of_lt in Hp. lia. }
  assert (E : map (fun p => p mod nc) (acc_id m) = map (ix [nr; nc] 1) (acc_id m)).
  { apply map_ext_in. intros p Hp. symmetry. apply ix2_col. apply Hids; assumption. }
  rewrite E. apply map_ext_in. intros p Hp. rewrite ix2_col by (apply Hids; assumption). reflexivity.
Qed.

(* 1-D maps: the single axis is the column axis when x varies, else the row axis *)
Theorem acc_rowcol_1d (m : cmap) n :
  oshape m = [n] -> length (ind m) = n -> acc_id m <> [] ->
  let rel := map (fun p => p - nminl (acc_id m)) (acc_id m) in
  let zero := map (fun _ => 0) (acc_id m) in
  (acc_x m <> None -> acc_row m = Ok zero /\ acc_col m = Ok rel) /\
  (acc_x m = None -> acc_row m = Ok rel /\ acc_col m = Ok zero).
Proof.
  intros Hs Hl Hne rel zero.
  assert (Hids : forall p, In p (acc_id m) -> p < n).
  { intros p Hp. apply ids_of_lt in Hp. lia. }
  assert (Hnz : n <> 0).
  { destruct (acc_id m) as [|p t] eqn:E; [congruence|]. specialize (Hids p (or_introl eq_refl)). lia. }
  assert (Hmn : forall (f : nat -> nat), map f (acc_id m) <> []).
  { intros f. destruct (acc_id m); [congruence | discriminate]. }
  split; intros Hx; unfold acc_row, acc_col, rc_shape; rewrite Hs.
  - destruct (acc_x m) eqn:Ex; [|congruence]. cbn [bind fst snd].
    rewrite Nat.mul_1_l, Hl, Nat.eqb_refl. cbn [negb]. rewrite <- Hl at 1 2.
    rewrite !mask_filter_map, (mask_filter_seq_ids _ _ Hl). fold (acc_id m).
    rewrite !match_ne by apply Hmn. rewrite !map_map. split; f_equal.
    + assert (E : map (fun p => p / n) (acc_id m) = zero).
      { apply map_ext_in. intros p Hp. apply Nat.div_small. apply Hids; assumption. }
      rewrite E. apply map_ext_in. intros p Hp. rewrite Nat.div_small by (apply Hids; assumption). reflexivity.
    + assert (E : map (fun p => p mod n) (acc_id m) = acc_id m).
      { rewrite <- (map_id (acc_id m)) at 2. apply map_ext_in. intros p Hp.
        apply Nat.mod_small. apply Hids; assumption. }
      rewrite E. apply map_ext_in. intros p Hp. rewrite Nat.mod_small by (apply Hids; assumption). reflexivity.
  - rewrite Hx. cbn [bind fst snd].
    rewrite Nat.mul_1_r, Hl, Nat.eqb_refl. cbn [negb]. rewrite <- Hl at 1 2.
    rewrite !mask_filter_map, (mask_filter_seq_ids _ _ Hl). fold (acc_id m).
    rewrite !match_ne by apply Hmn. rewrite !map_map. split; f_equal.
    1: { assert (E : map (fun p => p / 1) (acc_id m) = acc_id m).
         { rewrite <- (map_id (acc_id m)) at 2. apply map_ext. intros p. apply Nat.div_1_r. }
         rewrite E. apply map_ext. intros p. rewrite Nat.div_1_r. reflexivity. }
    all: try (assert (E : map (fun p => p mod 1) (acc_id m) = zero)
                by (apply map_ext; intros p; apply Nat.mod_1_r);
              rewrite E; apply map_ext; intros p; rewrite Nat.mod_1_r; reflexivity).
Qed.

(* 0-D maps (a single point): row = col = 0 *)
Theorem acc_rowcol_0d (m : cmap) :
  oshape m = [] -> length (ind m) = 1 -> acc_id m <> [] ->
  acc_id m = [0] /\ acc_row m = Ok [0] /\ acc_col m = Ok [0].
Proof.
  intros Hs Hl Hne. unfold acc_row, acc_col, rc_shape, acc_id in *. rewrite Hs.
  destruct (ind m) as [|b [|b' t]]; simpl in Hl; try discriminate.
  destruct b; [|exfalso; apply Hne; reflexivity].
  repeat split.
Qed.

(* -------------------------------------------------------- get_map_data *)
(* position of original point p in the output array: its bounding-box
   relative index vector, ravelled in the bounding-box shape *)
Definition out_pos (m : cmap) (p : nat) : nat :=
  let bb := bbox (oshape m) (acc_id m) in
  ravel (wshape_of bb) (rel_idx (unravel (oshape m) p) bb).

(* original point shown at output position q *)
Definition out_cell (m : cmap) (q : nat) : nat :=
  let bb := bbox (oshape m) (acc_id m) in
  ravel (oshape m) (zip_with (fun j w => j + fst w) (unravel (wshape_of bb) q) bb).

Lemma wshape_nth bb d : d < length bb ->
  nth d (wshape_of bb) 0 = snd (nth d bb (0, 0)) - fst (nth d bb (0, 0)).
Proof.
  intros H. unfold wshape_of. set (f := fun w : nat * nat => snd w - fst w).
  rewrite (nth_indep (map f bb) 0 (f (0, 0))) by (rewrite map_length; assumption).
  rewrite map_nth. reflexivity.
Qed.

Lemma rel_valid s p bb :
  length bb = length s -> in_win (unravel s p) bb = true ->
  valid (wshape_of bb) (rel_idx (unravel s p) bb).
Proof.
  intros Hl Hw. apply valid_nth. unfold rel_idx, wshape_of.
  rewrite zip_with_length, unravel_length, map_length. split; [lia|].
  intros d Hd. rewrite (zip_with_nth _ _ _ _ 0 (0, 0)) by (rewrite ?unravel_length; lia).
  fold (wshape_of bb). rewrite wshape_nth by lia.
  pose proof (proj1 (in_win_spec s p bb Hl) Hw d ltac:(lia)) as H. rewrite unravel_nth. lia.
Qed.

Lemma rel_add_back s p bb :
  length bb = length s -> in_win (unravel s p) bb = true ->
  zip_with (fun j w => j + fst w) (rel_idx (unravel s p) bb) bb = unravel s p.
Proof.
  intros Hl Hw. apply (nth_ext _ _ 0 0).
  - unfold rel_idx. rewrite !zip_with_length, unravel_length. lia.
  - intros d Hd. unfold rel_idx in *. rewrite !zip_with_length, unravel_length in Hd.
    rewrite (zip_with_nth _ _ _ _ 0 (0, 0)) by (rewrite ?zip_with_length, ?unravel_length; lia).
    rewrite (zip_with_nth _ _ _ _ 0 (0, 0)) by (rewrite ?unravel_length; lia).
    pose proof (proj1 (in_win_spec s p bb Hl) Hw d ltac:(lia)) as H. rewrite unravel_nth in *. lia.
Qed.

Lemma add_valid s ids q :
  ids <> [] -> (forall p, In p ids -> p < size s) -> q < size (wshape_of (bbox s ids)) ->
  let idx := zip_with (fun j w => j + fst w) (unravel (wshape_of (bbox s ids)) q) (bbox s ids) in
  valid s idx /\ in_win idx (bbox s ids) = true /\
  rel_idx idx (bbox s ids) = unravel (wshape_of (bbox s ids)) q.
Proof.
  intros Hne Hlt Hq idx.
  set (bb := bbox s ids) in *. set (ws := wshape_of bb) in *.
  assert (Hlb : length bb = length s) by apply bbox_length.
  assert (Hlw : length ws = length s) by (unfold ws, wshape_of; rewrite map_length; assumption).
  pose proof (unravel_valid ws q Hq) as Hv. apply valid_nth in Hv as [Hvl Hvn].
  assert (Hli : length idx = length s).
  { unfold idx. rewrite zip_with_length, unravel_length. lia. }
  assert (Hnth : forall d, d < length s ->
            nth d idx 0 = nth d (unravel ws q) 0 + fst (nth d bb (0, 0)) /\
            nth d (unravel ws q) 0 < snd (nth d bb (0, 0)) - fst (nth d bb (0, 0)) /\
            snd (nth d bb (0, 0)) <= nth d s 0).
  { intros d Hd. split; [|split].
    - unfold idx. rewrite (zip_with_nth _ _ _ _ 0 (0, 0)) by (rewrite ?unravel_length; lia). reflexivity.
    - specialize (Hvn d ltac:(lia)). unfold ws in Hvn at 2.
      rewrite wshape_nth in Hvn by lia. exact Hvn.
    - apply (bbox_bounds s ids d Hne Hlt Hd). }
  split; [|split].
  - apply valid_nth. split; [assumption|]. intros d Hd. destruct (Hnth d Hd) as (H1 & H2 & H3). lia.
  - unfold in_win. apply (forallb2_nth _ _ _ 0 (0, 0)). split; [lia|].
    intros d Hd. rewrite Hli in Hd. destruct (Hnth d Hd) as (H1 & H2 & H3).
    apply andb_true_iff. split; [apply Nat.leb_le | apply Nat.ltb_lt]; lia.
  - apply (nth_ext _ _ 0 0).
    + unfold rel_idx. rewrite zip_with_length, unravel_length. lia.
    + intros d Hd. unfold rel_idx in *. rewrite zip_with_length in Hd.
      rewrite (zip_with_nth _ _ _ _ 0 (0, 0)) by lia.
      destruct (Hnth d ltac:(lia)) as (H1 & H2 & H3). lia.
Qed.

Theorem get_map_data_placement (m : cmap) (is_array : bool) (vals : list V) (d : V) :
  wf m -> acc_id m <> [] -> length vals = length (acc_id m) ->
  let ws := wshape_of (bbox (oshape m) (acc_id m)) in
  exists out,
    get_map_data m is_array vals = Ok (ws, out) /\
    length out = size ws /\
    (* every value sits at the (row, col) of its point *)
    (forall k, k < length (acc_id m) ->
       out_pos m (nth k (acc_id m) 0) < size ws /\
       nth (out_pos m (nth k (acc_id m) 0)) out None = Some (nth k vals d)) /\
    (* and everything else is the fill value *)
    (forall q, q < size ws -> (forall p, In p (acc_id m) -> out_pos m p <> q) ->
       nth q out None = None).
Proof.
  intros Hwf Hne Hlv ws.
  pose proof Hwf as (Hi & Hp & Hg).
  set (s := oshape m) in *. set (ids := acc_id m) in *. set (bb := bbox s ids) in *.
  assert (Hlt : forall p, In p ids -> p < size s).
  { intros p Hp'. apply ids_of_lt in Hp'. congruence. }
  assert (Hlb : length bb = length s) by apply bbox_length.
  unfold get_map_data. fold s.
  cbv zeta. rewrite Hi, Nat.eqb_refl. cbn [negb].
  change (count (ind m)) with (length ids). rewrite Hlv, Nat.eqb_refl. cbn [orb negb].
  rewrite data_slices_bbox by assumption. cbn [bind]. fold s ids bb.
  unfold zbox at 1. rewrite map_length, Hlb, Nat.eqb_refl. cbn [negb].
  rewrite (window_is_bbox s ids Hne Hlt : zip_with win_bounds s (zbox bb) = bb). fold ws.
  assert (Hm : forall (X : list nat * list (option V)),
             match s, length ids with [], 0 => Err TypeError | _, _ => Ok X end = Ok X).
  { intros X. destruct s; [|reflexivity].
    destruct ids; [congruence | reflexivity]. }
  rewrite Hm.
  eexists. split; [reflexivity|].
  split; [rewrite map_length, seq_length; reflexivity|].
  split.
  - intros k Hk.
    set (p := nth k ids 0).
    assert (Hpin : In p ids) by (apply nth_In; assumption).
    assert (Hw : in_win (unravel s p) bb = true) by (apply ids_in_bbox; assumption).
    pose proof (rel_valid s p bb Hlb Hw) as Hv.
    assert (Hq : out_pos m p < size ws) by (apply ravel_lt; exact Hv).
    split; [exact Hq|].
    rewrite (map_seq_nth _ _ _ None Hq).
    unfold out_pos. fold s ids bb ws.
    rewrite unravel_ravel by exact Hv.
    rewrite rel_add_back by assumption.
    rewrite ravel_unravel by (apply Hlt; assumption).
    unfold p, ids, acc_id.
    rewrite (scatter_at_ids None (ind m) (map Some vals) k)
      by (unfold count; rewrite ?map_length; assumption).
    rewrite (nth_indep _ None (Some d)) by (rewrite map_length; lia).
    apply map_nth.
  - intros q Hq Hno.
    rewrite (map_seq_nth _ _ _ None Hq).
    destruct (add_valid s ids q Hne Hlt Hq) as (Hv & Hw & Hrel). fold bb ws in Hv, Hw, Hrel.
    set (idx := zip_with (fun j w => j + fst w) (unravel ws q) bb) in *.
    destruct (nth (ravel s idx) (ind m) false) eqn:En.
    + exfalso. apply (Hno (ravel s idx)).
      * apply ids_of_In. split; [rewrite Hi; apply ravel_lt; assumption | assumption].
      * unfold out_pos. fold s ids bb ws. rewrite unravel_ravel by assumption.
        rewrite Hrel. apply ravel_unravel; assumption.
    + apply scatter_off; assumption.
Qed.

End Acc.
