(* C14 -- the reader recovers grid shape and step sizes from the printed
   coordinate columns (CrystalMap: _step_size_from_coordinates,
   _data_slices_from_coordinates), for every coordinate printer that resolves
   the axis at the file's precision. *)
From Coq Require Import ZArith String Ascii List Bool Lia.
From Verif Require Import C14Ang.
Import ListNotations.
Open Scope Z_scope.

(* ---------------------------------------------------------------- rdiv *)
Lemma rdiv_near : forall n b e, 0 < b -> - b < 2 * e < b -> rdiv (n * b + e) b = n.
Proof.
  intros n b e Hb He. unfold rdiv.
  destruct (Z_lt_le_dec e 0) as [Hneg | Hpos].
  - assert (Hq : (n * b + e) / b = n - 1).
    { symmetry. apply Z.div_unique with (r := b + e); lia. }
    assert (Hr : (n * b + e) mod b = b + e).
    { symmetry. apply Z.mod_unique with (q := n - 1); lia. }
    rewrite Hq, Hr.
    destruct (2 * (b + e) <? b) eqn:E1; [apply Z.ltb_lt in E1; lia|].
    destruct (b <? 2 * (b + e)) eqn:E2; [lia | apply Z.ltb_ge in E2; lia].
  - assert (Hq : (n * b + e) / b = n).
    { symmetry. apply Z.div_unique with (r := e); lia. }
    assert (Hr : (n * b + e) mod b = e).
    { symmetry. apply Z.mod_unique with (q := n); lia. }
    rewrite Hq, Hr.
    destruct (2 * e <? b) eqn:E1; [reflexivity | apply Z.ltb_ge in E1; lia].
Qed.

Lemma rdiv_zero : forall b, 0 < b -> rdiv 0 b = 0.
Proof. intros b Hb. replace 0 with (0 * b + 0) at 1 by lia. apply rdiv_near; lia. Qed.

(* ---------------------------------------------------------------- min / max *)
Lemma zmin_list_le : forall l d x, In x l -> zmin_list d l <= x.
Proof.
  induction l as [|y r IH]; intros d x Hin; [destruct Hin|].
  simpl. destruct Hin as [-> | Hin]; [lia|]. specialize (IH y x Hin). lia.
Qed.
Lemma zmin_list_in : forall l d, l <> [] -> In (zmin_list d l) l.
Proof.
  induction l as [|y r IH]; intros d Hne; [congruence|].
  simpl. destruct r as [|z r'].
  - left. simpl. lia.
  - assert (H : In (zmin_list y (z :: r')) (z :: r')) by (apply IH; congruence).
    destruct (Z.min_spec y (zmin_list y (z :: r'))) as [[_ ->] | [_ ->]]; [left; reflexivity | right; exact H].
Qed.
Lemma zmax_list_ge : forall l d x, In x l -> x <= zmax_list d l.
Proof.
  induction l as [|y r IH]; intros d x Hin; [destruct Hin|].
  simpl. destruct Hin as [-> | Hin]; [lia|]. specialize (IH y x Hin). lia.
Qed.
Lemma zmax_list_in : forall l d, l <> [] -> In (zmax_list d l) l.
Proof.
  induction l as [|y r IH]; intros d Hne; [congruence|].
  simpl. destruct r as [|z r'].
  - left. simpl. lia.
  - assert (H : In (zmax_list y (z :: r')) (z :: r')) by (apply IH; congruence).
    destruct (Z.max_spec y (zmax_list y (z :: r'))) as [[_ ->] | [_ ->]]; [right; exact H | left; reflexivity].
Qed.

Lemma zmin_list_unique : forall l d v, In v l -> (forall x, In x l -> v <= x) -> zmin_list d l = v.
Proof.
  intros l d v Hin Hle.
  assert (Hne : l <> []) by (intro E; subst; destruct Hin).
  pose proof (zmin_list_in l d Hne) as H1. pose proof (zmin_list_le l d v Hin) as H2.
  specialize (Hle _ H1). lia.
Qed.
Lemma zmax_list_unique : forall l d v, In v l -> (forall x, In x l -> x <= v) -> zmax_list d l = v.
Proof.
  intros l d v Hin Hle.
  assert (Hne : l <> []) by (intro E; subst; destruct Hin).
  pose proof (zmax_list_in l d Hne) as H1. pose proof (zmax_list_ge l d v Hin) as H2.
  specialize (Hle _ H1). lia.
Qed.

(* ---------------------------------------------------------------- an axis *)
(* the printed coordinates f 0 .. f (n-1) of one axis resolve the axis:
   start at 0, strictly increasing, and close enough to multiples of f 1 *)
Definition axis_ok (f : nat -> Z) (n : nat) : Prop :=
  f O = 0 /\ (forall i j, (i < j < n)%nat -> f i < f j)
  /\ - f 1%nat < 2 * (f (n - 1)%nat - Z.of_nat (n - 1) * f 1%nat) < f 1%nat.

(* an exactly representable step s > 0 is always fine *)
Lemma axis_ok_linear : forall s n, 0 < s -> axis_ok (fun k => Z.of_nat k * s) n.
Proof.
  intros s n Hs. unfold axis_ok. repeat split; intros; try nia.
Qed.

(* a list of axis values: all of the form f j with j < n, every j occurs *)
Definition covers (f : nat -> Z) (n : nat) (l : list Z) : Prop :=
  (forall x, In x l -> exists j, (j < n)%nat /\ x = f j) /\ (forall j, (j < n)%nat -> In (f j) l).

Lemma mono_le : forall f n, (forall i j, (i < j < n)%nat -> f i < f j) ->
  forall i j, (i <= j < n)%nat -> f i <= f j.
Proof.
  intros f n H i j Hij. destruct (Nat.eq_dec i j) as [-> | Hne]; [lia|].
  assert (f i < f j) by (apply H; lia). lia.
Qed.

Lemma step_extent_const : forall f l, l <> [] -> covers f 1 l -> step_of l = 0 /\ extent_of l = None.
Proof.
  intros f l Hne [Hall _].
  assert (Hc : forall x, In x l -> x = f O).
  { intros x Hx. destruct (Hall x Hx) as [j [Hj ->]]. replace j with O by lia. reflexivity. }
  assert (Hstep : step_of l = 0).
  { unfold step_of. destruct l as [|x r]; [congruence|].
    assert (Hmn : zmin_list x (x :: r) = f O).
    { apply zmin_list_unique; [rewrite <- (Hc x) by (left; reflexivity); left; reflexivity|].
      intros y Hy. rewrite (Hc y Hy). lia. }
    rewrite Hmn.
    assert (Hf : filter (fun v => f O <? v) (x :: r) = []).
    { clear Hmn Hne Hall. induction (x :: r) as [|y r' IH]; [reflexivity|].
      simpl. rewrite (Hc y) by (left; reflexivity). rewrite Z.ltb_irrefl. apply IH.
      intros z Hz. apply Hc. right. exact Hz. }
    rewrite Hf. reflexivity. }
  split; [exact Hstep|].
  unfold extent_of. destruct l; [congruence|]. rewrite Hstep. reflexivity.
Qed.

Lemma step_extent_axis : forall f n l, (1 < n)%nat -> axis_ok f n -> covers f n l ->
  step_of l = f 1%nat /\ extent_of l = Some n.
Proof.
  intros f n l Hn [H0 [Hmono Hlin]] [Hall Hevery].
  assert (Hle := mono_le f n Hmono).
  assert (Hne : l <> []).
  { intro E. subst. destruct (Hevery O); lia. }
  assert (Hpos : 0 < f 1%nat).
  { rewrite <- H0. apply Hmono. lia. }
  assert (Hmn : forall d, zmin_list d l = f O).
  { intro d. apply zmin_list_unique; [apply Hevery; lia|].
    intros x Hx. destruct (Hall x Hx) as [j [Hj ->]]. apply Hle. lia. }
  assert (Hmx : forall d, zmax_list d l = f (n - 1)%nat).
  { intro d. apply zmax_list_unique; [apply Hevery; lia|].
    intros x Hx. destruct (Hall x Hx) as [j [Hj ->]]. apply Hle. lia. }
  assert (Hstep : step_of l = f 1%nat).
  { unfold step_of. destruct l as [|x r] eqn:El; [congruence|]. rewrite <- El in *.
    rewrite Hmn.
    set (l2 := filter (fun v => f O <? v) l).
    assert (Hin1 : In (f 1%nat) l2).
    { apply filter_In. split; [apply Hevery; lia|]. apply Z.ltb_lt. lia. }
    assert (Hmin2 : forall d, zmin_list d l2 = f 1%nat).
    { intro d. apply zmin_list_unique; [exact Hin1|].
      intros y Hy. apply filter_In in Hy. destruct Hy as [Hy Hlt]. apply Z.ltb_lt in Hlt.
      destruct (Hall y Hy) as [j [Hj ->]].
      destruct j as [|j']; [lia|]. apply Hle. lia. }
    destruct l2 as [|y r2] eqn:E2; [destruct Hin1|].
    rewrite Hmin2. lia. }
  split; [exact Hstep|].
  unfold extent_of. destruct l as [|x r] eqn:El; [congruence|]. rewrite <- El in *.
  rewrite Hstep. destruct (f 1%nat =? 0) eqn:E0; [apply Z.eqb_eq in E0; lia|].
  rewrite Hmn, Hmx, H0.
  rewrite rdiv_zero by lia.
  replace (f (n - 1)%nat + f 1%nat)
    with (Z.of_nat n * f 1%nat + (f (n - 1)%nat - Z.of_nat (n - 1) * f 1%nat)) by nia.
  rewrite rdiv_near by lia.
  f_equal. lia.
Qed.

(* ---------------------------------------------------------------- the two columns *)
Lemma covers_x : forall f nr nc, (0 < nr)%nat -> (0 < nc)%nat ->
  covers f nc (map (fun k => f (Nat.modulo k nc)) (seq 0 (nr * nc))).
Proof.
  intros f nr nc Hr Hc. split.
  - intros x Hx. apply in_map_iff in Hx. destruct Hx as [k [<- Hk]].
    exists (Nat.modulo k nc). split; [apply Nat.mod_upper_bound; lia | reflexivity].
  - intros j Hj. apply in_map_iff. exists j. split.
    + rewrite Nat.mod_small by lia. reflexivity.
    + apply in_seq. nia.
Qed.

Lemma covers_y : forall f nr nc, (0 < nr)%nat -> (0 < nc)%nat ->
  covers f nr (map (fun k => f (Nat.div k nc)) (seq 0 (nr * nc))).
Proof.
  intros f nr nc Hr Hc. split.
  - intros x Hx. apply in_map_iff in Hx. destruct Hx as [k [<- Hk]].
    exists (Nat.div k nc). split; [|reflexivity].
    apply in_seq in Hk. apply Nat.div_lt_upper_bound; lia.
  - intros j Hj. apply in_map_iff. exists (j * nc)%nat. split.
    + rewrite Nat.div_mul by lia. reflexivity.
    + apply in_seq. nia.
Qed.

Lemma seq_map_nonempty : forall (g : nat -> Z) n, (0 < n)%nat -> map g (seq 0 n) <> [].
Proof. intros g n Hn. destruct n; [lia|]. simpl. congruence. Qed.

(* shape and steps read back from an nr x nc grid of printed coordinates *)
Definition squeeze (nr nc : nat) : list nat :=
  (if Nat.ltb 1 nr then [nr] else []) ++ (if Nat.ltb 1 nc then [nc] else []).

Theorem grid_read_back : forall (fx fy : nat -> Z) nr nc,
  (0 < nr)%nat -> (0 < nc)%nat ->
  ((1 < nc)%nat -> axis_ok fx nc) -> ((1 < nr)%nat -> axis_ok fy nr) ->
  let xs := map (fun k => fx (Nat.modulo k nc)) (seq 0 (nr * nc)) in
  let ys := map (fun k => fy (Nat.div k nc)) (seq 0 (nr * nc)) in
  (match extent_of ys with Some n => [n] | None => [] end)
    ++ (match extent_of xs with Some n => [n] | None => [] end) = squeeze nr nc
  /\ step_of xs = (if Nat.ltb 1 nc then fx 1%nat else 0)
  /\ step_of ys = (if Nat.ltb 1 nr then fy 1%nat else 0).
Proof.
  intros fx fy nr nc Hr Hc Hx Hy xs ys.
  assert (Hxne : xs <> []) by (apply seq_map_nonempty; nia).
  assert (Hyne : ys <> []) by (apply seq_map_nonempty; nia).
  pose proof (covers_x fx nr nc Hr Hc) as Cx. pose proof (covers_y fy nr nc Hr Hc) as Cy.
  fold xs in Cx. fold ys in Cy. unfold squeeze.
  destruct (Nat.ltb_spec 1 nc) as [Enc | Enc]; destruct (Nat.ltb_spec 1 nr) as [Enr | Enr].
  - destruct (step_extent_axis fx nc xs Enc (Hx Enc) Cx) as [-> ->].
    destruct (step_extent_axis fy nr ys Enr (Hy Enr) Cy) as [-> ->]. auto.
  - assert (nr = 1%nat) by lia. subst nr.
    destruct (step_extent_axis fx nc xs Enc (Hx Enc) Cx) as [-> ->].
    destruct (step_extent_const fy ys Hyne Cy) as [-> ->]. auto.
  - assert (nc = 1%nat) by lia. subst nc.
    destruct (step_extent_axis fy nr ys Enr (Hy Enr) Cy) as [-> ->].
    destruct (step_extent_const fx xs Hxne Cx) as [-> ->]. auto.
  - assert (nc = 1%nat) by lia. assert (nr = 1%nat) by lia. subst nc nr.
    destruct (step_extent_const fx xs Hxne Cx) as [-> ->].
    destruct (step_extent_const fy ys Hyne Cy) as [-> ->]. auto.
Qed.
