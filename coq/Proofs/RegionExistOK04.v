(* exact check of the existence certificates (common operations, kept normals are large-cell or pure-vector normals,
   cover tree of the axis fundamental zone, distinguished points are products) of the regions whose first group is
   number 04 of the proper groups *)
From Coq Require Import List Bool.
From Verif Require Import CertCheck CoverCheck ExistCheck RegionCerts04 RegionExist04.
Lemma region_exist_ok_04 : all2b rc_ec_ok region_certs_04 region_exist_04 = true.
Proof. vm_compute. reflexivity. Qed.
