(* C16 -- proofs.  Part 1: the faithful machine (methods of the six classes as
   written in /repo) coincides with the specification machine on every step
   from every well-formed object, hence on every program. *)
From Coq Require Import ZArith List Bool Arith Lia Permutation.
From Verif Require Import Scalar NdIndex C16Model C16Index.
Import ListNotations.

(* ------------------------------------------------------------ gather *)
Section Gather.
Context {A B : Type}.

Lemma gather_map (f : A -> B) d l ks : gather (f d) (map f l) ks = map f (gather d l ks).
Proof. unfold gather. rewrite map_map. apply map_ext. intros k. apply map_nth. Qed.

Lemma gather_length (d : A) l ks : length (gather d l ks) = length ks.
Proof. unfold gather; apply map_length. Qed.

Lemma combine_fst_snd (l : list (A * B)) : combine (map fst l) (map snd l) = l.
Proof. induction l as [|[a b] l IH]; simpl; [reflexivity|]. rewrite IH; reflexivity. Qed.

Lemma gather_combine (d1 : A) (d2 : B) rows ks :
  combine (gather d1 (map fst rows) ks) (gather d2 (map snd rows) ks) = gather (d1, d2) rows ks.
Proof.
  unfold gather. induction ks as [|k ks IH]; simpl; [reflexivity|]. rewrite IH. f_equal.
  change d1 with (fst (d1, d2)) at 1. change d2 with (snd (d1, d2)) at 2.
  rewrite !map_nth. destruct (nth k rows (d1, d2)); reflexivity.
Qed.

Lemma gather_seq (d : A) l : gather d l (seq 0 (length l)) = l.
Proof. unfold gather. apply map_nth_seq. Qed.
End Gather.

Lemma apply_plan_map {A B} (f : A -> B) d l p :
  apply_plan (f d) (map f l) p
  = match apply_plan d l p with Some (s', l') => Some (s', map f l') | None => None end.
Proof. destruct p; simpl; try reflexivity. rewrite gather_map; reflexivity. Qed.

Lemma plan_get_not_keep s k s' : plan_get s k <> PKeep s'.
Proof.
  destruct k as [items|m bits|ixs|b a]; simpl.
  - unfold plan_basic. destruct (basic_sels s items); discriminate.
  - destruct (_ && _ && _)%bool; discriminate.
  - destruct s as [|n rest]; [discriminate|]. destruct (norm_all n ixs); discriminate.
  - destruct (expand_ellipsis s b a) as [items|]; [|discriminate].
    unfold plan_basic. destruct (basic_sels s items); discriminate.
Qed.

(* ------------------------------------------------- faithful = spec *)
Section Faithful.
Context {V : Type} (vf : vfuns V).
Notation row := (V * bool)%type.
Notation dv := (v_dflt vf).
Notation dr := (drow vf).

Definition nf (rows : list row) : bool := forallb (fun r => negb (snd r)) rows.

Lemma nf_reset rows : nf rows = true -> map (fun v => (v, false)) (map fst rows) = rows.
Proof.
  induction rows as [|[v b] rows IH]; simpl; [reflexivity|].
  intros H. apply andb_true_iff in H as [Hb Hr]. destruct b; [discriminate|].
  rewrite IH by exact Hr. reflexivity.
Qed.

Lemma nf_map_fst (f : V -> V) rows : nf rows = true ->
  map (fun v => (v, false)) (map f (map fst rows)) = map (fun r => (f (fst r), snd r)) rows.
Proof.
  induction rows as [|[v b] rows IH]; simpl; [reflexivity|].
  intros H. apply andb_true_iff in H as [Hb Hr]. destruct b; [discriminate|].
  rewrite IH by exact Hr. reflexivity.
Qed.

Lemma nf_gather rows ks : nf rows = true -> nf (gather dr rows ks) = true.
Proof.
  intros H. unfold nf, gather. rewrite forallb_forall. intros r Hin.
  apply in_map_iff in Hin as [k [Hk _]]. subst r. cbv beta.
  destruct (nth_in_or_default k rows dr) as [Hi|Hd].
  - unfold nf in H. rewrite forallb_forall in H. apply H; exact Hi.
  - rewrite Hd; reflexivity.
Qed.

Lemma map_fst_reset (d : list V) : map fst (map (fun v => (v, false)) d) = d.
Proof. rewrite map_map; simpl. apply map_id. Qed.

Lemma set_flags_mk s (d : list V) fl : set_flags (mk s d) fl = mkObj s (combine d fl) meta0.
Proof. unfold set_flags, mk, o_data; simpl. rewrite map_fst_reset. reflexivity. Qed.

Lemma combine_map_fst_snd (f : V -> V) (g : bool -> bool) (rows : list row) :
  combine (map f (map fst rows)) (map g (map snd rows)) = map (fun r => (f (fst r), g (snd r))) rows.
Proof. induction rows as [|[v b] rows IH]; simpl; [reflexivity|]. rewrite IH; reflexivity. Qed.

Lemma meta_eqb_eq a b : meta_eqb a b = true -> a = b.
Proof.
  destruct a, b; unfold meta_eqb; simpl. intros H.
  repeat (apply andb_true_iff in H as [H ?]).
  apply Z.eqb_eq in H. repeat match goal with h : Z.eqb _ _ = true |- _ => apply Z.eqb_eq in h end.
  subst; reflexivity.
Qed.

Lemma meta_eqb_refl a : meta_eqb a a = true.
Proof. destruct a; unfold meta_eqb; simpl. rewrite !Z.eqb_refl. reflexivity. Qed.

(* what the class invariant says about the metadata record *)
Lemma wf_meta_plain c m : wf_meta c m = true ->
  match c with CQuat | CRot | CVec => m = meta0 | _ => True end.
Proof. destruct c; simpl; intros H; auto; apply meta_eqb_eq; exact H. Qed.

Lemma wf_meta_mis c m : wf_meta c m = true ->
  match c with CMis | COri => mkMeta (symL m) (symR m) 0 0 = m | _ => True end.
Proof.
  destruct c; simpl; auto; destruct m; simpl; intros H;
  repeat (apply andb_true_iff in H as [H ?]);
  repeat match goal with h : Z.eqb _ _ = true |- _ => apply Z.eqb_eq in h end; subst; reflexivity.
Qed.

Lemma wf_meta_ori m : wf_meta COri m = true -> mkMeta 0 (symR m) 0 0 = m.
Proof.
  destruct m; simpl; intros H; repeat (apply andb_true_iff in H as [H ?]);
  repeat match goal with h : Z.eqb _ _ = true |- _ => apply Z.eqb_eq in h end; subst; reflexivity.
Qed.

Lemma wf_meta_mil m : wf_meta CMil m = true -> mkMeta 0 0 (phase m) (fmt m) = m.
Proof.
  destruct m; simpl; intros H; repeat (apply andb_true_iff in H as [H ?]);
  repeat match goal with h : Z.eqb _ _ = true |- _ => apply Z.eqb_eq in h end; subst; reflexivity.
Qed.

(* the structural part of a method of Object3d that rebuilds from `.data`:
   equals the plan applied to the rows when no flag is set *)
Lemma base_plan_nf (rows : list row) p : nf rows = true ->
  match apply_plan dv (map fst rows) p with Some (s', d') => Some (mk s' d') | None => None end
  = match apply_plan dr rows p with Some (s', l') => Some (mkObj s' l' meta0) | None => None end.
Proof.
  intros H. destruct p as [|s'|s' ps]; simpl; [reflexivity| |].
  - unfold mk. rewrite nf_reset by exact H. reflexivity.
  - unfold mk. change dv with (fst dr). rewrite gather_map.
    rewrite nf_reset by (apply nf_gather; exact H). reflexivity.
Qed.

(* Rotation's pattern: rebuild from `.data`, then copy the flags selected by
   the same plan *)
Lemma rot_plan (rows : list row) p :
  match (match apply_plan dv (map fst rows) p with Some (s', d') => Some (mk s' d') | None => None end),
        apply_plan false (map snd rows) p with
  | Some R, Some (_, fl) => Some (set_flags R fl)
  | _, _ => None
  end
  = match apply_plan dr rows p with Some (s', l') => Some (mkObj s' l' meta0) | None => None end.
Proof.
  destruct p as [|s'|s' ps]; simpl; [reflexivity| |].
  - rewrite set_flags_mk, combine_fst_snd. reflexivity.
  - rewrite set_flags_mk. unfold drow. rewrite gather_combine. reflexivity.
Qed.

(* Object3d's pattern in flatten / reshape / transpose: rebuild from `.data`,
   then overwrite `_data` with the rows moved by the same plan *)
Lemma base_both (rows : list row) p :
  match apply_plan dv (map fst rows) p, apply_plan dr rows p with
  | Some (s', d'), Some (s'', r') => Some (set_rows (mk s' d') s'' r')
  | _, _ => None
  end
  = match apply_plan dr rows p with Some (s', l') => Some (mkObj s' l' meta0) | None => None end.
Proof. destruct p; reflexivity. Qed.

Lemma combine_map_fst (f : V -> V) (rows : list row) :
  combine (map f (map fst rows)) (map snd rows) = map (fun r => (f (fst r), snd r)) rows.
Proof. induction rows as [|[v b] rows IH]; simpl; [reflexivity|]. rewrite IH; reflexivity. Qed.
Lemma combine_map_snd (g : bool -> bool) (rows : list row) :
  combine (map fst rows) (map g (map snd rows)) = map (fun r => (fst r, g (snd r))) rows.
Proof. induction rows as [|[v b] rows IH]; simpl; [reflexivity|]. rewrite IH; reflexivity. Qed.

Lemma data_only_mk s (d : list V) : data_only (mk s d) = mk s d.
Proof. unfold data_only, mk, o_data; simpl. rewrite map_fst_reset. reflexivity. Qed.

Lemma o_data_mk s (d : list V) : o_data (mk s d) = d.
Proof. unfold o_data, mk; simpl. apply map_fst_reset. Qed.

Ltac split_wf H :=
  unfold wf in H; simpl in H; apply andb_true_iff in H;
  let Hm := fresh "Hm" in let Hf := fresh "Hf" in destruct H as [Hm Hf].

(* element-wise operations *)
Lemma eop_spec c e s rows m :
  wf c (mkObj s rows m) = true ->
  m_eop vf c e (mkObj s rows m)
  = match sact vf c e with
    | Some f => Some (mkObj s (map f rows) (smeta c (OEl e) m))
    | None => None
    end.
Proof.
  intros Hwf. split_wf Hwf.
  destruct e; simpl.
  - (* id *) rewrite map_id. destruct c; reflexivity.
  - (* unit *)
    destruct c; simpl in *; cbv beta iota delta [base_unit rot_unit mis_unit ori_unit mil_unit mil_wrap obind
      o_data o_flags orows oshape ometa].
    + apply meta_eqb_eq in Hm; subst m. unfold mk. rewrite nf_map_fst by exact Hf. reflexivity.
    + apply meta_eqb_eq in Hm; subst m. rewrite set_flags_mk, combine_map_fst. reflexivity.
    + rewrite set_flags_mk, combine_map_fst. unfold attach_sym, set_meta; simpl.
      pose proof (wf_meta_mis CMis m Hm) as E; simpl in E. rewrite E. reflexivity.
    + rewrite set_flags_mk, combine_map_fst. unfold attach_sym, attach_ori_sym, set_meta; simpl.
      rewrite (wf_meta_ori _ Hm). reflexivity.
    + apply meta_eqb_eq in Hm; subst m. unfold mk. rewrite nf_map_fst by exact Hf. reflexivity.
    + rewrite data_only_mk. unfold attach_miller, set_meta, mk; simpl. rewrite nf_map_fst by exact Hf.
      rewrite (wf_meta_mil _ Hm). reflexivity.
  - (* inverse *)
    destruct c; simpl in *; cbv beta iota delta [quat_invert rot_invert mis_invert ori_invert obind o_data o_flags
      orows oshape ometa]; try reflexivity.
    + apply meta_eqb_eq in Hm; subst m. unfold mk. rewrite nf_map_fst by exact Hf. reflexivity.
    + apply meta_eqb_eq in Hm; subst m. rewrite set_flags_mk, combine_map_fst. reflexivity.
    + rewrite set_flags_mk, combine_map_fst. unfold set_meta; simpl.
      pose proof (wf_meta_mis CMis m Hm) as E; simpl in E. unfold meta_swap.
      destruct m; simpl in *. inversion E; subst. reflexivity.
    + rewrite set_flags_mk, combine_map_fst. unfold attach_ori_sym, set_meta; simpl.
      rewrite (wf_meta_ori _ Hm). reflexivity.
  - (* negation *)
    destruct c; simpl in *; cbv beta iota delta [quat_neg rot_neg mis_neg ori_neg vec_neg mil_neg obind o_data o_flags
      orows oshape ometa].
    + apply meta_eqb_eq in Hm; subst m. unfold mk. rewrite nf_map_fst by exact Hf. reflexivity.
    + apply meta_eqb_eq in Hm; subst m. rewrite set_flags_mk, combine_map_snd. reflexivity.
    + rewrite set_flags_mk, combine_map_snd. unfold attach_sym, set_meta; simpl.
      pose proof (wf_meta_mis CMis m Hm) as E; simpl in E. rewrite E. reflexivity.
    + rewrite set_flags_mk, combine_map_snd. unfold attach_sym, attach_ori_sym, set_meta; simpl.
      rewrite (wf_meta_ori _ Hm). reflexivity.
    + apply meta_eqb_eq in Hm; subst m. unfold mk. rewrite nf_map_fst by exact Hf. reflexivity.
    + unfold attach_miller, set_meta, mk; simpl. rewrite nf_map_fst by exact Hf.
      rewrite (wf_meta_mil _ Hm). reflexivity.
Qed.

Lemma nf_apply_plan (rows : list row) p s' l' :
  nf rows = true -> apply_plan dr rows p = Some (s', l') -> nf l' = true.
Proof.
  intros H. destruct p as [|s1|s1 ps]; simpl; intros E; inversion E; subst; auto.
  apply nf_gather; exact H.
Qed.

Lemma data_only_nf s (rows : list row) m : nf rows = true -> data_only (mkObj s rows m) = mkObj s rows meta0.
Proof. intros H. unfold data_only, mk, o_data; simpl. rewrite nf_reset by exact H. reflexivity. Qed.

Lemma map_fst_gather (rows : list row) ks : map fst (gather dr rows ks) = gather dv (map fst rows) ks.
Proof. change dv with (fst dr). symmetry. apply gather_map. Qed.

(* noflags of a well-formed object of a class without flag column *)
Lemma wf_nf c s (rows : list row) m :
  wf c (mkObj s rows m) = true -> is_rot c = false -> nf rows = true.
Proof.
  intros H Hr. unfold wf in H. apply andb_true_iff in H as [_ H]. rewrite Hr in H. exact H.
Qed.

Definition is_struct (o : op) : bool := match o with OEl _ | OStack _ => false | _ => true end.

Lemma struct_spec c o s rows m :
  is_struct o = true ->
  wf c (mkObj s rows m) = true ->
  step_cls vf c o (mkObj s rows m)
  = match apply_plan dr rows (plan_of o s) with
    | Some (s', l') => Some (mkObj s' l' m)
    | None => None
    end.
Proof.
  intros Hs Hwf.
  assert (Hnr : is_rot c = false -> nf rows = true) by (apply (wf_nf c s rows m Hwf)).
  pose proof Hwf as Hwf'. split_wf Hwf'.
  pose proof (wf_meta_plain c m Hm) as Hplain.
  pose proof (wf_meta_mis c m Hm) as Hmis.
  destruct o as [k|dims| |axes| |vs|e]; try discriminate Hs; clear Hs;
    cbn [step_cls plan_of].
  - (* getitem *)
    destruct c; cbn [m_getitem]; unfold mis_getitem, mil_getitem, mil_wrap, obind, rot_getitem, base_getitem,
      o_data, o_flags; cbn [orows oshape ometa].
    + rewrite base_plan_nf by (apply Hnr; reflexivity). subst m. reflexivity.
    + rewrite rot_plan. subst m. reflexivity.
    + rewrite rot_plan. destruct (apply_plan dr rows (plan_get s k)) as [[s' l']|]; [|reflexivity].
      unfold attach_sym, set_meta; simpl. rewrite Hmis. reflexivity.
    + rewrite rot_plan. destruct (apply_plan dr rows (plan_get s k)) as [[s' l']|]; [|reflexivity].
      unfold attach_sym, set_meta; simpl. rewrite Hmis. reflexivity.
    + rewrite base_plan_nf by (apply Hnr; reflexivity). subst m. reflexivity.
    + rewrite base_plan_nf by (apply Hnr; reflexivity).
      destruct (apply_plan dr rows (plan_get s k)) as [[s' l']|] eqn:E; [|reflexivity].
      rewrite data_only_nf by (eapply nf_apply_plan; [apply Hnr; reflexivity|exact E]).
      unfold attach_miller, set_meta; simpl. rewrite (wf_meta_mil _ Hm). reflexivity.
  - (* reshape *)
    destruct c; cbn [m_reshape]; unfold mis_reshape, mil_reshape, mil_wrap, obind, base_reshape, o_data;
      cbn [orows oshape ometa]; unfold plan_reshape;
      destruct (resolve_shape (size s) dims) as [s'|]; simpl; try reflexivity;
      unfold set_rows, attach_sym, set_meta; simpl; try (subst m; reflexivity);
      try (rewrite Hmis; reflexivity).
    rewrite data_only_nf by (apply Hnr; reflexivity).
    unfold attach_miller, set_meta; simpl. rewrite (wf_meta_mil _ Hm). reflexivity.
  - (* flatten *)
    destruct c; cbn [m_flatten]; unfold mis_flatten, mil_flatten, mil_wrap, obind, rot_flatten, base_flatten,
      o_data, o_flags; cbn [orows oshape ometa]; unfold plan_flatten; cbn [apply_plan];
      unfold set_rows; cbn [orows oshape ometa mk].
    + subst m; reflexivity.
    + unfold set_flags, o_data; cbn [orows oshape ometa]. rewrite map_fst_gather.
      rewrite gather_combine. subst m; reflexivity.
    + unfold set_flags, o_data, attach_sym, set_meta; cbn [orows oshape ometa]. rewrite map_fst_gather.
      rewrite gather_combine. rewrite Hmis; reflexivity.
    + unfold set_flags, o_data, attach_sym, set_meta; cbn [orows oshape ometa]. rewrite map_fst_gather.
      rewrite gather_combine. rewrite Hmis; reflexivity.
    + subst m; reflexivity.
    + rewrite data_only_nf by (apply nf_gather; apply Hnr; reflexivity).
      unfold attach_miller, set_meta; simpl. rewrite (wf_meta_mil _ Hm). reflexivity.
  - (* transpose *)
    destruct c; cbn [m_transpose]; unfold mis_transpose, mil_transpose, mil_wrap, obind, base_transpose, o_data;
      cbn [orows oshape ometa]; unfold plan_transpose;
      destruct (Nat.eqb (length s) 1) eqn:E1; cbn [apply_plan];
      try rewrite base_both; try reflexivity.
    + subst m. reflexivity.
    + subst m. reflexivity.
    + unfold attach_sym, set_meta; simpl. rewrite Hmis; reflexivity.
    + match goal with |- context[apply_plan dr rows ?p] => destruct (apply_plan dr rows p) as [[s' l']|] end;
        [|reflexivity].
      unfold attach_sym, set_meta; simpl. rewrite Hmis; reflexivity.
    + unfold attach_sym, set_meta; simpl. rewrite Hmis; reflexivity.
    + match goal with |- context[apply_plan dr rows ?p] => destruct (apply_plan dr rows p) as [[s' l']|] end;
        [|reflexivity].
      unfold attach_sym, set_meta; simpl. rewrite Hmis; reflexivity.
    + subst m. reflexivity.
    + rewrite data_only_nf by (apply Hnr; reflexivity).
      unfold attach_miller, set_meta; simpl. rewrite (wf_meta_mil _ Hm). reflexivity.
    + match goal with |- context[apply_plan dr rows ?p] => destruct (apply_plan dr rows p) as [[s' l']|] eqn:E end;
        [|reflexivity].
      rewrite data_only_nf by (eapply nf_apply_plan; [apply Hnr; reflexivity|exact E]).
      unfold attach_miller, set_meta; simpl. rewrite (wf_meta_mil _ Hm). reflexivity.
  - (* squeeze *)
    destruct c; cbn [m_squeeze]; unfold mis_squeeze, mil_squeeze, obind, base_squeeze, o_data;
      cbn [orows oshape ometa]; unfold plan_squeeze; cbn [apply_plan];
      unfold set_rows, attach_sym, set_meta; simpl; try (subst m; reflexivity);
      try (rewrite Hmis; reflexivity).
    unfold mk. rewrite nf_reset by (apply Hnr; reflexivity).
    unfold attach_miller, set_meta; simpl. rewrite (wf_meta_mil _ Hm). reflexivity.
Qed.

Lemma shape_eqn_refl s : shape_eqn s s = true.
Proof. induction s as [|n s IH]; simpl; [reflexivity|]. rewrite Nat.eqb_refl, IH. reflexivity. Qed.

(* the variants of a stack: each is the element-wise image of the operand *)
Lemma eops_all c vs s rows m :
  wf c (mkObj s rows m) = true ->
  match all_some (map (sact vf c) vs) with
  | Some fs => exists xs, all_some (map (fun e => m_eop vf c e (mkObj s rows m)) vs) = Some xs
                          /\ map orows xs = map (fun f => map f rows) fs
                          /\ Forall (fun y => oshape y = s) xs /\ length xs = length fs
  | None => all_some (map (fun e => m_eop vf c e (mkObj s rows m)) vs) = None
  end.
Proof.
  intros Hwf. induction vs as [|e vs IH]; simpl.
  - exists []; repeat split; constructor.
  - rewrite (eop_spec c e s rows m Hwf).
    destruct (sact vf c e) as [f|]; [|reflexivity].
    destruct (all_some (map (sact vf c) vs)) as [fs|].
    + destruct IH as [xs [E1 [E2 [E3 E4]]]]. rewrite E1.
      eexists; split; [reflexivity|]. simpl. repeat split.
      * rewrite E2; reflexivity.
      * constructor; [reflexivity|exact E3].
      * rewrite E4; reflexivity.
    + rewrite IH. reflexivity.
Qed.

Lemma forallb_shape s (xs : list (obj V)) :
  Forall (fun y => oshape y = s) xs -> forallb (fun x => shape_eqn (oshape x) s) xs = true.
Proof.
  intros H; induction H as [|y xs Hy _ IH]; simpl; [reflexivity|].
  rewrite Hy, shape_eqn_refl, IH. reflexivity.
Qed.

(* ONE STEP: faithful = specification *)
Theorem step_faithful c o x :
  wf c x = true -> step_cls vf c o x = step_spec vf c o x.
Proof.
  destruct x as [s rows m]. intros Hwf.
  destruct (is_struct o) eqn:Hst.
  - rewrite (struct_spec c o s rows m Hst Hwf). unfold step_spec; cbn [oshape orows ometa].
    destruct o; try discriminate Hst; cbn [astep smeta plan_of]; reflexivity.
  - destruct o as [| | | | |vs|e]; try discriminate Hst.
    + (* stack *)
      cbn [step_cls]. unfold step_spec; cbn [oshape orows ometa astep smeta].
      pose proof (eops_all c vs s rows m Hwf) as H.
      destruct vs as [|e0 vs']; [reflexivity|].
      destruct (all_some (map (sact vf c) (e0 :: vs'))) as [fs|].
      * destruct H as [xs [E1 [E2 [E3 E4]]]]. rewrite E1. cbn [obind].
        destruct xs as [|x0 xs'].
        { destruct fs; [|discriminate E4]. simpl in E1.
          destruct (m_eop vf c e0 (mkObj s rows m)); [|discriminate E1].
          destruct (all_some (map (fun e => m_eop vf c e (mkObj s rows m)) vs')); discriminate E1. }
        unfold base_stack. inversion E3 as [|? ? Hx0 Hxs]; subst.
        rewrite forallb_shape by (constructor; [reflexivity|exact Hxs]).
        rewrite E2, E4. reflexivity.
      * rewrite H. reflexivity.
    + (* element-wise *)
      cbn [step_cls]. rewrite (eop_spec c e s rows m Hwf).
      unfold step_spec; cbn [oshape orows ometa astep].
      destruct (sact vf c e); reflexivity.
Qed.

(* the class invariant is kept by every step of the specification machine *)
Lemma nf_map_keep (f : row -> row) (rows : list row) :
  (forall r, snd (f r) = snd r) -> nf rows = true -> nf (map f rows) = true.
Proof.
  intros Hf H. unfold nf in *. rewrite forallb_forall in *. intros r Hin.
  apply in_map_iff in Hin as [r0 [E Hin]]. subst r. rewrite Hf. apply H; exact Hin.
Qed.

Lemma sact_keeps_flag c e f : is_rot c = false -> sact vf c e = Some f -> forall r, snd (f r) = snd r.
Proof.
  intros Hc. destruct e; simpl.
  - intros E; inversion E; reflexivity.
  - intros E; inversion E; reflexivity.
  - destruct (is_quat c); intros E; inversion E; reflexivity.
  - rewrite Hc. intros E; inversion E; reflexivity.
Qed.

Lemma all_some_Forall {A B} (g : A -> option B) (P : B -> Prop) l fs :
  (forall a b, g a = Some b -> P b) -> all_some (map g l) = Some fs -> Forall P fs.
Proof.
  intros Hg. revert fs; induction l as [|a l IH]; intros fs; simpl.
  - intros E; inversion E; constructor.
  - destruct (g a) as [b|] eqn:Ea; [|discriminate].
    destruct (all_some (map g l)) as [t|]; [|discriminate].
    intros E; inversion E; subst. constructor; [eapply Hg; exact Ea|apply IH; reflexivity].
Qed.

Lemma nf_stack_rows n (ls : list (list row)) :
  Forall (fun l => nf l = true) ls -> nf (stack_rows dr n ls) = true.
Proof.
  intros H. unfold nf, stack_rows. rewrite forallb_forall. intros r Hin.
  apply in_flat_map in Hin as [p [_ Hin]]. apply in_map_iff in Hin as [l [E Hl]]. subst r.
  rewrite Forall_forall in H. specialize (H l Hl).
  destruct (nth_in_or_default p l dr) as [Hi|Hd].
  - unfold nf in H. rewrite forallb_forall in H. apply H; exact Hi.
  - rewrite Hd; reflexivity.
Qed.

Lemma wf_meta_smeta c o m : wf_meta c m = true -> wf_meta c (smeta c o m) = true.
Proof.
  intros H. destruct o as [| | | | |vs|e]; simpl; auto.
  - destruct c; reflexivity.
  - destruct e; auto. destruct c; auto.
Qed.

Lemma step_spec_wf c o x x' :
  wf c x = true -> step_spec vf c o x = Some x' -> wf c x' = true.
Proof.
  destruct x as [s rows m]. intros Hwf. pose proof Hwf as Hwf'. split_wf Hwf'.
  unfold step_spec; cbn [oshape orows ometa].
  destruct (astep (sact vf c) dr o (s, rows)) as [[s' l']|] eqn:E; [|discriminate].
  intros E'; inversion E'; subst x'; clear E'.
  unfold wf; cbn [oshape orows ometa]. rewrite wf_meta_smeta by exact Hm. simpl.
  destruct (is_rot c) eqn:Hc; [reflexivity|]. simpl in Hf. simpl.
  destruct o as [k|dims| |axes| |vs|e]; cbn [astep] in E;
    try (eapply nf_apply_plan; [exact Hf|exact E]).
  - destruct vs as [|e0 vs']; [discriminate|].
    destruct (all_some (map (sact vf c) (e0 :: vs'))) as [fs|] eqn:Efs; [|discriminate].
    inversion E; subst. apply nf_stack_rows.
    apply Forall_forall. intros l Hl. apply in_map_iff in Hl as [f [El Hf']]. subst l.
    apply nf_map_keep; [|exact Hf].
    pose proof (all_some_Forall (sact vf c) (fun f => forall r, snd (f r) = snd r) (e0 :: vs') fs
                  (fun a b => sact_keeps_flag c a b Hc) Efs) as HF.
    rewrite Forall_forall in HF. apply HF; exact Hf'.
  - destruct (sact vf c e) as [f|] eqn:Ef; [|discriminate]. inversion E; subst.
    apply nf_map_keep; [|exact Hf]. eapply sact_keeps_flag; eassumption.
Qed.

(* PROGRAMS: by induction over the operation list *)
Theorem run_faithful c p : forall x,
  wf c x = true -> run (step_cls vf c) p x = run (step_spec vf c) p x.
Proof.
  induction p as [|o p IH]; intros x Hwf; simpl; [reflexivity|].
  rewrite (step_faithful c o x Hwf).
  destruct (step_spec vf c o x) as [x'|] eqn:E; [|reflexivity].
  apply IH. eapply step_spec_wf; eassumption.
Qed.

Lemma run_spec_wf c p : forall x x',
  wf c x = true -> run (step_spec vf c) p x = Some x' -> wf c x' = true.
Proof.
  induction p as [|o p IH]; intros x x' Hwf; simpl.
  - intros E; inversion E; subst; exact Hwf.
  - destruct (step_spec vf c o x) as [x1|] eqn:E; [|discriminate].
    apply IH. eapply step_spec_wf; eassumption.
Qed.

End Faithful.

(* ------------------------------------------------------------------
   Part 2: naturality of the array machine and the index-array
   representation of every program. *)
Definition op_eops (o : op) : list eop :=
  match o with OEl e => [e] | OStack vs => vs | _ => [] end.

Lemma stack_rows_map {A B} (h : A -> B) d n (ls : list (list A)) :
  map h (stack_rows d n ls) = stack_rows (h d) n (map (map h) ls).
Proof.
  unfold stack_rows. induction (seq 0 n) as [|p ps IH]; simpl; [reflexivity|].
  rewrite map_app, IH. f_equal. rewrite !map_map. apply map_ext. intros l. symmetry. apply map_nth.
Qed.

Section Naturality.
Context {E1 E2 : Type} (act1 : eop -> option (E1 -> E1)) (act2 : eop -> option (E2 -> E2))
        (h : E1 -> E2) (d1 : E1).

Definition compat (e : eop) : Prop :=
  match act1 e, act2 e with
  | Some f1, Some f2 => forall x, h (f1 x) = f2 (h x)
  | None, None => True
  | _, _ => False
  end.

Definition amap (a : list nat * list E1) : list nat * list E2 := (fst a, map h (snd a)).

Lemma all_some_compat vs : Forall compat vs ->
  match all_some (map act1 vs), all_some (map act2 vs) with
  | Some fs1, Some fs2 =>
      length fs1 = length fs2 /\
      forall l, map (fun f => map f (map h l)) fs2 = map (map h) (map (fun f => map f l) fs1)
  | None, None => True
  | _, _ => False
  end.
Proof.
  intros H; induction H as [|e vs He _ IH]; simpl.
  - split; [reflexivity|]. intros; reflexivity.
  - unfold compat in He. destruct (act1 e) as [f1|], (act2 e) as [f2|]; try contradiction; [|exact I].
    destruct (all_some (map act1 vs)) as [fs1|], (all_some (map act2 vs)) as [fs2|]; try contradiction;
      [|exact I].
    destruct IH as [Hl Hm]. split; [simpl; congruence|].
    intros l. simpl. rewrite Hm. f_equal. rewrite !map_map. apply map_ext. intros x. symmetry; apply He.
Qed.

Lemma astep_nat o s l : Forall compat (op_eops o) ->
  astep act2 (h d1) o (s, map h l) = option_map amap (astep act1 d1 o (s, l)).
Proof.
  intros Hc. destruct o as [k|dims| |axes| |vs|e]; cbn [astep];
    try (rewrite apply_plan_map;
         match goal with |- context[apply_plan d1 l ?p] => destruct (apply_plan d1 l p) as [[s' l']|] end;
         reflexivity).
  - (* stack *)
    simpl in Hc. pose proof (all_some_compat vs Hc) as H.
    destruct vs as [|e0 vs']; [reflexivity|].
    destruct (all_some (map act1 (e0 :: vs'))) as [fs1|], (all_some (map act2 (e0 :: vs'))) as [fs2|];
      try contradiction; [|reflexivity].
    destruct H as [Hl Hm]. unfold option_map, amap; cbn [fst snd].
    rewrite stack_rows_map, Hm, Hl. reflexivity.
  - (* element-wise *)
    simpl in Hc. inversion Hc as [|? ? He _]; subst. unfold compat in He.
    destruct (act1 e) as [f1|], (act2 e) as [f2|]; try contradiction; [|reflexivity].
    unfold option_map, amap; cbn [fst snd]. rewrite !map_map. f_equal. f_equal.
    apply map_ext. intros x. symmetry; apply He.
Qed.

Theorem arun_nat p : forall s l, Forall compat (flat_map op_eops p) ->
  arun act2 (h d1) p (s, map h l) = option_map amap (arun act1 d1 p (s, l)).
Proof.
  induction p as [|o p IH]; intros s l Hc; cbn [arun]; [reflexivity|].
  simpl in Hc. apply Forall_app in Hc as [Ho Hp].
  rewrite (astep_nat o s l Ho).
  destruct (astep act1 d1 o (s, l)) as [[s' l']|]; cbn [option_map amap fst snd]; [|reflexivity].
  apply IH; exact Hp.
Qed.
End Naturality.

(* every program is determined by its run on the INDEX ARRAY: run it on
   elements (k, history) starting from (k, []) for k = 0 .. n-1; the result
   of the real run is obtained by reading element k of the input and
   replaying the element-wise operations of the history on it *)
Section Representation.
Context {E : Type} (act : eop -> option (E -> E)) (d : E).

Definition sym : Type := (nat * list eop)%type.
Definition act_sym (e : eop) : option (sym -> sym) :=
  match act e with Some _ => Some (fun x => (fst x, snd x ++ [e])) | None => None end.
Definition apply_e (e : eop) (x : E) : E := match act e with Some f => f x | None => x end.
Definition interp (l : list E) (x : sym) : E :=
  fold_left (fun y e => apply_e e y) (snd x) (nth (fst x) l d).
Definition iota (n : nat) : list sym := map (fun k => (k, [])) (seq 0 n).

Lemma interp_iota l : map (interp l) (iota (length l)) = l.
Proof.
  unfold iota. rewrite map_map. unfold interp; simpl. apply map_nth_seq.
Qed.

Theorem representation p s l :
  arun act d p (s, l)
  = option_map (fun a => (fst a, map (interp l) (snd a)))
               (arun act_sym (length l, []) p (s, iota (length l))).
Proof.
  rewrite <- (interp_iota l) at 1.
  replace d with (interp l (length l, [])) at 1
    by (unfold interp; simpl; apply nth_overflow; lia).
  apply (arun_nat act_sym act (interp l) (length l, [])).
  apply Forall_forall. intros e _. unfold compat, act_sym.
  destruct (act e) as [f|] eqn:Ef; [|exact I].
  intros [k es]. unfold interp; simpl. rewrite fold_left_app. simpl.
  unfold apply_e at 1. rewrite Ef. reflexivity.
Qed.
End Representation.

(* purely structural programs on a class: the rows (value, flag) are gathered
   exactly as the index array 0 .. n-1 is *)
Definition act_idx (e : eop) : option (nat -> nat) :=
  match e with EId => Some (fun k => k) | _ => None end.

Theorem struct_index_array {V} (vf : vfuns V) c p s (rows : list (V * bool)) :
  Forall (fun e => e = EId) (flat_map op_eops p) ->
  arun (sact vf c) (drow vf) p (s, rows)
  = option_map (fun a => (fst a, gather (drow vf) rows (snd a)))
               (arun act_idx (length rows) p (s, seq 0 (length rows))).
Proof.
  intros H.
  rewrite <- (map_nth_seq rows (drow vf)) at 1.
  replace (drow vf) with (nth (length rows) rows (drow vf)) at 1 by (apply nth_overflow; lia).
  apply (arun_nat act_idx (sact vf c) (fun k => nth k rows (drow vf)) (length rows)).
  eapply Forall_impl; [|exact H]. intros e He; cbv beta in He; subst e. unfold compat; simpl. reflexivity.
Qed.
