(* C09 -- linear algebra over the reals for the Miller / lattice model:
   inverse, determinant, metric tensors, cross products, orthonormal frames. *)
From Coq Require Import Reals ZArith Lra Nsatz Bool List Psatz.
From Verif Require Import Scalar RInst C09Lin C09Miller C09Model.
Import ListNotations.
Local Open Scope R_scope.

Notation V3 := (vec3 R).
Notation V4 := (vec4 R).
Notation M3 := (mat3 R).

Ltac vdestruct :=
  repeat match goal with
         | m : mat3 R |- _ => destruct m as [[[[? ?] ?] [[? ?] ?]] [[? ?] ?]]
         | q : vec4 R |- _ => destruct q as [[[? ?] ?] ?]
         | v : vec3 R |- _ => destruct v as [[? ?] ?]
         | m : (R * R * R * (R * R * R) * (R * R * R))%type |- _ =>
             destruct m as [[[[? ?] ?] [[? ?] ?]] [[? ?] ?]]
         | q : (R * R * R * R)%type |- _ => destruct q as [[[? ?] ?] ?]
         | v : (R * R * R)%type |- _ => destruct v as [[? ?] ?]
         end.

Ltac lunfold :=
  cbv [vdot vadd vscale vdivs vcross vnorm2 vzero mrow mcol mtr vmat mmul mid mdet minv
       zero one fst snd t3 t4 b4
       uvw2UVTW uvw2UVTW_mtex UVTW2uvw UVTW2uvw_mtex hkl2hkil hkil2hkl] in *;
  rsimpl.

Ltac tuple_eq := repeat match goal with |- (_, _) = (_, _) => apply f_equal2 end; try reflexivity.

(* ------------------------------------------------------------------ *)
(* vectors                                                              *)

Lemma vcross_perp_l (u v : V3) : vdot ROps (vcross ROps u v) u = 0.
Proof. vdestruct; lunfold; ring. Qed.
Lemma vcross_perp_r (u v : V3) : vdot ROps (vcross ROps u v) v = 0.
Proof. vdestruct; lunfold; ring. Qed.
Lemma vdot_comm (u v : V3) : vdot ROps u v = vdot ROps v u.
Proof. vdestruct; lunfold; ring. Qed.
Lemma vcross_anti (u v : V3) : vcross ROps u v = vscale ROps (-1) (vcross ROps v u).
Proof. vdestruct; lunfold; tuple_eq; ring. Qed.

(* Lagrange: |u|^2 |v|^2 - (u.v)^2 = |u x v|^2 *)
Lemma lagrange (u v : V3) :
  vdot ROps u u * vdot ROps v v - vdot ROps u v * vdot ROps u v
  = vdot ROps (vcross ROps u v) (vcross ROps u v).
Proof. vdestruct; lunfold; ring. Qed.

Lemma cauchy_schwarz (u v : V3) :
  vdot ROps u v * vdot ROps u v <= vdot ROps u u * vdot ROps v v.
Proof.
  pose proof (lagrange u v) as H.
  assert (0 <= vdot ROps (vcross ROps u v) (vcross ROps u v)).
  { destruct (vcross ROps u v) as [[x y] z]; lunfold; nra. }
  lra.
Qed.

Lemma vdot_self_nonneg (u : V3) : 0 <= vdot ROps u u.
Proof. vdestruct; lunfold; nra. Qed.

Lemma vdot_self_zero (u : V3) : vdot ROps u u = 0 -> u = (0, 0, 0).
Proof.
  vdestruct; lunfold; intros H.
  assert (r = 0) by nra. assert (r0 = 0) by nra. assert (r1 = 0) by nra. subst; reflexivity.
Qed.

(* ------------------------------------------------------------------ *)
(* matrices                                                             *)

Lemma mtr_invol (A : M3) : mtr (mtr A) = A.
Proof. vdestruct; reflexivity. Qed.

Lemma mdet_mtr (A : M3) : mdet ROps (mtr A) = mdet ROps A.
Proof. vdestruct; lunfold; ring. Qed.

Lemma mdet_mmul (A B : M3) : mdet ROps (mmul ROps A B) = mdet ROps A * mdet ROps B.
Proof. vdestruct; lunfold; ring. Qed.

Lemma mmul_assoc (A B C : M3) : mmul ROps (mmul ROps A B) C = mmul ROps A (mmul ROps B C).
Proof. vdestruct; lunfold; tuple_eq; ring. Qed.

Lemma vmat_mmul (v : V3) (A B : M3) : vmat ROps (vmat ROps v A) B = vmat ROps v (mmul ROps A B).
Proof. vdestruct; lunfold; tuple_eq; ring. Qed.

Lemma vmat_mid (v : V3) : vmat ROps v (mid ROps) = v.
Proof. vdestruct; lunfold; tuple_eq; ring. Qed.

Lemma mmul_mid_r (A : M3) : mmul ROps A (mid ROps) = A.
Proof. vdestruct; lunfold; tuple_eq; ring. Qed.
Lemma mmul_mid_l (A : M3) : mmul ROps (mid ROps) A = A.
Proof. vdestruct; lunfold; tuple_eq; ring. Qed.

Lemma mtr_mmul (A B : M3) : mtr (mmul ROps A B) = mmul ROps (mtr B) (mtr A).
Proof. vdestruct; lunfold; tuple_eq; ring. Qed.

(* <x M, y> = <x, y M^T> *)
Lemma vdot_vmat_adj (x y : V3) (M : M3) :
  vdot ROps (vmat ROps x M) y = vdot ROps x (vmat ROps y (mtr M)).
Proof. vdestruct; lunfold; ring. Qed.

(* the cofactor inverse is a two-sided inverse *)
Lemma minv_r (A : M3) : mdet ROps A <> 0 -> mmul ROps A (minv ROps A) = mid ROps.
Proof. vdestruct; lunfold; intros H; tuple_eq; field; exact H. Qed.

Lemma minv_l (A : M3) : mdet ROps A <> 0 -> mmul ROps (minv ROps A) A = mid ROps.
Proof. vdestruct; lunfold; intros H; tuple_eq; field; exact H. Qed.

Lemma mdet_minv (A : M3) : mdet ROps A <> 0 -> mdet ROps (minv ROps A) = / mdet ROps A.
Proof. vdestruct; lunfold; intros H; field; exact H. Qed.

Lemma minv_mtr (A : M3) : mdet ROps A <> 0 -> minv ROps (mtr A) = mtr (minv ROps A).
Proof.
  vdestruct; lunfold; intros H.
  assert (H' : r * (r3 * r7 - r6 * r4) + r2 * (r6 * r1 - r0 * r7) + r5 * (r0 * r4 - r3 * r1) <> 0).
  { intros E; apply H; rewrite <- E; ring. }
  tuple_eq; field; auto.
Qed.

Lemma vmat_minv_r (v : V3) (A : M3) :
  mdet ROps A <> 0 -> vmat ROps (vmat ROps v A) (minv ROps A) = v.
Proof. intros H; rewrite vmat_mmul, minv_r, vmat_mid; auto. Qed.
Lemma vmat_minv_l (v : V3) (A : M3) :
  mdet ROps A <> 0 -> vmat ROps (vmat ROps v (minv ROps A)) A = v.
Proof. intros H; rewrite vmat_mmul, minv_l, vmat_mid; auto. Qed.

(* rows of a non-singular matrix are non-zero *)
Lemma row_pos (A : M3) (i : nat) : mdet ROps A <> 0 -> 0 < vdot ROps (mrow A i) (mrow A i).
Proof.
  intros H. pose proof (vdot_self_nonneg (mrow A i)) as Hn.
  destruct (Req_dec (vdot ROps (mrow A i) (mrow A i)) 0) as [E|E]; [|lra].
  exfalso; apply H. apply vdot_self_zero in E.
  destruct A as [[r0 r1] r2]; destruct i as [|[|i]]; simpl in E; subst; vdestruct; lunfold; ring.
Qed.

(* cross product of transformed row vectors:
   (x A) x (y A) = det A * (x x y) A^-T *)
Lemma vcross_vmat (x y : V3) (A : M3) :
  mdet ROps A <> 0 ->
  vcross ROps (vmat ROps x A) (vmat ROps y A)
  = vscale ROps (mdet ROps A) (vmat ROps (vcross ROps x y) (mtr (minv ROps A))).
Proof. vdestruct; lunfold; intros H; tuple_eq; field; exact H. Qed.

(* without division: ((x A) x (y A)) A^T = det A * (x x y) *)
Lemma vcross_vmat_poly (x y : V3) (A : M3) :
  vmat ROps (vcross ROps (vmat ROps x A) (vmat ROps y A)) (mtr A)
  = vscale ROps (mdet ROps A) (vcross ROps x y).
Proof. vdestruct; lunfold; tuple_eq; ring. Qed.

(* ------------------------------------------------------------------ *)
(* square roots and unit vectors                                        *)

Lemma vnorm_sq (u : V3) : vnorm ROps u * vnorm ROps u = vdot ROps u u.
Proof. unfold vnorm, vnorm2; rsimpl. apply sqrt_sqrt, vdot_self_nonneg. Qed.

Lemma vnorm_pos (u : V3) : 0 < vdot ROps u u -> 0 < vnorm ROps u.
Proof. intros H; unfold vnorm, vnorm2; rsimpl; apply sqrt_lt_R0; exact H. Qed.

Lemma vunit_eq (u : V3) : vunit ROps u = vscale ROps (/ vnorm ROps u) u.
Proof. unfold vunit; vdestruct; lunfold; tuple_eq; unfold Rdiv; ring. Qed.

Lemma vdot_vscale_l (s : R) (u v : V3) : vdot ROps (vscale ROps s u) v = s * vdot ROps u v.
Proof. vdestruct; lunfold; ring. Qed.
Lemma vdot_vscale_r (s : R) (u v : V3) : vdot ROps u (vscale ROps s v) = s * vdot ROps u v.
Proof. vdestruct; lunfold; ring. Qed.
Lemma vcross_vscale_l (s : R) (u v : V3) : vcross ROps (vscale ROps s u) v = vscale ROps s (vcross ROps u v).
Proof. vdestruct; lunfold; tuple_eq; ring. Qed.
Lemma vcross_vscale_r (s : R) (u v : V3) : vcross ROps u (vscale ROps s v) = vscale ROps s (vcross ROps u v).
Proof. vdestruct; lunfold; tuple_eq; ring. Qed.
Lemma vscale_vscale (s t : R) (u : V3) : vscale ROps s (vscale ROps t u) = vscale ROps (s * t) u.
Proof. vdestruct; lunfold; tuple_eq; ring. Qed.
Lemma vmat_vscale (s : R) (u : V3) (M : M3) : vmat ROps (vscale ROps s u) M = vscale ROps s (vmat ROps u M).
Proof. vdestruct; lunfold; tuple_eq; ring. Qed.

Lemma vunit_unit (u : V3) : 0 < vdot ROps u u -> vdot ROps (vunit ROps u) (vunit ROps u) = 1.
Proof.
  intros H. rewrite vunit_eq, vdot_vscale_l, vdot_vscale_r.
  pose proof (vnorm_pos u H) as Hp. rewrite <- vnorm_sq. field. lra.
Qed.

Lemma vnorm_unit (u : V3) : vdot ROps u u = 1 -> vnorm ROps u = 1.
Proof. intros H; unfold vnorm, vnorm2; rsimpl; rewrite H; apply sqrt_1. Qed.

Lemma vnorm_vzero : vnorm ROps (vzero ROps) = 0.
Proof.
  unfold vnorm, vnorm2; lunfold.
  replace (0 * 0 + 0 * 0 + 0 * 0) with 0 by ring. apply sqrt_0.
Qed.

(* ------------------------------------------------------------------ *)
(* orthonormal frames built from two orthogonal unit vectors            *)

(* rows (u, w x u, w) with |u| = |w| = 1, u.w = 0: a proper rotation *)
Definition frame (u w : V3) : M3 := (u, vcross ROps w u, w).

Lemma frame_orth (u w : V3) :
  vdot ROps u u = 1 -> vdot ROps w w = 1 -> vdot ROps u w = 0 ->
  mmul ROps (frame u w) (mtr (frame u w)) = mid ROps.
Proof. unfold frame; vdestruct; lunfold; intros Hu Hw Huw; tuple_eq; nsatz. Qed.

Lemma frame_det (u w : V3) :
  vdot ROps u u = 1 -> vdot ROps w w = 1 -> vdot ROps u w = 0 ->
  mdet ROps (frame u w) = 1.
Proof. unfold frame; vdestruct; lunfold; intros Hu Hw Huw; nsatz. Qed.

(* Parseval: the columns are orthonormal as well *)
Lemma frame_orth_cols (u w : V3) :
  vdot ROps u u = 1 -> vdot ROps w w = 1 -> vdot ROps u w = 0 ->
  mmul ROps (mtr (frame u w)) (frame u w) = mid ROps.
Proof. unfold frame; vdestruct; lunfold; intros Hu Hw Huw; tuple_eq; nsatz. Qed.
