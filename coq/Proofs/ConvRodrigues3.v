(* C01: three-component Rodrigues vectors (Model/Rodrigues3.v) over R. *)
From Coq Require Import Reals ZArith Lra Bool.
From Verif Require Import Scalar RInst QuatKernels Conversions Quat QuatAlg Rodrigues3.
Local Open Scope R_scope.

Lemma sqrt_is y x : 0 <= y -> y * y = x -> sqrt x = y.
Proof. intros Hy H. apply sqrt_lem_1; [rewrite <- H; nra|exact Hy|exact H]. Qed.

Lemma qunit_unit a b c d : a * a + b * b + c * c + d * d = 1 ->
  qunit ROps (a, b, c, d) = (a, b, c, d).
Proof.
  intros H. unfold qunit. rsimpl. rewrite H, sqrt_1. tuple_eq; field.
Qed.

(* tan(acos x) = sqrt(1 - x^2) / x *)
Lemma tan_acos x : 0 < x <= 1 -> tan (acos x) = sqrt (1 - x²) / x.
Proof.
  intros Hx. unfold tan. rewrite sin_acos, cos_acos by lra. reflexivity.
Qed.

(* value of to_rodrigues() on a unit quaternion that is neither the identity nor a
   rotation by pi: the vector part over |a|, negated where a < -1e-6 *)
Lemma to_ro3_value a b c d :
  a * a + b * b + c * c + d * d = 1 -> a <> 0 -> a * a < 1 ->
  to_ro3 ROps (a, b, c, d) (a, b, c, d) =
  let s := if Rltb a (-1 / 1000000) then -1 else 1 in
  (s * b / Rabs a, s * c / Rabs a, s * d / Rabs a).
Proof.
  intros Hu Ha H1.
  assert (Hab : 0 < Rabs a) by (apply Rabs_pos_lt; exact Ha).
  assert (Haa : Rabs a * Rabs a = a * a).
  { unfold Rabs. destruct (Rcase_abs a); ring. }
  assert (Hle : Rabs a <= 1) by nra.
  set (n := sqrt (1 - a * a)).
  assert (Hn : 0 < n) by (apply sqrt_lt_R0; lra).
  assert (Hnn : n * n = 1 - a * a) by (apply sqrt_sqrt; lra).
  assert (N1 : sqrt (b * b + c * c + d * d) = n) by (apply sqrt_is; lra).
  assert (N2 : sqrt (- b * - b + - c * - c + - d * - d) = n) by (apply sqrt_is; lra).
  assert (Ht : tan (2 * acos (Rabs a) / 2) = n / Rabs a).
  { replace (2 * acos (Rabs a) / 2) with (acos (Rabs a)) by field.
    rewrite tan_acos by lra. unfold Rsqr. rewrite Haa. reflexivity. }
  unfold to_ro3, q_axis, q_angle, vnorm3, c0, c1, c2. rsimpl.
  replace (Rltb 1 (Rabs a)) with false by (symmetry; apply Rltb_false; lra).
  rewrite Ht.
  destruct (Rltb a (-1 / 1000000)) eqn:E; cbv zeta.
  - rewrite N2. replace (Reqb n 0) with false by (symmetry; apply Reqb_false; lra).
    tuple_eq; field; lra.
  - rewrite N1. replace (Reqb n 0) with false by (symmetry; apply Reqb_false; lra).
    tuple_eq; field; lra.
Qed.

(* value of from_rodrigues(ro) outside the small-angle band of the ax2qu kernel *)
Lemma from_ro3_value x y z n m :
  0 < n -> n * n = x * x + y * y + z * z -> 0 < m -> m * m = 1 + n * n ->
  1 / 100000000 <= 2 * atan n ->
  from_ro3 ROps (x, y, z) = (1 / m, x / m, y / m, z / m).
Proof.
  intros Hn Hnn Hm Hmm Hw.
  assert (N : sqrt (x * x + y * y + z * z) = n) by (apply sqrt_is; lra).
  assert (M : sqrt (1 + n²) = m) by (apply sqrt_is; unfold Rsqr; lra).
  unfold from_ro3, vunit0, vnorm3, c0, c2. rsimpl. rewrite N.
  replace (Reqb n 0) with false by (symmetry; apply Reqb_false; lra).
  unfold ax2qu, ax2qu_single. cbv zeta. rsimpl.
  assert (E : Rltb (-1 / 100000000) (2 * atan n) && Rltb (2 * atan n) (1 / 100000000) = false).
  { apply andb_false_iff; right. apply Rltb_false. lra. }
  rewrite E.
  replace (2 * atan n * (1 / 2)) with (atan n) by field.
  rewrite cos_atan, sin_atan, M.
  assert (U : 1 / m * (1 / m) + x / n * (n / m) * (x / n * (n / m)) +
              y / n * (n / m) * (y / n * (n / m)) + z / n * (n / m) * (z / n * (n / m)) = 1).
  { field_simplify; [|lra]. replace (x ^ 2 + y ^ 2 + z ^ 2) with (n * n) by (rewrite Hnn; ring).
    replace (m ^ 2) with (m * m) by ring. rewrite Hmm. field. nra. }
  rewrite U.
  rewrite sqrt_1.
  assert (Q : qunit ROps (1 / m / 1, x / n * (n / m) / 1, y / n * (n / m) / 1, z / n * (n / m) / 1)
              = (1 / m, x / m, y / m, z / m)).
  { rewrite qunit_unit; [tuple_eq; field; lra|]. etransitivity; [|exact U]. field. lra. }
  fold ROps. rewrite Q. apply qunit_unit.
  etransitivity; [|exact U]. field. lra.
Qed.

(* the round trip q -> to_rodrigues() -> from_rodrigues() returns (|a|, s v):
   q itself for 0 < a, -q for a < -1e-6 *)
Lemma ro3_roundtrip_value a b c d :
  a * a + b * b + c * c + d * d = 1 -> a <> 0 -> a * a < 1 ->
  1 / 100000000 <= 2 * atan (sqrt (1 - a * a) / Rabs a) ->
  from_ro3 ROps (to_ro3 ROps (a, b, c, d) (a, b, c, d)) =
  let s := if Rltb a (-1 / 1000000) then -1 else 1 in (Rabs a, s * b, s * c, s * d).
Proof.
  intros Hu Ha H1 Hw. rewrite to_ro3_value by assumption. cbv zeta.
  assert (Hab : 0 < Rabs a) by (apply Rabs_pos_lt; exact Ha).
  assert (Haa : Rabs a * Rabs a = a * a).
  { unfold Rabs. destruct (Rcase_abs a); ring. }
  set (n0 := sqrt (1 - a * a)) in *.
  assert (Hn : 0 < n0) by (apply sqrt_lt_R0; lra).
  assert (Hnn : n0 * n0 = 1 - a * a) by (apply sqrt_sqrt; lra).
  set (s := if Rltb a (-1 / 1000000) then -1 else 1).
  assert (Hs : s * s = 1) by (unfold s; destruct (Rltb a (-1 / 1000000)); ring).
  rewrite (from_ro3_value _ _ _ (n0 / Rabs a) (1 / Rabs a)).
  - tuple_eq; field; lra.
  - apply Rdiv_lt_0_compat; assumption.
  - transitivity ((s * s) * (b * b + c * c + d * d) / (Rabs a * Rabs a)); [|field; lra].
    rewrite Hs. replace (b * b + c * c + d * d) with (n0 * n0) by lra. field. lra.
  - apply Rdiv_lt_0_compat; lra.
  - transitivity ((Rabs a * Rabs a + n0 * n0) / (Rabs a * Rabs a)); [|field; lra].
    replace (Rabs a * Rabs a + n0 * n0) with 1 by lra. field. lra.
  - exact Hw.
Qed.

(* same rotation: q or -q, on both hemispheres outside the band -1e-6 <= a < 0 *)
Lemma ro3_roundtrip a b c d :
  a * a + b * b + c * c + d * d = 1 -> a * a < 1 ->
  0 < a \/ a < -1 / 1000000 ->
  1 / 100000000 <= 2 * atan (sqrt (1 - a * a) / Rabs a) ->
  from_ro3 ROps (to_ro3 ROps (a, b, c, d) (a, b, c, d)) = (a, b, c, d) \/
  from_ro3 ROps (to_ro3 ROps (a, b, c, d) (a, b, c, d)) = qneg ROps (a, b, c, d).
Proof.
  intros Hu H1 Hs Hw.
  assert (Ha : a <> 0) by lra.
  rewrite ro3_roundtrip_value by assumption. cbv zeta.
  destruct Hs as [Hp|Hm].
  - left. replace (Rltb a (-1 / 1000000)) with false by (symmetry; apply Rltb_false; lra).
    rewrite Rabs_right by lra. tuple_eq; ring.
  - right. replace (Rltb a (-1 / 1000000)) with true by (symmetry; apply Rltb_true; lra).
    rewrite Rabs_left by lra. unfold qneg. rsimpl. tuple_eq; ring.
Qed.

(* inside the band the axis is NOT negated: the result is (-a, b, c, d), the rotation by the
   same axis with angle 2 acos(-a) instead of 2 acos(a): off by 4 asin|a| <= 4e-6 rad *)
Lemma ro3_roundtrip_band a b c d :
  a * a + b * b + c * c + d * d = 1 -> -1 / 1000000 <= a < 0 ->
  1 / 100000000 <= 2 * atan (sqrt (1 - a * a) / Rabs a) ->
  from_ro3 ROps (to_ro3 ROps (a, b, c, d) (a, b, c, d)) = (- a, b, c, d).
Proof.
  intros Hu Hb Hw.
  rewrite ro3_roundtrip_value; [|assumption|lra|nra|assumption]. cbv zeta.
  replace (Rltb a (-1 / 1000000)) with false by (symmetry; apply Rltb_false; lra).
  rewrite Rabs_left by lra. tuple_eq; ring.
Qed.
