(* Every orbit { a * x * b : a in A, b in B } has a member inside the orientation region (C05):
   soundness over the reals of the existence certificates of Model/ExistCheck.v.

   Idea.  Take a member y of the (finite) orbit with the largest |Re y|.  Every member of the
   +-orbit with that |Re| satisfies all large-cell inequalities |<d, z>| <= |Re z| (d = +- ~(b a):
   <d, z> = Re (a z b), another member).  Conjugation z -> h z ~h by a common operation h keeps Re z
   and rotates the vector part; the cover tree says that some h puts +-Vec z into the cone of the
   pure-vector normals.  So all dot products with the kept normals have one sign. *)
From Coq Require Import Reals ZArith QArith List String Bool Lra Nsatz.
From Verif Require Import Scalar RInst KField KtoR KSign QuatKernels Quat QuatAlg GroupK Groups SymDot SymDotR SymDotK
  ZoneModel ZoneProofs CertCheck CertSound CoverCheck CoverSound ExistCheck.
Import ListNotations.
Local Open Scope R_scope.

Notation Rq := (quat (T:=R)).

Definition qvec (q : Rq) : Rv := let '(_, b, c, d) := q in (b, c, d).
Definition pm_eq (p q : Rq) : Prop := p = q \/ p = qneg ROps q.
Definition pm_in (q : Rq) (L : list Rq) : Prop := exists p, In p L /\ pm_eq q p.

(* ---- quaternion algebra over R used below ---- *)
Lemma qneg_invol (q : Rq) : qneg ROps (qneg ROps q) = q.
Proof. qdestruct; qunfold; tuple_eq; ring. Qed.
Lemma qmul_neg_l (p q : Rq) : qmul ROps (qneg ROps p) q = qneg ROps (qmul ROps p q).
Proof. qdestruct; qunfold; tuple_eq; ring. Qed.
Lemma qmul_neg_r (p q : Rq) : qmul ROps p (qneg ROps q) = qneg ROps (qmul ROps p q).
Proof. qdestruct; qunfold; tuple_eq; ring. Qed.
Lemma qre_neg (q : Rq) : qre (qneg ROps q) = - qre q.
Proof. qdestruct; unfold qre; qunfold; ring. Qed.
Lemma qdot_neg_r' (n z : Rq) : qdot ROps n (qneg ROps z) = - qdot ROps n z.
Proof. qdestruct; qunfold; ring. Qed.
Lemma qconj_neg (q : Rq) : qconj ROps (qneg ROps q) = qneg ROps (qconj ROps q).
Proof. qdestruct; qunfold; tuple_eq; ring. Qed.
Lemma qnorm2_neg (q : Rq) : qnorm2 ROps (qneg ROps q) = qnorm2 ROps q.
Proof. qdestruct; qunfold; ring. Qed.
Lemma qdot_is_re (d z : Rq) : qdot ROps d z = qre (qmul ROps z (qconj ROps d)).
Proof. qdestruct; unfold qre; qunfold; ring. Qed.
Lemma qre_cyc (p q : Rq) : qre (qmul ROps p q) = qre (qmul ROps q p).
Proof. qdestruct; unfold qre; qunfold; ring. Qed.

(* conjugation by a unit quaternion keeps the scalar part and rotates the vector part *)
Lemma sandwich_re (h z : Rq) : qnorm2 ROps h = 1 ->
  qre (qmul ROps (qmul ROps h z) (qconj ROps h)) = qre z.
Proof. qdestruct; unfold qre; qunfold; intros Hn; nsatz. Qed.
Lemma sandwich_vec (h z : Rq) : qnorm2 ROps h = 1 ->
  qvec (qmul ROps (qmul ROps h z) (qconj ROps h)) = qrot ROps h (qvec z).
Proof. qdestruct; unfold qvec; qunfold; intros Hn; tuple_eq; nsatz. Qed.

Lemma qdot_pure (f : Rv) (z : Rq) :
  qdot ROps (let '(a, b, c) := f in (0, a, b, c)) z = vdot ROps f (qvec z).
Proof. destruct f as [[a b] c]. qdestruct; unfold qvec; qunfold; ring. Qed.

Lemma inside_region_neg (N : list Rq) (z : Rq) :
  inside_region ROps 0 N (qneg ROps z) = inside_region ROps 0 N z.
Proof.
  unfold inside_region. replace (o_opp ROps 0) with 0 by (rsimpl; ring).
  apply eq_true_iff_eq. rewrite !orb_true_iff, !forallb_leb_R, !forallb_leb_R'.
  split; intros [H|H]; [right|left|right|left]; intros n Hn; specialize (H n Hn);
    rewrite ?qdot_neg_r' in *; lra.
Qed.

Lemma argmax_abs_re (l : list Rq) : l <> [] ->
  exists y, In y l /\ forall w, In w l -> Rabs (qre w) <= Rabs (qre y).
Proof.
  induction l as [|a l IH]; [congruence|]. intros _. destruct l as [|b l].
  - exists a. split; [left; reflexivity|]. intros w [<-|[]]. lra.
  - destruct IH as [y [Hy Hmax]]; [discriminate|].
    destruct (Rle_dec (Rabs (qre y)) (Rabs (qre a))) as [Hle|Hgt].
    + exists a. split; [left; reflexivity|]. intros w [<-|Hw]; [lra|]. specialize (Hmax w Hw). lra.
    + exists y. split; [right; exact Hy|]. intros w [<-|Hw]; [lra|]. apply Hmax. exact Hw.
Qed.

Section Exist.
Variables (A B D H : list Rq) (F : list Rv) (N : list Rq).
Hypothesis unitA : forall a, In a A -> qnorm2 ROps a = 1.
Hypothesis unitB : forall b, In b B -> qnorm2 ROps b = 1.
Hypothesis closedA : forall a a', In a A -> In a' A -> pm_in (qmul ROps a a') A.
Hypothesis closedB : forall b b', In b B -> In b' B -> pm_in (qmul ROps b b') B.
Hypothesis neA : A <> [].
Hypothesis neB : B <> [].
Hypothesis D_sound : forall d, In d D -> exists a b, In a A /\ In b B /\ pm_eq d (qconj ROps (qmul ROps b a)).
Hypothesis H_common : forall h, In h H -> pm_in h A /\ pm_in (qconj ROps h) B.
Hypothesis cover : forall v : Rv, exists h, In h H /\ forall f, In f F -> 0 <= vdot ROps f (qrot ROps h v).
Hypothesis N_split : forall n, In n N ->
  (exists f, In f F /\ n = (let '(a, b, c) := f in (0, a, b, c))) \/ In n (large_cell ROps D).

Definition tr (a b x : Rq) : Rq := qmul ROps (qmul ROps a x) b.
Definition in_pm_orbit (x z : Rq) : Prop := exists a b, In a A /\ In b B /\ pm_eq z (tr a b x).

Lemma pm_orbit_step x z a' b' : in_pm_orbit x z -> pm_in a' A -> pm_in b' B -> in_pm_orbit x (tr a' b' z).
Proof.
  intros [a [b [Ha [Hb Hz]]]] [a1 [Ha1 Ea]] [b1 [Hb1 Eb]].
  destruct (closedA a1 a Ha1 Ha) as [a2 [Ha2 Ea2]]. destruct (closedB b b1 Hb Hb1) as [b2 [Hb2 Eb2]].
  exists a2, b2. split; [exact Ha2|split; [exact Hb2|]].
  assert (E0 : tr a1 b1 (tr a b x) = tr (qmul ROps a1 a) (qmul ROps b b1) x).
  { unfold tr. rewrite !qmul_assoc. reflexivity. }
  assert (E1 : pm_eq (tr a1 b1 (tr a b x)) (tr a2 b2 x)).
  { rewrite E0. unfold tr, pm_eq in *.
    destruct Ea2 as [->| ->], Eb2 as [->| ->];
      rewrite ?qmul_neg_l, ?qmul_neg_r, ?qmul_neg_l, ?qneg_invol; auto. }
  unfold pm_eq in *. unfold tr in *.
  destruct Hz as [->| ->], Ea as [->| ->], Eb as [->| ->];
    rewrite ?qmul_neg_l, ?qmul_neg_r, ?qmul_neg_l, ?qmul_neg_r, ?qneg_invol;
    destruct E1 as [E1|E1]; rewrite E1, ?qneg_invol; auto.
Qed.

Lemma unit_pm a L : (forall p, In p L -> qnorm2 ROps p = 1) -> pm_in a L -> qnorm2 ROps a = 1.
Proof. intros HL [p [Hp [->| ->]]]; rewrite ?qnorm2_neg; apply HL; exact Hp. Qed.

(* the orbit, its maximum, and the consequences *)
Theorem orbit_member_inside (x : Rq) :
  exists a b, In a A /\ In b B /\ inside_region ROps 0 N (tr a b x) = true.
Proof.
  set (O := map (fun ab => tr (fst ab) (snd ab) x) (list_prod A B)).
  assert (HO : O <> []).
  { unfold O. destruct A as [|a A']; [congruence|]. destruct B as [|b B']; [congruence|]. discriminate. }
  destruct (argmax_abs_re O HO) as [y [Hy Hmax]].
  assert (Hy_orb : in_pm_orbit x y).
  { unfold O in Hy. apply in_map_iff in Hy. destruct Hy as [[a b] [<- Hab]]. apply in_prod_iff in Hab.
    exists a, b. cbn [fst snd]. split; [tauto|split; [tauto|left; reflexivity]]. }
  assert (Hbound : forall z, in_pm_orbit x z -> Rabs (qre z) <= Rabs (qre y)).
  { intros z [a [b [Ha [Hb Hz]]]].
    assert (Hin : In (tr a b x) O).
    { unfold O. apply in_map_iff. exists (a, b). split; [reflexivity|apply in_prod; assumption]. }
    specialize (Hmax _ Hin). destruct Hz as [->| ->]; rewrite ?qre_neg, ?Rabs_Ropp; exact Hmax. }
  (* maximal members satisfy the large-cell inequalities *)
  assert (Hcell : forall z, in_pm_orbit x z -> Rabs (qre z) = Rabs (qre y) ->
                  forall d, In d D -> Rabs (qdot ROps d z) <= Rabs (qre z)).
  { intros z Hz Ez d Hd. destruct (D_sound d Hd) as [a [b [Ha [Hb Ed]]]].
    assert (E : Rabs (qdot ROps d z) = Rabs (qre (tr a b z))).
    { rewrite qdot_is_re. unfold tr.
      destruct Ed as [->| ->]; rewrite ?qconj_neg, ?qmul_neg_r, ?qre_neg, ?Rabs_Ropp;
        rewrite qconj_invol; rewrite (qre_cyc (qmul ROps a z) b), <- (qmul_assoc b a z), (qre_cyc (qmul ROps b a) z);
        reflexivity. }
    rewrite E, Ez. apply Hbound. apply pm_orbit_step; [exact Hz| |].
    - exists a. split; [exact Ha|left; reflexivity].
    - exists b. split; [exact Hb|left; reflexivity]. }
  (* choose the common operation that puts +-Vec y into the cone of the pure-vector normals *)
  set (s := if Rle_dec 0 (qre y) then 1 else -1).
  set (v := let '(a, b, c) := qvec y in (s * a, s * b, s * c)).
  destruct (cover v) as [h [Hh Hf]].
  destruct (H_common h Hh) as [HhA HhB].
  assert (Uh : qnorm2 ROps h = 1) by (apply (unit_pm h A); assumption).
  set (z := tr h (qconj ROps h) y).
  assert (Hz_orb : in_pm_orbit x z) by (apply pm_orbit_step; assumption).
  assert (Hz_re : qre z = qre y) by (apply sandwich_re; exact Uh).
  assert (Hz_vec : qvec z = qrot ROps h (qvec y)) by (apply sandwich_vec; exact Uh).
  assert (Hz_cell : forall d, In d D -> Rabs (qdot ROps d z) <= Rabs (qre z)).
  { apply Hcell; [exact Hz_orb|rewrite Hz_re; reflexivity]. }
  assert (Hrot : forall f, In f F -> 0 <= s * vdot ROps f (qvec z)).
  { intros f Hf'. specialize (Hf f Hf'). rewrite Hz_vec. unfold v in Hf.
    destruct (qvec y) as [[y1 y2] y3], f as [[f1 f2] f3], h as [[[h0 h1] h2] h3].
    revert Hf. qunfold. intros Hf.
    match goal with |- 0 <= ?g => match type of Hf with 0 <= ?e => replace g with e by ring end end. exact Hf. }
  assert (Hin : inside_region ROps 0 N z = true).
  { unfold inside_region. replace (o_opp ROps 0) with 0 by (rsimpl; ring).
    rewrite orb_true_iff, forallb_leb_R, forallb_leb_R'.
    unfold s in Hrot. destruct (Rle_dec 0 (qre y)) as [Hp|Hn].
    - left. intros n Hn. destruct (N_split n Hn) as [[f [Hf' ->]]|Hl].
      + rewrite qdot_pure. specialize (Hrot f Hf'). lra.
      + unfold large_cell in Hl. apply in_flat_map in Hl. destruct Hl as [d [Hd Hl]].
        specialize (Hz_cell d Hd). rewrite Hz_re, (Rabs_right (qre y)) in Hz_cell by lra.
        rewrite <- Hz_re in Hz_cell. apply plane_pair in Hz_cell. simpl in Hl. destruct Hl as [<-|[<-|[]]]; tauto.
    - right. intros n Hn'. destruct (N_split n Hn') as [[f [Hf' ->]]|Hl].
      + rewrite qdot_pure. specialize (Hrot f Hf'). lra.
      + unfold large_cell in Hl. apply in_flat_map in Hl. destruct Hl as [d [Hd Hl]].
        specialize (Hz_cell d Hd). rewrite Hz_re, (Rabs_left (qre y)) in Hz_cell by lra.
        apply Rabs_le_inv in Hz_cell. rewrite <- Hz_re in Hz_cell.
        destruct z as [[[z0 z1] z2] z3], d as [[[d0 d1] d2] d3]. simpl in Hl.
        destruct Hl as [<-|[<-|[]]]; unfold plane_plus, plane_minus, qadd, qone, qneg, qdot, qre in *; rsimpl; lra. }
  destruct Hz_orb as [a [b [Ha [Hb Ez]]]]. exists a, b. split; [exact Ha|split; [exact Hb|]].
  destruct Ez as [E|E]; rewrite E in Hin; [exact Hin|]. rewrite inside_region_neg in Hin. exact Hin.
Qed.
End Exist.
