(* Soundness over the reals of the uniqueness certificates of Model/UniqCheck.v: a quaternion strictly
   inside the orientation region is moved out of the open region (by x -> gl * x * gr) by every pair of
   operations other than the identity pair; hence two members of one orbit that both lie strictly inside
   the region coincide. *)
From Coq Require Import Reals ZArith QArith List String Bool Lra.
From Verif Require Import Scalar RInst KField KtoR KSign QuatKernels Quat QuatAlg GroupK Groups SymDot SymDotR SymDotK
  ZoneModel ZoneProofs CertCheck CertSound CoverCheck CoverSound ExistCheck ExistSound ExistInst UniqCheck.
Import ListNotations.
Local Open Scope R_scope.

Definition strictly_pos (N : list kquat) (x : Rq) : Prop := forall n, In n N -> 0 < qdot ROps (qtoR n) x.
(* strictly inside the region: all dot products > 0, or all < 0 *)
Definition strictly_inside (N : list kquat) (x : Rq) : Prop :=
  strictly_pos N x \/ strictly_pos N (qneg ROps x).

Lemma strictly_inside_neg N x : strictly_inside N (qneg ROps x) <-> strictly_inside N x.
Proof. unfold strictly_inside. rewrite qneg_invol. tauto. Qed.

(* n . (gl x gr) = (~gl n ~gr) . x, for all quaternions *)
Lemma adj_dot (gl gr n x : Rq) :
  qdot ROps (qmul ROps (qmul ROps (qconj ROps gl) n) (qconj ROps gr)) x = qdot ROps n (qmul ROps (qmul ROps gl x) gr).
Proof. qdestruct; qunfold; ring. Qed.

Lemma qtoR_adj gl gr n : qtoR (adj gl gr n) = qmul ROps (qmul ROps (qconj ROps (qtoR gl)) (qtoR n)) (qconj ROps (qtoR gr)).
Proof. unfold adj. rewrite !qtoR_mul, !qtoR_conj. reflexivity. Qed.

Lemma comb4_pos (V : list kquat) (c : list (nat * K)) (x : Rq) :
  qcoeffs_ok V c = true -> existsb (fun jl => Kpos (snd jl)) c = true ->
  (forall n, In n V -> 0 < qdot ROps (qtoR n) x) ->
  0 < qdot ROps (qtoR (comb V c)) x.
Proof.
  unfold qcoeffs_ok. intros Hc He Hx.
  assert (Hx' : forall n, In n (map qtoR V) -> 0 <= qdot ROps n x).
  { intros n Hn. apply in_map_iff in Hn. destruct Hn as [k [<- Hk]]. left. apply Hx. exact Hk. }
  induction c as [|[j l] c IH]; cbn [comb]; [discriminate|].
  cbn [forallb] in Hc. apply andb_prop in Hc. destruct Hc as [Hjl Hc]. cbn [fst snd] in Hjl.
  apply andb_prop in Hjl. destruct Hjl as [Hl Hj]. apply Nat.ltb_lt in Hj.
  rewrite qdot_toR_add, qdot_toR_scale.
  assert (Hn : 0 < qdot ROps (qtoR (nth j V kq_zero)) x) by (apply Hx; apply nth_In; exact Hj).
  pose proof (comb_nonneg V c x Hc Hx') as Hrest.
  cbn [existsb snd] in He. apply orb_prop in He. destruct He as [Hp|He].
  - apply Kpos_sound in Hp. nra.
  - apply Knonneg_sound in Hl. specialize (IH Hc He). nra.
Qed.

Lemma qtoR_kq_zero : qtoR kq_zero = (0, 0, 0, 0).
Proof. unfold kq_zero, qtoR. rewrite toR_K0. reflexivity. Qed.

Theorem gordan4_ok_sound (V : list kquat) (c : list (nat * K)) : gordan4_ok V c = true ->
  forall x : Rq, (forall n, In n V -> 0 < qdot ROps (qtoR n) x) -> False.
Proof.
  unfold gordan4_ok. intros H x Hx. apply andb_prop in H. destruct H as [H He]. apply andb_prop in H. destruct H as [Hc Hz].
  pose proof (comb4_pos V c x Hc He Hx) as Hpos. apply kq_eqb_sound in Hz. rewrite Hz, qdot_toR_zero in Hpos. lra.
Qed.

Definition Tmap (gl gr : kquat) (x : Rq) : Rq := qmul ROps (qmul ROps (qtoR gl) x) (qtoR gr).

Lemma Tmap_neg gl gr x : Tmap gl gr (qneg ROps x) = qneg ROps (Tmap gl gr x).
Proof. unfold Tmap. rewrite qmul_neg_r, qmul_neg_l. reflexivity. Qed.

Lemma pair_ok_sound (N : list kquat) (gl gr : kquat) cs : pair_ok N (gl, gr) cs = true ->
  forall x : Rq, strictly_pos N x ->
    ~ strictly_pos N (Tmap gl gr x) /\ ~ strictly_pos N (qneg ROps (Tmap gl gr x)).
Proof.
  unfold pair_ok. cbn [fst snd]. intros H x Hx. apply andb_prop in H. destruct H as [H1 H2]. split; intros HT.
  - apply (gordan4_ok_sound _ _ H1 x). intros n Hn. apply in_app_or in Hn. destruct Hn as [Hn|Hn]; [apply Hx; exact Hn|].
    apply in_map_iff in Hn. destruct Hn as [m [<- Hm]]. rewrite qtoR_adj, adj_dot. apply (HT m Hm).
  - apply (gordan4_ok_sound _ _ H2 x). intros n Hn. apply in_app_or in Hn. destruct Hn as [Hn|Hn]; [apply Hx; exact Hn|].
    apply in_map_iff in Hn. destruct Hn as [m' [<- Hm']]. apply in_map_iff in Hm'. destruct Hm' as [m [<- Hm]].
    rewrite qtoR_neg, qtoR_adj. specialize (HT m Hm). rewrite qdot_neg_r' in HT.
    unfold Tmap in HT. rewrite <- adj_dot in HT.
    match goal with |- 0 < qdot ROps (qneg ROps ?u) x =>
      replace (qdot ROps (qneg ROps u) x) with (- qdot ROps u x) by (destruct u as [[[u0 u1] u2] u3]; destruct x as [[[x0 x1] x2] x3]; qunfold; ring) end.
    exact HT.
Qed.

Theorem uniq_ok_sound (A B N : list kquat) cs : uniq_ok A B N cs = true ->
  forall x : Rq, strictly_inside N x ->
  forall gl gr, In (gl, gr) (tl (list_prod A B)) -> ~ strictly_inside N (Tmap gl gr x).
Proof.
  unfold uniq_ok. intros H x Hx gl gr Hin HT.
  destruct (all2b_In _ _ _ H (gl, gr) Hin) as [c [_ Hc]].
  destruct Hx as [Hx|Hx].
  - destruct (pair_ok_sound N gl gr c Hc x Hx) as [P1 P2]. destruct HT as [HT|HT]; tauto.
  - destruct (pair_ok_sound N gl gr c Hc _ Hx) as [P1 P2]. rewrite Tmap_neg in P1, P2. rewrite qneg_invol in P2.
    destruct HT as [HT|HT]; tauto.
Qed.

(* two members of one orbit strictly inside the region coincide *)
Lemma in_hd_or_tl {X} (p : X) (l : list X) : In p l -> match l with [] => False | h :: t => p = h \/ In p t end.
Proof. destruct l as [|h t]; [tauto|]. intros [<-|H]; auto. Qed.

Theorem strictly_inside_unique (A B N : list kquat) cs : uniq_ok A B N cs = true ->
  match A, B with a0 :: _, b0 :: _ => kq_eqb a0 kq_one && kq_eqb b0 kq_one | _, _ => false end = true ->
  forall x : Rq, strictly_inside N x ->
  forall gl gr, In gl A -> In gr B -> strictly_inside N (Tmap gl gr x) -> Tmap gl gr x = x.
Proof.
  intros H Hid x Hx gl gr Hgl Hgr HT.
  assert (Hp : In (gl, gr) (list_prod A B)) by (apply in_prod; assumption).
  destruct A as [|a0 A']; [discriminate|]. destruct B as [|b0 B']; [discriminate|].
  apply andb_prop in Hid. destruct Hid as [Ha Hb]. apply kq_eqb_sound in Ha, Hb.
  pose proof (in_hd_or_tl _ _ Hp) as Hcase. cbn [list_prod map app] in Hcase.
  destruct Hcase as [E|Ht].
  - inversion E; subst gl gr. unfold Tmap. rewrite Ha, Hb.
    assert (E1 : qtoR kq_one = qone ROps).
    { unfold kq_one, qtoR, qone. rewrite toR_K1, toR_K0. rsimpl. reflexivity. }
    rewrite E1, qmul_one_l, qmul_one_r. reflexivity.
  - exfalso. apply (uniq_ok_sound _ _ _ _ H x Hx gl gr); [|exact HT].
    cbn [list_prod map app tl]. exact Ht.
Qed.
