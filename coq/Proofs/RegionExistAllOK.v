(* All existence certificates check; consequence over the reals: for every ordered pair of proper point groups,
   EVERY real quaternion has a symmetry-equivalent gl * x * gr inside the orientation region the code constructs. *)
From Coq Require Import Reals ZArith QArith List String Bool Lra.
From Verif Require Import Scalar RInst KField KtoR KSign Quat QuatAlg GroupK Groups SymDot SymDotR SymDotK
  ZoneModel ZoneProofs CertCheck CertSound CoverCheck CoverSound ExistCheck ExistSound ExistInst RegionCertsAll RegionCertsAllOK
  RegionCerts00 RegionExist00 RegionExistOK00 RegionCerts01 RegionExist01 RegionExistOK01 RegionCerts02 RegionExist02 RegionExistOK02 RegionCerts03 RegionExist03 RegionExistOK03 RegionCerts04 RegionExist04 RegionExistOK04 RegionCerts05 RegionExist05 RegionExistOK05 RegionCerts06 RegionExist06 RegionExistOK06 RegionCerts07 RegionExist07 RegionExistOK07 RegionCerts08 RegionExist08 RegionExistOK08 RegionCerts09 RegionExist09 RegionExistOK09 RegionCerts10 RegionExist10 RegionExistOK10 RegionCerts11 RegionExist11 RegionExistOK11 RegionCerts12 RegionExist12 RegionExistOK12 RegionCerts13 RegionExist13 RegionExistOK13 RegionCerts14 RegionExist14 RegionExistOK14.
Import ListNotations.
Local Open Scope R_scope.

Lemma every_region_has_exist_cert : forall rc, In rc (List.concat all_region_certs) -> exists ec, rc_ec_ok rc ec = true.
Proof.
  intros rc H. apply in_concat in H. destruct H as [L [HL Hrc]].
  unfold all_region_certs in HL. cbn [In] in HL.
  repeat (destruct HL as [<-|HL]); [..|destruct HL].
  - destruct (all2b_In _ _ _ region_exist_ok_00 rc Hrc) as [ec [_ Hec]]. exists ec. exact Hec.
  - destruct (all2b_In _ _ _ region_exist_ok_01 rc Hrc) as [ec [_ Hec]]. exists ec. exact Hec.
  - destruct (all2b_In _ _ _ region_exist_ok_02 rc Hrc) as [ec [_ Hec]]. exists ec. exact Hec.
  - destruct (all2b_In _ _ _ region_exist_ok_03 rc Hrc) as [ec [_ Hec]]. exists ec. exact Hec.
  - destruct (all2b_In _ _ _ region_exist_ok_04 rc Hrc) as [ec [_ Hec]]. exists ec. exact Hec.
  - destruct (all2b_In _ _ _ region_exist_ok_05 rc Hrc) as [ec [_ Hec]]. exists ec. exact Hec.
  - destruct (all2b_In _ _ _ region_exist_ok_06 rc Hrc) as [ec [_ Hec]]. exists ec. exact Hec.
  - destruct (all2b_In _ _ _ region_exist_ok_07 rc Hrc) as [ec [_ Hec]]. exists ec. exact Hec.
  - destruct (all2b_In _ _ _ region_exist_ok_08 rc Hrc) as [ec [_ Hec]]. exists ec. exact Hec.
  - destruct (all2b_In _ _ _ region_exist_ok_09 rc Hrc) as [ec [_ Hec]]. exists ec. exact Hec.
  - destruct (all2b_In _ _ _ region_exist_ok_10 rc Hrc) as [ec [_ Hec]]. exists ec. exact Hec.
  - destruct (all2b_In _ _ _ region_exist_ok_11 rc Hrc) as [ec [_ Hec]]. exists ec. exact Hec.
  - destruct (all2b_In _ _ _ region_exist_ok_12 rc Hrc) as [ec [_ Hec]]. exists ec. exact Hec.
  - destruct (all2b_In _ _ _ region_exist_ok_13 rc Hrc) as [ec [_ Hec]]. exists ec. exact Hec.
  - destruct (all2b_In _ _ _ region_exist_ok_14 rc Hrc) as [ec [_ Hec]]. exists ec. exact Hec.
Qed.

Lemma pquats_is_proper_quats name : pquats name = proper_quats name.
Proof. reflexivity. Qed.

(* MAIN: every orbit has a member inside the region (exact test), all 225 ordered pairs of proper groups *)
Theorem region_has_orbit_member (rc : region_cert) : In rc (List.concat all_region_certs) ->
  forall x : quat (T:=R), exists gl gr,
    In gl (map qtoR (proper_quats (rc_l rc))) /\ In gr (map qtoR (proper_quats (rc_r rc))) /\
    inside_region ROps 0 (map qtoR (rc_N rc)) (qmul ROps (qmul ROps gl x) gr) = true.
Proof.
  intros H x. destruct (every_region_has_exist_cert rc H) as [ec Hec].
  rewrite <- !pquats_is_proper_quats. exact (rc_ec_ok_sound rc ec Hec x).
Qed.

(* ---- the reduction loop therefore ends inside the region, at a member of minimal rotation angle ---- *)
Lemma rc_names_listed rc : In rc (List.concat all_region_certs) ->
  pgroup_ok (rc_l rc) = true /\ pgroup_ok (rc_r rc) = true.
Proof.
  intros H. destruct (every_region_has_exist_cert rc H) as [ec Hec]. unfold rc_ec_ok in Hec.
  apply andb_prop in Hec. destruct Hec as [Hec Hr]. apply andb_prop in Hec. destruct Hec as [_ Hl].
  split; apply name_listed_ok; assumption.
Qed.

Lemma pm_abs_re (p q : quat (T:=R)) : pm_eq p q -> Rabs (qre p) = Rabs (qre q).
Proof. intros [->| ->]; rewrite ?qre_neg, ?Rabs_Ropp; reflexivity. Qed.

Theorem reduce_result_inside_and_minimal (rc : region_cert) : In rc (List.concat all_region_certs) ->
  forall M : quat (T:=R),
  let Gl := map qtoR (proper_quats (rc_l rc)) in
  let Gr := map qtoR (proper_quats (rc_r rc)) in
  let N := map qtoR (rc_N rc) in
  let r := reduce ROps 0 N Gl Gr M in
  inside_region ROps 0 N r = true /\
  (exists gl gr, In gl Gl /\ In gr Gr /\ r = transform ROps gl gr M) /\
  (forall gl gr, In gl Gl -> In gr Gr -> Rabs (qre (transform ROps gl gr M)) <= Rabs (qre r)).
Proof.
  intros Hrc M Gl Gr N r.
  destruct (rc_names_listed rc Hrc) as [Pl Pr].
  destruct (pgroup_ok_facts _ Pl) as [cA [uA nA]]. destruct (pgroup_ok_facts _ Pr) as [cB [uB nB]].
  pose proof (pgroup_ok_inv _ Pl) as iA. pose proof (pgroup_ok_inv _ Pr) as iB.
  rewrite pquats_is_proper_quats in *.
  destruct (region_has_orbit_member rc Hrc M) as [gl0 [gr0 [Hl0 [Hr0 Hi0]]]].
  assert (Hp0 : In (gl0, gr0) (list_prod Gl Gr)) by (apply in_prod; [exact Hl0|exact Hr0]).
  assert (Hin : inside_region ROps 0 N r = true).
  { unfold r, reduce. apply reduce_loop_inside.
    exists gl0, gr0. split; [exact Hp0|]. unfold transform, N. exact Hi0. }
  assert (Horb : exists gl gr, In gl Gl /\ In gr Gr /\ r = transform ROps gl gr M).
  { unfold r, reduce.
    destruct (reduce_loop_in_orbit 0 N (list_prod Gl Gr) M (qone ROps)) as [[_ He]|[gl [gr [Hp He]]]].
    - exfalso. rewrite He in Hp0. destruct Hp0.
    - exists gl, gr. apply in_prod_iff in Hp. destruct Hp as [Hp1 Hp2]. split; [exact Hp1|split; [exact Hp2|exact He]]. }
  split; [exact Hin|split; [exact Horb|]].
  intros gl gr Hgl Hgr. destruct Horb as [a [b [Ha [Hb Er]]]].
  (* gl * M * gr = (gl * ~a) * r * (~b * gr) *)
  assert (Ua : qnorm2 ROps a = 1) by (apply (qunit_sound _ uA); exact Ha).
  assert (Ub : qnorm2 ROps b = 1) by (apply (qunit_sound _ uB); exact Hb).
  assert (E : transform ROps gl gr M =
              transform ROps (qmul ROps gl (qconj ROps a)) (qmul ROps (qconj ROps b) gr) r).
  { rewrite Er. unfold transform. rewrite !qmul_assoc.
    rewrite <- (qmul_assoc b (qconj ROps b) gr), (qmul_conj_unit b Ub), qmul_one_l.
    rewrite <- (qmul_assoc (qconj ROps a) a), (qmul_conj_l a), Ua.
    replace (qscale ROps 1 (qone ROps)) with (qone ROps) by (unfold qscale, qone; rsimpl; tuple_eq; ring).
    rewrite qmul_one_l. reflexivity. }
  destruct (qinv_closed_pm_sound _ iA a Ha) as [a1 [Ha1 Ea1]].
  destruct (qinv_closed_pm_sound _ iB b Hb) as [b1 [Hb1 Eb1]].
  destruct (qclosed_pm_sound _ cA gl a1 Hgl Ha1) as [a2 [Ha2 Ea2]].
  destruct (qclosed_pm_sound _ cB b1 gr Hb1 Hgr) as [b2 [Hb2 Eb2]].
  assert (Epm : pm_eq (transform ROps gl gr M) (transform ROps a2 b2 r)).
  { rewrite E. unfold transform, pm_eq in *.
    destruct Ea1 as [->| ->], Eb1 as [->| ->]; rewrite ?qmul_neg_l, ?qmul_neg_r;
      destruct Ea2 as [->| ->], Eb2 as [->| ->];
      rewrite ?qmul_neg_l, ?qmul_neg_r, ?qmul_neg_l, ?qmul_neg_r, ?qneg_invol; auto. }
  rewrite (pm_abs_re _ _ Epm).
  exact (inside_region_is_minimal_in_orbit rc Hrc r Hin a2 b2 Ha2 Hb2).
Qed.
