(* C15 -- lemmas about the .ang reader model *)
From Coq Require Import ZArith List Bool String Ascii Lia.
From Verif Require Import Scalar C15Tables C15Common C15Ang.
Import ListNotations.
Local Open Scope string_scope.
Local Open Scope list_scope.

Section AngProofs.
Context {T : Type} (Op : Ops T).

(* ---------------------------------------------------------- list helpers *)
Lemma flat_map_nil {A B} (f : A -> list B) (l : list A) :
  (forall a, In a l -> f a = []) -> flat_map f l = [].
Proof.
  induction l as [|a l IH]; intros H; simpl; [reflexivity|].
  rewrite (H a (or_introl eq_refl)). simpl. apply IH. intros b Hb. apply H. right; exact Hb.
Qed.

Lemma flat_map_flat_map {A B C} (f : A -> list B) (g : B -> list C) (l : list A) :
  flat_map g (flat_map f l) = flat_map (fun a => flat_map g (f a)) l.
Proof. induction l; simpl; [reflexivity|]. rewrite flat_map_app, IHl. reflexivity. Qed.

Lemma flat_map_single {A B} (f : A -> B) (l : list A) : flat_map (fun a => [f a]) l = map f l.
Proof. induction l; simpl; congruence. Qed.

Lemma find_app_none {A} (p : A -> bool) (l1 l2 : list A) :
  find p l1 = None -> find p (l1 ++ l2) = find p l2.
Proof. induction l1; simpl; intros H; [reflexivity|]. destruct (p a); [discriminate|auto]. Qed.

Lemma zip3_map {A} (f g h : A -> T) (l : list A) :
  zip3 (map f l) (map g l) (map h l) = map (fun a => (f a, g a, h a)) l.
Proof. induction l; simpl; congruence. Qed.

Lemma combine_map {A B C} (f : A -> B) (g : A -> C) (l : list A) :
  combine (map f l) (map g l) = map (fun a => (f a, g a)) l.
Proof. induction l; simpl; congruence. Qed.

(* ------------------------------------------------ header -> phase fields *)
Definition info_like (l : angline (T:=T)) : Prop :=
  match l with ALInfo _ | ALCols _ => True | _ => False end.

Lemma info_contrib (l : angline (T:=T)) : info_like l ->
  line_ids l = [] /\ line_names l = [] /\ line_formulas l = [] /\ line_pgs l = [] /\ line_lats l = [].
Proof. destruct l; simpl; intros H; try contradiction; repeat split. Qed.

Definition opt_list {A} (o : option A) : list A := match o with Some a => [a] | None => [] end.

(* what one phase block contributes *)
Lemma phase_ids (p : aphase (T:=T)) : flat_map line_ids (render_phase p) = opt_list (ap_id p).
Proof.
  unfold render_phase. rewrite !flat_map_app. destruct (ap_id p); simpl;
  rewrite (flat_map_nil line_ids (map ALInfo (ap_info p))); try reflexivity;
  intros a Ha; apply in_map_iff in Ha; destruct Ha as [w [<- _]]; reflexivity.
Qed.

Lemma phase_names (p : aphase (T:=T)) : ap_name p <> [] ->
  flat_map line_names (render_phase p) = [join " " (ap_name p)].
Proof.
  intros Hn. unfold render_phase. rewrite !flat_map_app.
  rewrite (flat_map_nil line_names (map ALInfo (ap_info p))).
  2:{ intros a Ha; apply in_map_iff in Ha; destruct Ha as [w [<- _]]; reflexivity. }
  destruct (ap_id p); destruct (ap_name p) as [|w ws]; try congruence; simpl; reflexivity.
Qed.

Lemma phase_formulas (p : aphase (T:=T)) :
  flat_map line_formulas (render_phase p) = opt_list (ap_formula p).
Proof.
  unfold render_phase. rewrite !flat_map_app.
  rewrite (flat_map_nil line_formulas (map ALInfo (ap_info p))).
  2:{ intros a Ha; apply in_map_iff in Ha; destruct Ha as [w [<- _]]; reflexivity. }
  destruct (ap_id p); destruct (ap_formula p); simpl; reflexivity.
Qed.

Lemma phase_pgs (p : aphase (T:=T)) : flat_map line_pgs (render_phase p) = [ap_sym p].
Proof.
  unfold render_phase. rewrite !flat_map_app.
  rewrite (flat_map_nil line_pgs (map ALInfo (ap_info p))).
  2:{ intros a Ha; apply in_map_iff in Ha; destruct Ha as [w [<- _]]; reflexivity. }
  destruct (ap_id p); simpl; reflexivity.
Qed.

Lemma phase_lats (p : aphase (T:=T)) : flat_map line_lats (render_phase p) = [ap_lat p].
Proof.
  unfold render_phase. rewrite !flat_map_app.
  rewrite (flat_map_nil line_lats (map ALInfo (ap_info p))).
  2:{ intros a Ha; apply in_map_iff in Ha; destruct Ha as [w [<- _]]; reflexivity. }
  destruct (ap_id p); simpl; reflexivity.
Qed.

Lemma vendor_pre_info v : Forall info_like (vendor_pre (T:=T) v).
Proof. destruct v; simpl; repeat constructor. Qed.
Lemma vendor_post_info f : Forall info_like (vendor_post (T:=T) f).
Proof. unfold vendor_post; destruct (af_vendor f); simpl; repeat constructor. Qed.
Lemma map_info ws : Forall info_like (map (@ALInfo T) ws).
Proof. induction ws; simpl; constructor; simpl; auto. Qed.

Lemma info_nil {B} (g : angline (T:=T) -> list B) (l : list angline) :
  (forall a, info_like a -> g a = []) -> Forall info_like l -> flat_map g l = [].
Proof.
  intros Hg Hl. apply flat_map_nil. intros a Ha. apply Hg. rewrite Forall_forall in Hl. auto.
Qed.

(* a header field of the rendered file, key by key *)
Lemma hdr_field {B} (g : angline (T:=T) -> list B) (f : angfile (T:=T)) :
  (forall a, info_like a -> g a = []) ->
  flat_map g (render_hdr f) = flat_map (fun p => flat_map g (render_phase p)) (af_phases f).
Proof.
  intros Hg. unfold render_hdr. rewrite !flat_map_app.
  rewrite (info_nil g _ Hg (vendor_pre_info _)), (info_nil g _ Hg (map_info _)),
          (info_nil g _ Hg (map_info _)), (info_nil g _ Hg (vendor_post_info _)).
  simpl. rewrite app_nil_r. apply flat_map_flat_map.
Qed.

Definition wf_names (f : angfile (T:=T)) : Prop := Forall (fun p => ap_name p <> []) (af_phases f).

Lemma hdr_ids (f : angfile (T:=T)) : flat_map line_ids (render_hdr f) = flat_map (fun p => opt_list (ap_id p)) (af_phases f).
Proof.
  rewrite hdr_field by (intros a Ha; apply info_contrib in Ha; tauto).
  apply flat_map_ext. intros p. apply phase_ids.
Qed.
Lemma hdr_names (f : angfile (T:=T)) : wf_names f ->
  flat_map line_names (render_hdr f) = map (fun p => join " " (ap_name p)) (af_phases f).
Proof.
  intros Hw. rewrite hdr_field by (intros a Ha; apply info_contrib in Ha; tauto).
  rewrite <- flat_map_single. unfold wf_names in Hw. induction Hw; simpl; [reflexivity|].
  rewrite phase_names by assumption. simpl. congruence.
Qed.
Lemma hdr_formulas (f : angfile (T:=T)) :
  flat_map line_formulas (render_hdr f) = flat_map (fun p => opt_list (ap_formula p)) (af_phases f).
Proof.
  rewrite hdr_field by (intros a Ha; apply info_contrib in Ha; tauto).
  apply flat_map_ext. intros p. apply phase_formulas.
Qed.
Lemma hdr_pgs (f : angfile (T:=T)) : flat_map line_pgs (render_hdr f) = map ap_sym (af_phases f).
Proof.
  rewrite hdr_field by (intros a Ha; apply info_contrib in Ha; tauto).
  rewrite <- flat_map_single. apply flat_map_ext. intros p. apply phase_pgs.
Qed.
Lemma hdr_lats (f : angfile (T:=T)) : flat_map line_lats (render_hdr f) = map ap_lat (af_phases f).
Proof.
  rewrite hdr_field by (intros a Ha; apply info_contrib in Ha; tauto).
  rewrite <- flat_map_single. apply flat_map_ext. intros p. apply phase_lats.
Qed.


(* ------------------------------------------- _get_phases_from_header *)
Definition hdr_ids_of (f : angfile (T:=T)) : list Z :=
  let ids := flat_map (fun p => opt_list (ap_id p)) (af_phases f) in
  let n := List.length (af_phases f) in
  match ids with
  | [] => zrange 0 n
  | _ => if Nat.ltb (List.length ids) n then ids ++ zrange (zmax ids + 1) (n - List.length ids) else ids
  end.
Definition hdr_names_of (f : angfile (T:=T)) : list string :=
  let forms := flat_map (fun p => opt_list (ap_formula p)) (af_phases f) in
  if Nat.eqb (List.length forms) (List.length (af_phases f)) && forallb (fun s => negb (String.eqb s "")) forms
  then forms else map (fun p => join " " (ap_name p)) (af_phases f).

Lemma phases_render (f : angfile (T:=T)) : wf_names f ->
  phases_from_header (render_hdr f) =
  mkH (hdr_ids_of f) (hdr_names_of f) (map ap_sym (af_phases f)) (map ap_lat (af_phases f)).
Proof.
  intros Hw. unfold phases_from_header, hdr_ids_of, hdr_names_of.
  rewrite hdr_ids, (hdr_names f Hw), hdr_formulas, hdr_pgs, hdr_lats, map_length. reflexivity.
Qed.

Lemma opt_flat {A B} (g : A -> option B) (l : list A) (vs : list B) :
  map g l = map Some vs -> flat_map (fun p => opt_list (g p)) l = vs.
Proof.
  revert vs. induction l as [|p ps IH]; intros [|i vs] H; simpl in *; try discriminate; auto.
  injection H as H1 H2. rewrite H1. simpl. f_equal. apply IH. exact H2.
Qed.

(* every phase block carries "# Phase n": the ids are the header's, in order *)
Lemma hdr_ids_all (f : angfile (T:=T)) (ids : list Z) :
  map ap_id (af_phases f) = map Some ids -> af_phases f <> [] -> hdr_ids_of f = ids.
Proof.
  intros H Hne. unfold hdr_ids_of.
  assert (E : flat_map (fun p => opt_list (ap_id p)) (af_phases f) = ids) by (apply opt_flat; exact H).
  rewrite E. assert (L : List.length ids = List.length (af_phases f)).
  { apply (f_equal (@List.length _)) in H. rewrite !map_length in H. auto. }
  destruct ids as [|i ids]; [destruct (af_phases f); [congruence|discriminate]|].
  rewrite L, Nat.ltb_irrefl. reflexivity.
Qed.

(* no "# Phase" line at all (ASTAR): ids are 0..n-1 *)
Lemma hdr_ids_none (f : angfile (T:=T)) :
  Forall (fun p => ap_id p = None) (af_phases f) -> hdr_ids_of f = zrange 0 (List.length (af_phases f)).
Proof.
  intros H. unfold hdr_ids_of.
  assert (E : flat_map (fun p => opt_list (ap_id p)) (af_phases f) = []).
  { induction H; simpl; [reflexivity|]. rewrite H. simpl. auto. }
  rewrite E. reflexivity.
Qed.

(* names: the formulas when every phase has a non-empty one, else the material names *)
Lemma hdr_names_formulas (f : angfile (T:=T)) (fs : list string) :
  map ap_formula (af_phases f) = map Some fs -> forallb (fun s => negb (String.eqb s "")) fs = true ->
  hdr_names_of f = fs.
Proof.
  intros H Hne. unfold hdr_names_of.
  assert (E : flat_map (fun p => opt_list (ap_formula p)) (af_phases f) = fs) by (apply opt_flat; exact H).
  rewrite E. assert (L : List.length fs = List.length (af_phases f)).
  { apply (f_equal (@List.length _)) in H. rewrite !map_length in H. auto. }
  rewrite L, Nat.eqb_refl, Hne. reflexivity.
Qed.

Lemma hdr_names_material (f : angfile (T:=T)) :
  (exists p, In p (af_phases f) /\ ap_formula p = None) ->
  hdr_names_of f = map (fun p => join " " (ap_name p)) (af_phases f).
Proof.
  intros [p [Hin Hp]]. unfold hdr_names_of.
  assert (L : (List.length (flat_map (fun p => opt_list (ap_formula p)) (af_phases f)) < List.length (af_phases f))%nat).
  { induction (af_phases f) as [|q qs IH]; [contradiction|]. simpl. rewrite app_length.
    assert (B : forall l : list (aphase (T:=T)),
              (List.length (flat_map (fun p => opt_list (ap_formula p)) l) <= List.length l)%nat).
    { induction l as [|r rs IHr]; simpl; [lia|]. rewrite app_length. destruct (ap_formula r); simpl; lia. }
    destruct Hin as [->|Hin].
    - rewrite Hp. simpl. specialize (B qs). lia.
    - specialize (IH Hin). destruct (ap_formula q); simpl; lia. }
  destruct (Nat.eqb_spec (List.length (flat_map (fun p0 => opt_list (ap_formula p0)) (af_phases f)))
                         (List.length (af_phases f))); [lia|]. reflexivity.
Qed.

(* ------------------------------------------------- _get_vendor_columns *)
Definition no_fp (fp : string) (f : angfile (T:=T)) : Prop := find (has_fp fp) (render_hdr f) = None.

Definition generic_names (ncols : nat) : list string :=
  ["euler1"; "euler2"; "euler3"; "x"; "y"; "unknown1"; "unknown2"; "phase_id"] ++
  map (fun i => ("unknown" ++ nat2str (i + 3))%string) (seq 0 (ncols - 8)).

(* the column-count clause, for every vendor except the self-describing orix
   header and for EVERY number of columns *)
Lemma columns_of_vendor (hdr : list (angline (T:=T))) (v : string) (fl : option angline) (ncols : nat) :
  ang_vendor hdr = (v, fl) -> String.eqb v "orix" = false ->
  ang_columns hdr ncols =
    if existsb (Nat.eqb ncols) (map (@List.length string) (variants_of v))
    then (v, match find (fun c => Nat.eqb (List.length c) ncols) (variants_of v) with Some c => c | None => [] end, false)
    else ("unknown", generic_names ncols, true).
Proof.
  intros Hv Ho. unfold ang_columns. rewrite Hv, Ho. simpl andb. cbv iota.
  destruct (existsb (Nat.eqb ncols) (map (@List.length string) (variants_of v))); reflexivity.
Qed.

Lemma vendor_tsl (f : angfile (T:=T)) :
  no_fp "EMsoft" f -> no_fp "ACOM" f -> no_fp "Column names: phi1, Phi, phi2" f ->
  ang_vendor (render_hdr f) = ("tsl", None).
Proof.
  unfold no_fp, ang_vendor. intros H1 H2 H3. cbn [ang_footprints fold_left fst snd ang_default_vendor].
  rewrite H1, H2, H3. reflexivity.
Qed.

Lemma vendor_astar (f : angfile (T:=T)) :
  af_vendor f = AAstar -> no_fp "Column names: phi1, Phi, phi2" f ->
  ang_vendor (render_hdr f) = ("astar", Some (ALInfo ["File"; "created"; "from"; "ACOM"; "RES"; "results"])).
Proof.
  unfold no_fp, ang_vendor. intros Hv H3. cbn [ang_footprints fold_left fst snd ang_default_vendor].
  rewrite H3. unfold render_hdr in *. rewrite Hv in *. cbn [vendor_pre app].
  assert (E : find (has_fp "ACOM")
     (ALInfo ["File"; "created"; "from"; "ACOM"; "RES"; "results"]
      :: map ALInfo (af_pre f) ++ flat_map render_phase (af_phases f) ++ map ALInfo (af_post f) ++ vendor_post f)
     = Some (ALInfo ["File"; "created"; "from"; "ACOM"; "RES"; "results"])).
  { cbn [find]. replace (has_fp "ACOM" (ALInfo (T:=T) ["File"; "created"; "from"; "ACOM"; "RES"; "results"])) with true
      by (vm_compute; reflexivity). reflexivity. }
  rewrite E. reflexivity.
Qed.

Lemma vendor_emsoft (f : angfile (T:=T)) :
  af_vendor f = AEmsoft -> no_fp "ACOM" f -> no_fp "Column names: phi1, Phi, phi2" f ->
  ang_vendor (render_hdr f) =
    ("emsoft", Some (ALInfo ["Info"; "patterns"; "indexed"; "using"; "EMsoft::EMEBSDDI"])).
Proof.
  unfold no_fp, ang_vendor. intros Hv H2 H3. cbn [ang_footprints fold_left fst snd ang_default_vendor].
  rewrite H2, H3. unfold render_hdr. rewrite Hv. cbn [vendor_pre app find].
  replace (has_fp "EMsoft" (ALInfo (T:=T) ["Info"; "patterns"; "indexed"; "using"; "EMsoft::EMEBSDDI"])) with true
    by (vm_compute; reflexivity). reflexivity.
Qed.


Lemma vendor_orix (f : angfile (T:=T)) :
  af_vendor f = AOrix ->
  find (has_fp "Column names: phi1, Phi, phi2")
       (map ALInfo (af_pre f) ++ flat_map render_phase (af_phases f) ++ map ALInfo (af_post f)) = None ->
  ang_vendor (render_hdr f) = ("orix", Some (ALCols (orix_base_names ++ af_extra f))).
Proof.
  unfold ang_vendor. intros Hv H3. cbn [ang_footprints fold_left fst snd ang_default_vendor].
  assert (E : find (has_fp "Column names: phi1, Phi, phi2") (render_hdr f)
              = Some (ALCols (orix_base_names ++ af_extra f))).
  { unfold render_hdr, vendor_post. rewrite Hv. cbn [vendor_pre app].
    rewrite !app_assoc. rewrite find_app_none by (rewrite <- !app_assoc; exact H3).
    cbn [find]. replace (has_fp "Column names: phi1, Phi, phi2" (ALCols (T:=T) (orix_base_names ++ af_extra f))) with true.
    reflexivity. unfold has_fp, line_text, orix_base_names. cbn [app join]. reflexivity. }
  rewrite E. reflexivity.
Qed.

Lemma columns_orix (f : angfile (T:=T)) (ncols : nat) :
  ang_vendor (render_hdr f) = ("orix", Some (ALCols (orix_base_names ++ af_extra f))) ->
  ang_columns (render_hdr f) ncols =
    ("orix", ["euler1"; "euler2"; "euler3"; "x"; "y"; "iq"; "ci"; "phase_id"; "detector_signal"; "fit"]
             ++ map spaces2underscore (af_extra f), false).
Proof.
  intros Hv. unfold ang_columns. rewrite Hv.
  replace (contains "Column names" (line_text (ALCols (T:=T) (orix_base_names ++ af_extra f)))) with true
    by (unfold line_text, orix_base_names; cbn [app join]; reflexivity).
  cbn [String.eqb Ascii.eqb Bool.eqb andb colnames_of]. unfold orix_base_names. rewrite map_app.
  reflexivity.
Qed.

(* ------------------------------------------------------------- columns *)
Definition e1 (p : apoint (T:=T)) : T := fst (fst (p_eu p)).
Definition e2 (p : apoint (T:=T)) : T := snd (fst (p_eu p)).
Definition e3 (p : apoint (T:=T)) : T := snd (p_eu p).
Definition rest_at (j : nat) (p : apoint (T:=T)) : T := nth j (p_rest p) (o_ofZ Op 0).

Lemma nval_rest (j : nat) (l : list T) : nval Op (nth j (map NF l) (NI 0)) = nth j l (o_ofZ Op 0).
Proof. revert j; induction l; intros [|j]; simpl; auto. Qed.

Lemma colv (k : nat) (pts : list (apoint (T:=T))) :
  map (nval Op) (col k (map (render_pt (T:=T)) pts)) = map (fun p => nval Op (nth k (render_pt p) (NI 0))) pts.
Proof. unfold col. rewrite !map_map. reflexivity. Qed.

Lemma cell (p : apoint (T:=T)) :
  render_pt p = [NF (e1 p); NF (e2 p); NF (e3 p); NF (p_x p); NF (p_y p); NF (p_q p); NF (p_c p); NI (p_pid p)]
                ++ map NF (p_rest p).
Proof. unfold render_pt, e1, e2, e3. destruct (p_eu p) as [[a b] c]. reflexivity. Qed.

Lemma colv_rest (j : nat) (pts : list (apoint (T:=T))) :
  map (nval Op) (col (8 + j) (map (render_pt (T:=T)) pts)) = map (rest_at j) pts.
Proof.
  rewrite colv. apply map_ext. intros p. rewrite cell.
  rewrite app_nth2 by (simpl; lia). replace (8 + j - List.length _)%nat with j by (simpl; lia).
  apply nval_rest.
Qed.

Lemma colv_fix (k : nat) (g : apoint (T:=T) -> T) (pts : list (apoint (T:=T))) :
  (forall p, nval Op (nth k (render_pt p) (NI 0)) = g p) ->
  map (nval Op) (col k (map (render_pt (T:=T)) pts)) = map g pts.
Proof. intros H. rewrite colv. apply map_ext. exact H. Qed.

Lemma col_pid (pts : list (apoint (T:=T))) :
  map nint (col 7 (map (render_pt (T:=T)) pts)) = map p_pid pts.
Proof. unfold col. rewrite !map_map. apply map_ext. intros p. rewrite cell. reflexivity. Qed.

Lemma eu_cols (pts : list (apoint (T:=T))) :
  zip3 (map e1 pts) (map e2 pts) (map e3 pts) = map p_eu pts.
Proof.
  rewrite zip3_map. apply map_ext. intros p. unfold e1, e2, e3. destruct (p_eu p) as [[a b] c]. reflexivity.
Qed.

Lemma ncols_render (p : apoint (T:=T)) (pts : list (apoint (T:=T))) :
  ncols_of (map (render_pt (T:=T)) (p :: pts)) = (8 + List.length (p_rest p))%nat.
Proof. simpl. rewrite cell. rewrite app_length, map_length. reflexivity. Qed.

(* the ci == -1 convention on the rendered columns *)
Definition pid_ci (p : apoint (T:=T)) : Z := if o_eqb Op (p_c p) (minus1 Op) then (-1)%Z else p_pid p.

Lemma pid_ci_cols (pts : list (apoint (T:=T))) :
  map (fun p : num * Z => if o_eqb Op (nval Op (fst p)) (minus1 Op) then (-1)%Z else snd p)
      (combine (col 6 (map (render_pt (T:=T)) pts)) (map nint (col 7 (map (render_pt (T:=T)) pts))))
  = map pid_ci pts.
Proof.
  rewrite col_pid. unfold col. rewrite map_map, combine_map, map_map. apply map_ext. intros p.
  rewrite cell. reflexivity.
Qed.


(* ---------------------------------------------------------- file_reader *)
Definition hdr_phaselist (f : angfile (T:=T)) : result (list (Z * phase (T:=T))) :=
  phaselist Op (hdr_ids_of f) (hdr_names_of f) [] (map Some (map ap_sym (af_phases f)))
            (firstn (List.length (hdr_names_of f)) (map ap_lat (af_phases f))).

Definition pv (g : apoint (T:=T) -> T) (pts : list (apoint (T:=T))) : nat * list T := (1%nat, map g pts).

Lemma col_e1 pts : map (nval Op) (col 0 (map (render_pt (T:=T)) pts)) = map e1 pts.
Proof. apply colv_fix; intros p; rewrite cell; reflexivity. Qed.
Lemma col_e2 pts : map (nval Op) (col 1 (map (render_pt (T:=T)) pts)) = map e2 pts.
Proof. apply colv_fix; intros p; rewrite cell; reflexivity. Qed.
Lemma col_e3 pts : map (nval Op) (col 2 (map (render_pt (T:=T)) pts)) = map e3 pts.
Proof. apply colv_fix; intros p; rewrite cell; reflexivity. Qed.
Lemma col_x pts : map (nval Op) (col 3 (map (render_pt (T:=T)) pts)) = map p_x pts.
Proof. apply colv_fix; intros p; rewrite cell; reflexivity. Qed.
Lemma col_y pts : map (nval Op) (col 4 (map (render_pt (T:=T)) pts)) = map p_y pts.
Proof. apply colv_fix; intros p; rewrite cell; reflexivity. Qed.
Lemma col_q pts : map (nval Op) (col 5 (map (render_pt (T:=T)) pts)) = map p_q pts.
Proof. apply colv_fix; intros p; rewrite cell; reflexivity. Qed.
Lemma col_c pts : map (nval Op) (col 6 (map (render_pt (T:=T)) pts)) = map p_c pts.
Proof. apply colv_fix; intros p; rewrite cell; reflexivity. Qed.

Ltac assign_tac H := intros H; lazy -[ncols_of col Nat.ltb]; rewrite !H; lazy -[ncols_of col]; reflexivity.

Lemma assign_10 (rows : list (list (num (T:=T)))) : ncols_of rows = 10%nat ->
  assign_cols ["euler1"; "euler2"; "euler3"; "x"; "y"; "iq"; "ci"; "phase_id"; "detector_signal"; "fit"] 0 rows (mkAD [] [])
  = Ok (mkAD [("euler1", col 0 rows); ("euler2", col 1 rows); ("euler3", col 2 rows); ("x", col 3 rows);
              ("y", col 4 rows); ("phase_id", col 7 rows)]
             [("iq", col 5 rows); ("ci", col 6 rows); ("detector_signal", col 8 rows); ("fit", col 9 rows)]).
Proof. assign_tac H. Qed.

Lemma assign_14 (rows : list (list (num (T:=T)))) : ncols_of rows = 14%nat ->
  assign_cols ["euler1"; "euler2"; "euler3"; "x"; "y"; "iq"; "ci"; "phase_id"; "detector_signal"; "fit";
               "unknown1"; "unknown2"; "unknown3"; "unknown4"] 0 rows (mkAD [] [])
  = Ok (mkAD [("euler1", col 0 rows); ("euler2", col 1 rows); ("euler3", col 2 rows); ("x", col 3 rows);
              ("y", col 4 rows); ("phase_id", col 7 rows)]
             [("iq", col 5 rows); ("ci", col 6 rows); ("detector_signal", col 8 rows); ("fit", col 9 rows);
              ("unknown1", col 10 rows); ("unknown2", col 11 rows); ("unknown3", col 12 rows);
              ("unknown4", col 13 rows)]).
Proof. assign_tac H. Qed.

Lemma assign_8 (rows : list (list (num (T:=T)))) : ncols_of rows = 8%nat ->
  assign_cols ["euler1"; "euler2"; "euler3"; "x"; "y"; "iq"; "dp"; "phase_id"] 0 rows (mkAD [] [])
  = Ok (mkAD [("euler1", col 0 rows); ("euler2", col 1 rows); ("euler3", col 2 rows); ("x", col 3 rows);
              ("y", col 4 rows); ("phase_id", col 7 rows)]
             [("iq", col 5 rows); ("dp", col 6 rows)]).
Proof. assign_tac H. Qed.

Lemma assign_9 (rows : list (list (num (T:=T)))) : ncols_of rows = 9%nat ->
  assign_cols ["euler1"; "euler2"; "euler3"; "x"; "y"; "ind"; "rel"; "phase_id"; "relx100"] 0 rows (mkAD [] [])
  = Ok (mkAD [("euler1", col 0 rows); ("euler2", col 1 rows); ("euler3", col 2 rows); ("x", col 3 rows);
              ("y", col 4 rows); ("phase_id", col 7 rows)]
             [("ind", col 5 rows); ("rel", col 6 rows); ("relx100", col 8 rows)]).
Proof. assign_tac H. Qed.

Ltac finish_tac f :=
  match goal with |- context [phaselist ?a ?b ?c ?d ?e ?g] => destruct (phaselist a b c d e g) end;
  [|reflexivity]; unfold pv;
  rewrite <- ?pid_ci_cols, <- ?eu_cols, <- ?col_e1, <- ?col_e2, <- ?col_e3, <- ?col_x, <- ?col_y, <- ?col_q, <- ?col_c,
          <- ?(colv_rest 0), <- ?(colv_rest 1), <- ?(colv_rest 2), <- ?(colv_rest 3), <- ?(colv_rest 4), <- ?(colv_rest 5),
          <- ?col_pid;
  reflexivity.

Theorem parse_tsl10 (f : angfile (T:=T)) (p0 : apoint (T:=T)) (pts : list (apoint (T:=T))) :
  wf_names f -> no_fp "EMsoft" f -> no_fp "ACOM" f -> no_fp "Column names: phi1, Phi, phi2" f ->
  af_pts f = p0 :: pts -> List.length (p_rest p0) = 2%nat ->
  parse_ang Op (render_hdr f) (map (render_pt (T:=T)) (af_pts f)) =
  bind (hdr_phaselist f) (fun pl =>
    Ok (crystal_map Op 1 (map p_eu (af_pts f)) (map p_x (af_pts f)) (map p_y (af_pts f)) (map pid_ci (af_pts f))
          [("iq", pv p_q (af_pts f)); ("ci", pv p_c (af_pts f));
           ("detector_signal", pv (rest_at 0) (af_pts f)); ("fit", pv (rest_at 1) (af_pts f))]
          "um" pl false)).
Proof.
  intros Hw H1 H2 H3 Hp Hl. unfold parse_ang, hdr_phaselist. rewrite (phases_render f Hw).
  rewrite (columns_of_vendor _ _ _ _ (vendor_tsl f H1 H2 H3) eq_refl).
  assert (Hn : ncols_of (map (render_pt (T:=T)) (af_pts f)) = 10%nat) by (rewrite Hp, ncols_render, Hl; reflexivity).
  rewrite Hn.
  replace (existsb (Nat.eqb 10) (map (@List.length string) (variants_of "tsl"))) with true by (vm_compute; reflexivity).
  replace (find (fun c : list string => Nat.eqb (List.length c) 10) (variants_of "tsl")) with
    (Some ["euler1"; "euler2"; "euler3"; "x"; "y"; "iq"; "ci"; "phase_id"; "detector_signal"; "fit"])
    by (vm_compute; reflexivity).
  cbv iota beta. rewrite (assign_10 _ Hn). unfold bind at 1. cbv iota beta. cbn [h_ids h_names h_pgs h_lats].
  finish_tac f.
Qed.


Ltac parse_tac f Hw Hvend Hn names n vend assign :=
  unfold parse_ang, hdr_phaselist; rewrite (phases_render f Hw);
  rewrite (columns_of_vendor _ _ _ _ Hvend eq_refl);
  rewrite Hn;
  replace (existsb (Nat.eqb n) (map (@List.length string) (variants_of vend))) with true by (vm_compute; reflexivity);
  replace (find (fun c : list string => Nat.eqb (List.length c) n) (variants_of vend)) with (Some names)
    by (vm_compute; reflexivity);
  cbv iota beta; rewrite (assign _ Hn); unfold bind at 1; cbv iota beta; cbn [h_ids h_names h_pgs h_lats];
  finish_tac f.

Theorem parse_tsl14 (f : angfile (T:=T)) (p0 : apoint (T:=T)) (pts : list (apoint (T:=T))) :
  wf_names f -> no_fp "EMsoft" f -> no_fp "ACOM" f -> no_fp "Column names: phi1, Phi, phi2" f ->
  af_pts f = p0 :: pts -> List.length (p_rest p0) = 6%nat ->
  parse_ang Op (render_hdr f) (map (render_pt (T:=T)) (af_pts f)) =
  bind (hdr_phaselist f) (fun pl =>
    Ok (crystal_map Op 1 (map p_eu (af_pts f)) (map p_x (af_pts f)) (map p_y (af_pts f)) (map pid_ci (af_pts f))
          [("iq", pv p_q (af_pts f)); ("ci", pv p_c (af_pts f));
           ("detector_signal", pv (rest_at 0) (af_pts f)); ("fit", pv (rest_at 1) (af_pts f));
           ("unknown1", pv (rest_at 2) (af_pts f)); ("unknown2", pv (rest_at 3) (af_pts f));
           ("unknown3", pv (rest_at 4) (af_pts f)); ("unknown4", pv (rest_at 5) (af_pts f))]
          "um" pl false)).
Proof.
  intros Hw H1 H2 H3 Hp Hl.
  assert (Hn : ncols_of (map (render_pt (T:=T)) (af_pts f)) = 14%nat) by (rewrite Hp, ncols_render, Hl; reflexivity).
  parse_tac f Hw (vendor_tsl f H1 H2 H3) Hn
    ["euler1"; "euler2"; "euler3"; "x"; "y"; "iq"; "ci"; "phase_id"; "detector_signal"; "fit";
     "unknown1"; "unknown2"; "unknown3"; "unknown4"] 14%nat "tsl" assign_14.
Qed.

(* EMsoft: eight columns, no confidence index, hence no not-indexed convention *)
Theorem parse_emsoft (f : angfile (T:=T)) (p0 : apoint (T:=T)) (pts : list (apoint (T:=T))) :
  af_vendor f = AEmsoft -> wf_names f -> no_fp "ACOM" f -> no_fp "Column names: phi1, Phi, phi2" f ->
  af_pts f = p0 :: pts -> List.length (p_rest p0) = 0%nat ->
  parse_ang Op (render_hdr f) (map (render_pt (T:=T)) (af_pts f)) =
  bind (hdr_phaselist f) (fun pl =>
    Ok (crystal_map Op 1 (map p_eu (af_pts f)) (map p_x (af_pts f)) (map p_y (af_pts f)) (map p_pid (af_pts f))
          [("iq", pv p_q (af_pts f)); ("dp", pv p_c (af_pts f))] "um" pl false)).
Proof.
  intros Hv Hw H2 H3 Hp Hl.
  assert (Hn : ncols_of (map (render_pt (T:=T)) (af_pts f)) = 8%nat) by (rewrite Hp, ncols_render, Hl; reflexivity).
  parse_tac f Hw (vendor_emsoft f Hv H2 H3) Hn
    ["euler1"; "euler2"; "euler3"; "x"; "y"; "iq"; "dp"; "phase_id"] 8%nat "emsoft" assign_8.
Qed.

(* ASTAR: nine columns, scan unit nm *)
Theorem parse_astar (f : angfile (T:=T)) (p0 : apoint (T:=T)) (pts : list (apoint (T:=T))) :
  af_vendor f = AAstar -> wf_names f -> no_fp "Column names: phi1, Phi, phi2" f ->
  af_pts f = p0 :: pts -> List.length (p_rest p0) = 1%nat ->
  parse_ang Op (render_hdr f) (map (render_pt (T:=T)) (af_pts f)) =
  bind (hdr_phaselist f) (fun pl =>
    Ok (crystal_map Op 1 (map p_eu (af_pts f)) (map p_x (af_pts f)) (map p_y (af_pts f)) (map p_pid (af_pts f))
          [("ind", pv p_q (af_pts f)); ("rel", pv p_c (af_pts f)); ("relx100", pv (rest_at 0) (af_pts f))]
          "nm" pl false)).
Proof.
  intros Hv Hw H3 Hp Hl.
  assert (Hn : ncols_of (map (render_pt (T:=T)) (af_pts f)) = 9%nat) by (rewrite Hp, ncols_render, Hl; reflexivity).
  parse_tac f Hw (vendor_astar f Hv H3) Hn
    ["euler1"; "euler2"; "euler3"; "x"; "y"; "ind"; "rel"; "phase_id"; "relx100"] 9%nat "astar" assign_9.
Qed.

(* the unexpected-column-count clause on rendered files: for EVERY width that
   is not one of the vendor's, generic names and the warning *)
Theorem columns_unexpected_tsl (f : angfile (T:=T)) (n : nat) :
  no_fp "EMsoft" f -> no_fp "ACOM" f -> no_fp "Column names: phi1, Phi, phi2" f ->
  n <> 10%nat -> n <> 14%nat ->
  ang_columns (render_hdr f) n = ("unknown", generic_names n, true).
Proof.
  intros H1 H2 H3 Ha Hb. rewrite (columns_of_vendor _ _ _ _ (vendor_tsl f H1 H2 H3) eq_refl).
  replace (map (@List.length string) (variants_of "tsl")) with [14%nat; 10%nat] by (vm_compute; reflexivity).
  cbn [existsb]. destruct (Nat.eqb_spec n 14); [contradiction|]. destruct (Nat.eqb_spec n 10); [contradiction|].
  reflexivity.
Qed.

Theorem columns_unexpected_emsoft (f : angfile (T:=T)) (n : nat) :
  af_vendor f = AEmsoft -> no_fp "ACOM" f -> no_fp "Column names: phi1, Phi, phi2" f -> n <> 8%nat ->
  ang_columns (render_hdr f) n = ("unknown", generic_names n, true).
Proof.
  intros Hv H2 H3 Ha. rewrite (columns_of_vendor _ _ _ _ (vendor_emsoft f Hv H2 H3) eq_refl).
  replace (map (@List.length string) (variants_of "emsoft")) with [8%nat] by (vm_compute; reflexivity).
  cbn [existsb]. destruct (Nat.eqb_spec n 8); [contradiction|]. reflexivity.
Qed.

Theorem columns_unexpected_astar (f : angfile (T:=T)) (n : nat) :
  af_vendor f = AAstar -> no_fp "Column names: phi1, Phi, phi2" f -> n <> 9%nat ->
  ang_columns (render_hdr f) n = ("unknown", generic_names n, true).
Proof.
  intros Hv H3 Ha. rewrite (columns_of_vendor _ _ _ _ (vendor_astar f Hv H3) eq_refl).
  replace (map (@List.length string) (variants_of "astar")) with [9%nat] by (vm_compute; reflexivity).
  cbn [existsb]. destruct (Nat.eqb_spec n 9); [contradiction|]. reflexivity.
Qed.

(* the generic names are euler1..3, x, y, unknown1, unknown2, phase_id, unknown3, unknown4, ... *)
Lemma generic_names_10_12 :
  generic_names 8 = ["euler1"; "euler2"; "euler3"; "x"; "y"; "unknown1"; "unknown2"; "phase_id"] /\
  generic_names 11 = ["euler1"; "euler2"; "euler3"; "x"; "y"; "unknown1"; "unknown2"; "phase_id";
                      "unknown3"; "unknown4"; "unknown5"].
Proof. split; vm_compute; reflexivity. Qed.

End AngProofs.
