(* Specification of RInst.Ratan2 (numpy.arctan2 over the reals): for
   (x, y) <> (0, 0) it is THE angle in (-PI, PI] whose cosine is x/rho and whose
   sine is y/rho.  Used by the spherical <-> Cartesian round trips of C20. *)
From Coq Require Import Reals Lra Lia.
From Verif Require Import Scalar RInst.
Local Open Scope R_scope.

Definition rho (x y : R) : R := sqrt (x * x + y * y).

Lemma rho_pos x y : (x <> 0 \/ y <> 0) -> 0 < rho x y.
Proof.
  intros H. apply sqrt_lt_R0.
  destruct H; nra.
Qed.

Lemma rho_sq x y : rho x y * rho x y = x * x + y * y.
Proof. unfold rho. apply sqrt_sqrt. nra. Qed.

Lemma sqrt_1_ratio x y : x <> 0 -> sqrt (1 + (y / x)²) = rho x y / Rabs x.
Proof.
  intros Hx.
  assert (Hax : 0 < Rabs x) by (apply Rabs_pos_lt; exact Hx).
  apply sqrt_lem_1.
  - unfold Rsqr. assert (0 <= (y / x) * (y / x)) by nra. lra.
  - apply Rmult_le_pos. apply sqrt_pos. left. apply Rinv_0_lt_compat. exact Hax.
  - unfold Rsqr.
    replace (rho x y / Rabs x * (rho x y / Rabs x))
      with ((rho x y * rho x y) / (Rabs x * Rabs x)) by (field; lra).
    rewrite rho_sq.
    replace (Rabs x * Rabs x) with (x * x).
    + field. exact Hx.
    + unfold Rabs. destruct (Rcase_abs x); ring.
Qed.

Lemma atan2_cos_sin x y : (x <> 0 \/ y <> 0) ->
  cos (Ratan2 y x) = x / rho x y /\ sin (Ratan2 y x) = y / rho x y.
Proof.
  intros H. pose proof (rho_pos x y H) as Hr.
  unfold Ratan2.
  destruct (Rlt_dec 0 x) as [Hx | Hx].
  - rewrite cos_atan, sin_atan, sqrt_1_ratio by lra.
    rewrite (Rabs_right x) by lra. split; field; lra.
  - destruct (Rlt_dec x 0) as [Hx' | Hx'].
    + assert (Habs : Rabs x = - x) by (apply Rabs_left; lra).
      destruct (Rle_dec 0 y) as [Hy | Hy].
      * rewrite cos_plus, sin_plus, cos_PI, sin_PI, cos_atan, sin_atan, sqrt_1_ratio by lra.
        rewrite Habs. split; field; lra.
      * rewrite cos_minus, sin_minus, cos_PI, sin_PI, cos_atan, sin_atan, sqrt_1_ratio by lra.
        rewrite Habs. split; field; lra.
    + assert (x = 0) by lra. subst x.
      assert (Hy : y <> 0) by (destruct H; [lra | assumption]).
      assert (Hrho : rho 0 y = Rabs y).
      { unfold rho. replace (0 * 0 + y * y) with (y²) by (unfold Rsqr; ring). apply sqrt_Rsqr_abs. }
      destruct (Rlt_dec 0 y) as [Hy1 | Hy1].
      * rewrite cos_PI2, sin_PI2, Hrho, (Rabs_right y) by lra. split; field; lra.
      * destruct (Rlt_dec y 0) as [Hy2 | Hy2]; [| lra].
        rewrite cos_neg, sin_neg, cos_PI2, sin_PI2, Hrho, (Rabs_left y) by lra.
        split; field; lra.
Qed.

Lemma atan2_range x y : - PI < Ratan2 y x <= PI.
Proof.
  pose proof PI_RGT_0 as Hpi.
  unfold Ratan2.
  destruct (Rlt_dec 0 x) as [Hx | Hx].
  - pose proof (atan_bound (y / x)). lra.
  - destruct (Rlt_dec x 0) as [Hx' | Hx'].
    + pose proof (atan_bound (y / x)) as Hb.
      destruct (Rle_dec 0 y) as [Hy | Hy].
      * assert (y / x <= 0).
        { unfold Rdiv. assert (/ x < 0) by (apply Rinv_lt_0_compat; lra). nra. }
        assert (atan (y / x) <= 0).
        { rewrite <- atan_0. destruct (Req_dec (y / x) 0) as [E | E].
          - rewrite E. lra.
          - left. apply atan_increasing. lra. }
        lra.
      * assert (0 < y / x).
        { unfold Rdiv. assert (/ x < 0) by (apply Rinv_lt_0_compat; lra). nra. }
        assert (0 < atan (y / x)) by (rewrite <- atan_0; apply atan_increasing; lra).
        lra.
    + destruct (Rlt_dec 0 y); [lra |]. destruct (Rlt_dec y 0); lra.
Qed.

(* an angle in (-PI, PI] is determined by its cosine and sine *)
Lemma angle_unique a b :
  - PI < a <= PI -> - PI < b <= PI -> cos a = cos b -> sin a = sin b -> a = b.
Proof.
  intros Ha Hb Hc Hs.
  pose proof PI_RGT_0 as Hpi.
  assert (Hc1 : cos (a - b) = 1).
  { rewrite cos_minus, Hc, Hs. pose proof (sin2_cos2 b) as E. unfold Rsqr in E. lra. }
  assert (Hs0 : sin (a - b) = 0).
  { rewrite sin_minus, Hc, Hs. ring. }
  destruct (Rle_dec 0 (a - b)) as [Hd | Hd].
  - assert (Hr : 0 <= a - b <= 2 * PI) by lra.
    destruct (sin_eq_O_2PI_0 (a - b) (proj1 Hr) (proj2 Hr) Hs0) as [E | [E | E]].
    + lra.
    + rewrite E, cos_PI in Hc1. lra.
    + lra.
  - assert (Hr : 0 <= b - a <= 2 * PI) by lra.
    assert (Hs0' : sin (b - a) = 0).
    { replace (b - a) with (- (a - b)) by ring. rewrite sin_neg, Hs0. ring. }
    destruct (sin_eq_O_2PI_0 (b - a) (proj1 Hr) (proj2 Hr) Hs0') as [E | [E | E]].
    + lra.
    + replace (a - b) with (- (b - a)) in Hc1 by ring.
      rewrite cos_neg, E, cos_PI in Hc1. lra.
    + lra.
Qed.

(* atan2 (k sin f) (k cos f) recovers f, for k > 0 and f in (-PI, PI] *)
Lemma atan2_of_polar k f : 0 < k -> - PI < f <= PI ->
  Ratan2 (k * sin f) (k * cos f) = f.
Proof.
  intros Hk Hf.
  assert (Hne : k * cos f <> 0 \/ k * sin f <> 0).
  { destruct (Req_dec (cos f) 0) as [E | E].
    - right. pose proof (sin2_cos2 f) as E2. unfold Rsqr in E2. rewrite E in E2.
      assert (sin f <> 0) by (intro E3; rewrite E3 in E2; lra). nra.
    - left. nra. }
  destruct (atan2_cos_sin _ _ Hne) as [Hc Hs].
  assert (Hrho : rho (k * cos f) (k * sin f) = k).
  { unfold rho. replace (k * cos f * (k * cos f) + k * sin f * (k * sin f))
      with (k² * ((sin f)² + (cos f)²)) by (unfold Rsqr; ring).
    rewrite sin2_cos2, Rmult_1_r. apply sqrt_Rsqr. lra. }
  rewrite Hrho in Hc, Hs.
  apply angle_unique.
  - apply atan2_range.
  - exact Hf.
  - rewrite Hc. field. lra.
  - rewrite Hs. field. lra.
Qed.
