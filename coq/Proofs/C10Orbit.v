(* C10 -- orbit-stabiliser theorem for a finite group given as a duplicate-free
   closed LIST of operations acting on a type with decidable equality.

       |distinct images of v| * |stabiliser of v| = |G|

   hence the number of distinct images (the multiplicity) divides the group
   order.  The group laws are only required of the listed elements, so they
   can be checked by vm_compute for a concrete list (3x3 integer matrices,
   see Proofs/C10Inst.v).  Reusable; nothing here is specific to orix. *)
From Coq Require Import List Arith Bool Lia Permutation.
Import ListNotations.

(* ---------------------------------------------------------------- counting *)
Section Count.
Context {A B : Type} (beq : B -> B -> bool).
Hypothesis beq_true : forall x y, beq x y = true <-> x = y.

Lemma filter_length_or (p q : A -> bool) l :
  (forall a, In a l -> p a = true -> q a = false) ->
  length (filter (fun a => p a || q a) l) = length (filter p l) + length (filter q l).
Proof.
  induction l as [|a l IH]; intros D; simpl; auto.
  assert (D' : forall a0, In a0 l -> p a0 = true -> q a0 = false) by (intros; apply D; simpl; auto).
  specialize (IH D').
  destruct (p a) eqn:Pa; simpl.
  - rewrite (D a (or_introl eq_refl) Pa). simpl. lia.
  - destruct (q a); simpl; lia.
Qed.

Lemma filter_all (p : A -> bool) l : (forall a, In a l -> p a = true) -> filter p l = l.
Proof.
  induction l as [|a l IH]; intros H; simpl; auto.
  rewrite (H a (or_introl eq_refl)). f_equal. apply IH. intros; apply H; simpl; auto.
Qed.

(* the fibres of f over a duplicate-free list of values partition the
   elements whose value is in that list *)
Lemma fibres_sum (f : A -> B) (l : list A) (ws : list B) :
  NoDup ws ->
  list_sum (map (fun w => length (filter (fun a => beq (f a) w) l)) ws)
  = length (filter (fun a => existsb (beq (f a)) ws) l).
Proof.
  induction 1 as [|w ws Hn Hnd IH]; simpl.
  - induction l; simpl; auto.
  - rewrite IH. symmetry. apply filter_length_or.
    intros a _ E. apply beq_true in E. subst w.
    destruct (existsb (beq (f a)) ws) eqn:X; auto.
    apply existsb_exists in X. destruct X as [y [Hy E]]. apply beq_true in E. subst y. contradiction.
Qed.

Lemma fibres_partition (f : A -> B) (l : list A) (ws : list B) :
  NoDup ws -> (forall a, In a l -> In (f a) ws) ->
  list_sum (map (fun w => length (filter (fun a => beq (f a) w) l)) ws) = length l.
Proof.
  intros Hnd Hc. rewrite (fibres_sum f l ws Hnd). f_equal. apply filter_all.
  intros a Ha. apply existsb_exists. exists (f a). split; auto. apply beq_true; auto.
Qed.

Lemma map_nodup_in {C D} (f : C -> D) (l : list C) :
  (forall a b, In a l -> In b l -> f a = f b -> a = b) -> NoDup l -> NoDup (map f l).
Proof.
  induction l as [|a l IH]; intros Hi Hn; simpl; [constructor|].
  inversion Hn; subst. constructor.
  - intros Hin. apply in_map_iff in Hin. destruct Hin as [b [E Hb]].
    assert (b = a) by (apply Hi; simpl; auto). subst. contradiction.
  - apply IH; auto. intros; apply Hi; simpl; auto.
Qed.

Lemma list_sum_const (ws : list B) (g : B -> nat) c :
  (forall w, In w ws -> g w = c) -> list_sum (map g ws) = length ws * c.
Proof.
  induction ws as [|w ws IH]; intros H; simpl; auto.
  rewrite (H w (or_introl eq_refl)), IH; auto. intros; apply H; simpl; auto.
Qed.
End Count.

(* ------------------------------------------------------- orbit-stabiliser *)
Section OrbitStabiliser.
Context {Gt V : Type} (veq : V -> V -> bool).
Hypothesis veq_true : forall x y, veq x y = true <-> x = y.
Context (mul : Gt -> Gt -> Gt) (inv : Gt -> Gt) (e : Gt) (act : Gt -> V -> V) (G : list Gt).

Record group_action : Prop := {
  ga_nodup : NoDup G;
  ga_e : In e G;
  ga_mul : forall g h, In g G -> In h G -> In (mul g h) G;
  ga_inv : forall g, In g G -> In (inv g) G;
  ga_assoc : forall g h k, In g G -> In h G -> In k G -> mul (mul g h) k = mul g (mul h k);
  ga_e_l : forall g, In g G -> mul e g = g;
  ga_inv_l : forall g, In g G -> mul (inv g) g = e;
  ga_inv_r : forall g, In g G -> mul g (inv g) = e;
  ga_act_e : forall v, act e v = v;
  ga_act_mul : forall g h v, In g G -> In h G -> act (mul g h) v = act g (act h v)
}.
Hypothesis GA : group_action.

Definition orbit (v : V) : list V := map (fun g => act g v) G.
Definition stab (v : V) : list Gt := filter (fun g => veq (act g v) v) G.
Definition fibre (v w : V) : list Gt := filter (fun g => veq (act g v) w) G.
(* two vectors are symmetrically equivalent *)
Definition equivalent (v w : V) : Prop := exists g, In g G /\ w = act g v.

Lemma in_orbit v w : In w (orbit v) <-> equivalent v w.
Proof.
  unfold orbit, equivalent. rewrite in_map_iff. split; intros [g [H1 H2]]; exists g; split; auto.
Qed.

Lemma self_in_orbit v : In v (orbit v).
Proof. apply in_orbit. exists e. split; [apply (ga_e GA) | symmetry; apply (ga_act_e GA)]. Qed.

Lemma orbit_length v : length (orbit v) = length G.
Proof. unfold orbit. apply map_length. Qed.

Lemma in_stab v g : In g (stab v) <-> In g G /\ act g v = v.
Proof. unfold stab. rewrite filter_In, veq_true. tauto. Qed.

Lemma in_fibre v w g : In g (fibre v w) <-> In g G /\ act g v = w.
Proof. unfold fibre. rewrite filter_In, veq_true. tauto. Qed.

Lemma mul_cancel_l h a b : In h G -> In a G -> In b G -> mul h a = mul h b -> a = b.
Proof.
  intros Hh Ha Hb E.
  assert (E2 : mul (inv h) (mul h a) = mul (inv h) (mul h b)) by (rewrite E; auto).
  rewrite <- !(ga_assoc GA) in E2; auto using (ga_inv GA).
  rewrite (ga_inv_l GA), !(ga_e_l GA) in E2; auto.
Qed.

Lemma equivalent_refl v : equivalent v v.
Proof. apply in_orbit, self_in_orbit. Qed.
Lemma equivalent_sym v w : equivalent v w -> equivalent w v.
Proof.
  intros [g [Hg ->]]. exists (inv g). split; [apply (ga_inv GA); auto|].
  rewrite <- (ga_act_mul GA); auto using (ga_inv GA). rewrite (ga_inv_l GA); auto.
  symmetry; apply (ga_act_e GA).
Qed.
Lemma equivalent_trans u v w : equivalent u v -> equivalent v w -> equivalent u w.
Proof.
  intros [g [Hg ->]] [h [Hh ->]]. exists (mul h g). split; [apply (ga_mul GA); auto|].
  rewrite (ga_act_mul GA); auto.
Qed.

(* the fibre over h.v is the left coset h * Stab(v) *)
Lemma fibre_coset v h : In h G -> Permutation (fibre v (act h v)) (map (mul h) (stab v)).
Proof.
  intros Hh. apply NoDup_Permutation.
  - apply NoDup_filter, (ga_nodup GA).
  - apply map_nodup_in.
    + intros a b Ha Hb E. apply in_stab in Ha. apply in_stab in Hb.
      apply (mul_cancel_l h); tauto.
    + apply NoDup_filter, (ga_nodup GA).
  - intros g. rewrite in_fibre, in_map_iff. split.
    + intros [Hg E]. exists (mul (inv h) g). split.
      * rewrite <- (ga_assoc GA); auto using (ga_inv GA).
        rewrite (ga_inv_r GA), (ga_e_l GA); auto.
      * apply in_stab. split; [apply (ga_mul GA); auto using (ga_inv GA)|].
        rewrite (ga_act_mul GA), E; auto using (ga_inv GA).
        rewrite <- (ga_act_mul GA); auto using (ga_inv GA).
        rewrite (ga_inv_l GA); auto. apply (ga_act_e GA).
    + intros [s [<- Hs]]. apply in_stab in Hs. destruct Hs as [Hs E]. split.
      * apply (ga_mul GA); auto.
      * rewrite (ga_act_mul GA); auto. rewrite E; auto.
Qed.

Lemma fibre_size v w : In w (orbit v) -> length (fibre v w) = length (stab v).
Proof.
  intros Hw. apply in_orbit in Hw. destruct Hw as [h [Hh ->]].
  rewrite (Permutation_length (fibre_coset v h Hh)). apply map_length.
Qed.

(* ORBIT-STABILISER: for EVERY duplicate-free enumeration L of the images of v *)
Theorem orbit_stabiliser v (L : list V) :
  NoDup L -> (forall w, In w L <-> In w (orbit v)) ->
  length L * length (stab v) = length G.
Proof.
  intros Hnd Hin.
  rewrite <- (fibres_partition veq veq_true (fun g => act g v) G L Hnd).
  - symmetry. apply list_sum_const. intros w Hw. apply fibre_size. apply Hin; auto.
  - intros g Hg. apply Hin. unfold orbit. apply (in_map (fun g0 => act g0 v)). auto.
Qed.

Corollary orbit_size_divides v (L : list V) :
  NoDup L -> (forall w, In w L <-> In w (orbit v)) -> Nat.divide (length L) (length G).
Proof.
  intros H1 H2. exists (length (stab v)). rewrite <- (orbit_stabiliser v L H1 H2). lia.
Qed.

Lemma stab_nonempty v : In e (stab v).
Proof. apply in_stab. split; [apply (ga_e GA) | apply (ga_act_e GA)]. Qed.

(* images of equivalent vectors: same set of images *)
Lemma orbit_equivalent v w : equivalent v w -> forall x, In x (orbit v) <-> In x (orbit w).
Proof.
  intros E x. rewrite !in_orbit. split; intros H.
  - apply (equivalent_trans w v x); auto. apply equivalent_sym; auto.
  - apply (equivalent_trans v w x); auto.
Qed.

(* right translation permutes the list of operations *)
Lemma right_translation_perm g0 : In g0 G -> Permutation (map (fun g => mul g g0) G) G.
Proof.
  intros H0. apply NoDup_Permutation_bis.
  - apply map_nodup_in; [|apply (ga_nodup GA)].
    intros a b Ha Hb E.
    assert (E2 : mul (mul a g0) (inv g0) = mul (mul b g0) (inv g0)) by (rewrite E; auto).
    rewrite !(ga_assoc GA), (ga_inv_r GA) in E2; auto using (ga_inv GA).
    assert (R : forall x, In x G -> mul x e = x).
    { intros x Hx. rewrite <- (ga_inv_l GA x Hx), <- (ga_assoc GA); auto using (ga_inv GA).
      rewrite (ga_inv_r GA), (ga_e_l GA); auto. }
    rewrite !R in E2; auto.
  - rewrite map_length. auto.
  - intros x Hx. apply in_map_iff in Hx. destruct Hx as [g [<- Hg]]. apply (ga_mul GA); auto.
Qed.
End OrbitStabiliser.
