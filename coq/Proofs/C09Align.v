(* C09 -- _new_structure_matrix_from_alignment(x="a", z="c*") and the
   Phase.structure setter: for EVERY non-singular base the new base is the
   old one re-expressed in a right-handed orthonormal frame with a || e1 and
   c* || e3; lattice parameters and the atoms' Cartesian positions are kept. *)
From Coq Require Import Reals ZArith Lra Lia Nsatz Bool List Psatz.
From Verif Require Import Scalar RInst C09Lin C09Miller C09Model.
From Verif Require Import C09LinAlg C09Alg.
Import ListNotations.
Local Open Scope R_scope.

(* ------------------------------------------------------------------ *)
(* the np.isclose(norm, 0) tests of the code                            *)

Lemma isclose0_unit (u : V3) : vdot ROps u u = 1 -> isclose0 ROps (vnorm ROps u) = false.
Proof.
  intros H. rewrite (vnorm_unit u H). unfold isclose0, eps8; rsimpl.
  apply Rleb_false. rewrite Rabs_R1. lra.
Qed.

Lemma isclose0_vzero : isclose0 ROps (vnorm ROps (vzero ROps)) = true.
Proof.
  rewrite vnorm_vzero. unfold isclose0, eps8; rsimpl.
  apply Rleb_true. rewrite Rabs_R0. lra.
Qed.

(* ------------------------------------------------------------------ *)
(* the frame                                                            *)

Lemma vdot_cyclic (x y z : V3) : vdot ROps x (vcross ROps y z) = vdot ROps y (vcross ROps z x).
Proof. vdestruct; lunfold; ring. Qed.

Lemma mdet_cyc (r0 r1 r2 : V3) : mdet ROps (r0, r1, r2) = vdot ROps r2 (vcross ROps r0 r1).
Proof. vdestruct; lunfold; ring. Qed.

Lemma cross_rows_pos (r0 r1 r2 : V3) :
  mdet ROps (r0, r1, r2) <> 0 -> 0 < vdot ROps (vcross ROps r0 r1) (vcross ROps r0 r1).
Proof.
  intros H. pose proof (vdot_self_nonneg (vcross ROps r0 r1)) as Hn.
  destruct (Req_dec (vdot ROps (vcross ROps r0 r1) (vcross ROps r0 r1)) 0) as [E|E]; [|lra].
  exfalso; apply H. rewrite mdet_cyc. apply vdot_self_zero in E. rewrite E.
  clear; vdestruct; lunfold; ring.
Qed.

Record frame_ok (r0 r1 : V3) (u w : V3) : Prop := {
  fo_u : u = vunit ROps r0;
  fo_w : w = vunit ROps (vcross ROps u (vunit ROps r1));
  fo_uu : vdot ROps u u = 1;
  fo_ww : vdot ROps w w = 1;
  fo_uw : vdot ROps u w = 0;
  fo_n0 : 0 < vnorm ROps r0;
  fo_n1 : 0 < vnorm ROps r1;
  fo_nw : 0 < vnorm ROps (vcross ROps u (vunit ROps r1))
}.

Lemma frame_facts (r0 r1 r2 : V3) :
  mdet ROps (r0, r1, r2) <> 0 ->
  frame_ok r0 r1 (vunit ROps r0) (vunit ROps (vcross ROps (vunit ROps r0) (vunit ROps r1))).
Proof.
  intros H.
  pose proof (row_pos (r0, r1, r2) 0 H) as H0. pose proof (row_pos (r0, r1, r2) 1 H) as H1.
  cbn [mrow] in H0, H1.
  pose proof (vnorm_pos r0 H0) as N0. pose proof (vnorm_pos r1 H1) as N1.
  pose proof (cross_rows_pos r0 r1 r2 H) as HC.
  set (u := vunit ROps r0). set (bd := vunit ROps r1).
  assert (Ew0 : vcross ROps u bd = vscale ROps (/ vnorm ROps r0 * / vnorm ROps r1) (vcross ROps r0 r1)).
  { unfold u, bd. rewrite !vunit_eq, vcross_vscale_l, vcross_vscale_r, vscale_vscale. reflexivity. }
  assert (HW : 0 < vdot ROps (vcross ROps u bd) (vcross ROps u bd)).
  { rewrite Ew0, vdot_vscale_l, vdot_vscale_r.
    assert (0 < / vnorm ROps r0) by (apply Rinv_0_lt_compat; auto).
    assert (0 < / vnorm ROps r1) by (apply Rinv_0_lt_compat; auto).
    repeat apply Rmult_lt_0_compat; auto. }
  constructor; auto.
  - apply vunit_unit; auto.
  - apply vunit_unit; auto.
  - rewrite (vunit_eq (vcross ROps u bd)), vdot_vscale_r.
    rewrite vdot_comm, vcross_perp_l. ring.
  - apply vnorm_pos; auto.
Qed.

Lemma align_frame_eq (r0 r1 r2 : V3) :
  align_frame ROps (r0, r1, r2)
  = frame (vunit ROps r0) (vunit ROps (vcross ROps (vunit ROps r0) (vunit ROps r1))).
Proof. reflexivity. Qed.

(* the code's result is  A * E^T  with E the frame *)
Lemma align_eq (A : M3) :
  mdet ROps A <> 0 -> align ROps A = Ok (mmul ROps A (mtr (align_frame ROps A))).
Proof.
  intros H. destruct A as [[r0 r1] r2].
  destruct (frame_facts r0 r1 r2 H) as [_ _ Huu Hww Huw _ _ _].
  unfold align, new_structure_matrix. cbn [count_none Nat.add Nat.ltb Nat.leb].
  cbv zeta.
  rewrite (isclose0_unit _ Huu), isclose0_vzero, (isclose0_unit _ Hww).
  rewrite align_frame_eq. unfold frame.
  set (u := vunit ROps r0) in *.
  set (w := vunit ROps (vcross ROps u (vunit ROps r1))) in *.
  generalize (vcross ROps w u); intros e2.
  clear. vdestruct. reflexivity.
Qed.

(* E is a proper rotation *)
Lemma align_frame_rotation (A : M3) :
  mdet ROps A <> 0 ->
  let E := align_frame ROps A in
  mmul ROps E (mtr E) = mid ROps /\ mmul ROps (mtr E) E = mid ROps /\ mdet ROps E = 1.
Proof.
  intros H. destruct A as [[r0 r1] r2].
  destruct (frame_facts r0 r1 r2 H) as [_ _ Huu Hww Huw _ _ _].
  cbv zeta. rewrite align_frame_eq.
  split; [|split]; [apply frame_orth | apply frame_orth_cols | apply frame_det]; auto.
Qed.

(* lattice parameters unchanged: the Gram matrix (all lengths and angles) is kept *)
Theorem align_gram (A N : M3) : mdet ROps A <> 0 -> align ROps A = Ok N -> gram N = gram A.
Proof.
  intros H HN. rewrite align_eq in HN by auto. inversion HN; subst N; clear HN.
  destruct (align_frame_rotation A H) as [_ [Hc _]]. cbv zeta in Hc.
  unfold gram. rewrite mtr_mmul, mtr_invol.
  rewrite mmul_assoc, <- (mmul_assoc (mtr (align_frame ROps A))), Hc, mmul_mid_l. reflexivity.
Qed.

(* handedness and volume unchanged *)
Theorem align_det (A N : M3) : mdet ROps A <> 0 -> align ROps A = Ok N -> mdet ROps N = mdet ROps A.
Proof.
  intros H HN. rewrite align_eq in HN by auto. inversion HN; subst N; clear HN.
  destruct (align_frame_rotation A H) as [_ [_ Hd]]. cbv zeta in Hd.
  rewrite mdet_mmul, mdet_mtr, Hd. ring.
Qed.

(* the new base is A re-expressed in a rotated frame: N = A R, R proper rotation *)
Theorem align_is_rotation (A N : M3) :
  mdet ROps A <> 0 -> align ROps A = Ok N ->
  exists Rm : M3, N = mmul ROps A Rm /\ mmul ROps Rm (mtr Rm) = mid ROps /\ mdet ROps Rm = 1.
Proof.
  intros H HN. rewrite align_eq in HN by auto. inversion HN; subst N; clear HN.
  destruct (align_frame_rotation A H) as [Hr [Hc Hd]]. cbv zeta in *.
  exists (mtr (align_frame ROps A)). split; [reflexivity|]. rewrite mtr_invol, mdet_mtr. auto.
Qed.

(* ------------------------------------------------------------------ *)
(* shape of the new base: lower triangular, positive diagonal           *)

Theorem align_shape (A N : M3) :
  mdet ROps A <> 0 -> align ROps A = Ok N ->
  exists p q r s t u : R,
    N = ((p, 0, 0), (q, r, 0), (s, t, u)) /\
    p = vnorm ROps (mrow A 0) /\ 0 < p /\ 0 < r /\ p * r * u = mdet ROps A.
Proof.
  intros H HN. pose proof (align_det A N H HN) as HD.
  rewrite align_eq in HN by auto. inversion HN; subst N; clear HN.
  destruct A as [[r0 r1] r2].
  destruct (frame_facts r0 r1 r2 H) as [_ _ Huu Hww Huw N0 N1 NW].
  rewrite align_frame_eq in *. unfold frame in *.
  set (u := vunit ROps r0) in *. set (bd := vunit ROps r1) in *.
  set (w0 := vcross ROps u bd) in *. set (w := vunit ROps w0) in *.
  assert (Eu : u = vscale ROps (/ vnorm ROps r0) r0) by apply vunit_eq.
  assert (Eb : bd = vscale ROps (/ vnorm ROps r1) r1) by apply vunit_eq.
  assert (Ew : w = vscale ROps (/ vnorm ROps w0) w0) by apply vunit_eq.
  (* the nine entries *)
  assert (E00 : vdot ROps r0 u = vnorm ROps r0).
  { rewrite Eu, vdot_vscale_r, <- vnorm_sq. field. lra. }
  assert (E01 : vdot ROps r0 (vcross ROps w u) = 0).
  { rewrite Eu, vcross_vscale_r, vdot_vscale_r, vdot_comm, vcross_perp_r. ring. }
  assert (E02 : vdot ROps r0 w = 0).
  { rewrite Ew, vdot_vscale_r. unfold w0. rewrite Eu, vcross_vscale_l, vdot_vscale_r.
    rewrite vdot_comm, vcross_perp_l. ring. }
  assert (E12 : vdot ROps r1 w = 0).
  { rewrite Ew, vdot_vscale_r. unfold w0. rewrite Eb, vcross_vscale_r, vdot_vscale_r.
    rewrite vdot_comm, vcross_perp_r. ring. }
  assert (E11 : vdot ROps r1 (vcross ROps w u) = vnorm ROps r1 * vnorm ROps w0).
  { rewrite vdot_cyclic.
    assert (Er1 : r1 = vscale ROps (vnorm ROps r1) bd).
    { rewrite Eb, vscale_vscale. replace (vnorm ROps r1 * / vnorm ROps r1) with 1 by (field; lra).
      clear; vdestruct; lunfold; tuple_eq; ring. }
    rewrite Er1 at 1. rewrite vcross_vscale_r, vdot_vscale_r. fold w0.
    rewrite Ew, vdot_vscale_l, <- vnorm_sq. field. lra. }
  exists (vnorm ROps r0), (vdot ROps r1 u), (vnorm ROps r1 * vnorm ROps w0),
         (vdot ROps r2 u), (vdot ROps r2 (vcross ROps w u)), (vdot ROps r2 w).
  assert (EN : mmul ROps (r0, r1, r2) (mtr (u, vcross ROps w u, w))
               = ((vnorm ROps r0, 0, 0), (vdot ROps r1 u, vnorm ROps r1 * vnorm ROps w0, 0),
                  (vdot ROps r2 u, vdot ROps r2 (vcross ROps w u), vdot ROps r2 w))).
  { rewrite <- E00, <- E11. rewrite <- E01 at 1. rewrite <- E02 at 1. rewrite <- E12.
    generalize (vcross ROps w u); intros e2. clear. vdestruct. reflexivity. }
  split; [exact EN|]. split; [reflexivity|]. split; [auto|]. split.
  - apply Rmult_lt_0_compat; auto.
  - rewrite <- HD, EN. clear. lunfold. ring.
Qed.

(* a || e1 : the Cartesian image of [100] is (|a|, 0, 0) *)
Theorem align_a_along_e1 (A N : M3) :
  mdet ROps A <> 0 -> align ROps A = Ok N ->
  vmat ROps (1, 0, 0) N = (vnorm ROps (mrow A 0), 0, 0) /\ 0 < vnorm ROps (mrow A 0).
Proof.
  intros H HN. destruct (align_shape A N H HN) as (p & q & r & s & t & u & EN & Ep & Hp & Hr & Hd).
  subst N. rewrite <- Ep. split; [|auto]. lunfold. tuple_eq; ring.
Qed.

(* c* || e3 : the Cartesian image of (001) is (0, 0, z), z > 0 for right-handed input *)
Theorem align_cstar_along_e3 (A N : M3) :
  0 < mdet ROps A -> align ROps A = Ok N ->
  exists z : R, vmat ROps (0, 0, 1) (mtr (minv ROps N)) = (0, 0, z) /\ 0 < z.
Proof.
  intros H HN. assert (H' : mdet ROps A <> 0) by lra.
  destruct (align_shape A N H' HN) as (p & q & r & s & t & u & EN & Ep & Hp & Hr & Hd).
  subst N.
  assert (Hu : 0 < u).
  { assert (0 < p * r) by (apply Rmult_lt_0_compat; auto). nra. }
  exists (/ u). split; [|apply Rinv_0_lt_compat; auto].
  lunfold. tuple_eq; field; repeat split; lra.
Qed.

(* left-handed input keeps its handedness (c* then points along -e3) *)
Theorem align_cstar_lefthanded (A N : M3) :
  mdet ROps A < 0 -> align ROps A = Ok N ->
  exists z : R, vmat ROps (0, 0, 1) (mtr (minv ROps N)) = (0, 0, z) /\ z < 0.
Proof.
  intros H HN. assert (H' : mdet ROps A <> 0) by lra.
  destruct (align_shape A N H' HN) as (p & q & r & s & t & u & EN & Ep & Hp & Hr & Hd).
  subst N.
  assert (Hu : u < 0).
  { assert (0 < p * r) by (apply Rmult_lt_0_compat; auto). nra. }
  exists (/ u). split; [|apply Rinv_lt_0_compat; auto].
  lunfold. tuple_eq; field; repeat split; lra.
Qed.

(* ------------------------------------------------------------------ *)
(* an already aligned base is a fixed point                             *)

Lemma sqrt_sq_pos (x : R) : 0 < x -> sqrt (x * x) = x.
Proof. intros; apply sqrt_square; lra. Qed.

Lemma vunit_e1 (p : R) : 0 < p -> vunit ROps (p, 0, 0) = (1, 0, 0).
Proof.
  intros Hp. unfold vunit, vnorm, vnorm2. lunfold.
  replace (p * p + 0 * 0 + 0 * 0) with (p * p) by ring. rewrite sqrt_sq_pos by auto.
  tuple_eq; field; lra.
Qed.

Lemma vunit_e3 (z : R) : 0 < z -> vunit ROps (0, 0, z) = (0, 0, 1).
Proof.
  intros Hp. unfold vunit, vnorm, vnorm2. lunfold.
  replace (0 * 0 + 0 * 0 + z * z) with (z * z) by ring. rewrite sqrt_sq_pos by auto.
  tuple_eq; field; lra.
Qed.

Lemma aligned_frame_id (p q r s t u : R) :
  0 < p -> 0 < r -> align_frame ROps ((p, 0, 0), (q, r, 0), (s, t, u)) = mid ROps.
Proof.
  intros Hp Hr. unfold align_frame. rewrite (vunit_e1 p Hp).
  assert (Hb : 0 < vdot ROps (q, r, 0) (q, r, 0)) by (lunfold; nra).
  pose proof (vnorm_pos _ Hb) as Nb.
  rewrite (vunit_eq (q, r, 0)).
  set (n := vnorm ROps (q, r, 0)) in *.
  assert (Ec : vcross ROps (1, 0, 0) (vscale ROps (/ n) (q, r, 0)) = (0, 0, / n * r)).
  { lunfold. tuple_eq; ring. }
  rewrite Ec. rewrite vunit_e3.
  - lunfold. tuple_eq; ring.
  - apply Rmult_lt_0_compat; auto. apply Rinv_0_lt_compat; auto.
Qed.

Theorem align_idempotent (A N : M3) :
  mdet ROps A <> 0 -> align ROps A = Ok N -> align ROps N = Ok N.
Proof.
  intros H HN. pose proof (align_det A N H HN) as HD.
  destruct (align_shape A N H HN) as (p & q & r & s & t & u & EN & Ep & Hp & Hr & Hd).
  rewrite align_eq by (rewrite HD; auto). subst N.
  rewrite aligned_frame_id by auto.
  replace (mtr (mid ROps)) with (mid ROps) by (lunfold; reflexivity).
  rewrite mmul_mid_r. reflexivity.
Qed.

(* ------------------------------------------------------------------ *)
(* the result does not depend on the initial rotation of the base       *)

Definition rotation (Rm : M3) : Prop := mmul ROps Rm (mtr Rm) = mid ROps /\ mdet ROps Rm = 1.

Lemma rot_minv (Rm : M3) : rotation Rm -> minv ROps Rm = mtr Rm.
Proof.
  intros [Ho Hd]. assert (Hn : mdet ROps Rm <> 0) by lra.
  rewrite <- (mmul_mid_r (minv ROps Rm)), <- Ho, <- mmul_assoc, minv_l, mmul_mid_l; auto.
Qed.

Lemma rot_cols (Rm : M3) : rotation Rm -> mmul ROps (mtr Rm) Rm = mid ROps.
Proof. intros HR. rewrite <- (rot_minv Rm HR). destruct HR. apply minv_l; lra. Qed.

Lemma vdot_rot (Rm : M3) (x y : V3) :
  rotation Rm -> vdot ROps (vmat ROps x Rm) (vmat ROps y Rm) = vdot ROps x y.
Proof.
  intros HR. rewrite vdot_vmat_adj, vmat_mmul. destruct HR as [Ho _]. rewrite Ho, vmat_mid. reflexivity.
Qed.

Lemma vcross_rot (Rm : M3) (x y : V3) :
  rotation Rm -> vcross ROps (vmat ROps x Rm) (vmat ROps y Rm) = vmat ROps (vcross ROps x y) Rm.
Proof.
  intros HR. pose proof (rot_minv Rm HR) as Hi. destruct HR as [Ho Hd].
  rewrite vcross_vmat by lra. rewrite Hi, mtr_invol, Hd.
  generalize (vmat ROps (vcross ROps x y) Rm); intros v; clear. vdestruct; lunfold; tuple_eq; ring.
Qed.

Lemma vnorm_rot (Rm : M3) (x : V3) : rotation Rm -> vnorm ROps (vmat ROps x Rm) = vnorm ROps x.
Proof. intros HR. unfold vnorm, vnorm2. rewrite vdot_rot; auto. Qed.

Lemma vunit_rot (Rm : M3) (x : V3) :
  rotation Rm -> vunit ROps (vmat ROps x Rm) = vmat ROps (vunit ROps x) Rm.
Proof. intros HR. rewrite !vunit_eq, vnorm_rot, vmat_vscale; auto. Qed.

Lemma align_frame_rot (A Rm : M3) :
  rotation Rm -> align_frame ROps (mmul ROps A Rm) = mmul ROps (align_frame ROps A) Rm.
Proof.
  intros HR. destruct A as [[r0 r1] r2]. unfold mmul at 1. rewrite !align_frame_eq. unfold frame.
  rewrite !vunit_rot, vcross_rot, vunit_rot, vcross_rot by auto. reflexivity.
Qed.

Theorem align_rotation_invariant (A Rm : M3) :
  mdet ROps A <> 0 -> rotation Rm -> align ROps (mmul ROps A Rm) = align ROps A.
Proof.
  intros H HR. pose proof HR as [Ho Hd].
  rewrite !align_eq; auto.
  - rewrite align_frame_rot, mtr_mmul by auto.
    rewrite mmul_assoc, <- (mmul_assoc Rm), Ho, mmul_mid_l. reflexivity.
  - rewrite mdet_mmul, Hd. lra.
Qed.

(* ------------------------------------------------------------------ *)
(* Phase.structure setter                                               *)

Lemma map_map_ext {X Y Z : Type} (f : X -> Y) (g : Y -> Z) (h : X -> Z) (l : list X) :
  (forall x, g (f x) = h x) -> map g (map f l) = map h l.
Proof. intros E. rewrite map_map. apply map_ext. exact E. Qed.

Theorem set_structure_spec (A : M3) (fracs : list V3) :
  eps8R <= mdet ROps A ->
  exists (N : M3) (fr' : list V3),
    align ROps A = Ok N /\
    set_structure ROps A fracs = Ok (Lat N, fr') /\
    (* atoms' Cartesian positions unchanged *)
    map (fun f' => vmat ROps f' N) fr' = map (fun f => vmat ROps f A) fracs /\
    length fr' = length fracs.
Proof.
  intros Hd. assert (Hp : 0 < mdet ROps A) by (unfold eps8R in Hd; lra).
  assert (Hn : mdet ROps A <> 0) by lra.
  pose proof (align_eq A Hn) as HA.
  set (N := mmul ROps A (mtr (align_frame ROps A))) in *.
  pose proof (align_det A N Hn HA) as HD.
  exists N, (map (fun x => vmat ROps x (minv ROps N)) (map (fun f => vmat ROps f A) fracs)).
  split; [exact HA|]. split; [|split].
  - unfold set_structure. rewrite HA. cbn [rbind].
    rewrite lattice_of_base_ok by (rewrite HD; auto). reflexivity.
  - rewrite (map_map_ext _ _ (fun x => x)).
    + apply map_id.
    + intros x. apply vmat_minv_l. rewrite HD; auto.
  - rewrite !map_length. reflexivity.
Qed.

(* the setter fails only through diffpy's guards *)
Theorem set_structure_small_cell (A : M3) (fracs : list V3) :
  mdet ROps A <> 0 -> mdet ROps A < eps8R -> set_structure ROps A fracs = Err LatticeError.
Proof.
  intros Hn Hs. pose proof (align_eq A Hn) as HA.
  set (N := mmul ROps A (mtr (align_frame ROps A))) in *.
  pose proof (align_det A N Hn HA) as HD.
  unfold set_structure. rewrite HA. cbn [rbind].
  rewrite lattice_of_base_err by (rewrite HD; auto). reflexivity.
Qed.
