(* From the checked existence certificate of a region (exact, in K) to the statement over the reals:
   every orbit has a member inside the region. *)
From Coq Require Import Reals ZArith QArith List String Bool Lra.
From Verif Require Import Scalar RInst KField KtoR KSign QuatKernels Quat QuatAlg GroupK Groups SymDot SymDotR SymDotK
  ZoneModel ZoneProofs CertCheck CertSound CoverCheck CoverSound ExistCheck ExistSound.
Import ListNotations.
Local Open Scope R_scope.

Lemma qtoR_norm2 (q : kquat) : toR (qnorm2 KOps q) = qnorm2 ROps (qtoR q).
Proof.
  destruct q as [[[a b] c] d]. unfold qnorm2, qtoR. cbn [KOps ROps o_add o_mul].
  rewrite !toR_add, !toR_mul. reflexivity.
Qed.

Lemma kq_pm_eqb_sound p q : kq_pm_eqb p q = true -> pm_eq (qtoR p) (qtoR q).
Proof.
  unfold kq_pm_eqb, pm_eq. intros H. apply orb_prop in H. destruct H as [H|H]; apply kq_eqb_sound in H.
  - left. exact H.
  - right. rewrite H, qtoR_neg. reflexivity.
Qed.

Lemma kq_pm_mem_sound q L : kq_pm_mem q L = true -> pm_in (qtoR q) (map qtoR L).
Proof.
  unfold kq_pm_mem. intros H. apply existsb_exists in H. destruct H as [p [Hp He]].
  exists (qtoR p). split; [apply in_map; exact Hp|apply kq_pm_eqb_sound; exact He].
Qed.

Lemma qunit_sound A : qunit A = true -> forall a, In a (map qtoR A) -> qnorm2 ROps a = 1.
Proof.
  unfold qunit. intros H a Ha. apply in_map_iff in Ha. destruct Ha as [k [<- Hk]].
  rewrite forallb_forall in H. specialize (H k Hk). apply Keqb_sound in H.
  rewrite qtoR_norm2, toR_K1 in H. exact H.
Qed.

Lemma qclosed_pm_sound A : qclosed_pm A = true ->
  forall a a', In a (map qtoR A) -> In a' (map qtoR A) -> pm_in (qmul ROps a a') (map qtoR A).
Proof.
  unfold qclosed_pm. intros H a a' Ha Ha'. apply in_map_iff in Ha, Ha'.
  destruct Ha as [k [<- Hk]], Ha' as [k' [<- Hk']].
  rewrite forallb_forall in H. specialize (H k Hk). rewrite forallb_forall in H. specialize (H k' Hk').
  rewrite <- qtoR_mul. apply kq_pm_mem_sound. exact H.
Qed.

Lemma map_qtoR_large_cell D : map qtoR (large_cell_K D) = large_cell ROps (map qtoR D).
Proof.
  induction D as [|d D IH]; [reflexivity|].
  cbn [large_cell_K large_cell flat_map map app]. fold (large_cell_K D). fold (large_cell ROps (map qtoR D)).
  rewrite qtoR_one_plus, qtoR_one_minus, IH. reflexivity.
Qed.

Lemma qtoR_pure (n : kquat) : Kis0 (kq_re n) = true ->
  qtoR n = (let '(a, b, c) := vtoR (kq_vec n) in (0, a, b, c)).
Proof.
  destruct n as [[[a b] c] d]. unfold kq_re, kq_vec, vtoR, qtoR, Kis0. intros H.
  apply Keqb_sound in H. rewrite H, toR_K0. reflexivity.
Qed.

Lemma ract_hop (h : kquat) (x : Rv) : ract ROps (rtoR (h, false)) x = qrot ROps (qtoR h) x.
Proof. reflexivity. Qed.

Theorem ec_ok_sound (A B N D : list kquat) (ec : exist_cert) :
  ec_ok A B N D ec = true ->
  qclosed_pm A = true -> qclosed_pm B = true -> qunit A = true -> qunit B = true ->
  A <> [] -> B <> [] ->
  forall x : Rq, exists a b, In a (map qtoR A) /\ In b (map qtoR B) /\
     inside_region ROps 0 (map qtoR N) (qmul ROps (qmul ROps a x) b) = true.
Proof.
  unfold ec_ok. intros Hok cA cB uA uB nA nB x.
  apply andb_prop in Hok. destruct Hok as [Hok Hd]. apply andb_prop in Hok. destruct Hok as [Hok Ht].
  apply andb_prop in Hok. destruct Hok as [Hh Hl].
  apply (orbit_member_inside (map qtoR A) (map qtoR B) (map qtoR D) (map qtoR (ec_H ec))
           (map vtoR (pure_normals N)) (map qtoR N)).
  - apply qunit_sound; exact uA.
  - apply qunit_sound; exact uB.
  - apply qclosed_pm_sound; exact cA.
  - apply qclosed_pm_sound; exact cB.
  - destruct A; [congruence|discriminate].
  - destruct B; [congruence|discriminate].
  - (* D_sound *)
    intros d Hd'. apply in_map_iff in Hd'. destruct Hd' as [k [<- Hk]].
    destruct (all2b_In _ _ _ Hd k Hk) as [[i j] [_ Hij]]. cbn [fst snd] in Hij.
    destruct (nth_error A i) as [a|] eqn:Ea; [|discriminate].
    destruct (nth_error B j) as [b|] eqn:Eb; [|discriminate].
    exists (qtoR a), (qtoR b). split; [apply in_map; eapply nth_error_In; exact Ea|].
    split; [apply in_map; eapply nth_error_In; exact Eb|].
    apply kq_pm_eqb_sound in Hij. rewrite qtoR_conj, qtoR_mul in Hij. exact Hij.
  - (* H_common *)
    intros h Hh'. apply in_map_iff in Hh'. destruct Hh' as [k [<- Hk]].
    rewrite forallb_forall in Hh. specialize (Hh k Hk). apply andb_prop in Hh. destruct Hh as [H1 H2].
    split; [apply kq_pm_mem_sound; exact H1|]. rewrite <- qtoR_conj. apply kq_pm_mem_sound. exact H2.
  - (* cover *)
    intros v. destruct (tree_covers_everything _ _ _ Ht v) as [r [Hr Hc]].
    unfold hops in Hr. apply in_map_iff in Hr. destruct Hr as [h [<- Hh']].
    exists (qtoR h). split; [apply in_map; exact Hh'|].
    intros f Hf. apply in_map_iff in Hf. destruct Hf as [k [<- Hk]]. specialize (Hc k Hk).
    rewrite ract_hop in Hc. exact Hc.
  - (* N_split *)
    intros n Hn. apply in_map_iff in Hn. destruct Hn as [k [<- Hk]].
    destruct (all2b_In _ _ _ Hl k Hk) as [o [_ Ho]]. destruct o as [i|].
    + right. apply andb_prop in Ho. destruct Ho as [He Hi]. apply kq_eqb_sound in He. apply Nat.ltb_lt in Hi.
      rewrite He, <- map_qtoR_large_cell. apply in_map. apply nth_In. exact Hi.
    + left. exists (vtoR (kq_vec k)). split.
      * apply in_map. unfold pure_normals. apply in_map. apply filter_In. split; assumption.
      * apply qtoR_pure. exact Ho.
Qed.

(* per named proper group: closed up to sign, unit, non-empty *)
Lemma pgroup_ok_facts name : pgroup_ok name = true ->
  qclosed_pm (pquats name) = true /\ qunit (pquats name) = true /\ pquats name <> [].
Proof.
  unfold pgroup_ok. intros H. apply andb_prop in H. destruct H as [H _].
  apply andb_prop in H. destruct H as [H Hn]. apply andb_prop in H. destruct H as [Hc Hu].
  split; [exact Hc|split; [exact Hu|]]. destruct (pquats name); [discriminate|discriminate].
Qed.

Lemma qinv_closed_pm_sound A : qinv_closed_pm A = true ->
  forall a, In a (map qtoR A) -> pm_in (qconj ROps a) (map qtoR A).
Proof.
  unfold qinv_closed_pm. intros H a Ha. apply in_map_iff in Ha. destruct Ha as [k [<- Hk]].
  rewrite forallb_forall in H. specialize (H k Hk). rewrite <- qtoR_conj. apply kq_pm_mem_sound. exact H.
Qed.
Lemma pgroup_ok_inv name : pgroup_ok name = true -> qinv_closed_pm (pquats name) = true.
Proof. unfold pgroup_ok. intros H. apply andb_prop in H. destruct H as [_ H]. exact H. Qed.

Lemma all_pgroups_ok : forallb pgroup_ok proper_names = true.
Proof. vm_compute. reflexivity. Qed.

Lemma name_listed_ok n : name_listed n = true -> pgroup_ok n = true.
Proof.
  unfold name_listed. intros H. apply existsb_exists in H. destruct H as [m [Hm He]].
  apply String.eqb_eq in He. subst m. pose proof all_pgroups_ok as A. rewrite forallb_forall in A. apply A. exact Hm.
Qed.

Theorem rc_ec_ok_sound (rc : region_cert) (ec : exist_cert) : rc_ec_ok rc ec = true ->
  forall x : Rq, exists a b, In a (map qtoR (pquats (rc_l rc))) /\ In b (map qtoR (pquats (rc_r rc))) /\
     inside_region ROps 0 (map qtoR (rc_N rc)) (qmul ROps (qmul ROps a x) b) = true.
Proof.
  unfold rc_ec_ok. intros H. apply andb_prop in H. destruct H as [H Hr]. apply andb_prop in H. destruct H as [H Hl].
  destruct (pgroup_ok_facts _ (name_listed_ok _ Hl)) as [cA [uA nA]].
  destruct (pgroup_ok_facts _ (name_listed_ok _ Hr)) as [cB [uB nB]].
  apply (ec_ok_sound _ _ _ (rc_D rc) ec); assumption.
Qed.
