(* C11 -- concrete maps: non-vacuity instances of the hypotheses, and the
   former witnesses of the clauses that the model of the UNREPAIRED code
   refuted (mask-then-slice, non-zero / half-step grid origin, 3-value array
   item, single-point map).  On the repaired code each of them now behaves as
   the reference demands; they are kept as regression instances (vm_compute)
   and are replayed on the implementation by tools/impl/c11.py on every run. *)
From Coq Require Import String Ascii ZArith QArith Qround List Bool Lia Arith.
From Verif Require Import NdIndex C11CMap C11Nd C11Sel.
Import ListNotations.
Close Scope Q_scope.
Open Scope nat_scope.

(* regular grid coordinates, C order *)
Definition grid_x (nr nc : nat) (ox dx : Q) : list Q :=
  map (fun p => (ox + inject_Z (Z.of_nat (p mod nc)) * dx)%Q) (seq 0 (nr * nc)).
Definition grid_y (nr nc : nat) (oy dy : Q) : list Q :=
  map (fun p => (oy + inject_Z (Z.of_nat (p / nc)) * dy)%Q) (seq 0 (nr * nc)).

Definition wit_phases : list (Z * string) :=
  [((-1)%Z, "not_indexed"%string); (0%Z, "alpha"%string); (1%Z, "beta"%string)].

(* 2-D map nr x nc; phase ids cycle -1,0,1; one rotation tag and one property per point *)
Definition wit2 (nr nc : nat) (ox oy dx dy : Q) : res (cmap Z Z) :=
  init (Some (grid_x nr nc ox dx)) (Some (grid_y nr nc oy dy))
       (map (fun p => (Z.of_nat (p mod 3) - 1)%Z) (seq 0 (nr * nc)))
       (map (fun p => (100 + Z.of_nat p)%Z) (seq 0 (nr * nc)))
       [("p"%string, map (fun p => (3 * Z.of_nat p)%Z) (seq 0 (nr * nc)))]
       wit_phases (repeat true (nr * nc)).

(* 1-D map along x *)
Definition wit1 (n : nat) (ox dx : Q) : res (cmap Z Z) :=
  init (Some (grid_x 1 n ox dx)) None
       (map (fun p => (Z.of_nat (p mod 3) - 1)%Z) (seq 0 n))
       (map (fun p => (100 + Z.of_nat p)%Z) (seq 0 n))
       [("p"%string, map (fun p => (3 * Z.of_nat p)%Z) (seq 0 n))]
       wit_phases (repeat true n).

Definition getm (r : res (cmap Z Z)) : cmap Z Z :=
  match r with
  | Ok m => m
  | Err _ => {| xs := None; ys := None; pid := []; rots := []; props := []; phases := [];
                ind := []; oshape := [] |}
  end.

Definition ids_res (r : res (cmap Z Z)) : res (list nat) :=
  match r with Ok m => Ok (acc_id m) | Err e => Err e end.

Definition m34 : cmap Z Z := getm (wit2 3 4 0 0 (7 # 10) (3 # 2)).
Definition m34_off : cmap Z Z := getm (wit2 3 4 (7 # 5) 0 (7 # 10) (3 # 2)).   (* x origin = 2 steps *)
Definition m10 : cmap Z Z := getm (wit1 10 0 1).
Definition m10_off : cmap Z Z := getm (wit1 10 3 1).                           (* origin = 3 steps *)
Definition m10_half : cmap Z Z := getm (wit1 10 (1 # 2) 1).                    (* origin = half a step *)
Definition m1 : cmap Z Z := getm (wit1 1 0 1).                                  (* a single point *)

Definition mask_not5 : list bool := map (fun p => negb (p =? 5)) (seq 0 12).
Definition mask_only0 : list bool := map (fun p => p =? 0) (seq 0 10).
Definition sl (a b : Z) : key1 := KSlice (Some a) (Some b) None.

(* ------------------------------------------------------- non-vacuity *)
Lemma m34_wf : wfb m34 = true /\ oshape m34 = [3; 4] /\ acc_id m34 = seq 0 12.
Proof. vm_compute. repeat split. Qed.

Lemma m10_wf : wfb m10 = true /\ oshape m10 = [10].
Proof. vm_compute. repeat split. Qed.

(* maps whose grid origin is 2 / 3 / half a step away from zero are well-formed *)
Lemma off_wf :
  (wfb m34_off = true /\ oshape m34_off = [3; 4]) /\
  (wfb m10_off = true /\ oshape m10_off = [10]) /\
  (wfb m10_half = true /\ oshape m10_half = [10]).
Proof. vm_compute. repeat split. Qed.

Definition hist_ok : list key :=
  [KSel [sl 1 3; sl 0 3]; KPhase ["Indexed"%string; "alpha"%string]; KMask [true; false; true; true]].

Lemma hist_ok_guard :
  hist_guardb (static m34) (acc_id m34) hist_ok = true /\
  ref_run (static m34) (acc_id m34) hist_ok = Ok [4; 8; 10] /\
  ids_res (run m34 hist_ok) = Ok [4; 8; 10].
Proof. vm_compute. repeat split. Qed.

(* a history whose slice keys meet NON-rectangular selections, on a map with a
   non-zero origin *)
Definition hist_nonrect : list key :=
  [KMask mask_not5; KSel [kfull; kfull]; KSel [KSlice None None (Some 2%Z)]; KSel [kfull; sl 1 4];
   KPhase ["indexed"%string]].

Lemma hist_nonrect_guard :
  hist_guardb (static m34_off) (acc_id m34_off) hist_nonrect = true /\
  ref_run (static m34_off) (acc_id m34_off) hist_nonrect = Ok [1; 2; 10; 11] /\
  ids_res (run m34_off hist_nonrect) = Ok [1; 2; 10; 11].
Proof. vm_compute. repeat split. Qed.

(* ------------------------------------------- former refutation witnesses *)
(* boolean mask, then a slice: point 5 was masked out and stays out *)
Lemma wit_mask_then_slice :
  ids_res (run m34 [KMask mask_not5]) = Ok [0; 1; 2; 3; 4; 6; 7; 8; 9; 10; 11] /\
  ids_res (run m34 [KMask mask_not5; KSel [kfull; kfull]]) = Ok [0; 1; 2; 3; 4; 6; 7; 8; 9; 10; 11] /\
  ref_run (static m34) (acc_id m34) [KMask mask_not5; KSel [kfull; kfull]]
    = Ok [0; 1; 2; 3; 4; 6; 7; 8; 9; 10; 11].
Proof. vm_compute. repeat split. Qed.

(* a strided slice leaves a non-rectangular selection; the next slice keeps it *)
Lemma wit_stride_then_slice :
  ids_res (run m34 [KSel [KSlice None None (Some 2%Z)]]) = Ok [0; 1; 2; 3; 8; 9; 10; 11] /\
  ids_res (run m34 [KSel [KSlice None None (Some 2%Z)]; KSel [kfull]]) = Ok [0; 1; 2; 3; 8; 9; 10; 11] /\
  ref_run (static m34) (acc_id m34) [KSel [KSlice None None (Some 2%Z)]; KSel [kfull]]
    = Ok [0; 1; 2; 3; 8; 9; 10; 11].
Proof. vm_compute. repeat split. Qed.

(* grid origin two steps from zero: slicing selects what the reference selects *)
Lemma wit_origin_slice :
  oshape m34_off = [3; 4] /\ length (ind m34_off) = 12 /\
  ids_res (getitem m34_off (KSel [sl 0 2; sl 0 2])) = Ok [0; 1; 4; 5] /\
  ref_getitem (static m34_off) (acc_id m34_off) (KSel [sl 0 2; sl 0 2]) = Ok [0; 1; 4; 5].
Proof. vm_compute. repeat split. Qed.

(* grid origin three steps from zero, 1-D: after selecting point 0, `[:]`
   still holds point 0 only *)
Lemma wit_origin_keep :
  ids_res (run m10_off [KMask mask_only0]) = Ok [0] /\
  ids_res (run m10_off [KMask mask_only0; KSel [kfull]]) = Ok [0] /\
  ref_run (static m10_off) (acc_id m10_off) [KMask mask_only0; KSel [kfull]] = Ok [0].
Proof. vm_compute. repeat split. Qed.

(* same map: get_map_data of the full 10-point map returns all 10 cells *)
Lemma wit_origin_map_data :
  acc_shape m10_off = Ok [10] /\
  get_map_data m10_off false (map (fun p => (3 * Z.of_nat p)%Z) (seq 0 10))
  = Ok ([10], map (fun p => Some (3 * Z.of_nat p)%Z) (seq 0 10)).
Proof. vm_compute. repeat split. Qed.

(* origin exactly half a step: the one-point selection [1:2] has shape (1,),
   and [1:3][:] holds two points *)
Lemma wit_half_step :
  ids_res (getitem m10_half (KSel [sl 1 2])) = Ok [1] /\
  (m <- getitem m10_half (KSel [sl 1 2]) ;; acc_shape m) = Ok [1] /\
  ids_res (run m10_half [KSel [sl 1 3]; KSel [kfull]]) = Ok [1; 2].
Proof. vm_compute. repeat split. Qed.

(* get_map_data(1-D array) on a selection of exactly 3 points in a map of more
   than 3 points places the 3 values at their (row, col) *)
Definition mask_156 : list bool := map (fun p => (p =? 1) || (p =? 5) || (p =? 6)) (seq 0 12).
Lemma wit_array3 :
  (m <- getitem m34 (KMask mask_156) ;; get_map_data m true [10; 20; 30]%Z)
  = Ok ([2; 2], [Some 10; None; Some 20; Some 30]%Z) /\
  (m <- getitem m34 (KMask mask_156) ;; get_map_data m false [10; 20; 30]%Z)
  = Ok ([2; 2], [Some 10; None; Some 20; Some 30]%Z).
Proof. vm_compute. repeat split. Qed.

(* a map with a single point is 0-dimensional (shape ()): row = col = [0],
   get_map_data is the 0-d array of its value; like a 0-d NumPy array it takes
   no int/slice index (the reference rejects such a key as well), masks and
   phase names select as usual *)
Lemma wit_single_point :
  oshape m1 = [] /\ acc_id m1 = [0] /\ wfb m1 = true /\
  acc_shape m1 = Ok [] /\
  get_map_data m1 false [7%Z] = Ok ([], [Some 7%Z]) /\
  acc_row m1 = Ok [0] /\ acc_col m1 = Ok [0] /\
  ids_res (getitem m1 (KSel [KInt 0])) = Err IndexError /\
  ref_getitem (static m1) (acc_id m1) (KSel [KInt 0]) = Err IndexError /\
  ids_res (getitem m1 (KMask [true])) = Ok [0] /\
  ids_res (getitem m1 (KPhase ["indexed"%string])) = Ok [] /\
  ref_getitem (static m1) (acc_id m1) (KPhase ["indexed"%string]) = Ok [].
Proof. vm_compute. repeat split. Qed.
