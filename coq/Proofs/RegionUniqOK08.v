(* exact check of the uniqueness certificates (two Gordan certificates per pair of operations other than the identity
   pair) of the regions whose first group is number 08 of the proper groups *)
From Coq Require Import List Bool.
From Verif Require Import CertCheck CoverCheck ExistCheck UniqCheck RegionCerts08 RegionUniq08.
Lemma region_uniq_ok_08 : all2b rc_uniq_ok region_certs_08 region_uniq_08 = true.
Proof. vm_compute. reflexivity. Qed.
