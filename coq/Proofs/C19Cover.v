(* C19 -- covering of the uv mesh (a product grid): every direction has a mesh
   point within chord  sqrt((hA^2 + hT^2) / 4)  <=  r / sqrt 2. *)
From Coq Require Import Reals ZArith List Bool Lia Lra.
From Verif Require Import Scalar RInst Quat QuatAlg ConvEuler C19Model C19Unit C19Reduced.
From Verif.Gen Require Import C20Stereo.
Import ListNotations.
Local Open Scope R_scope.

(* ------------------------------------------------------------ analysis *)
Lemma sin_sq_le_pos y : 0 <= y -> sin y * sin y <= y * y.
Proof.
  intros [Hy|<-]; [|rewrite sin_0; lra].
  destruct (Rle_dec 1 y) as [H1|H1].
  - pose proof (SIN_bound y) as [A B]. nra.
  - assert (Hpi : y <= PI) by (pose proof PI2_1; lra).
    pose proof (sin_ge_0 y (Rlt_le _ _ Hy) Hpi). pose proof (sin_lt_x y Hy). nra.
Qed.

Lemma sin_sq_le y : sin y * sin y <= y * y.
Proof.
  destruct (Rle_dec 0 y) as [H|H]; [apply sin_sq_le_pos; exact H|].
  pose proof (sin_sq_le_pos (- y)) as H'. rewrite sin_neg in H'.
  replace (- sin y * - sin y) with (sin y * sin y) in H' by ring.
  replace (- y * - y) with (y * y) in H' by ring. apply H'. lra.
Qed.

Lemma one_minus_cos_le x : 1 - cos x <= x * x / 2.
Proof.
  replace x with (2 * (x / 2)) at 1 by field. rewrite cos_2a_sin.
  pose proof (sin_sq_le (x / 2)) as H.
  replace (x * x / 2) with (2 * (x / 2 * (x / 2))) by field. lra.
Qed.

Lemma one_minus_cos_nonneg x : 0 <= 1 - cos x.
Proof. pose proof (COS_bound x). lra. Qed.

Lemma abs_sq_le x h : Rabs x <= h -> x * x <= h * h.
Proof. unfold Rabs. destruct (Rcase_abs x); intros; nra. Qed.

(* nearest point of an equispaced 1-D grid *)
Lemma nearest_grid h n x : 0 < h -> 0 <= x <= INR n * h ->
  exists k, (k <= n)%nat /\ Rabs (x - INR k * h) <= h / 2.
Proof.
  intros Hh. induction n as [|n IH]; intros [H0 H1].
  - exists 0%nat. split; [lia|]. simpl INR in *. rewrite Rabs_right; lra.
  - rewrite S_INR in H1. destruct (Rle_dec x (INR n * h)) as [Hx|Hx].
    + destruct (IH (conj H0 Hx)) as [k [Hk Hd]]. exists k. split; [lia|exact Hd].
    + destruct (Rle_dec (x - INR n * h) (h / 2)) as [Hc|Hc].
      * exists n. split; [lia|]. rewrite Rabs_right; lra.
      * exists (S n). split; [lia|]. rewrite S_INR. rewrite Rabs_left1; lra.
Qed.

(* ------------------------------------------------------- the dot product *)
Lemma polar_dot a' t' a t :
  vdot ROps (from_polar1 ROps (a', t')) (from_polar1 ROps (a, t))
  = cos (t' - t) - sin t' * sin t * (1 - cos (a' - a)).
Proof.
  unfold from_polar1, from_polar, vdot, c1. cbv zeta. cbn [fst snd]. rsimpl.
  rewrite !cos_minus. ring.
Qed.

Lemma polar_dot_bound a' t' a t dA :
  0 <= t <= PI -> 0 <= t' <= PI -> cos (a' - a) = cos dA ->
  1 - vdot ROps (from_polar1 ROps (a', t')) (from_polar1 ROps (a, t))
  <= ((t' - t) * (t' - t) + dA * dA) / 2.
Proof.
  intros [T0 T1] [T0' T1'] Hc. rewrite polar_dot, Hc.
  pose proof (one_minus_cos_le (t' - t)). pose proof (one_minus_cos_le dA).
  pose proof (one_minus_cos_nonneg dA).
  pose proof (sin_ge_0 t T0 T1). pose proof (sin_ge_0 t' T0' T1').
  pose proof (SIN_bound t) as [_ ?]. pose proof (SIN_bound t') as [_ ?].
  assert (sin t' * sin t <= 1) by nra. assert (0 <= sin t' * sin t) by nra.
  assert (sin t' * sin t * (1 - cos dA) <= 1 - cos dA) by nra. lra.
Qed.

(* ------------------------------------------------- membership in the mesh *)
Lemma uv_az_in na i : (i < na)%nat -> In (INR i * (2 * PI / INR na)) (uv_azimuth ROps na).
Proof.
  intros Hi. unfold uv_azimuth, linspace. cbn [andb]. rewrite ofN_R. unfold c0, twopi, c2. rsimpl.
  replace (na =? 0)%nat with false by (symmetry; apply Nat.eqb_neq; lia).
  apply in_map_iff. exists i. split; [|apply in_seq; lia]. rewrite ofN_R. field.
  apply not_0_INR. lia.
Qed.

Lemma uv_polar_in np j : (2 <= np)%nat -> (j <= np - 1)%nat ->
  In (INR j * (PI / INR (np - 1))) (uv_polar ROps np).
Proof.
  intros Hn Hj. destruct np as [|m]; [lia|]. replace (S m - 1)%nat with m in * by lia.
  assert (Hm : 0 < INR m) by (apply lt_0_INR; lia).
  pose proof PI_RGT_0 as Hpi.
  assert (Hq : 0 <= INR j / INR m <= 1).
  { assert (0 <= INR j) by apply pos_INR. assert (INR j <= INR m) by (apply le_INR; lia).
    split; [apply Rmult_le_pos; [lra|left; apply Rinv_0_lt_compat; lra]|].
    apply Rmult_le_reg_r with (INR m); [lra|]. unfold Rdiv. rewrite Rmult_assoc, Rinv_l by lra. lra. }
  unfold uv_polar. apply filter_In. split.
  - unfold linspace. cbn [andb]. replace (1 <? S m)%nat with true by (symmetry; apply Nat.ltb_lt; lia).
    rewrite removelast_map_seq. replace (S m - 1)%nat with m by lia. rewrite ofN_R.
    replace (m =? 0)%nat with false by (symmetry; apply Nat.eqb_neq; lia).
    unfold deg2rad, c0. rsimpl.
    destruct (Nat.eq_dec j m) as [->|Hne].
    + apply in_or_app. right. left. field. lra.
    + apply in_or_app. left. apply in_map_iff. exists j. split; [|apply in_seq; lia].
      rewrite ofN_R. field. lra.
  - unfold deg2rad. rsimpl. apply Rleb_true.
    replace (INR j * (PI / INR m)) with (INR j / INR m * PI) by (field; lra).
    replace (180 * (PI / 180)) with PI by field. nra.
Qed.

Lemma polar_vectors_in azimuth polar a p :
  In a azimuth -> In p polar -> keep_pole ROps (a, p) = true ->
  In (from_polar1 ROps (a, p)) (polar_vectors ROps azimuth polar).
Proof.
  intros Ha Hp Hk. unfold polar_vectors. apply in_map_iff. exists (a, p). split.
  - apply vunit19_of_unit. apply from_polar1_unit.
  - apply filter_In. split; [|exact Hk]. unfold polar_mesh. apply in_flat_map. exists p. split; [exact Hp|].
    apply (in_map (fun a0 => (a0, p))). exact Ha.
Qed.

Lemma from_polar1_pole a p : sin p = 0 -> from_polar1 ROps (a, p) = from_polar1 ROps (0, p).
Proof.
  intros Hs. unfold from_polar1, from_polar, c1. cbv zeta. cbn [fst snd]. rsimpl. rewrite Hs.
  tuple_eq; ring.
Qed.

Lemma keep_pole_zero p : keep_pole ROps (0, p) = true.
Proof.
  unfold keep_pole, c0. rsimpl.
  assert (E : Rltb 0 0 = false) by (apply Rltb_false; lra). rewrite E, !andb_false_r. reflexivity.
Qed.

(* every node (i, j) of the product grid is a mesh vector, also after the
   removal of the pole duplicates, as long as no other row than the two pole rows
   falls into the np.isclose bands around 0 and pi *)
Lemma uv_mesh_has na np i j : (2 <= np)%nat -> (i < na)%nat -> (j <= np - 1)%nat ->
  1 / 100000000 + 1 / 100000 * PI < PI / INR (np - 1) ->
  In (from_polar1 ROps (INR i * (2 * PI / INR na), INR j * (PI / INR (np - 1)))) (uv_mesh ROps na np).
Proof.
  intros Hn Hi Hj Hband. unfold uv_mesh.
  set (a := INR i * (2 * PI / INR na)). set (hT := PI / INR (np - 1)) in *. set (p := INR j * hT).
  pose proof PI_RGT_0 as Hpi.
  assert (Hm : 0 < INR (np - 1)) by (apply lt_0_INR; lia).
  assert (HhT : INR (np - 1) * hT = PI) by (unfold hT; field; lra).
  assert (HhT0 : 0 < hT) by (unfold hT; apply Rdiv_lt_0_compat; lra).
  destruct (keep_pole ROps (a, p)) eqn:K.
  - apply polar_vectors_in; [apply uv_az_in; exact Hi | apply uv_polar_in; assumption | exact K].
  - assert (Hs : sin p = 0).
    { unfold keep_pole in K. apply negb_false_iff in K. apply orb_true_iff in K.
      unfold isclose, c0 in K. rsimpl.
      destruct K as [K|K]; apply andb_true_iff in K; destruct K as [K _]; apply Rleb_true in K.
      - (* p in the band around 0: j = 0 *)
        rewrite Rabs_R0, Rmult_0_r, Rplus_0_r, Rminus_0_r in K.
        destruct j as [|j']; [unfold p; simpl INR; rewrite Rmult_0_l; apply sin_0|exfalso].
        assert (1 <= INR (S j')) by (rewrite S_INR; pose proof (pos_INR j'); lra).
        unfold p in K. rewrite Rabs_right in K by nra. nra.
      - (* p in the band around pi: j = np - 1 *)
        rewrite (Rabs_right PI) in K by lra.
        destruct (Nat.eq_dec j (np - 1)) as [->|Hne].
        + unfold p. rewrite HhT. apply sin_PI.
        + exfalso. assert (Hj' : INR j + 1 <= INR (np - 1)).
          { rewrite <- S_INR. apply le_INR. lia. }
          assert (p <= PI - hT) by (unfold p; nra).
          rewrite Rabs_left in K by lra. lra. }
    rewrite (from_polar1_pole a p Hs).
    apply polar_vectors_in; [| apply uv_polar_in; assumption | apply keep_pole_zero].
    replace 0 with (INR 0 * (2 * PI / INR na)) by (simpl INR; ring). apply uv_az_in. lia.
Qed.

(* --------------------------------------------------------------- covering *)
Lemma uv_mesh_covers (na np : nat) (a t : R) :
  (1 <= na)%nat -> (2 <= np)%nat ->
  1 / 100000000 + 1 / 100000 * PI < PI / INR (np - 1) ->
  0 <= a <= 2 * PI -> 0 <= t <= PI ->
  exists g, In g (uv_mesh ROps na np) /\
    1 - vdot ROps g (from_polar1 ROps (a, t))
    <= ((2 * PI / INR na) * (2 * PI / INR na) + (PI / INR (np - 1)) * (PI / INR (np - 1))) / 8.
Proof.
  intros Hna Hnp Hband Ha Ht. pose proof PI_RGT_0 as Hpi.
  assert (HA : 0 < INR na) by (apply lt_0_INR; lia).
  assert (HM : 0 < INR (np - 1)) by (apply lt_0_INR; lia).
  set (hA := 2 * PI / INR na). set (hT := PI / INR (np - 1)) in *.
  assert (HhA : 0 < hA) by (unfold hA; apply Rdiv_lt_0_compat; lra).
  assert (HhT : 0 < hT) by (unfold hT; apply Rdiv_lt_0_compat; lra).
  assert (EA : INR na * hA = 2 * PI) by (unfold hA; field; lra).
  assert (ET : INR (np - 1) * hT = PI) by (unfold hT; field; lra).
  destruct (nearest_grid hT (np - 1) t HhT) as [j [Hj Hdj]]; [rewrite ET; exact Ht|].
  destruct (nearest_grid hA na a HhA) as [k [Hk Hdk]]; [rewrite EA; exact Ha|].
  (* wrap the azimuth index na to 0 *)
  set (i := if Nat.eq_dec k na then 0%nat else k).
  assert (Hi : (i < na)%nat) by (unfold i; destruct (Nat.eq_dec k na); lia).
  assert (Hc : cos (INR i * hA - a) = cos (a - INR k * hA)).
  { unfold i. destruct (Nat.eq_dec k na) as [->|_].
    - simpl INR. rewrite EA. replace (0 * hA - a) with (- a) by ring. rewrite cos_neg.
      replace (a - 2 * PI) with (a - 2 * PI * IZR 1) by ring.
      symmetry. apply (proj1 (cos_sin_period_Z a 1)).
    - replace (INR k * hA - a) with (- (a - INR k * hA)) by ring. apply cos_neg. }
  exists (from_polar1 ROps (INR i * hA, INR j * hT)). split.
  - apply uv_mesh_has; assumption.
  - assert (Hpj : 0 <= INR j * hT <= PI).
    { assert (0 <= INR j) by apply pos_INR. assert (INR j <= INR (np - 1)) by (apply le_INR; lia).
      split; nra. }
    eapply Rle_trans; [apply (polar_dot_bound _ _ a t (a - INR k * hA) Ht Hpj Hc)|].
    assert (D1 : (INR j * hT - t) * (INR j * hT - t) <= hT / 2 * (hT / 2)).
    { apply abs_sq_le. replace (INR j * hT - t) with (- (t - INR j * hT)) by ring. rewrite Rabs_Ropp. exact Hdj. }
    assert (D2 : (a - INR k * hA) * (a - INR k * hA) <= hA / 2 * (hA / 2)).
    { apply abs_sq_le. exact Hdk. }
    lra.
Qed.

(* ----------------------------------------------- Haar-Euler grid: the beta rows *)
(* nodes of np.linspace(a, b, m + 1, endpoint=True): a + k (b - a) / m, k = 0..m *)
Lemma linspace_closed_in a b m k : (1 <= m)%nat -> (k <= m)%nat ->
  In (a + INR k * ((b - a) / INR m)) (linspace ROps a b (S m) true).
Proof.
  intros Hm Hk. assert (HM : 0 < INR m) by (apply lt_0_INR; lia).
  unfold linspace. cbn [andb]. replace (1 <? S m)%nat with true by (symmetry; apply Nat.ltb_lt; lia).
  rewrite removelast_map_seq. replace (S m - 1)%nat with m by lia. rewrite ofN_R.
  replace (m =? 0)%nat with false by (symmetry; apply Nat.eqb_neq; lia). rsimpl.
  destruct (Nat.eq_dec k m) as [->|Hne].
  - apply in_or_app. right. left. field. lra.
  - apply in_or_app. left. apply in_map_iff. exists k. split; [|apply in_seq; lia].
    rewrite ofN_R. ring.
Qed.

(* cos(beta) runs over 1 - 2k/half, k = 0..half: both ends included *)
Lemma haar_beta_in n k : (2 <= n)%nat -> (k <= Nat.div2 n)%nat ->
  In (acos (1 - INR k * (2 / INR (Nat.div2 n)))) (haar_euler_beta ROps n).
Proof.
  intros Hn Hk. unfold haar_euler_beta.
  assert (Hh : (1 <= Nat.div2 n)%nat).
  { destruct n as [|[|n']]; [lia|lia|]. cbn [Nat.div2]. lia. }
  assert (HM : 0 < INR (Nat.div2 n)) by (apply lt_0_INR; lia).
  change (o_acos ROps) with acos. apply in_map_iff.
  exists (1 + INR k * ((-1 - 1) / INR (Nat.div2 n))). split; [f_equal; field; lra|].
  pose proof (linspace_closed_in 1 (-1) (Nat.div2 n) k Hh Hk) as H.
  unfold c1. change (o_ofZ ROps 1) with 1. change (o_ofZ ROps (-1)) with (-1). exact H.
Qed.

Lemma haar_beta_poles n : (2 <= n)%nat ->
  In 0 (haar_euler_beta ROps n) /\ In PI (haar_euler_beta ROps n).
Proof.
  intros Hn.
  assert (Hh : (1 <= Nat.div2 n)%nat).
  { destruct n as [|[|n']]; [lia|lia|]. cbn [Nat.div2]. lia. }
  assert (HM : 0 < INR (Nat.div2 n)) by (apply lt_0_INR; lia).
  split.
  - pose proof (haar_beta_in n 0 Hn (Nat.le_0_l _)) as H. simpl INR in H.
    replace (1 - 0 * (2 / INR (Nat.div2 n))) with 1 in H by ring. rewrite acos_1 in H. exact H.
  - pose proof (haar_beta_in n (Nat.div2 n) Hn (Nat.le_refl _)) as H.
    replace (1 - INR (Nat.div2 n) * (2 / INR (Nat.div2 n))) with (Ropp 1) in H by (field; lra).
    rewrite acos_opp, acos_1 in H. replace (PI - 0) with PI in H by ring. exact H.
Qed.

(* every (alpha, beta, gamma) node is a grid point *)
Lemma haar_grid_in n a b g :
  In a (linspace ROps (c0 ROps) (twopi ROps) n false) -> In b (haar_euler_beta ROps n) ->
  In g (linspace ROps (c0 ROps) (twopi ROps) n false) ->
  In (eu2qu ROps (a, b, g)) (haar_euler_grid ROps n).
Proof.
  intros Ha Hb Hg. unfold haar_euler_grid, haar_euler_angles. apply in_map.
  apply in_flat_map. exists g. split; [exact Hg|].
  apply in_flat_map. exists a. split; [exact Ha|].
  apply (in_map (fun b0 => (a, b0, g))). exact Hb.
Qed.

(* the rows Phi = 0 AND Phi = pi belong to the grid (before the repair of
   _euler_angles_haar_measure the last row was arccos(-1 + 2/half)) *)
Lemma haar_euler_reaches_poles n a g : (2 <= n)%nat ->
  In a (linspace ROps (c0 ROps) (twopi ROps) n false) ->
  In g (linspace ROps (c0 ROps) (twopi ROps) n false) ->
  In (eu2qu ROps (a, 0, g)) (haar_euler_grid ROps n) /\
  In (eu2qu ROps (a, PI, g)) (haar_euler_grid ROps n).
Proof.
  intros Hn Ha Hg. destruct (haar_beta_poles n Hn) as [H0 H1].
  split; apply haar_grid_in; assumption.
Qed.

(* no hole in Phi: for every Phi in [0, pi] a row beta of the grid has
   |cos beta - cos Phi| <= 1 / half, half of the spacing 2 / half of the cosines,
   uniformly up to both poles *)
Lemma haar_euler_beta_covers n Phi : (2 <= n)%nat -> 0 <= Phi <= PI ->
  exists b, In b (haar_euler_beta ROps n) /\ 0 <= b <= PI /\
            Rabs (cos b - cos Phi) <= 1 / INR (Nat.div2 n).
Proof.
  intros Hn HP.
  assert (Hh : (1 <= Nat.div2 n)%nat).
  { destruct n as [|[|n']]; [lia|lia|]. cbn [Nat.div2]. lia. }
  set (m := Nat.div2 n) in *.
  assert (HM : 0 < INR m) by (apply lt_0_INR; lia).
  set (h := 2 / INR m). assert (Hh0 : 0 < h) by (unfold h; apply Rdiv_lt_0_compat; lra).
  assert (Em : INR m * h = 2) by (unfold h; field; lra).
  pose proof (COS_bound Phi) as [C0 C1].
  destruct (nearest_grid h m (1 - cos Phi) Hh0) as [k [Hk Hd]]; [rewrite Em; lra|].
  exists (acos (1 - INR k * h)). split; [apply haar_beta_in; assumption|].
  assert (Hr : -1 <= 1 - INR k * h <= 1).
  { assert (0 <= INR k) by apply pos_INR. assert (INR k <= INR m) by (apply le_INR; exact Hk). split; nra. }
  split; [apply acos_bound|].
  rewrite cos_acos by exact Hr.
  replace (1 - INR k * h - cos Phi) with (1 - cos Phi - INR k * h) by ring.
  replace (1 / INR m) with (h / 2) by (unfold h; field; lra). exact Hd.
Qed.

(* ------------------------------ three-uniform-samples grid ("quaternion" method): u_1 *)
(* every (u_1, u_2, u_3) node is a grid point *)
Lemma three_uniform_in n u1 u2 u3 :
  In u1 (linspace ROps (c0 ROps) (c1 ROps) n true) ->
  In u2 (linspace ROps (c0 ROps) (c1 ROps) n false) ->
  In u3 (linspace ROps (c0 ROps) (c1 ROps) n false) ->
  In (three_uniform_point ROps u1 u2 u3) (three_uniform_grid ROps n).
Proof.
  intros H1 H2 H3. unfold three_uniform_grid, three_uniform_mesh.
  apply in_flat_map. exists u2. split; [exact H2|].
  apply in_flat_map. exists u1. split; [exact H1|].
  apply (in_map (fun u => three_uniform_point ROps u1 u2 u)). exact H3.
Qed.

(* u_1 = linspace(0, 1, n, endpoint=True): the nodes k / (n - 1), k = 0 .. n - 1 *)
Lemma three_uniform_u1_node n k : (2 <= n)%nat -> (k <= n - 1)%nat ->
  In (INR k * (1 / INR (n - 1))) (linspace ROps (c0 ROps) (c1 ROps) n true).
Proof.
  intros Hn Hk.
  pose proof (linspace_closed_in 0 1 (n - 1) k ltac:(lia) Hk) as H.
  replace (S (n - 1)) with n in H by lia.
  replace (0 + INR k * ((1 - 0) / INR (n - 1))) with (INR k * (1 / INR (n - 1))) in H
    by (unfold Rdiv; ring).
  unfold c0, c1. change (o_ofZ ROps 0) with 0. change (o_ofZ ROps 1) with 1. exact H.
Qed.

(* both sheets u_1 = 0 (rotations about e1) and u_1 = 1 (rotations by pi about axes in the
   e2-e3 plane) belong to the grid for every (u_2, u_3) node: endpoint=True for u_1 *)
Lemma three_uniform_reaches_sheets n u2 u3 : (2 <= n)%nat ->
  In u2 (linspace ROps (c0 ROps) (c1 ROps) n false) ->
  In u3 (linspace ROps (c0 ROps) (c1 ROps) n false) ->
  In (three_uniform_point ROps 0 u2 u3) (three_uniform_grid ROps n) /\
  In (three_uniform_point ROps 1 u2 u3) (three_uniform_grid ROps n).
Proof.
  intros Hn H2 H3.
  assert (HM : 0 < INR (n - 1)) by (apply lt_0_INR; lia).
  split; apply three_uniform_in; try assumption.
  - pose proof (three_uniform_u1_node n 0 Hn ltac:(lia)) as H. simpl INR in H.
    replace (0 * (1 / INR (n - 1))) with 0 in H by ring. exact H.
  - pose proof (three_uniform_u1_node n (n - 1) Hn ltac:(lia)) as H.
    replace (INR (n - 1) * (1 / INR (n - 1))) with 1 in H by (field; lra). exact H.
Qed.

(* no hole in u_1: every u in [0, 1] is within half a step 1 / (2 (n - 1)) of a node,
   uniformly up to both ends *)
Lemma three_uniform_u1_covers n u : (2 <= n)%nat -> 0 <= u <= 1 ->
  exists u1, In u1 (linspace ROps (c0 ROps) (c1 ROps) n true) /\ 0 <= u1 <= 1 /\
             Rabs (u - u1) <= 1 / (2 * INR (n - 1)).
Proof.
  intros Hn Hu.
  assert (HM : 0 < INR (n - 1)) by (apply lt_0_INR; lia).
  set (h := 1 / INR (n - 1)). assert (Hh0 : 0 < h) by (unfold h; apply Rdiv_lt_0_compat; lra).
  assert (Em : INR (n - 1) * h = 1) by (unfold h; field; lra).
  destruct (nearest_grid h (n - 1) u Hh0) as [k [Hk Hd]]; [rewrite Em; lra|].
  exists (INR k * h). split; [apply three_uniform_u1_node; assumption|]. split.
  - assert (0 <= INR k) by apply pos_INR. assert (INR k <= INR (n - 1)) by (apply le_INR; exact Hk).
    split; nra.
  - replace (1 / (2 * INR (n - 1))) with (h / 2) by (unfold h; field; lra). exact Hd.
Qed.
