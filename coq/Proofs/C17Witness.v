(* C17 -- concrete witnesses (computed by vm_compute on the FAITHFUL generic
   model instantiated at exact integer rows: rounding = identity, key = the
   row, zero test = all components 0) for the clauses the model refutes.
   Each witness is replayed on the implementation by tools/props/C17.py. *)
From Coq Require Import ZArith List Bool Lia Sorted.
From Verif Require Import C17Unique C17UniqueSpec.
Import ListNotations.
Local Open Scope Z_scope.

Definition zcmp : list Z -> list Z -> comparison := lexcmp Z.compare.
Definition zzero (r : list Z) : bool := forallb (Z.eqb 0) r.
Definition zbase (flat : list (list Z)) := obj_unique zcmp (fun r => r) zzero (fun r => r) [] flat.

Lemma Zcompare_order : cmp_order Z.compare.
Proof.
  constructor.
  - apply Z.compare_refl.
  - intros x y. apply Z.compare_antisym.
  - intros x y z. rewrite !Z.compare_lt_iff. lia.
  - intros x y z H. apply Z.compare_eq in H. subst. auto.
Qed.
Lemma zcmp_order : cmp_order zcmp.
Proof. apply lexcmp_order, Zcompare_order. Qed.

(* ---- base class: index array *)
(* [[3,0,0],[1,0,0],[3,0,0],[2,0,0]]: returned [3..],[1..],[2..] but idx = [1,3,0] *)
Lemma base_index_refuted_order :
  exists flat : list (list Z),
    let '(out, idx, inv) := zbase flat in
    filter (fun e => negb (zzero e)) flat = flat /\
    exists k, (k < length out)%nat /\ nth (nth k idx 0%nat) flat [] <> nth k out [].
Proof.
  exists [[3;0;0];[1;0;0];[3;0;0];[2;0;0]]. vm_compute. split; auto.
  exists 0%nat. split; [lia|discriminate].
Qed.

(* the former witnesses of the repaired clauses, now regression examples:
   [[0,0,0],[5,0,0]]: idx = [1] is the position in the flattened input;
   [[3,0,0],[1,0,0],[3,0,0],[2,0,0]]: inv = [0,1,0,2] indexes the returned
   entries [3..],[1..],[2..] *)
Lemma zbase_zero_example : zbase [[0;0;0];[5;0;0]] = ([[5;0;0]], [1%nat], [0%nat]).
Proof. vm_compute. reflexivity. Qed.
Lemma zbase_order_example :
  zbase [[3;0;0];[1;0;0];[3;0;0];[2;0;0]]
  = ([[3;0;0];[1;0;0];[2;0;0]], [1;3;0]%nat, [0;1;0;2]%nat).
Proof. vm_compute. reflexivity. Qed.

(* ---- base class: inverse array -- zero rows have no entry in inv, so it
   cannot reconstruct the flattened input when a row is dropped *)
Lemma base_inverse_refuted_zero :
  exists flat : list (list Z),
    let '(out, idx, inv) := zbase flat in length inv <> length flat.
Proof. exists [[0;0;0];[5;0;0]]. vm_compute. discriminate. Qed.

(* ---- Miller.unique(use_symmetry=True): a two-element "point group" {1, -1}
   acting on integer vectors; canonical orbit key = the sorted orbit *)
Definition zact (neg : bool) (r : list Z) : list Z := if neg then map Z.opp r else r.
Definition zleb (r s : list Z) : bool := match zcmp r s with Gt => false | _ => true end.
Definition zokey (r : list Z) : list Z := concat (isort zleb (map (fun g => zact g r) [false; true])).
Definition zmiller (sym : bool) (flat : list (list Z)) :=
  miller_unique zcmp zcmp (fun r => r) zzero (fun r => r) [] zokey sym flat.

(* [[1,0,0],[0,1,0],[-1,0,0],[0,0,1]] *)
Lemma miller_order_refuted :
  exists flat : list (list Z),
    fst (zmiller true flat) <> nubk zcmp zokey flat.
Proof. exists [[1;0;0];[0;1;0];[-1;0;0];[0;0;1]]. vm_compute. discriminate. Qed.

(* former witness of the repaired index clause: idx = [3,1,0] are the
   positions of the returned [001],[010],[100] in the flattened input *)
Lemma zmiller_index_example :
  zmiller true [[1;0;0];[0;1;0];[-1;0;0];[0;0;1]]
  = ([[0;0;1];[0;1;0];[1;0;0]], [3;1;0]%nat).
Proof. vm_compute. reflexivity. Qed.

(* ---- Rotation.unique returns as many values as the flags ask for, empty
   input included *)
Lemma rot_arity {E} (flat : list E) ri rv : rot_unique_arity flat ri rv = obj_unique_arity ri rv.
Proof. destruct flat, ri, rv; reflexivity. Qed.

Lemma rot_unique_nil {E K} (cmp : K -> K -> comparison) (key : E -> K) (d : E) :
  rot_unique cmp key d [] = ([], [], []).
Proof. reflexivity. Qed.

(* ---- non-vacuity helpers *)
Lemma zbase_outside_example :
  let flat := [[0;0;0];[1;0;0];[2;0;0];[1;0;0];[0;0;0];[3;0;0]] in
  obj_data (fun r => r) zzero flat <> map (fun r => r) flat /\
  StronglySorted le (snd (fst (zbase flat))).
Proof. vm_compute. split; [discriminate|]. repeat constructor. Qed.
