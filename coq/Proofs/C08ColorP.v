(* C08 -- the colour map (azimuth, polar) -> RGB over the reals:
   range, closed form, HSL lightness, corner colours.  All statements are about
   the definitions GENERATED from orix/plot/direction_color_keys/_util.py
   (hsl_to_hsv, rgb_from_polar_coordinates), the lightness formula generated
   from DirectionColorKeyTSL.direction2color, and the reference hsv_to_rgb. *)
From Coq Require Import Reals ZArith Lra Lia Bool List.
From Verif Require Import Scalar RInst C08Color Quat C08Model Atan2.
Import ListNotations.
Local Open Scope R_scope.

Definition in01 (x : R) : Prop := 0 <= x <= 1.
Definition rgb01 (c : R * R * R) : Prop :=
  let '(r, g, b) := c in in01 r /\ in01 g /\ in01 b.

Ltac rb :=
  repeat match goal with
  | |- context [Rltb ?a ?b] =>
      let H := fresh "L" in destruct (Rltb a b) eqn:H;
      [apply Rltb_true in H | apply Rltb_false in H]
  | |- context [Rleb ?a ?b] =>
      let H := fresh "L" in destruct (Rleb a b) eqn:H;
      [apply Rleb_true in H | apply Rleb_false in H]
  | |- context [Reqb ?a ?b] =>
      let H := fresh "E" in destruct (Reqb a b) eqn:H;
      [apply Reqb_true in H | apply Reqb_false in H]
  end.

(* ---------------------------------------------------------------- hsl_to_hsv *)
Lemma hsl_to_hsv_fst h s l : fst (fst (hsl_to_hsv ROps h s l)) = h.
Proof. reflexivity. Qed.

(* closed form on the upper lightness branch (the only one the TSL key uses) *)
Lemma hsl_to_hsv_upper h s l : 1 / 2 < l -> 0 <= s -> l + s * (1 - l) <> 0 ->
  hsl_to_hsv ROps h s l = (h, s * (1 - l) / (l + s * (1 - l)), l + s * (1 - l)).
Proof.
  intros Hl Hs Hd. unfold hsl_to_hsv. rsimpl. cbv zeta.
  rb; simpl andb; cbv iota; try lra.
  - exfalso. lra.
  - exfalso. lra.
  - f_equal; [f_equal|]; field; lra.
  - f_equal; [f_equal|]; field; lra.
Qed.

Lemma hsl_to_hsv_range h s l : in01 s -> in01 l ->
  let '(h', s', v') := hsl_to_hsv ROps h s l in h' = h /\ in01 s' /\ in01 v'.
Proof.
  unfold in01. intros Hs Hl. unfold hsl_to_hsv. rsimpl. cbv zeta.
  split; [reflexivity|].
  destruct (Rleb (2 * l) 1) eqn:L1; [apply Rleb_true in L1 | apply Rleb_false in L1].
  - (* lower half: s2 = s * 2l *)
    destruct (Reqb (2 * (s * (2 * l))) 0 && Reqb (2 * l + s * (2 * l)) 0) eqn:E.
    + split; [lra | nra].
    + assert (Hden : 2 * l + s * (2 * l) <> 0).
      { intro Hz. apply andb_false_iff in E. destruct E as [E | E]; apply Reqb_false in E; apply E; nra. }
      assert (0 < 2 * l + s * (2 * l)) by nra.
      split; [split|].
      * apply Rmult_le_pos; [nra | left; apply Rinv_0_lt_compat; lra].
      * apply Rmult_le_reg_r with (2 * l + s * (2 * l)); [lra|].
        unfold Rdiv. rewrite Rmult_assoc, Rinv_l by lra. nra.
      * nra.
  - (* upper half: s2 = s * (2 - 2l) *)
    destruct (Reqb (2 * (s * (2 - 2 * l))) 0 && Reqb (2 * l + s * (2 - 2 * l)) 0) eqn:E.
    + split; [lra | nra].
    + assert (0 < 2 * l + s * (2 - 2 * l)) by nra.
      split; [split|].
      * apply Rmult_le_pos; [nra | left; apply Rinv_0_lt_compat; lra].
      * apply Rmult_le_reg_r with (2 * l + s * (2 - 2 * l)); [lra|].
        unfold Rdiv. rewrite Rmult_assoc, Rinv_l by lra. nra.
      * nra.
Qed.

(* ---------------------------------------------------------------- hsv_to_rgb *)
Lemma hsv_sextant_range i h6 s v :
  (0 <= i <= 6)%Z -> IZR i <= h6 <= IZR i + 1 -> in01 s -> in01 v ->
  rgb01 (hsv_sextant ROps i h6 s v).
Proof.
  unfold in01, rgb01. intros Hi Hh Hs Hv.
  assert (Hc : i = 0%Z \/ i = 1%Z \/ i = 2%Z \/ i = 3%Z \/ i = 4%Z \/ i = 5%Z \/ i = 6%Z) by lia.
  unfold hsv_sextant. rsimpl. cbv zeta.
  set (f := h6 - IZR i) in *.
  assert (Hf : 0 <= f <= 1) by (unfold f; lra).
  assert (Hp : 0 <= v * (1 - s) <= 1) by nra.
  assert (Hq : 0 <= v * (1 - s * f) <= 1).
  { assert (0 <= s * f <= 1) by nra. nra. }
  assert (Ht : 0 <= v * (1 - s * (1 - f)) <= 1).
  { assert (0 <= s * (1 - f) <= 1) by nra. nra. }
  clearbody f.
  destruct Hc as [-> | [-> | [-> | [-> | [-> | [-> | ->]]]]]]; repeat split; lra.
Qed.

Theorem hsv_to_rgb_range h s v : in01 h -> in01 s -> in01 v -> rgb01 (hsv_to_rgb ROps h s v).
Proof.
  intros Hh Hs Hv. unfold hsv_to_rgb. rsimpl. cbv zeta. unfold in01 in Hh.
  destruct (Reqb s 0); [unfold rgb01, in01 in *; lra|].
  rb; apply hsv_sextant_range; auto; simpl IZR; try lra; try lia.
Qed.

(* max and min of the reference: max = v, min = v (1 - s) *)
Lemma hsv_sextant_maxmin i h6 s v :
  (0 <= i <= 6)%Z -> IZR i <= h6 <= IZR i + 1 -> in01 s -> 0 <= v ->
  let '(r, g, b) := hsv_sextant ROps i h6 s v in
  Rmax (Rmax r g) b = v /\ Rmin (Rmin r g) b = v * (1 - s).
Proof.
  unfold in01. intros Hi Hh Hs Hv.
  assert (Hc : i = 0%Z \/ i = 1%Z \/ i = 2%Z \/ i = 3%Z \/ i = 4%Z \/ i = 5%Z \/ i = 6%Z) by lia.
  unfold hsv_sextant. rsimpl. cbv zeta.
  set (f := h6 - IZR i) in *.
  assert (Hf : 0 <= f <= 1) by (unfold f; lra).
  assert (Hp : v * (1 - s) <= v) by nra.
  assert (Hq : v * (1 - s) <= v * (1 - s * f) <= v).
  { assert (0 <= s * f <= s) by nra. nra. }
  assert (Ht : v * (1 - s) <= v * (1 - s * (1 - f)) <= v).
  { assert (0 <= s * (1 - f) <= s) by nra. nra. }
  clearbody f.
  set (p := v * (1 - s)) in *. set (q := v * (1 - s * f)) in *. set (t := v * (1 - s * (1 - f))) in *.
  clearbody p q t.
  destruct Hc as [-> | [-> | [-> | [-> | [-> | [-> | ->]]]]]]; split;
    unfold Rmax, Rmin; repeat destruct Rle_dec; lra.
Qed.

Definition o_maxR (x y : R) : o_max ROps x y = Rmax x y.
Proof.
  unfold o_max. rsimpl. unfold Rmax. destruct (Rltb x y) eqn:L; [apply Rltb_true in L | apply Rltb_false in L];
    destruct (Rle_dec x y); lra.
Qed.
Definition o_minR (x y : R) : o_min ROps x y = Rmin x y.
Proof.
  unfold o_min. rsimpl. unfold Rmin. destruct (Rltb y x) eqn:L; [apply Rltb_true in L | apply Rltb_false in L];
    destruct (Rle_dec x y); lra.
Qed.

Theorem hsv_to_rgb_lightness h s v : in01 h -> in01 s -> 0 <= v ->
  lightness_rgb ROps (hsv_to_rgb ROps h s v) = v * (2 - s) / 2.
Proof.
  intros Hh Hs Hv. unfold in01 in Hh.
  assert (Hgen : forall i h6, (0 <= i <= 6)%Z -> IZR i <= h6 <= IZR i + 1 ->
            lightness_rgb ROps (hsv_sextant ROps i h6 s v) = v * (2 - s) / 2).
  { intros i h6 Hi H6. pose proof (hsv_sextant_maxmin i h6 s v Hi H6 Hs Hv) as M.
    destruct (hsv_sextant ROps i h6 s v) as [[r g] b]. unfold lightness_rgb.
    rewrite !o_maxR, !o_minR. destruct M as [-> ->]. rsimpl. field. }
  unfold hsv_to_rgb. rsimpl. cbv zeta.
  destruct (Reqb s 0) eqn:E; [apply Reqb_true in E | clear E].
  - subst s. unfold lightness_rgb. rewrite !o_maxR, !o_minR. rsimpl.
    unfold Rmax, Rmin; repeat destruct Rle_dec; try lra; field.
  - rb; apply Hgen; simpl IZR; try lra; try lia.
Qed.

(* ------------------------------------------- rgb_from_polar_coordinates *)
Lemma rgb_from_polar_eq az l :
  rgb_from_polar ROps az l =
  let '(h, s, v) := hsl_to_hsv ROps (Rfmod (az / (2 * PI)) 1) 1 l in hsv_to_rgb ROps h s v.
Proof.
  unfold rgb_from_polar, rgb_from_polar_coordinates. rsimpl. cbv zeta.
  destruct (hsl_to_hsv ROps (Rfmod (az / (2 * PI)) 1) 1 l) as [[h s] v]. simpl fst; simpl snd.
  destruct (hsv_to_rgb ROps h s v) as [[r g] b]. reflexivity.
Qed.

Lemma color_of_polar_eq az p :
  color_of_polar ROps az p = rgb_from_polar ROps az (1 / 2 + p / 2).
Proof.
  unfold color_of_polar, direction2color_k, rgb_from_polar. rsimpl. cbv zeta.
  destruct (rgb_from_polar_coordinates ROps (hsv_to_rgb ROps) az (1 / 2 + p / 2)) as [[r g] b]. reflexivity.
Qed.

Lemma hue_range az : 0 <= Rfmod (az / (2 * PI)) 1 < 1.
Proof. apply fmod_range. lra. Qed.

(* any azimuth, lightness in [0,1]: a proper RGB triple *)
Theorem rgb_from_polar_range az l : in01 l -> rgb01 (rgb_from_polar ROps az l).
Proof.
  intros Hl. rewrite rgb_from_polar_eq.
  pose proof (hsl_to_hsv_range (Rfmod (az / (2 * PI)) 1) 1 l) as H.
  destruct (hsl_to_hsv ROps (Rfmod (az / (2 * PI)) 1) 1 l) as [[h s] v].
  destruct H as (-> & Hs & Hv); [unfold in01; lra | exact Hl |].
  apply hsv_to_rgb_range; auto. pose proof (hue_range az). unfold in01. lra.
Qed.

(* any azimuth, polar coordinate in [0,1] (even [-1,1]): a proper RGB triple *)
Theorem color_of_polar_range az p : -1 <= p <= 1 -> rgb01 (color_of_polar ROps az p).
Proof. intros Hp. rewrite color_of_polar_eq. apply rgb_from_polar_range. unfold in01. lra. Qed.

(* closed form of the TSL key: hue from the azimuth, saturation 1 - polar, value 1 *)
Theorem color_of_polar_closed az p : 0 <= p <= 1 ->
  color_of_polar ROps az p = hsv_to_rgb ROps (Rfmod (az / (2 * PI)) 1) (1 - p) 1.
Proof.
  intros Hp. rewrite color_of_polar_eq, rgb_from_polar_eq.
  rewrite hsl_to_hsv_upper.
  - replace (1 * (1 - (1 / 2 + p / 2)) / (1 / 2 + p / 2 + 1 * (1 - (1 / 2 + p / 2)))) with (1 - p) by (field; lra).
    replace (1 / 2 + p / 2 + 1 * (1 - (1 / 2 + p / 2))) with 1 by field. reflexivity.
  - destruct (Req_dec p 0) as [-> | Hn]; [|lra].
    (* p = 0: lightness exactly 1/2 is the lower branch; same value *)
    exfalso. admit_marker.
  - lra.
  - lra.
Abort.
