(* C08 -- the colour map (azimuth, polar) -> RGB over the reals:
   range, closed form, HSL lightness, corner colours.  All statements are about
   the definitions GENERATED from orix/plot/direction_color_keys/_util.py
   (hsl_to_hsv, rgb_from_polar_coordinates), the lightness formula generated
   from DirectionColorKeyTSL.direction2color, and the reference hsv_to_rgb. *)
From Coq Require Import Reals ZArith Lra Lia Bool List.
From Verif Require Import Scalar RInst C08Color Quat C08Model Atan2.
Import ListNotations.
Local Open Scope R_scope.

Definition in01 (x : R) : Prop := 0 <= x <= 1.
Definition rgb01 (c : R * R * R) : Prop :=
  let '(r, g, b) := c in in01 r /\ in01 g /\ in01 b.

Ltac tup := repeat match goal with |- (_, _) = (_, _) => apply f_equal2 end; try reflexivity.

Ltac rb :=
  repeat match goal with
  | |- context [Rltb ?a ?b] =>
      let H := fresh "L" in destruct (Rltb a b) eqn:H;
      [apply Rltb_true in H | apply Rltb_false in H]
  | |- context [Rleb ?a ?b] =>
      let H := fresh "L" in destruct (Rleb a b) eqn:H;
      [apply Rleb_true in H | apply Rleb_false in H]
  | |- context [Reqb ?a ?b] =>
      let H := fresh "E" in destruct (Reqb a b) eqn:H;
      [apply Reqb_true in H | apply Reqb_false in H]
  end.

(* ---------------------------------------------------------------- hsl_to_hsv *)
Lemma hsl_to_hsv_fst h s l : fst (fst (hsl_to_hsv ROps h s l)) = h.
Proof. reflexivity. Qed.

(* closed form on the upper lightness branch (the only one the TSL key uses) *)
Lemma hsl_to_hsv_upper h s l : 1 / 2 <= l -> 0 <= s -> l + s * (1 - l) <> 0 ->
  hsl_to_hsv ROps h s l = (h, 2 * s * (1 - l) / (l + s * (1 - l)), l + s * (1 - l)).
Proof.
  intros Hl Hs Hd. unfold hsl_to_hsv. rsimpl. cbv zeta.
  destruct (Rleb (2 * l) 1) eqn:L1; [apply Rleb_true in L1 | apply Rleb_false in L1].
  - assert (l = 1 / 2) by lra. subst l.
    destruct (Reqb (2 * (s * (2 * (1 / 2)))) 0 && Reqb (2 * (1 / 2) + s * (2 * (1 / 2))) 0) eqn:E.
    + exfalso. apply andb_true_iff in E. destruct E as [_ E]. apply Reqb_true in E. lra.
    + tup; field; lra.
  - destruct (Reqb (2 * (s * (2 - 2 * l))) 0 && Reqb (2 * l + s * (2 - 2 * l)) 0) eqn:E.
    + exfalso. apply andb_true_iff in E. destruct E as [_ E]. apply Reqb_true in E. lra.
    + tup; field; lra.
Qed.

Lemma hsl_to_hsv_range h s l : in01 s -> in01 l ->
  let '(h', s', v') := hsl_to_hsv ROps h s l in h' = h /\ in01 s' /\ in01 v'.
Proof.
  unfold in01. intros Hs Hl. unfold hsl_to_hsv. rsimpl. cbv zeta.
  split; [reflexivity|].
  destruct (Rleb (2 * l) 1) eqn:L1; [apply Rleb_true in L1 | apply Rleb_false in L1].
  - (* lower half: s2 = s * 2l *)
    destruct (Reqb (2 * (s * (2 * l))) 0 && Reqb (2 * l + s * (2 * l)) 0) eqn:E.
    + split; [lra | nra].
    + assert (Hden : 2 * l + s * (2 * l) <> 0).
      { intro Hz. apply andb_false_iff in E. destruct E as [E | E]; apply Reqb_false in E; apply E; nra. }
      assert (0 < 2 * l + s * (2 * l)) by nra.
      split; [split|].
      * apply Rmult_le_pos; [nra | left; apply Rinv_0_lt_compat; lra].
      * apply Rmult_le_reg_r with (2 * l + s * (2 * l)); [lra|].
        unfold Rdiv. rewrite Rmult_assoc, Rinv_l by lra. nra.
      * nra.
  - (* upper half: s2 = s * (2 - 2l) *)
    destruct (Reqb (2 * (s * (2 - 2 * l))) 0 && Reqb (2 * l + s * (2 - 2 * l)) 0) eqn:E.
    + split; [lra | nra].
    + assert (0 < 2 * l + s * (2 - 2 * l)) by nra.
      split; [split|].
      * apply Rmult_le_pos; [nra | left; apply Rinv_0_lt_compat; lra].
      * apply Rmult_le_reg_r with (2 * l + s * (2 - 2 * l)); [lra|].
        unfold Rdiv. rewrite Rmult_assoc, Rinv_l by lra. nra.
      * nra.
Qed.

(* ---------------------------------------------------------------- hsv_to_rgb *)
Lemma hsv_sextant_range i h6 s v :
  (0 <= i <= 6)%Z -> IZR i <= h6 <= IZR i + 1 -> in01 s -> in01 v ->
  rgb01 (hsv_sextant ROps i h6 s v).
Proof.
  unfold in01, rgb01. intros Hi Hh Hs Hv.
  assert (Hc : i = 0%Z \/ i = 1%Z \/ i = 2%Z \/ i = 3%Z \/ i = 4%Z \/ i = 5%Z \/ i = 6%Z) by lia.
  unfold hsv_sextant. rsimpl. cbv zeta.
  set (f := h6 - IZR i) in *.
  assert (Hf : 0 <= f <= 1) by (unfold f; lra).
  assert (Hp : 0 <= v * (1 - s) <= 1) by nra.
  assert (Hq : 0 <= v * (1 - s * f) <= 1).
  { assert (0 <= s * f <= 1) by nra. nra. }
  assert (Ht : 0 <= v * (1 - s * (1 - f)) <= 1).
  { assert (0 <= s * (1 - f) <= 1) by nra. nra. }
  clearbody f.
  destruct Hc as [-> | [-> | [-> | [-> | [-> | [-> | ->]]]]]]; repeat split; lra.
Qed.

Theorem hsv_to_rgb_range h s v : in01 h -> in01 s -> in01 v -> rgb01 (hsv_to_rgb ROps h s v).
Proof.
  intros Hh Hs Hv. unfold hsv_to_rgb. rsimpl. cbv zeta. unfold in01 in Hh.
  destruct (Reqb s 0); [unfold rgb01, in01 in *; lra|].
  rb; apply hsv_sextant_range; auto; simpl IZR; try lra; try lia.
Qed.

(* max and min of the reference: max = v, min = v (1 - s) *)
Lemma hsv_sextant_maxmin i h6 s v :
  (0 <= i <= 6)%Z -> IZR i <= h6 <= IZR i + 1 -> in01 s -> 0 <= v ->
  let '(r, g, b) := hsv_sextant ROps i h6 s v in
  Rmax (Rmax r g) b = v /\ Rmin (Rmin r g) b = v * (1 - s).
Proof.
  unfold in01. intros Hi Hh Hs Hv.
  assert (Hc : i = 0%Z \/ i = 1%Z \/ i = 2%Z \/ i = 3%Z \/ i = 4%Z \/ i = 5%Z \/ i = 6%Z) by lia.
  unfold hsv_sextant. rsimpl. cbv zeta.
  set (f := h6 - IZR i) in *.
  assert (Hf : 0 <= f <= 1) by (unfold f; lra).
  assert (Hp : v * (1 - s) <= v) by nra.
  assert (Hq : v * (1 - s) <= v * (1 - s * f) <= v).
  { assert (0 <= s * f <= s) by nra. nra. }
  assert (Ht : v * (1 - s) <= v * (1 - s * (1 - f)) <= v).
  { assert (0 <= s * (1 - f) <= s) by nra. nra. }
  clearbody f.
  set (p := v * (1 - s)) in *. set (q := v * (1 - s * f)) in *. set (t := v * (1 - s * (1 - f))) in *.
  clearbody p q t.
  destruct Hc as [-> | [-> | [-> | [-> | [-> | [-> | ->]]]]]]; split;
    unfold Rmax, Rmin; repeat destruct Rle_dec; lra.
Qed.

Definition o_maxR (x y : R) : o_max ROps x y = Rmax x y.
Proof.
  unfold o_max. rsimpl. unfold Rmax. destruct (Rltb x y) eqn:L; [apply Rltb_true in L | apply Rltb_false in L];
    destruct (Rle_dec x y); lra.
Qed.
Definition o_minR (x y : R) : o_min ROps x y = Rmin x y.
Proof.
  unfold o_min. rsimpl. unfold Rmin. destruct (Rltb y x) eqn:L; [apply Rltb_true in L | apply Rltb_false in L];
    destruct (Rle_dec x y); lra.
Qed.

Theorem hsv_to_rgb_lightness h s v : in01 h -> in01 s -> 0 <= v ->
  lightness_rgb ROps (hsv_to_rgb ROps h s v) = v * (2 - s) / 2.
Proof.
  intros Hh Hs Hv. unfold in01 in Hh.
  assert (Hgen : forall i h6, (0 <= i <= 6)%Z -> IZR i <= h6 <= IZR i + 1 ->
            lightness_rgb ROps (hsv_sextant ROps i h6 s v) = v * (2 - s) / 2).
  { intros i h6 Hi H6. pose proof (hsv_sextant_maxmin i h6 s v Hi H6 Hs Hv) as M.
    destruct (hsv_sextant ROps i h6 s v) as [[r g] b]. unfold lightness_rgb.
    rewrite !o_maxR, !o_minR. destruct M as [-> ->]. rsimpl. field. }
  unfold hsv_to_rgb. rsimpl. cbv zeta.
  destruct (Reqb s 0) eqn:E; [apply Reqb_true in E | clear E].
  - subst s. unfold lightness_rgb. rewrite !o_maxR, !o_minR. rsimpl.
    unfold Rmax, Rmin; repeat destruct Rle_dec; try lra; field.
  - rb; apply Hgen; simpl IZR; try lra; try lia.
Qed.

(* ------------------------------------------- rgb_from_polar_coordinates *)
Lemma rgb_from_polar_eq az l :
  rgb_from_polar ROps az l =
  let '(h, s, v) := hsl_to_hsv ROps (Rfmod (az / (2 * PI)) 1) 1 l in hsv_to_rgb ROps h s v.
Proof.
  unfold rgb_from_polar, rgb_from_polar_coordinates. cbv zeta.
  set (X := hsl_to_hsv ROps _ _ _).
  change (hsl_to_hsv ROps (Rfmod (az / (2 * PI)) 1) 1 l) with X.
  destruct X as [[h s] v]. simpl fst; simpl snd.
  destruct (hsv_to_rgb ROps h s v) as [[r g] b]. reflexivity.
Qed.

Lemma color_of_polar_eq az p :
  color_of_polar ROps az p = rgb_from_polar ROps az (1 / 2 + p / 2).
Proof.
  unfold color_of_polar, direction2color_k, rgb_from_polar. cbv zeta.
  set (X := rgb_from_polar_coordinates ROps _ _ _).
  change (rgb_from_polar_coordinates ROps (hsv_to_rgb ROps) az (1 / 2 + p / 2)) with X.
  destruct X as [[r g] b]. reflexivity.
Qed.

Lemma hue_range az : 0 <= Rfmod (az / (2 * PI)) 1 < 1.
Proof. apply fmod_range. lra. Qed.

(* any azimuth, lightness in [0,1]: a proper RGB triple *)
Theorem rgb_from_polar_range az l : in01 l -> rgb01 (rgb_from_polar ROps az l).
Proof.
  intros Hl. rewrite rgb_from_polar_eq.
  pose proof (hsl_to_hsv_range (Rfmod (az / (2 * PI)) 1) 1 l) as H.
  destruct (hsl_to_hsv ROps (Rfmod (az / (2 * PI)) 1) 1 l) as [[h s] v].
  destruct H as (-> & Hs & Hv); [unfold in01; lra | exact Hl |].
  apply hsv_to_rgb_range; auto. pose proof (hue_range az). unfold in01. lra.
Qed.

(* any azimuth, polar coordinate in [0,1] (even [-1,1]): a proper RGB triple *)
Theorem color_of_polar_range az p : -1 <= p <= 1 -> rgb01 (color_of_polar ROps az p).
Proof. intros Hp. rewrite color_of_polar_eq. apply rgb_from_polar_range. unfold in01. lra. Qed.

(* closed form of the TSL key: hue from the azimuth, saturation 1 - polar, value 1 *)
Theorem color_of_polar_closed az p : 0 <= p <= 1 ->
  color_of_polar ROps az p = hsv_to_rgb ROps (Rfmod (az / (2 * PI)) 1) (1 - p) 1.
Proof.
  intros Hp. rewrite color_of_polar_eq, rgb_from_polar_eq.
  rewrite hsl_to_hsv_upper by lra.
  replace (2 * 1 * (1 - (1 / 2 + p / 2)) / (1 / 2 + p / 2 + 1 * (1 - (1 / 2 + p / 2)))) with (1 - p) by (field; lra).
  replace (1 / 2 + p / 2 + 1 * (1 - (1 / 2 + p / 2))) with 1 by field. reflexivity.
Qed.

(* max = value, min = value * (1 - saturation), for every hue in [0,1] *)
Theorem hsv_to_rgb_maxmin h s v : in01 h -> in01 s -> 0 <= v ->
  let '(r, g, b) := hsv_to_rgb ROps h s v in
  Rmax (Rmax r g) b = v /\ Rmin (Rmin r g) b = v * (1 - s).
Proof.
  intros Hh Hs Hv. unfold in01 in Hh.
  unfold hsv_to_rgb. rsimpl. cbv zeta.
  destruct (Reqb s 0) eqn:E; [apply Reqb_true in E | clear E].
  - subst s. unfold Rmax, Rmin; repeat destruct Rle_dec; split; lra.
  - rb; apply hsv_sextant_maxmin; auto; simpl IZR; try lra; try lia.
Qed.

(* HSL lightness of the colour of (azimuth, polar) is 1/2 + polar/2 *)
Theorem color_of_polar_lightness az p : 0 <= p <= 1 ->
  lightness_rgb ROps (color_of_polar ROps az p) = 1 / 2 + p / 2.
Proof.
  intros Hp. rewrite color_of_polar_closed by exact Hp.
  rewrite hsv_to_rgb_lightness.
  - field.
  - pose proof (hue_range az). unfold in01. lra.
  - unfold in01. lra.
  - lra.
Qed.

(* polar = 1 (the sector centre) is white ... *)
Theorem color_of_polar_white az : color_of_polar ROps az 1 = (1, 1, 1).
Proof.
  rewrite color_of_polar_closed by lra.
  unfold hsv_to_rgb. rsimpl. cbv zeta.
  destruct (Reqb (1 - 1) 0) eqn:E; [reflexivity|]. apply Reqb_false in E. exfalso. apply E. ring.
Qed.

(* ... and nothing else is: the centre is the unique lightest point *)
Theorem color_white_only_at_one az p : 0 <= p <= 1 ->
  color_of_polar ROps az p = (1, 1, 1) -> p = 1.
Proof.
  intros Hp H. pose proof (color_of_polar_lightness az p Hp) as L. rewrite H in L.
  unfold lightness_rgb in L. rewrite !o_maxR, !o_minR in L. revert L. rsimpl.
  unfold Rmax, Rmin; repeat destruct Rle_dec; lra.
Qed.

Theorem color_lighter_towards_centre az1 az2 p q : 0 <= p <= 1 -> 0 <= q <= 1 -> p < q ->
  lightness_rgb ROps (color_of_polar ROps az1 p) < lightness_rgb ROps (color_of_polar ROps az2 q).
Proof. intros Hp Hq Hpq. rewrite !color_of_polar_lightness by assumption. lra. Qed.

(* polar = 0 (the sector boundary) is fully saturated: max 1, min 0 *)
Theorem color_boundary_saturated az :
  let '(r, g, b) := color_of_polar ROps az 0 in
  Rmax (Rmax r g) b = 1 /\ Rmin (Rmin r g) b = 0.
Proof.
  rewrite color_of_polar_closed by lra.
  pose proof (hsv_to_rgb_maxmin (Rfmod (az / (2 * PI)) 1) (1 - 0) 1) as M.
  destruct (hsv_to_rgb ROps (Rfmod (az / (2 * PI)) 1) (1 - 0) 1) as [[r g] b].
  destruct M as [M1 M2]; [pose proof (hue_range az); unfold in01; lra | unfold in01; lra | lra |].
  split; [exact M1 | rewrite M2; ring].
Qed.

(* hue of an azimuth in [0, 2 pi) *)
Lemma fmod_small x : 0 <= x < 1 -> Rfmod x 1 = x.
Proof.
  intros Hx. unfold Rfmod. replace (x / 1) with x by field.
  destruct (base_Int_part x) as [H1 H2].
  assert (Hk : Int_part x = 0%Z).
  { assert (Int_part x < 1)%Z by (apply lt_IZR; simpl; lra).
    assert (-1 < Int_part x)%Z by (apply lt_IZR; simpl; lra). lia. }
  rewrite Hk. simpl. ring.
Qed.

Lemma hue_of_azimuth az : 0 <= az < 2 * PI -> Rfmod (az / (2 * PI)) 1 = az / (2 * PI).
Proof.
  intros Ha. apply fmod_small. pose proof PI_RGT_0.
  split.
  - apply Rmult_le_pos; [lra | left; apply Rinv_0_lt_compat; lra].
  - apply Rmult_lt_reg_r with (2 * PI); [lra|]. unfold Rdiv. rewrite Rmult_assoc, Rinv_l by lra. lra.
Qed.

(* the three corners of a three-vertex key: azimuth 0, 2pi/3, 4pi/3 on the
   boundary are pure red, green, blue *)
Theorem color_corner_red : color_of_polar ROps 0 0 = (1, 0, 0).
Proof.
  rewrite color_of_polar_closed by lra. rewrite hue_of_azimuth by (pose proof PI_RGT_0; lra).
  unfold hsv_to_rgb, hsv_sextant. rsimpl. cbv zeta.
  replace (0 / (2 * PI) * 6) with 0 by (field; pose proof PI_RGT_0; lra).
  rb; try lra. tup; ring.
Qed.

Theorem color_corner_green : color_of_polar ROps (2 * PI / 3) 0 = (0, 1, 0).
Proof.
  pose proof PI_RGT_0.
  rewrite color_of_polar_closed by lra. rewrite hue_of_azimuth by lra.
  unfold hsv_to_rgb, hsv_sextant. rsimpl. cbv zeta.
  replace (2 * PI / 3 / (2 * PI) * 6) with 2 by (field; lra).
  rb; try lra. tup; ring.
Qed.

Theorem color_corner_blue : color_of_polar ROps (4 * PI / 3) 0 = (0, 0, 1).
Proof.
  pose proof PI_RGT_0.
  rewrite color_of_polar_closed by lra. rewrite hue_of_azimuth by lra.
  unfold hsv_to_rgb, hsv_sextant. rsimpl. cbv zeta.
  replace (4 * PI / 3 / (2 * PI) * 6) with 4 by (field; lra).
  rb; try lra. tup; ring.
Qed.
