(* C04 corollaries instantiated on every named point group (real embedding). *)
From Coq Require Import Reals ZArith QArith List String Bool Lra.
From Verif Require Import Scalar RInst KField KtoR Quat QuatAlg GroupK Groups GroupFacts
  SymDot SymDotR SymDotK SymDotCor GroupReal.
Import ListNotations.
Local Open Scope R_scope.

Notation Rrot := (rot (T:=R)).

Lemma req_refl (a : Rrot) : req a a.
Proof. split; [reflexivity|left; reflexivity]. Qed.

Lemma qneg_invol (q : quat (T:=R)) : qneg ROps (qneg ROps q) = q.
Proof. qdestruct; qunfold; tuple_eq; ring. Qed.

Lemma req_trans (a b c : Rrot) : req a b -> req b c -> req a c.
Proof.
  intros [Hs1 H1] [Hs2 H2]. split; [congruence|].
  destruct H1 as [H1|H1], H2 as [H2|H2]; rewrite H1, H2; auto.
  left. apply qneg_invol.
Qed.

Lemma req_rmul_r (h a b : Rrot) : req a b -> req (rmul ROps h a) (rmul ROps h b).
Proof.
  intros [Hs [Hq|Hq]]; unfold rmul, req; cbn [fst snd]; rewrite Hs, Hq; split; auto.
  right. apply qmul_neg_r.
Qed.

Section OneGroup.
Variable g : gobs.
Hypothesis Hg : In g groups.
Let G := map rtoR (g_elems g).

Lemma group_right_closed (x : Rrot) : In x G -> snd x = false -> right_closed G (fst x).
Proof.
  intros Hx Hp h Hh.
  destruct (named_groups_are_real_groups g Hg) as [_ [Hc _]].
  destruct x as [q i]; cbn [fst snd] in *; subst i. apply Hc; assumption.
Qed.

Lemma group_right_closed_inv (x : Rrot) : In x G -> snd x = false -> right_closed G (qconj ROps (fst x)).
Proof.
  intros Hx Hp h Hh.
  destruct (named_groups_are_real_groups g Hg) as [_ [Hc Hi]].
  destruct (Hi x Hx) as [z [Hz Hr]].
  destruct (Hc h z Hh Hz) as [k [Hk Hrk]].
  exists k. split; [exact Hk|]. eapply req_trans; [|exact Hrk].
  apply req_rmul_r. destruct x as [q i]; cbn [fst snd] in *; subst i. exact Hr.
Qed.

(* for every named group: symmetric, and invariant under replacing either
   orientation by g*O with g a proper operation of the group *)
Theorem named_group_dot_symmetric (O1 O2 : quat (T:=R)) :
  code_dot ROps G O1 O2 = code_dot ROps G O2 O1.
Proof.
  unfold G. rewrite !(code_dot_is_brute_K _ _ _ (forallb_In _ _ all_same_sym_ok g Hg)).
  apply brute_dot_symmetric.
Qed.

Theorem named_group_dot_invariant (x : Rrot) (O1 O2 : quat (T:=R)) :
  In x G -> snd x = false ->
  code_dot ROps G (qmul ROps (fst x) O1) O2 = code_dot ROps G O1 O2 /\
  code_dot ROps G O1 (qmul ROps (fst x) O2) = code_dot ROps G O1 O2.
Proof.
  intros Hx Hp.
  destruct (named_groups_are_real_groups g Hg) as [Hu _].
  unfold G. rewrite !(code_dot_is_brute_K _ _ _ (forallb_In _ _ all_same_sym_ok g Hg)).
  split; [apply brute_dot_left_equiv | apply brute_dot_right_equiv];
    auto using group_right_closed, group_right_closed_inv.
Qed.
End OneGroup.
