(* C13 -- rotations through the stored Euler angles (over the reals), using the
   C01 lemmas about the generated kernels qu2eu / eu2qu. *)
From Coq Require Import Reals ZArith List Bool Lra.
From Verif Require Import Scalar RInst QuatKernels Conversions Quat QuatAlg Atan2 ConvEuler ConvEulerInv ConvInj
  C13Store C13Map.
Local Open Scope R_scope.

Definition qnormalizeR := qnormalize ROps.

(* r' is the same rotation as r: same improper flag, quaternion equal up to
   sign to the normalised quaternion of r *)
Definition rot_same (r r' : rotation (T:=R)) : Prop :=
  snd r' = snd r /\
  (fst r' = qnormalizeR (fst r) \/ fst r' = qneg ROps (qnormalizeR (fst r))).

Lemma qnormalize_unit_id (q : quat (T:=R)) : qnorm2 ROps q = 1 -> qnormalizeR q = q.
Proof.
  intros H. unfold qnormalizeR, qnormalize. rewrite H. destruct q as [[[a b] c] d].
  unfold qscale, fz. rsimpl. rewrite sqrt_1. repeat f_equal; field.
Qed.

(* generic Euler branch of the normalised quaternion, outside the kernels' 1e-9 bands *)
Definition euler_generic (q : quat (T:=R)) : Prop :=
  let '(a, b, c, d) := qnormalizeR q in
  a * a + b * b + c * c + d * d = 1 /\ 1 / 1000000000 <= chi a b c d /\
  clear_angle (t0 a b c d) /\ clear_angle (t1 a b c d) /\ clear_angle (t2 a b c d).

(* the model's reload of one rotation (Model/C13Map.v), over the reals *)
Definition reload_rot (r : rotation (T:=R)) : rotation (T:=R) := C13Map.reload_rot ROps r.

Theorem rot_roundtrip_generic (r : rotation (T:=R)) :
  euler_generic (fst r) -> rot_same r (reload_rot r).
Proof.
  intros Hg. unfold rot_same, reload_rot, C13Map.reload_rot, to_euler. simpl. split; [reflexivity|].
  unfold euler_generic, qnormalizeR in *. destruct (qnormalize ROps (fst r)) as [[[a b] c] d].
  destruct Hg as (Hu & Hc & G0 & G1 & G2). now apply eu2qu_qu2eu_generic.
Qed.

(* the improper flag is stored and set again on the reloaded rotation *)
Theorem rot_improper_kept (r : rotation (T:=R)) : snd (reload_rot r) = snd r.
Proof. reflexivity. Qed.

Lemma qu2om_qneg (q : quat (T:=R)) : qu2om ROps (qneg ROps q) = qu2om ROps q.
Proof. destruct q as [[[a b] c] d]. unfold qu2om, qu2om_single, qneg. cbv zeta. rsimpl.
  repeat match goal with |- (_, _) = (_, _) => apply f_equal2 end; ring.
Qed.

(* Euler gimbal branch Phi = pi: the stored angles describe another rotation *)
Theorem rot_gimbal_pi_refuted :
  exists r : rotation (T:=R), snd r = false /\ qnorm2 ROps (fst r) = 1 /\ ~ rot_same r (reload_rot r).
Proof.
  destruct qu2eu_gimbal_pi_refuted as [q [Hu Hne]]. exists (q, false). split; [reflexivity|]. split; [exact Hu|].
  intros [_ H]. unfold reload_rot, C13Map.reload_rot, to_euler in H. simpl in H.
  fold qnormalizeR in H. rewrite (qnormalize_unit_id q Hu) in H. apply Hne.
  rewrite <- qu2om_eu2qu. destruct H as [-> | ->]; [reflexivity|apply qu2om_qneg].
Qed.
