(* exact check of the cover trees and Gordan certificates of the fundamental sectors in Gen/SectorCerts05.v
   (eight files so that make -j runs them in parallel) *)
From Coq Require Import List Bool.
From Verif Require Import CoverCheck SectorCerts05.
Lemma sector_certs_ok_05 : forallb sc_ok sector_certs_05 = true.
Proof. vm_compute. reflexivity. Qed.
