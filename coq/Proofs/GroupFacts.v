(* Lifting of the boolean group checks to propositions, and the exhaustive
   (vm_compute) facts about the regenerated group data. *)
From Coq Require Import ZArith QArith List String Bool.
From Verif Require Import Scalar KField Quat GroupK ITARef Groups GroupChecks.
Import ListNotations. Open Scope string_scope.

Lemma kmem_spec r G : kmem r G = true <-> exists s, In s G /\ kr_eqb r s = true.
Proof. unfold kmem. apply existsb_exists. Qed.

Lemma kclosed_spec G : kclosed G = true ->
  forall x y, In x G -> In y G -> exists z, In z G /\ kr_eqb (kmul x y) z = true.
Proof.
  unfold kclosed. intros H x y Hx Hy.
  rewrite forallb_forall in H. specialize (H x Hx). rewrite forallb_forall in H.
  specialize (H y Hy). apply kmem_spec in H. exact H.
Qed.

Lemma kinv_closed_spec G : kinv_closed G = true ->
  forall x, In x G -> exists z, In z G /\ kr_eqb (kinv x) z = true.
Proof.
  unfold kinv_closed. intros H x Hx. rewrite forallb_forall in H.
  apply kmem_spec. auto.
Qed.

(* a list that passes kis_group is a finite group of rotations (up to the
   overall sign of quaternions): identity, closure, inverses, no duplicates *)
Theorem kis_group_spec G : kis_group G = true ->
  (exists e, In e G /\ kr_eqb kid e = true) /\
  (forall x y, In x G -> In y G -> exists z, In z G /\ kr_eqb (kmul x y) z = true) /\
  (forall x, In x G -> exists z, In z G /\ kr_eqb (kinv x) z = true) /\
  knodup G = true.
Proof.
  unfold kis_group. intros H. repeat (apply andb_prop in H; destruct H as [H ?]).
  repeat split.
  - apply kmem_spec; assumption.
  - apply kclosed_spec; assumption.
  - apply kinv_closed_spec; assumption.
  - assumption.
Qed.

Lemma forallb_In {A} (f : A -> bool) l : forallb f l = true -> forall x, In x l -> f x = true.
Proof. intros H x Hx. rewrite forallb_forall in H. auto. Qed.

(* ---- exhaustive facts (each is one vm_compute over the finite data) ---- *)
Lemma ita_reference_consistent : ita_table_ok = true.
Proof. vm_compute. reflexivity. Qed.

Lemma all_groups_ok : forallb group_ok groups = true.
Proof. vm_compute. reflexivity. Qed.

Lemma all_laue_ok : forallb laue_ok groups = true.
Proof. vm_compute. reflexivity. Qed.

Lemma all_proper_ok : forallb (fun g => proper_ok g && laue_proper_ok g) groups = true.
Proof. vm_compute. reflexivity. Qed.

Lemma all_queries_ok : forallb (fun g => inversion_ok g && is_proper_ok g && subgroups_ok g) groups = true.
Proof. vm_compute. reflexivity. Qed.

Lemma ita_ok_outside_mm2 :
  forallb (fun g => String.eqb (g_name g) "mm2" || ita_ok g) groups = true.
Proof. vm_compute. reflexivity. Qed.

Lemma ita_mm2_fails : failing_groups ita_ok = ["mm2"].
Proof. vm_compute. reflexivity. Qed.

Lemma sg_ok_outside_known :
  forallb (fun s => in_Z (sg_n s) sg_known_bad || sg_ok s) spacegroups = true.
Proof. vm_compute. reflexivity. Qed.

Lemma sg_known_bad_fail : failing_sgs sg_ok = sg_known_bad.
Proof. vm_compute. reflexivity. Qed.

Lemma sg_count : List.length spacegroups = 230%nat /\ map sg_n spacegroups = map Z.of_nat (seq 1 230).
Proof. vm_compute. split; reflexivity. Qed.

Lemma sg_phase_same : forallb sg_phase_pg_same spacegroups = true.
Proof. vm_compute. reflexivity. Qed.

Lemma group_count : List.length groups = 38%nat.
Proof. vm_compute. reflexivity. Qed.
